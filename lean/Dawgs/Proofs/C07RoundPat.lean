import Dawgs.Proofs.C07RoundExpr4
set_option linter.unusedSimpArgs false
set_option linter.unusedVariables false
set_option linter.unusedSectionVars false
/-! `build ∘ treeOf = id`: properties, node and relationship patterns, pattern elements, pattern parts. -/
namespace Dawgs.C07
open Dawgs.Grammar Dawgs.C08

section Pat
variable {N : Names} (hN : N.ok = true) (recT : Expr → Tree) (recW : Expr → Bool) (Hrec : RecOK N recT recW)
include hN Hrec

theorem getText_varNode (g : Nat) (s : String) : getText (g + 3) (varNode N s) = s := by
  simp [varNode, symName, Names.nd, getText, Names.lf, String.join]

theorem tProps_node (x : Expr) (hw : wProps' recW x = true) : ∃ ks, tProps N recT x = N.nd "oC_Properties" ks := by
  cases x <;> simp [wProps'] at hw <;> exact ⟨_, rfl⟩

theorem size_tProps_ge (x : Expr) (hw : wProps' recW x = true) : 4 ≤ size (tProps N recT x) := by
  cases x <;> simp [wProps'] at hw
  · simp [tProps, symName]
  · simp [tProps, tMap]; omega

theorem bProps_tProps (x : Expr) (g : Nat) (hw : wProps' recW x = true) (hg : 2 * size (tProps N recT x) + 2 ≤ g) :
    bProps N g (tProps N recT x) = .ok x := by
  cases x <;> simp [wProps'] at hw
  case param s =>
    simp only [tProps, symName, size_nd, size_lf, sizeL_cons', sizeL_nil'] at hg
    obtain ⟨g', rfl⟩ : ∃ g', g = g' + 4 := ⟨g - 4, by omega⟩
    have hgt : getText (g' + 2 + 2) (symName N s) = s := getText_symName hN (g' + 2) s
    rw [show g' + 4 = (g' + 3) + 1 from rfl, bProps]
    bsimp [tProps, symName]
    simp only [symName] at hgt
    exact hgt
  case map kvs =>
    simp only [tProps, size_nd, sizeL_cons', sizeL_nil'] at hg
    obtain ⟨g', rfl⟩ : ∃ g', g = g' + 1 := ⟨g - 1, by omega⟩
    rw [bProps]
    have hr : ruleNameOf N (tMap N recT kvs) = "oC_MapLiteral" := by bsimp [tMap]
    have ho : onlyKid (tProps N recT (.map kvs)) = some (tMap N recT kvs) := by
      simp only [tProps, tMap]; bsimp []
    simp only [ho, hr]
    exact bMap_tMap hN recT recW Hrec kvs g' hw (by omega)

/-- the optional properties subtree, as a node with opaque children -/
theorem optProps_node (p : Option Expr) (hw : (match p with | some x => wProps' recW x | none => true) = true) :
    ∃ pk : Option (List Tree), optList p (tProps N recT) = optList pk (N.nd "oC_Properties") ∧
      p.map (tProps N recT) = pk.map (N.nd "oC_Properties") := by
  cases p with
  | none => exact ⟨none, rfl, rfl⟩
  | some x =>
    obtain ⟨ks, hks⟩ := tProps_node hN recT recW Hrec x hw
    exact ⟨some ks, by simp [optList, hks], by simp [hks]⟩

theorem node_kids (v : Option String) (ls : List String) (pk : Option (List Tree)) :
    kidOfRule N (N.nd "oC_NodePattern" ([N.lf "T__2" "("] ++ optList v (varNode N) ++ (if ls.isEmpty then [] else [labelsNode N ls]) ++
        optList pk (N.nd "oC_Properties") ++ [N.lf "T__3" ")"])) "oC_Variable" = v.map (varNode N) ∧
    kidOfRule N (N.nd "oC_NodePattern" ([N.lf "T__2" "("] ++ optList v (varNode N) ++ (if ls.isEmpty then [] else [labelsNode N ls]) ++
        optList pk (N.nd "oC_Properties") ++ [N.lf "T__3" ")"])) "oC_NodeLabels" = (if ls.isEmpty then none else some (labelsNode N ls)) ∧
    kidOfRule N (N.nd "oC_NodePattern" ([N.lf "T__2" "("] ++ optList v (varNode N) ++ (if ls.isEmpty then [] else [labelsNode N ls]) ++
        optList pk (N.nd "oC_Properties") ++ [N.lf "T__3" ")"])) "oC_Properties" = pk.map (N.nd "oC_Properties") := by
  cases v <;> cases ls <;> cases pk <;> bsimp [optList, varNode, labelsNode]

theorem bNode_tNode (n : PatEl) (g : Nat) (hw : wNode recW n = true) (hg : 2 * size (tNode N recT n) + 2 ≤ g) :
    bNode N g (tNode N recT n) = .ok n := by
  cases n with
  | rel _ _ _ _ _ => simp [wNode] at hw
  | node v ls p =>
    simp only [wNode] at hw
    obtain ⟨pk, hpk, hpm⟩ := optProps_node hN recT recW Hrec p hw
    have hsz : size (tNode N recT (.node v ls p)) = 3 + sizeL (optList v (varNode N)) + sizeL (if ls.isEmpty then [] else [labelsNode N ls]) +
        sizeL (optList p (tProps N recT)) := by simp [tNode]; omega
    obtain ⟨g', rfl⟩ : ∃ g', g = g' + 5 := ⟨g - 5, by omega⟩
    obtain ⟨h1, h2, h3⟩ := node_kids hN recT recW Hrec v ls pk
    rw [show g' + 5 = (g' + 4) + 1 from rfl, bNode]
    simp only [tNode, hpk, h1, h2, h3]
    rw [← hpm]
    have hv : Option.map (getText (g' + 4 + 1)) (Option.map (varNode N) v) = v := by
      cases v with
      | none => rfl
      | some s => simp [getText_varNode hN recT recW Hrec (g' + 2) s]
    rw [hv]
    have hx : ∀ x, p = some x → bProps N (g' + 4) (tProps N recT x) = .ok x := by
      intro x hp
      subst hp
      have hx : sizeL (optList (some x) (tProps N recT)) = size (tProps N recT x) := by simp [optList]
      rw [hsz] at hg
      exact bProps_tProps hN recT recW Hrec x (g' + 4) hw (by omega)
    cases ls with
    | nil =>
      cases p with
      | none => rfl
      | some x => simp [hx x rfl, Except.map]
    | cons l ls' =>
      have hl := labels_eq hN recT recW Hrec (g' + 1) (l :: ls')
      simp only [List.isEmpty_cons, Bool.false_eq_true, if_false]
      rw [show g' + 1 + 4 = g' + 4 + 1 from by omega] at hl
      cases p with
      | none => exact congrArg (fun z => Except.ok (PatEl.node v z none)) hl
      | some x =>
        simp only [Option.map_some, hx x rfl, Except.map]
        exact congrArg (fun z => Except.ok (PatEl.node v z (some x))) hl

/-! ### relationship patterns -/

theorem rangeTok_star (f : Nat) : rangeTok N f (N.lf "T__9" "*") = some .star := by
  simp (config := { decide := true }) [rangeTok, Names.lf, leafType_mkLeaf, tk hN]

theorem rangeTok_dots (f : Nat) : rangeTok N f (N.lf "T__11" "..") = some .dots := by
  simp (config := { decide := true }) [rangeTok, Names.lf, leafType_mkLeaf, tk hN]

theorem rangeTok_intLit (f : Nat) (a : Int) (h : wBound (some a) = true) : rangeTok N (f + 2) (intLit N a) = some (.int (some a)) := by
  simp only [wBound, Bool.and_eq_true, decide_eq_true_eq] at h
  have h1 : ((a.toNat : Nat) : Int) = a := Int.toNat_of_nonneg h.1
  have h2 := parseInt64_toString a.toNat (by rw [h1]; exact h.2)
  rw [h1] at h2
  have hg : getText (f + 2) (intLit N a) = toString a.toNat := by simp [intLit, Names.nd, Names.lf, getText, String.join]
  simp only [rangeTok, intLit, Names.nd] at hg ⊢
  rw [hg, h2]

theorem rangeOf_rangeNode (f : Nat) (r : Option Int × Option Int) (h1 : wBound r.1 = true) (h2 : wBound r.2 = true) :
    rangeOf N (f + 2) (rangeNode N r) = .ok (some r) := by
  obtain ⟨a, b⟩ := r
  cases a <;> cases b <;> dsimp only at h1 h2 <;>
    (cases hex : N.exactHops) <;>
    simp [rangeOf, rangeNode, kids_nd, optList, List.filterMap, rangeTok_star hN recT recW Hrec, rangeTok_dots hN recT recW Hrec,
      rangeTok_intLit hN recT recW Hrec f, h1, h2, parseRangeWith, hex, RTok.isDots, rangeStep]

theorem relTypes_tail (f : Nat) : ∀ rest : List String,
    (((rest.map (fun k' => [N.lf "T__8" "|", schemaName N "oC_RelTypeName" k'])).flatten).filter (isRuleKid N "oC_RelTypeName")).map
      (getText (f + 4)) = rest
  | [] => by simp
  | k :: rest => by
    have ih := relTypes_tail f rest
    have hgt : getText (f + 4) (schemaName N "oC_RelTypeName" k) = k := getText_schemaName hN f _ k
    simp only [List.map_cons, List.flatten_cons, List.filter_append]
    bsimp [schemaName]
    simp only [schemaName] at hgt
    bsimp_at ih [schemaName]
    exact ⟨hgt, ih⟩

theorem relTypes_eq (f : Nat) (k : String) (rest : List String) :
    (kidsOfRule N (relTypesNode N (k :: rest)) "oC_RelTypeName").map (getText (f + 4)) = k :: rest := by
  have ih := relTypes_tail hN recT recW Hrec f rest
  have hgt : getText (f + 4) (schemaName N "oC_RelTypeName" k) = k := getText_schemaName hN f _ k
  simp only [relTypesNode, kidsOfRule, kids_nd]
  bsimp [schemaName]
  simp only [schemaName] at hgt
  bsimp_at ih [schemaName]
  exact ⟨hgt, ih⟩

theorem rel_kids (d : Nat) (dk : List Tree) :
    (kidOfRule N (N.nd "oC_RelationshipPattern" ((if d == 0 then [N.nd "oC_LeftArrowHead" [N.lf "T__13" "<"]] else []) ++
       [N.nd "oC_Dash" [N.lf "T__19" "-"], N.nd "oC_RelationshipDetail" dk, N.nd "oC_Dash" [N.lf "T__19" "-"]] ++
       (if d == 1 then [N.nd "oC_RightArrowHead" [N.lf "T__14" ">"]] else []))) "oC_LeftArrowHead").isSome = (d == 0) ∧
    (kidOfRule N (N.nd "oC_RelationshipPattern" ((if d == 0 then [N.nd "oC_LeftArrowHead" [N.lf "T__13" "<"]] else []) ++
       [N.nd "oC_Dash" [N.lf "T__19" "-"], N.nd "oC_RelationshipDetail" dk, N.nd "oC_Dash" [N.lf "T__19" "-"]] ++
       (if d == 1 then [N.nd "oC_RightArrowHead" [N.lf "T__14" ">"]] else []))) "oC_RightArrowHead").isSome = (d == 1) ∧
    kidOfRule N (N.nd "oC_RelationshipPattern" ((if d == 0 then [N.nd "oC_LeftArrowHead" [N.lf "T__13" "<"]] else []) ++
       [N.nd "oC_Dash" [N.lf "T__19" "-"], N.nd "oC_RelationshipDetail" dk, N.nd "oC_Dash" [N.lf "T__19" "-"]] ++
       (if d == 1 then [N.nd "oC_RightArrowHead" [N.lf "T__14" ">"]] else []))) "oC_RelationshipDetail" =
      some (N.nd "oC_RelationshipDetail" dk) := by
  by_cases h0 : d = 0 <;> by_cases h1 : d = 1 <;> bsimp [h0, h1]

theorem detail_kids (v : Option String) (k : Option (String × List String)) (rg : Option (Option Int × Option Int)) (pk : Option (List Tree)) :
    kidOfRule N (N.nd "oC_RelationshipDetail" ([N.lf "T__4" "["] ++ optList v (varNode N) ++ optList k (fun q => relTypesNode N (q.1 :: q.2)) ++
        optList rg (rangeNode N) ++ optList pk (N.nd "oC_Properties") ++ [N.lf "T__5" "]"])) "oC_Variable" = v.map (varNode N) ∧
    kidOfRule N (N.nd "oC_RelationshipDetail" ([N.lf "T__4" "["] ++ optList v (varNode N) ++ optList k (fun q => relTypesNode N (q.1 :: q.2)) ++
        optList rg (rangeNode N) ++ optList pk (N.nd "oC_Properties") ++ [N.lf "T__5" "]"])) "oC_RelationshipTypes" =
          k.map (fun q => relTypesNode N (q.1 :: q.2)) ∧
    kidOfRule N (N.nd "oC_RelationshipDetail" ([N.lf "T__4" "["] ++ optList v (varNode N) ++ optList k (fun q => relTypesNode N (q.1 :: q.2)) ++
        optList rg (rangeNode N) ++ optList pk (N.nd "oC_Properties") ++ [N.lf "T__5" "]"])) "oC_RangeLiteral" = rg.map (rangeNode N) ∧
    kidOfRule N (N.nd "oC_RelationshipDetail" ([N.lf "T__4" "["] ++ optList v (varNode N) ++ optList k (fun q => relTypesNode N (q.1 :: q.2)) ++
        optList rg (rangeNode N) ++ optList pk (N.nd "oC_Properties") ++ [N.lf "T__5" "]"])) "oC_Properties" = pk.map (N.nd "oC_Properties") := by
  cases v <;> cases k <;> cases rg <;> cases pk <;> bsimp [optList, varNode, relTypesNode, rangeNode]

/-- the kinds as an optional head/tail pair -/
def kindsOpt (ks : List String) : Option (String × List String) := match ks with | [] => none | k :: r => some (k, r)

theorem kindsOpt_list (ks : List String) :
    (if ks.isEmpty then [] else [relTypesNode N ks]) = optList (kindsOpt ks) (fun q => relTypesNode N (q.1 :: q.2)) := by
  cases ks <;> simp [kindsOpt, optList]

theorem dir_eq (d : Nat) (h : d ≤ 2) :
    (if ((d == 0) && (d == 1)) = true then 2 else if (d == 0) = true then 0 else if (d == 1) = true then 1 else 2) = d := by
  match d, h with
  | 0, _ => rfl
  | 1, _ => rfl
  | 2, _ => rfl
  | n + 3, h => omega

theorem bRel_tRel (n : PatEl) (g : Nat) (hw : wRel recW n = true) (hg : 2 * size (tRel N recT n) + 2 ≤ g) :
    bRel N g (tRel N recT n) = .ok n := by
  cases n with
  | node _ _ _ => simp [wRel] at hw
  | rel v ks d rg p =>
    simp only [wRel, Bool.and_eq_true, decide_eq_true_eq] at hw
    obtain ⟨⟨⟨hd, hks⟩, hrg⟩, hp⟩ := hw
    obtain ⟨pk, hpk, hpm⟩ := optProps_node hN recT recW Hrec p hp
    have hsz : 6 + sizeL (optList p (tProps N recT)) ≤ size (tRel N recT (.rel v ks d rg p)) := by simp [tRel]; omega
    obtain ⟨g', rfl⟩ : ∃ g', g = g' + 5 := ⟨g - 5, by omega⟩
    obtain ⟨r1, r2, r3⟩ := rel_kids hN recT recW Hrec d ([N.lf "T__4" "["] ++ optList v (varNode N) ++
      optList (kindsOpt ks) (fun q => relTypesNode N (q.1 :: q.2)) ++ optList rg (rangeNode N) ++ optList pk (N.nd "oC_Properties") ++ [N.lf "T__5" "]"])
    obtain ⟨d1, d2, d3, d4⟩ := detail_kids hN recT recW Hrec v (kindsOpt ks) rg pk
    rw [show g' + 5 = (g' + 4) + 1 from rfl, bRel]
    simp only [tRel, hpk, kindsOpt_list hN recT recW Hrec, r1, r2, r3, d1, d2, d3, d4, dir_eq hN recT recW Hrec d hd]
    rw [← hpm]
    have hv : Option.map (getText (g' + 4 + 1)) (Option.map (varNode N) v) = v := by
      cases v with
      | none => rfl
      | some s => simp [getText_varNode hN recT recW Hrec (g' + 2) s]
    rw [hv]
    have hx : ∀ x, p = some x → bProps N (g' + 4) (tProps N recT x) = .ok x := by
      intro x hp'
      subst hp'
      have hx : sizeL (optList (some x) (tProps N recT)) = size (tProps N recT x) := by simp [optList]
      exact bProps_tProps hN recT recW Hrec x (g' + 4) hp (by omega)
    have hed : ks.eraseDups = ks := eq_of_beq hks
    have hrange : ∀ r, rg = some r → rangeOf N (g' + 4 + 1) (rangeNode N r) = .ok (some r) := by
      intro r hr
      subst hr
      simp only [Bool.and_eq_true] at hrg
      exact rangeOf_rangeNode hN recT recW Hrec (g' + 3) r hrg.1 hrg.2
    cases ks with
    | nil =>
      cases rg with
      | none =>
        cases p with
        | none => simp [kindsOpt]
        | some x => simp [kindsOpt, hx x rfl, Except.map]
      | some r =>
        cases p with
        | none => simp [kindsOpt, hrange r rfl]
        | some x => simp [kindsOpt, hrange r rfl, hx x rfl, Except.map]
    | cons k rest =>
      have hk := relTypes_eq hN recT recW Hrec (g' + 1) k rest
      rw [show g' + 1 + 4 = g' + 4 + 1 from by omega] at hk
      cases rg with
      | none =>
        cases p with
        | none => simp [kindsOpt, hk, hed]
        | some x => simp [kindsOpt, hk, hed, hx x rfl, Except.map]
      | some r =>
        cases p with
        | none => simp [kindsOpt, hk, hed, hrange r rfl]
        | some x => simp [kindsOpt, hk, hed, hrange r rfl, hx x rfl, Except.map]

/-! ### pattern elements -/

theorem tNode_node (n : PatEl) (hw : wNode recW n = true) : ∃ ks, tNode N recT n = N.nd "oC_NodePattern" ks := by
  cases n <;> simp [wNode] at hw; exact ⟨_, rfl⟩

theorem tRel_node (n : PatEl) (hw : wRel recW n = true) : ∃ ks, tRel N recT n = N.nd "oC_RelationshipPattern" ks := by
  cases n <;> simp [wRel] at hw; exact ⟨_, rfl⟩

theorem filter_pairUp_isNode : ∀ rest : List PatEl, (pairUp N recT rest).filter isNode = pairUp N recT rest
  | [] => by simp [pairUp]
  | [_] => by simp [pairUp]
  | r :: n :: rest => by simp [pairUp, filter_pairUp_isNode rest, List.filter]

theorem filter_pairUp_pe : ∀ rest : List PatEl, (pairUp N recT rest).filter (isRuleKid N "oC_PatternElement") = []
  | [] => by simp [pairUp]
  | [_] => by simp [pairUp]
  | r :: n :: rest => by
    have ih := filter_pairUp_pe rest
    simp only [pairUp]
    bsimp [ih]

theorem bChainKids_pairUp : ∀ (rest : List PatEl) (g : Nat), wPairs recW rest = true → 2 * sizeL (pairUp N recT rest) + 3 ≤ g →
    bChainKids N g (pairUp N recT rest) = .ok rest
  | [], g, _, hg => by
    obtain ⟨g', rfl⟩ : ∃ g', g = g' + 1 := ⟨g - 1, by omega⟩
    simp [pairUp, bChainKids]
  | [_], _, hw, _ => by simp [wPairs] at hw
  | r :: n :: rest, g, hw, hg => by
    simp only [wPairs, Bool.and_eq_true] at hw
    obtain ⟨⟨hr, hn⟩, hrest⟩ := hw
    simp only [pairUp, sizeL_cons', size_nd, sizeL_nil'] at hg
    obtain ⟨g', rfl⟩ : ∃ g', g = g' + 1 := ⟨g - 1, by omega⟩
    have ih := bChainKids_pairUp rest g' hrest (by omega)
    have h1 := bRel_tRel hN recT recW Hrec r g' hr (by omega)
    have h2 := bNode_tNode hN recT recW Hrec n g' hn (by omega)
    obtain ⟨rk, hrk⟩ := tRel_node hN recT recW Hrec r hr
    obtain ⟨nk, hnk⟩ := tNode_node hN recT recW Hrec n hn
    simp only [pairUp]
    rw [bChainKids]
    rw [hrk] at h1 ⊢
    rw [hnk] at h2 ⊢
    bsimp [ih, h1, h2]

theorem bChainEls_tPatEl (els : List PatEl) (g : Nat) (hw : wPatEl recW els = true) (hg : 2 * size (tPatEl N recT els) + 2 ≤ g) :
    bChainEls N g (tPatEl N recT els) = .ok els := by
  cases els with
  | nil => simp [wPatEl] at hw
  | cons n rest =>
    simp only [wPatEl, Bool.and_eq_true] at hw
    simp only [tPatEl, size_nd, sizeL_cons'] at hg
    obtain ⟨g', rfl⟩ : ∃ g', g = g' + 2 := ⟨g - 2, by omega⟩
    have h1 := bNode_tNode hN recT recW Hrec n g' hw.1 (by omega)
    have h2 := bChainKids_pairUp hN recT recW Hrec rest g' hw.2 (by have := size_pos (tNode N recT n); omega)
    obtain ⟨nk, hnk⟩ := tNode_node hN recT recW Hrec n hw.1
    have hf1 := filter_pairUp_isNode hN recT recW Hrec rest
    have hf2 := filter_pairUp_pe hN recT recW Hrec rest
    simp only [tPatEl]
    rw [show g' + 2 = (g' + 1) + 1 from rfl, bChainEls]
    rw [hnk] at h1 ⊢
    have hk : kidOfRule N (N.nd "oC_PatternElement" (N.nd "oC_NodePattern" nk :: pairUp N recT rest)) "oC_PatternElement" = none := by
      bsimp [hf2]
    have hrk : ruleKids (N.nd "oC_PatternElement" (N.nd "oC_NodePattern" nk :: pairUp N recT rest)) = N.nd "oC_NodePattern" nk :: pairUp N recT rest := by
      bsimp [hf1]
    have hrn : ruleNameOf N (N.nd "oC_PatternElement" (N.nd "oC_NodePattern" nk :: pairUp N recT rest)) = "oC_PatternElement" := by bsimp []
    simp only [hrn, hk, hrk]
    rw [bChainKids]
    bsimp [h1, h2, Except.map]

theorem tPatEl_node (els : List PatEl) (hw : wPatEl recW els = true) : ∃ ks, tPatEl N recT els = N.nd "oC_PatternElement" ks := by
  cases els <;> simp [wPatEl] at hw; exact ⟨_, rfl⟩

theorem bPatternPart_tPart (p : PatternPart) (g : Nat) (hw : wPart recW p = true) (hg : 2 * size (tPart N recT p) + 2 ≤ g) :
    bPatternPart N g (tPart N recT p) = .ok p := by
  obtain ⟨pv, sh, al, els⟩ := p
  simp only [wPart, Bool.and_eq_true] at hw
  obtain ⟨hsa, hels⟩ := hw
  obtain ⟨ek, hek⟩ := tPatEl_node hN recT recW Hrec els hels
  have hsz : size (tPatEl N recT els) + 2 ≤ size (tPart N recT ⟨pv, sh, al, els⟩) := by
    cases sh <;> cases al <;> simp [tPart] <;> omega
  have hb := bChainEls_tPatEl hN recT recW Hrec els g hels (by omega)
  obtain ⟨g', rfl⟩ : ∃ g', g = g' + 3 := ⟨g - 3, by have := size_pos (tPatEl N recT els); omega⟩
  unfold bPatternPart
  rw [hek] at hb
  cases pv with
  | none =>
    cases sh <;> cases al <;> simp at hsa <;> simp only [tPart, hek] <;> bsimp [hb, Except.map]
  | some s =>
    have hv := getText_varNode hN recT recW Hrec g' s
    simp only [varNode] at hv
    cases sh <;> cases al <;> simp at hsa <;> simp only [tPart, hek] <;> bsimp [hb, Except.map, varNode, hv]

end Pat
end Dawgs.C07
