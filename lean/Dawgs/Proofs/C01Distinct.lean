import Dawgs.Model.C01Distinct
import Dawgs.Proofs.C01Order
/-
C01 / S1d — RETURN DISTINCT over a node match: both evaluators keep the first row of every class of equal rows, with the same scan
(`dedupRows` / `Cy.dedupBy`); on the rows of the stage the two notions of "equal row" coincide when the properties read hold scalars.
-/
namespace Dawgs.C01.Proofs
open Dawgs Dawgs.Sql

-- ------------------------------------------------------------------ the common de-duplication scan

/-- keep the first element of every class of `rel`-related elements (the scan both evaluators use) -/
def dedupG {α : Type} (rel : α → α → Bool) (xs : List α) : List α :=
  (xs.foldl (fun acc r => if acc.any (fun x => rel x r) then acc else r :: acc) []).reverse

theorem dedupRows_eq {α : Type} (rows : List (List Val × α)) : dedupRows rows = dedupG (fun a b => rowSame a.1 b.1) rows := rfl

theorem dedupBy_eq {α : Type} (eq : α → α → Bool) (xs : List α) : Cy.dedupBy eq xs = dedupG eq xs := rfl

theorem dedup_foldl_map {α β : Type} (f : α → β) (rel : α → α → Bool) (rel' : β → β → Bool) (S : α → Prop)
    (h : ∀ a b, S a → S b → rel' (f a) (f b) = rel a b) : ∀ (ys acc : List α), (∀ a ∈ acc, S a) → (∀ a ∈ ys, S a) →
    (ys.map f).foldl (fun acc r => if acc.any (fun x => rel' x r) then acc else r :: acc) (acc.map f) =
      (ys.foldl (fun acc r => if acc.any (fun x => rel x r) then acc else r :: acc) acc).map f
  | [], acc, _, _ => rfl
  | y :: ys, acc, hacc, hys => by
    have hy : S y := hys y (List.mem_cons_self ..)
    have hany : (acc.map f).any (fun x => rel' x (f y)) = acc.any (fun x => rel x y) := by
      rw [List.any_map]
      have hall : ∀ a ∈ acc, ((fun x => rel' x (f y)) ∘ f) a = (fun x => rel x y) a := fun a ha => h a y (hacc a ha) hy
      induction acc with
      | nil => rfl
      | cons a acc ih =>
        simp only [List.any_cons]
        rw [hall a (List.mem_cons_self ..), ih (fun b hb => hacc b (List.mem_cons_of_mem _ hb)) (fun b hb => hall b (List.mem_cons_of_mem _ hb))]
    simp only [List.map_cons, List.foldl_cons, hany]
    cases hc : acc.any (fun x => rel x y) with
    | true =>
      simp only [if_true]
      exact dedup_foldl_map f rel rel' S h ys acc hacc (fun a ha => hys a (List.mem_cons_of_mem _ ha))
    | false =>
      simp only [Bool.false_eq_true, if_false]
      have := dedup_foldl_map f rel rel' S h ys (y :: acc) (fun a ha => by
        cases List.mem_cons.mp ha with
        | inl e => rw [e]; exact hy
        | inr e => exact hacc a e) (fun a ha => hys a (List.mem_cons_of_mem _ ha))
      simpa using this

theorem dedupG_map {α β : Type} (f : α → β) (rel : α → α → Bool) (rel' : β → β → Bool) (xs : List α)
    (h : ∀ a ∈ xs, ∀ b ∈ xs, rel' (f a) (f b) = rel a b) : dedupG rel' (xs.map f) = (dedupG rel xs).map f := by
  unfold dedupG
  have := dedup_foldl_map f rel rel' (fun a => a ∈ xs) (fun a b ha hb => h a ha b hb) xs [] (fun a ha => by cases ha) (fun a ha => ha)
  simp only [List.map_nil] at this
  rw [this, List.map_reverse]

theorem dedupG_sub {α : Type} (rel : α → α → Bool) (xs : List α) : ∀ a ∈ dedupG rel xs, a ∈ xs := by
  unfold dedupG
  have : ∀ (ys acc : List α), ∀ a ∈ ys.foldl (fun acc r => if acc.any (fun x => rel x r) then acc else r :: acc) acc, a ∈ acc ∨ a ∈ ys := by
    intro ys
    induction ys with
    | nil => intro acc a ha; exact Or.inl ha
    | cons y ys ih =>
      intro acc a ha
      simp only [List.foldl_cons] at ha
      cases hc : acc.any (fun x => rel x y) with
      | true =>
        rw [hc] at ha
        simp only [if_true] at ha
        rcases ih acc a ha with h | h
        · exact Or.inl h
        · exact Or.inr (List.mem_cons_of_mem _ h)
      | false =>
        rw [hc] at ha
        simp only [Bool.false_eq_true, if_false] at ha
        rcases ih (y :: acc) a ha with h | h
        · cases List.mem_cons.mp h with
          | inl e => rw [e]; exact Or.inr (List.mem_cons_self ..)
          | inr e => exact Or.inl e
        · exact Or.inr (List.mem_cons_of_mem _ h)
  intro a ha
  rw [List.mem_reverse] at ha
  rcases this xs [] a ha with h | h
  · cases h
  · exact h

-- ------------------------------------------------------------------ jsonb comparison is reflexive

theorem strCmp_refl (s : String) : strCmp s s = .eq := by simp [strCmp]

theorem decCmp_refl (d : Dec) : Dec.cmp d d = .eq := by
  unfold Dec.cmp Dec.align
  simp [Dec.pow10]

mutual
theorem jsonCmpC_refl : ∀ (j : Json), jsonCmpC j j = some .eq
  | .null => by simp [jsonCmpC]
  | .bool b => by cases b <;> simp [jsonCmpC]
  | .num d => by simp [jsonCmpC, decCmp_refl]
  | .str s => by simp [jsonCmpC, strCmp_refl]
  | .arr xs => by simp [jsonCmpC, jsonCmpList_refl xs]
  | .obj kvs => by simp [jsonCmpC, jsonCmpKvs_refl kvs]
theorem jsonCmpList_refl : ∀ (xs : List Json), jsonCmpList xs xs = some .eq
  | [] => by simp [jsonCmpList]
  | x :: xs => by simp [jsonCmpList, jsonCmpC_refl x, jsonCmpList_refl xs]
theorem jsonCmpKvs_refl : ∀ (kvs : List (String × Json)), jsonCmpKvs kvs kvs = some .eq
  | [] => by simp [jsonCmpKvs]
  | (k, v) :: rest => by simp [jsonCmpKvs, jsonCmpC_refl v, jsonCmpKvs_refl rest]
end

theorem jsonCmp_refl (j : Json) : jsonCmp j j = some .eq := by unfold jsonCmp; exact jsonCmpC_refl _

theorem intCmp_refl (i : Int) : intCmp i i = .eq := by simp [intCmp]

theorem valCmpList_ints_refl : ∀ (xs : List Val), (∀ x ∈ xs, ∃ i, x = Val.int i) → valCmpList xs xs = some .eq
  | [], _ => by simp [valCmpList]
  | x :: xs, h => by
    obtain ⟨i, rfl⟩ := h x (List.mem_cons_self ..)
    rw [valCmpList]
    · simp only [valCmp, intCmp_refl]
      exact valCmpList_ints_refl xs (fun y hy => h y (List.mem_cons_of_mem _ hy))
    all_goals (intros; simp_all)

theorem kindIdsOf_ints (km : KindMap) (ks : List String) : ∀ x ∈ kindIdsOf km ks, ∃ i, x = Val.int i := by
  intro x hx
  unfold kindIdsOf at hx
  obtain ⟨k, _, hk⟩ := List.mem_filterMap.mp hx
  cases hkm : km.id? k with
  | none => rw [hkm] at hk; cases hk
  | some i => rw [hkm] at hk; exact ⟨i, by simpa using hk.symm⟩

theorem valCmp_nodeVal_refl (km : KindMap) (n : NodeRec) : valCmp (nodeVal km n) (nodeVal km n) = some .eq := by
  unfold nodeVal
  rw [valCmp, valCmpList]
  · simp only [valCmp, intCmp_refl]
    rw [valCmpList]
    · simp only [valCmp, valCmpList_ints_refl _ (kindIdsOf_ints km n.kinds)]
      rw [valCmpList]
      · simp only [valCmp, jsonCmp_refl, valCmpList]
      all_goals (intros; simp_all)
    all_goals (intros; simp_all)
  all_goals (intros; simp_all)

/-- DISTINCT on whole nodes: two node rows are the same row iff the ids are equal (ids are unique) -/
theorem vSame_node (km : KindMap) (a b : NodeRec) (huniq : a.id = b.id → a = b) :
    vSame (nodeVal km a) (nodeVal km b) = (a.id == b.id) := by
  by_cases hid : a.id = b.id
  · have := huniq hid
    subst this
    have hr := valCmp_nodeVal_refl km a
    unfold nodeVal at hr
    simp [vSame, nodeVal, hr]
  · have hne : (a.id == b.id) = false := by simpa using hid
    rw [hne]
    unfold vSame nodeVal
    simp only
    rw [valCmp, valCmpList]
    · have hc : intCmp a.id b.id ≠ .eq := by
        unfold intCmp
        simp only [hne, Bool.false_eq_true, if_false]
        split <;> simp
      simp only [valCmp]
      cases hi : intCmp a.id b.id with
      | eq => exact absurd hi hc
      | lt => rfl
      | gt => rfl
    all_goals (intros; simp_all)

section Cy
open Dawgs.Cy

/-- DISTINCT on a property: jsonb equality of the stored values = Cypher equivalence of the property values, on scalars -/
theorem vSame_prop (k : String) (a b : NodeRec) (ha : keyKind k a ≠ .other) (hb : keyKind k b ≠ .other) :
    vSame (propVal a.props k) (propVal b.props k) = cEquiv (propC a k) (propC b k) := by
  unfold keyKind at ha hb
  unfold propVal propC
  cases hla : Json.lookup k a.props with
  | none =>
    cases hlb : Json.lookup k b.props with
    | none => rfl
    | some jb => cases jb <;> simp_all [vSame, cEquiv, cEq, jsonToC]
  | some ja =>
    cases hlb : Json.lookup k b.props with
    | none => cases ja <;> simp_all [vSame, cEquiv, cEq, jsonToC]
    | some jb =>
      cases ja <;> cases jb <;> simp_all [vSame, cEquiv, cEq, jsonToC, valCmp, jsonCmp, Json.canon, jsonCmpC, jsonRank, Dec.eq]
      · rename_i b1 b2; cases b1 <;> cases b2 <;> rfl
      · exact strCmp_eq _ _

/-- the hypothesis of the stage on a list of nodes: the properties the RETURN reads hold scalars -/
def KeysScalar (keys : List String) (ns : List NodeRec) : Prop := ∀ k ∈ keys, ∀ n ∈ ns, keyKind k n ≠ .other

theorem vSame_item (km : KindMap) (a b : NodeRec) (huniq : a.id = b.id → a = b) (it : S1.Item)
    (hk : ∀ k al, it = .prop k al → keyKind k a ≠ .other ∧ keyKind k b ≠ .other) :
    vSame (itemVal km a it) (itemVal km b it) = cEquiv (itemC a it) (itemC b it) := by
  cases it with
  | node al =>
    simp only [itemVal, itemC]
    rw [vSame_node km a b huniq]
    simp [cEquiv, cEq]
  | prop k al =>
    obtain ⟨ha, hb⟩ := hk k al rfl
    exact vSame_prop k a b ha hb
  | id al =>
    simp only [itemVal, itemC, vSame, cEquiv, cEq, valCmp]
    have := intCmp_eq a.id b.id
    cases h1 : intCmp a.id b.id <;> cases h2 : (a.id == b.id) <;> simp_all

/-- on the rows of the stage the two notions of "same row" coincide -/
theorem rowSame_rowEquiv (km : KindMap) (a b : NodeRec) (huniq : a.id = b.id → a = b) : ∀ (items : List S1.Item),
    (∀ it ∈ items, ∀ k al, it = .prop k al → keyKind k a ≠ .other ∧ keyKind k b ≠ .other) →
    rowSame (items.map (itemVal km a)) (items.map (itemVal km b)) = rowEquiv (items.map (itemC a)) (items.map (itemC b))
  | [], _ => rfl
  | it :: items, h => by
    simp only [List.map_cons, rowSame, rowEquiv]
    rw [vSame_item km a b huniq it (h it (List.mem_cons_self ..)), rowSame_rowEquiv km a b huniq items (fun i hi => h i (List.mem_cons_of_mem _ hi))]

end Cy

/-- "the rows of `a` and `b` are equal" as DISTINCT sees it (either evaluator) -/
def sameRowN (km : KindMap) (q : S1d.Query) (a b : NodeRec) : Bool :=
  rowSame (q.base.items.map (itemVal km a)) (q.base.items.map (itemVal km b))

/-- the nodes whose rows DISTINCT keeps, in order -/
def distinctNodes (km : KindMap) (q : S1d.Query) (g : Graph) : List NodeRec := dedupG (sameRowN km q) (g.nodes.filter (keepS q.base))

-- ------------------------------------------------------------------ SQL side

/-- non-aggregated `select distinct` over one table: filter by WHERE, project, keep the first row of every class of same rows -/
theorem evalSelect_singleD (E : EEnv) (t : String) (alias : Option String) (tbl : Table) (proj : List Expr) (wh : Option Expr)
    (h : lookupTableE E t = .ok tbl) (hagg : hasAggL proj = false) :
    evalSetExpr E (.select true proj [.mk (.table [t] alias) []] wh [] none) =
      (do let rows ← (tbl.rows.map (fun r => [(⟨alias.getD t, tbl.cols, r⟩ : Binding)])).filterE (whTest E wh)
          let out ← rows.mapE (fun l => do let vals ← evalProj (E.push l) l proj; pure (vals, some (E.push l)))
          pure (projNames proj rows, dedupRows out)) := by
  rw [evalSetExpr]
  simp only [Option.isSome_none, Bool.false_eq_true, if_false, evalFrom_single E t alias tbl h, ebind_ok, hagg,
    List.isEmpty_nil, Bool.not_true, Bool.or_false, if_true]
  rfl

/-- SQL SIDE of S1d -/
theorem sql_side_d (km : KindMap) (g : Graph) (hok : GraphOK km g) (q : S1d.Query) (st : Stmt) (h : q.tr km = some st) :
    ∃ names, BenignT (Sql.eval (encode km g) st []) (⟨names, (distinctNodes km q g).map (fun n => q.base.items.map (itemVal km n))⟩ : Table) := by
  unfold S1d.Query.tr at h
  cases hwf : q.wf with
  | false => simp [hwf] at h
  | true =>
  simp only [hwf, Bool.not_true, Bool.false_eq_true, if_false] at h
  cases hwo : S1.whereOf km q.base with
  | none => rw [hwo] at h; cases h
  | some w =>
    rw [hwo] at h
    simp only [Option.some.injEq] at h
    subst h
    refine ⟨projNames (q.base.items.map (S1.Item.tr q.base.var)) ((g.nodes.filter (keepS q.base)).map (sLvl km)), ?_⟩
    have hst := eval_cteStmt_lim (encode km g)
      (Sql.Query.simple (.select false [S1.nodeComposite] [.mk (.table ["node"] (some "n0")) []] w [] none))
      (.select true (q.base.items.map (S1.Item.tr q.base.var)) [.mk (.table ["s0"] none) []] none [] none) none
    simp only [Option.map_none] at hst
    rw [hst]
    have hfr := frame_eval km g w (semW q.base) (whereOf_ok km g hok q.base w (E0 (encode km g)) hwo)
    apply benT_bind hfr
    left
    have hkeep : (fun n => keepW n (semW q.base)) = keepS q.base := by funext n; exact keepW_semW q.base n
    rw [hkeep]
    unfold distinctNodes
    generalize g.nodes.filter (keepS q.base) = ns
    have hl : lookupTableE (E1 (encode km g) (⟨["n0"], ns.map (fun n => [nodeVal km n])⟩ : Table)) "s0" = .ok ⟨["n0"], ns.map (fun n => [nodeVal km n])⟩ := by
      simp [lookupTableE, E1]
    rw [evalSelect_singleD _ _ _ _ _ _ hl (hasAggL_items q.base.var q.base.items)]
    have hrows : ((⟨["n0"], ns.map (fun n => [nodeVal km n])⟩ : Table).rows.map
        (fun r => [(⟨(none : Option String).getD "s0", (⟨["n0"], ns.map (fun n => [nodeVal km n])⟩ : Table).cols, r⟩ : Binding)])) = ns.map (sLvl km) := by
      simp [List.map_map, Function.comp_def, sLvl]
    rw [hrows, whTest_none, filterE_true]
    simp only [ebind_ok]
    rw [outer_rows]
    simp only [ebind_ok, epure_ok, cutN]
    rw [dedupRows_eq, dedupG_map (fun n => (q.base.items.map (itemVal km n), some ((E1 (encode km g) ⟨["n0"], ns.map (fun n => [nodeVal km n])⟩).push (sLvl km n))))
      (sameRowN km q) _ ns (fun a _ b _ => rfl)]
    simp only [List.map_map, Function.comp_def]

-- ------------------------------------------------------------------ Cypher side
section Cy2
open Dawgs.Cy

theorem keysScalar_items (q : S1d.Query) (ns : List NodeRec) (hK : KeysScalar q.keys ns) (a b : NodeRec) (ha : a ∈ ns) (hb : b ∈ ns) :
    ∀ it ∈ q.base.items, ∀ k al, it = .prop k al → keyKind k a ≠ .other ∧ keyKind k b ≠ .other := by
  intro it hit k al he
  have hk : k ∈ q.keys := by
    unfold S1d.Query.keys
    rw [List.mem_filterMap]
    exact ⟨it, hit, by rw [he]⟩
  exact ⟨hK k hk a ha, hK k hk b hb⟩

theorem nodup_uniq (ns : List NodeRec) (hnd : (ns.map (·.id)).Nodup) : ∀ a ∈ ns, ∀ b ∈ ns, a.id = b.id → a = b := by
  induction ns with
  | nil => intro a ha; cases ha
  | cons x xs ih =>
    simp only [List.map_cons, List.nodup_cons, List.mem_map, not_exists, not_and] at hnd
    intro a ha b hb he
    cases List.mem_cons.mp ha with
    | inl ea =>
      cases List.mem_cons.mp hb with
      | inl eb => rw [ea, eb]
      | inr eb => exact absurd (by rw [← he, ea]) (hnd.1 b eb)
    | inr ea =>
      cases List.mem_cons.mp hb with
      | inl eb => exact absurd (by rw [he, eb]) (hnd.1 a ea)
      | inr eb => exact ih hnd.2 a ea b eb he

/-- CYPHER SIDE of S1d -/
theorem cy_side_d (km : KindMap) (g : Graph) (hnd : (g.nodes.map (·.id)).Nodup) (q : S1d.Query) (hwf : q.wf = true)
    (hK : KeysScalar q.keys (g.nodes.filter (keepS q.base))) :
    Cy.eval .none g q.toCy = .ok (cyNames q.base, (distinctNodes km q g).map (fun n => q.base.items.map (itemC n))) := by
  have hn : ∀ n ∈ g.nodes, g.node? n.id = some n := find_of_nodup g.nodes hnd
  have hc : evalClauses .none g true [[]] q.toCy.clauses = .ok ((g.nodes.filter (keepS q.base)).map (fun n => [(q.base.var, CVal.node n.id)])) :=
    clause_eval g q.base hn
  have ho : q.base.order = none := by
    unfold S1d.Query.wf at hwf
    cases h : q.base.order with
    | none => rfl
    | some o => rw [h] at hwf; cases hwf
  unfold Cy.eval
  have hparts : q.toCy.parts = [] := rfl
  simp only [hparts, evalParts, ebind_ok, List.isEmpty_nil, hc]
  unfold evalProjection
  have hall : q.toCy.ret.all = false := rfl
  have hdist : q.toCy.ret.distinct = true := rfl
  have hitems : q.toCy.ret.items = q.base.items.map (S1.Item.toCy q.base.var) := rfl
  have hob : q.toCy.ret.orderBy = S1.orderKeysC q.base.var q.base.order := rfl
  have hskip : q.toCy.ret.skip = q.base.order.bind (fun o => o.skip.map S1.natLit) := rfl
  have hlim : q.toCy.ret.limit = q.base.order.bind (fun o => o.limit.map S1.natLit) := rfl
  simp only [hall, hdist, hitems, hob, hskip, hlim, ho, Bool.false_eq_true, if_false, if_true, anyAgg_items, Bool.true_or]
  have hns : ∀ n ∈ g.nodes.filter (keepS q.base), g.node? n.id = some n := fun n h => hn n (List.mem_filter.mp h).1
  have hpr := plainRows_eval g q.base (g.nodes.filter (keepS q.base)) hns
  unfold cyNames at hpr
  rw [hpr]
  simp only [ebind_ok]
  unfold distinctNodes
  have hsub : ((g.nodes.filter (keepS q.base)).map (·.id)).Nodup :=
    List.Nodup.sublist (List.Sublist.map _ List.filter_sublist) hnd
  generalize g.nodes.filter (keepS q.base) = ns at hsub hK ⊢
  have hu := nodup_uniq ns hsub
  rw [dedupBy_eq, dedupG_map (rowC q.base) (sameRowN km q) _ ns (fun a ha b hb => by
    unfold sameRowN
    rw [rowSame_rowEquiv km a b (hu a ha b hb) q.base.items (keysScalar_items q ns hK a b ha hb)]
    rfl)]
  simp only [S1.orderKeysC, Option.bind_none, keyRows_none, ebind_ok, intOf, cutKeyed, epure_ok, List.map_map, Function.comp_def, rowC, cyNames,
    Bool.false_eq_true, if_false, List.map_nil]

end Cy2

theorem distinctNodes_sub (km : KindMap) (q : S1d.Query) (g : Graph) : ∀ n ∈ distinctNodes km q g, n ∈ g.nodes :=
  fun n h => (List.mem_filter.mp (dedupG_sub _ _ n h)).1

/-- S1d: on a well-formed graph whose nodes hold scalars under the returned property keys, the statement emitted for
`MATCH (n…) [WHERE …] RETURN DISTINCT items` and the Cypher reference return the same rows in the same order -/
theorem s1d_sound (km : KindMap) (g : Graph) (hok : GraphOK km g) (q : S1d.Query) (hK : KeysScalar q.keys g.nodes) (st : Stmt) (h : q.tr km = some st) :
    ∃ names rows, BenignT (Sql.eval (encode km g) st []) (⟨names, rows⟩ : Table) ∧
      ∀ r, Cy.eval .none g q.toCy = .ok r → sqlRows ⟨names, rows⟩ = cyRows g km r := by
  have hwf : q.wf = true := by
    unfold S1d.Query.tr at h
    cases hwf : q.wf with
    | true => rfl
    | false => simp [hwf] at h
  have hn : ∀ n ∈ g.nodes, g.node? n.id = some n := find_of_nodup g.nodes hok.nodup
  obtain ⟨names, hsql⟩ := sql_side_d km g hok q st h
  refine ⟨names, _, hsql, fun r hr => ?_⟩
  have hKf : KeysScalar q.keys (g.nodes.filter (keepS q.base)) := fun k hk n hn' => hK k hk n (List.mem_filter.mp hn').1
  rw [cy_side_d km g hok.nodup q hwf hKf] at hr
  cases hr
  unfold sqlRows cyRows
  exact rows_agree km g q.base hn _ (distinctNodes_sub km q g)

/-- the executable hypothesis implies `KeysScalar` -/
theorem keysScalarB_sound (g : Graph) (keys : List String) (h : keys.all (scalarKeyB g) = true) : KeysScalar keys g.nodes := by
  intro k hk n hn
  have hs := List.all_eq_true.mp h k hk
  unfold scalarKeyB at hs
  have := List.all_eq_true.mp hs n hn
  unfold keyKind
  cases hl : Json.lookup k n.props with
  | none => simp
  | some j => rw [hl] at this; cases j <;> simp_all

-- ------------------------------------------------------------------ the recogniser of stage S1d is sound

theorem ofCyDistinct_sound (q : Cy.Query) (s : S1d.Query) (h : ofCyDistinct q = some s) : s.toCy = q ∧ s.wf = true := by
  unfold ofCyDistinct at h
  split at h
  · rename_i v kinds wh hparts hclauses
    split at h
    · cases h
    · rename_i hcond
      simp only [Bool.or_eq_true, not_or, Bool.not_eq_true, Bool.not_eq_eq_eq_not, Bool.not_true, Bool.not_false,
        List.isEmpty_iff, Option.isSome_eq_false_iff, Option.isNone_iff_eq_none] at hcond
      simp only [bind, Option.bind_eq_some_iff, pure] at h
      obtain ⟨w, hw, items, hitems, h⟩ := h
      split at h
      · cases h
      · simp only [Option.some.injEq] at h
        subst h
        have hit := itemsOf_sound v _ _ hitems
        have hwh : w.map (S1.Pred.toCy v) = wh := by
          cases wh with
          | none => simp only [Option.some.injEq] at hw; subst hw; rfl
          | some e =>
            obtain ⟨p, hp, rfl⟩ := Option.map_eq_some_iff.mp hw
            simp only [Option.map_some, (predOf_sound v).1 e p hp]
        refine ⟨?_, rfl⟩
        cases q with
        | mk parts clauses ret =>
          cases ret with
          | mk distinct all ritems orderBy rskip rlimit =>
            simp only at hparts hclauses hcond hit
            subst hparts hclauses
            simp only [S1d.Query.toCy, S1.Query.toCy, hit, hwh, Cy.Query.mk.injEq, Cy.Projection.mk.injEq, true_and]
            simp_all [S1.orderKeysC]
  · cases h

end Dawgs.C01.Proofs
