import Dawgs.Proofs.C07RoundClause
set_option linter.unusedSimpArgs false
set_option linter.unusedVariables false
set_option linter.unusedSectionVars false
/-! `build ∘ treeOf = id`: updating clauses (CREATE, DELETE, REMOVE, SET, MERGE). -/
namespace Dawgs.C07
open Dawgs.Grammar Dawgs.C08

section Upd
variable {N : Names} (hN : N.ok = true) (recT : Expr → Tree) (recW : Expr → Bool) (Hrec : RecOK N recT recW)
include hN Hrec

theorem bPropertyExpression_ok (a : Expr) (k : String) (f : Nat) (hwa : wAtom recW a = true) (hk : simpleKey k = true)
    (hf : 2 * size (propExprNode N recT a k) + 2 ≤ f) : bPropertyExpression N f (propExprNode N recT a k) = .ok (.prop a k) := by
  simp only [propExprNode, size_nd, sizeL_cons', sizeL_nil', size_propNode hN recT recW Hrec] at hf
  have ha := bAtom_tAtom hN recT recW Hrec a f hwa (by omega)
  obtain ⟨f', rfl⟩ : ∃ f', f = f' + 4 := ⟨f - 4, by omega⟩
  have hgt : getText (f' + 4) (schemaName N "oC_PropertyKeyName" k) = k := getText_schemaName hN f' _ k
  have hu := unescapeKey_simple k hk
  simp only [tAtom] at ha
  simp only [schemaName] at hgt
  unfold bPropertyExpression
  bsimp [propExprNode, tAtom, propNode, schemaName, ha, hgt, hu.1, hu.2]

theorem labelsOf_ok (f : Nat) (ls : List String) : labelsOf N (f + 4) (labelsNode N ls) = ls :=
  labels_eq hN recT recW Hrec f ls

theorem getText_var4 (f : Nat) (v : String) : getText (f + 4) (N.nd "oC_Variable" [symName N v]) = v := by
  have := getText_varNode hN recT recW Hrec (f + 1) v
  simpa only [varNode] using this

theorem opSize (op : String) : sizeL (if op == "=" then [N.lf "T__1" "="] else if op == "+=" then [N.lf "T__7" "+="] else []) ≤ 1 := by
  split
  · simp
  · split <;> simp

theorem bSetItem_ok (it : SetItem) (f : Nat) (hw : wSetItem recW it = true) (hf : 2 * size (setItemNode N recT it) + 2 ≤ f) :
    bSetItem N f (setItemNode N recT it) = .ok it := by
  obtain ⟨left, op, right⟩ := it
  cases left with
  | prop a k =>
    obtain ⟨pk, hpk⟩ : ∃ pk, propExprNode N recT a k = N.nd "oC_PropertyExpression" pk := ⟨_, rfl⟩
    cases right with
    | expr e =>
      simp only [wSetItem, Bool.and_eq_true, Bool.or_eq_true, beq_iff_eq] at hw
      obtain ⟨⟨hl, hop⟩, hr⟩ := hw
      simp only [setItemNode, size_nd, sizeL_append, sizeL_cons', sizeL_nil'] at hf
      have hL := bPropertyExpression_ok hN recT recW Hrec a k f hl.1 hl.2 (by omega)
      have hR := bExpr_exprNode hN recT recW Hrec e f hr (by omega)
      rw [hpk] at hL
      simp only [exprNode] at hR
      unfold bSetItem
      rcases hop with (h | h) | h <;> subst h <;> simp only [setItemNode, hpk, exprNode] <;> bsimp [hL, hR, Except.map]
    | kinds ks =>
      simp only [wSetItem, Bool.and_eq_true, Bool.or_eq_true, beq_iff_eq] at hw
      obtain ⟨⟨hl, hop⟩, hr⟩ := hw
      simp only [setItemNode, size_nd, sizeL_append, sizeL_cons', sizeL_nil'] at hf
      have hL := bPropertyExpression_ok hN recT recW Hrec a k f hl.1 hl.2 (by omega)
      rw [hpk] at hL
      obtain ⟨f', rfl⟩ : ∃ f', f = f' + 4 := ⟨f - 4, by have := size_pos (labelsNode N ks); omega⟩
      obtain ⟨lk, hlk⟩ : ∃ lk, labelsNode N ks = N.nd "oC_NodeLabels" lk := ⟨_, rfl⟩
      have hK := labelsOf_ok hN recT recW Hrec f' ks
      rw [hlk] at hK
      unfold bSetItem
      rcases hop with (h | h) | h <;> subst h <;> simp only [setItemNode, hpk, hlk] <;> bsimp [hL, hK, Except.map]
  | var v =>
    cases right with
    | expr e =>
      simp only [wSetItem, Bool.and_eq_true, Bool.or_eq_true, beq_iff_eq] at hw
      obtain ⟨⟨hl, hop⟩, hr⟩ := hw
      simp only [setItemNode, size_nd, sizeL_append, sizeL_cons', sizeL_nil'] at hf
      have hR := bExpr_exprNode hN recT recW Hrec e f hr (by omega)
      simp only [exprNode] at hR
      obtain ⟨f', rfl⟩ : ∃ f', f = f' + 4 := ⟨f - 4, by have := size_pos (varNode N v); omega⟩
      have hv := getText_var4 hN recT recW Hrec f' v
      unfold bSetItem
      rcases hop with (h | h) | h <;> subst h <;> simp only [setItemNode, varNode, exprNode] <;> bsimp [hv, hR, Except.map]
    | kinds ks =>
      simp only [wSetItem, Bool.and_eq_true, Bool.or_eq_true, beq_iff_eq] at hw
      obtain ⟨⟨hl, hop⟩, hr⟩ := hw
      simp only [setItemNode, size_nd, sizeL_append, sizeL_cons', sizeL_nil'] at hf
      obtain ⟨f', rfl⟩ : ∃ f', f = f' + 4 := ⟨f - 4, by have := size_pos (labelsNode N ks); have := size_pos (varNode N v); omega⟩
      obtain ⟨lk, hlk⟩ : ∃ lk, labelsNode N ks = N.nd "oC_NodeLabels" lk := ⟨_, rfl⟩
      have hK := labelsOf_ok hN recT recW Hrec f' ks
      rw [hlk] at hK
      have hv := getText_var4 hN recT recW Hrec f' v
      unfold bSetItem
      rcases hop with (h | h) | h <;> subst h <;> simp only [setItemNode, varNode, hlk] <;> bsimp [hv, hK, Except.map]
  | _ => simp [wSetItem] at hw

theorem setItemNode_rule (it : SetItem) : ∃ ks, setItemNode N recT it = N.nd "oC_SetItem" ks := ⟨_, rfl⟩

theorem bSet_ok (items : List SetItem) (f : Nat) (hw : items.all (wSetItem recW) = true) (hf : 2 * size (setNode N recT items) + 2 ≤ f) :
    bSet N f (setNode N recT items) = .ok items := by
  simp only [setNode, size_nd, sizeL_cons', size_lf] at hf
  have hszI := sizeL_le_interleave (N.lf "T__6" ",") (items.map (setItemNode N recT))
  have hfl : (interleave (N.lf "T__6" ",") (items.map (setItemNode N recT))).filter (isRuleKid N "oC_SetItem") = items.map (setItemNode N recT) :=
    kidsOfRule_interleave hN (by decide) _ rfl _ (allRule_map N _ _ (setItemNode_rule hN recT recW Hrec) items)
  unfold bSet
  simp only [setNode, kidsOfRule, kids_nd, List.filter_cons, isRuleKid_lf, Bool.false_eq_true, if_false, hfl]
  apply mapM'_map_id
  intro it hit
  have := size_le_sizeL (List.mem_map_of_mem (f := setItemNode N recT) hit)
  exact bSetItem_ok hN recT recW Hrec it f ((List.all_eq_true.1 hw) it hit) (by omega)

theorem bRemoveItem_ok (it : RemoveItem) (f : Nat) (hw : wRemoveItem recW it = true) (hf : 2 * size (removeItemNode N recT it) + 2 ≤ f) :
    bRemoveItem N f (removeItemNode N recT it) = .ok it := by
  cases it with
  | kinds r ks =>
    simp only [removeItemNode, size_nd, sizeL_cons', sizeL_nil'] at hf
    obtain ⟨f', rfl⟩ : ∃ f', f = f' + 4 := ⟨f - 4, by have := size_pos (labelsNode N ks); have := size_pos (varNode N r); omega⟩
    obtain ⟨lk, hlk⟩ : ∃ lk, labelsNode N ks = N.nd "oC_NodeLabels" lk := ⟨_, rfl⟩
    have hK := labelsOf_ok hN recT recW Hrec f' ks
    rw [hlk] at hK
    have hv := getText_var4 hN recT recW Hrec f' r
    unfold bRemoveItem
    simp only [removeItemNode, varNode, hlk]
    bsimp [hv, hK]
  | prop l =>
    cases l with
    | prop a k =>
      simp only [wRemoveItem, Bool.and_eq_true] at hw
      simp only [removeItemNode, size_nd, sizeL_cons', sizeL_nil'] at hf
      obtain ⟨pk, hpk⟩ : ∃ pk, propExprNode N recT a k = N.nd "oC_PropertyExpression" pk := ⟨_, rfl⟩
      have hL := bPropertyExpression_ok hN recT recW Hrec a k f hw.1 hw.2 (by omega)
      rw [hpk] at hL
      unfold bRemoveItem
      simp only [removeItemNode, hpk]
      bsimp [hL, Except.map]
    | _ => simp [wRemoveItem] at hw

theorem bMergeAction_ok (a : Bool × Bool × List SetItem) (f : Nat) (hx : (a.1 != a.2.1) = true) (hw : a.2.2.all (wSetItem recW) = true)
    (hf : 2 * size (mergeActionNode N recT a) + 2 ≤ f) : bMergeAction N f (mergeActionNode N recT a) = .ok a := by
  obtain ⟨c, m, items⟩ := a
  simp only [mergeActionNode, size_nd, sizeL_cons', sizeL_nil', size_lf] at hf
  have hs := bSet_ok hN recT recW Hrec items f hw (by split at hf <;> simp at hf <;> omega)
  obtain ⟨sk, hsk⟩ : ∃ sk, setNode N recT items = N.nd "oC_Set" sk := ⟨_, rfl⟩
  rw [hsk] at hs
  unfold bMergeAction
  cases c <;> cases m <;> simp at hx <;> simp only [mergeActionNode, hsk] <;> bsimp [hs, Except.map]

theorem removeItemNode_rule (it : RemoveItem) (hw : wRemoveItem recW it = true) : ∃ ks, removeItemNode N recT it = N.nd "oC_RemoveItem" ks := by
  cases it with
  | kinds r ks => exact ⟨_, rfl⟩
  | prop l => cases l <;> simp [wRemoveItem] at hw; exact ⟨_, rfl⟩

theorem mergeActionNode_rule (a : Bool × Bool × List SetItem) : ∃ ks, mergeActionNode N recT a = N.nd "oC_MergeAction" ks := ⟨_, rfl⟩

theorem bUpdating_ok (u : Updating) (f : Nat) (hw : wUpdating recW u = true) (hf : 2 * size (tUpdating N recT u) + 2 ≤ f) :
    bUpdating N f (tUpdating N recT u) = .ok u := by
  cases u with
  | create ps =>
    simp only [wUpdating] at hw
    simp only [tUpdating, size_nd, sizeL_cons', sizeL_nil', size_lf] at hf
    have b1 := pattern_ok hN recT recW Hrec ps f hw (by omega)
    simp only [patternNode] at b1
    unfold bUpdating
    simp only [tUpdating, patternNode]
    bsimp [b1, Except.map]
    bsimp_at b1 []
    simp [b1]
  | delete d es =>
    simp only [wUpdating] at hw
    simp only [tUpdating, size_nd, sizeL_cons', sizeL_nil', size_lf, sizeL_append] at hf
    have hszI := sizeL_le_interleave (N.lf "T__6" ",") (es.map (fun e => exprNode N (recT e)))
    have hfl := filter_exprNodes hN recT recW Hrec (N.lf "T__6" ",") rfl es
    have hm := mapM_exprNodes hN recT recW Hrec es f hw (by omega)
    have hany : (interleave (N.lf "T__6" ",") (es.map (fun e => exprNode N (recT e)))).any (isTokLeaf N "DETACH") = false := by
      apply any_interleave_false _ _ (by bsimp [])
      intro x hx
      obtain ⟨e, _, rfl⟩ := List.mem_map.1 hx
      simp [exprNode]
    unfold bUpdating
    cases d <;> simp only [tUpdating] <;> bsimp [hfl, hm, hany, Except.map]
  | remove items =>
    simp only [wUpdating] at hw
    simp only [tUpdating, size_nd, sizeL_cons', sizeL_nil', size_lf] at hf
    have hszI := sizeL_le_interleave (N.lf "T__6" ",") (items.map (removeItemNode N recT))
    have hall : AllRule N "oC_RemoveItem" (items.map (removeItemNode N recT)) := by
      intro x hx
      obtain ⟨it, hit, rfl⟩ := List.mem_map.1 hx
      exact removeItemNode_rule hN recT recW Hrec it ((List.all_eq_true.1 hw) it hit)
    have hfl : (interleave (N.lf "T__6" ",") (items.map (removeItemNode N recT))).filter (isRuleKid N "oC_RemoveItem") =
        items.map (removeItemNode N recT) := kidsOfRule_interleave hN (by decide) _ rfl _ hall
    have hm : mapM' (bRemoveItem N f) (items.map (removeItemNode N recT)) = .ok items := by
      apply mapM'_map_id
      intro it hit
      have := size_le_sizeL (List.mem_map_of_mem (f := removeItemNode N recT) hit)
      exact bRemoveItem_ok hN recT recW Hrec it f ((List.all_eq_true.1 hw) it hit) (by omega)
    unfold bUpdating
    simp only [tUpdating]
    bsimp [hfl, hm, Except.map]
  | set items =>
    simp only [wUpdating] at hw
    simp only [tUpdating, size_nd, sizeL_cons', sizeL_nil'] at hf
    have hs := bSet_ok hN recT recW Hrec items f hw (by omega)
    obtain ⟨sk, hsk⟩ : ∃ sk, setNode N recT items = N.nd "oC_Set" sk := ⟨_, rfl⟩
    rw [hsk] at hs
    unfold bUpdating
    simp only [tUpdating, hsk]
    bsimp [hs, Except.map]
  | merge part acts =>
    simp only [wUpdating, Bool.and_eq_true] at hw
    simp only [tUpdating, size_nd, sizeL_cons', sizeL_nil', size_lf, sizeL_append] at hf
    have hp := bPatternPart_tPart hN recT recW Hrec part f hw.1 (by omega)
    obtain ⟨ppk, hppk⟩ := tPart_rule hN recT recW Hrec part
    rw [hppk] at hp
    have hall := allRule_map N _ _ (mergeActionNode_rule hN recT recW Hrec) acts
    have hfl := filter_rule_all hN recT recW Hrec (r := "oC_MergeAction") (by decide) _ hall
    have hfn := filter_rule_none hN recT recW Hrec (r := "oC_PatternPart") (r' := "oC_MergeAction") (by decide) (by decide) _ hall
    have hfi := filter_isNode_all hN recT recW Hrec _ hall
    have hm : mapM' (bMergeAction N f) (acts.map (mergeActionNode N recT)) = .ok acts := by
      apply mapM'_map_id
      intro a ha
      have := size_le_sizeL (List.mem_map_of_mem (f := mergeActionNode N recT) ha)
      have hwa := (List.all_eq_true.1 hw.2) a ha
      simp only [Bool.and_eq_true] at hwa
      exact bMergeAction_ok hN recT recW Hrec a f hwa.1 hwa.2 (by omega)
    unfold bUpdating
    simp only [tUpdating, hppk]
    bsimp [hfl, hfn, hfi, hm, hp, Except.map]

end Upd
end Dawgs.C07
