/- C15: the transcribed iterative Tarjan always returns a PARTITION of the node set
(helper lemmas; the statement is `tarjan_partition` in Props/C15.lean). -/
import Dawgs.Proofs.C15
set_option linter.unusedSimpArgs false
set_option linter.unusedVariables false
namespace Dawgs.C15

theorem lookupD_cons (k v : Nat) (m : List (Nat × Nat)) (x : Nat) :
    lookupD ((k, v) :: m) x = if k = x then v else lookupD m x := by
  unfold lookupD; rw [lookup_cons]
  by_cases h : k = x
  · simp [h]
  · simp [h]

theorem lookupD_of_lookup {m : List (Nat × Nat)} {x v : Nat} (h : lookup m x = some v) : lookupD m x = v := by
  unfold lookupD; rw [h]

theorem popUntil_append (id : Nat) (A B : List Nat) (h : id ∉ A) : popUntil id (A ++ id :: B) = (A ++ [id], B) := by
  induction A with
  | nil => simp [popUntil]
  | cons a A ih =>
    have ha : a ≠ id := fun e => h (by simp [e])
    have hA : id ∉ A := fun e => h (by simp [e])
    simp only [List.cons_append, popUntil, if_neg ha, ih hA]

theorem sublist_after {x : Nat} {l A B : List Nat} (h : (x :: l).Sublist (A ++ x :: B)) (hx : x ∉ A) : l.Sublist B := by
  induction A with
  | nil =>
    simp only [List.nil_append] at h
    exact List.cons_sublist_cons.1 h
  | cons a A ih =>
    have ha : a ≠ x := fun e => hx (by simp [e])
    have hA : x ∉ A := fun e => hx (by simp [e])
    simp only [List.cons_append] at h
    cases h with
    | cons _ h' => exact ih h' hA
    | cons_cons _ h' => exact absurd rfl ha

theorem getLast?_append_cons (A : List Nat) (x : Nat) (B : List Nat) (hB : B ≠ []) :
    (A ++ x :: B).getLast? = B.getLast? := by
  rw [List.getLast?_append]
  cases B with
  | nil => exact absurd rfl hB
  | cons b B' =>
    rw [List.getLast?_cons_cons]
    cases h : (b :: B').getLast? with
    | none => simp at h
    | some y => rfl

/-- a nodup list whose last element is `x` is `A ++ [x]` with `x ∉ A` -/
theorem split_last {l : List Nat} {x : Nat} (hl : l.getLast? = some x) (hn : l.Nodup) :
    ∃ A, l = A ++ [x] ∧ x ∉ A := by
  have hne : l ≠ [] := by intro h; subst h; simp at hl
  have h2 : l = l.dropLast ++ [x] := by
    have h3 := List.dropLast_concat_getLast hne
    have h4 : l.getLast hne = x := by
      have := List.getLast?_eq_some_getLast hne
      rw [hl] at this; exact (Option.some.inj this).symm
    rw [h4] at h3; exact h3.symm
  refine ⟨l.dropLast, h2, ?_⟩
  intro hx
  rw [h2] at hn
  rw [List.nodup_append] at hn
  exact hn.2.2 x hx x (by simp) rfl

def seen (disc : List (Nat × Nat)) (v : Nat) : Prop := (lookup disc v).isSome = true

theorem seen_cons (k i : Nat) (disc : List (Nat × Nat)) (v : Nat) :
    seen ((k, i) :: disc) v ↔ k = v ∨ seen disc v := by
  unfold seen; rw [lookup_cons]
  by_cases h : k = v <;> simp [h]

theorem not_seen_of_none {disc : List (Nat × Nat)} {v : Nat} (h : lookup disc v = none) : ¬ seen disc v := by
  unfold seen; rw [h]; simp

theorem seen_of_some {disc : List (Nat × Nat)} {v d : Nat} (h : lookup disc v = some d) : seen disc v := by
  unfold seen; rw [h]; rfl

def ids (dfs : List Cur) : List Nat := dfs.map (·.id)

/-- invariant of one `for len(dfsStack) > 0` run started at `start` when the discovery counter was `base` -/
structure RunInv (g : Digraph) (base start : Nat) (st : TState) : Prop where
  dfs_ne : st.dfs ≠ []
  ids_last : (ids st.dfs).getLast? = some start
  stack_last : st.stack.getLast? = some start
  ids_sub : (ids st.dfs).Sublist st.stack
  stack_nd : st.stack.Nodup
  comps_nd : st.comps.flatten.Nodup
  disj : ∀ v, v ∈ st.stack → v ∉ st.comps.flatten
  disc_iff : ∀ v, seen st.disc v ↔ v ∈ st.stack ∨ v ∈ st.comps.flatten
  on_iff : ∀ v, v ∈ st.onStack ↔ v ∈ st.stack
  low_ge : ∀ v, v ∈ st.stack → base ≤ lookupD st.low v
  disc_ge : ∀ v, v ∈ st.stack → base ≤ lookupD st.disc v
  low_le : ∀ v, v ∈ st.stack → lookupD st.low v ≤ lookupD st.disc v
  start_disc : lookupD st.disc start = base
  idx_ge : base ≤ st.index
  br : ∀ c, c ∈ st.dfs → ∀ y, y ∈ c.branches → y ∈ g.nodes
  disc_nodes : ∀ v, seen st.disc v → v ∈ g.nodes
  comps_ne : ∀ C, C ∈ st.comps → C ≠ []

/-- invariant between runs (and at the end) -/
structure OutInv (g : Digraph) (st : TState) : Prop where
  dfs_nil : st.dfs = []
  stack_nil : st.stack = []
  on_nil : ∀ v, v ∉ st.onStack
  comps_nd : st.comps.flatten.Nodup
  disc_iff : ∀ v, seen st.disc v ↔ v ∈ st.comps.flatten
  disc_nodes : ∀ v, seen st.disc v → v ∈ g.nodes
  comps_ne : ∀ C, C ∈ st.comps → C ≠ []

theorem closeComponent_low (st : TState) (id : Nat) : (closeComponent st id).low = st.low := by
  unfold closeComponent; split <;> rfl
theorem closeComponent_index (st : TState) (id : Nat) : (closeComponent st id).index = st.index := by
  unfold closeComponent; split <;> rfl

theorem mem_ids_of_mem {c : Cur} {dfs : List Cur} (h : c ∈ dfs) : c.id ∈ ids dfs := List.mem_map.2 ⟨c, h, rfl⟩

section Step
variable {g : Digraph} {base start : Nat}

/-- advancing the top cursor's branch index, possibly lowering its low-link -/
theorem runInv_advance {index : Nat} {disc low low' : List (Nat × Nat)} {onStack stack : List Nat} {cur : Cur}
    {rest : List Cur} {comps : List (List Nat)} {n2c : List (Nat × Nat)}
    (h : RunInv g base start ⟨index, disc, low, onStack, stack, cur :: rest, comps, n2c⟩)
    (hge : ∀ v, v ∈ stack → base ≤ lookupD low' v) (hle : ∀ v, v ∈ stack → lookupD low' v ≤ lookupD disc v) :
    RunInv g base start ⟨index, disc, low', onStack, stack, { cur with branchIdx := cur.branchIdx + 1 } :: rest, comps, n2c⟩ := by
  refine ⟨by simp, h.ids_last, h.stack_last, h.ids_sub, h.stack_nd, h.comps_nd, h.disj, h.disc_iff, h.on_iff,
    hge, h.disc_ge, hle, h.start_disc, h.idx_ge, ?_, h.disc_nodes, h.comps_ne⟩
  intro c hc y hy
  simp at hc
  rcases hc with rfl | hc
  · exact h.br cur (by simp) y hy
  · exact h.br c (by simp [hc]) y hy

/-- descending into an undiscovered neighbour -/
theorem runInv_push {index : Nat} {disc low : List (Nat × Nat)} {onStack stack : List Nat} {cur : Cur}
    {rest : List Cur} {comps : List (List Nat)} {n2c : List (Nat × Nat)} {nb : Nat}
    (h : RunInv g base start ⟨index, disc, low, onStack, stack, cur :: rest, comps, n2c⟩)
    (hnb : nb ∈ cur.branches) (hd : lookup disc nb = none) :
    RunInv g base start (tarjanPush ⟨index, disc, low, onStack, stack,
      { id := nb, branches := g.outAdj nb, branchIdx := 0 } :: { cur with branchIdx := cur.branchIdx + 1 } :: rest, comps, n2c⟩ nb) := by
  have hns : ¬ seen disc nb := not_seen_of_none hd
  have hnst : nb ∉ stack := fun hm => hns ((h.disc_iff nb).2 (Or.inl hm))
  have hnc : nb ∉ comps.flatten := fun hm => hns ((h.disc_iff nb).2 (Or.inr hm))
  have hstne : stack ≠ [] := by
    intro e; have := h.stack_last; simp [e] at this
  have hidxge := h.idx_ge
  simp only at hidxge
  refine ⟨by simp [tarjanPush], ?_, ?_, ?_, ?_, h.comps_nd, ?_, ?_, ?_, ?_, ?_, ?_, ?_, ?_, ?_, ?_, h.comps_ne⟩
  · have := h.ids_last
    simp only [ids, List.map_cons] at this ⊢
    simp only [tarjanPush, List.map_cons]
    rw [List.getLast?_cons_cons]; exact this
  · show (nb :: stack).getLast? = some start
    cases stack with
    | nil => exact absurd rfl hstne
    | cons a t => rw [List.getLast?_cons_cons]; exact h.stack_last
  · show (ids _).Sublist (nb :: stack)
    simp only [ids, List.map_cons]
    exact List.Sublist.cons_cons _ h.ids_sub
  · show (nb :: stack).Nodup
    exact List.nodup_cons.2 ⟨hnst, h.stack_nd⟩
  · intro v hv
    have hv' : v ∈ nb :: stack := hv
    rcases List.mem_cons.1 hv' with rfl | hv'
    · exact hnc
    · exact h.disj v hv'
  · intro v
    show seen ((nb, index) :: disc) v ↔ v ∈ nb :: stack ∨ v ∈ comps.flatten
    rw [seen_cons, h.disc_iff v, List.mem_cons]
    constructor
    · rintro (rfl | h1 | h1)
      · exact Or.inl (Or.inl rfl)
      · exact Or.inl (Or.inr h1)
      · exact Or.inr h1
    · rintro ((rfl | h1) | h1)
      · exact Or.inl rfl
      · exact Or.inr (Or.inl h1)
      · exact Or.inr (Or.inr h1)
  · intro v
    show v ∈ nb :: onStack ↔ v ∈ nb :: stack
    rw [List.mem_cons, List.mem_cons, h.on_iff v]
  · intro v hv
    have hv' : v ∈ nb :: stack := hv
    show base ≤ lookupD ((nb, index) :: low) v
    rw [lookupD_cons]
    rcases List.mem_cons.1 hv' with rfl | hv'
    · simp; exact hidxge
    · have : nb ≠ v := fun e => hnst (e ▸ hv')
      simp [this]; exact h.low_ge v hv'
  · intro v hv
    have hv' : v ∈ nb :: stack := hv
    show base ≤ lookupD ((nb, index) :: disc) v
    rw [lookupD_cons]
    rcases List.mem_cons.1 hv' with rfl | hv'
    · simp; exact hidxge
    · have : nb ≠ v := fun e => hnst (e ▸ hv')
      simp [this]; exact h.disc_ge v hv'
  · intro v hv
    have hv' : v ∈ nb :: stack := hv
    show lookupD ((nb, index) :: low) v ≤ lookupD ((nb, index) :: disc) v
    rw [lookupD_cons, lookupD_cons]
    rcases List.mem_cons.1 hv' with rfl | hv'
    · simp
    · have : nb ≠ v := fun e => hnst (e ▸ hv')
      simp [this]; exact h.low_le v hv'
  · show lookupD ((nb, index) :: disc) start = base
    rw [lookupD_cons]
    have hs : start ∈ stack := List.mem_of_getLast? h.stack_last
    have : nb ≠ start := fun e => hnst (e ▸ hs)
    simp [this]; exact h.start_disc
  · show base ≤ index + 1
    omega
  · intro c hc y hy
    simp [tarjanPush] at hc
    rcases hc with rfl | rfl | hc
    · exact (Digraph.mem_outAdj.1 hy).1
    · exact h.br cur (by simp) y hy
    · exact h.br c (by simp [hc]) y hy
  · intro v hv
    have hv' : seen ((nb, index) :: disc) v := hv
    rw [seen_cons] at hv'
    rcases hv' with rfl | hv'
    · exact h.br cur (by simp) _ hnb
    · exact h.disc_nodes v hv'

theorem propagateLow_bounds {low disc : List (Nat × Nat)} {stack : List Nat} {rest : List Cur} {id : Nat}
    (hid : id ∈ stack) (hge : ∀ v, v ∈ stack → base ≤ lookupD low v)
    (hle : ∀ v, v ∈ stack → lookupD low v ≤ lookupD disc v) :
    (∀ v, v ∈ stack → base ≤ lookupD (propagateLow low rest id) v) ∧
    (∀ v, v ∈ stack → lookupD (propagateLow low rest id) v ≤ lookupD disc v) := by
  unfold propagateLow
  cases rest with
  | nil => exact ⟨hge, hle⟩
  | cons p rest' =>
    simp only
    by_cases hc : lookupD low p.id > lookupD low id
    · simp only [hc, if_true]
      constructor
      · intro v hv
        rw [lookupD_cons]
        by_cases e : p.id = v
        · simp [e]; exact hge id hid
        · simp [e]; exact hge v hv
      · intro v hv
        rw [lookupD_cons]
        by_cases e : p.id = v
        · subst e; simp; have := hle p.id hv; omega
        · simp [e]; exact hle v hv
    · simp only [hc, if_false]; exact ⟨hge, hle⟩

/-- popping the top cursor (low-link propagation, possibly closing a component) -/
theorem runInv_pop {index : Nat} {disc low : List (Nat × Nat)} {onStack stack : List Nat} {cur : Cur}
    {rest : List Cur} {comps : List (List Nat)} {n2c : List (Nat × Nat)}
    (h : RunInv g base start ⟨index, disc, low, onStack, stack, cur :: rest, comps, n2c⟩) :
    RunInv g base start (closeComponent ⟨index, disc, propagateLow low rest cur.id, onStack, stack, rest, comps, n2c⟩ cur.id) ∨
    OutInv g (closeComponent ⟨index, disc, propagateLow low rest cur.id, onStack, stack, rest, comps, n2c⟩ cur.id) := by
  have hsub := h.ids_sub
  have hlast := h.ids_last
  have hslast := h.stack_last
  have hnd := h.stack_nd
  have hdisj := h.disj
  have hdi := h.disc_iff
  have hon := h.on_iff
  have hsd := h.start_disc
  simp only [ids, List.map_cons] at hsub hlast hslast hnd hdisj hdi hon hsd
  have hcur : cur.id ∈ stack := hsub.subset (by simp)
  have ⟨hge1, hle1⟩ := propagateLow_bounds (rest := rest) hcur h.low_ge h.low_le
  simp only at hge1 hle1
  have hbr : ∀ c, c ∈ rest → ∀ y, y ∈ c.branches → y ∈ g.nodes := fun c hc => h.br c (by simp [hc])
  obtain ⟨A, B, rfl⟩ := List.append_of_mem hcur
  rw [List.nodup_append] at hnd
  obtain ⟨hAnd, hcBnd, hAB⟩ := hnd
  rw [List.nodup_cons] at hcBnd
  obtain ⟨hcB, hBnd⟩ := hcBnd
  have hcA : cur.id ∉ A := fun hm => hAB _ hm _ (by simp) rfl
  have hABd : ∀ a, a ∈ A → a ∉ B := fun a ha hb => hAB a ha a (by simp [hb]) rfl
  unfold closeComponent
  by_cases hfire : lookupD (propagateLow low rest cur.id) cur.id = lookupD disc cur.id
  · simp only [hfire, if_true, popUntil_append _ _ _ hcA]
    -- facts about the closed component P = A ++ [cur.id]
    have hPnd : (A ++ [cur.id]).Nodup := by
      rw [List.nodup_append]; exact ⟨hAnd, by simp, fun a ha b hb => by simp at hb; subst hb; exact fun e => hcA (e ▸ ha)⟩
    have hPstack : ∀ v, v ∈ A ++ [cur.id] → v ∈ A ++ cur.id :: B := by
      intro v hv; simp at hv ⊢; rcases hv with hv | hv
      · exact Or.inl hv
      · exact Or.inr (Or.inl hv)
    have hPB : ∀ v, v ∈ A ++ [cur.id] → v ∉ B := by
      intro v hv; simp at hv; rcases hv with hv | hv
      · exact hABd v hv
      · subst hv; exact hcB
    have hBstack : ∀ v, v ∈ B → v ∈ A ++ cur.id :: B := fun v hv => by simp [hv]
    have hcomps_nd : (comps ++ [A ++ [cur.id]]).flatten.Nodup := by
      rw [List.flatten_append, List.nodup_append]
      refine ⟨h.comps_nd, by simpa using hPnd, ?_⟩
      intro a ha b hb e
      subst e
      simp only [List.flatten_cons, List.flatten_nil, List.append_nil] at hb
      exact hdisj a (hPstack a hb) ha
    have hdisc_iff : ∀ v, seen disc v ↔ v ∈ B ∨ v ∈ (comps ++ [A ++ [cur.id]]).flatten := by
      intro v
      rw [hdi v, List.flatten_append]
      simp only [List.flatten_cons, List.flatten_nil, List.append_nil, List.mem_append, List.mem_cons,
        List.mem_singleton, List.not_mem_nil, or_false]
      constructor
      · rintro ((h1 | h1 | h1) | h1)
        · exact Or.inr (Or.inr (Or.inl h1))
        · exact Or.inr (Or.inr (Or.inr h1))
        · exact Or.inl h1
        · exact Or.inr (Or.inl h1)
      · rintro (h1 | h1 | h1 | h1)
        · exact Or.inl (Or.inr (Or.inr h1))
        · exact Or.inr h1
        · exact Or.inl (Or.inl h1)
        · exact Or.inl (Or.inr (Or.inl h1))
    have hon' : ∀ v, v ∈ onStack.filter (fun x => !(A ++ [cur.id]).contains x) ↔ v ∈ B := by
      intro v
      rw [List.mem_filter, hon v]
      simp only [List.mem_append, List.mem_cons, List.mem_singleton, Bool.not_eq_true', List.contains_eq_mem,
        decide_eq_false_iff_not, not_or, List.not_mem_nil, or_false, not_false_eq_true, and_true]
      constructor
      · rintro ⟨h1 | h1 | h1, h2, h3⟩
        · exact absurd h1 h2
        · exact absurd h1 h3
        · exact h1
      · intro h1
        refine ⟨Or.inr (Or.inr h1), fun h2 => hABd v h2 h1, fun h2 => hcB (by rw [← h2]; exact h1)⟩
    have hcomps_ne : ∀ C, C ∈ comps ++ [A ++ [cur.id]] → C ≠ [] := by
      intro C hC
      rcases List.mem_append.1 hC with hC | hC
      · exact h.comps_ne C hC
      · simp at hC; subst hC; simp
    cases rest with
    | nil =>
      -- the run's first cursor: the whole stack is unwound
      have hcs : cur.id = start := by simpa using hlast
      have hB : B = [] := by
        cases hBe : B with
        | nil => rfl
        | cons b B' =>
          exfalso
          rw [getLast?_append_cons A cur.id B (by simp [hBe])] at hslast
          have : start ∈ B := List.mem_of_getLast? hslast
          exact hcB (hcs ▸ this)
      subst hB
      right
      refine ⟨rfl, rfl, ?_, hcomps_nd, ?_, h.disc_nodes, hcomps_ne⟩
      · intro v hv; have := (hon' v).1 hv; simp at this
      · intro v; have := hdisc_iff v; simpa using this
    | cons p rest' =>
      left
      have hsubB : (ids (p :: rest')).Sublist B := sublist_after hsub hcA
      have hBne : B ≠ [] := by
        intro e; subst e
        have := hsubB.length_le; simp [ids] at this
      refine ⟨by simp, ?_, ?_, hsubB, hBnd, hcomps_nd, ?_, hdisc_iff, hon', ?_, ?_, ?_, hsd, h.idx_ge, hbr,
        h.disc_nodes, hcomps_ne⟩
      · simp only [ids, List.map_cons] at hlast ⊢
        rw [List.getLast?_cons_cons] at hlast; exact hlast
      · show B.getLast? = some start
        rw [getLast?_append_cons A cur.id B hBne] at hslast; exact hslast
      · intro v hv hc
        rw [List.flatten_append] at hc
        simp only [List.flatten_cons, List.flatten_nil, List.append_nil] at hc
        rcases List.mem_append.1 hc with hc | hc
        · exact hdisj v (hBstack v hv) hc
        · exact hPB v hc hv
      · exact fun v hv => hge1 v (hBstack v hv)
      · exact fun v hv => h.disc_ge v (hBstack v hv)
      · exact fun v hv => hle1 v (hBstack v hv)
  · simp only [hfire, if_false]
    cases rest with
    | nil =>
      exfalso
      have hcs : cur.id = start := by simpa using hlast
      have h1 := hge1 cur.id hcur
      have h2 := hle1 cur.id hcur
      rw [hcs] at h1 h2 hfire
      rw [hsd] at h2 hfire
      exact hfire (by omega)
    | cons p rest' =>
      left
      refine ⟨by simp, ?_, hslast, ?_, h.stack_nd, h.comps_nd, hdisj, hdi, hon, hge1, h.disc_ge, hle1, hsd,
        h.idx_ge, hbr, h.disc_nodes, h.comps_ne⟩
      · simp only [ids, List.map_cons] at hlast ⊢
        rw [List.getLast?_cons_cons] at hlast; exact hlast
      · exact (List.sublist_cons_self _ _).trans hsub

end Step

section Run
variable {g : Digraph} {base start : Nat}

theorem tstep_run (st : TState) (h : RunInv g base start st) :
    RunInv g base start (tstep g st) ∨ OutInv g (tstep g st) := by
  obtain ⟨index, disc, low, onStack, stack, dfs, comps, n2c⟩ := st
  cases dfs with
  | nil => exact absurd rfl h.dfs_ne
  | cons cur rest =>
    have hcur : cur.id ∈ stack := h.ids_sub.subset (by simp [ids])
    cases hn : cur.branches[cur.branchIdx]? with
    | some nb =>
      cases hd : lookup disc nb with
      | none =>
        simp only [tstep, hn, hd]
        exact Or.inl (runInv_push h (getElem?_mem hn) hd)
      | some dn =>
        simp only [tstep, hn, hd]
        left
        split
        · rename_i hon
          split
          · rename_i hlow
            have hnbs : nb ∈ stack := (h.on_iff nb).1 (by simpa using hon)
            have hdn : lookupD disc nb = dn := lookupD_of_lookup hd
            apply runInv_advance h
            · intro v hv
              rw [lookupD_cons]
              by_cases e : cur.id = v
              · simp [e]; have := h.disc_ge nb hnbs; simp only at this; omega
              · simp [e]; exact h.low_ge v hv
            · intro v hv
              rw [lookupD_cons]
              by_cases e : cur.id = v
              · subst e; simp; have := h.low_le cur.id hv; simp only at this; omega
              · simp [e]; exact h.low_le v hv
          · exact runInv_advance h h.low_ge h.low_le
        · exact runInv_advance h h.low_ge h.low_le
    | none =>
      simp only [tstep, hn]
      exact runInv_pop h

theorem tloop_run (fuel : Nat) (st st' : TState) (h : RunInv g base start st ∨ OutInv g st)
    (hl : tloop g fuel st = some st') : OutInv g st' := by
  induction fuel generalizing st with
  | zero =>
    unfold tloop at hl
    cases hd : st.dfs with
    | nil =>
      simp [hd] at hl; subst hl
      rcases h with h | h
      · exact absurd hd h.dfs_ne
      · exact h
    | cons c cs => simp [hd] at hl
  | succ fuel ih =>
    unfold tloop at hl
    cases hd : st.dfs with
    | nil =>
      simp [hd] at hl; subst hl
      rcases h with h | h
      · exact absurd hd h.dfs_ne
      · exact h
    | cons c cs =>
      simp [hd] at hl
      rcases h with h | h
      · exact ih _ (tstep_run st h) hl
      · rw [h.dfs_nil] at hd; cases hd

theorem tstep_seen_mono (st : TState) (v : Nat) (h : seen st.disc v) : seen (tstep g st).disc v := by
  obtain ⟨index, disc, low, onStack, stack, dfs, comps, n2c⟩ := st
  cases dfs with
  | nil => exact h
  | cons cur rest =>
    cases hn : cur.branches[cur.branchIdx]? with
    | some nb =>
      cases hd : lookup disc nb with
      | none =>
        simp only [tstep, hn, hd, tarjanPush]
        exact (seen_cons _ _ _ _).2 (Or.inr h)
      | some dn =>
        simp only [tstep, hn, hd]
        split
        · split <;> exact h
        · exact h
    | none =>
      simp only [tstep, hn, closeComponent_disc]
      exact h

theorem tloop_seen_mono (fuel : Nat) (st st' : TState) (hl : tloop g fuel st = some st') (v : Nat)
    (h : seen st.disc v) : seen st'.disc v := by
  induction fuel generalizing st with
  | zero =>
    unfold tloop at hl
    cases hd : st.dfs with
    | nil => simp [hd] at hl; subst hl; exact h
    | cons c cs => simp [hd] at hl
  | succ fuel ih =>
    unfold tloop at hl
    cases hd : st.dfs with
    | nil => simp [hd] at hl; subst hl; exact h
    | cons c cs => simp [hd] at hl; exact ih _ hl (tstep_seen_mono st v h)

theorem tarjanFrom_out (st st' : TState) (s : Nat) (hs : s ∈ g.nodes) (h : OutInv g st)
    (hf : tarjanFrom g st s = some st') :
    OutInv g st' ∧ seen st'.disc s ∧ ∀ v, seen st.disc v → seen st'.disc v := by
  unfold tarjanFrom at hf
  cases hd : lookup st.disc s with
  | some d =>
    simp [hd] at hf; subst hf
    exact ⟨h, seen_of_some hd, fun v hv => hv⟩
  | none =>
    simp only [hd] at hf
    obtain ⟨index, disc, low, onStack, stack, dfs, comps, n2c⟩ := st
    have hst : stack = [] := h.stack_nil
    have hon := h.on_nil
    have hdi := h.disc_iff
    simp only at hd hon hdi
    subst hst
    have hns : ¬ seen disc s := not_seen_of_none hd
    have hnc : s ∉ comps.flatten := fun hm => hns ((hdi s).2 hm)
    have hrun : RunInv g index s (tarjanPush ⟨index, disc, low, onStack, [],
        [{ id := s, branches := g.outAdj s, branchIdx := 0 }], comps, n2c⟩ s) := by
      refine ⟨by simp [tarjanPush], by simp [tarjanPush, ids], by simp [tarjanPush], ?_, by simp [tarjanPush],
        h.comps_nd, ?_, ?_, ?_, ?_, ?_, ?_, ?_, ?_, ?_, ?_, h.comps_ne⟩
      · simp [tarjanPush, ids]
      · intro v hv; simp [tarjanPush] at hv; subst hv; exact hnc
      · intro v
        show seen ((s, index) :: disc) v ↔ v ∈ [s] ∨ v ∈ comps.flatten
        rw [seen_cons, hdi v]; simp; exact ⟨fun h => h.elim (fun e => Or.inl e.symm) Or.inr, fun h => h.elim (fun e => Or.inl e.symm) Or.inr⟩
      · intro v
        show v ∈ s :: onStack ↔ v ∈ [s]
        simp; intro hv; exact absurd hv (hon v)
      · intro v hv; simp [tarjanPush] at hv; subst hv
        show index ≤ lookupD ((v, index) :: low) v
        rw [lookupD_cons]; simp
      · intro v hv; simp [tarjanPush] at hv; subst hv
        show index ≤ lookupD ((v, index) :: disc) v
        rw [lookupD_cons]; simp
      · intro v hv; simp [tarjanPush] at hv; subst hv
        show lookupD ((v, index) :: low) v ≤ lookupD ((v, index) :: disc) v
        rw [lookupD_cons, lookupD_cons]; simp
      · show lookupD ((s, index) :: disc) s = index
        rw [lookupD_cons]; simp
      · show index ≤ index + 1; omega
      · intro c hc y hy; simp [tarjanPush] at hc; subst hc; exact (Digraph.mem_outAdj.1 hy).1
      · intro v hv
        have hv' : seen ((s, index) :: disc) v := hv
        rw [seen_cons] at hv'
        rcases hv' with rfl | hv'
        · exact hs
        · exact h.disc_nodes v hv'
    refine ⟨tloop_run _ _ _ (Or.inl hrun) hf, ?_, ?_⟩
    · exact tloop_seen_mono _ _ _ hf s ((seen_cons _ _ _ _).2 (Or.inl rfl))
    · intro v hv
      exact tloop_seen_mono _ _ _ hf v ((seen_cons _ _ _ _).2 (Or.inr hv))

theorem tarjanNodes_out (l : List Nat) (hl : ∀ v, v ∈ l → v ∈ g.nodes) (st st' : TState) (h : OutInv g st)
    (hf : tarjanNodes g l st = some st') :
    OutInv g st' ∧ (∀ v, seen st.disc v → seen st'.disc v) ∧ ∀ v, v ∈ l → seen st'.disc v := by
  induction l generalizing st with
  | nil =>
    simp [tarjanNodes] at hf; subst hf
    exact ⟨h, fun v hv => hv, fun v hv => by simp at hv⟩
  | cons a l ih =>
    unfold tarjanNodes at hf
    cases h1 : tarjanFrom g st a with
    | none => simp [h1] at hf
    | some st1 =>
      simp only [h1] at hf
      obtain ⟨ho1, hs1, hm1⟩ := tarjanFrom_out st st1 a (hl a (by simp)) h h1
      obtain ⟨ho2, hm2, hall⟩ := ih (fun v hv => hl v (by simp [hv])) st1 ho1 hf
      refine ⟨ho2, fun v hv => hm2 v (hm1 v hv), ?_⟩
      intro v hv
      rcases List.mem_cons.1 hv with rfl | hv
      · exact hm2 _ hs1
      · exact hall v hv

theorem outInv_init : OutInv g TState.init := by
  refine ⟨rfl, rfl, by simp [TState.init], by simp [TState.init], ?_, ?_, by simp [TState.init]⟩
  · intro v; simp [TState.init, seen, lookup]
  · intro v hv; simp [TState.init, seen, lookup] at hv

/-- **Tarjan's output is a partition of the node set** (every digraph) -/
theorem tarjan_partition_aux (comps : List (List Nat)) (lk : List (Nat × Nat)) (h : tarjan g = some (comps, lk)) :
    (∀ v, v ∈ g.nodes ↔ v ∈ comps.flatten) ∧ comps.flatten.Nodup ∧ ∀ C, C ∈ comps → C ≠ [] := by
  unfold tarjan at h
  cases hn : tarjanNodes g g.nodes TState.init with
  | none => simp [hn] at h
  | some st =>
    simp [hn] at h
    obtain ⟨rfl, rfl⟩ := h
    obtain ⟨ho, _, hall⟩ := tarjanNodes_out g.nodes (fun _ hv => hv) TState.init st outInv_init hn
    exact ⟨fun v => ⟨fun hv => (ho.disc_iff v).1 (hall v hv), fun hv => ho.disc_nodes v ((ho.disc_iff v).2 hv)⟩,
      ho.comps_nd, ho.comps_ne⟩

end Run

/-! ### the member → component map agrees with the component list -/

theorem lookup_map_append (P : List Nat) (ci : Nat) (m : List (Nat × Nat)) (v : Nat) :
    lookup (P.map (fun x => (x, ci)) ++ m) v = if v ∈ P then some ci else lookup m v := by
  induction P with
  | nil => simp
  | cons a P ih =>
    simp only [List.map_cons, List.cons_append, lookup_cons, ih, List.mem_cons]
    by_cases h : a = v
    · simp [h]
    · have : ¬ v = a := fun e => h e.symm
      simp [h, this]

theorem compIndexOf_none_iff {comps : List (List Nat)} {v : Nat} : compIndexOf comps v = none ↔ v ∉ comps.flatten := by
  constructor
  · intro h hm
    obtain ⟨i, hi⟩ := compIndexOf_some_of_mem hm
    rw [h] at hi; cases hi
  · intro h
    cases hc : compIndexOf comps v with
    | none => rfl
    | some i =>
      obtain ⟨A, hA, hv⟩ := compIndexOf_get hc
      exact absurd (List.mem_flatten.2 ⟨A, List.mem_of_getElem? hA, hv⟩) h

theorem compIndexOf_append_single (comps : List (List Nat)) (P : List Nat) (v : Nat) :
    compIndexOf (comps ++ [P]) v =
      match compIndexOf comps v with
      | some i => some i
      | none => if v ∈ P then some comps.length else none := by
  induction comps with
  | nil =>
    simp only [List.nil_append, compIndexOf_cons, List.length_nil]
    have : compIndexOf [] v = none := rfl
    rw [this]; simp
  | cons C rest ih =>
    simp only [List.cons_append, compIndexOf_cons, ih]
    by_cases h : v ∈ C
    · simp [h]
    · simp only [h, if_false]
      cases hr : compIndexOf rest v with
      | some i => simp
      | none =>
        by_cases hp : v ∈ P
        · simp [hp]
        · simp [hp]

def N2C (st : TState) : Prop := ∀ v, lookup st.nodeToComp v = compIndexOf st.comps v

theorem popUntil_fst_sub (id : Nat) (s : List Nat) (v : Nat) (h : v ∈ (popUntil id s).1) : v ∈ s := by
  induction s with
  | nil => simp [popUntil] at h
  | cons t rest ih =>
    unfold popUntil at h
    by_cases e : t = id
    · simp [e] at h; subst h; simp [e]
    · simp only [e, if_false] at h
      rcases List.mem_cons.1 h with rfl | h
      · simp
      · exact List.mem_cons_of_mem _ (ih h)

theorem closeComponent_n2c (st : TState) (id : Nat) (hn : N2C st)
    (hd : ∀ v, v ∈ st.stack → v ∉ st.comps.flatten) : N2C (closeComponent st id) := by
  unfold closeComponent
  split
  · intro v
    show lookup ((popUntil id st.stack).1.map (fun m => (m, st.comps.length)) ++ st.nodeToComp) v =
      compIndexOf (st.comps ++ [(popUntil id st.stack).1]) v
    rw [lookup_map_append, compIndexOf_append_single, ← hn v]
    by_cases hp : v ∈ (popUntil id st.stack).1
    · have : v ∉ st.comps.flatten := hd v (popUntil_fst_sub _ _ _ hp)
      have h0 : compIndexOf st.comps v = none := compIndexOf_none_iff.2 this
      rw [hn v, h0]
    · simp only [hp, if_false]
      cases lookup st.nodeToComp v <;> rfl
  · exact hn

section Run2
variable {g : Digraph} {base start : Nat}

theorem tstep_n2c (st : TState) (h : RunInv g base start st) (hn : N2C st) : N2C (tstep g st) := by
  obtain ⟨index, disc, low, onStack, stack, dfs, comps, n2c⟩ := st
  cases dfs with
  | nil => exact hn
  | cons cur rest =>
    cases hc : cur.branches[cur.branchIdx]? with
    | some nb =>
      cases hd : lookup disc nb with
      | none => simp only [tstep, hc, hd, tarjanPush]; exact hn
      | some dn =>
        simp only [tstep, hc, hd]
        split
        · split <;> exact hn
        · exact hn
    | none =>
      simp only [tstep, hc]
      exact closeComponent_n2c _ _ hn h.disj

theorem tloop_run2 (fuel : Nat) (st st' : TState) (h : RunInv g base start st ∨ OutInv g st) (hn : N2C st)
    (hl : tloop g fuel st = some st') : N2C st' := by
  induction fuel generalizing st with
  | zero =>
    unfold tloop at hl
    cases hd : st.dfs with
    | nil => simp [hd] at hl; subst hl; exact hn
    | cons c cs => simp [hd] at hl
  | succ fuel ih =>
    unfold tloop at hl
    cases hd : st.dfs with
    | nil => simp [hd] at hl; subst hl; exact hn
    | cons c cs =>
      simp [hd] at hl
      rcases h with h | h
      · exact ih _ (tstep_run st h) (tstep_n2c st h hn) hl
      · rw [h.dfs_nil] at hd; cases hd

end Run2

theorem runInv_start {g : Digraph} {index : Nat} {disc low : List (Nat × Nat)} {onStack : List Nat}
    {comps : List (List Nat)} {n2c : List (Nat × Nat)} {s : Nat} (hs : s ∈ g.nodes)
    (h : OutInv g ⟨index, disc, low, onStack, [], [], comps, n2c⟩) (hd : lookup disc s = none) :
    RunInv g index s (tarjanPush ⟨index, disc, low, onStack, [],
        [{ id := s, branches := g.outAdj s, branchIdx := 0 }], comps, n2c⟩ s) := by
  have hon := h.on_nil
  have hdi := h.disc_iff
  simp only at hon hdi
  have hns : ¬ seen disc s := not_seen_of_none hd
  have hnc : s ∉ comps.flatten := fun hm => hns ((hdi s).2 hm)
  refine ⟨by simp [tarjanPush], by simp [tarjanPush, ids], by simp [tarjanPush], ?_, by simp [tarjanPush],
    h.comps_nd, ?_, ?_, ?_, ?_, ?_, ?_, ?_, ?_, ?_, ?_, h.comps_ne⟩
  · simp [tarjanPush, ids]
  · intro v hv; simp [tarjanPush] at hv; subst hv; exact hnc
  · intro v
    show seen ((s, index) :: disc) v ↔ v ∈ [s] ∨ v ∈ comps.flatten
    rw [seen_cons, hdi v]; simp; exact ⟨fun h => h.elim (fun e => Or.inl e.symm) Or.inr, fun h => h.elim (fun e => Or.inl e.symm) Or.inr⟩
  · intro v
    show v ∈ s :: onStack ↔ v ∈ [s]
    simp; intro hv; exact absurd hv (hon v)
  · intro v hv; simp [tarjanPush] at hv; subst hv
    show index ≤ lookupD ((v, index) :: low) v
    rw [lookupD_cons]; simp
  · intro v hv; simp [tarjanPush] at hv; subst hv
    show index ≤ lookupD ((v, index) :: disc) v
    rw [lookupD_cons]; simp
  · intro v hv; simp [tarjanPush] at hv; subst hv
    show lookupD ((v, index) :: low) v ≤ lookupD ((v, index) :: disc) v
    rw [lookupD_cons, lookupD_cons]; simp
  · show lookupD ((s, index) :: disc) s = index
    rw [lookupD_cons]; simp
  · show index ≤ index + 1; omega
  · intro c hc y hy; simp [tarjanPush] at hc; subst hc; exact (Digraph.mem_outAdj.1 hy).1
  · intro v hv
    have hv' : seen ((s, index) :: disc) v := hv
    rw [seen_cons] at hv'
    rcases hv' with rfl | hv'
    · exact hs
    · exact h.disc_nodes v hv'

theorem tarjanFrom_n2c {g : Digraph} (st st' : TState) (s : Nat) (hs : s ∈ g.nodes) (h : OutInv g st) (hn : N2C st)
    (hf : tarjanFrom g st s = some st') : N2C st' := by
  unfold tarjanFrom at hf
  cases hd : lookup st.disc s with
  | some d => simp [hd] at hf; subst hf; exact hn
  | none =>
    simp only [hd] at hf
    obtain ⟨index, disc, low, onStack, stack, dfs, comps, n2c⟩ := st
    have hst : stack = [] := h.stack_nil
    have hdf : dfs = [] := h.dfs_nil
    subst hst; subst hdf
    exact tloop_run2 _ _ _ (Or.inl (runInv_start hs h hd)) hn hf

theorem tarjanNodes_n2c {g : Digraph} (l : List Nat) (hl : ∀ v, v ∈ l → v ∈ g.nodes) (st st' : TState)
    (h : OutInv g st) (hn : N2C st) (hf : tarjanNodes g l st = some st') : N2C st' := by
  induction l generalizing st with
  | nil => simp [tarjanNodes] at hf; subst hf; exact hn
  | cons a l ih =>
    unfold tarjanNodes at hf
    cases h1 : tarjanFrom g st a with
    | none => simp [h1] at hf
    | some st1 =>
      simp only [h1] at hf
      have ho1 := (tarjanFrom_out st st1 a (hl a (by simp)) h h1).1
      exact ih (fun v hv => hl v (by simp [hv])) st1 ho1 (tarjanFrom_n2c st st1 a (hl a (by simp)) h hn h1) hf

/-- the member → component index map Tarjan returns is `compIndexOf` of the component list it returns -/
theorem tarjan_lookup {g : Digraph} (comps : List (List Nat)) (lk : List (Nat × Nat)) (h : tarjan g = some (comps, lk)) :
    ∀ v, lookup lk v = compIndexOf comps v := by
  unfold tarjan at h
  cases hn : tarjanNodes g g.nodes TState.init with
  | none => simp [hn] at h
  | some st =>
    simp [hn] at h
    obtain ⟨rfl, rfl⟩ := h
    exact tarjanNodes_n2c g.nodes (fun _ hv => hv) TState.init st outInv_init (fun v => rfl) hn

end Dawgs.C15
