/- Helper lemmas for C17 (a): the BufferedPipe LTS. Property statements live in Props/C17.lean. -/
import Dawgs.Model.C17
namespace Dawgs.C17
namespace Pipe
variable {α : Type}

/-- states reachable from the initial pipe by any sequence of enabled actions (= any schedule of
writer, reader, context and the pipe goroutine itself) -/
inductive Reach : Pipe α → Prop where
  | init : Reach (Pipe.init)
  | step {p p' : Pipe α} {a : PAct α} : Reach p → p.step a = some p' → Reach p'

structure Inv (p : Pipe α) : Prop where
  hist : p.submitted = p.delivered ++ p.buf
  done : p.phase = .done → p.cancelled = true ∨ p.buf = []

theorem inv_init : Inv (Pipe.init : Pipe α) := ⟨rfl, fun h => by cases h⟩

theorem step_recv {p p' : Pipe α} {v : α} (h : p.step (.recv v) = some p') :
    p.phase = .loop ∧ p' = { p with buf := p.buf ++ [v], submitted := p.submitted ++ [v] } := by
  simp only [step] at h
  split at h
  · next hp => exact ⟨hp, (Option.some.inj h).symm⟩
  · cases h

theorem step_send {p p' : Pipe α} (h : p.step .send = some p') :
    p.phase ≠ .done ∧ ∃ v rest, p.buf = v :: rest ∧ p' = { p with buf := rest, delivered := p.delivered ++ [v] } := by
  simp only [step] at h
  split at h
  · cases h
  · next hp =>
    split at h
    · cases h
    · next v rest hb => exact ⟨hp, v, rest, hb, (Option.some.inj h).symm⟩

theorem step_close {p p' : Pipe α} (h : p.step .close = some p') :
    p.phase = .loop ∧ p' = { p with phase := .flush } := by
  simp only [step] at h
  split at h
  · next hp => exact ⟨hp, (Option.some.inj h).symm⟩
  · cases h

theorem step_cancel {p p' : Pipe α} (h : p.step .cancel = some p') : p' = { p with cancelled := true } :=
  (Option.some.inj h).symm

theorem step_observe {p p' : Pipe α} (h : p.step .observeCancel = some p') :
    p.cancelled = true ∧ p.phase ≠ .done ∧ p' = { p with phase := .done } := by
  simp only [step] at h
  split at h
  · next hp => exact ⟨hp.1, hp.2, (Option.some.inj h).symm⟩
  · cases h

theorem step_exit {p p' : Pipe α} (h : p.step .exit = some p') :
    p.phase = .flush ∧ p.buf = [] ∧ p' = { p with phase := .done } := by
  simp only [step] at h
  split at h
  · next hp => exact ⟨hp.1, hp.2, (Option.some.inj h).symm⟩
  · cases h

theorem inv_step {p p' : Pipe α} {a : PAct α} (hi : Inv p) (h : p.step a = some p') : Inv p' := by
  cases a with
  | recv v =>
    obtain ⟨hp, rfl⟩ := step_recv h
    refine ⟨?_, fun hd => ?_⟩
    · show p.submitted ++ [v] = p.delivered ++ (p.buf ++ [v])
      rw [hi.hist, List.append_assoc]
    · have : p.phase = .done := hd
      rw [hp] at this; cases this
  | send =>
    obtain ⟨hp, v, rest, hb, rfl⟩ := step_send h
    refine ⟨?_, fun hd => absurd hd hp⟩
    show p.submitted = (p.delivered ++ [v]) ++ rest
    rw [hi.hist, hb, List.append_assoc]; rfl
  | close =>
    obtain ⟨_, rfl⟩ := step_close h
    exact ⟨hi.hist, fun hd => by cases hd⟩
  | cancel =>
    rw [step_cancel h]
    exact ⟨hi.hist, fun _ => Or.inl rfl⟩
  | observeCancel =>
    obtain ⟨hc, _, rfl⟩ := step_observe h
    exact ⟨hi.hist, fun _ => Or.inl hc⟩
  | exit =>
    obtain ⟨_, hb, rfl⟩ := step_exit h
    exact ⟨hi.hist, fun _ => Or.inr hb⟩

theorem reach_inv {p : Pipe α} (h : Reach p) : Inv p := by
  induction h with
  | init => exact inv_init
  | step _ hs ih => exact inv_step ih hs

theorem run_append (p : Pipe α) (as bs : List (PAct α)) :
    p.run (as ++ bs) = (p.run as).bind (fun q => q.run bs) := by
  induction as generalizing p with
  | nil => rfl
  | cons a as ih =>
    show (match p.step a with | some p' => run p' (as ++ bs) | none => none) = _
    cases h : p.step a with
    | none => simp [run, h]
    | some p' => simp [run, h, ih]

theorem reach_run {p p' : Pipe α} (h : Reach p) (as : List (PAct α)) (hr : p.run as = some p') : Reach p' := by
  induction as generalizing p with
  | nil => cases hr; exact h
  | cons a as ih =>
    unfold run at hr
    cases hs : p.step a with
    | none => rw [hs] at hr; cases hr
    | some q => rw [hs] at hr; exact ih (Reach.step h hs) hr

/-- k sends on a buffer of length ≥ k are all enabled when the goroutine has not returned -/
theorem run_sends (p : Pipe α) (hp : p.phase ≠ .done) :
    ∀ (pre : List α) (post : List α), p.buf = pre ++ post →
      p.run (List.replicate pre.length .send) =
        some { p with buf := post, delivered := p.delivered ++ pre } := by
  intro pre
  induction pre generalizing p with
  | nil => intro post hb; simp [run]; cases p; simp_all
  | cons v pre ih =>
    intro post hb
    have hs : p.step .send = some { p with buf := pre ++ post, delivered := p.delivered ++ [v] } := by
      simp only [step]; rw [if_neg hp, hb]; rfl
    have h1 : p.run (List.replicate (v :: pre).length .send) =
        run { p with buf := pre ++ post, delivered := p.delivered ++ [v] } (List.replicate pre.length .send) := by
      show (match p.step .send with | some p' => run p' _ | none => none) = _
      rw [hs]
    rw [h1, ih { p with buf := pre ++ post, delivered := p.delivered ++ [v] } hp post rfl]
    simp [List.append_assoc]

/-- k writer submissions are all enabled in the main loop, with no reader step in between -/
theorem run_recvs (p : Pipe α) (hp : p.phase = .loop) (vs : List α) :
    p.run (vs.map .recv) = some { p with buf := p.buf ++ vs, submitted := p.submitted ++ vs } := by
  induction vs generalizing p with
  | nil => simp [run]
  | cons v vs ih =>
    have hs : p.step (.recv v) = some { p with buf := p.buf ++ [v], submitted := p.submitted ++ [v] } := by
      simp only [step]; rw [if_pos hp]
    have h1 : p.run ((v :: vs).map .recv) =
        run { p with buf := p.buf ++ [v], submitted := p.submitted ++ [v] } (vs.map .recv) := by
      show (match p.step (.recv v) with | some p' => run p' _ | none => none) = _
      rw [hs]
    rw [h1, ih { p with buf := p.buf ++ [v], submitted := p.submitted ++ [v] } hp]; simp [List.append_assoc]

/-- progress measure of the goroutine once the writer has closed -/
def flushMeasure (p : Pipe α) : Nat :=
  match p.phase with
  | .done => 0
  | _ => p.buf.length + 1

end Pipe
end Dawgs.C17
