import Dawgs.Model.C09
set_option linter.unusedSectionVars false
namespace Dawgs.C09
open Dawgs.Grammar

theorem rules_node (r kids) : (Tree.node r kids).rules = r :: rulesL kids := by simp [Tree.rules]
theorem rulesL_cons (t ts) : rulesL (t :: ts) = t.rules ++ rulesL ts := by simp [rulesL]
theorem rulesL_nil : rulesL [] = [] := by simp [rulesL]

/-- a child's root label occurs among the labels of the child list -/
theorem root_mem_rulesL {kids : List Tree} {k : Tree} {c : Nat} (hk : k ∈ kids) (hc : k.rootRule = some c) :
    c ∈ rulesL kids := by
  induction kids with
  | nil => cases hk
  | cons t ts ih =>
    rw [rulesL_cons]
    rcases List.mem_cons.1 hk with h | h
    · subst h
      cases k with
      | node r ks => simp [Tree.rootRule] at hc; subst hc; simp [rules_node]
      | leaf _ => simp [Tree.rootRule] at hc
      | err _ => simp [Tree.rootRule] at hc
    · exact List.mem_append_right _ (ih h)

section Dominance
variable (refs : List (List Nat)) (avoid : Nat → Bool) (S : List Nat)
  (hclosed : ∀ r ∈ S, avoid r = false → ∀ c ∈ refs.getD r [], c ∈ S)
include hclosed

mutual
theorem dom_t : ∀ t : Tree, t.wf refs = true → (∀ r, t.rootRule = some r → r ∈ S) →
    (∀ x ∈ t.rules, x ∈ S) ∨ (∃ x ∈ t.rules, avoid x = true)
  | .node r kids, hwf, hroot => by
    have hr : r ∈ S := hroot r rfl
    rw [rules_node]
    by_cases ha : avoid r = true
    · exact Or.inr ⟨r, by simp, ha⟩
    · have ha' : avoid r = false := by simpa using ha
      simp only [Tree.wf, Bool.and_eq_true] at hwf
      have hkids : ∀ t ∈ kids, ∀ c, t.rootRule = some c → c ∈ S := by
        intro t ht c hc
        have := (List.all_eq_true.1 hwf.1) t ht
        simp only [hc] at this
        exact hclosed r hr ha' c (by simpa using this)
      rcases dom_l kids hwf.2 hkids with h | ⟨x, hx, hax⟩
      · left; intro x hx
        rcases List.mem_cons.1 hx with h' | h'
        · exact h' ▸ hr
        · exact h x h'
      · exact Or.inr ⟨x, List.mem_cons_of_mem _ hx, hax⟩
  | .leaf _, _, _ => by left; intro x hx; simp [Tree.rules] at hx
  | .err _, _, _ => by left; intro x hx; simp [Tree.rules] at hx
theorem dom_l : ∀ ts : List Tree, wfL refs ts = true → (∀ t ∈ ts, ∀ r, t.rootRule = some r → r ∈ S) →
    (∀ x ∈ rulesL ts, x ∈ S) ∨ (∃ x ∈ rulesL ts, avoid x = true)
  | [], _, _ => by left; intro x hx; simp [rulesL] at hx
  | t :: ts, hwf, hroots => by
    simp only [wfL, Bool.and_eq_true] at hwf
    rw [rulesL_cons]
    rcases dom_t t hwf.1 (hroots t (by simp)) with h1 | ⟨x, hx, hax⟩
    · rcases dom_l ts hwf.2 (fun t' ht' => hroots t' (List.mem_cons_of_mem _ ht')) with h2 | ⟨x, hx, hax⟩
      · left; intro x hx
        rcases List.mem_append.1 hx with h | h
        · exact h1 x h
        · exact h2 x h
      · exact Or.inr ⟨x, List.mem_append_right _ hx, hax⟩
    · exact Or.inr ⟨x, List.mem_append_left _ hx, hax⟩
end
end Dominance

theorem closed_of_closedB {refs : List (List Nat)} {avoid : Nat → Bool} {S : List Nat}
    (hcl : closedB refs avoid S = true) :
    ∀ r ∈ S, avoid r = false → ∀ c ∈ refs.getD r [], c ∈ S := by
  intro r hr ha c hc
  have := (List.all_eq_true.1 hcl) r hr
  simp [ha] at this
  exact this c hc

/-- Dominance on trees: if `S` is closed under references that avoid `avoid`, a well-formed tree
rooted in `S` has all its labels in `S` or contains a label in `avoid`. -/
theorem dominance (refs : List (List Nat)) (avoid : Nat → Bool) (S : List Nat)
    (hcl : closedB refs avoid S = true) (t : Tree) (hwf : t.wf refs = true)
    (hroot : ∀ r, t.rootRule = some r → r ∈ S) :
    (∀ x ∈ t.rules, x ∈ S) ∨ (∃ x ∈ t.rules, avoid x = true) :=
  dom_t refs avoid S (closed_of_closedB hcl) t hwf hroot

section Implied
variable (T : Tables) (must : List (List (List Nat)))

mutual
theorem imp_t : ∀ t : Tree, t.conforms must = true → ∀ r ∈ t.rules, T.implied must r = true →
    ∃ x ∈ t.rules, T.direct x = true
  | .node r0 kids, hc, r, hr, himp => by
    rw [rules_node] at hr ⊢
    simp only [Tree.conforms, Bool.and_eq_true] at hc
    rcases List.mem_cons.1 hr with h | h
    · subst h
      unfold Tables.implied at himp
      rcases Bool.or_eq_true_iff.1 himp with hd | hm
      · exact ⟨r, by simp, hd⟩
      · obtain ⟨clause, hcl, hall⟩ := List.any_eq_true.1 hm
        have hok := (List.all_eq_true.1 hc.1) clause hcl
        obtain ⟨k, hk, hkc⟩ := List.any_eq_true.1 hok
        cases hrr : k.rootRule with
        | none => simp [hrr] at hkc
        | some c =>
          simp only [hrr] at hkc
          have hcmem : c ∈ clause := by simpa using hkc
          have hdir : T.direct c = true := (List.all_eq_true.1 hall) c hcmem
          exact ⟨c, List.mem_cons_of_mem _ (root_mem_rulesL hk hrr), hdir⟩
    · obtain ⟨x, hx, hd⟩ := imp_l kids hc.2 r h himp
      exact ⟨x, List.mem_cons_of_mem _ hx, hd⟩
  | .leaf _, _, r, hr, _ => by simp [Tree.rules] at hr
  | .err _, _, r, hr, _ => by simp [Tree.rules] at hr
theorem imp_l : ∀ ts : List Tree, conformsL must ts = true → ∀ r ∈ rulesL ts, T.implied must r = true →
    ∃ x ∈ rulesL ts, T.direct x = true
  | [], _, r, hr, _ => by simp [rulesL] at hr
  | t :: ts, hc, r, hr, himp => by
    simp only [conformsL, Bool.and_eq_true] at hc
    rw [rulesL_cons] at hr ⊢
    rcases List.mem_append.1 hr with h | h
    · obtain ⟨x, hx, hd⟩ := imp_t t hc.1 r h himp
      exact ⟨x, List.mem_append_left _ hx, hd⟩
    · obtain ⟨x, hx, hd⟩ := imp_l ts hc.2 r h himp
      exact ⟨x, List.mem_append_right _ hx, hd⟩
end
end Implied

theorem listenerErrors_ne_nil_of_direct (T : Tables) (t : Tree) {x} (hx : x ∈ t.rules) (hd : T.direct x = true) :
    T.listenerErrors t ≠ [] := by
  unfold Tables.listenerErrors
  intro h
  have : x ∈ t.rules.filter T.direct := List.mem_filter.2 ⟨hx, hd⟩
  rw [h] at this; cases this

end Dawgs.C09
