/- Helper lemmas for C15 (no property statements here; those live in Props/C15.lean). -/
import Dawgs.Spec.C15
import Dawgs.Proofs.C16
set_option linter.unusedSimpArgs false
set_option linter.unusedVariables false
namespace Dawgs.C15
open Dawgs.C16 (Sieve Ideal)

/-! ### bit sets -/

theorem hasBit_zero (j : Nat) : hasBit 0 j = false := by simp [hasBit]

theorem hasBit_or (a b j : Nat) : hasBit (a ||| b) j = (hasBit a j || hasBit b j) := by
  simp [hasBit, Nat.testBit_or]

theorem hasBit_setBit (b i j : Nat) : hasBit (setBit b i) j = true ↔ hasBit b j = true ∨ j = i := by
  unfold hasBit setBit
  rw [Nat.testBit_or, Nat.one_shiftLeft, Nat.testBit_two_pow]
  simp only [Bool.or_eq_true, decide_eq_true_eq]
  constructor
  · rintro (h | h)
    · exact Or.inl h
    · exact Or.inr h.symm
  · rintro (h | h)
    · exact Or.inl h
    · exact Or.inr h.symm

theorem hasBit_setBit_self (b i : Nat) : hasBit (setBit b i) i = true := (hasBit_setBit b i i).2 (Or.inr rfl)

theorem hasBit_setBit_of (b i j : Nat) (h : hasBit b j = true) : hasBit (setBit b i) j = true :=
  (hasBit_setBit b i j).2 (Or.inl h)

theorem hasBit_or_left {a b j : Nat} (h : hasBit a j = true) : hasBit (a ||| b) j = true := by
  rw [hasBit_or, h]; rfl

theorem hasBit_or_right {a b j : Nat} (h : hasBit b j = true) : hasBit (a ||| b) j = true := by
  rw [hasBit_or, h]; simp

theorem hasBit_or_iff {a b j : Nat} : hasBit (a ||| b) j = true ↔ hasBit a j = true ∨ hasBit b j = true := by
  rw [hasBit_or]; simp

theorem hasBit_bitsOf (l : List Nat) (j : Nat) : hasBit (bitsOf l) j = true ↔ j ∈ l := by
  induction l with
  | nil => simp [bitsOf, hasBit_zero]
  | cons x xs ih =>
    show hasBit (setBit (bitsOf xs) x) j = true ↔ _
    rw [hasBit_setBit, ih, List.mem_cons]
    exact ⟨fun h => h.symm, fun h => h.symm⟩

/-! ### reachability -/

theorem Reach.trans {adj : Nat → List Nat} {u v w : Nat} (h1 : Reach adj u v) (h2 : Reach adj v w) :
    Reach adj u w := by
  induction h2 with
  | refl => exact h1
  | tail _ hm ih => exact Reach.tail ih hm

theorem Reach.single {adj : Nat → List Nat} {u v : Nat} (h : v ∈ adj u) : Reach adj u v :=
  Reach.tail (Reach.refl u) h

theorem Reach.head {adj : Nat → List Nat} {u v w : Nat} (h : v ∈ adj u) (h2 : Reach adj v w) : Reach adj u w :=
  (Reach.single h).trans h2

/-- first-step decomposition -/
theorem Reach.cases_head {adj : Nat → List Nat} {u w : Nat} (h : Reach adj u w) :
    w = u ∨ ∃ y, y ∈ adj u ∧ Reach adj y w := by
  induction h with
  | refl => exact Or.inl rfl
  | @tail v w' _ hm ih =>
    rcases ih with rfl | ⟨y, hy, hr⟩
    · exact Or.inr ⟨w', hm, Reach.refl _⟩
    · exact Or.inr ⟨y, hy, Reach.tail hr hm⟩

/-- a set containing `u` and closed under adjacency contains everything reachable from `u` -/
theorem Reach.closed {adj : Nat → List Nat} {P : Nat → Prop} {u w : Nat} (h : Reach adj u w)
    (hu : P u) (hc : ∀ x, P x → ∀ y, y ∈ adj x → P y) : P w := by
  induction h with
  | refl => exact hu
  | tail _ hm ih => exact hc _ ih _ hm

/-- reachability only depends on the adjacency of the nodes on the way -/
theorem Reach.congr {adj adj' : Nat → List Nat} (h : ∀ v, adj v = adj' v) {u w : Nat} (hr : Reach adj u w) :
    Reach adj' u w := by
  induction hr with
  | refl => exact Reach.refl _
  | tail _ hm ih => exact Reach.tail ih (h _ ▸ hm)

/-- reversing every edge reverses reachability -/
theorem Reach.reverse {fwd bwd : Nat → List Nat} (hconv : ∀ v w, w ∈ fwd v ↔ v ∈ bwd w) {u w : Nat}
    (h : Reach fwd u w) : Reach bwd w u := by
  induction h with
  | refl => exact Reach.refl _
  | tail _ hm ih => exact Reach.head ((hconv _ _).1 hm) ih

/-! ### list facts -/

theorem getElem?_mem_drop {l : List Nat} {i n : Nat} (h : l[i]? = some n) : n ∈ l.drop i := by
  have hi : i < l.length := by
    rcases Nat.lt_or_ge i l.length with h' | h'
    · exact h'
    · rw [List.getElem?_eq_none h'] at h; cases h
  rw [List.drop_eq_getElem_cons hi]
  rw [List.getElem?_eq_getElem hi] at h
  simp at h; simp [h]

theorem mem_drop_succ_or {l : List Nat} {i n z : Nat} (h : l[i]? = some n) (hz : z ∈ l.drop i) :
    z = n ∨ z ∈ l.drop (i + 1) := by
  have hi : i < l.length := by
    rcases Nat.lt_or_ge i l.length with h' | h'
    · exact h'
    · rw [List.getElem?_eq_none h'] at h; cases h
  rw [List.drop_eq_getElem_cons hi] at hz
  rw [List.getElem?_eq_getElem hi] at h
  simp at h; simp [h] at hz; exact hz

theorem drop_eq_nil_of_none {l : List Nat} {i : Nat} (h : l[i]? = none) : l.drop i = [] := by
  apply List.drop_eq_nil_of_le
  exact List.getElem?_eq_none_iff.1 h

theorem take_eq_self_of_none {l : List Nat} {i : Nat} (h : l[i]? = none) : l.take i = l := by
  apply List.take_of_length_le
  exact List.getElem?_eq_none_iff.1 h

theorem mem_take_succ {l : List Nat} {i n y : Nat} (h : l[i]? = some n) (hy : y ∈ l.take (i + 1)) :
    y ∈ l.take i ∨ y = n := by
  rw [List.take_add_one, h] at hy
  simp at hy; exact hy

theorem getElem?_mem {l : List Nat} {i n : Nat} (h : l[i]? = some n) : n ∈ l := List.mem_of_getElem? h

/-! ### the cache contract (what the DFS proofs may assume of a cache) -/

/-- `Rep s m`: cache state `s` stores only bindings of the ideal (never evicting) map `m`.
This is exactly the C16 refinement: a hit returns the latest put of that key; a miss is always allowed;
which entries survive (capacity, eviction choice) is unconstrained. -/
structure Lawful {σ : Type} (C : CacheI σ) (Rep : σ → Ideal → Prop) : Prop where
  get_rep : ∀ s m k, Rep s m → Rep (C.get s k).1 m
  get_hit : ∀ s m k v, Rep s m → (C.get s k).2 = some v → m.get k = some v
  put_rep : ∀ s m k v, Rep s m → Rep (C.put s k v) (m.put k v)

/-- representation relation of the pair of SIEVE caches seen through one direction -/
def dirRep : Dir → (Sieve × Sieve) → Ideal → Prop
  | .inb, s, m => s.1.Inv ∧ s.1.Sub m
  | .outb, s, m => s.2.Inv ∧ s.2.Sub m
  | .both, _, _ => True

/-- the C16 theorems give the contract for both SIEVE caches, for every capacity -/
theorem dirCache_lawful (d : Dir) : Lawful (dirCache d) (dirRep d) := by
  cases d with
  | inb =>
    refine ⟨?_, ?_, ?_⟩
    · intro s m k h; exact ⟨Sieve.get_inv h.1 k, Sieve.get_sub h.2 k⟩
    · intro s m k v h hv; exact Sieve.get_out h.2 k v hv
    · intro s m k v h; exact ⟨Sieve.put_inv h.1 k v, Sieve.put_sub h.1 h.2 k v⟩
  | outb =>
    refine ⟨?_, ?_, ?_⟩
    · intro s m k h; exact ⟨Sieve.get_inv h.1 k, Sieve.get_sub h.2 k⟩
    · intro s m k v h hv; exact Sieve.get_out h.2 k v hv
    · intro s m k v h; exact ⟨Sieve.put_inv h.1 k v, Sieve.put_sub h.1 h.2 k v⟩
  | both =>
    refine ⟨?_, ?_, ?_⟩
    · intro s m k h; trivial
    · intro s m k v h hv; cases hv
    · intro s m k v h; trivial

/-! ### the reach DFS: invariants of the REPAIRED loop (`fixed = true`) -/

section DFS
variable {σ : Type} (C : CacheI σ) (Rep : σ → Ideal → Prop) (adjf : Nat → List Nat)

/-- bit set `r` is exactly the set of components reachable from `c` -/
def ExactBits (c r : Nat) : Prop := ∀ x, hasBit r x = true ↔ Reach adjf c x

/-- every binding of the ideal map is exact -/
def CacheExact (m : Ideal) : Prop := ∀ k v, m.get k = some v → ExactBits adjf k v

/-- everything that will have been rolled up into the root when the stack is empty again -/
def InU (s : DState σ) (x : Nat) : Prop :=
  hasBit s.root.reach x = true ∨ ∃ X, X ∈ s.stack ∧ hasBit X.reach x = true

structure CurInv (V U : Nat → Prop) (rootComp : Nat) (X : RCur) : Prop where
  adj_eq : X.adj = adjf X.comp
  sound : ∀ z, hasBit X.reach z = true → Reach adjf X.comp z
  fromRoot : Reach adjf rootComp X.comp
  /-- a member of a cursor's reach is visited, or still to be tried by this cursor, or its whole reach
  is already accounted for -/
  pend : ∀ z, hasBit X.reach z = true → V z ∨ z ∈ X.adj.drop X.idx ∨ (∀ w, Reach adjf z w → U w)

theorem CurInv.mono {V U V' U' : Nat → Prop} {c : Nat} {X : RCur} (hV : ∀ z, V z → V' z) (hU : ∀ z, U z → U' z)
    (h : CurInv adjf V U c X) : CurInv adjf V' U' c X :=
  ⟨h.adj_eq, h.sound, h.fromRoot, fun z hz => by
    rcases h.pend z hz with h1 | h1 | h1
    · exact Or.inl (hV z h1)
    · exact Or.inr (Or.inl h1)
    · exact Or.inr (Or.inr (fun w hw => hU w (h1 w hw)))⟩

/-- an exact cursor already contains the whole reach of its first `n` neighbours -/
def ExactUpTo (X : RCur) (n : Nat) : Prop :=
  X.exact = true → hasBit X.reach X.comp = true ∧
    ∀ y, y ∈ X.adj.take n → ∀ w, Reach adjf y w → hasBit X.reach w = true

/-- the cursors below a child: each is waiting for the child it pushed last -/
def Below : Nat → List RCur → Prop
  | _, [] => True
  | cc, P :: rest => P.adj[P.idx - 1]? = some cc ∧ 1 ≤ P.idx ∧ ExactUpTo adjf P (P.idx - 1) ∧ Below P.comp rest

def StackInv : List RCur → Prop
  | [] => True
  | X :: rest => ExactUpTo adjf X X.idx ∧ Below adjf X.comp rest

structure Inv (s : DState σ) : Prop where
  cache : ∃ m, Rep s.cache m ∧ CacheExact adjf m
  radj : s.root.adj = adjf s.root.comp
  rsound : ∀ z, hasBit s.root.reach z = true → Reach adjf s.root.comp z
  rself : hasBit s.root.reach s.root.comp = true
  redges : ∀ x, hasBit s.root.reach x = true → ∀ y, y ∈ adjf x →
    InU s y ∨ (x = s.root.comp ∧ y ∈ s.root.adj.drop s.root.idx)
  curs : ∀ X, X ∈ s.stack → CurInv adjf (fun z => hasBit s.root.reach z = true) (InU s) s.root.comp X
  chain : StackInv adjf s.stack

/-- a completed exact cursor holds exactly the reach of its component -/
theorem exactBits_of_done {V U : Nat → Prop} {c : Nat} {X : RCur} (hc : CurInv adjf V U c X)
    (he : ExactUpTo adjf X X.idx) (hx : X.exact = true) (hd : X.adj[X.idx]? = none) :
    ExactBits adjf X.comp X.reach := by
  intro x
  refine ⟨hc.sound x, fun hr => ?_⟩
  have ⟨hself, hall⟩ := he hx
  rw [take_eq_self_of_none hd] at hall
  rcases hr.cases_head with rfl | ⟨y, hy, hyr⟩
  · exact hself
  · exact hall y (hc.adj_eq ▸ hy) x hyr

theorem newCursor_exactUpTo (n : Nat) : ExactUpTo adjf (newCursor adjf n) 0 := by
  intro _
  refine ⟨?_, fun y hy => by simp at hy⟩
  show hasBit (bitsOf (adjf n ++ [n])) n = true
  rw [hasBit_bitsOf]; simp

theorem newCursor_sound (n z : Nat) (h : hasBit (newCursor adjf n).reach z = true) : Reach adjf n z := by
  have : z ∈ adjf n ++ [n] := (hasBit_bitsOf _ _).1 h
  rcases List.mem_append.1 this with h1 | h1
  · exact Reach.single h1
  · simp at h1; subst h1; exact Reach.refl _

theorem newCursor_mem (n z : Nat) (h : hasBit (newCursor adjf n).reach z = true) : z = n ∨ z ∈ adjf n := by
  have : z ∈ adjf n ++ [n] := (hasBit_bitsOf _ _).1 h
  rcases List.mem_append.1 this with h1 | h1
  · exact Or.inr h1
  · simp at h1; exact Or.inl h1

theorem ExactUpTo.or_reach {X : RCur} {n : Nat} (r : Nat) (h : ExactUpTo adjf X n) :
    ExactUpTo adjf { X with reach := X.reach ||| r } n := by
  intro hx
  have ⟨h1, h2⟩ := h hx
  exact ⟨hasBit_or_left h1, fun y hy w hw => hasBit_or_left (h2 y hy w hw)⟩

theorem cacheExact_put {m : Ideal} (hm : CacheExact adjf m) {k v : Nat} (hv : ExactBits adjf k v) :
    CacheExact adjf (m.put k v) := by
  intro x w hx
  rw [Dawgs.C16.Ideal.get_put] at hx
  by_cases hxk : x = k
  · simp [hxk] at hx; subst hx; subst hxk; exact hv
  · simp [hxk] at hx; exact hm x w hx

/-- the root step when the stack is empty -/
theorem dfsStep_inv_root (hL : Lawful C Rep) (cache : σ) (root : RCur)
    (hinv : Inv Rep adjf ⟨cache, root, []⟩) :
    match dfsStep C adjf true ⟨cache, root, []⟩ with
    | .running s' => Inv Rep adjf s' ∧ s'.root.comp = root.comp
    | .done cache' r => ExactBits adjf root.comp r ∧ ∃ m, Rep cache' m ∧ CacheExact adjf m := by
  obtain ⟨m, hrep, hex⟩ := hinv.cache
  have radj := hinv.radj
  have rsound := hinv.rsound
  have rself := hinv.rself
  have redges := hinv.redges
  simp only at radj rsound rself redges
  cases hn : root.adj[root.idx]? with
  | none =>
    have e : dfsStep C adjf true ⟨cache, root, []⟩ = .done (C.put cache root.comp root.reach) root.reach := by
      simp [dfsStep, hn]
    rw [e]
    have hb : ExactBits adjf root.comp root.reach := by
      intro x
      refine ⟨rsound x, fun hr => ?_⟩
      refine hr.closed (P := fun x => hasBit root.reach x = true) rself ?_
      intro x hx y hy
      rcases redges x hx y hy with h | ⟨_, h⟩
      · rcases h with h | ⟨X, hX, _⟩
        · exact h
        · simp at hX
      · rw [drop_eq_nil_of_none hn] at h; simp at h
    exact ⟨hb, m.put root.comp root.reach, hL.put_rep _ _ _ _ hrep, cacheExact_put adjf hex hb⟩
  | some n =>
    have hnadj : n ∈ adjf root.comp := radj ▸ getElem?_mem hn
    by_cases hv : hasBit root.reach n = true
    · -- visited: skip
      have e : dfsStep C adjf true ⟨cache, root, []⟩ =
          .running ⟨cache, { root with idx := root.idx + 1, exact := false }, []⟩ := by
        simp [dfsStep, hn, hv]
      rw [e]
      refine ⟨⟨⟨m, hrep, hex⟩, radj, rsound, rself, ?_, ?_, trivial⟩, rfl⟩
      · intro x hx y hy
        rcases redges x hx y hy with h | ⟨h1, h2⟩
        · rcases h with h | ⟨X, hX, _⟩
          · exact Or.inl (Or.inl h)
          · simp at hX
        · rcases mem_drop_succ_or hn h2 with rfl | h3
          · exact Or.inl (Or.inl hv)
          · exact Or.inr ⟨h1, h3⟩
      · intro X hX; simp at hX
    · -- not visited
      have hvf : hasBit root.reach n = false := by simpa using hv
      cases hg : (C.get cache n).2 with
      | some r =>
        have e : dfsStep C adjf true ⟨cache, root, []⟩ =
            .running ⟨(C.get cache n).1, { root with idx := root.idx + 1, reach := setBit root.reach n ||| r }, []⟩ := by
          simp [dfsStep, hn, hvf, hg]
        rw [e]
        have hr : ExactBits adjf n r := hex n r (hL.get_hit _ _ _ _ hrep hg)
        refine ⟨⟨⟨m, hL.get_rep _ _ _ hrep, hex⟩, radj, ?_, ?_, ?_, ?_, trivial⟩, rfl⟩
        · intro z hz
          rcases hasBit_or_iff.1 hz with h | h
          · rcases (hasBit_setBit _ _ _).1 h with h | rfl
            · exact rsound z h
            · exact Reach.single hnadj
          · exact Reach.head hnadj ((hr z).1 h)
        · exact hasBit_or_left (hasBit_setBit_of _ _ _ rself)
        · intro x hx y hy
          show InU _ y ∨ _
          have inl : ∀ y, hasBit r y = true →
              InU (σ := σ) ⟨(C.get cache n).1, { root with idx := root.idx + 1, reach := setBit root.reach n ||| r }, []⟩ y :=
            fun y h => Or.inl (hasBit_or_right h)
          rcases hasBit_or_iff.1 hx with h | h
          · rcases (hasBit_setBit _ _ _).1 h with h | rfl
            · rcases redges x h y hy with h' | ⟨h1, h2⟩
              · rcases h' with h' | ⟨X, hX, _⟩
                · exact Or.inl (Or.inl (hasBit_or_left (hasBit_setBit_of _ _ _ h')))
                · simp at hX
              · rcases mem_drop_succ_or hn h2 with rfl | h3
                · exact Or.inl (Or.inl (hasBit_or_left (hasBit_setBit_self _ _)))
                · exact Or.inr ⟨h1, h3⟩
            · exact Or.inl (inl y ((hr y).2 (Reach.single hy)))
          · exact Or.inl (inl y ((hr y).2 (Reach.tail ((hr x).1 h) hy)))
        · intro X hX; simp at hX
      | none =>
        have e : dfsStep C adjf true ⟨cache, root, []⟩ =
            .running ⟨(C.get cache n).1, { root with idx := root.idx + 1, reach := setBit root.reach n }, [newCursor adjf n]⟩ := by
          simp [dfsStep, hn, hvf, hg]
        rw [e]
        refine ⟨⟨⟨m, hL.get_rep _ _ _ hrep, hex⟩, radj, ?_, ?_, ?_, ?_, ?_⟩, rfl⟩
        · intro z hz
          rcases (hasBit_setBit _ _ _).1 hz with h | rfl
          · exact rsound z h
          · exact Reach.single hnadj
        · exact hasBit_setBit_of _ _ _ rself
        · intro x hx y hy
          rcases (hasBit_setBit _ _ _).1 hx with h | rfl
          · rcases redges x h y hy with h' | ⟨h1, h2⟩
            · rcases h' with h' | ⟨X, hX, _⟩
              · exact Or.inl (Or.inl (hasBit_setBit_of _ _ _ h'))
              · simp at hX
            · rcases mem_drop_succ_or hn h2 with rfl | h3
              · exact Or.inl (Or.inl (hasBit_setBit_self _ _))
              · exact Or.inr ⟨h1, h3⟩
          · refine Or.inl (Or.inr ⟨newCursor adjf x, by simp, ?_⟩)
            show hasBit (bitsOf (adjf x ++ [x])) y = true
            rw [hasBit_bitsOf]; simp [hy]
        · intro X hX
          simp at hX; subst hX
          refine ⟨rfl, newCursor_sound adjf n, Reach.single hnadj, ?_⟩
          intro z hz
          rcases newCursor_mem adjf n z hz with rfl | h
          · exact Or.inl (hasBit_setBit_self _ _)
          · exact Or.inr (Or.inl (by simpa [newCursor] using h))
        · exact ⟨newCursor_exactUpTo adjf n, trivial⟩

theorem putCursor_exact (hL : Lawful C Rep) {cache : σ} {m : Ideal} (hrep : Rep cache m) (hex : CacheExact adjf m)
    (X : RCur) (hX : X.exact = true → ExactBits adjf X.comp X.reach) :
    ∃ m', Rep (putCursor C true cache X) m' ∧ CacheExact adjf m' := by
  unfold putCursor
  cases hx : X.exact with
  | true => exact ⟨m.put X.comp X.reach, by simpa using hL.put_rep _ _ _ _ hrep, cacheExact_put adjf hex (hX hx)⟩
  | false => exact ⟨m, by simpa using hrep, hex⟩

/-- the step when a non-root cursor is on top -/
theorem dfsStep_inv_top (hL : Lawful C Rep) (cache : σ) (root top : RCur) (rest : List RCur)
    (hinv : Inv Rep adjf ⟨cache, root, top :: rest⟩) :
    match dfsStep C adjf true ⟨cache, root, top :: rest⟩ with
    | .running s' => Inv Rep adjf s' ∧ s'.root.comp = root.comp
    | .done _ _ => False := by
  obtain ⟨m, hrep, hex⟩ := hinv.cache
  have radj := hinv.radj
  have rsound := hinv.rsound
  have rself := hinv.rself
  have redges := hinv.redges
  have curs := hinv.curs
  have chain := hinv.chain
  simp only at radj rsound rself redges curs chain
  have htop := curs top (by simp)
  have hchain : ExactUpTo adjf top top.idx ∧ Below adjf top.comp rest := chain
  cases hn : top.adj[top.idx]? with
  | none =>
    -- pop
    have hcache := putCursor_exact C Rep adjf hL hrep hex top
      (fun hx => exactBits_of_done adjf htop hchain.1 hx hn)
    have hdrop : top.adj.drop top.idx = [] := drop_eq_nil_of_none hn
    cases rest with
    | nil =>
      have e : dfsStep C adjf true ⟨cache, root, [top]⟩ =
          .running ⟨putCursor C true cache top, rollUp root top, []⟩ := by
        simp [dfsStep, hn]
      rw [e]
      have hU : ∀ y, InU (σ := σ) ⟨cache, root, [top]⟩ y → hasBit (root.reach ||| top.reach) y = true := by
        intro y h
        rcases h with h | ⟨X, hX, h⟩
        · exact hasBit_or_left h
        · simp at hX; subst hX; exact hasBit_or_right h
      refine ⟨⟨hcache, radj, ?_, hasBit_or_left rself, ?_, ?_, trivial⟩, rfl⟩
      · intro z hz
        rcases hasBit_or_iff.1 hz with h | h
        · exact rsound z h
        · exact htop.fromRoot.trans (htop.sound z h)
      · intro x hx y hy
        have old : hasBit root.reach x = true →
            (InU (σ := σ) ⟨putCursor C true cache top, rollUp root top, []⟩ y ∨
              (x = root.comp ∧ y ∈ root.adj.drop root.idx)) := fun h => by
          rcases redges x h y hy with h' | h'
          · exact Or.inl (Or.inl (hU y h'))
          · exact Or.inr h'
        rcases hasBit_or_iff.1 hx with h | h
        · exact old h
        · rcases htop.pend x h with h1 | h1 | h1
          · exact old h1
          · rw [hdrop] at h1; simp at h1
          · exact Or.inl (Or.inl (hU y (h1 y (Reach.single hy))))
      · intro X hX; simp at hX
    | cons P rest' =>
      have e : dfsStep C adjf true ⟨cache, root, top :: P :: rest'⟩ =
          .running ⟨putCursor C true cache top, root, rollUp P top :: rest'⟩ := by
        simp [dfsStep, hn]
      rw [e]
      have hP := curs P (by simp)
      obtain ⟨hlink, hidx, hPex, hbelow⟩ : P.adj[P.idx - 1]? = some top.comp ∧ 1 ≤ P.idx ∧
          ExactUpTo adjf P (P.idx - 1) ∧ Below adjf P.comp rest' := hchain.2
      have hU : ∀ y, InU (σ := σ) ⟨cache, root, top :: P :: rest'⟩ y →
          InU (σ := σ) ⟨putCursor C true cache top, root, rollUp P top :: rest'⟩ y := by
        intro y h
        rcases h with h | ⟨X, hX, h⟩
        · exact Or.inl h
        · simp at hX
          rcases hX with rfl | rfl | hX
          · exact Or.inr ⟨rollUp P X, by simp, hasBit_or_right h⟩
          · exact Or.inr ⟨rollUp X top, by simp, hasBit_or_left h⟩
          · exact Or.inr ⟨X, by simp [hX], h⟩
      have hPtop : Reach adjf P.comp top.comp := Reach.single (hP.adj_eq ▸ getElem?_mem hlink)
      refine ⟨⟨hcache, radj, rsound, rself, ?_, ?_, ?_⟩, rfl⟩
      · intro x hx y hy
        rcases redges x hx y hy with h' | h'
        · exact Or.inl (hU y h')
        · exact Or.inr h'
      · intro X hX
        simp at hX
        rcases hX with rfl | hX
        · refine ⟨hP.adj_eq, ?_, hP.fromRoot, ?_⟩
          · intro z hz
            rcases hasBit_or_iff.1 hz with h | h
            · exact hP.sound z h
            · exact hPtop.trans (htop.sound z h)
          · intro z hz
            rcases hasBit_or_iff.1 hz with h | h
            · rcases hP.pend z h with h1 | h1 | h1
              · exact Or.inl h1
              · exact Or.inr (Or.inl h1)
              · exact Or.inr (Or.inr (fun w hw => hU w (h1 w hw)))
            · rcases htop.pend z h with h1 | h1 | h1
              · exact Or.inl h1
              · rw [hdrop] at h1; simp at h1
              · exact Or.inr (Or.inr (fun w hw => hU w (h1 w hw)))
        · exact (curs X (by simp [hX])).mono adjf (fun _ h => h) hU
      · refine ⟨?_, hbelow⟩
        intro hx
        have hx' : P.exact = true ∧ top.exact = true := by simpa [rollUp] using hx
        have ⟨hs, hall⟩ := hPex hx'.1
        have htb : ExactBits adjf top.comp top.reach := exactBits_of_done adjf htop hchain.1 hx'.2 hn
        refine ⟨hasBit_or_left hs, ?_⟩
        intro y hy w hw
        have hy' : y ∈ P.adj.take (P.idx - 1 + 1) := by
          have : P.idx - 1 + 1 = P.idx := by omega
          rw [this]; exact hy
        rcases mem_take_succ hlink hy' with h1 | rfl
        · exact hasBit_or_left (hall y h1 w hw)
        · exact hasBit_or_right ((htb w).2 hw)
  | some n =>
    have hnadj : n ∈ adjf top.comp := htop.adj_eq ▸ getElem?_mem hn
    by_cases hv : hasBit root.reach n = true
    · -- visited: skip, the cursor is no longer exact
      have e : dfsStep C adjf true ⟨cache, root, top :: rest⟩ =
          .running ⟨cache, root, { top with idx := top.idx + 1, exact := false } :: rest⟩ := by
        simp [dfsStep, hn, hv]
      rw [e]
      have hU : ∀ y, InU (σ := σ) ⟨cache, root, top :: rest⟩ y →
          InU (σ := σ) ⟨cache, root, { top with idx := top.idx + 1, exact := false } :: rest⟩ y := by
        intro y h
        rcases h with h | ⟨X, hX, h⟩
        · exact Or.inl h
        · simp at hX
          rcases hX with rfl | hX
          · exact Or.inr ⟨{ X with idx := X.idx + 1, exact := false }, by simp, h⟩
          · exact Or.inr ⟨X, by simp [hX], h⟩
      refine ⟨⟨⟨m, hrep, hex⟩, radj, rsound, rself, ?_, ?_, ?_⟩, rfl⟩
      · intro x hx y hy
        rcases redges x hx y hy with h' | h'
        · exact Or.inl (hU y h')
        · exact Or.inr h'
      · intro X hX
        simp at hX
        rcases hX with rfl | hX
        · refine ⟨htop.adj_eq, htop.sound, htop.fromRoot, ?_⟩
          intro z hz
          rcases htop.pend z hz with h1 | h1 | h1
          · exact Or.inl h1
          · rcases mem_drop_succ_or hn h1 with rfl | h3
            · exact Or.inl hv
            · exact Or.inr (Or.inl h3)
          · exact Or.inr (Or.inr (fun w hw => hU w (h1 w hw)))
        · exact (curs X (by simp [hX])).mono adjf (fun _ h => h) hU
      · exact ⟨fun hx => by simp at hx, hchain.2⟩
    · have hvf : hasBit root.reach n = false := by simpa using hv
      cases hg : (C.get cache n).2 with
      | some r =>
        have e : dfsStep C adjf true ⟨cache, root, top :: rest⟩ =
            .running ⟨(C.get cache n).1, { root with reach := setBit root.reach n },
              { top with idx := top.idx + 1, reach := top.reach ||| r } :: rest⟩ := by
          simp [dfsStep, hn, hvf, hg]
        rw [e]
        have hr : ExactBits adjf n r := hex n r (hL.get_hit _ _ _ _ hrep hg)
        have hU : ∀ y, InU (σ := σ) ⟨cache, root, top :: rest⟩ y →
            InU (σ := σ) ⟨(C.get cache n).1, { root with reach := setBit root.reach n },
              { top with idx := top.idx + 1, reach := top.reach ||| r } :: rest⟩ y := by
          intro y h
          rcases h with h | ⟨X, hX, h⟩
          · exact Or.inl (hasBit_setBit_of _ _ _ h)
          · simp at hX
            rcases hX with rfl | hX
            · exact Or.inr ⟨{ X with idx := X.idx + 1, reach := X.reach ||| r }, by simp, hasBit_or_left h⟩
            · exact Or.inr ⟨X, by simp [hX], h⟩
        have hUr : ∀ y, hasBit r y = true →
            InU (σ := σ) ⟨(C.get cache n).1, { root with reach := setBit root.reach n },
              { top with idx := top.idx + 1, reach := top.reach ||| r } :: rest⟩ y :=
          fun y h => Or.inr ⟨{ top with idx := top.idx + 1, reach := top.reach ||| r }, by simp, hasBit_or_right h⟩
        refine ⟨⟨⟨m, hL.get_rep _ _ _ hrep, hex⟩, radj, ?_, hasBit_setBit_of _ _ _ rself, ?_, ?_, ?_⟩, rfl⟩
        · intro z hz
          rcases (hasBit_setBit _ _ _).1 hz with h | rfl
          · exact rsound z h
          · exact htop.fromRoot.trans (Reach.single hnadj)
        · intro x hx y hy
          rcases (hasBit_setBit _ _ _).1 hx with h | rfl
          · rcases redges x h y hy with h' | h'
            · exact Or.inl (hU y h')
            · exact Or.inr h'
          · exact Or.inl (hUr y ((hr y).2 (Reach.single hy)))
        · intro X hX
          simp at hX
          rcases hX with rfl | hX
          · refine ⟨htop.adj_eq, ?_, htop.fromRoot, ?_⟩
            · intro z hz
              rcases hasBit_or_iff.1 hz with h | h
              · exact htop.sound z h
              · exact Reach.head hnadj ((hr z).1 h)
            · intro z hz
              rcases hasBit_or_iff.1 hz with h | h
              · rcases htop.pend z h with h1 | h1 | h1
                · exact Or.inl (hasBit_setBit_of _ _ _ h1)
                · rcases mem_drop_succ_or hn h1 with rfl | h3
                  · exact Or.inl (hasBit_setBit_self _ _)
                  · exact Or.inr (Or.inl h3)
                · exact Or.inr (Or.inr (fun w hw => hU w (h1 w hw)))
              · exact Or.inr (Or.inr (fun w hw => hUr w ((hr w).2 (((hr z).1 h).trans hw))))
          · exact (curs X (by simp [hX])).mono adjf (fun _ h => hasBit_setBit_of _ _ _ h) hU
        · refine ⟨?_, hchain.2⟩
          intro hx
          have ⟨hs, hall⟩ := hchain.1 hx
          refine ⟨hasBit_or_left hs, ?_⟩
          intro y hy w hw
          rcases mem_take_succ hn hy with h1 | rfl
          · exact hasBit_or_left (hall y h1 w hw)
          · exact hasBit_or_right ((hr w).2 hw)
      | none =>
        have e : dfsStep C adjf true ⟨cache, root, top :: rest⟩ =
            .running ⟨(C.get cache n).1, { root with reach := setBit root.reach n },
              newCursor adjf n :: { top with idx := top.idx + 1 } :: rest⟩ := by
          simp [dfsStep, hn, hvf, hg]
        rw [e]
        have hU : ∀ y, InU (σ := σ) ⟨cache, root, top :: rest⟩ y →
            InU (σ := σ) ⟨(C.get cache n).1, { root with reach := setBit root.reach n },
              newCursor adjf n :: { top with idx := top.idx + 1 } :: rest⟩ y := by
          intro y h
          rcases h with h | ⟨X, hX, h⟩
          · exact Or.inl (hasBit_setBit_of _ _ _ h)
          · simp at hX
            rcases hX with rfl | hX
            · exact Or.inr ⟨{ X with idx := X.idx + 1 }, by simp, h⟩
            · exact Or.inr ⟨X, by simp [hX], h⟩
        refine ⟨⟨⟨m, hL.get_rep _ _ _ hrep, hex⟩, radj, ?_, hasBit_setBit_of _ _ _ rself, ?_, ?_, ?_⟩, rfl⟩
        · intro z hz
          rcases (hasBit_setBit _ _ _).1 hz with h | rfl
          · exact rsound z h
          · exact htop.fromRoot.trans (Reach.single hnadj)
        · intro x hx y hy
          rcases (hasBit_setBit _ _ _).1 hx with h | rfl
          · rcases redges x h y hy with h' | h'
            · exact Or.inl (hU y h')
            · exact Or.inr h'
          · refine Or.inl (Or.inr ⟨newCursor adjf x, by simp, ?_⟩)
            show hasBit (bitsOf (adjf x ++ [x])) y = true
            rw [hasBit_bitsOf]; simp [hy]
        · intro X hX
          simp at hX
          rcases hX with rfl | rfl | hX
          · refine ⟨rfl, newCursor_sound adjf n, htop.fromRoot.trans (Reach.single hnadj), ?_⟩
            intro z hz
            rcases newCursor_mem adjf n z hz with rfl | h
            · exact Or.inl (hasBit_setBit_self _ _)
            · exact Or.inr (Or.inl (by simpa [newCursor] using h))
          · refine ⟨htop.adj_eq, htop.sound, htop.fromRoot, ?_⟩
            intro z hz
            rcases htop.pend z hz with h1 | h1 | h1
            · exact Or.inl (hasBit_setBit_of _ _ _ h1)
            · rcases mem_drop_succ_or hn h1 with rfl | h3
              · exact Or.inl (hasBit_setBit_self _ _)
              · exact Or.inr (Or.inl h3)
            · exact Or.inr (Or.inr (fun w hw => hU w (h1 w hw)))
          · exact (curs X (by simp [hX])).mono adjf (fun _ h => hasBit_setBit_of _ _ _ h) hU
        · refine ⟨newCursor_exactUpTo adjf n, ?_, by simp, ?_, hchain.2⟩
          · simpa [newCursor] using hn
          · show ExactUpTo adjf _ (top.idx + 1 - 1)
            rw [Nat.add_sub_cancel]; exact hchain.1

theorem dfsLoop_inv (hL : Lawful C Rep) (fuel : Nat) (s : DState σ) (hinv : Inv Rep adjf s)
    (cache' : σ) (r : Nat) (h : dfsLoop C adjf true fuel s = some (cache', r)) :
    ExactBits adjf s.root.comp r ∧ ∃ m, Rep cache' m ∧ CacheExact adjf m := by
  induction fuel generalizing s with
  | zero => simp [dfsLoop] at h
  | succ fuel ih =>
    obtain ⟨cache, root, stack⟩ := s
    unfold dfsLoop at h
    cases stack with
    | nil =>
      have := dfsStep_inv_root C Rep adjf hL cache root hinv
      cases hs : dfsStep C adjf true ⟨cache, root, []⟩ with
      | running s' =>
        rw [hs] at this h
        have := ih s' this.1 h
        rw [‹Inv Rep adjf s' ∧ s'.root.comp = root.comp›.2] at this
        exact this
      | done c r' =>
        rw [hs] at this h
        simp at h
        obtain ⟨rfl, rfl⟩ := h
        exact this
    | cons top rest =>
      have := dfsStep_inv_top C Rep adjf hL cache root top rest hinv
      cases hs : dfsStep C adjf true ⟨cache, root, top :: rest⟩ with
      | running s' =>
        rw [hs] at this h
        have h2 := ih s' this.1 h
        rw [this.2] at h2
        exact h2
      | done c r' =>
        rw [hs] at this
        exact this.elim

theorem inv_init {cache : σ} {m : Ideal} (hrep : Rep cache m) (hex : CacheExact adjf m) (c : Nat) :
    Inv Rep adjf ⟨cache, newRootCursor adjf c, []⟩ := by
  refine ⟨⟨m, hrep, hex⟩, rfl, ?_, hasBit_setBit_self _ _, ?_, ?_, trivial⟩
  · intro z hz
    rcases (hasBit_setBit _ _ _).1 hz with h | rfl
    · simp [hasBit_zero] at h
    · exact Reach.refl _
  · intro x hx y hy
    rcases (hasBit_setBit _ _ _).1 hx with h | rfl
    · simp [hasBit_zero] at h
    · exact Or.inr ⟨rfl, by simpa [newRootCursor] using hy⟩
  · intro X hX; simp at hX

/-- **the repaired `componentReachDFS` keeps the cache exact and answers exactly**, for every cache that
satisfies the contract (any capacity, any eviction choice) and every fuel -/
theorem reachDFS_fixed_exact (hL : Lawful C Rep) (fuel : Nat) (cache : σ) (m : Ideal) (hrep : Rep cache m)
    (hex : CacheExact adjf m) (c : Nat) (cache' : σ) (r : Nat)
    (h : reachDFS C adjf true fuel cache c = some (cache', r)) :
    ExactBits adjf c r ∧ ∃ m', Rep cache' m' ∧ CacheExact adjf m' := by
  unfold reachDFS at h
  cases hg : (C.get cache c).2 with
  | some r' =>
    rw [hg] at h
    simp at h
    obtain ⟨rfl, rfl⟩ := h
    exact ⟨hex c r' (hL.get_hit _ _ _ _ hrep hg), m, hL.get_rep _ _ _ hrep, hex⟩
  | none =>
    rw [hg] at h
    simp only at h
    exact dfsLoop_inv C Rep adjf hL fuel _ (inv_init Rep adjf (hL.get_rep _ _ c hrep) hex c) cache' r h

end DFS

/-! ### the reach DFS terminates within its fuel (either variant) -/

section DFSTerm
variable {σ : Type} (C : CacheI σ) (adjf : Nat → List Nat) (univ : List Nat) (K : Nat)

/-- number of universe members not yet in the visited bit set -/
def unvis (V : Nat) : Nat := (univ.filter (fun i => !hasBit V i)).length

theorem unvis_mono {V V' : Nat} (h : ∀ i, hasBit V i = true → hasBit V' i = true) :
    unvis univ V' ≤ unvis univ V := by
  unfold unvis
  induction univ with
  | nil => simp
  | cons a t ih =>
    simp only [List.filter_cons]
    cases h1 : hasBit V a with
    | true => simp [h a h1]; exact ih
    | false =>
      cases h2 : hasBit V' a with
      | true => simp; omega
      | false => simp; exact ih

theorem unvis_strict {V V' n : Nat} (h : ∀ i, hasBit V i = true → hasBit V' i = true) (hn : n ∈ univ)
    (h1 : hasBit V n = false) (h2 : hasBit V' n = true) : unvis univ V' + 1 ≤ unvis univ V := by
  unfold unvis
  induction univ with
  | nil => simp at hn
  | cons a t ih =>
    simp only [List.filter_cons]
    rcases List.mem_cons.1 hn with rfl | hn'
    · simp [h1, h2]
      exact unvis_mono t h
    · cases h3 : hasBit V a with
      | true => simp [h a h3]; exact ih hn'
      | false =>
        cases h4 : hasBit V' a with
        | true => simp; have := ih hn'; omega
        | false => simp; exact ih hn'

def work (X : RCur) : Nat := (X.adj.length - X.idx) + 1

def workSum : List RCur → Nat
  | [] => 0
  | X :: r => work X + workSum r

/-- the termination measure: every iteration of the DFS loop decreases it -/
def mu (s : DState σ) : Nat := unvis univ s.root.reach * K + workSum s.stack + work s.root

structure TInv (s : DState σ) : Prop where
  radj : ∀ y, y ∈ s.root.adj → y ∈ univ
  sadj : ∀ X, X ∈ s.stack → ∀ y, y ∈ X.adj → y ∈ univ

theorem getElem?_lt {l : List Nat} {i n : Nat} (h : l[i]? = some n) : i < l.length := by
  rcases Nat.lt_or_ge i l.length with h' | h'
  · exact h'
  · rw [List.getElem?_eq_none h'] at h; cases h

theorem dfsStep_decreases (fixed : Bool) (hadj : ∀ c y, y ∈ adjf c → y ∈ univ)
    (hK : ∀ c, (adjf c).length + 2 ≤ K) (s : DState σ) (ht : TInv univ s) :
    match dfsStep C adjf fixed s with
    | .running s' => TInv univ s' ∧ mu univ K s' + 1 ≤ mu univ K s
    | .done _ _ => True := by
  obtain ⟨cache, root, stack⟩ := s
  have hradj := ht.radj
  have hsadj := ht.sadj
  simp only at hradj hsadj
  cases stack with
  | nil =>
    cases hn : root.adj[root.idx]? with
    | none => simp [dfsStep, hn]
    | some n =>
      have hlt := getElem?_lt hn
      have hnu : n ∈ univ := hradj n (getElem?_mem hn)
      cases hv : hasBit root.reach n with
      | true =>
        simp only [dfsStep, hn, hv, if_true]
        refine ⟨⟨hradj, by simp⟩, ?_⟩
        simp only [mu, workSum, work]; omega
      | false =>
        cases hg : (C.get cache n).2 with
        | some r =>
          simp only [dfsStep, hn, hv, hg]
          refine ⟨⟨hradj, by simp⟩, ?_⟩
          have := unvis_mono univ (V := root.reach) (V' := setBit root.reach n ||| r)
            (fun i h => hasBit_or_left (hasBit_setBit_of _ _ _ h))
          have := Nat.mul_le_mul_right K this
          simp only [mu, workSum, work, Bool.false_eq_true, if_false]; omega
        | none =>
          simp only [dfsStep, hn, hv, hg]
          refine ⟨⟨hradj, ?_⟩, ?_⟩
          · intro X hX y hy; simp at hX; subst hX; exact hadj n y hy
          have h1 := unvis_strict univ (V := root.reach) (V' := setBit root.reach n)
            (fun i h => hasBit_setBit_of _ _ _ h) hnu hv (hasBit_setBit_self _ _)
          have h2 := Nat.mul_le_mul_right K h1
          rw [Nat.add_mul, Nat.one_mul] at h2
          have h3 := hK n
          simp only [mu, workSum, work, newCursor, Bool.false_eq_true, if_false]; omega
  | cons top rest =>
    have htadj := hsadj top (by simp)
    cases hn : top.adj[top.idx]? with
    | none =>
      cases rest with
      | nil =>
        simp only [dfsStep, hn]
        refine ⟨⟨hradj, by simp⟩, ?_⟩
        have := unvis_mono univ (V := root.reach) (V' := root.reach ||| top.reach) (fun i h => hasBit_or_left h)
        have := Nat.mul_le_mul_right K this
        simp only [mu, workSum, work, rollUp]; omega
      | cons P rest' =>
        simp only [dfsStep, hn]
        refine ⟨⟨hradj, ?_⟩, ?_⟩
        · intro X hX y hy
          simp at hX
          rcases hX with rfl | hX
          · exact hsadj P (by simp) y hy
          · exact hsadj X (by simp [hX]) y hy
        simp only [mu, workSum, work, rollUp]; omega
    | some n =>
      have hlt := getElem?_lt hn
      have hnu : n ∈ univ := htadj n (getElem?_mem hn)
      cases hv : hasBit root.reach n with
      | true =>
        simp only [dfsStep, hn, hv, if_true]
        refine ⟨⟨hradj, ?_⟩, ?_⟩
        · intro X hX y hy
          simp at hX
          rcases hX with rfl | hX
          · exact htadj y hy
          · exact hsadj X (by simp [hX]) y hy
        simp only [mu, workSum, work]; omega
      | false =>
        have h1 := unvis_strict univ (V := root.reach) (V' := setBit root.reach n)
          (fun i h => hasBit_setBit_of _ _ _ h) hnu hv (hasBit_setBit_self _ _)
        have h2 := Nat.mul_le_mul_right K h1
        rw [Nat.add_mul, Nat.one_mul] at h2
        cases hg : (C.get cache n).2 with
        | some r =>
          simp only [dfsStep, hn, hv, hg]
          refine ⟨⟨hradj, ?_⟩, ?_⟩
          · intro X hX y hy
            simp at hX
            rcases hX with rfl | hX
            · exact htadj y hy
            · exact hsadj X (by simp [hX]) y hy
          simp only [mu, workSum, work, Bool.false_eq_true, if_false]; omega
        | none =>
          simp only [dfsStep, hn, hv, hg]
          refine ⟨⟨hradj, ?_⟩, ?_⟩
          · intro X hX y hy
            simp at hX
            rcases hX with rfl | rfl | hX
            · exact hadj n y hy
            · exact htadj y hy
            · exact hsadj X (by simp [hX]) y hy
          have h3 := hK n
          simp only [mu, workSum, work, newCursor, Bool.false_eq_true, if_false]; omega

theorem dfsLoop_terminates (fixed : Bool) (hadj : ∀ c y, y ∈ adjf c → y ∈ univ)
    (hK : ∀ c, (adjf c).length + 2 ≤ K) (fuel : Nat) (s : DState σ) (ht : TInv univ s)
    (hf : mu univ K s < fuel) : (dfsLoop C adjf fixed fuel s).isSome = true := by
  induction fuel generalizing s with
  | zero => omega
  | succ fuel ih =>
    unfold dfsLoop
    have := dfsStep_decreases C adjf univ K fixed hadj hK s ht
    cases hs : dfsStep C adjf fixed s with
    | done c r => simp
    | running s' =>
      rw [hs] at this
      simp only
      exact ih s' this.1 (by omega)

/-- `componentReachDFS` always returns when given `2·(|V|+1)² + 1` iterations of fuel (adjacency lists are
at most `2·|V|` long: outbound followed by inbound for `DirectionBoth`) -/
theorem reachDFS_terminates (fixed : Bool) (hadj : ∀ c y, y ∈ adjf c → y ∈ univ)
    (hlen : ∀ c, (adjf c).length ≤ 2 * univ.length) (cache : σ) (c : Nat) :
    (reachDFS C adjf fixed (dfsFuel univ.length) cache c).isSome = true := by
  unfold reachDFS
  cases hg : (C.get cache c).2 with
  | some r => simp
  | none =>
    simp only
    apply dfsLoop_terminates C adjf univ (2 * univ.length + 2) fixed hadj (fun c => by have := hlen c; omega)
    · exact ⟨fun y hy => hadj c y hy, by simp⟩
    · have h1 : unvis univ (setBit 0 c) ≤ univ.length := by
        unfold unvis; exact List.length_filter_le _ _
      have h2 := Nat.mul_le_mul_right (2 * univ.length + 2) h1
      have h3 := hlen c
      have h4 : univ.length * (2 * univ.length + 2) = 2 * (univ.length * univ.length) + 2 * univ.length := by
        rw [Nat.mul_add, Nat.mul_left_comm]; omega
      have h5 : 2 * (univ.length + 1) * (univ.length + 1) = 2 * (univ.length * univ.length) + 4 * univ.length + 2 := by
        rw [Nat.mul_assoc, Nat.add_mul, Nat.mul_add, Nat.mul_add]; omega
      simp only [mu, workSum, work, newRootCursor, dfsFuel]
      omega

end DFSTerm

end Dawgs.C15
