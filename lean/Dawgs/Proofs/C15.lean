/- Helper lemmas for C15 (no property statements here; those live in Props/C15.lean). -/
import Dawgs.Spec.C15
import Dawgs.Proofs.C16
namespace Dawgs.C15

end Dawgs.C15
