/- Helper lemmas for C15 (no property statements here; those live in Props/C15.lean). -/
import Dawgs.Spec.C15
import Dawgs.Proofs.C16
set_option linter.unusedSimpArgs false
set_option linter.unusedVariables false
namespace Dawgs.C15
open Dawgs.C16 (Sieve Ideal)

/-! ### bit sets -/

theorem hasBit_zero (j : Nat) : hasBit 0 j = false := by simp [hasBit]

theorem hasBit_or (a b j : Nat) : hasBit (a ||| b) j = (hasBit a j || hasBit b j) := by
  simp [hasBit, Nat.testBit_or]

theorem hasBit_setBit (b i j : Nat) : hasBit (setBit b i) j = true ↔ hasBit b j = true ∨ j = i := by
  unfold hasBit setBit
  rw [Nat.testBit_or, Nat.one_shiftLeft, Nat.testBit_two_pow]
  simp only [Bool.or_eq_true, decide_eq_true_eq]
  constructor
  · rintro (h | h)
    · exact Or.inl h
    · exact Or.inr h.symm
  · rintro (h | h)
    · exact Or.inl h
    · exact Or.inr h.symm

theorem hasBit_setBit_self (b i : Nat) : hasBit (setBit b i) i = true := (hasBit_setBit b i i).2 (Or.inr rfl)

theorem hasBit_setBit_of (b i j : Nat) (h : hasBit b j = true) : hasBit (setBit b i) j = true :=
  (hasBit_setBit b i j).2 (Or.inl h)

theorem hasBit_or_left {a b j : Nat} (h : hasBit a j = true) : hasBit (a ||| b) j = true := by
  rw [hasBit_or, h]; rfl

theorem hasBit_or_right {a b j : Nat} (h : hasBit b j = true) : hasBit (a ||| b) j = true := by
  rw [hasBit_or, h]; simp

theorem hasBit_or_iff {a b j : Nat} : hasBit (a ||| b) j = true ↔ hasBit a j = true ∨ hasBit b j = true := by
  rw [hasBit_or]; simp

theorem hasBit_bitsOf (l : List Nat) (j : Nat) : hasBit (bitsOf l) j = true ↔ j ∈ l := by
  induction l with
  | nil => simp [bitsOf, hasBit_zero]
  | cons x xs ih =>
    show hasBit (setBit (bitsOf xs) x) j = true ↔ _
    rw [hasBit_setBit, ih, List.mem_cons]
    exact ⟨fun h => h.symm, fun h => h.symm⟩

/-! ### reachability -/

theorem Reach.trans {adj : Nat → List Nat} {u v w : Nat} (h1 : Reach adj u v) (h2 : Reach adj v w) :
    Reach adj u w := by
  induction h2 with
  | refl => exact h1
  | tail _ hm ih => exact Reach.tail ih hm

theorem Reach.single {adj : Nat → List Nat} {u v : Nat} (h : v ∈ adj u) : Reach adj u v :=
  Reach.tail (Reach.refl u) h

theorem Reach.head {adj : Nat → List Nat} {u v w : Nat} (h : v ∈ adj u) (h2 : Reach adj v w) : Reach adj u w :=
  (Reach.single h).trans h2

/-- first-step decomposition -/
theorem Reach.cases_head {adj : Nat → List Nat} {u w : Nat} (h : Reach adj u w) :
    w = u ∨ ∃ y, y ∈ adj u ∧ Reach adj y w := by
  induction h with
  | refl => exact Or.inl rfl
  | @tail v w' _ hm ih =>
    rcases ih with rfl | ⟨y, hy, hr⟩
    · exact Or.inr ⟨w', hm, Reach.refl _⟩
    · exact Or.inr ⟨y, hy, Reach.tail hr hm⟩

/-- a set containing `u` and closed under adjacency contains everything reachable from `u` -/
theorem Reach.closed {adj : Nat → List Nat} {P : Nat → Prop} {u w : Nat} (h : Reach adj u w)
    (hu : P u) (hc : ∀ x, P x → ∀ y, y ∈ adj x → P y) : P w := by
  induction h with
  | refl => exact hu
  | tail _ hm ih => exact hc _ ih _ hm

/-- reachability only depends on the adjacency of the nodes on the way -/
theorem Reach.congr {adj adj' : Nat → List Nat} (h : ∀ v, adj v = adj' v) {u w : Nat} (hr : Reach adj u w) :
    Reach adj' u w := by
  induction hr with
  | refl => exact Reach.refl _
  | tail _ hm ih => exact Reach.tail ih (h _ ▸ hm)

/-- reversing every edge reverses reachability -/
theorem Reach.reverse {fwd bwd : Nat → List Nat} (hconv : ∀ v w, w ∈ fwd v ↔ v ∈ bwd w) {u w : Nat}
    (h : Reach fwd u w) : Reach bwd w u := by
  induction h with
  | refl => exact Reach.refl _
  | tail _ hm ih => exact Reach.head ((hconv _ _).1 hm) ih

/-! ### list facts -/

theorem getElem?_mem_drop {l : List Nat} {i n : Nat} (h : l[i]? = some n) : n ∈ l.drop i := by
  have hi : i < l.length := by
    rcases Nat.lt_or_ge i l.length with h' | h'
    · exact h'
    · rw [List.getElem?_eq_none h'] at h; cases h
  rw [List.drop_eq_getElem_cons hi]
  rw [List.getElem?_eq_getElem hi] at h
  simp at h; simp [h]

theorem mem_drop_succ_or {l : List Nat} {i n z : Nat} (h : l[i]? = some n) (hz : z ∈ l.drop i) :
    z = n ∨ z ∈ l.drop (i + 1) := by
  have hi : i < l.length := by
    rcases Nat.lt_or_ge i l.length with h' | h'
    · exact h'
    · rw [List.getElem?_eq_none h'] at h; cases h
  rw [List.drop_eq_getElem_cons hi] at hz
  rw [List.getElem?_eq_getElem hi] at h
  simp at h; simp [h] at hz; exact hz

theorem drop_eq_nil_of_none {l : List Nat} {i : Nat} (h : l[i]? = none) : l.drop i = [] := by
  apply List.drop_eq_nil_of_le
  exact List.getElem?_eq_none_iff.1 h

theorem take_eq_self_of_none {l : List Nat} {i : Nat} (h : l[i]? = none) : l.take i = l := by
  apply List.take_of_length_le
  exact List.getElem?_eq_none_iff.1 h

theorem mem_take_succ {l : List Nat} {i n y : Nat} (h : l[i]? = some n) (hy : y ∈ l.take (i + 1)) :
    y ∈ l.take i ∨ y = n := by
  rw [List.take_add_one, h] at hy
  simp at hy; exact hy

theorem getElem?_mem {l : List Nat} {i n : Nat} (h : l[i]? = some n) : n ∈ l := List.mem_of_getElem? h

/-! ### the cache contract (what the DFS proofs may assume of a cache) -/

/-- `Rep s m`: cache state `s` stores only bindings of the ideal (never evicting) map `m`.
This is exactly the C16 refinement: a hit returns the latest put of that key; a miss is always allowed;
which entries survive (capacity, eviction choice) is unconstrained. -/
structure Lawful {σ : Type} (C : CacheI σ) (Rep : σ → Ideal → Prop) : Prop where
  get_rep : ∀ s m k, Rep s m → Rep (C.get s k).1 m
  get_hit : ∀ s m k v, Rep s m → (C.get s k).2 = some v → m.get k = some v
  put_rep : ∀ s m k v, Rep s m → Rep (C.put s k v) (m.put k v)

/-- representation relation of the pair of SIEVE caches seen through one direction -/
def dirRep : Dir → (Sieve × Sieve) → Ideal → Prop
  | .inb, s, m => s.1.Inv ∧ s.1.Sub m
  | .outb, s, m => s.2.Inv ∧ s.2.Sub m
  | .both, _, _ => True

/-- the C16 theorems give the contract for both SIEVE caches, for every capacity -/
theorem dirCache_lawful (d : Dir) : Lawful (dirCache d) (dirRep d) := by
  cases d with
  | inb =>
    refine ⟨?_, ?_, ?_⟩
    · intro s m k h; exact ⟨Sieve.get_inv h.1 k, Sieve.get_sub h.2 k⟩
    · intro s m k v h hv; exact Sieve.get_out h.2 k v hv
    · intro s m k v h; exact ⟨Sieve.put_inv h.1 k v, Sieve.put_sub h.1 h.2 k v⟩
  | outb =>
    refine ⟨?_, ?_, ?_⟩
    · intro s m k h; exact ⟨Sieve.get_inv h.1 k, Sieve.get_sub h.2 k⟩
    · intro s m k v h hv; exact Sieve.get_out h.2 k v hv
    · intro s m k v h; exact ⟨Sieve.put_inv h.1 k v, Sieve.put_sub h.1 h.2 k v⟩
  | both =>
    refine ⟨?_, ?_, ?_⟩
    · intro s m k h; trivial
    · intro s m k v h hv; cases hv
    · intro s m k v h; trivial

/-! ### the reach DFS: invariants of the REPAIRED loop (`fixed = true`) -/

section DFS
variable {σ : Type} (C : CacheI σ) (Rep : σ → Ideal → Prop) (adjf : Nat → List Nat)

/-- bit set `r` is exactly the set of components reachable from `c` -/
def ExactBits (c r : Nat) : Prop := ∀ x, hasBit r x = true ↔ Reach adjf c x

/-- every binding of the ideal map is exact -/
def CacheExact (m : Ideal) : Prop := ∀ k v, m.get k = some v → ExactBits adjf k v

/-- everything that will have been rolled up into the root when the stack is empty again -/
def InU (s : DState σ) (x : Nat) : Prop :=
  hasBit s.root.reach x = true ∨ ∃ X, X ∈ s.stack ∧ hasBit X.reach x = true

structure CurInv (V U : Nat → Prop) (rootComp : Nat) (X : RCur) : Prop where
  adj_eq : X.adj = adjf X.comp
  sound : ∀ z, hasBit X.reach z = true → Reach adjf X.comp z
  fromRoot : Reach adjf rootComp X.comp
  /-- a member of a cursor's reach is visited, or still to be tried by this cursor, or its whole reach
  is already accounted for -/
  pend : ∀ z, hasBit X.reach z = true → V z ∨ z ∈ X.adj.drop X.idx ∨ (∀ w, Reach adjf z w → U w)

theorem CurInv.mono {V U V' U' : Nat → Prop} {c : Nat} {X : RCur} (hV : ∀ z, V z → V' z) (hU : ∀ z, U z → U' z)
    (h : CurInv adjf V U c X) : CurInv adjf V' U' c X :=
  ⟨h.adj_eq, h.sound, h.fromRoot, fun z hz => by
    rcases h.pend z hz with h1 | h1 | h1
    · exact Or.inl (hV z h1)
    · exact Or.inr (Or.inl h1)
    · exact Or.inr (Or.inr (fun w hw => hU w (h1 w hw)))⟩

/-- an exact cursor already contains the whole reach of its first `n` neighbours -/
def ExactUpTo (X : RCur) (n : Nat) : Prop :=
  X.exact = true → hasBit X.reach X.comp = true ∧
    ∀ y, y ∈ X.adj.take n → ∀ w, Reach adjf y w → hasBit X.reach w = true

/-- the cursors below a child: each is waiting for the child it pushed last -/
def Below : Nat → List RCur → Prop
  | _, [] => True
  | cc, P :: rest => P.adj[P.idx - 1]? = some cc ∧ 1 ≤ P.idx ∧ ExactUpTo adjf P (P.idx - 1) ∧ Below P.comp rest

def StackInv : List RCur → Prop
  | [] => True
  | X :: rest => ExactUpTo adjf X X.idx ∧ Below adjf X.comp rest

structure Inv (s : DState σ) : Prop where
  cache : ∃ m, Rep s.cache m ∧ CacheExact adjf m
  radj : s.root.adj = adjf s.root.comp
  rsound : ∀ z, hasBit s.root.reach z = true → Reach adjf s.root.comp z
  rself : hasBit s.root.reach s.root.comp = true
  redges : ∀ x, hasBit s.root.reach x = true → ∀ y, y ∈ adjf x →
    InU s y ∨ (x = s.root.comp ∧ y ∈ s.root.adj.drop s.root.idx)
  curs : ∀ X, X ∈ s.stack → CurInv adjf (fun z => hasBit s.root.reach z = true) (InU s) s.root.comp X
  chain : StackInv adjf s.stack

/-- a completed exact cursor holds exactly the reach of its component -/
theorem exactBits_of_done {V U : Nat → Prop} {c : Nat} {X : RCur} (hc : CurInv adjf V U c X)
    (he : ExactUpTo adjf X X.idx) (hx : X.exact = true) (hd : X.adj[X.idx]? = none) :
    ExactBits adjf X.comp X.reach := by
  intro x
  refine ⟨hc.sound x, fun hr => ?_⟩
  have ⟨hself, hall⟩ := he hx
  rw [take_eq_self_of_none hd] at hall
  rcases hr.cases_head with rfl | ⟨y, hy, hyr⟩
  · exact hself
  · exact hall y (hc.adj_eq ▸ hy) x hyr

theorem newCursor_exactUpTo (n : Nat) : ExactUpTo adjf (newCursor adjf n) 0 := by
  intro _
  refine ⟨?_, fun y hy => by simp at hy⟩
  show hasBit (bitsOf (adjf n ++ [n])) n = true
  rw [hasBit_bitsOf]; simp

theorem newCursor_sound (n z : Nat) (h : hasBit (newCursor adjf n).reach z = true) : Reach adjf n z := by
  have : z ∈ adjf n ++ [n] := (hasBit_bitsOf _ _).1 h
  rcases List.mem_append.1 this with h1 | h1
  · exact Reach.single h1
  · simp at h1; subst h1; exact Reach.refl _

theorem newCursor_mem (n z : Nat) (h : hasBit (newCursor adjf n).reach z = true) : z = n ∨ z ∈ adjf n := by
  have : z ∈ adjf n ++ [n] := (hasBit_bitsOf _ _).1 h
  rcases List.mem_append.1 this with h1 | h1
  · exact Or.inr h1
  · simp at h1; exact Or.inl h1

theorem ExactUpTo.or_reach {X : RCur} {n : Nat} (r : Nat) (h : ExactUpTo adjf X n) :
    ExactUpTo adjf { X with reach := X.reach ||| r } n := by
  intro hx
  have ⟨h1, h2⟩ := h hx
  exact ⟨hasBit_or_left h1, fun y hy w hw => hasBit_or_left (h2 y hy w hw)⟩

theorem cacheExact_put {m : Ideal} (hm : CacheExact adjf m) {k v : Nat} (hv : ExactBits adjf k v) :
    CacheExact adjf (m.put k v) := by
  intro x w hx
  rw [Dawgs.C16.Ideal.get_put] at hx
  by_cases hxk : x = k
  · simp [hxk] at hx; subst hx; subst hxk; exact hv
  · simp [hxk] at hx; exact hm x w hx

/-- the root step when the stack is empty -/
theorem dfsStep_inv_root (hL : Lawful C Rep) (cache : σ) (root : RCur)
    (hinv : Inv Rep adjf ⟨cache, root, []⟩) :
    match dfsStep C adjf true ⟨cache, root, []⟩ with
    | .running s' => Inv Rep adjf s' ∧ s'.root.comp = root.comp
    | .done cache' r => ExactBits adjf root.comp r ∧ ∃ m, Rep cache' m ∧ CacheExact adjf m := by
  obtain ⟨m, hrep, hex⟩ := hinv.cache
  have radj := hinv.radj
  have rsound := hinv.rsound
  have rself := hinv.rself
  have redges := hinv.redges
  simp only at radj rsound rself redges
  cases hn : root.adj[root.idx]? with
  | none =>
    have e : dfsStep C adjf true ⟨cache, root, []⟩ = .done (C.put cache root.comp root.reach) root.reach := by
      simp [dfsStep, hn]
    rw [e]
    have hb : ExactBits adjf root.comp root.reach := by
      intro x
      refine ⟨rsound x, fun hr => ?_⟩
      refine hr.closed (P := fun x => hasBit root.reach x = true) rself ?_
      intro x hx y hy
      rcases redges x hx y hy with h | ⟨_, h⟩
      · rcases h with h | ⟨X, hX, _⟩
        · exact h
        · simp at hX
      · rw [drop_eq_nil_of_none hn] at h; simp at h
    exact ⟨hb, m.put root.comp root.reach, hL.put_rep _ _ _ _ hrep, cacheExact_put adjf hex hb⟩
  | some n =>
    have hnadj : n ∈ adjf root.comp := radj ▸ getElem?_mem hn
    by_cases hv : hasBit root.reach n = true
    · -- visited: skip
      have e : dfsStep C adjf true ⟨cache, root, []⟩ =
          .running ⟨cache, { root with idx := root.idx + 1, exact := false }, []⟩ := by
        simp [dfsStep, hn, hv]
      rw [e]
      refine ⟨⟨⟨m, hrep, hex⟩, radj, rsound, rself, ?_, ?_, trivial⟩, rfl⟩
      · intro x hx y hy
        rcases redges x hx y hy with h | ⟨h1, h2⟩
        · rcases h with h | ⟨X, hX, _⟩
          · exact Or.inl (Or.inl h)
          · simp at hX
        · rcases mem_drop_succ_or hn h2 with rfl | h3
          · exact Or.inl (Or.inl hv)
          · exact Or.inr ⟨h1, h3⟩
      · intro X hX; simp at hX
    · -- not visited
      have hvf : hasBit root.reach n = false := by simpa using hv
      cases hg : (C.get cache n).2 with
      | some r =>
        have e : dfsStep C adjf true ⟨cache, root, []⟩ =
            .running ⟨(C.get cache n).1, { root with idx := root.idx + 1, reach := setBit root.reach n ||| r }, []⟩ := by
          simp [dfsStep, hn, hvf, hg]
        rw [e]
        have hr : ExactBits adjf n r := hex n r (hL.get_hit _ _ _ _ hrep hg)
        refine ⟨⟨⟨m, hL.get_rep _ _ _ hrep, hex⟩, radj, ?_, ?_, ?_, ?_, trivial⟩, rfl⟩
        · intro z hz
          rcases hasBit_or_iff.1 hz with h | h
          · rcases (hasBit_setBit _ _ _).1 h with h | rfl
            · exact rsound z h
            · exact Reach.single hnadj
          · exact Reach.head hnadj ((hr z).1 h)
        · exact hasBit_or_left (hasBit_setBit_of _ _ _ rself)
        · intro x hx y hy
          show InU _ y ∨ _
          have inl : ∀ y, hasBit r y = true →
              InU (σ := σ) ⟨(C.get cache n).1, { root with idx := root.idx + 1, reach := setBit root.reach n ||| r }, []⟩ y :=
            fun y h => Or.inl (hasBit_or_right h)
          rcases hasBit_or_iff.1 hx with h | h
          · rcases (hasBit_setBit _ _ _).1 h with h | rfl
            · rcases redges x h y hy with h' | ⟨h1, h2⟩
              · rcases h' with h' | ⟨X, hX, _⟩
                · exact Or.inl (Or.inl (hasBit_or_left (hasBit_setBit_of _ _ _ h')))
                · simp at hX
              · rcases mem_drop_succ_or hn h2 with rfl | h3
                · exact Or.inl (Or.inl (hasBit_or_left (hasBit_setBit_self _ _)))
                · exact Or.inr ⟨h1, h3⟩
            · exact Or.inl (inl y ((hr y).2 (Reach.single hy)))
          · exact Or.inl (inl y ((hr y).2 (Reach.tail ((hr x).1 h) hy)))
        · intro X hX; simp at hX
      | none =>
        have e : dfsStep C adjf true ⟨cache, root, []⟩ =
            .running ⟨(C.get cache n).1, { root with idx := root.idx + 1, reach := setBit root.reach n }, [newCursor adjf n]⟩ := by
          simp [dfsStep, hn, hvf, hg]
        rw [e]
        refine ⟨⟨⟨m, hL.get_rep _ _ _ hrep, hex⟩, radj, ?_, ?_, ?_, ?_, ?_⟩, rfl⟩
        · intro z hz
          rcases (hasBit_setBit _ _ _).1 hz with h | rfl
          · exact rsound z h
          · exact Reach.single hnadj
        · exact hasBit_setBit_of _ _ _ rself
        · intro x hx y hy
          rcases (hasBit_setBit _ _ _).1 hx with h | rfl
          · rcases redges x h y hy with h' | ⟨h1, h2⟩
            · rcases h' with h' | ⟨X, hX, _⟩
              · exact Or.inl (Or.inl (hasBit_setBit_of _ _ _ h'))
              · simp at hX
            · rcases mem_drop_succ_or hn h2 with rfl | h3
              · exact Or.inl (Or.inl (hasBit_setBit_self _ _))
              · exact Or.inr ⟨h1, h3⟩
          · refine Or.inl (Or.inr ⟨newCursor adjf x, by simp, ?_⟩)
            show hasBit (bitsOf (adjf x ++ [x])) y = true
            rw [hasBit_bitsOf]; simp [hy]
        · intro X hX
          simp at hX; subst hX
          refine ⟨rfl, newCursor_sound adjf n, Reach.single hnadj, ?_⟩
          intro z hz
          rcases newCursor_mem adjf n z hz with rfl | h
          · exact Or.inl (hasBit_setBit_self _ _)
          · exact Or.inr (Or.inl (by simpa [newCursor] using h))
        · exact ⟨newCursor_exactUpTo adjf n, trivial⟩

theorem putCursor_exact (hL : Lawful C Rep) {cache : σ} {m : Ideal} (hrep : Rep cache m) (hex : CacheExact adjf m)
    (X : RCur) (hX : X.exact = true → ExactBits adjf X.comp X.reach) :
    ∃ m', Rep (putCursor C true cache X) m' ∧ CacheExact adjf m' := by
  unfold putCursor
  cases hx : X.exact with
  | true => exact ⟨m.put X.comp X.reach, by simpa using hL.put_rep _ _ _ _ hrep, cacheExact_put adjf hex (hX hx)⟩
  | false => exact ⟨m, by simpa using hrep, hex⟩

/-- the step when a non-root cursor is on top -/
theorem dfsStep_inv_top (hL : Lawful C Rep) (cache : σ) (root top : RCur) (rest : List RCur)
    (hinv : Inv Rep adjf ⟨cache, root, top :: rest⟩) :
    match dfsStep C adjf true ⟨cache, root, top :: rest⟩ with
    | .running s' => Inv Rep adjf s' ∧ s'.root.comp = root.comp
    | .done _ _ => False := by
  obtain ⟨m, hrep, hex⟩ := hinv.cache
  have radj := hinv.radj
  have rsound := hinv.rsound
  have rself := hinv.rself
  have redges := hinv.redges
  have curs := hinv.curs
  have chain := hinv.chain
  simp only at radj rsound rself redges curs chain
  have htop := curs top (by simp)
  have hchain : ExactUpTo adjf top top.idx ∧ Below adjf top.comp rest := chain
  cases hn : top.adj[top.idx]? with
  | none =>
    -- pop
    have hcache := putCursor_exact C Rep adjf hL hrep hex top
      (fun hx => exactBits_of_done adjf htop hchain.1 hx hn)
    have hdrop : top.adj.drop top.idx = [] := drop_eq_nil_of_none hn
    cases rest with
    | nil =>
      have e : dfsStep C adjf true ⟨cache, root, [top]⟩ =
          .running ⟨putCursor C true cache top, rollUp root top, []⟩ := by
        simp [dfsStep, hn]
      rw [e]
      have hU : ∀ y, InU (σ := σ) ⟨cache, root, [top]⟩ y → hasBit (root.reach ||| top.reach) y = true := by
        intro y h
        rcases h with h | ⟨X, hX, h⟩
        · exact hasBit_or_left h
        · simp at hX; subst hX; exact hasBit_or_right h
      refine ⟨⟨hcache, radj, ?_, hasBit_or_left rself, ?_, ?_, trivial⟩, rfl⟩
      · intro z hz
        rcases hasBit_or_iff.1 hz with h | h
        · exact rsound z h
        · exact htop.fromRoot.trans (htop.sound z h)
      · intro x hx y hy
        have old : hasBit root.reach x = true →
            (InU (σ := σ) ⟨putCursor C true cache top, rollUp root top, []⟩ y ∨
              (x = root.comp ∧ y ∈ root.adj.drop root.idx)) := fun h => by
          rcases redges x h y hy with h' | h'
          · exact Or.inl (Or.inl (hU y h'))
          · exact Or.inr h'
        rcases hasBit_or_iff.1 hx with h | h
        · exact old h
        · rcases htop.pend x h with h1 | h1 | h1
          · exact old h1
          · rw [hdrop] at h1; simp at h1
          · exact Or.inl (Or.inl (hU y (h1 y (Reach.single hy))))
      · intro X hX; simp at hX
    | cons P rest' =>
      have e : dfsStep C adjf true ⟨cache, root, top :: P :: rest'⟩ =
          .running ⟨putCursor C true cache top, root, rollUp P top :: rest'⟩ := by
        simp [dfsStep, hn]
      rw [e]
      have hP := curs P (by simp)
      obtain ⟨hlink, hidx, hPex, hbelow⟩ : P.adj[P.idx - 1]? = some top.comp ∧ 1 ≤ P.idx ∧
          ExactUpTo adjf P (P.idx - 1) ∧ Below adjf P.comp rest' := hchain.2
      have hU : ∀ y, InU (σ := σ) ⟨cache, root, top :: P :: rest'⟩ y →
          InU (σ := σ) ⟨putCursor C true cache top, root, rollUp P top :: rest'⟩ y := by
        intro y h
        rcases h with h | ⟨X, hX, h⟩
        · exact Or.inl h
        · simp at hX
          rcases hX with rfl | rfl | hX
          · exact Or.inr ⟨rollUp P X, by simp, hasBit_or_right h⟩
          · exact Or.inr ⟨rollUp X top, by simp, hasBit_or_left h⟩
          · exact Or.inr ⟨X, by simp [hX], h⟩
      have hPtop : Reach adjf P.comp top.comp := Reach.single (hP.adj_eq ▸ getElem?_mem hlink)
      refine ⟨⟨hcache, radj, rsound, rself, ?_, ?_, ?_⟩, rfl⟩
      · intro x hx y hy
        rcases redges x hx y hy with h' | h'
        · exact Or.inl (hU y h')
        · exact Or.inr h'
      · intro X hX
        simp at hX
        rcases hX with rfl | hX
        · refine ⟨hP.adj_eq, ?_, hP.fromRoot, ?_⟩
          · intro z hz
            rcases hasBit_or_iff.1 hz with h | h
            · exact hP.sound z h
            · exact hPtop.trans (htop.sound z h)
          · intro z hz
            rcases hasBit_or_iff.1 hz with h | h
            · rcases hP.pend z h with h1 | h1 | h1
              · exact Or.inl h1
              · exact Or.inr (Or.inl h1)
              · exact Or.inr (Or.inr (fun w hw => hU w (h1 w hw)))
            · rcases htop.pend z h with h1 | h1 | h1
              · exact Or.inl h1
              · rw [hdrop] at h1; simp at h1
              · exact Or.inr (Or.inr (fun w hw => hU w (h1 w hw)))
        · exact (curs X (by simp [hX])).mono adjf (fun _ h => h) hU
      · refine ⟨?_, hbelow⟩
        intro hx
        have hx' : P.exact = true ∧ top.exact = true := by simpa [rollUp] using hx
        have ⟨hs, hall⟩ := hPex hx'.1
        have htb : ExactBits adjf top.comp top.reach := exactBits_of_done adjf htop hchain.1 hx'.2 hn
        refine ⟨hasBit_or_left hs, ?_⟩
        intro y hy w hw
        have hy' : y ∈ P.adj.take (P.idx - 1 + 1) := by
          have : P.idx - 1 + 1 = P.idx := by omega
          rw [this]; exact hy
        rcases mem_take_succ hlink hy' with h1 | rfl
        · exact hasBit_or_left (hall y h1 w hw)
        · exact hasBit_or_right ((htb w).2 hw)
  | some n =>
    have hnadj : n ∈ adjf top.comp := htop.adj_eq ▸ getElem?_mem hn
    by_cases hv : hasBit root.reach n = true
    · -- visited: skip, the cursor is no longer exact
      have e : dfsStep C adjf true ⟨cache, root, top :: rest⟩ =
          .running ⟨cache, root, { top with idx := top.idx + 1, exact := false } :: rest⟩ := by
        simp [dfsStep, hn, hv]
      rw [e]
      have hU : ∀ y, InU (σ := σ) ⟨cache, root, top :: rest⟩ y →
          InU (σ := σ) ⟨cache, root, { top with idx := top.idx + 1, exact := false } :: rest⟩ y := by
        intro y h
        rcases h with h | ⟨X, hX, h⟩
        · exact Or.inl h
        · simp at hX
          rcases hX with rfl | hX
          · exact Or.inr ⟨{ X with idx := X.idx + 1, exact := false }, by simp, h⟩
          · exact Or.inr ⟨X, by simp [hX], h⟩
      refine ⟨⟨⟨m, hrep, hex⟩, radj, rsound, rself, ?_, ?_, ?_⟩, rfl⟩
      · intro x hx y hy
        rcases redges x hx y hy with h' | h'
        · exact Or.inl (hU y h')
        · exact Or.inr h'
      · intro X hX
        simp at hX
        rcases hX with rfl | hX
        · refine ⟨htop.adj_eq, htop.sound, htop.fromRoot, ?_⟩
          intro z hz
          rcases htop.pend z hz with h1 | h1 | h1
          · exact Or.inl h1
          · rcases mem_drop_succ_or hn h1 with rfl | h3
            · exact Or.inl hv
            · exact Or.inr (Or.inl h3)
          · exact Or.inr (Or.inr (fun w hw => hU w (h1 w hw)))
        · exact (curs X (by simp [hX])).mono adjf (fun _ h => h) hU
      · exact ⟨fun hx => by simp at hx, hchain.2⟩
    · have hvf : hasBit root.reach n = false := by simpa using hv
      cases hg : (C.get cache n).2 with
      | some r =>
        have e : dfsStep C adjf true ⟨cache, root, top :: rest⟩ =
            .running ⟨(C.get cache n).1, { root with reach := setBit root.reach n },
              { top with idx := top.idx + 1, reach := top.reach ||| r } :: rest⟩ := by
          simp [dfsStep, hn, hvf, hg]
        rw [e]
        have hr : ExactBits adjf n r := hex n r (hL.get_hit _ _ _ _ hrep hg)
        have hU : ∀ y, InU (σ := σ) ⟨cache, root, top :: rest⟩ y →
            InU (σ := σ) ⟨(C.get cache n).1, { root with reach := setBit root.reach n },
              { top with idx := top.idx + 1, reach := top.reach ||| r } :: rest⟩ y := by
          intro y h
          rcases h with h | ⟨X, hX, h⟩
          · exact Or.inl (hasBit_setBit_of _ _ _ h)
          · simp at hX
            rcases hX with rfl | hX
            · exact Or.inr ⟨{ X with idx := X.idx + 1, reach := X.reach ||| r }, by simp, hasBit_or_left h⟩
            · exact Or.inr ⟨X, by simp [hX], h⟩
        have hUr : ∀ y, hasBit r y = true →
            InU (σ := σ) ⟨(C.get cache n).1, { root with reach := setBit root.reach n },
              { top with idx := top.idx + 1, reach := top.reach ||| r } :: rest⟩ y :=
          fun y h => Or.inr ⟨{ top with idx := top.idx + 1, reach := top.reach ||| r }, by simp, hasBit_or_right h⟩
        refine ⟨⟨⟨m, hL.get_rep _ _ _ hrep, hex⟩, radj, ?_, hasBit_setBit_of _ _ _ rself, ?_, ?_, ?_⟩, rfl⟩
        · intro z hz
          rcases (hasBit_setBit _ _ _).1 hz with h | rfl
          · exact rsound z h
          · exact htop.fromRoot.trans (Reach.single hnadj)
        · intro x hx y hy
          rcases (hasBit_setBit _ _ _).1 hx with h | rfl
          · rcases redges x h y hy with h' | h'
            · exact Or.inl (hU y h')
            · exact Or.inr h'
          · exact Or.inl (hUr y ((hr y).2 (Reach.single hy)))
        · intro X hX
          simp at hX
          rcases hX with rfl | hX
          · refine ⟨htop.adj_eq, ?_, htop.fromRoot, ?_⟩
            · intro z hz
              rcases hasBit_or_iff.1 hz with h | h
              · exact htop.sound z h
              · exact Reach.head hnadj ((hr z).1 h)
            · intro z hz
              rcases hasBit_or_iff.1 hz with h | h
              · rcases htop.pend z h with h1 | h1 | h1
                · exact Or.inl (hasBit_setBit_of _ _ _ h1)
                · rcases mem_drop_succ_or hn h1 with rfl | h3
                  · exact Or.inl (hasBit_setBit_self _ _)
                  · exact Or.inr (Or.inl h3)
                · exact Or.inr (Or.inr (fun w hw => hU w (h1 w hw)))
              · exact Or.inr (Or.inr (fun w hw => hUr w ((hr w).2 (((hr z).1 h).trans hw))))
          · exact (curs X (by simp [hX])).mono adjf (fun _ h => hasBit_setBit_of _ _ _ h) hU
        · refine ⟨?_, hchain.2⟩
          intro hx
          have ⟨hs, hall⟩ := hchain.1 hx
          refine ⟨hasBit_or_left hs, ?_⟩
          intro y hy w hw
          rcases mem_take_succ hn hy with h1 | rfl
          · exact hasBit_or_left (hall y h1 w hw)
          · exact hasBit_or_right ((hr w).2 hw)
      | none =>
        have e : dfsStep C adjf true ⟨cache, root, top :: rest⟩ =
            .running ⟨(C.get cache n).1, { root with reach := setBit root.reach n },
              newCursor adjf n :: { top with idx := top.idx + 1 } :: rest⟩ := by
          simp [dfsStep, hn, hvf, hg]
        rw [e]
        have hU : ∀ y, InU (σ := σ) ⟨cache, root, top :: rest⟩ y →
            InU (σ := σ) ⟨(C.get cache n).1, { root with reach := setBit root.reach n },
              newCursor adjf n :: { top with idx := top.idx + 1 } :: rest⟩ y := by
          intro y h
          rcases h with h | ⟨X, hX, h⟩
          · exact Or.inl (hasBit_setBit_of _ _ _ h)
          · simp at hX
            rcases hX with rfl | hX
            · exact Or.inr ⟨{ X with idx := X.idx + 1 }, by simp, h⟩
            · exact Or.inr ⟨X, by simp [hX], h⟩
        refine ⟨⟨⟨m, hL.get_rep _ _ _ hrep, hex⟩, radj, ?_, hasBit_setBit_of _ _ _ rself, ?_, ?_, ?_⟩, rfl⟩
        · intro z hz
          rcases (hasBit_setBit _ _ _).1 hz with h | rfl
          · exact rsound z h
          · exact htop.fromRoot.trans (Reach.single hnadj)
        · intro x hx y hy
          rcases (hasBit_setBit _ _ _).1 hx with h | rfl
          · rcases redges x h y hy with h' | h'
            · exact Or.inl (hU y h')
            · exact Or.inr h'
          · refine Or.inl (Or.inr ⟨newCursor adjf x, by simp, ?_⟩)
            show hasBit (bitsOf (adjf x ++ [x])) y = true
            rw [hasBit_bitsOf]; simp [hy]
        · intro X hX
          simp at hX
          rcases hX with rfl | rfl | hX
          · refine ⟨rfl, newCursor_sound adjf n, htop.fromRoot.trans (Reach.single hnadj), ?_⟩
            intro z hz
            rcases newCursor_mem adjf n z hz with rfl | h
            · exact Or.inl (hasBit_setBit_self _ _)
            · exact Or.inr (Or.inl (by simpa [newCursor] using h))
          · refine ⟨htop.adj_eq, htop.sound, htop.fromRoot, ?_⟩
            intro z hz
            rcases htop.pend z hz with h1 | h1 | h1
            · exact Or.inl (hasBit_setBit_of _ _ _ h1)
            · rcases mem_drop_succ_or hn h1 with rfl | h3
              · exact Or.inl (hasBit_setBit_self _ _)
              · exact Or.inr (Or.inl h3)
            · exact Or.inr (Or.inr (fun w hw => hU w (h1 w hw)))
          · exact (curs X (by simp [hX])).mono adjf (fun _ h => hasBit_setBit_of _ _ _ h) hU
        · refine ⟨newCursor_exactUpTo adjf n, ?_, by simp, ?_, hchain.2⟩
          · simpa [newCursor] using hn
          · show ExactUpTo adjf _ (top.idx + 1 - 1)
            rw [Nat.add_sub_cancel]; exact hchain.1

theorem dfsLoop_inv (hL : Lawful C Rep) (fuel : Nat) (s : DState σ) (hinv : Inv Rep adjf s)
    (cache' : σ) (r : Nat) (h : dfsLoop C adjf true fuel s = some (cache', r)) :
    ExactBits adjf s.root.comp r ∧ ∃ m, Rep cache' m ∧ CacheExact adjf m := by
  induction fuel generalizing s with
  | zero => simp [dfsLoop] at h
  | succ fuel ih =>
    obtain ⟨cache, root, stack⟩ := s
    unfold dfsLoop at h
    cases stack with
    | nil =>
      have := dfsStep_inv_root C Rep adjf hL cache root hinv
      cases hs : dfsStep C adjf true ⟨cache, root, []⟩ with
      | running s' =>
        rw [hs] at this h
        have := ih s' this.1 h
        rw [‹Inv Rep adjf s' ∧ s'.root.comp = root.comp›.2] at this
        exact this
      | done c r' =>
        rw [hs] at this h
        simp at h
        obtain ⟨rfl, rfl⟩ := h
        exact this
    | cons top rest =>
      have := dfsStep_inv_top C Rep adjf hL cache root top rest hinv
      cases hs : dfsStep C adjf true ⟨cache, root, top :: rest⟩ with
      | running s' =>
        rw [hs] at this h
        have h2 := ih s' this.1 h
        rw [this.2] at h2
        exact h2
      | done c r' =>
        rw [hs] at this
        exact this.elim

theorem inv_init {cache : σ} {m : Ideal} (hrep : Rep cache m) (hex : CacheExact adjf m) (c : Nat) :
    Inv Rep adjf ⟨cache, newRootCursor adjf c, []⟩ := by
  refine ⟨⟨m, hrep, hex⟩, rfl, ?_, hasBit_setBit_self _ _, ?_, ?_, trivial⟩
  · intro z hz
    rcases (hasBit_setBit _ _ _).1 hz with h | rfl
    · simp [hasBit_zero] at h
    · exact Reach.refl _
  · intro x hx y hy
    rcases (hasBit_setBit _ _ _).1 hx with h | rfl
    · simp [hasBit_zero] at h
    · exact Or.inr ⟨rfl, by simpa [newRootCursor] using hy⟩
  · intro X hX; simp at hX

/-- **the repaired `componentReachDFS` keeps the cache exact and answers exactly**, for every cache that
satisfies the contract (any capacity, any eviction choice) and every fuel -/
theorem reachDFS_fixed_exact (hL : Lawful C Rep) (fuel : Nat) (cache : σ) (m : Ideal) (hrep : Rep cache m)
    (hex : CacheExact adjf m) (c : Nat) (cache' : σ) (r : Nat)
    (h : reachDFS C adjf true fuel cache c = some (cache', r)) :
    ExactBits adjf c r ∧ ∃ m', Rep cache' m' ∧ CacheExact adjf m' := by
  unfold reachDFS at h
  cases hg : (C.get cache c).2 with
  | some r' =>
    rw [hg] at h
    simp at h
    obtain ⟨rfl, rfl⟩ := h
    exact ⟨hex c r' (hL.get_hit _ _ _ _ hrep hg), m, hL.get_rep _ _ _ hrep, hex⟩
  | none =>
    rw [hg] at h
    simp only at h
    exact dfsLoop_inv C Rep adjf hL fuel _ (inv_init Rep adjf (hL.get_rep _ _ c hrep) hex c) cache' r h

end DFS

/-! ### the reach DFS terminates within its fuel (either variant) -/

section DFSTerm
variable {σ : Type} (C : CacheI σ) (adjf : Nat → List Nat) (univ : List Nat) (K : Nat)

/-- number of universe members not yet in the visited bit set -/
def unvis (V : Nat) : Nat := (univ.filter (fun i => !hasBit V i)).length

theorem unvis_mono {V V' : Nat} (h : ∀ i, hasBit V i = true → hasBit V' i = true) :
    unvis univ V' ≤ unvis univ V := by
  unfold unvis
  induction univ with
  | nil => simp
  | cons a t ih =>
    simp only [List.filter_cons]
    cases h1 : hasBit V a with
    | true => simp [h a h1]; exact ih
    | false =>
      cases h2 : hasBit V' a with
      | true => simp; omega
      | false => simp; exact ih

theorem unvis_strict {V V' n : Nat} (h : ∀ i, hasBit V i = true → hasBit V' i = true) (hn : n ∈ univ)
    (h1 : hasBit V n = false) (h2 : hasBit V' n = true) : unvis univ V' + 1 ≤ unvis univ V := by
  unfold unvis
  induction univ with
  | nil => simp at hn
  | cons a t ih =>
    simp only [List.filter_cons]
    rcases List.mem_cons.1 hn with rfl | hn'
    · simp [h1, h2]
      exact unvis_mono t h
    · cases h3 : hasBit V a with
      | true => simp [h a h3]; exact ih hn'
      | false =>
        cases h4 : hasBit V' a with
        | true => simp; have := ih hn'; omega
        | false => simp; exact ih hn'

def work (X : RCur) : Nat := (X.adj.length - X.idx) + 1

def workSum : List RCur → Nat
  | [] => 0
  | X :: r => work X + workSum r

/-- the termination measure: every iteration of the DFS loop decreases it -/
def mu (s : DState σ) : Nat := unvis univ s.root.reach * K + workSum s.stack + work s.root

structure TInv (s : DState σ) : Prop where
  radj : ∀ y, y ∈ s.root.adj → y ∈ univ
  sadj : ∀ X, X ∈ s.stack → ∀ y, y ∈ X.adj → y ∈ univ

theorem getElem?_lt {l : List Nat} {i n : Nat} (h : l[i]? = some n) : i < l.length := by
  rcases Nat.lt_or_ge i l.length with h' | h'
  · exact h'
  · rw [List.getElem?_eq_none h'] at h; cases h

theorem dfsStep_decreases (fixed : Bool) (hadj : ∀ c y, y ∈ adjf c → y ∈ univ)
    (hK : ∀ c, (adjf c).length + 2 ≤ K) (s : DState σ) (ht : TInv univ s) :
    match dfsStep C adjf fixed s with
    | .running s' => TInv univ s' ∧ mu univ K s' + 1 ≤ mu univ K s
    | .done _ _ => True := by
  obtain ⟨cache, root, stack⟩ := s
  have hradj := ht.radj
  have hsadj := ht.sadj
  simp only at hradj hsadj
  cases stack with
  | nil =>
    cases hn : root.adj[root.idx]? with
    | none => simp [dfsStep, hn]
    | some n =>
      have hlt := getElem?_lt hn
      have hnu : n ∈ univ := hradj n (getElem?_mem hn)
      cases hv : hasBit root.reach n with
      | true =>
        simp only [dfsStep, hn, hv, if_true]
        refine ⟨⟨hradj, by simp⟩, ?_⟩
        simp only [mu, workSum, work]; omega
      | false =>
        cases hg : (C.get cache n).2 with
        | some r =>
          simp only [dfsStep, hn, hv, hg]
          refine ⟨⟨hradj, by simp⟩, ?_⟩
          have := unvis_mono univ (V := root.reach) (V' := setBit root.reach n ||| r)
            (fun i h => hasBit_or_left (hasBit_setBit_of _ _ _ h))
          have := Nat.mul_le_mul_right K this
          simp only [mu, workSum, work, Bool.false_eq_true, if_false]; omega
        | none =>
          simp only [dfsStep, hn, hv, hg]
          refine ⟨⟨hradj, ?_⟩, ?_⟩
          · intro X hX y hy; simp at hX; subst hX; exact hadj n y hy
          have h1 := unvis_strict univ (V := root.reach) (V' := setBit root.reach n)
            (fun i h => hasBit_setBit_of _ _ _ h) hnu hv (hasBit_setBit_self _ _)
          have h2 := Nat.mul_le_mul_right K h1
          rw [Nat.add_mul, Nat.one_mul] at h2
          have h3 := hK n
          simp only [mu, workSum, work, newCursor, Bool.false_eq_true, if_false]; omega
  | cons top rest =>
    have htadj := hsadj top (by simp)
    cases hn : top.adj[top.idx]? with
    | none =>
      cases rest with
      | nil =>
        simp only [dfsStep, hn]
        refine ⟨⟨hradj, by simp⟩, ?_⟩
        have := unvis_mono univ (V := root.reach) (V' := root.reach ||| top.reach) (fun i h => hasBit_or_left h)
        have := Nat.mul_le_mul_right K this
        simp only [mu, workSum, work, rollUp]; omega
      | cons P rest' =>
        simp only [dfsStep, hn]
        refine ⟨⟨hradj, ?_⟩, ?_⟩
        · intro X hX y hy
          simp at hX
          rcases hX with rfl | hX
          · exact hsadj P (by simp) y hy
          · exact hsadj X (by simp [hX]) y hy
        simp only [mu, workSum, work, rollUp]; omega
    | some n =>
      have hlt := getElem?_lt hn
      have hnu : n ∈ univ := htadj n (getElem?_mem hn)
      cases hv : hasBit root.reach n with
      | true =>
        simp only [dfsStep, hn, hv, if_true]
        refine ⟨⟨hradj, ?_⟩, ?_⟩
        · intro X hX y hy
          simp at hX
          rcases hX with rfl | hX
          · exact htadj y hy
          · exact hsadj X (by simp [hX]) y hy
        simp only [mu, workSum, work]; omega
      | false =>
        have h1 := unvis_strict univ (V := root.reach) (V' := setBit root.reach n)
          (fun i h => hasBit_setBit_of _ _ _ h) hnu hv (hasBit_setBit_self _ _)
        have h2 := Nat.mul_le_mul_right K h1
        rw [Nat.add_mul, Nat.one_mul] at h2
        cases hg : (C.get cache n).2 with
        | some r =>
          simp only [dfsStep, hn, hv, hg]
          refine ⟨⟨hradj, ?_⟩, ?_⟩
          · intro X hX y hy
            simp at hX
            rcases hX with rfl | hX
            · exact htadj y hy
            · exact hsadj X (by simp [hX]) y hy
          simp only [mu, workSum, work, Bool.false_eq_true, if_false]; omega
        | none =>
          simp only [dfsStep, hn, hv, hg]
          refine ⟨⟨hradj, ?_⟩, ?_⟩
          · intro X hX y hy
            simp at hX
            rcases hX with rfl | rfl | hX
            · exact hadj n y hy
            · exact htadj y hy
            · exact hsadj X (by simp [hX]) y hy
          have h3 := hK n
          simp only [mu, workSum, work, newCursor, Bool.false_eq_true, if_false]; omega

theorem dfsLoop_terminates (fixed : Bool) (hadj : ∀ c y, y ∈ adjf c → y ∈ univ)
    (hK : ∀ c, (adjf c).length + 2 ≤ K) (fuel : Nat) (s : DState σ) (ht : TInv univ s)
    (hf : mu univ K s < fuel) : (dfsLoop C adjf fixed fuel s).isSome = true := by
  induction fuel generalizing s with
  | zero => omega
  | succ fuel ih =>
    unfold dfsLoop
    have := dfsStep_decreases C adjf univ K fixed hadj hK s ht
    cases hs : dfsStep C adjf fixed s with
    | done c r => simp
    | running s' =>
      rw [hs] at this
      simp only
      exact ih s' this.1 (by omega)

/-- `componentReachDFS` always returns when given `2·(|V|+1)² + 1` iterations of fuel (adjacency lists are
at most `2·|V|` long: outbound followed by inbound for `DirectionBoth`) -/
theorem reachDFS_terminates (fixed : Bool) (hadj : ∀ c y, y ∈ adjf c → y ∈ univ)
    (hlen : ∀ c, (adjf c).length ≤ 2 * univ.length) (cache : σ) (c : Nat) :
    (reachDFS C adjf fixed (dfsFuel univ.length) cache c).isSome = true := by
  unfold reachDFS
  cases hg : (C.get cache c).2 with
  | some r => simp
  | none =>
    simp only
    apply dfsLoop_terminates C adjf univ (2 * univ.length + 2) fixed hadj (fun c => by have := hlen c; omega)
    · exact ⟨fun y hy => hadj c y hy, by simp⟩
    · have h1 : unvis univ (setBit 0 c) ≤ univ.length := by
        unfold unvis; exact List.length_filter_le _ _
      have h2 := Nat.mul_le_mul_right (2 * univ.length + 2) h1
      have h3 := hlen c
      have h4 : univ.length * (2 * univ.length + 2) = 2 * (univ.length * univ.length) + 2 * univ.length := by
        rw [Nat.mul_add, Nat.mul_left_comm]; omega
      have h5 : 2 * (univ.length + 1) * (univ.length + 1) = 2 * (univ.length * univ.length) + 4 * univ.length + 2 := by
        rw [Nat.mul_assoc, Nat.add_mul, Nat.mul_add, Nat.mul_add]; omega
      simp only [mu, workSum, work, newRootCursor, dfsFuel]
      omega

end DFSTerm

/-! ### the spec BFS computes exactly `Reach` -/

section BFS
variable (adj : Nat → List Nat)

theorem visitAll_spec (as q vis : List Nat) :
    (∀ x, x ∈ vis → x ∈ (visitAll as q vis).2) ∧
    (∀ x, x ∈ q → x ∈ (visitAll as q vis).1) ∧
    (∀ a, a ∈ as → a ∈ (visitAll as q vis).2) ∧
    (∀ x, x ∈ (visitAll as q vis).2 → x ∈ vis ∨ (x ∈ as ∧ x ∈ (visitAll as q vis).1)) ∧
    (∀ x, x ∈ (visitAll as q vis).1 → x ∈ q ∨ (x ∈ as ∧ x ∈ (visitAll as q vis).2)) ∧
    (vis.Nodup → (visitAll as q vis).2.Nodup) ∧
    (visitAll as q vis).1.length + vis.length = q.length + (visitAll as q vis).2.length := by
  induction as generalizing q vis with
  | nil => simp [visitAll]
  | cons a as ih =>
    unfold visitAll
    by_cases h : vis.contains a = true
    · simp only [h, if_true]
      have ⟨h1, h2, h3, h4, h5, h6, h7⟩ := ih q vis
      refine ⟨h1, h2, ?_, ?_, ?_, h6, h7⟩
      · intro x hx
        rcases List.mem_cons.1 hx with rfl | hx
        · exact h1 _ (by simpa using h)
        · exact h3 x hx
      · intro x hx
        rcases h4 x hx with h' | ⟨h', h''⟩
        · exact Or.inl h'
        · exact Or.inr ⟨List.mem_cons_of_mem _ h', h''⟩
      · intro x hx
        rcases h5 x hx with h' | ⟨h', h''⟩
        · exact Or.inl h'
        · exact Or.inr ⟨List.mem_cons_of_mem _ h', h''⟩
    · simp only [h, if_false]
      have hna : a ∉ vis := by simpa using h
      have ⟨h1, h2, h3, h4, h5, h6, h7⟩ := ih (q ++ [a]) (a :: vis)
      refine ⟨fun x hx => h1 x (List.mem_cons_of_mem _ hx), fun x hx => h2 x (by simp [hx]), ?_, ?_, ?_, ?_, ?_⟩
      · intro x hx
        rcases List.mem_cons.1 hx with rfl | hx
        · exact h1 _ (by simp)
        · exact h3 x hx
      · intro x hx
        rcases h4 x hx with h' | ⟨h', h''⟩
        · rcases List.mem_cons.1 h' with rfl | h'
          · exact Or.inr ⟨by simp, h2 _ (by simp)⟩
          · exact Or.inl h'
        · exact Or.inr ⟨List.mem_cons_of_mem _ h', h''⟩
      · intro x hx
        rcases h5 x hx with h' | ⟨h', h''⟩
        · rcases List.mem_append.1 h' with h' | h'
          · exact Or.inl h'
          · simp at h'; subst h'; exact Or.inr ⟨by simp, h1 _ (by simp)⟩
        · exact Or.inr ⟨List.mem_cons_of_mem _ h', h''⟩
      · intro hn; exact h6 (List.nodup_cons.2 ⟨hna, hn⟩)
      · simp at h7 ⊢; omega

structure BInv (u : Nat) (univ q vis : List Nat) : Prop where
  sound : ∀ x, x ∈ vis → Reach adj u x
  start : u ∈ vis
  closed : ∀ x, x ∈ vis → x ∈ q ∨ ∀ y, y ∈ adj x → y ∈ vis
  qsub : ∀ x, x ∈ q → x ∈ vis
  nodup : vis.Nodup
  sub : ∀ x, x ∈ vis → x ∈ univ

theorem bfsLoop_spec (u : Nat) (univ : List Nat) (hadj : ∀ c y, y ∈ adj c → y ∈ univ)
    (fuel : Nat) (q vis : List Nat) (hi : BInv adj u univ q vis) (hf : univ.length - vis.length + q.length ≤ fuel) :
    (∀ x, x ∈ bfsLoop adj fuel q vis → Reach adj u x) ∧ u ∈ bfsLoop adj fuel q vis ∧
    (∀ x, x ∈ bfsLoop adj fuel q vis → ∀ y, y ∈ adj x → y ∈ bfsLoop adj fuel q vis) := by
  induction fuel generalizing q vis with
  | zero =>
    have hq : q = [] := by
      cases q with
      | nil => rfl
      | cons a t => simp at hf
    subst hq
    simp only [bfsLoop]
    refine ⟨hi.sound, hi.start, fun x hx => ?_⟩
    rcases hi.closed x hx with h | h
    · simp at h
    · exact h
  | succ fuel ih =>
    cases q with
    | nil =>
      simp only [bfsLoop]
      refine ⟨hi.sound, hi.start, fun x hx => ?_⟩
      rcases hi.closed x hx with h | h
      · simp at h
      · exact h
    | cons v q =>
      simp only [bfsLoop]
      have ⟨h1, h2, h3, h4, h5, h6, h7⟩ := visitAll_spec (adj v) q vis
      have hv : Reach adj u v := hi.sound v (hi.qsub v (by simp))
      have hsub' : ∀ x, x ∈ (visitAll (adj v) q vis).2 → x ∈ univ := by
        intro x hx
        rcases h4 x hx with h | ⟨h, _⟩
        · exact hi.sub x h
        · exact hadj v x h
      have hlen := List.Nodup.length_le_of_subset (h6 hi.nodup) hsub'
      have hlen0 := List.Nodup.length_le_of_subset hi.nodup hi.sub
      apply ih
      · refine ⟨?_, h1 u hi.start, ?_, ?_, h6 hi.nodup, hsub'⟩
        · intro x hx
          rcases h4 x hx with h | ⟨h, _⟩
          · exact hi.sound x h
          · exact Reach.tail hv h
        · intro x hx
          rcases h4 x hx with h | ⟨_, h⟩
          · rcases hi.closed x h with h' | h'
            · rcases List.mem_cons.1 h' with rfl | h'
              · exact Or.inr (fun y hy => h3 y hy)
              · exact Or.inl (h2 x h')
            · exact Or.inr (fun y hy => h1 y (h' y hy))
          · exact Or.inl h
        · intro x hx
          rcases h5 x hx with h | ⟨_, h⟩
          · exact h1 x (hi.qsub x (by simp [h]))
          · exact h
      · simp at hf; omega

/-- plain BFS = reachability, for every start node and every fuel of at least `|universe| + 1` -/
theorem bfs_correct (univ : List Nat) (hadj : ∀ c y, y ∈ adj c → y ∈ univ) (fuel : Nat)
    (hf : univ.length + 1 ≤ fuel) (u x : Nat) : x ∈ bfs adj fuel u ↔ Reach adj u x := by
  have hi : BInv adj u (u :: univ) [u] [u] := by
    refine ⟨?_, by simp, ?_, by simp, by simp, by simp⟩
    · intro x hx; simp at hx; subst hx; exact Reach.refl _
    · intro x hx; simp at hx; subst hx; exact Or.inl (by simp)
  have := bfsLoop_spec adj u (u :: univ) (fun c y hy => List.mem_cons_of_mem _ (hadj c y hy)) fuel [u] [u] hi
    (by simp; omega)
  exact ⟨this.1 x, fun hr => hr.closed (P := fun x => x ∈ bfs adj fuel u) this.2.1 this.2.2⟩

end BFS

/-! ### facts about the container model -/

theorem Digraph.mem_outAdj {g : Digraph} {u v : Nat} : v ∈ g.outAdj u ↔ v ∈ g.nodes ∧ g.hasEdge u v = true := by
  simp [Digraph.outAdj]

theorem Digraph.mem_inAdj {g : Digraph} {u v : Nat} : v ∈ g.inAdj u ↔ v ∈ g.nodes ∧ g.hasEdge v u = true := by
  simp [Digraph.inAdj]

theorem Digraph.adj_sub_nodes (g : Digraph) (d : Dir) (c y : Nat) (h : y ∈ g.adj d c) : y ∈ g.nodes := by
  cases d with
  | inb => exact (Digraph.mem_inAdj.1 h).1
  | outb => exact (Digraph.mem_outAdj.1 h).1
  | both =>
    rcases List.mem_append.1 h with h | h
    · exact (Digraph.mem_outAdj.1 h).1
    · exact (Digraph.mem_inAdj.1 h).1

theorem Digraph.adj_length_le (g : Digraph) (d : Dir) (c : Nat) : (g.adj d c).length ≤ 2 * g.nodes.length := by
  have h1 : (g.outAdj c).length ≤ g.nodes.length := List.length_filter_le _ _
  have h2 : (g.inAdj c).length ≤ g.nodes.length := List.length_filter_le _ _
  cases d with
  | inb => show (g.inAdj c).length ≤ _; omega
  | outb => show (g.outAdj c).length ≤ _; omega
  | both => show (g.outAdj c ++ g.inAdj c).length ≤ _; rw [List.length_append]; omega

/-- the spec's reach set is the reachability relation (no assumption on `g`) -/
theorem Digraph.mem_reachSet (g : Digraph) (d : Dir) (u x : Nat) :
    x ∈ g.reachSet d u ↔ Reach (g.adj d) u x :=
  bfs_correct (g.adj d) g.nodes (g.adj_sub_nodes d) _ (by omega) u x

/-! ### the SCC certificate checker is sound -/

theorem nodupB_iff (l : List Nat) : nodupB l = true ↔ l.Nodup := by
  induction l with
  | nil => simp [nodupB]
  | cons x xs ih => simp [nodupB, ih]

theorem compIndexOf_cons (C : List Nat) (rest : List (List Nat)) (x : Nat) :
    compIndexOf (C :: rest) x = if x ∈ C then some 0 else (compIndexOf rest x).map (· + 1) := by
  unfold compIndexOf; rw [List.findIdx?_cons]; simp

/-- in a disjoint family, the index of the component containing `u` is the index `compIndexOf` finds -/
theorem compIndexOf_unique {comps : List (List Nat)} (hn : comps.flatten.Nodup) {i : Nat} {A : List Nat} {u : Nat}
    (hA : comps[i]? = some A) (hu : u ∈ A) : compIndexOf comps u = some i := by
  induction comps generalizing i with
  | nil => simp at hA
  | cons C rest ih =>
    rw [compIndexOf_cons]
    rw [List.flatten_cons, List.nodup_append] at hn
    cases i with
    | zero =>
      simp at hA; subst hA
      simp [hu]
    | succ j =>
      simp at hA
      have hur : u ∈ rest.flatten := List.mem_flatten.2 ⟨A, List.mem_of_getElem? hA, hu⟩
      have huC : ¬ u ∈ C := fun h => hn.2.2 u h u hur rfl
      rw [if_neg huC]
      simp [ih hn.2.1 hA]

theorem compIndexOf_some_of_mem {comps : List (List Nat)} {u : Nat} (h : u ∈ comps.flatten) :
    ∃ i, compIndexOf comps u = some i := by
  induction comps with
  | nil => simp at h
  | cons C rest ih =>
    rw [compIndexOf_cons]
    by_cases hc : u ∈ C
    · exact ⟨0, by simp [hc]⟩
    · have : u ∈ rest.flatten := by
        rw [List.flatten_cons, List.mem_append] at h
        rcases h with h | h
        · exact absurd h hc
        · exact h
      obtain ⟨i, hi⟩ := ih this
      exact ⟨i + 1, by simp [hc, hi]⟩

theorem compIndexOf_get {comps : List (List Nat)} {u i : Nat} (h : compIndexOf comps u = some i) :
    ∃ A, comps[i]? = some A ∧ u ∈ A := by
  induction comps generalizing i with
  | nil => simp [compIndexOf] at h
  | cons C rest ih =>
    rw [compIndexOf_cons] at h
    by_cases hc : u ∈ C
    · rw [if_pos hc] at h; cases h; exact ⟨C, by simp, hc⟩
    · rw [if_neg hc] at h
      cases hr : compIndexOf rest u with
      | none => simp [hr] at h
      | some j =>
        simp [hr] at h; subst h
        obtain ⟨A, hA, hu⟩ := ih hr
        exact ⟨A, by simpa using hA, hu⟩

section Cert
variable {g : Digraph} {comps : List (List Nat)}

theorem checkOrder_edge (ho : checkOrder g comps = true) {u v : Nat} (he : g.hasEdge u v = true) :
    ∃ a b, compIndexOf comps u = some a ∧ compIndexOf comps v = some b ∧ b ≤ a := by
  unfold checkOrder at ho
  rw [List.all_eq_true] at ho
  have hm : (u, v) ∈ g.edges := by simpa [Digraph.hasEdge] using he
  have := ho (u, v) hm
  simp only at this
  cases ha : compIndexOf comps u with
  | none => simp [ha] at this
  | some a =>
    cases hb : compIndexOf comps v with
    | none => simp [ha, hb] at this
    | some b =>
      simp [ha, hb] at this
      exact ⟨a, b, rfl, rfl, this⟩

/-- component indices never increase along a path (edges go to earlier-emitted components) -/
theorem reach_index_le (ho : checkOrder g comps = true) {u v : Nat} (hr : Reach g.outAdj u v) {i : Nat}
    (hi : compIndexOf comps u = some i) : ∃ j, compIndexOf comps v = some j ∧ j ≤ i := by
  induction hr with
  | refl => exact ⟨i, hi, Nat.le_refl _⟩
  | @tail x w _ hm ih =>
    obtain ⟨j, hj, hji⟩ := ih
    obtain ⟨a, b, ha, hb, hba⟩ := checkOrder_edge ho (Digraph.mem_outAdj.1 hm).2
    rw [hj] at ha; cases ha
    exact ⟨b, hb, by omega⟩

theorem checkStrong_spec {C : List Nat} (hs : checkStrong g C = true) :
    ∃ r, r ∈ C ∧ ∀ v, v ∈ C → Reach g.outAdj r v ∧ Reach g.outAdj v r := by
  cases C with
  | nil => simp [checkStrong] at hs
  | cons r t =>
    refine ⟨r, by simp, fun v hv => ?_⟩
    simp only [checkStrong, List.all_eq_true, Bool.and_eq_true] at hs
    have := hs v hv
    exact ⟨(g.mem_reachSet .outb r v).1 (by simpa using this.1), (g.mem_reachSet .outb v r).1 (by simpa using this.2)⟩

/-- **soundness of the certificate checker**: an accepted decomposition is the SCC decomposition and its
condensation is acyclic -/
theorem checkSCC_sound (h : checkSCC g comps = true) : IsSCC g comps := by
  simp only [checkSCC, Bool.and_eq_true] at h
  obtain ⟨⟨hp, hs⟩, ho⟩ := h
  simp only [checkPartition, Bool.and_eq_true] at hp
  obtain ⟨⟨⟨hnd, hc1⟩, hc2⟩, hne⟩ := hp
  have hnodup : comps.flatten.Nodup := (nodupB_iff _).1 hnd
  rw [List.all_eq_true] at hc1 hc2 hne hs
  have hnonempty : ∀ C, C ∈ comps → C ≠ [] := by
    intro C hC h0; subst h0; have := hne [] hC; simp at this
  -- every member of a listed component sits at that component's index
  have hidx : ∀ A, A ∈ comps → ∃ i, comps[i]? = some A ∧ ∀ u, u ∈ A → compIndexOf comps u = some i := by
    intro A hA
    obtain ⟨i, hi⟩ := List.getElem?_of_mem hA
    exact ⟨i, hi, fun u hu => compIndexOf_unique hnodup hi hu⟩
  refine ⟨?_, hnodup, hnonempty, ?_, ?_⟩
  · intro v
    exact ⟨fun hv => by simpa using hc1 v hv, fun hv => by simpa using hc2 v hv⟩
  · intro u v hu hv
    constructor
    · rintro ⟨C, hC, huC, hvC⟩
      obtain ⟨r, _, hr⟩ := checkStrong_spec (hs C hC)
      exact ⟨(hr u huC).2.trans (hr v hvC).1, (hr v hvC).2.trans (hr u huC).1⟩
    · rintro ⟨huv, hvu⟩
      have huf : u ∈ comps.flatten := by simpa using hc1 u hu
      obtain ⟨A, hA, huA⟩ := List.mem_flatten.1 huf
      obtain ⟨i, hi, hall⟩ := hidx A hA
      have hiu := hall u huA
      obtain ⟨j, hj, hji⟩ := reach_index_le ho huv hiu
      obtain ⟨i', hi', hij⟩ := reach_index_le ho hvu hj
      rw [hiu] at hi'; cases hi'
      have : j = i := by omega
      subst this
      obtain ⟨B, hB, hvB⟩ := compIndexOf_get hj
      rw [hi] at hB; cases hB
      exact ⟨A, hA, huA, hvB⟩
  · -- acyclic: every condensation edge strictly decreases the index
    have hedge : ∀ A B : List Nat, (A ∈ comps ∧ B ∈ comps ∧ CondEdge g A B) → ∀ i : Nat, comps[i]? = some A →
        ∃ j : Nat, comps[j]? = some B ∧ j < i := by
      rintro A B ⟨hA, hB, hne', u, v, hu, hv, he⟩ i hi
      obtain ⟨a, b, ha, hb, hba⟩ := checkOrder_edge ho he
      have hai : a = i := Option.some.inj (ha.symm.trans (compIndexOf_unique hnodup hi hu))
      obtain ⟨j, hj, _⟩ := hidx B hB
      have hbj : b = j := Option.some.inj (hb.symm.trans (compIndexOf_unique hnodup hj hv))
      subst hai; subst hbj
      refine ⟨b, hj, ?_⟩
      rcases Nat.lt_or_ge b a with h | h
      · exact h
      · have : b = a := by omega
        subst this; rw [hi] at hj; cases hj; exact absurd rfl hne'
    have htrans : ∀ A B : List Nat, TransGen (fun A B => A ∈ comps ∧ B ∈ comps ∧ CondEdge g A B) A B →
        ∀ i : Nat, comps[i]? = some A → ∃ j : Nat, comps[j]? = some B ∧ j < i := by
      intro A B ht
      induction ht with
      | single h => exact hedge _ _ h
      | tail _ h ih =>
        intro i hi
        obtain ⟨j, hj, hji⟩ := ih i hi
        obtain ⟨k, hk, hkj⟩ := hedge _ _ h j hj
        exact ⟨k, hk, by omega⟩
    intro C hC ht
    obtain ⟨i, hi, hall⟩ := hidx C hC
    obtain ⟨j, hj, hji⟩ := htrans C C ht i hi
    cases hCe : C with
    | nil => exact hnonempty C hC hCe
    | cons u t =>
      have hu : u ∈ C := by simp [hCe]
      have h1 := compIndexOf_unique hnodup hi hu
      have h2 := compIndexOf_unique hnodup hj hu
      rw [h1] at h2; cases h2; omega

end Cert

/-! ### ComponentReachable: the bidirectional BFS decides reachability -/

section Bidir
variable (fwd bwd : Nat → List Nat)

theorem expand_spec (other as q set : List Nat) :
    (∀ x, x ∈ set → x ∈ (expand other as q set).2.1) ∧
    (∀ x, x ∈ q → x ∈ (expand other as q set).1) ∧
    (∀ x, x ∈ (expand other as q set).2.1 → x ∈ set ∨ (x ∈ as ∧ x ∈ (expand other as q set).1)) ∧
    (∀ x, x ∈ (expand other as q set).1 → x ∈ q ∨ (x ∈ as ∧ x ∈ (expand other as q set).2.1)) ∧
    (set.Nodup → (expand other as q set).2.1.Nodup) ∧
    (expand other as q set).1.length + set.length = q.length + (expand other as q set).2.1.length ∧
    ((expand other as q set).2.2 = true → ∃ a, a ∈ as ∧ a ∈ other) ∧
    ((expand other as q set).2.2 = false →
      (∀ a, a ∈ as → a ∈ (expand other as q set).2.1) ∧
      (∀ x, x ∈ (expand other as q set).2.1 → x ∈ set ∨ x ∉ other)) := by
  induction as generalizing q set with
  | nil => simp [expand]; intro x hx; exact Or.inl hx
  | cons a as ih =>
    unfold expand
    by_cases h : a ∈ set
    · have hc : set.contains a = true := by simpa using h
      simp only [hc, if_true]
      have ⟨h1, h2, h3, h4, h5, h6, h7, h8⟩ := ih q set
      refine ⟨h1, h2, ?_, ?_, h5, h6, ?_, ?_⟩
      · intro x hx
        rcases h3 x hx with h' | ⟨h', h''⟩
        · exact Or.inl h'
        · exact Or.inr ⟨List.mem_cons_of_mem _ h', h''⟩
      · intro x hx
        rcases h4 x hx with h' | ⟨h', h''⟩
        · exact Or.inl h'
        · exact Or.inr ⟨List.mem_cons_of_mem _ h', h''⟩
      · intro ht
        obtain ⟨b, hb, hb'⟩ := h7 ht
        exact ⟨b, List.mem_cons_of_mem _ hb, hb'⟩
      · intro hf
        have ⟨g1, g2⟩ := h8 hf
        refine ⟨?_, g2⟩
        intro b hb
        rcases List.mem_cons.1 hb with rfl | hb
        · exact h1 _ h
        · exact g1 b hb
    · have hc : set.contains a = false := by simpa using h
      simp only [hc, Bool.false_eq_true, if_false]
      by_cases ho : a ∈ other
      · have hoc : other.contains a = true := by simpa using ho
        simp only [hoc, if_true]
        refine ⟨fun x hx => List.mem_cons_of_mem _ hx, fun x hx => by simp [hx], ?_, ?_, ?_, ?_, ?_, ?_⟩
        · intro x hx
          rcases List.mem_cons.1 hx with rfl | hx
          · exact Or.inr ⟨by simp, by simp⟩
          · exact Or.inl hx
        · intro x hx
          rcases List.mem_append.1 hx with hx | hx
          · exact Or.inl hx
          · simp at hx; subst hx; exact Or.inr ⟨by simp, by simp⟩
        · intro hn; exact List.nodup_cons.2 ⟨h, hn⟩
        · simp; omega
        · intro _; exact ⟨a, by simp, ho⟩
        · intro hf; simp at hf
      · have hoc : other.contains a = false := by simpa using ho
        simp only [hoc, Bool.false_eq_true, if_false]
        have ⟨h1, h2, h3, h4, h5, h6, h7, h8⟩ := ih (q ++ [a]) (a :: set)
        refine ⟨fun x hx => h1 x (List.mem_cons_of_mem _ hx), fun x hx => h2 x (by simp [hx]), ?_, ?_, ?_, ?_, ?_, ?_⟩
        · intro x hx
          rcases h3 x hx with h' | ⟨h', h''⟩
          · rcases List.mem_cons.1 h' with rfl | h'
            · exact Or.inr ⟨by simp, h2 _ (by simp)⟩
            · exact Or.inl h'
          · exact Or.inr ⟨List.mem_cons_of_mem _ h', h''⟩
        · intro x hx
          rcases h4 x hx with h' | ⟨h', h''⟩
          · rcases List.mem_append.1 h' with h' | h'
            · exact Or.inl h'
            · simp at h'; subst h'; exact Or.inr ⟨by simp, h1 _ (by simp)⟩
          · exact Or.inr ⟨List.mem_cons_of_mem _ h', h''⟩
        · intro hn; exact h5 (List.nodup_cons.2 ⟨h, hn⟩)
        · simp at h6 ⊢; omega
        · intro ht
          obtain ⟨b, hb, hb'⟩ := h7 ht
          exact ⟨b, List.mem_cons_of_mem _ hb, hb'⟩
        · intro hf
          have ⟨g1, g2⟩ := h8 hf
          refine ⟨?_, ?_⟩
          · intro b hb
            rcases List.mem_cons.1 hb with rfl | hb
            · exact h1 _ (by simp)
            · exact g1 b hb
          · intro x hx
            rcases g2 x hx with h' | h'
            · rcases List.mem_cons.1 h' with rfl | h'
              · exact Or.inr ho
              · exact Or.inl h'
            · exact Or.inr h'

structure BiInv (s t : Nat) (univ : List Nat) (st : BState) : Prop where
  osound : ∀ x, x ∈ st.outSet → Reach fwd s x
  isound : ∀ x, x ∈ st.inSet → Reach fwd x t
  disj : ∀ x, x ∈ st.outSet → x ∉ st.inSet
  qo : ∀ x, x ∈ st.outQ → x ∈ st.outSet
  qi : ∀ x, x ∈ st.inQ → x ∈ st.inSet
  iclosed : ∀ x, x ∈ st.inSet → x ∈ st.inQ ∨ ∀ y, y ∈ bwd x → y ∈ st.inSet
  smem : s ∈ st.outSet
  tmem : t ∈ st.inSet
  ond : st.outSet.Nodup
  ind : st.inSet.Nodup
  osub : ∀ x, x ∈ st.outSet → x ∈ univ
  isub : ∀ x, x ∈ st.inSet → x ∈ univ

def biMeasure (univ : List Nat) (st : BState) : Nat :=
  (univ.length - st.outSet.length) + st.outQ.length + (univ.length - st.inSet.length) + st.inQ.length

theorem bidirLoop_spec (hconv : ∀ v w, w ∈ fwd v ↔ v ∈ bwd w) (univ : List Nat)
    (hf : ∀ c y, y ∈ fwd c → y ∈ univ) (hb : ∀ c y, y ∈ bwd c → y ∈ univ) (s t : Nat)
    (fuel : Nat) (st : BState) (hi : BiInv fwd bwd s t univ st) (hm : biMeasure univ st < fuel) :
    ∃ b, bidirLoop fwd bwd fuel st = some b ∧ (b = true ↔ Reach fwd s t) := by
  induction fuel generalizing st with
  | zero => omega
  | succ fuel ih =>
    obtain ⟨outQ, inQ, outSet, inSet, visited⟩ := st
    have ho := List.Nodup.length_le_of_subset hi.ond hi.osub
    have hin := List.Nodup.length_le_of_subset hi.ind hi.isub
    simp only at ho hin
    unfold bidirLoop
    by_cases hc : 0 < outQ.length ∧ outQ.length ≤ inQ.length
    · simp only [hc, and_self, if_true]
      cases outQ with
      | nil => simp at hc
      | cons next q =>
        simp only
        have hnext : Reach fwd s next := hi.osound next (hi.qo next (by simp))
        by_cases hv : visited.contains next = true
        · simp only [hv, if_true]
          apply ih
          · exact ⟨hi.osound, hi.isound, hi.disj, fun x hx => hi.qo x (by simp [hx]), hi.qi, hi.iclosed,
              hi.smem, hi.tmem, hi.ond, hi.ind, hi.osub, hi.isub⟩
          · simp only [biMeasure] at hm ⊢; simp at hm; omega
        · simp only [hv, if_false]
          have ⟨h1, h2, h3, h4, h5, h6, h7, h8⟩ := expand_spec inSet (fwd next) q outSet
          cases hr : (expand inSet (fwd next) q outSet).2.2 with
          | true =>
            simp only [if_true]
            refine ⟨true, rfl, fun _ => ?_, fun _ => rfl⟩
            obtain ⟨a, ha, hai⟩ := h7 hr
            exact (Reach.tail hnext ha).trans (hi.isound a hai)
          | false =>
            simp only [Bool.false_eq_true, if_false]
            have ⟨g1, g2⟩ := h8 hr
            have hsub' : ∀ x, x ∈ (expand inSet (fwd next) q outSet).2.1 → x ∈ univ := by
              intro x hx
              rcases h3 x hx with h | ⟨h, _⟩
              · exact hi.osub x h
              · exact hf next x h
            have hlen := List.Nodup.length_le_of_subset (h5 hi.ond) hsub'
            apply ih
            · refine ⟨?_, hi.isound, ?_, ?_, hi.qi, hi.iclosed, h1 s hi.smem, hi.tmem, h5 hi.ond, hi.ind, hsub', hi.isub⟩
              · intro x hx
                rcases h3 x hx with h | ⟨h, _⟩
                · exact hi.osound x h
                · exact Reach.tail hnext h
              · intro x hx
                rcases g2 x hx with h | h
                · exact hi.disj x h
                · exact h
              · intro x hx
                rcases h4 x hx with h | ⟨_, h⟩
                · exact h1 x (hi.qo x (by simp [h]))
                · exact h
            · simp only [biMeasure] at hm ⊢; simp at hm; omega
    · simp only [hc, if_false]
      cases inQ with
      | nil =>
        simp only
        refine ⟨false, rfl, fun h => (by cases h), fun hr => ?_⟩
        exfalso
        -- the inbound side is exhausted: inSet is closed under predecessors, so it holds every ancestor of t
        have hcl : ∀ x, Reach bwd t x → x ∈ inSet := by
          intro x hx
          refine hx.closed (P := fun x => x ∈ inSet) hi.tmem ?_
          intro x hx y hy
          rcases hi.iclosed x hx with h | h
          · simp at h
          · exact h y hy
        exact hi.disj s hi.smem (hcl s (hr.reverse hconv))
      | cons next q =>
        simp only
        have hnext : Reach fwd next t := hi.isound next (hi.qi next (by simp))
        have ⟨h1, h2, h3, h4, h5, h6, h7, h8⟩ := expand_spec outSet (bwd next) q inSet
        cases hr : (expand outSet (bwd next) q inSet).2.2 with
        | true =>
          simp only [if_true]
          refine ⟨true, rfl, fun _ => ?_, fun _ => rfl⟩
          obtain ⟨a, ha, hao⟩ := h7 hr
          exact (hi.osound a hao).trans (Reach.head ((hconv a next).2 ha) hnext)
        | false =>
          simp only [Bool.false_eq_true, if_false]
          have ⟨g1, g2⟩ := h8 hr
          have hsub' : ∀ x, x ∈ (expand outSet (bwd next) q inSet).2.1 → x ∈ univ := by
            intro x hx
            rcases h3 x hx with h | ⟨h, _⟩
            · exact hi.isub x h
            · exact hb next x h
          have hlen := List.Nodup.length_le_of_subset (h5 hi.ind) hsub'
          apply ih
          · refine ⟨hi.osound, ?_, ?_, hi.qo, ?_, ?_, hi.smem, h1 t hi.tmem, hi.ond, h5 hi.ind, hi.osub, hsub'⟩
            · intro x hx
              rcases h3 x hx with h | ⟨h, _⟩
              · exact hi.isound x h
              · exact Reach.head ((hconv x next).2 h) hnext
            · intro x hx hx'
              rcases g2 x hx' with h | h
              · exact hi.disj x hx h
              · exact h hx
            · intro x hx
              rcases h4 x hx with h | ⟨_, h⟩
              · exact h1 x (hi.qi x (by simp [h]))
              · exact h
            · intro x hx
              rcases h3 x hx with h | ⟨_, h⟩
              · rcases hi.iclosed x h with h' | h'
                · rcases List.mem_cons.1 h' with rfl | h'
                  · exact Or.inr (fun y hy => g1 y hy)
                  · exact Or.inl (h2 x h')
                · exact Or.inr (fun y hy => h1 y (h' y hy))
              · exact Or.inl h
          · simp only [biMeasure] at hm ⊢; simp at hm; omega

/-- **`ComponentReachable` is correct and terminates**: for adjacency functions that are converses of each other
over a finite universe, the bidirectional search returns `true` exactly when `t` is reachable from `s`. -/
theorem bidir_correct (hconv : ∀ v w, w ∈ fwd v ↔ v ∈ bwd w) (univ : List Nat)
    (hf : ∀ c y, y ∈ fwd c → y ∈ univ) (hb : ∀ c y, y ∈ bwd c → y ∈ univ) (s t : Nat) (fuel : Nat)
    (hfuel : 2 * univ.length + 5 ≤ fuel) :
    ∃ b, bidir fwd bwd fuel s t = some b ∧ (b = true ↔ Reach fwd s t) := by
  unfold bidir
  by_cases hst : s = t
  · subst hst; simp; exact Reach.refl _
  · simp only [hst, if_false]
    apply bidirLoop_spec fwd bwd hconv (s :: t :: univ)
      (fun c y h => by simp [hf c y h]) (fun c y h => by simp [hb c y h]) s t
    · refine ⟨?_, ?_, ?_, by simp, by simp, ?_, by simp, by simp, by simp, by simp, by simp, by simp⟩
      · intro x hx; simp at hx; subst hx; exact Reach.refl _
      · intro x hx; simp at hx; subst hx; exact Reach.refl _
      · intro x hx hx'; simp at hx hx'; exact hst (hx.symm.trans hx')
      · intro x hx; simp at hx; subst hx; exact Or.inl (by simp)
    · simp [biMeasure]; omega

end Bidir

theorem Digraph.WF.edge_nodes {g : Digraph} (hw : g.WF) {u v : Nat} (he : g.hasEdge u v = true) :
    u ∈ g.nodes ∧ v ∈ g.nodes := hw.2 u v (by simpa [Digraph.hasEdge] using he)

/-- inbound adjacency is the converse of outbound adjacency (and `both` is symmetric) -/
theorem Dir.reverse_conv {g : Digraph} (hw : g.WF) (d : Dir) (v w : Nat) :
    w ∈ g.adj d v ↔ v ∈ g.adj d.reverse w := by
  have hio : ∀ a b, a ∈ g.inAdj b ↔ b ∈ g.outAdj a := by
    intro a b
    rw [Digraph.mem_inAdj, Digraph.mem_outAdj]
    exact ⟨fun h => ⟨(hw.edge_nodes h.2).2, h.2⟩, fun h => ⟨(hw.edge_nodes h.2).1, h.2⟩⟩
  cases d with
  | inb => exact hio w v
  | outb => exact (hio v w).symm
  | both =>
    show w ∈ g.outAdj v ++ g.inAdj v ↔ v ∈ g.outAdj w ++ g.inAdj w
    rw [List.mem_append, List.mem_append, hio w v, hio v w]
    exact Or.comm

theorem Digraph.wf_empty : Digraph.empty.WF := by
  refine ⟨by simp [Digraph.empty], ?_⟩
  intro u v h; simp [Digraph.empty] at h

theorem Digraph.nodes_addNode (g : Digraph) (v x : Nat) : x ∈ (g.addNode v).nodes ↔ x ∈ g.nodes ∨ x = v := by
  unfold Digraph.addNode
  by_cases h : g.nodes.contains v = true
  · simp only [h, if_true]
    exact ⟨Or.inl, fun h' => h'.elim id (fun e => e ▸ (by simpa using h))⟩
  · have hv : v ∉ g.nodes := by simpa using h
    simp [hv]

theorem Digraph.edges_addNode (g : Digraph) (v : Nat) : (g.addNode v).edges = g.edges := by
  unfold Digraph.addNode; split <;> rfl

theorem Digraph.WF.addNode {g : Digraph} (hw : g.WF) (v : Nat) : (g.addNode v).WF := by
  refine ⟨?_, ?_⟩
  · unfold Digraph.addNode
    by_cases h : g.nodes.contains v = true
    · simp only [h, if_true]; exact hw.1
    · simp only [h]
      have hv : v ∉ g.nodes := by simpa using h
      show (g.nodes ++ [v]).Nodup
      rw [List.nodup_append]
      exact ⟨hw.1, by simp, fun a ha b hb => by simp at hb; subst hb; exact fun e => hv (e ▸ ha)⟩
  · intro a b hab
    rw [Digraph.edges_addNode] at hab
    have := hw.2 a b hab
    exact ⟨(g.nodes_addNode v a).2 (Or.inl this.1), (g.nodes_addNode v b).2 (Or.inl this.2)⟩

theorem Digraph.WF.addEdge {g : Digraph} (hw : g.WF) (u v : Nat) : (g.addEdge u v).WF := by
  have h2 := (hw.addNode u).addNode v
  refine ⟨h2.1, ?_⟩
  intro a b hab
  have hab' : (a, b) ∈ ((g.addNode u).addNode v).edges ++ [(u, v)] := hab
  rcases List.mem_append.1 hab' with h | h
  · exact h2.2 a b h
  · simp at h
    obtain ⟨rfl, rfl⟩ := h
    exact ⟨(Digraph.nodes_addNode _ _ _).2 (Or.inl ((Digraph.nodes_addNode _ _ _).2 (Or.inr rfl))),
           (Digraph.nodes_addNode _ _ _).2 (Or.inr rfl)⟩

/-! ### ReachabilityCache level: both SIEVE caches stay exact under the repaired DFS -/

/-- every binding a SIEVE cache can return is the exact reach set of its key -/
def SieveExact (adjf : Nat → List Nat) (s : Sieve) : Prop := ∃ m, s.Inv ∧ s.Sub m ∧ CacheExact adjf m

/-- representation relation for one direction that also carries the other direction's cache untouched -/
def dirRepF (adjI adjO : Nat → List Nat) : Dir → (Sieve × Sieve) → Ideal → Prop
  | .inb, s, m => (s.1.Inv ∧ s.1.Sub m) ∧ SieveExact adjO s.2
  | .outb, s, m => (s.2.Inv ∧ s.2.Sub m) ∧ SieveExact adjI s.1
  | .both, s, _ => SieveExact adjI s.1 ∧ SieveExact adjO s.2

theorem dirCache_lawfulF (adjI adjO : Nat → List Nat) (d : Dir) : Lawful (dirCache d) (dirRepF adjI adjO d) := by
  have hl := dirCache_lawful d
  cases d with
  | inb =>
    exact ⟨fun s m k h => ⟨hl.get_rep s m k h.1, h.2⟩, fun s m k v h hv => hl.get_hit s m k v h.1 hv,
           fun s m k v h => ⟨hl.put_rep s m k v h.1, h.2⟩⟩
  | outb =>
    exact ⟨fun s m k h => ⟨hl.get_rep s m k h.1, h.2⟩, fun s m k v h hv => hl.get_hit s m k v h.1 hv,
           fun s m k v h => ⟨hl.put_rep s m k v h.1, h.2⟩⟩
  | both =>
    exact ⟨fun s m k h => h, fun s m k v h hv => (by cases hv), fun s m k v h => h⟩

structure RCInv (rc : RC) : Prop where
  inE : SieveExact (rc.cg.dg.adj .inb) rc.inC
  outE : SieveExact (rc.cg.dg.adj .outb) rc.outC

theorem cacheExact_nil (adjf : Nat → List Nat) : CacheExact adjf [] := by
  intro k v h; simp [Dawgs.C16.Ideal.get] at h

theorem sieveExact_new (adjf : Nat → List Nat) (c : Int) : SieveExact adjf (Sieve.new c) :=
  ⟨[], Sieve.inv_new c, Sieve.sub_new c, cacheExact_nil adjf⟩

theorem RC.componentReach_terminates (rc : RC) (c : Nat) (d : Dir) : (rc.componentReach c d).isSome = true := by
  unfold RC.componentReach
  have := reachDFS_terminates (dirCache d) (rc.cg.dg.adj d) rc.cg.dg.nodes rc.fixed
    (rc.cg.dg.adj_sub_nodes d) (rc.cg.dg.adj_length_le d) (rc.inC, rc.outC) c
  unfold RC.k
  cases h : reachDFS (dirCache d) (rc.cg.dg.adj d) rc.fixed (dfsFuel rc.cg.dg.nodes.length) (rc.inC, rc.outC) c with
  | none => rw [h] at this; simp at this
  | some p => simp

/-- one `componentReachDFS` call of the repaired cache: returns, answers exactly, keeps both caches exact -/
theorem RC.componentReach_fixed (rc : RC) (hf : rc.fixed = true) (hi : RCInv rc) (c : Nat) (d : Dir) :
    ∃ rc' r, rc.componentReach c d = some (rc', r) ∧ ExactBits (rc.cg.dg.adj d) c r ∧ RCInv rc' ∧
      rc'.cg = rc.cg ∧ rc'.fixed = true := by
  have hterm := rc.componentReach_terminates c d
  unfold RC.componentReach at hterm ⊢
  cases h : reachDFS (dirCache d) (rc.cg.dg.adj d) rc.fixed (dfsFuel rc.k) (rc.inC, rc.outC) c with
  | none => rw [h] at hterm; simp at hterm
  | some p =>
    obtain ⟨cs, r⟩ := p
    refine ⟨{ rc with inC := cs.1, outC := cs.2 }, r, rfl, ?_⟩
    rw [hf] at h
    have hl := dirCache_lawfulF (rc.cg.dg.adj .inb) (rc.cg.dg.adj .outb) d
    obtain ⟨mi, hi1, hi2, hi3⟩ := hi.inE
    obtain ⟨mo, ho1, ho2, ho3⟩ := hi.outE
    cases d with
    | inb =>
      have := reachDFS_fixed_exact (dirCache .inb) _ (rc.cg.dg.adj .inb) hl _ (rc.inC, rc.outC) mi
        ⟨⟨hi1, hi2⟩, hi.outE⟩ hi3 c cs r h
      obtain ⟨hex, m', hrep, hm'⟩ := this
      exact ⟨hex, ⟨⟨m', hrep.1.1, hrep.1.2, hm'⟩, hrep.2⟩, rfl, hf⟩
    | outb =>
      have := reachDFS_fixed_exact (dirCache .outb) _ (rc.cg.dg.adj .outb) hl _ (rc.inC, rc.outC) mo
        ⟨⟨ho1, ho2⟩, hi.inE⟩ ho3 c cs r h
      obtain ⟨hex, m', hrep, hm'⟩ := this
      exact ⟨hex, ⟨hrep.2, ⟨m', hrep.1.1, hrep.1.2, hm'⟩⟩, rfl, hf⟩
    | both =>
      have := reachDFS_fixed_exact (dirCache .both) _ (rc.cg.dg.adj .both) hl _ (rc.inC, rc.outC) []
        ⟨hi.inE, hi.outE⟩ (cacheExact_nil _) c cs r h
      obtain ⟨hex, m', hrep, hm'⟩ := this
      exact ⟨hex, ⟨hrep.1, hrep.2⟩, rfl, hf⟩

/-- component-level query history: a list of `componentReachDFS(c, d)` calls; returns the answers -/
def RC.runQueries : RC → List (Nat × Dir) → Option (RC × List Nat)
  | rc, [] => some (rc, [])
  | rc, (c, d) :: qs =>
    match rc.componentReach c d with
    | none => none
    | some (rc', r) =>
      match RC.runQueries rc' qs with
      | none => none
      | some (rc'', rs) => some (rc'', r :: rs)

theorem RC.runQueries_fixed (rc : RC) (hf : rc.fixed = true) (hi : RCInv rc) (qs : List (Nat × Dir)) :
    ∃ rc' rs, rc.runQueries qs = some (rc', rs) ∧ RCInv rc' ∧ rc'.cg = rc.cg ∧ rc'.fixed = true ∧
      rs.length = qs.length ∧
      ∀ i (h : i < qs.length) (h' : i < rs.length), ExactBits (rc.cg.dg.adj qs[i].2) qs[i].1 rs[i] := by
  induction qs generalizing rc with
  | nil => exact ⟨rc, [], rfl, hi, rfl, hf, rfl, fun i h => by simp at h⟩
  | cons q qs ih =>
    obtain ⟨c, d⟩ := q
    obtain ⟨rc1, r, h1, hex, hi1, hcg1, hf1⟩ := rc.componentReach_fixed hf hi c d
    obtain ⟨rc2, rs, h2, hi2, hcg2, hf2, hlen, hall⟩ := ih rc1 hf1 hi1
    refine ⟨rc2, r :: rs, ?_, hi2, hcg2.trans hcg1, hf2, by simp [hlen], ?_⟩
    · simp [RC.runQueries, h1, h2]
    · intro i h h'
      cases i with
      | zero => simpa using hex
      | succ j =>
        simp only [List.getElem_cons_succ]
        have := hall j (by simpa using h) (by simpa using h')
        rw [hcg1] at this
        exact this

/-- bit sets with the same members are equal -/
theorem bits_ext {a b : Nat} (h : ∀ x, hasBit a x = hasBit b x) : a = b := Nat.eq_of_testBit_eq h

theorem ExactBits.unique {adjf : Nat → List Nat} {c a b : Nat} (ha : ExactBits adjf c a) (hb : ExactBits adjf c b) :
    a = b := by
  apply bits_ext
  intro x
  have h1 := ha x
  have h2 := hb x
  cases h : hasBit a x <;> cases h' : hasBit b x <;> simp_all

/-! ### the transcribed Tarjan terminates within its fuel (every digraph) -/

section TarjanTerm
variable (g : Digraph)

def cwork (c : Cur) : Nat := (c.branches.length - c.branchIdx) + 1

def cworkSum : List Cur → Nat
  | [] => 0
  | c :: cs => cwork c + cworkSum cs

/-- work still to be started: every undiscovered node will contribute one cursor -/
def usum (disc : List (Nat × Nat)) : List Nat → Nat
  | [] => 0
  | v :: vs => (if (lookup disc v).isNone then (g.outAdj v).length + 1 else 0) + usum disc vs

def tmu (st : TState) : Nat := cworkSum st.dfs + usum g st.disc g.nodes

theorem lookup_cons (k v : Nat) (m : List (Nat × Nat)) (x : Nat) :
    lookup ((k, v) :: m) x = if k = x then some v else lookup m x := rfl

theorem usum_mono (disc : List (Nat × Nat)) (nb i : Nat) (l : List Nat) :
    usum g ((nb, i) :: disc) l ≤ usum g disc l := by
  induction l with
  | nil => simp [usum]
  | cons v vs ih =>
    simp only [usum, lookup_cons]
    by_cases h : nb = v
    · subst h; simp; omega
    · simp [h]; omega

theorem usum_discover (disc : List (Nat × Nat)) (nb i : Nat) (l : List Nat) (hm : nb ∈ l)
    (hn : lookup disc nb = none) :
    usum g ((nb, i) :: disc) l + ((g.outAdj nb).length + 1) ≤ usum g disc l := by
  induction l with
  | nil => simp at hm
  | cons v vs ih =>
    simp only [usum, lookup_cons]
    by_cases h : nb = v
    · subst h
      have := usum_mono g disc nb i vs
      simp [hn]; omega
    · have hm' : nb ∈ vs := by
        rcases List.mem_cons.1 hm with h' | h'
        · exact absurd h' h
        · exact h'
      have := ih hm'
      simp [h]; omega

theorem usum_le (disc : List (Nat × Nat)) (l : List Nat) : usum g disc l ≤ l.length * (g.nodes.length + 1) := by
  induction l with
  | nil => simp [usum]
  | cons v vs ih =>
    have h1 : (g.outAdj v).length ≤ g.nodes.length := List.length_filter_le _ _
    simp only [usum, List.length_cons, Nat.add_mul, Nat.one_mul]
    split <;> omega

structure TInvT (st : TState) : Prop where
  br : ∀ c, c ∈ st.dfs → ∀ y, y ∈ c.branches → y ∈ g.nodes

theorem closeComponent_dfs (st : TState) (id : Nat) : (closeComponent st id).dfs = st.dfs := by
  unfold closeComponent; split <;> rfl

theorem closeComponent_disc (st : TState) (id : Nat) : (closeComponent st id).disc = st.disc := by
  unfold closeComponent; split <;> rfl

theorem tstep_decreases (st : TState) (hne : st.dfs ≠ []) (hi : TInvT g st) :
    TInvT g (tstep g st) ∧ tmu g (tstep g st) + 1 ≤ tmu g st := by
  obtain ⟨index, disc, low, onStack, stack, dfs, comps, n2c⟩ := st
  have hbr := hi.br
  simp only at hbr hne
  cases dfs with
  | nil => exact absurd rfl hne
  | cons cur rest =>
    have hcur := hbr cur (by simp)
    cases hn : cur.branches[cur.branchIdx]? with
    | some nb =>
      have hlt := getElem?_lt hn
      have hnb : nb ∈ g.nodes := hcur nb (getElem?_mem hn)
      cases hd : lookup disc nb with
      | none =>
        simp only [tstep, hn, hd, tarjanPush]
        refine ⟨⟨?_⟩, ?_⟩
        · intro c hc y hy
          simp at hc
          rcases hc with rfl | rfl | hc
          · exact (Digraph.mem_outAdj.1 hy).1
          · exact hcur y hy
          · exact hbr c (by simp [hc]) y hy
        · have := usum_discover g disc nb index g.nodes hnb hd
          simp only [tmu, cworkSum, cwork]; omega
      | some dn =>
        have key : ∀ low', TInvT g ⟨index, disc, low', onStack, stack, { cur with branchIdx := cur.branchIdx + 1 } :: rest, comps, n2c⟩ ∧
            tmu g ⟨index, disc, low', onStack, stack, { cur with branchIdx := cur.branchIdx + 1 } :: rest, comps, n2c⟩ + 1 ≤
              tmu g ⟨index, disc, low, onStack, stack, cur :: rest, comps, n2c⟩ := by
          intro low'
          refine ⟨⟨?_⟩, ?_⟩
          · intro c hc y hy
            simp at hc
            rcases hc with rfl | hc
            · exact hcur y hy
            · exact hbr c (by simp [hc]) y hy
          · simp only [tmu, cworkSum, cwork]; omega
        simp only [tstep, hn, hd]
        split
        · split
          · exact key _
          · exact key _
        · exact key _
    | none =>
      simp only [tstep, hn]
      refine ⟨⟨?_⟩, ?_⟩
      · intro c hc y hy
        rw [closeComponent_dfs] at hc
        exact hbr c (by simp at hc; simp [hc]) y hy
      · simp only [tmu, closeComponent_dfs, closeComponent_disc, cworkSum, cwork]; omega

theorem tloop_terminates (fuel : Nat) (st : TState) (hi : TInvT g st) (hf : tmu g st ≤ fuel) :
    (tloop g fuel st).isSome = true := by
  induction fuel generalizing st with
  | zero =>
    unfold tloop
    cases hd : st.dfs with
    | nil => simp
    | cons c cs =>
      have : tmu g st ≥ 1 := by simp only [tmu, hd, cworkSum, cwork]; omega
      omega
  | succ fuel ih =>
    unfold tloop
    cases hd : st.dfs with
    | nil => simp
    | cons c cs =>
      have hne : st.dfs ≠ [] := by rw [hd]; simp
      have := tstep_decreases g st hne hi
      simp only [List.isEmpty_cons]
      exact ih _ this.1 (by omega)

/-- invariant between the per-start loops: the dfs stack is empty -/
theorem tloop_dfs_empty (fuel : Nat) (st st' : TState) (h : tloop g fuel st = some st') : st'.dfs = [] := by
  induction fuel generalizing st with
  | zero =>
    unfold tloop at h
    cases hd : st.dfs with
    | nil => simp [hd] at h; subst h; exact hd
    | cons c cs => simp [hd] at h
  | succ fuel ih =>
    unfold tloop at h
    cases hd : st.dfs with
    | nil => simp [hd] at h; subst h; exact hd
    | cons c cs => simp [hd] at h; exact ih _ h

theorem tarjanFrom_terminates (st : TState) (start : Nat) (hs : start ∈ g.nodes) :
    (tarjanFrom g st start).isSome = true := by
  unfold tarjanFrom
  cases hd : lookup st.disc start with
  | some _ => simp
  | none =>
    simp only
    apply tloop_terminates
    · refine ⟨?_⟩
      intro c hc y hy
      simp [tarjanPush] at hc
      subst hc
      exact (Digraph.mem_outAdj.1 hy).1
    · have h1 := usum_discover g st.disc start st.index g.nodes hs hd
      have h2 := usum_le g st.disc g.nodes
      simp only [tmu, tarjanPush, cworkSum, cwork, tarjanFuel]; omega

theorem tarjanNodes_terminates (l : List Nat) (hl : ∀ v, v ∈ l → v ∈ g.nodes) (st : TState) :
    (tarjanNodes g l st).isSome = true := by
  induction l generalizing st with
  | nil => simp [tarjanNodes]
  | cons v vs ih =>
    unfold tarjanNodes
    have := tarjanFrom_terminates g st v (hl v (by simp))
    cases h : tarjanFrom g st v with
    | none => rw [h] at this; simp at this
    | some st' => exact ih (fun x hx => hl x (by simp [hx])) st'

theorem tarjan_isSome : (tarjan g).isSome = true := by
  unfold tarjan
  have := tarjanNodes_terminates g g.nodes (fun _ h => h) TState.init
  cases h : tarjanNodes g g.nodes TState.init with
  | none => rw [h] at this; simp at this
  | some st => simp

end TarjanTerm

end Dawgs.C15
