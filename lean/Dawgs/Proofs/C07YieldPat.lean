import Dawgs.Proofs.C07Yield2
set_option linter.unusedSimpArgs false
set_option linter.unusedVariables false
set_option linter.unusedSectionVars false
/-! `yield (treeOf pattern) = emit pattern`: properties, node / relationship patterns, pattern elements, pattern parts. -/
namespace Dawgs.C07
open Dawgs.Grammar Dawgs.C08

/-- token lists of the optional parts of a pattern element, as format.go writes them -/
def propToks (G : Nat) (p : Option Expr) : List String := match p with | some x => eExpr G x | none => []
def rangeToks (rg : Option (Option Int × Option Int)) : List String := match rg with | some r => emitRange r | none => []
def kindToks (ks : List String) : List String := match ks with | [] => [] | k :: more => [":", k] ++ (more.map (fun x => ["|", x])).flatten
def wOptProps (recW : Expr → Bool) (p : Option Expr) : Bool := match p with | some x => wProps' recW x | none => true

theorem ePatEls_node (G : Nat) (v : Option String) (ls : List String) (p : Option Expr) (rest : List PatEl) :
    ePatEls (G + 1) (.node v ls p :: rest) =
      (["("] ++ v.toList ++ (ls.map (fun k => [":", k])).flatten ++ propToks G p ++ [")"]) ++
      (match rest with | .node _ _ _ :: _ => [","] | _ => []) ++ ePatEls G rest := by
  cases rest with
  | nil => cases p <;> simp [ePatEls, propToks]
  | cons x xs => cases x <;> cases p <;> simp [ePatEls, propToks]

theorem ePatEls_rel (G : Nat) (v : Option String) (ks : List String) (d : Nat) (rg : Option (Option Int × Option Int)) (p : Option Expr)
    (rest : List PatEl) :
    ePatEls (G + 1) (.rel v ks d rg p :: rest) =
      ((if d == 0 then ["<", "-", "["] else ["-", "["]) ++ v.toList ++ kindToks ks ++ rangeToks rg ++ propToks G p ++
       (if d == 1 then ["]", "-", ">"] else ["]", "-"])) ++ ePatEls G rest := by
  cases p <;> cases rg <;> cases ks <;> simp [ePatEls, propToks, rangeToks, kindToks]

section YP
variable {N : Names} (recT : Expr → Tree) (recW : Expr → Bool) (Hrec : EmitOK N recT recW)
include Hrec

theorem yield_tProps (x : Expr) (G : Nat) (hw : wProps' recW x = true) (hG : size (tProps N recT x) ≤ G) :
    eExpr G x = yieldT (tProps N recT x) := by
  cases x <;> simp [wProps'] at hw
  case param s =>
    obtain ⟨G', rfl⟩ : ∃ G', G = G' + 1 := ⟨G - 1, by simp [tProps] at hG; omega⟩
    simp [eExpr, tProps, symName]
  case map kvs =>
    have := yield_tMap recT recW Hrec kvs G hw (by simp only [tProps, size_nd, sizeL_cons', sizeL_nil'] at hG; omega)
    simp [this, tProps]

/-- the tokens of the optional properties -/
theorem yield_optProps (p : Option Expr) (G : Nat) (hw : wOptProps recW p = true)
    (hG : sizeL (optList p (tProps N recT)) ≤ G) :
    yieldL (optList p (tProps N recT)) = propToks G p := by
  cases p with
  | none => simp [optList, propToks]
  | some x =>
    have := yield_tProps recT recW Hrec x G hw (by simpa [optList] using hG)
    simp [optList, this, propToks]

theorem yield_optVar (v : Option String) : yieldL (optList v (varNode N)) = v.toList := by
  cases v <;> simp [optList, varNode, symName]

theorem yield_tNode (v : Option String) (ls : List String) (p : Option Expr) (G : Nat) (hw : wNode recW (.node v ls p) = true)
    (hG : size (tNode N recT (.node v ls p)) ≤ G + 1) :
    yieldT (tNode N recT (.node v ls p)) =
      ["("] ++ v.toList ++ (ls.map (fun k => [":", k])).flatten ++ propToks G p ++ [")"] := by
  replace hw : wOptProps recW p = true := by cases p <;> simpa [wNode, wOptProps] using hw
  simp only [tNode, size_nd, sizeL_append, sizeL_cons', size_lf, sizeL_nil'] at hG
  have hp := yield_optProps recT recW Hrec p G hw (by omega)
  have hl : yieldL (if ls.isEmpty then [] else [labelsNode N ls]) = (ls.map (fun k => [":", k])).flatten := by
    cases ls with
    | nil => simp
    | cons l ls' => simp [yield_labelsNode recT recW Hrec]
  simp only [tNode, yieldT_nd, yieldL_append, yieldL_cons, yieldL_nil, yieldT_lf, hp, hl, yield_optVar recT recW Hrec]
  simp

theorem yield_relTypes (k : String) (more : List String) :
    yieldT (relTypesNode N (k :: more)) = [":", k] ++ (more.map (fun x => ["|", x])).flatten := by
  simp only [relTypesNode, yieldT_nd, yieldL_cons, yieldT_lf, schemaName, symName, yieldL_nil]
  induction more with
  | nil => simp
  | cons m ms ih => simp at ih ⊢; exact ih

theorem yield_intLit (a : Int) (h : wBound (some a) = true) : yieldT (intLit N a) = [toString a] := by
  simp only [wBound, Bool.and_eq_true, decide_eq_true_eq] at h
  simp [intLit, toString_int_nonneg a h.1]

theorem yield_rangeNode (r : Option Int × Option Int) (h1 : wBound r.1 = true) (h2 : wBound r.2 = true) :
    yieldT (rangeNode N r) = emitRange r := by
  obtain ⟨a, b⟩ := r
  cases a <;> cases b <;> dsimp only at h1 h2 <;>
    simp [rangeNode, emitRange, optList, yield_intLit recT recW Hrec, h1, h2]

theorem yield_tRel (v : Option String) (ks : List String) (d : Nat) (rg : Option (Option Int × Option Int)) (p : Option Expr) (G : Nat)
    (hw : wRel recW (.rel v ks d rg p) = true) (hG : size (tRel N recT (.rel v ks d rg p)) ≤ G + 1) :
    yieldT (tRel N recT (.rel v ks d rg p)) =
      (if d == 0 then ["<", "-", "["] else ["-", "["]) ++ v.toList ++
      kindToks ks ++ rangeToks rg ++ propToks G p ++
      (if d == 1 then ["]", "-", ">"] else ["]", "-"]) := by
  simp only [wRel, Bool.and_eq_true, decide_eq_true_eq] at hw
  obtain ⟨⟨⟨hd, hks⟩, hrg⟩, hpw⟩ := hw
  replace hpw : wOptProps recW p = true := by cases p <;> simpa [wOptProps] using hpw
  have hsz : sizeL (optList p (tProps N recT)) + 1 ≤ size (tRel N recT (.rel v ks d rg p)) := by simp [tRel]; omega
  have hp := yield_optProps recT recW Hrec p G hpw (by omega)
  have hk : yieldL (if ks.isEmpty then [] else [relTypesNode N ks]) = kindToks ks := by
    cases ks with
    | nil => simp [kindToks]
    | cons k more => simp [yield_relTypes recT recW Hrec, kindToks]
  have hr : yieldL (optList rg (rangeNode N)) = rangeToks rg := by
    cases rg with
    | none => simp [optList, rangeToks]
    | some r =>
      simp only [Bool.and_eq_true] at hrg
      simp [optList, yield_rangeNode recT recW Hrec r hrg.1 hrg.2, rangeToks]
  simp only [tRel, yieldT_nd, yieldL_append, yieldL_cons, yieldL_nil, yieldT_lf, hp, hk, hr, yield_optVar recT recW Hrec]
  by_cases h0 : d = 0 <;> by_cases h1 : d = 1 <;> simp [h0, h1]

theorem comma_none : ∀ rest : List PatEl, wPairs recW rest = true →
    (match rest with | .node _ _ _ :: _ => [","] | _ => ([] : List String)) = []
  | [], _ => rfl
  | .rel _ _ _ _ _ :: _, _ => rfl
  | [.node _ _ _], h => by simp [wPairs] at h
  | .node _ _ _ :: _ :: _, h => by simp [wPairs, wRel] at h

theorem yield_pairUp : ∀ (rest : List PatEl) (G : Nat), wPairs recW rest = true → sizeL (pairUp N recT rest) + 1 ≤ G →
    ePatEls G rest = yieldL (pairUp N recT rest)
  | [], G, _, hG => by
    obtain ⟨G', rfl⟩ : ∃ G', G = G' + 1 := ⟨G - 1, by omega⟩
    simp [pairUp, ePatEls]
  | [_], _, hw, _ => by simp [wPairs] at hw
  | r :: n :: rest, G, hw, hG => by
    simp only [wPairs, Bool.and_eq_true] at hw
    obtain ⟨⟨hr, hn⟩, hrest⟩ := hw
    simp only [pairUp, sizeL_cons', size_nd, sizeL_nil'] at hG
    have p1 := size_pos (tRel N recT r)
    have p2 := size_pos (tNode N recT n)
    obtain ⟨G', rfl⟩ : ∃ G', G = G' + 2 := ⟨G - 2, by omega⟩
    have ih := yield_pairUp rest G' hrest (by omega)
    cases r with
    | node _ _ _ => simp [wRel] at hr
    | rel v ks d rg p =>
      cases n with
      | rel _ _ _ _ _ => simp [wNode] at hn
      | node v' ls p' =>
        have h1 := yield_tRel recT recW Hrec v ks d rg p (G' + 1) hr (by omega)
        have h2 := yield_tNode recT recW Hrec v' ls p' G' hn (by omega)
        have hc := comma_none recT recW Hrec rest hrest
        rw [show G' + 2 = (G' + 1) + 1 from rfl, ePatEls_rel, ePatEls_node, hc]
        simp only [pairUp, yieldL_cons, yieldT_nd, yieldL_nil, h1, h2, ← ih]
        simp

theorem yield_tPatEl (els : List PatEl) (G : Nat) (hw : wPatEl recW els = true) (hG : size (tPatEl N recT els) ≤ G) :
    ePatEls G els = yieldT (tPatEl N recT els) := by
  cases els with
  | nil => simp [wPatEl] at hw
  | cons n rest =>
    simp only [wPatEl, Bool.and_eq_true] at hw
    simp only [tPatEl, size_nd, sizeL_cons'] at hG
    have p2 := size_pos (tNode N recT n)
    obtain ⟨G', rfl⟩ : ∃ G', G = G' + 1 := ⟨G - 1, by omega⟩
    have ih := yield_pairUp recT recW Hrec rest G' hw.2 (by omega)
    cases n with
    | rel _ _ _ _ _ => simp [wNode] at hw
    | node v ls p =>
      have h2 := yield_tNode recT recW Hrec v ls p G' hw.1 (by omega)
      have hc := comma_none recT recW Hrec rest hw.2
      rw [ePatEls_node, hc]
      simp only [tPatEl, yieldT_nd, yieldL_cons, h2, ← ih]
      simp

theorem yield_tPart (p : PatternPart) (hw : wPart recW p = true) (hG : size (tPart N recT p) ≤ bigFuel) :
    ePatternPart p = yieldT (tPart N recT p) := by
  obtain ⟨pv, sh, al, els⟩ := p
  simp only [wPart, Bool.and_eq_true] at hw
  obtain ⟨hsa, hels⟩ := hw
  have hsz : size (tPatEl N recT els) + 2 ≤ size (tPart N recT ⟨pv, sh, al, els⟩) := by
    cases sh <;> cases al <;> simp [tPart] <;> omega
  have hy := yield_tPatEl recT recW Hrec els bigFuel hels (by omega)
  cases pv <;> cases sh <;> cases al <;> simp at hsa <;> simp [ePatternPart, tPart, hy, varNode, symName]

end YP
end Dawgs.C07
