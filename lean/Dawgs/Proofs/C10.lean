/- Helper lemmas for C10 (property statements live in Props/C10.lean). Core Lean only. -/
import Dawgs.Spec.C10
set_option linter.unusedSimpArgs false
set_option linter.unusedVariables false
namespace Dawgs.C10

/-! ## three-valued algebra: every list operator is a monoid -/

theorem op3_assoc (op : Op) (a b c : V3) : op3 op (op3 op a b) c = op3 op a (op3 op b c) := by
  cases op <;> rcases a with _ | _ | _ <;> rcases b with _ | _ | _ <;> rcases c with _ | _ | _ <;> rfl

theorem op3_unit_left (op : Op) (a : V3) : op3 op (unit3 op) a = a := by
  cases op <;> rcases a with _ | _ | _ <;> rfl

theorem op3_unit_right (op : Op) (a : V3) : op3 op a (unit3 op) = a := by
  cases op <;> rcases a with _ | _ | _ <;> rfl

theorem evalList_nil (v : Val) (op : Op) : evalList v op [] = unit3 op := by simp [evalList]
theorem evalList_cons (v : Val) (op : Op) (e : Expr) (es : List Expr) :
    evalList v op (e :: es) = op3 op (eval v e) (evalList v op es) := by simp [evalList]

theorem evalList_append (v : Val) (op : Op) : ∀ (xs ys : List Expr),
    evalList v op (xs ++ ys) = op3 op (evalList v op xs) (evalList v op ys)
  | [], ys => by simp [evalList_nil, op3_unit_left]
  | x :: xs, ys => by
    simp only [List.cons_append, evalList_cons, evalList_append v op xs ys, op3_assoc]

theorem eval_join (v : Val) (op : Op) (es : List Expr) : eval v (.join op es) = evalList v op es := by
  simp [eval]

theorem eval_mkJ (v : Val) (op : Op) (xs : List Expr) : eval v (mkJ op xs) = evalList v op xs := by
  match xs with
  | [] => simp [mkJ, eval_join]
  | [x] => simp [mkJ, evalList_cons, evalList_nil, op3_unit_right]
  | x :: y :: r => simp [mkJ, eval_join]

theorem evalList_items (v : Val) (op : Op) (e : Expr) : evalList v op (items op e) = eval v e := by
  cases e with
  | join op' xs =>
    by_cases h : op' = op
    · subst h; simp [items, eval_join]
    · simp [items, h, evalList_cons, evalList_nil, op3_unit_right]
  | _ => simp [items, evalList_cons, evalList_nil, op3_unit_right]

theorem evalList_kindAtoms (v : Val) (ref : String) (op : Op) : ∀ ks,
    evalList v op (kindAtoms ref ks) = evalKinds v ref op ks
  | [] => by simp [kindAtoms, evalList_nil, evalKinds]
  | k :: ks => by
    simp [kindAtoms, evalList_cons, evalKinds, evalList_kindAtoms v ref op ks, eval, op3_unit_right]

mutual
theorem eval_norm (v : Val) : ∀ e, eval v (norm e) = eval v e
  | .cmp l op r => by simp [norm]
  | .isNull l b => by simp [norm]
  | .kinds ref ks allOf => by
    simp only [norm, eval_mkJ, evalList_kindAtoms]; simp [eval]
  | .neg e => by simp [norm, eval, eval_norm v e]
  | .paren e => by simp [norm, eval, eval_norm v e]
  | .join op es => by simp [norm, eval_mkJ, eval_join, evalList_normItems v op es]
theorem evalList_normItems (v : Val) (op : Op) : ∀ es, evalList v op (normItems op es) = evalList v op es
  | [] => by simp [normItems]
  | e :: es => by
    simp [normItems, evalList_append, evalList_items, eval_norm v e, evalList_normItems v op es, evalList_cons]
end

/-! ## operand level: the parser inverts the (repaired) literal/operand printer -/

mutual
def needO : Operand → Nat
  | .fn _ a => needO a + 1
  | .list xs => needOs xs + 2
  | _ => 1
def needOs : List Operand → Nat
  | [] => 1
  | x :: xs => needO x + needOs xs + 1
end

def oFollow : List Tok → Bool
  | .dot :: _ => false
  | .lp :: _ => false
  | _ => true

theorem stripZ_fix (fr : List Nat) (h : stripZ fr = fr) : stripZ (match fr with | [] => [0] | _ :: _ => fr) = fr := by
  cases fr with
  | nil => rfl
  | cons d ds => simpa using h

theorem parseO_lit (l : Lit) (hl : l.ok = true) (f : Nat) (rest : List Tok) :
    parseO (f + 1) (emitLit true l ++ rest) = some (.lit l, rest) := by
  cases l with
  | null => simp [emitLit, parseO]
  | bool b => cases b <;> simp [emitLit, parseO]
  | int i =>
    simp only [Lit.ok, decide_eq_true_eq] at hl
    by_cases h : i < 0
    · simp [emitLit, h, parseO, hl]; omega
    · have h2 : i.toNat ≤ maxI := by omega
      simp [emitLit, h, parseO, h2]; omega
  | float d =>
    simp only [Lit.ok, decide_eq_true_eq] at hl
    obtain ⟨ng, n, fr⟩ := d
    simp only at hl
    cases ng <;> cases fr with
    | nil => simp [emitLit, parseO, stripZ]
    | cons a as => simp [emitLit, parseO, hl]
  | str s => simp [emitLit, parseO]


theorem oks_cons (x : Operand) (xs : List Operand) : Operand.oks (x :: xs) = (x.ok && Operand.oks xs) := by
  simp [Operand.oks]

mutual
theorem parseO_emit : ∀ (o : Operand), o.ok = true → ∀ f, needO o ≤ f → ∀ rest, oFollow rest = true →
    parseO f (emitO true o ++ rest) = some (o, rest)
  | .var v, _, f, hf, rest, hr => by
    cases f with
    | zero => simp [needO] at hf
    | succ f =>
      simp only [emitO, List.cons_append, List.nil_append, parseO]
      split
      · simp [oFollow] at hr
      · simp [oFollow] at hr
      · rfl
  | .prop v p, _, f, hf, rest, _ => by
    cases f with
    | zero => simp [needO] at hf
    | succ f => simp [emitO, parseO]
  | .param s, _, f, hf, rest, _ => by
    cases f with
    | zero => simp [needO] at hf
    | succ f => simp [emitO, parseO]
  | .lit l, hok, f, hf, rest, _ => by
    cases f with
    | zero => simp [needO] at hf
    | succ f =>
      simp only [Operand.ok] at hok
      simp only [emitO]; exact parseO_lit l hok f rest
  | .fn name a, hok, f, hf, rest, _ => by
    cases f with
    | zero => simp [needO] at hf
    | succ f =>
      simp only [Operand.ok] at hok
      simp only [needO] at hf
      have ih := parseO_emit a hok f (by omega) (.rp :: rest) (by simp [oFollow])
      simp only [emitO, List.cons_append, List.append_assoc, List.nil_append, parseO]
      rw [ih]
  | .list [], _, f, hf, rest, _ => by
    cases f with
    | zero => simp [needO] at hf
    | succ f => simp [emitO, parseO]
  | .list (x :: xs), hok, f, hf, rest, _ => by
    cases f with
    | zero => simp [needO] at hf
    | succ f =>
      simp only [Operand.ok, oks_cons, Bool.and_eq_true] at hok
      simp only [needO, needOs] at hf
      have ihx := parseO_emit x hok.1 f (by omega) (emitOTail true xs ++ (.rb :: rest)) (by
        cases xs <;> simp [emitOTail, oFollow])
      have iht := parseOTail_emit xs hok.2 f (by omega) [x] rest
      simp only [emitO, List.cons_append, List.append_assoc, List.nil_append, List.singleton_append, parseO]
      have hne : ∀ r', emitO true x ++ (emitOTail true xs ++ Tok.rb :: rest) ≠ Tok.rb :: r' := by
        intro r' h
        have := ihx
        rw [h] at this
        cases f with
        | zero => simp [parseO] at this
        | succ f => simp [parseO] at this
      split
      · rename_i r' heq; exact absurd heq (hne r')
      · rw [ihx]; simpa using iht
theorem parseOTail_emit : ∀ (xs : List Operand), Operand.oks xs = true → ∀ f, needOs xs ≤ f → ∀ acc rest,
    parseOTail f acc (emitOTail true xs ++ (.rb :: rest)) = some (.list (acc ++ xs), rest)
  | [], _, f, hf, acc, rest => by
    cases f with
    | zero => simp [needOs] at hf
    | succ f => simp [emitOTail, parseOTail]
  | x :: xs, hok, f, hf, acc, rest => by
    cases f with
    | zero => simp [needOs] at hf
    | succ f =>
      simp only [oks_cons, Bool.and_eq_true] at hok
      simp only [needOs] at hf
      have ihx := parseO_emit x hok.1 f (by omega) (emitOTail true xs ++ (.rb :: rest)) (by
        cases xs <;> simp [emitOTail, oFollow])
      have iht := parseOTail_emit xs hok.2 f (by omega) (acc ++ [x]) rest
      simp only [emitOTail, List.cons_append, List.append_assoc, parseOTail]
      rw [ihx]; simpa using iht
end

/-! ## expression level -/

mutual
def needE : Expr → Nat
  | .cmp l _ r => needO l + needO r + 6
  | .isNull l _ => needO l + 6
  | .kinds _ _ _ => 6
  | .neg e => needE e + 5
  | .paren e => needE e + 5
  | .join _ es => needEs es + 5
def needEs : List Expr → Nat
  | [] => 1
  | e :: es => needE e + needEs es + 1
end

def stopAt (l : Nat) : List Tok → Bool
  | [] => true
  | .rp :: _ => true
  | .kw op :: _ => decide (op.lvl < l)
  | t :: _ => t.endsExpr

theorem stopAt_mono {l l' : Nat} {rest : List Tok} (h : stopAt l rest = true) (hl : l ≤ l') : stopAt l' rest = true := by
  cases rest with
  | nil => rfl
  | cons t r =>
    cases t <;> simp_all [stopAt]
    omega

theorem stopAt_oFollow {l : Nat} {rest : List Tok} (h : stopAt l rest = true) : oFollow rest = true := by
  cases rest with
  | nil => rfl
  | cons t r => cases t <;> simp_all [stopAt, oFollow, Tok.endsExpr]

theorem opOf_lvl (op : Op) : opOf op.lvl = op := by cases op <;> rfl
theorem Op.lvl_le (op : Op) : op.lvl ≤ 2 := by cases op <;> simp [Op.lvl]

theorem parseLoop_stop (f l : Nat) (acc : List Expr) (rest : List Tok) (h : stopAt l rest = true) :
    parseLoop (f + 1) l acc rest = some (mkJ (opOf l) acc, rest) := by
  cases rest with
  | nil => simp [parseLoop]
  | cons t r =>
    cases t <;> simp_all [stopAt, parseLoop]
    omega

/-- the token can begin an operand -/
def oHead : Tok → Bool
  | .kwNull | .kwTrue | .kwFalse | .int _ | .float _ _ | .minus | .str _ | .param _ | .ident _ | .lb => true
  | _ => false

theorem emitLit_head (fr : Bool) (l : Lit) : ∃ t r, emitLit fr l = t :: r ∧ oHead t = true := by
  cases l with
  | null => exact ⟨_, _, rfl, rfl⟩
  | bool b => cases b <;> exact ⟨_, _, rfl, rfl⟩
  | int i => by_cases h : i < 0 <;> simp [emitLit, h, oHead]
  | float d =>
    obtain ⟨ng, n, frc⟩ := d
    cases ng <;> cases frc <;> cases fr <;> simp [emitLit, oHead]
  | str s => exact ⟨_, _, rfl, rfl⟩

theorem emitO_head (fr : Bool) (o : Operand) : ∃ t r, emitO fr o = t :: r ∧ oHead t = true := by
  cases o with
  | lit l => simpa [emitO] using emitLit_head fr l
  | list xs => cases xs <;> simp [emitO, oHead]
  | _ => simp [emitO, oHead]

theorem mkJ_single (op : Op) (e : Expr) : mkJ op [e] = e := rfl

theorem descend (e : Expr) (toks : List Tok) (F0 : Nat) (hF0 : 1 ≤ F0) (Lv : Nat) (hLv : Lv ≤ 4)
    (hhead : Lv = 4 → ∀ rest r, toks ++ rest ≠ Tok.kwNot :: r)
    (own : ∀ f, F0 ≤ f → ∀ rest, stopAt Lv rest = true → parseLvl f Lv (toks ++ rest) = some (e, rest)) :
    ∀ d l, l + d = Lv → ∀ f, F0 + d ≤ f → ∀ rest, stopAt l rest = true →
      parseLvl f l (toks ++ rest) = some (e, rest) := by
  intro d
  induction d with
  | zero =>
    intro l hl f hf rest hs
    have : l = Lv := by omega
    subst this
    exact own f (by omega) rest hs
  | succ d ih =>
    intro l hl f hf rest hs
    cases f with
    | zero => omega
    | succ f =>
      have hl3 : l ≤ 3 := by omega
      have ih' := ih (l + 1) (by omega) f (by omega) rest (stopAt_mono hs (by omega))
      have hn4 : ¬ (l ≥ 4) := by omega
      by_cases h3 : l = 3
      · subst h3
        have hLv4 : Lv = 4 := by omega
        simp only [parseLvl, hn4, if_false, if_true]
        split
        · rename_i r heq; exact absurd heq (hhead hLv4 rest r)
        · exact ih'
      · simp only [parseLvl, hn4, h3, if_false]
        rw [ih']
        cases f with
        | zero => omega
        | succ f => simp [parseLoop_stop f l [e] rest hs, mkJ_single]

theorem parseLabels_tail (l : Nat) : ∀ (ks : List String) (rest : List Tok), stopAt l rest = true →
    parseLabels (labelTail ks ++ rest) = (ks, rest)
  | [], rest, h => by
    cases rest with
    | nil => simp [labelTail, parseLabels]
    | cons t r => cases t <;> simp_all [stopAt, labelTail, parseLabels, Tok.endsExpr]
  | k :: ks, rest, h => by
    simp [labelTail, parseLabels, parseLabels_tail l ks rest h]

theorem emitKinds_canon (ref k : String) (ks : List String) :
    emitKinds Fix.canon ref (k :: ks) true = .ident ref :: .colon :: .ident k :: labelTail ks := by
  cases ks <;> simp [emitKinds, Fix.canon, labelTail]

theorem head_ne_of_oHead {ts : List Tok} {t : Tok} {r : List Tok} (h : ts = t :: r) (ho : oHead t = true) :
    (∀ r', ts ≠ Tok.lp :: r') ∧ (∀ r', ts ≠ Tok.kwNot :: r') := by
  subst h
  constructor <;> intro r' heq <;> cases t <;> simp_all [oHead]

theorem own_cmp (lo ro : Operand) (op : CmpOp) (hlo : lo.ok = true) (hro : ro.ok = true) (f : Nat)
    (hf : needO lo + needO ro + 1 ≤ f) (rest : List Tok) (hs : stopAt 4 rest = true) :
    parseLvl f 4 (emitE Fix.canon (.cmp lo op ro) ++ rest) = some (.cmp lo op ro, rest) := by
  cases f with
  | zero => omega
  | succ f =>
    obtain ⟨t, r, ht, hh⟩ := emitO_head true lo
    have h1 := parseO_emit lo hlo f (by omega) (Tok.cmp op :: (emitO true ro ++ rest)) (by simp [oFollow])
    have h2 := parseO_emit ro hro f (by omega) rest (stopAt_oFollow hs)
    simp only [emitE, Fix.canon, List.append_assoc, List.cons_append] at h1 ⊢
    simp only [parseLvl, ge_iff_le, Nat.le_refl, if_true]
    rw [ht] at h1 ⊢
    cases t <;> simp_all [oHead]

theorem own_isNull (lo : Operand) (b : Bool) (hlo : lo.ok = true) (f : Nat)
    (hf : needO lo + 1 ≤ f) (rest : List Tok) (hs : stopAt 4 rest = true) :
    parseLvl f 4 (emitE Fix.canon (.isNull lo b) ++ rest) = some (.isNull lo b, rest) := by
  cases f with
  | zero => omega
  | succ f =>
    obtain ⟨t, r, ht, hh⟩ := emitO_head true lo
    have h1 := parseO_emit lo hlo f (by omega) (Tok.isNull b :: rest) (by simp [oFollow])
    simp only [emitE, Fix.canon, List.append_assoc, List.cons_append, List.nil_append] at h1 ⊢
    simp only [parseLvl, ge_iff_le, Nat.le_refl, if_true]
    rw [ht] at h1 ⊢
    cases t <;> simp_all [oHead]

theorem own_kinds (ref k : String) (ks : List String) (f : Nat) (hf : 2 ≤ f) (rest : List Tok)
    (hs : stopAt 4 rest = true) :
    parseLvl f 4 (emitE Fix.canon (.kinds ref (k :: ks) true) ++ rest) = some (.kinds ref (k :: ks) true, rest) := by
  cases f with
  | zero => omega
  | succ f =>
    cases f with
    | zero => omega
    | succ f =>
      simp only [emitE, emitKinds_canon, List.cons_append]
      simp [parseLvl, parseO, parseLabels_tail 4 ks rest hs]

theorem canonLs_cons (L : Nat) (e : Expr) (es : List Expr) : canonLs L (e :: es) = (canonL L e && canonLs L es) := by
  simp [canonLs]

theorem canonL_mono : ∀ (e : Expr) (L L' : Nat), canonL L e = true → L' ≤ L → canonL L' e = true := by
  intro e L L' h hl
  cases e with
  | neg c => simp only [canonL, Bool.and_eq_true, decide_eq_true_eq] at h ⊢; exact ⟨by omega, h.2⟩
  | join op es => simp only [canonL, Bool.and_eq_true, decide_eq_true_eq] at h ⊢; exact ⟨⟨by omega, h.1.2⟩, h.2⟩
  | _ => simpa [canonL] using h

/-- a canonical cmp-level node never begins with NOT or needs the `(`-branch by accident -/
theorem head_lvl4 (e : Expr) (h : canonL 4 e = true) (rest : List Tok) :
    ∀ r, emitE Fix.canon e ++ rest ≠ Tok.kwNot :: r := by
  intro r
  cases e with
  | cmp lo op ro =>
    obtain ⟨t, r', ht, hh⟩ := emitO_head true lo
    simp only [emitE, Fix.canon, ht]
    intro heq; cases t <;> simp_all [oHead]
  | isNull lo b =>
    obtain ⟨t, r', ht, hh⟩ := emitO_head true lo
    simp only [emitE, Fix.canon, ht]
    intro heq; cases t <;> simp_all [oHead]
  | kinds ref ks allOf =>
    cases ks with
    | nil => simp [canonL] at h
    | cons k ks =>
      simp only [canonL, Bool.and_eq_true] at h
      have : allOf = true := h.1
      subst this
      simp [emitE, emitKinds_canon]
  | neg c => simp [canonL] at h
  | paren c => simp [emitE]
  | join op es =>
    simp only [canonL, Bool.and_eq_true, decide_eq_true_eq] at h
    have := Op.lvl_le op
    omega

theorem skipNots_of_head {ts : List Tok} (h : ∀ r, ts ≠ Tok.kwNot :: r) : skipNots ts = ts := by
  cases ts with
  | nil => rfl
  | cons t r =>
    cases t <;> first | rfl | exact absurd rfl (h r)

mutual
theorem parse_at : ∀ (e : Expr) (l : Nat), l ≤ 4 → canonL l e = true → ∀ f, needE e ≤ f → ∀ rest,
    stopAt l rest = true → parseLvl f l (emitE Fix.canon e ++ rest) = some (e, rest)
  | .cmp lo op ro, l, hl, hc, f, hf, rest, hs => by
    simp only [canonL, Bool.and_eq_true] at hc
    simp only [needE] at hf
    exact descend _ _ (needO lo + needO ro + 1) (by omega) 4 (by omega)
      (fun _ rest r => head_lvl4 (.cmp lo op ro) (by simp [canonL, hc]) rest r)
      (fun f hf rest hs => own_cmp lo ro op hc.1 hc.2 f hf rest hs) (4 - l) l (by omega) f (by omega) rest hs
  | .isNull lo b, l, hl, hc, f, hf, rest, hs => by
    simp only [canonL] at hc
    simp only [needE] at hf
    exact descend _ _ (needO lo + 1) (by omega) 4 (by omega)
      (fun _ rest r => head_lvl4 (.isNull lo b) (by simp [canonL, hc]) rest r)
      (fun f hf rest hs => own_isNull lo b hc f hf rest hs) (4 - l) l (by omega) f (by omega) rest hs
  | .kinds ref ks allOf, l, hl, hc, f, hf, rest, hs => by
    cases ks with
    | nil => simp [canonL] at hc
    | cons k ks =>
      simp only [canonL, Bool.and_eq_true] at hc
      have : allOf = true := hc.1
      subst this
      simp only [needE] at hf
      exact descend _ _ 2 (by omega) 4 (by omega)
        (fun _ rest r => head_lvl4 (.kinds ref (k :: ks) true) (by simp [canonL]) rest r)
        (fun f hf rest hs => own_kinds ref k ks f hf rest hs) (4 - l) l (by omega) f (by omega) rest hs
  | .paren c, l, hl, hc, f, hf, rest, hs => by
    simp only [canonL] at hc
    simp only [needE] at hf
    refine descend _ _ (needE c + 1) (by omega) 4 (by omega)
      (fun _ rest r => head_lvl4 (.paren c) (by simp [canonL, hc]) rest r) ?_ (4 - l) l (by omega) f (by omega) rest hs
    intro f hf rest hs
    cases f with
    | zero => omega
    | succ f =>
      have ih := parse_at c 0 (by omega) hc f (by omega) (Tok.rp :: rest) (by simp [stopAt])
      simp only [emitE, List.cons_append, List.append_assoc, List.nil_append]
      simp only [parseLvl, ge_iff_le, Nat.le_refl, if_true]
      rw [ih]
  | .neg c, l, hl, hc, f, hf, rest, hs => by
    simp only [canonL, Bool.and_eq_true, decide_eq_true_eq] at hc
    simp only [needE] at hf
    refine descend _ _ (needE c + 1) (by omega) 3 (by omega) (by omega) ?_ (3 - l) l (by omega) f (by omega) rest hs
    intro f hf rest hs
    cases f with
    | zero => omega
    | succ f =>
      have ih := parse_at c 4 (by omega) hc.2 f (by omega) rest (stopAt_mono hs (by omega))
      have hh := head_lvl4 c hc.2 rest
      simp only [emitE, Fix.canon, Bool.false_and, wrapIf, List.cons_append]
      simp only [Fix.canon] at ih hh
      simp [parseLvl, skipNots_of_head hh, ih]
  | .join op [], l, hl, hc, f, hf, rest, hs => by
    simp [canonL] at hc
  | .join op (c :: cs), l, hl, hc, f, hf, rest, hs => by
    simp only [canonL, Bool.and_eq_true, decide_eq_true_eq, canonLs_cons] at hc
    simp only [needE, needEs] at hf
    have hop := Op.lvl_le op
    refine descend _ _ (needE c + needEs cs + 2) (by omega) op.lvl (by omega) (by omega) ?_ (op.lvl - l) l (by omega) f (by omega) rest hs
    intro f hf rest hs
    cases f with
    | zero => omega
    | succ f =>
      have hstop : stopAt (op.lvl + 1) (emitETail Fix.canon op cs ++ rest) = true := by
        cases cs with
        | nil => simpa [emitETail] using stopAt_mono hs (by omega)
        | cons c' cs' => simp [emitETail, stopAt]
      have ih := parse_at c (op.lvl + 1) (by omega) hc.2.1 f (by omega) _ hstop
      have iht := parse_tail op cs hc.2.2 f (by omega) [c] rest hs
      have hn4 : ¬ (op.lvl ≥ 4) := by omega
      have hn3 : ¬ (op.lvl = 3) := by omega
      simp only [emitE, Fix.canon, Bool.false_and, wrapIf, List.append_assoc] at ih ⊢
      simp only [parseLvl, hn4, hn3, if_false]
      simp only [Fix.canon] at iht
      simp only [Bool.false_eq_true, if_false] at ih ⊢
      simp only [ih, iht]
      cases cs with
      | nil => simp at hc
      | cons c' cs' => simp [mkJ]
theorem parse_tail (op : Op) : ∀ (cs : List Expr), canonLs (op.lvl + 1) cs = true → ∀ f, needEs cs ≤ f →
    ∀ acc rest, stopAt op.lvl rest = true →
    parseLoop f op.lvl acc (emitETail Fix.canon op cs ++ rest) = some (mkJ op (acc ++ cs), rest)
  | [], _, f, hf, acc, rest, hs => by
    cases f with
    | zero => simp [needEs] at hf
    | succ f => simp [emitETail, parseLoop_stop f op.lvl acc rest hs, opOf_lvl]
  | c :: cs, hc, f, hf, acc, rest, hs => by
    simp only [canonLs_cons, Bool.and_eq_true] at hc
    simp only [needEs] at hf
    have hop := Op.lvl_le op
    cases f with
    | zero => omega
    | succ f =>
      have hstop : stopAt (op.lvl + 1) (emitETail Fix.canon op cs ++ rest) = true := by
        cases cs with
        | nil => simpa [emitETail] using stopAt_mono hs (by omega)
        | cons c' cs' => simp [emitETail, stopAt]
      have ih := parse_at c (op.lvl + 1) (by omega) hc.1 f (by omega) _ hstop
      have iht := parse_tail op cs hc.2 f (by omega) (acc ++ [c]) rest hs
      simp only [emitETail, Fix.canon, Bool.false_and, wrapIf, List.cons_append, List.append_assoc] at ih ⊢
      simp only [Bool.false_eq_true, if_false] at ih ⊢
      simp only [parseLoop, if_true]
      simp only [Fix.canon] at iht
      simp only [ih, iht]
      simp
end

/-! ## fuel bound and the top-level statement -/

theorem emitLit_len (fr : Bool) (l : Lit) : 1 ≤ (emitLit fr l).length := by
  obtain ⟨t, r, h, _⟩ := emitLit_head fr l
  simp [h]

mutual
theorem needO_le : ∀ (o : Operand), needO o ≤ 2 * (emitO true o).length
  | .var v => by simp [needO, emitO]
  | .prop v p => by simp [needO, emitO]
  | .param s => by simp [needO, emitO]
  | .lit l => by have := emitLit_len true l; simp [needO, emitO]; omega
  | .fn n a => by have := needO_le a; simp [needO, emitO]; omega
  | .list [] => by simp [needO, needOs, emitO]
  | .list (x :: xs) => by
    have := needO_le x; have := needOs_le xs
    simp [needO, needOs, emitO]; omega
theorem needOs_le : ∀ (xs : List Operand), needOs xs ≤ 2 * (emitOTail true xs).length + 1
  | [] => by simp [needOs, emitOTail]
  | x :: xs => by
    have := needO_le x; have := needOs_le xs
    simp [needOs, emitOTail]; omega
end

theorem labelTail_len (ks : List String) : (labelTail ks).length = 2 * ks.length := by
  induction ks with
  | nil => rfl
  | cons k ks ih => simp [labelTail, ih]; omega

mutual
theorem needE_le : ∀ (e : Expr) (L : Nat), canonL L e = true → needE e ≤ 10 * (emitE Fix.canon e).length
  | .cmp lo op ro, _, _ => by
    have := needO_le lo; have := needO_le ro
    simp [needE, emitE, Fix.canon]; omega
  | .isNull lo b, _, _ => by
    have := needO_le lo
    simp [needE, emitE, Fix.canon]; omega
  | .kinds ref ks allOf, _, h => by
    cases ks with
    | nil => simp [canonL] at h
    | cons k ks =>
      simp only [canonL, Bool.and_eq_true] at h
      have : allOf = true := h.1
      subst this
      simp [needE, emitE, emitKinds_canon]; omega
  | .neg c, _, h => by
    simp only [canonL, Bool.and_eq_true] at h
    have := needE_le c 4 h.2
    simp [needE, emitE, Fix.canon, wrapIf] at this ⊢; omega
  | .paren c, _, h => by
    simp only [canonL] at h
    have := needE_le c 0 h
    simp [needE, emitE] at this ⊢; omega
  | .join op [], _, h => by simp [canonL] at h
  | .join op (c :: cs), _, h => by
    simp only [canonL, Bool.and_eq_true, decide_eq_true_eq, canonLs_cons] at h
    have h1 := needE_le c _ h.2.1
    have h2 := needEs_le op cs _ h.2.2
    have h3 : 1 ≤ cs.length := by have := h.1.2; simp at this; omega
    simp [needE, needEs, emitE, Fix.canon, wrapIf] at h1 h2 ⊢; omega
theorem needEs_le (op : Op) : ∀ (cs : List Expr) (L : Nat), canonLs L cs = true →
    needEs cs + 9 * cs.length ≤ 10 * (emitETail Fix.canon op cs).length + 1
  | [], _, _ => by simp [needEs, emitETail]
  | c :: cs, L, h => by
    simp only [canonLs_cons, Bool.and_eq_true] at h
    have h1 := needE_le c _ h.1
    have h2 := needEs_le op cs _ h.2
    simp [needEs, emitETail, Fix.canon, wrapIf] at h1 h2 ⊢; omega
end

/-- the parser inverts the printer on every canonical term -/
theorem parse_emit_canon (e : Expr) (h : canonL 0 e = true) : parse (emitE Fix.canon e) = some e := by
  have hb := needE_le e 0 h
  have := parse_at e 0 (by omega) h (fuelFor (emitE Fix.canon e)) (by simp [fuelFor]; omega) [] rfl
  simp only [List.append_nil] at this
  simp [parse, this]


/-! ## canon produces canonical terms -/

theorem Expr.lvl_le (e : Expr) : e.lvl ≤ 4 := by
  cases e <;> simp [Expr.lvl]
  rename_i op _; have := Op.lvl_le op; omega

theorem Op.lvl_inj {a b : Op} (h : a.lvl = b.lvl) : a = b := by
  cases a <;> cases b <;> simp [Op.lvl] at h <;> rfl

theorem canonLs_append (L : Nat) : ∀ (xs ys : List Expr), canonLs L (xs ++ ys) = (canonLs L xs && canonLs L ys)
  | [], ys => by simp [canonLs]
  | x :: xs, ys => by simp [canonLs_cons, canonLs_append L xs ys, Bool.and_assoc]

theorem items_canonL (op : Op) (w : Expr) (h : canonL op.lvl w = true) :
    canonLs (op.lvl + 1) (items op w) = true ∧ items op w ≠ [] := by
  cases w with
  | join op' xs =>
    simp only [canonL, Bool.and_eq_true, decide_eq_true_eq] at h
    by_cases hop : op' = op
    · subst hop
      simp only [items, if_true]
      refine ⟨h.2, ?_⟩
      intro hx; rw [hx] at h; simp at h
    · have hne : op.lvl ≠ op'.lvl := fun hh => hop (Op.lvl_inj hh.symm)
      simp only [items, hop, if_false]
      refine ⟨?_, by simp⟩
      simp only [canonLs, canonL, Bool.and_eq_true, decide_eq_true_eq, Bool.and_true]
      exact ⟨⟨by omega, h.1.2⟩, h.2⟩
  | neg c =>
    simp only [canonL, Bool.and_eq_true, decide_eq_true_eq] at h
    have := Op.lvl_le op
    simp [items, canonLs, canonL, h.2]; omega
  | cmp l o r => simpa [items, canonLs, canonL] using h
  | isNull l b => simpa [items, canonLs, canonL] using h
  | kinds ref ks a => simpa [items, canonLs, canonL] using h
  | paren c => simpa [items, canonLs, canonL] using h

theorem canonL_mkJ (op : Op) (xs : List Expr) (hne : xs ≠ []) (h : canonLs (op.lvl + 1) xs = true) :
    canonL op.lvl (mkJ op xs) = true := by
  match xs, hne, h with
  | [x], _, h =>
    simp only [canonLs_cons, canonLs, Bool.and_true] at h
    simpa [mkJ] using canonL_mono x _ _ h (by omega)
  | x :: y :: r, _, h => simp [mkJ, canonL, h]

theorem canonLs_kindAtoms (L : Nat) (ref : String) : ∀ ks, canonLs L (kindAtoms ref ks) = true
  | [] => by simp [kindAtoms, canonLs]
  | k :: ks => by simp [kindAtoms, canonLs, canonL, canonLs_kindAtoms L ref ks]

theorem kindAtoms_length (ref : String) (ks : List String) : (kindAtoms ref ks).length = ks.length := by
  induction ks with
  | nil => rfl
  | cons k ks ih => simp [kindAtoms, ih]

theorem valids_cons (e : Expr) (es : List Expr) : valids (e :: es) = (valid e && valids es) := by simp [valids]

mutual
theorem canon_canonical : ∀ (e : Expr), valid e = true → canonL e.lvl (canon e) = true
  | .cmp l op r, h => by simpa [valid, canon, canonL] using h
  | .isNull l b, h => by simpa [valid, canon, canonL] using h
  | .kinds ref ks allOf, h => by
    simp only [valid] at h
    cases allOf with
    | true => simp [canon, canonL, h]
    | false =>
      match ks, h with
      | [k], _ => simp [canon, canonL]
      | k :: k' :: ks', _ =>
        simp [canon, canonL, Op.lvl, canonLs_kindAtoms, kindAtoms_length]
  | .neg c, h => by
    simp only [valid] at h
    have ih := canon_canonical c h
    have hl := Expr.lvl_le c
    show canonL 3 (canon (.neg c)) = true
    by_cases hlt : c.lvl < 4
    · simp [canon, wrapE, hlt, canonL, canonL_mono _ _ 0 ih (by omega)]
    · have : c.lvl = 4 := by omega
      rw [this] at ih
      simp [canon, wrapE, hlt, canonL, ih]
  | .paren c, h => by
    simp only [valid] at h
    have ih := canon_canonical c h
    show canonL 4 (canon (.paren c)) = true
    simp [canon, canonL, canonL_mono _ _ 0 ih (by omega)]
  | .join op es, h => by
    simp only [valid, Bool.and_eq_true] at h
    have ih := canonItems_canonical op es h.2
    have hne : es ≠ [] := by intro hh; rw [hh] at h; simp at h
    show canonL op.lvl (canon (.join op es)) = true
    simpa [canon] using canonL_mkJ op _ (ih.2 hne) ih.1
theorem canonItems_canonical (op : Op) : ∀ (es : List Expr), valids es = true →
    canonLs (op.lvl + 1) (canonItems op es) = true ∧ (es ≠ [] → canonItems op es ≠ [])
  | [], _ => by simp [canonItems, canonLs]
  | c :: cs, h => by
    simp only [valids_cons, Bool.and_eq_true] at h
    have ihc := canon_canonical c h.1
    have iht := canonItems_canonical op cs h.2
    have hw : canonL op.lvl (wrapE (decide (c.lvl < op.lvl)) (canon c)) = true := by
      by_cases hlt : c.lvl < op.lvl
      · simp [wrapE, hlt, canonL, canonL_mono _ _ 0 ihc (by omega)]
      · simp [wrapE, hlt, canonL_mono _ _ op.lvl ihc (by omega)]
    have hi := items_canonL op _ hw
    simp only [canonItems, canonLs_append, Bool.and_eq_true]
    exact ⟨⟨hi.1, iht.1⟩, fun _ => by simp [hi.2]⟩
end

/-! ## the repaired emitter prints the canonical representative -/

theorem emitE_canon_join_cons (op : Op) (e : Expr) (es : List Expr) :
    emitE Fix.canon (.join op (e :: es)) = emitE Fix.canon e ++ emitETail Fix.canon op es := by
  simp [emitE, Fix.canon, wrapIf]

theorem emitETail_canon_cons (op : Op) (e : Expr) (es : List Expr) :
    emitETail Fix.canon op (e :: es) = .kw op :: (emitE Fix.canon e ++ emitETail Fix.canon op es) := by
  simp [emitETail, Fix.canon, wrapIf]

theorem emitE_canon_mkJ (op : Op) (xs : List Expr) : emitE Fix.canon (mkJ op xs) = emitE Fix.canon (.join op xs) := by
  match xs with
  | [] => rfl
  | [x] => simp [mkJ, emitE_canon_join_cons, emitETail]
  | x :: y :: r => rfl

theorem emitETail_append (fx : Fix) (op : Op) : ∀ (xs ys : List Expr),
    emitETail fx op (xs ++ ys) = emitETail fx op xs ++ emitETail fx op ys
  | [], ys => by simp [emitETail]
  | x :: xs, ys => by simp [emitETail, emitETail_append fx op xs ys]

theorem emitE_canon_join_append (op : Op) (xs ys : List Expr) (h : xs ≠ []) :
    emitE Fix.canon (.join op (xs ++ ys)) = emitE Fix.canon (.join op xs) ++ emitETail Fix.canon op ys := by
  match xs, h with
  | x :: xs, _ => simp [emitE_canon_join_cons, emitETail_append]

/-- printing the items of a canonical node as an `op` list prints the node -/
theorem emitE_items (op : Op) (w : Expr) (h : canonL op.lvl w = true) :
    emitE Fix.canon (.join op (items op w)) = emitE Fix.canon w := by
  cases w with
  | join op' xs =>
    by_cases hop : op' = op
    · subst hop; simp [items]
    · simp [items, hop, emitE_canon_join_cons, emitETail]
  | _ => simp [items, emitE_canon_join_cons, emitETail]

theorem emitETail_items (op : Op) (w : Expr) (h : canonL op.lvl w = true) :
    emitETail Fix.canon op (items op w) = .kw op :: emitE Fix.canon w := by
  cases w with
  | join op' xs =>
    by_cases hop : op' = op
    · subst hop
      cases xs with
      | nil => simp [canonL] at h
      | cons x xs => simp [items, emitETail_canon_cons, emitE_canon_join_cons]
    · simp [items, hop, emitETail_canon_cons, emitETail]
  | _ => simp [items, emitETail_canon_cons, emitETail]

theorem emitE_wrapE (b : Bool) (e : Expr) : emitE Fix.canon (wrapE b e) = wrapIf b (emitE Fix.canon e) := by
  cases b <;> simp [wrapE, wrapIf, emitE]

theorem emitETail_kindAtoms (ref : String) : ∀ ks,
    emitETail Fix.canon .or (kindAtoms ref ks) = kindTail ref [.kw .or] ks
  | [] => by simp [kindAtoms, emitETail, kindTail]
  | k :: ks => by
    simp [kindAtoms, emitETail_canon_cons, kindTail, emitE, emitKinds, emitETail_kindAtoms ref ks]

theorem emitKinds_all (ref : String) (ks : List String) (allOf : Bool) (hne : ks ≠ []) :
    emitKinds Fix.all ref ks allOf = emitE Fix.canon (canon (.kinds ref ks allOf)) := by
  cases allOf with
  | true =>
    match ks with
    | [] => simp [canon, emitE, emitKinds]
    | [k] => simp [canon, emitE, emitKinds]
    | k :: k' :: r => simp [canon, emitE, emitKinds, Fix.all, Fix.canon]
  | false =>
    match ks with
    | [] => exact absurd rfl hne
    | [k] => simp [canon, emitE, emitKinds]
    | k :: k' :: r =>
      have := emitETail_kindAtoms ref (k' :: r)
      simp [canon, emitE, emitKinds, Fix.all, kindAtoms, Fix.canon, wrapIf] at this ⊢
      rw [← this]

mutual
theorem emitFixed_eq : ∀ (e : Expr), valid e = true → emitE Fix.all e = emitE Fix.canon (canon e)
  | .cmp l op r, _ => by simp [emitE, canon, Fix.all, Fix.canon]
  | .isNull l b, _ => by simp [emitE, canon, Fix.all, Fix.canon]
  | .kinds ref ks allOf, h => by
    simp only [valid] at h
    have hne : ks ≠ [] := by intro hh; rw [hh] at h; simp at h
    simpa [emitE] using emitKinds_all ref ks allOf hne
  | .neg c, h => by
    simp only [valid] at h
    have ih := emitFixed_eq c h
    simp only [emitE, canon, emitE_wrapE, ih]
    simp [Fix.all, Fix.canon, wrapIf]
  | .paren c, h => by
    simp only [valid] at h
    have ih := emitFixed_eq c h
    simp [emitE, canon, ih]
  | .join op [], h => by simp [valid] at h
  | .join op (c :: cs), h => by
    simp only [valid, valids_cons, Bool.and_eq_true] at h
    have ihc := emitFixed_eq c h.2.1
    have iht := emitFixedTail_eq op cs h.2.2
    have hcc := canon_canonical c h.2.1
    have hw : canonL op.lvl (wrapE (decide (c.lvl < op.lvl)) (canon c)) = true := by
      by_cases hlt : c.lvl < op.lvl
      · simp [wrapE, hlt, canonL, canonL_mono _ _ 0 hcc (by omega)]
      · simp [wrapE, hlt, canonL_mono _ _ op.lvl hcc (by omega)]
    have hi := items_canonL op _ hw
    simp only [canon, canonItems, emitE_canon_mkJ]
    rw [emitE_canon_join_append op _ _ hi.2, emitE_items op _ hw, emitE_wrapE, ← ihc, ← iht]
    simp [emitE, Fix.all]
theorem emitFixedTail_eq (op : Op) : ∀ (cs : List Expr), valids cs = true →
    emitETail Fix.all op cs = emitETail Fix.canon op (canonItems op cs)
  | [], _ => by simp [emitETail, canonItems]
  | c :: cs, h => by
    simp only [valids_cons, Bool.and_eq_true] at h
    have ihc := emitFixed_eq c h.1
    have iht := emitFixedTail_eq op cs h.2
    have hcc := canon_canonical c h.1
    have hw : canonL op.lvl (wrapE (decide (c.lvl < op.lvl)) (canon c)) = true := by
      by_cases hlt : c.lvl < op.lvl
      · simp [wrapE, hlt, canonL, canonL_mono _ _ 0 hcc (by omega)]
      · simp [wrapE, hlt, canonL_mono _ _ op.lvl hcc (by omega)]
    simp only [canonItems, emitETail_append, emitETail_items op _ hw, emitE_wrapE, ← ihc, ← iht]
    simp [emitETail, Fix.all]
end

/-! ## normal forms: `norm` produces them, fixes them, and absorbs `canon` -/

def isJoinOp (op : Op) : Expr → Bool
  | .join op' _ => decide (op' = op)
  | _ => false

mutual
/-- hereditary normal form: no parenthetical, no one-element list, no list directly inside a list of the same
operator, kind tests over exactly one kind -/
def nf : Expr → Bool
  | .cmp _ _ _ => true
  | .isNull _ _ => true
  | .kinds _ ks allOf => allOf && decide (ks.length = 1)
  | .neg e => nf e
  | .paren _ => false
  | .join op es => decide (es.length ≠ 1) && nfs op es
def nfs (op : Op) : List Expr → Bool
  | [] => true
  | e :: es => nf e && !isJoinOp op e && nfs op es
end

theorem nfs_cons (op : Op) (e : Expr) (es : List Expr) : nfs op (e :: es) = (nf e && !isJoinOp op e && nfs op es) := by
  simp [nfs]

theorem nfs_append (op : Op) : ∀ (xs ys : List Expr), nfs op (xs ++ ys) = (nfs op xs && nfs op ys)
  | [], ys => by simp [nfs]
  | x :: xs, ys => by simp [nfs_cons, nfs_append op xs ys, Bool.and_assoc]

theorem nf_mkJ (op : Op) (xs : List Expr) (h : nfs op xs = true) : nf (mkJ op xs) = true := by
  match xs, h with
  | [], _ => simp [mkJ, nf, nfs]
  | [x], h => simp only [nfs_cons, Bool.and_eq_true] at h; simpa [mkJ] using h.1.1
  | x :: y :: r, h => simp [mkJ, nf, h]

theorem nfs_items (op : Op) (y : Expr) (h : nf y = true) : nfs op (items op y) = true := by
  cases y with
  | join op' ys =>
    simp only [nf, Bool.and_eq_true] at h
    by_cases hop : op' = op
    · subst hop; simpa [items] using h.2
    · simp [items, hop, nfs, nf, h, isJoinOp]
  | paren c => simp [nf] at h
  | _ => simp_all [items, nfs, nf, isJoinOp]

theorem mkJ_items (op : Op) (y : Expr) (h : nf y = true) : mkJ op (items op y) = y := by
  cases y with
  | join op' ys =>
    simp only [nf, Bool.and_eq_true, decide_eq_true_eq] at h
    by_cases hop : op' = op
    · subst hop
      match ys, h with
      | [], _ => simp [items, mkJ]
      | [x], h => simp at h
      | x :: y :: r, _ => simp [items, mkJ]
    · simp [items, hop, mkJ]
  | _ => simp [items, mkJ]

theorem nfs_kindAtoms (op : Op) (ref : String) : ∀ ks, nfs op (kindAtoms ref ks) = true
  | [] => by simp [kindAtoms, nfs]
  | k :: ks => by simp [kindAtoms, nfs, nf, isJoinOp, nfs_kindAtoms op ref ks]

mutual
theorem nf_norm : ∀ (e : Expr), nf (norm e) = true
  | .cmp l op r => by simp [norm, nf]
  | .isNull l b => by simp [norm, nf]
  | .kinds ref ks allOf => by simpa [norm] using nf_mkJ _ _ (nfs_kindAtoms _ ref ks)
  | .neg c => by simpa [norm, nf] using nf_norm c
  | .paren c => by simpa [norm] using nf_norm c
  | .join op es => by simpa [norm] using nf_mkJ _ _ (nfs_normItems op es)
theorem nfs_normItems (op : Op) : ∀ (es : List Expr), nfs op (normItems op es) = true
  | [] => by simp [normItems, nfs]
  | c :: cs => by
    simp [normItems, nfs_append, nfs_items op _ (nf_norm c), nfs_normItems op cs]
end

theorem items_of_not_join (op : Op) (x : Expr) (h : isJoinOp op x = false) : items op x = [x] := by
  cases x with
  | join op' xs => simp [isJoinOp] at h; simp [items, h]
  | _ => rfl

mutual
theorem norm_nf : ∀ (e : Expr), nf e = true → norm e = e
  | .cmp l op r, _ => by simp [norm]
  | .isNull l b, _ => by simp [norm]
  | .kinds ref ks allOf, h => by
    simp only [nf, Bool.and_eq_true, decide_eq_true_eq] at h
    have : allOf = true := h.1
    subst this
    match ks, h.2 with
    | [k], _ => simp [norm, kindAtoms, mkJ]
  | .neg c, h => by simp only [nf] at h; simp [norm, norm_nf c h]
  | .paren c, h => by simp [nf] at h
  | .join op es, h => by
    simp only [nf, Bool.and_eq_true, decide_eq_true_eq] at h
    have := normItems_nfs op es h.2
    simp only [norm, this]
    match es, h.1 with
    | [], _ => rfl
    | [x], h1 => simp at h1
    | x :: y :: r, _ => rfl
theorem normItems_nfs (op : Op) : ∀ (es : List Expr), nfs op es = true → normItems op es = es
  | [], _ => by simp [normItems]
  | c :: cs, h => by
    simp only [nfs_cons, Bool.and_eq_true, Bool.not_eq_true'] at h
    simp [normItems, norm_nf c h.1.1, items_of_not_join op c h.1.2, normItems_nfs op cs h.2]
end

theorem norm_idem (e : Expr) : norm (norm e) = norm e := norm_nf _ (nf_norm e)

theorem normItems_append (op : Op) : ∀ (xs ys : List Expr), normItems op (xs ++ ys) = normItems op xs ++ normItems op ys
  | [], ys => by simp [normItems]
  | x :: xs, ys => by simp [normItems, normItems_append op xs ys]

/-- B: normalising a collapsed list is the collapsed list of normal items -/
theorem norm_mkJ (op : Op) (xs : List Expr) : norm (mkJ op xs) = mkJ op (normItems op xs) := by
  match xs with
  | [] => simp [mkJ, norm]
  | [x] =>
    show norm x = mkJ op (normItems op [x])
    simp only [normItems, List.append_nil]
    exact (mkJ_items op _ (nf_norm x)).symm
  | x :: y :: r => simp [mkJ, norm]

/-- items of a list node, normalised, are the items of the normalised node -/
theorem normItems_items (op : Op) (w : Expr) : normItems op (items op w) = items op (norm w) := by
  cases w with
  | join op' xs =>
    by_cases hop : op' = op
    · subst hop
      simp only [items, if_true, norm]
      have hn := nfs_normItems op' xs
      match hL : normItems op' xs, hn with
      | [], _ => simp [mkJ, items]
      | [x], hn =>
        simp only [nfs_cons, Bool.and_eq_true, Bool.not_eq_true'] at hn
        simp only [mkJ]
        exact (items_of_not_join op' x hn.1.2).symm
      | x :: y :: r, _ => simp [mkJ, items]
    · simp [items, hop, normItems]
  | _ => simp [items, normItems]

theorem norm_wrapE (b : Bool) (e : Expr) : norm (wrapE b e) = norm e := by
  cases b <;> simp [wrapE, norm]

theorem normItems_kindAtoms (op : Op) (ref : String) : ∀ ks, normItems op (kindAtoms ref ks) = kindAtoms ref ks
  | [] => by simp [kindAtoms, normItems]
  | k :: ks => by simp [kindAtoms, normItems, norm, mkJ, items, normItems_kindAtoms op ref ks]

mutual
theorem norm_canon : ∀ (e : Expr), norm (canon e) = norm e
  | .cmp l op r => by simp [canon]
  | .isNull l b => by simp [canon]
  | .kinds ref ks allOf => by
    cases allOf with
    | true => simp [canon]
    | false =>
      match ks with
      | [] => simp [canon, norm, normItems_kindAtoms]
      | [k] => simp [canon, norm, kindAtoms, mkJ]
      | k :: k' :: r => simp [canon, norm, normItems_kindAtoms]
  | .neg c => by simp [canon, norm, norm_wrapE, norm_canon c]
  | .paren c => by simp [canon, norm, norm_canon c]
  | .join op es => by simp [canon, norm, norm_mkJ, normItems_canonItems op es]
theorem normItems_canonItems (op : Op) : ∀ (es : List Expr), normItems op (canonItems op es) = normItems op es
  | [] => by simp [canonItems]
  | c :: cs => by
    simp [canonItems, normItems_append, normItems_items, norm_wrapE, norm_canon c, normItems_canonItems op cs, normItems]
end

/-! ## on the safe sub-algebra the current emitter and the repaired one write the same tokens -/

theorem emitLit_safe (l : Lit) (h : l.integralFloat = false) : emitLit false l = emitLit true l := by
  cases l with
  | float d =>
    obtain ⟨ng, n, fr⟩ := d
    cases fr with
    | nil => simp [Lit.integralFloat] at h
    | cons a as => simp [emitLit]
  | bool b => cases b <;> rfl
  | _ => rfl

mutual
theorem emitO_safe : ∀ (o : Operand), o.hasIntegralFloat = false → emitO false o = emitO true o
  | .var v, _ => rfl
  | .prop v p, _ => rfl
  | .param s, _ => rfl
  | .lit l, h => by simp only [Operand.hasIntegralFloat] at h; simp [emitO, emitLit_safe l h]
  | .fn n a, h => by simp only [Operand.hasIntegralFloat] at h; simp [emitO, emitO_safe a h]
  | .list [], _ => rfl
  | .list (x :: xs), h => by
    simp only [Operand.hasIntegralFloat, Operand.anyIntegralFloat, Bool.or_eq_false_iff] at h
    simp [emitO, emitO_safe x h.1, emitOTail_safe xs h.2]
theorem emitOTail_safe : ∀ (xs : List Operand), Operand.anyIntegralFloat xs = false → emitOTail false xs = emitOTail true xs
  | [], _ => rfl
  | x :: xs, h => by
    simp only [Operand.anyIntegralFloat, Bool.or_eq_false_iff] at h
    simp [emitOTail, emitO_safe x h.1, emitOTail_safe xs h.2]
end

theorem emitKinds_safe (ref : String) (ks : List String) (allOf : Bool) (h : (allOf && decide (2 ≤ ks.length)) = false) :
    emitKinds Fix.none ref ks allOf = emitKinds Fix.all ref ks allOf := by
  match ks with
  | [] => rfl
  | [k] => rfl
  | k :: k' :: r =>
    have : allOf = false := by simpa using h
    subst this
    simp [emitKinds, Fix.none, Fix.all]

mutual
theorem emit_safe : ∀ (e : Expr), needsParens e = false → hasIntegralFloat e = false → hasAllOfKinds e = false →
    emitE Fix.none e = emitE Fix.all e
  | .cmp l op r, _, h2, _ => by
    simp only [hasIntegralFloat, Bool.or_eq_false_iff] at h2
    simp [emitE, Fix.none, Fix.all, emitO_safe l h2.1, emitO_safe r h2.2]
  | .isNull l b, _, h2, _ => by
    simp only [hasIntegralFloat] at h2
    simp [emitE, Fix.none, Fix.all, emitO_safe l h2]
  | .kinds ref ks allOf, _, _, h3 => by
    simp only [hasAllOfKinds] at h3
    simp [emitE, emitKinds_safe ref ks allOf h3]
  | .neg c, h1, h2, h3 => by
    simp only [needsParens, Bool.or_eq_false_iff, decide_eq_false_iff_not] at h1
    simp only [hasIntegralFloat] at h2
    simp only [hasAllOfKinds] at h3
    have ih := emit_safe c h1.2 h2 h3
    simp [emitE, ih, wrapIf, h1.1]
  | .paren c, h1, h2, h3 => by
    simp only [needsParens] at h1
    simp only [hasIntegralFloat] at h2
    simp only [hasAllOfKinds] at h3
    simp [emitE, emit_safe c h1 h2 h3]
  | .join op [], _, _, _ => rfl
  | .join op (c :: cs), h1, h2, h3 => by
    simp only [needsParens, needsParensList, Bool.or_eq_false_iff, decide_eq_false_iff_not] at h1
    simp only [hasIntegralFloat, hasIntegralFloats, Bool.or_eq_false_iff] at h2
    simp only [hasAllOfKinds, hasAllOfKindsList, Bool.or_eq_false_iff] at h3
    have ih := emit_safe c h1.1.2 h2.1 h3.1
    have iht := emitTail_safe op cs h1.2 h2.2 h3.2
    simp [emitE, ih, iht, wrapIf, h1.1.1]
theorem emitTail_safe (op : Op) : ∀ (cs : List Expr), needsParensList op cs = false → hasIntegralFloats cs = false →
    hasAllOfKindsList cs = false → emitETail Fix.none op cs = emitETail Fix.all op cs
  | [], _, _, _ => rfl
  | c :: cs, h1, h2, h3 => by
    simp only [needsParensList, Bool.or_eq_false_iff, decide_eq_false_iff_not] at h1
    simp only [hasIntegralFloats, Bool.or_eq_false_iff] at h2
    simp only [hasAllOfKindsList, Bool.or_eq_false_iff] at h3
    have ih := emit_safe c h1.1.2 h2.1 h3.1
    have iht := emitTail_safe op cs h1.2 h2.2 h3.2
    simp [emitETail, ih, iht, wrapIf, h1.1.1]
end

/-! ## string literals: quote / lex / decode -/

theorem lexBody_esc (s rest : List Char) : lexBody (escChars s ++ '\'' :: rest) = some (escChars s, rest) := by
  induction s with
  | nil => simp [escChars, lexBody]
  | cons c cs ih =>
    by_cases h1 : c = '\\'
    · subst h1; simp [escChars, lexBody, escapable, ih]
    · by_cases h2 : c = '\''
      · subst h2; simp [escChars, lexBody, escapable, ih]
      · simp only [escChars, h1, h2, if_false, List.cons_append]
        rw [lexBody]
        · simp [ih]
        all_goals (intros; simp_all)

theorem decodeBody_esc (s : List Char) : decodeBody (escChars s) = some s := by
  induction s with
  | nil => simp [escChars, decodeBody]
  | cons c cs ih =>
    by_cases h1 : c = '\\'
    · subst h1; simp [escChars, decodeBody, ih]
    · by_cases h2 : c = '\''
      · subst h2; simp [escChars, decodeBody, ih]
      · simp only [escChars, h1, h2, if_false]
        rw [decodeBody]
        · simp [ih]
        all_goals (intros; simp_all)

theorem lexStr_quote (s rest : List Char) : lexStr (quote s ++ rest) = some (s, rest) := by
  simp [quote, lexStr, lexBody_esc, decodeBody_esc]

/-! ## Prepare: hoisting a relationship kind matcher preserves meaning in conjunctive positions -/

theorem and3_comm (a b : V3) : and3 a b = and3 b a := by
  rcases a with _ | _ | _ <;> rcases b with _ | _ | _ <;> rfl
theorem and3_assoc (a b c : V3) : and3 (and3 a b) c = and3 a (and3 b c) := op3_assoc .and a b c
theorem and3_true_left (a : V3) : and3 (some true) a = a := op3_unit_left .and a
theorem and3_true_right (a : V3) : and3 a (some true) = a := op3_unit_right .and a

/-- all hoisted matchers hold (each is an any-of test) -/
def allK (v : Val) : List (List String) → V3
  | [] => some true
  | ks :: r => and3 (evalKinds v edgeSym .or ks) (allK v r)

theorem allK_append (v : Val) : ∀ (a b : List (List String)), allK v (a ++ b) = and3 (allK v a) (allK v b)
  | [], b => by simp [allK, and3_true_left]
  | x :: a, b => by simp [allK, allK_append v a b, and3_assoc]

mutual
theorem sites_neg : ∀ (e : Expr) (conj : Bool), sites true conj e = []
  | .cmp _ _ _, _ => by simp [sites]
  | .isNull _ _, _ => by simp [sites]
  | .kinds _ _ _, _ => by simp [sites]
  | .neg c, _ => by simp [sites, sites_neg c]
  | .paren c, conj => by simp [sites, sites_neg c conj]
  | .join op es, conj => by simp [sites, sitesList_neg es]
theorem sitesList_neg : ∀ (es : List Expr) (conj : Bool), sitesList true conj es = []
  | [], _ => by simp [sitesList]
  | e :: es, conj => by simp [sitesList, sites_neg e conj, sitesList_neg es conj]
end

mutual
theorem sites_false : ∀ (e : Expr) (neg : Bool), ∀ b ∈ sites neg false e, b = false
  | .cmp _ _ _, _ => by simp [sites]
  | .isNull _ _, _ => by simp [sites]
  | .kinds ref _ _, neg => by
    by_cases h : (ref = edgeSym && !neg) = true <;> simp [sites, h]
  | .neg c, _ => by simp [sites, sites_neg c]
  | .paren c, neg => by simpa [sites] using sites_false c neg
  | .join op es, neg => by simpa [sites] using sitesList_false es neg
theorem sitesList_false : ∀ (es : List Expr) (neg : Bool), ∀ b ∈ sitesList neg false es, b = false
  | [], _ => by simp [sitesList]
  | e :: es, neg => by
    intro b hb
    simp only [sitesList, List.mem_append] at hb
    rcases hb with hb | hb
    · exact sites_false e neg b hb
    · exact sitesList_false es neg b hb
end

theorem sites_false_nil {e : Expr} {neg : Bool} (h : ∀ b ∈ sites neg false e, b = true) : sites neg false e = [] := by
  cases hs : sites neg false e with
  | nil => rfl
  | cons b r =>
    have h1 := h b (by simp [hs])
    have h2 := sites_false e neg b (by simp [hs])
    simp_all

theorem sitesList_false_nil {es : List Expr} {neg : Bool} (h : ∀ b ∈ sitesList neg false es, b = true) :
    sitesList neg false es = [] := by
  cases hs : sitesList neg false es with
  | nil => rfl
  | cons b r =>
    have h1 := h b (by simp [hs])
    have h2 := sitesList_false es neg b (by simp [hs])
    simp_all

def isEmptyJoin : Expr → Bool
  | .join _ [] => true
  | _ => false

/-- what the induction carries for one node -/
structure PrepGood (v : Val) (neg conj inList : Bool) (e : Expr) (h : List (List String)) (r : Option Expr) : Prop where
  ev : and3 (allK v h) (evalOpt v r) = eval v e
  keep : inList = false → ∃ e', r = some e'
  nos : sites neg conj e = [] → h = [] ∧ ∃ e', r = some e' ∧ isEmptyJoin e' = false
  len : h.length = (sites neg conj e).length
  emp : ∀ op, r = some (.join op []) → op = .and
  ne : ∀ ks ∈ h, ks ≠ []

structure PrepGoodList (v : Val) (neg c : Bool) (es : List Expr) (h : List (List String)) (es' : List Expr) : Prop where
  len : h.length = (sitesList neg c es).length
  ne : ∀ ks ∈ h, ks ≠ []
  nos : sitesList neg c es = [] → h = [] ∧ es'.length = es.length ∧ ∀ op, evalList v op es' = evalList v op es
  ev : c = true → and3 (allK v h) (evalList v .and es') = evalList v .and es

theorem evalList_consOpt_and (v : Val) (r : Option Expr) (xs : List Expr) :
    evalList v .and (consOpt r xs) = and3 (evalOpt v r) (evalList v .and xs) := by
  cases r with
  | none => simp [consOpt, evalOpt, and3_true_left]
  | some x => simp [consOpt, evalOpt, evalList_cons, op3]

theorem and3_swap (a b c : V3) : and3 (and3 a b) (and3 c d) = and3 (and3 a c) (and3 b d) := by
  rcases a with _ | _ | _ <;> rcases b with _ | _ | _ <;> rcases c with _ | _ | _ <;> rcases d with _ | _ | _ <;> rfl

mutual
theorem prep_good (v : Val) : ∀ (e : Expr) (neg conj inList : Bool) (h : List (List String)) (r : Option Expr),
    valid e = true → (∀ b ∈ sites neg conj e, b = true) → prep false neg inList e = some (h, r) →
    PrepGood v neg conj inList e h r
  | .cmp l op ro, neg, conj, inList, h, r, _, _, hp => by
    simp only [prep, Option.some.injEq, Prod.mk.injEq] at hp
    obtain ⟨rfl, rfl⟩ := hp
    exact ⟨by simp [allK, evalOpt, and3_true_left], fun _ => ⟨_, rfl⟩, fun _ => ⟨rfl, _, rfl, rfl⟩, by simp [sites],
      by intro op hh; simp at hh, by simp⟩
  | .isNull l b, neg, conj, inList, h, r, _, _, hp => by
    simp only [prep, Option.some.injEq, Prod.mk.injEq] at hp
    obtain ⟨rfl, rfl⟩ := hp
    exact ⟨by simp [allK, evalOpt, and3_true_left], fun _ => ⟨_, rfl⟩, fun _ => ⟨rfl, _, rfl, rfl⟩, by simp [sites],
      by intro op hh; simp at hh, by simp⟩
  | .kinds ref ks a, neg, conj, inList, h, r, hv, hs, hp => by
    by_cases hc : (ref = edgeSym && !neg) = true
    · -- hoisted
      have hflag : (conj && !(a && decide (2 ≤ ks.length))) = true := hs _ (by simp [sites, hc])
      cases inList with
      | false => simp [prep, hc] at hp
      | true =>
        simp only [prep, hc, if_true, Option.some.injEq, Prod.mk.injEq] at hp
        obtain ⟨rfl, rfl⟩ := hp
        simp only [Bool.and_eq_true, decide_eq_true_eq] at hc
        have hks : ks ≠ [] := by
          intro hh; simp [valid, hh] at hv
        refine ⟨?_, by simp, by simp [sites, hc], by simp [sites, hc], by intro op hh; simp at hh, by simpa using hks⟩
        -- a kind matcher on r means "any of ks" whatever the exclusivity flag says? no: the flag matters
        simp only [allK, evalOpt, and3_true_right, eval, hc.1]
        cases a with
        | false => rfl
        | true =>
          -- an exclusive matcher over the relationship variable is read by the rewriter as any-of as well
          cases ks with
          | nil => exact absurd rfl hks
          | cons k ks' =>
            cases ks' with
            | nil => simp [evalKinds, op3, unit3]; rcases v.kind edgeSym k with _ | _ | _ <;> rfl
            | cons k' ks'' => simp at hflag
    · have hc' : (ref = edgeSym && !neg) = false := by simpa using hc
      simp only [prep, hc', Bool.false_eq_true, if_false, Option.some.injEq, Prod.mk.injEq] at hp
      obtain ⟨rfl, rfl⟩ := hp
      exact ⟨by simp [allK, evalOpt, and3_true_left], fun _ => ⟨_, rfl⟩, fun _ => ⟨rfl, _, rfl, rfl⟩, by simp [sites, hc'],
        by intro op hh; simp at hh, by simp⟩
  | .neg c, neg, conj, inList, h, r, hv, hs, hp => by
    simp only [valid] at hv
    simp only [prep] at hp
    cases hq : prep false true false c with
    | none => simp [hq] at hp
    | some p =>
      obtain ⟨h0, r0⟩ := p
      simp only [hq, Option.some.injEq, Prod.mk.injEq] at hp
      obtain ⟨rfl, rfl⟩ := hp
      have g := prep_good v c true false false h0 r0 hv (by simp [sites_neg]) hq
      obtain ⟨rfl, c', rfl, _⟩ := g.nos (sites_neg c false)
      have hev := g.ev
      simp only [allK, evalOpt, and3_true_left] at hev
      exact ⟨by simp [allK, evalOpt, and3_true_left, negExit, eval, hev], fun _ => ⟨_, rfl⟩,
        fun _ => ⟨rfl, _, rfl, by simp [negExit, isEmptyJoin]⟩, by simp [sites, sites_neg],
        by intro op hh; simp [negExit] at hh, by simp⟩
  | .paren c, neg, conj, inList, h, r, hv, hs, hp => by
    simp only [valid] at hv
    simp only [prep] at hp
    cases hq : prep false neg false c with
    | none => simp [hq] at hp
    | some p =>
      obtain ⟨h0, r0⟩ := p
      simp only [hq, Option.some.injEq, Prod.mk.injEq] at hp
      obtain ⟨rfl, rfl⟩ := hp
      have g := prep_good v c neg conj false h0 r0 hv (by simpa [sites] using hs) hq
      obtain ⟨c', rfl⟩ := g.keep rfl
      have hev := g.ev
      simp only [evalOpt] at hev
      simp only [Option.getD_some]
      refine ⟨?_, ?_, ?_, by simpa [sites] using g.len, ?_, g.ne⟩
      · -- ev
        match c', hev, g.emp with
        | .join op [], hev, hemp =>
          have : op = .and := hemp op rfl
          subst this
          cases inList <;> simp [parenExit, evalOpt, eval, evalList_nil, unit3] at hev ⊢ <;> exact hev
        | .join op [x], hev, _ =>
          simpa [parenExit, evalOpt, eval, evalList_cons, evalList_nil, op3_unit_right] using hev
        | .join op (x :: y :: zs), hev, _ => simpa [parenExit, evalOpt, eval] using hev
        | .cmp _ _ _, hev, _ => simpa [parenExit, evalOpt, eval] using hev
        | .isNull _ _, hev, _ => simpa [parenExit, evalOpt, eval] using hev
        | .kinds _ _ _, hev, _ => simpa [parenExit, evalOpt, eval] using hev
        | .neg _, hev, _ => simpa [parenExit, evalOpt, eval] using hev
        | .paren _, hev, _ => simpa [parenExit, evalOpt, eval] using hev
      · intro hi; subst hi
        match c' with
        | .join op [] => exact ⟨_, rfl⟩
        | .join op [x] => exact ⟨_, rfl⟩
        | .join op (x :: y :: zs) => exact ⟨_, rfl⟩
        | .cmp _ _ _ => exact ⟨_, rfl⟩
        | .isNull _ _ => exact ⟨_, rfl⟩
        | .kinds _ _ _ => exact ⟨_, rfl⟩
        | .neg _ => exact ⟨_, rfl⟩
        | .paren _ => exact ⟨_, rfl⟩
      · intro hn
        obtain ⟨rfl, e', he', hne⟩ := g.nos (by simpa [sites] using hn)
        simp only [Option.some.injEq] at he'
        subst he'
        refine ⟨rfl, ?_⟩
        match c', hne with
        | .join op [], hne => simp [isEmptyJoin] at hne
        | .join op [x], _ => exact ⟨_, rfl, rfl⟩
        | .join op (x :: y :: zs), _ => exact ⟨_, rfl, rfl⟩
        | .cmp _ _ _, _ => exact ⟨_, rfl, rfl⟩
        | .isNull _ _, _ => exact ⟨_, rfl, rfl⟩
        | .kinds _ _ _, _ => exact ⟨_, rfl, rfl⟩
        | .neg _, _ => exact ⟨_, rfl, rfl⟩
        | .paren _, _ => exact ⟨_, rfl, rfl⟩
      · intro op hh
        match c', hh with
        | .join op' [], hh => cases inList <;> simp [parenExit] at hh
        | .join op' [x], hh => simp [parenExit] at hh
        | .join op' (x :: y :: zs), hh => simp [parenExit] at hh
        | .cmp _ _ _, hh => simp [parenExit] at hh
        | .isNull _ _, hh => simp [parenExit] at hh
        | .kinds _ _ _, hh => simp [parenExit] at hh
        | .neg _, hh => simp [parenExit] at hh
        | .paren _, hh => simp [parenExit] at hh
  | .join op es, neg, conj, inList, h, r, hv, hs, hp => by
    simp only [valid, Bool.and_eq_true, Bool.not_eq_true', List.isEmpty_eq_false_iff] at hv
    simp only [prep] at hp
    cases hq : prepList false neg es with
    | none => simp [hq] at hp
    | some p =>
      obtain ⟨h0, es'⟩ := p
      simp only [hq, Option.some.injEq, Prod.mk.injEq] at hp
      obtain ⟨rfl, rfl⟩ := hp
      have hs' : ∀ b ∈ sitesList neg (conj && decide (op = .and)) es, b = true := by simpa [sites] using hs
      have g := prepList_good v es neg (conj && decide (op = .and)) h0 es' hv.2 hs' hq
      have hlen : es.length ≠ 0 := by
        intro hh; exact hv.1 (List.length_eq_zero_iff.mp hh)
      by_cases hc : (conj && decide (op = .and)) = true
      · have hop : op = .and := by simp only [Bool.and_eq_true, decide_eq_true_eq] at hc; exact hc.2
        subst hop
        have hev := g.ev hc
        refine ⟨?_, ?_, ?_, by simpa [sites] using g.len, ?_, g.ne⟩
        · cases es' with
          | nil => cases inList <;> simp [joinExit, evalOpt, eval, evalList_nil, unit3] at hev ⊢ <;> exact hev
          | cons x xs => simpa [joinExit, evalOpt, eval] using hev
        · intro hi; subst hi; exact ⟨.join .and es', by simp [joinExit]⟩
        · intro hn
          obtain ⟨rfl, hl, _⟩ := g.nos (by simpa [sites] using hn)
          have hne : es'.isEmpty = false := by
            cases es' with
            | nil => simp at hl; exact absurd hl.symm hlen
            | cons _ _ => rfl
          refine ⟨rfl, .join .and es', by simp [joinExit, hne], ?_⟩
          cases es' with
          | nil => simp at hne
          | cons _ _ => rfl
        · intro op' hh
          by_cases hem : (es'.isEmpty && inList) = true
          · simp [joinExit, hem] at hh
          · have hem' : (es'.isEmpty && inList) = false := by simpa using hem
            simp only [joinExit, hem', Bool.false_eq_true, if_false, Option.some.injEq, Expr.join.injEq] at hh
            exact hh.1.symm
      · have hc' : (conj && decide (op = .and)) = false := by simpa using hc
        rw [hc'] at hs' g
        have hnil := sitesList_false_nil hs'
        obtain ⟨rfl, hl, hev⟩ := g.nos hnil
        have hne : es'.isEmpty = false := by
          cases es' with
          | nil => simp at hl; exact absurd hl.symm hlen
          | cons _ _ => rfl
        have hsites : sites neg conj (.join op es) = [] := by simp [sites, hc', hnil]
        refine ⟨by simp [joinExit, hne, allK, evalOpt, eval, and3_true_left, hev op], fun _ => ⟨.join op es', by simp [joinExit, hne]⟩,
          fun _ => ⟨rfl, .join op es', by simp [joinExit, hne], ?_⟩, by simp [hsites], ?_, by simp⟩
        · cases es' with
          | nil => simp at hne
          | cons _ _ => rfl
        · intro op' hh
          simp only [joinExit, hne, Bool.false_and, Bool.false_eq_true, if_false, Option.some.injEq, Expr.join.injEq] at hh
          rw [hh.2] at hne; simp at hne
theorem prepList_good (v : Val) : ∀ (es : List Expr) (neg c : Bool) (h : List (List String)) (es' : List Expr),
    valids es = true → (∀ b ∈ sitesList neg c es, b = true) → prepList false neg es = some (h, es') →
    PrepGoodList v neg c es h es'
  | [], neg, c, h, es', _, _, hp => by
    simp only [prepList, Option.some.injEq, Prod.mk.injEq] at hp
    obtain ⟨rfl, rfl⟩ := hp
    exact ⟨by simp [sitesList], by simp, fun _ => ⟨rfl, rfl, fun _ => rfl⟩, fun _ => by simp [allK, and3_true_left]⟩
  | e :: es, neg, c, h, es', hv, hs, hp => by
    simp only [valids_cons, Bool.and_eq_true] at hv
    simp only [prepList] at hp
    cases hq : prep false neg true e with
    | none => simp [hq] at hp
    | some p =>
      cases hq2 : prepList false neg es with
      | none => simp [hq, hq2] at hp
      | some q =>
        obtain ⟨h1, r1⟩ := p
        obtain ⟨h2, rs⟩ := q
        simp only [hq, hq2, Option.some.injEq, Prod.mk.injEq] at hp
        obtain ⟨rfl, rfl⟩ := hp
        have hs1 : ∀ b ∈ sites neg c e, b = true := fun b hb => hs b (by simp [sitesList, hb])
        have hs2 : ∀ b ∈ sitesList neg c es, b = true := fun b hb => hs b (by simp [sitesList, hb])
        have g1 := prep_good v e neg c true h1 r1 hv.1 hs1 hq
        have g2 := prepList_good v es neg c h2 rs hv.2 hs2 hq2
        refine ⟨by simp [sitesList, g1.len, g2.len], ?_, ?_, ?_⟩
        · intro ks hks
          simp only [List.mem_append] at hks
          rcases hks with hks | hks
          · exact g1.ne ks hks
          · exact g2.ne ks hks
        · intro hn
          simp only [sitesList, List.append_eq_nil_iff] at hn
          obtain ⟨rfl, e', rfl, _⟩ := g1.nos hn.1
          obtain ⟨rfl, hl, hev⟩ := g2.nos hn.2
          have he := g1.ev
          simp only [allK, evalOpt, and3_true_left] at he
          exact ⟨rfl, by simp [consOpt, hl], fun op => by simp [consOpt, evalList_cons, he, hev op]⟩
        · intro hc
          have he := g1.ev
          have hl := g2.ev hc
          rw [evalList_consOpt_and, allK_append, evalList_cons, ← he, ← hl]
          simp only [op3]
          exact and3_swap _ _ _
end

/-! ## `valid` is exactly its two clauses -/
mutual
theorem valid_split : ∀ (e : Expr), valid e = (listsNonEmpty e && literalsInRange e)
  | .cmp l op r => by simp [valid, listsNonEmpty, literalsInRange]
  | .isNull l b => by simp [valid, listsNonEmpty, literalsInRange]
  | .kinds ref ks a => by simp [valid, listsNonEmpty, literalsInRange]
  | .neg c => by simp [valid, listsNonEmpty, literalsInRange, valid_split c]
  | .paren c => by simp [valid, listsNonEmpty, literalsInRange, valid_split c]
  | .join op es => by
    simp only [valid, listsNonEmpty, literalsInRange, valids_split es]
    cases es.isEmpty <;> simp [Bool.and_assoc]
theorem valids_split : ∀ (es : List Expr), valids es = (listsNonEmptyAll es && literalsInRangeAll es)
  | [] => by simp [valids, listsNonEmptyAll, literalsInRangeAll]
  | e :: es => by
    simp only [valids, listsNonEmptyAll, literalsInRangeAll, valid_split e, valids_split es]
    cases listsNonEmpty e <;> cases literalsInRange e <;> cases listsNonEmptyAll es <;> cases literalsInRangeAll es <;> rfl
end

/-! ## Prepare as it is (fix7): meaning preserved for every valid term -/

structure PrepFix7 (v : Val) (busy neg conj inList : Bool) (e : Expr) (h : List (List String)) (r : Option Expr) : Prop where
  ev : and3 (allK v h) (evalOpt v r) = eval v e
  keep : inList = false → ∃ e', r = some e'
  len : h.length ≤ 1
  nohoist : (busy = true ∨ neg = true ∨ conj = false) → h = []
  same : h = [] → ∃ e', r = some e' ∧ isEmptyJoin e' = false
  emp : ∀ op, r = some (.join op []) → op = .and
  ne : ∀ ks ∈ h, ks ≠ []

structure PrepFix7List (v : Val) (busy neg c : Bool) (es : List Expr) (h : List (List String)) (es' : List Expr) : Prop where
  len : h.length ≤ 1
  ne : ∀ ks ∈ h, ks ≠ []
  nohoist : (busy = true ∨ neg = true ∨ c = false) → h = []
  same : h = [] → es'.length = es.length ∧ ∀ op, evalList v op es' = evalList v op es
  ev : c = true → and3 (allK v h) (evalList v .and es') = evalList v .and es

theorem prepFix7_unchanged (v : Val) (e : Expr) (busy neg conj inList : Bool) (hne : isEmptyJoin e = false) :
    PrepFix7 v busy neg conj inList e [] (some e) :=
  ⟨by simp [allK, evalOpt, and3_true_left], fun _ => ⟨_, rfl⟩, by simp, fun _ => rfl, fun _ => ⟨_, rfl, hne⟩,
    by intro op hh; simp only [Option.some.injEq] at hh; rw [hh] at hne; simp [isEmptyJoin] at hne, by simp⟩

mutual
theorem prepFix7_good (v : Val) : ∀ (e : Expr) (busy neg conj inList : Bool), valid e = true →
    PrepFix7 v busy neg conj inList e (prepFix7 false busy neg conj inList e).1 (prepFix7 false busy neg conj inList e).2
  | .cmp l op ro, busy, neg, conj, inList, _ => by
    simpa [prepFix7] using prepFix7_unchanged v (.cmp l op ro) busy neg conj inList rfl
  | .isNull l b, busy, neg, conj, inList, _ => by
    simpa [prepFix7] using prepFix7_unchanged v (.isNull l b) busy neg conj inList rfl
  | .kinds ref ks a, busy, neg, conj, inList, hv => by
    by_cases hc : (ref = edgeSym && !neg && conj && inList && !busy && !(a && decide (2 ≤ ks.length))) = true
    · simp only [prepFix7, hc, if_true]
      simp only [Bool.and_eq_true, decide_eq_true_eq, Bool.not_eq_true'] at hc
      obtain ⟨⟨⟨⟨⟨href, hneg⟩, hconj⟩, hin⟩, hbusy⟩, hany⟩ := hc
      have hks : ks ≠ [] := by intro hh; simp [valid, hh] at hv
      refine ⟨?_, ?_, by simp, ?_, by simp, ?_, by simpa using hks⟩
      · simp only [allK, evalOpt, and3_true_right, eval, href]
        cases a with
        | false => rfl
        | true =>
          cases ks with
          | nil => exact absurd rfl hks
          | cons k ks' =>
            cases ks' with
            | nil => simp [evalKinds, op3, unit3]; rcases v.kind edgeSym k with _ | _ | _ <;> rfl
            | cons k' ks'' => simp at hany
      · intro hh; rw [hin] at hh; cases hh
      · intro hh
        rcases hh with hh | hh | hh
        · rw [hh] at hbusy; cases hbusy
        · rw [hh] at hneg; cases hneg
        · rw [hh] at hconj; cases hconj
      · intro op hh; simp at hh
    · have hc' : (ref = edgeSym && !neg && conj && inList && !busy && !(a && decide (2 ≤ ks.length))) = false := by simpa using hc
      simp only [prepFix7, hc', Bool.false_eq_true, if_false]
      exact prepFix7_unchanged v _ busy neg conj inList rfl
  | .neg c, busy, neg, conj, inList, hv => by
    simp only [valid] at hv
    have g := prepFix7_good v c busy true false false hv
    have hnil := g.nohoist (Or.inr (Or.inl rfl))
    obtain ⟨c', hc', _⟩ := g.same hnil
    have hev := g.ev
    simp only [hnil, hc', allK, evalOpt, and3_true_left] at hev
    simp only [prepFix7, hnil, hc', Option.getD_some, negExit, Bool.false_and, Bool.false_eq_true, if_false]
    exact ⟨by simp [allK, evalOpt, and3_true_left, eval, hev], fun _ => ⟨_, rfl⟩, by simp, fun _ => rfl,
      fun _ => ⟨_, rfl, rfl⟩, by intro op hh; simp at hh, by simp⟩
  | .paren c, busy, neg, conj, inList, hv => by
    simp only [valid] at hv
    have g := prepFix7_good v c busy neg conj false hv
    obtain ⟨c', hc'⟩ := g.keep rfl
    have hev := g.ev
    have hemp := g.emp
    have hsame := g.same
    simp only [hc', evalOpt] at hev hemp hsame
    simp only [prepFix7, hc', Option.getD_some]
    refine ⟨?_, ?_, g.len, g.nohoist, ?_, ?_, g.ne⟩
    · match c', hev, hemp with
      | .join op [], hev, hemp =>
        have : op = .and := hemp op rfl
        subst this
        cases inList <;> simp [parenExit, evalOpt, eval, evalList_nil, unit3] at hev ⊢ <;> exact hev
      | .join op [x], hev, _ =>
        simpa [parenExit, evalOpt, eval, evalList_cons, evalList_nil, op3_unit_right] using hev
      | .join op (x :: y :: zs), hev, _ => simpa [parenExit, evalOpt, eval] using hev
      | .cmp _ _ _, hev, _ => simpa [parenExit, evalOpt, eval] using hev
      | .isNull _ _, hev, _ => simpa [parenExit, evalOpt, eval] using hev
      | .kinds _ _ _, hev, _ => simpa [parenExit, evalOpt, eval] using hev
      | .neg _, hev, _ => simpa [parenExit, evalOpt, eval] using hev
      | .paren _, hev, _ => simpa [parenExit, evalOpt, eval] using hev
    · intro hi; subst hi
      match c' with
      | .join op [] => exact ⟨_, rfl⟩
      | .join op [x] => exact ⟨_, rfl⟩
      | .join op (x :: y :: zs) => exact ⟨_, rfl⟩
      | .cmp _ _ _ => exact ⟨_, rfl⟩
      | .isNull _ _ => exact ⟨_, rfl⟩
      | .kinds _ _ _ => exact ⟨_, rfl⟩
      | .neg _ => exact ⟨_, rfl⟩
      | .paren _ => exact ⟨_, rfl⟩
    · intro hn
      obtain ⟨e', he', hne⟩ := hsame hn
      simp only [Option.some.injEq] at he'
      subst he'
      match c', hne with
      | .join op [], hne => simp [isEmptyJoin] at hne
      | .join op [x], _ => exact ⟨_, rfl, rfl⟩
      | .join op (x :: y :: zs), _ => exact ⟨_, rfl, rfl⟩
      | .cmp _ _ _, _ => exact ⟨_, rfl, rfl⟩
      | .isNull _ _, _ => exact ⟨_, rfl, rfl⟩
      | .kinds _ _ _, _ => exact ⟨_, rfl, rfl⟩
      | .neg _, _ => exact ⟨_, rfl, rfl⟩
      | .paren _, _ => exact ⟨_, rfl, rfl⟩
    · intro op hh
      match c', hh with
      | .join op' [], hh => cases inList <;> simp [parenExit] at hh
      | .join op' [x], hh => simp [parenExit] at hh
      | .join op' (x :: y :: zs), hh => simp [parenExit] at hh
      | .cmp _ _ _, hh => simp [parenExit] at hh
      | .isNull _ _, hh => simp [parenExit] at hh
      | .kinds _ _ _, hh => simp [parenExit] at hh
      | .neg _, hh => simp [parenExit] at hh
      | .paren _, hh => simp [parenExit] at hh
  | .join op es, busy, neg, conj, inList, hv => by
    simp only [valid, Bool.and_eq_true, Bool.not_eq_true', List.isEmpty_eq_false_iff] at hv
    have g := prepListFix7_good v es busy neg (conj && decide (op = .and)) hv.2
    have hlen : es.length ≠ 0 := by
      intro hh; exact hv.1 (List.length_eq_zero_iff.mp hh)
    simp only [prepFix7]
    generalize hp : prepListFix7 false busy neg (conj && decide (op = .and)) es = p at g
    obtain ⟨h0, es'⟩ := p
    simp only at g ⊢
    have hsameJ : h0 = [] → ∃ e', joinExit inList op es' = some e' ∧ isEmptyJoin e' = false := by
      intro hn
      obtain ⟨hl, _⟩ := g.same hn
      cases es' with
      | nil => simp at hl; exact absurd hl.symm hlen
      | cons x xs => exact ⟨.join op (x :: xs), by simp [joinExit], rfl⟩
    have hnoh : (busy = true ∨ neg = true ∨ conj = false) → h0 = [] := by
      intro hh
      apply g.nohoist
      rcases hh with hh | hh | hh
      · exact Or.inl hh
      · exact Or.inr (Or.inl hh)
      · exact Or.inr (Or.inr (by simp [hh]))
    refine ⟨?_, fun hi => by subst hi; exact ⟨.join op es', by simp [joinExit]⟩, g.len, hnoh, hsameJ, ?_, g.ne⟩
    · by_cases hc : (conj && decide (op = .and)) = true
      · have hop : op = .and := by simp only [Bool.and_eq_true, decide_eq_true_eq] at hc; exact hc.2
        subst hop
        have hev := g.ev hc
        cases es' with
        | nil => cases inList <;> simp [joinExit, evalOpt, eval, evalList_nil, unit3] at hev ⊢ <;> exact hev
        | cons x xs => simpa [joinExit, evalOpt, eval] using hev
      · have hc' : (conj && decide (op = .and)) = false := by simpa using hc
        have hn := g.nohoist (Or.inr (Or.inr hc'))
        obtain ⟨hl, hev⟩ := g.same hn
        cases es' with
        | nil => simp at hl; exact absurd hl.symm hlen
        | cons x xs => simp [hn, joinExit, allK, evalOpt, eval, and3_true_left, hev op]
    · intro op' hh
      cases es' with
      | cons x xs => simp [joinExit] at hh
      | nil =>
        have hop' : op' = op := by
          cases inList <;> simp [joinExit] at hh
          exact hh.symm
        subst hop'
        by_cases hc : (conj && decide (op' = .and)) = true
        · simp only [Bool.and_eq_true, decide_eq_true_eq] at hc; exact hc.2
        · have hc' : (conj && decide (op' = .and)) = false := by simpa using hc
          have hn := g.nohoist (Or.inr (Or.inr hc'))
          obtain ⟨hl, _⟩ := g.same hn
          simp at hl; exact absurd hl.symm hlen
theorem prepListFix7_good (v : Val) : ∀ (es : List Expr) (busy neg c : Bool), valids es = true →
    PrepFix7List v busy neg c es (prepListFix7 false busy neg c es).1 (prepListFix7 false busy neg c es).2
  | [], busy, neg, c, _ => by
    simp only [prepListFix7]
    exact ⟨by simp, by simp, fun _ => rfl, fun _ => ⟨rfl, fun _ => rfl⟩, fun _ => by simp [allK, and3_true_left]⟩
  | e :: es, busy, neg, c, hv => by
    simp only [valids_cons, Bool.and_eq_true] at hv
    have g1 := prepFix7_good v e busy neg c true hv.1
    simp only [prepListFix7]
    generalize hp : prepFix7 false busy neg c true e = p at g1
    obtain ⟨h1, r1⟩ := p
    simp only at g1 ⊢
    have g2 := prepListFix7_good v es (busy || !h1.isEmpty) neg c hv.2
    generalize hq : prepListFix7 false (busy || !h1.isEmpty) neg c es = q at g2
    obtain ⟨h2, rs⟩ := q
    simp only at g2 ⊢
    have hone : h1 = [] ∨ h2 = [] := by
      cases h1 with
      | nil => exact Or.inl rfl
      | cons a as => exact Or.inr (g2.nohoist (Or.inl (by simp)))
    refine ⟨?_, ?_, ?_, ?_, ?_⟩
    · rcases hone with hh | hh
      · simpa [hh] using g2.len
      · simpa [hh] using g1.len
    · intro ks hks
      simp only [List.mem_append] at hks
      rcases hks with hks | hks
      · exact g1.ne ks hks
      · exact g2.ne ks hks
    · intro hh
      have h1n : h1 = [] := g1.nohoist hh
      have h2n : h2 = [] := g2.nohoist (by
        rcases hh with hh | hh | hh
        · exact Or.inl (by simp [hh])
        · exact Or.inr (Or.inl hh)
        · exact Or.inr (Or.inr hh))
      simp [h1n, h2n]
    · intro hn
      simp only [List.append_eq_nil_iff] at hn
      obtain ⟨e', he', _⟩ := g1.same hn.1
      obtain ⟨hl, hev⟩ := g2.same hn.2
      have he := g1.ev
      simp only [hn.1, he', allK, evalOpt, and3_true_left] at he
      exact ⟨by simp [he', consOpt, hl], fun op => by simp [he', consOpt, evalList_cons, he, hev op]⟩
    · intro hc
      have he := g1.ev
      have hl := g2.ev hc
      rw [evalList_consOpt_and, allK_append, evalList_cons, ← he, ← hl]
      simp only [op3]
      exact and3_swap _ _ _
end

end Dawgs.C10
