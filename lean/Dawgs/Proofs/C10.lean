/- Helper lemmas for C10 (property statements live in Props/C10.lean). Core Lean only. -/
import Dawgs.Spec.C10
set_option linter.unusedSimpArgs false
set_option linter.unusedVariables false
namespace Dawgs.C10

/-! ## three-valued algebra: every list operator is a monoid -/

theorem op3_assoc (op : Op) (a b c : V3) : op3 op (op3 op a b) c = op3 op a (op3 op b c) := by
  cases op <;> rcases a with _ | _ | _ <;> rcases b with _ | _ | _ <;> rcases c with _ | _ | _ <;> rfl

theorem op3_unit_left (op : Op) (a : V3) : op3 op (unit3 op) a = a := by
  cases op <;> rcases a with _ | _ | _ <;> rfl

theorem op3_unit_right (op : Op) (a : V3) : op3 op a (unit3 op) = a := by
  cases op <;> rcases a with _ | _ | _ <;> rfl

theorem evalList_nil (v : Val) (op : Op) : evalList v op [] = unit3 op := by simp [evalList]
theorem evalList_cons (v : Val) (op : Op) (e : Expr) (es : List Expr) :
    evalList v op (e :: es) = op3 op (eval v e) (evalList v op es) := by simp [evalList]

theorem evalList_append (v : Val) (op : Op) : ∀ (xs ys : List Expr),
    evalList v op (xs ++ ys) = op3 op (evalList v op xs) (evalList v op ys)
  | [], ys => by simp [evalList_nil, op3_unit_left]
  | x :: xs, ys => by
    simp only [List.cons_append, evalList_cons, evalList_append v op xs ys, op3_assoc]

theorem eval_join (v : Val) (op : Op) (es : List Expr) : eval v (.join op es) = evalList v op es := by
  simp [eval]

theorem eval_mkJ (v : Val) (op : Op) (xs : List Expr) : eval v (mkJ op xs) = evalList v op xs := by
  match xs with
  | [] => simp [mkJ, eval_join]
  | [x] => simp [mkJ, evalList_cons, evalList_nil, op3_unit_right]
  | x :: y :: r => simp [mkJ, eval_join]

theorem evalList_items (v : Val) (op : Op) (e : Expr) : evalList v op (items op e) = eval v e := by
  cases e with
  | join op' xs =>
    by_cases h : op' = op
    · subst h; simp [items, eval_join]
    · simp [items, h, evalList_cons, evalList_nil, op3_unit_right]
  | _ => simp [items, evalList_cons, evalList_nil, op3_unit_right]

theorem evalList_kindAtoms (v : Val) (ref : String) (op : Op) : ∀ ks,
    evalList v op (kindAtoms ref ks) = evalKinds v ref op ks
  | [] => by simp [kindAtoms, evalList_nil, evalKinds]
  | k :: ks => by
    simp [kindAtoms, evalList_cons, evalKinds, evalList_kindAtoms v ref op ks, eval, op3_unit_right]

mutual
theorem eval_norm (v : Val) : ∀ e, eval v (norm e) = eval v e
  | .cmp l op r => by simp [norm]
  | .isNull l b => by simp [norm]
  | .kinds ref ks allOf => by
    simp only [norm, eval_mkJ, evalList_kindAtoms]; simp [eval]
  | .neg e => by simp [norm, eval, eval_norm v e]
  | .paren e => by simp [norm, eval, eval_norm v e]
  | .join op es => by simp [norm, eval_mkJ, eval_join, evalList_normItems v op es]
theorem evalList_normItems (v : Val) (op : Op) : ∀ es, evalList v op (normItems op es) = evalList v op es
  | [] => by simp [normItems]
  | e :: es => by
    simp [normItems, evalList_append, evalList_items, eval_norm v e, evalList_normItems v op es, evalList_cons]
end

/-! ## operand level: the parser inverts the (repaired) literal/operand printer -/

mutual
def needO : Operand → Nat
  | .fn _ a => needO a + 1
  | .list xs => needOs xs + 2
  | _ => 1
def needOs : List Operand → Nat
  | [] => 1
  | x :: xs => needO x + needOs xs + 1
end

def oFollow : List Tok → Bool
  | .dot :: _ => false
  | .lp :: _ => false
  | _ => true

theorem stripZ_fix (fr : List Nat) (h : stripZ fr = fr) : stripZ (match fr with | [] => [0] | _ :: _ => fr) = fr := by
  cases fr with
  | nil => rfl
  | cons d ds => simpa using h

theorem parseO_lit (l : Lit) (hl : l.ok = true) (f : Nat) (rest : List Tok) :
    parseO (f + 1) (emitLit true l ++ rest) = some (.lit l, rest) := by
  cases l with
  | null => simp [emitLit, parseO]
  | bool b => cases b <;> simp [emitLit, parseO]
  | int i =>
    simp only [Lit.ok, decide_eq_true_eq] at hl
    by_cases h : i < 0
    · simp [emitLit, h, parseO, hl]; omega
    · have h2 : i.toNat ≤ maxI := by omega
      simp [emitLit, h, parseO, h2]; omega
  | float d =>
    simp only [Lit.ok, decide_eq_true_eq] at hl
    obtain ⟨ng, n, fr⟩ := d
    simp only at hl
    cases ng <;> cases fr with
    | nil => simp [emitLit, parseO, stripZ]
    | cons a as => simp [emitLit, parseO, hl]
  | str s => simp [emitLit, parseO]


theorem oks_cons (x : Operand) (xs : List Operand) : Operand.oks (x :: xs) = (x.ok && Operand.oks xs) := by
  simp [Operand.oks]

mutual
theorem parseO_emit : ∀ (o : Operand), o.ok = true → ∀ f, needO o ≤ f → ∀ rest, oFollow rest = true →
    parseO f (emitO true o ++ rest) = some (o, rest)
  | .var v, _, f, hf, rest, hr => by
    cases f with
    | zero => simp [needO] at hf
    | succ f =>
      simp only [emitO, List.cons_append, List.nil_append, parseO]
      split
      · simp [oFollow] at hr
      · simp [oFollow] at hr
      · rfl
  | .prop v p, _, f, hf, rest, _ => by
    cases f with
    | zero => simp [needO] at hf
    | succ f => simp [emitO, parseO]
  | .param s, _, f, hf, rest, _ => by
    cases f with
    | zero => simp [needO] at hf
    | succ f => simp [emitO, parseO]
  | .lit l, hok, f, hf, rest, _ => by
    cases f with
    | zero => simp [needO] at hf
    | succ f =>
      simp only [Operand.ok] at hok
      simp only [emitO]; exact parseO_lit l hok f rest
  | .fn name a, hok, f, hf, rest, _ => by
    cases f with
    | zero => simp [needO] at hf
    | succ f =>
      simp only [Operand.ok] at hok
      simp only [needO] at hf
      have ih := parseO_emit a hok f (by omega) (.rp :: rest) (by simp [oFollow])
      simp only [emitO, List.cons_append, List.append_assoc, List.nil_append, parseO]
      rw [ih]
  | .list [], _, f, hf, rest, _ => by
    cases f with
    | zero => simp [needO] at hf
    | succ f => simp [emitO, parseO]
  | .list (x :: xs), hok, f, hf, rest, _ => by
    cases f with
    | zero => simp [needO] at hf
    | succ f =>
      simp only [Operand.ok, oks_cons, Bool.and_eq_true] at hok
      simp only [needO, needOs] at hf
      have ihx := parseO_emit x hok.1 f (by omega) (emitOTail true xs ++ (.rb :: rest)) (by
        cases xs <;> simp [emitOTail, oFollow])
      have iht := parseOTail_emit xs hok.2 f (by omega) [x] rest
      simp only [emitO, List.cons_append, List.append_assoc, List.nil_append, List.singleton_append, parseO]
      have hne : ∀ r', emitO true x ++ (emitOTail true xs ++ Tok.rb :: rest) ≠ Tok.rb :: r' := by
        intro r' h
        have := ihx
        rw [h] at this
        cases f with
        | zero => simp [parseO] at this
        | succ f => simp [parseO] at this
      split
      · rename_i r' heq; exact absurd heq (hne r')
      · rw [ihx]; simpa using iht
theorem parseOTail_emit : ∀ (xs : List Operand), Operand.oks xs = true → ∀ f, needOs xs ≤ f → ∀ acc rest,
    parseOTail f acc (emitOTail true xs ++ (.rb :: rest)) = some (.list (acc ++ xs), rest)
  | [], _, f, hf, acc, rest => by
    cases f with
    | zero => simp [needOs] at hf
    | succ f => simp [emitOTail, parseOTail]
  | x :: xs, hok, f, hf, acc, rest => by
    cases f with
    | zero => simp [needOs] at hf
    | succ f =>
      simp only [oks_cons, Bool.and_eq_true] at hok
      simp only [needOs] at hf
      have ihx := parseO_emit x hok.1 f (by omega) (emitOTail true xs ++ (.rb :: rest)) (by
        cases xs <;> simp [emitOTail, oFollow])
      have iht := parseOTail_emit xs hok.2 f (by omega) (acc ++ [x]) rest
      simp only [emitOTail, List.cons_append, List.append_assoc, parseOTail]
      rw [ihx]; simpa using iht
end

/-! ## expression level -/

mutual
def needE : Expr → Nat
  | .cmp l _ r => needO l + needO r + 6
  | .isNull l _ => needO l + 6
  | .kinds _ _ _ => 6
  | .neg e => needE e + 5
  | .paren e => needE e + 5
  | .join _ es => needEs es + 5
def needEs : List Expr → Nat
  | [] => 1
  | e :: es => needE e + needEs es + 1
end

def stopAt (l : Nat) : List Tok → Bool
  | [] => true
  | .rp :: _ => true
  | .kw op :: _ => decide (op.lvl < l)
  | _ => false

theorem stopAt_mono {l l' : Nat} {rest : List Tok} (h : stopAt l rest = true) (hl : l ≤ l') : stopAt l' rest = true := by
  cases rest with
  | nil => rfl
  | cons t r =>
    cases t <;> simp_all [stopAt]
    omega

theorem stopAt_oFollow {l : Nat} {rest : List Tok} (h : stopAt l rest = true) : oFollow rest = true := by
  cases rest with
  | nil => rfl
  | cons t r => cases t <;> simp_all [stopAt, oFollow]

theorem opOf_lvl (op : Op) : opOf op.lvl = op := by cases op <;> rfl
theorem Op.lvl_le (op : Op) : op.lvl ≤ 2 := by cases op <;> simp [Op.lvl]

theorem parseLoop_stop (f l : Nat) (acc : List Expr) (rest : List Tok) (h : stopAt l rest = true) :
    parseLoop (f + 1) l acc rest = some (mkJ (opOf l) acc, rest) := by
  cases rest with
  | nil => simp [parseLoop]
  | cons t r =>
    cases t <;> simp_all [stopAt, parseLoop]
    omega

/-- the token can begin an operand -/
def oHead : Tok → Bool
  | .kwNull | .kwTrue | .kwFalse | .int _ | .float _ _ | .minus | .str _ | .param _ | .ident _ | .lb => true
  | _ => false

theorem emitLit_head (fr : Bool) (l : Lit) : ∃ t r, emitLit fr l = t :: r ∧ oHead t = true := by
  cases l with
  | null => exact ⟨_, _, rfl, rfl⟩
  | bool b => cases b <;> exact ⟨_, _, rfl, rfl⟩
  | int i => by_cases h : i < 0 <;> simp [emitLit, h, oHead]
  | float d =>
    obtain ⟨ng, n, frc⟩ := d
    cases ng <;> cases frc <;> cases fr <;> simp [emitLit, oHead]
  | str s => exact ⟨_, _, rfl, rfl⟩

theorem emitO_head (fr : Bool) (o : Operand) : ∃ t r, emitO fr o = t :: r ∧ oHead t = true := by
  cases o with
  | lit l => simpa [emitO] using emitLit_head fr l
  | list xs => cases xs <;> simp [emitO, oHead]
  | _ => simp [emitO, oHead]

theorem mkJ_single (op : Op) (e : Expr) : mkJ op [e] = e := rfl

theorem descend (e : Expr) (toks : List Tok) (F0 : Nat) (hF0 : 1 ≤ F0) (Lv : Nat) (hLv : Lv ≤ 4)
    (hhead : Lv = 4 → ∀ rest r, toks ++ rest ≠ Tok.kwNot :: r)
    (own : ∀ f, F0 ≤ f → ∀ rest, stopAt Lv rest = true → parseLvl f Lv (toks ++ rest) = some (e, rest)) :
    ∀ d l, l + d = Lv → ∀ f, F0 + d ≤ f → ∀ rest, stopAt l rest = true →
      parseLvl f l (toks ++ rest) = some (e, rest) := by
  intro d
  induction d with
  | zero =>
    intro l hl f hf rest hs
    have : l = Lv := by omega
    subst this
    exact own f (by omega) rest hs
  | succ d ih =>
    intro l hl f hf rest hs
    cases f with
    | zero => omega
    | succ f =>
      have hl3 : l ≤ 3 := by omega
      have ih' := ih (l + 1) (by omega) f (by omega) rest (stopAt_mono hs (by omega))
      have hn4 : ¬ (l ≥ 4) := by omega
      by_cases h3 : l = 3
      · subst h3
        have hLv4 : Lv = 4 := by omega
        simp only [parseLvl, hn4, if_false, if_true]
        split
        · rename_i r heq; exact absurd heq (hhead hLv4 rest r)
        · exact ih'
      · simp only [parseLvl, hn4, h3, if_false]
        rw [ih']
        cases f with
        | zero => omega
        | succ f => simp [parseLoop_stop f l [e] rest hs, mkJ_single]

theorem parseLabels_tail (l : Nat) : ∀ (ks : List String) (rest : List Tok), stopAt l rest = true →
    parseLabels (labelTail ks ++ rest) = (ks, rest)
  | [], rest, h => by
    cases rest with
    | nil => simp [labelTail, parseLabels]
    | cons t r => cases t <;> simp_all [stopAt, labelTail, parseLabels]
  | k :: ks, rest, h => by
    simp [labelTail, parseLabels, parseLabels_tail l ks rest h]

theorem emitKinds_canon (ref k : String) (ks : List String) :
    emitKinds Fix.canon ref (k :: ks) true = .ident ref :: .colon :: .ident k :: labelTail ks := by
  cases ks <;> simp [emitKinds, Fix.canon, labelTail]

theorem head_ne_of_oHead {ts : List Tok} {t : Tok} {r : List Tok} (h : ts = t :: r) (ho : oHead t = true) :
    (∀ r', ts ≠ Tok.lp :: r') ∧ (∀ r', ts ≠ Tok.kwNot :: r') := by
  subst h
  constructor <;> intro r' heq <;> cases t <;> simp_all [oHead]

theorem own_cmp (lo ro : Operand) (op : CmpOp) (hlo : lo.ok = true) (hro : ro.ok = true) (f : Nat)
    (hf : needO lo + needO ro + 1 ≤ f) (rest : List Tok) (hs : stopAt 4 rest = true) :
    parseLvl f 4 (emitE Fix.canon (.cmp lo op ro) ++ rest) = some (.cmp lo op ro, rest) := by
  cases f with
  | zero => omega
  | succ f =>
    obtain ⟨t, r, ht, hh⟩ := emitO_head true lo
    have h1 := parseO_emit lo hlo f (by omega) (Tok.cmp op :: (emitO true ro ++ rest)) (by simp [oFollow])
    have h2 := parseO_emit ro hro f (by omega) rest (stopAt_oFollow hs)
    simp only [emitE, Fix.canon, List.append_assoc, List.cons_append] at h1 ⊢
    simp only [parseLvl, ge_iff_le, Nat.le_refl, if_true]
    rw [ht] at h1 ⊢
    cases t <;> simp_all [oHead]

theorem own_isNull (lo : Operand) (b : Bool) (hlo : lo.ok = true) (f : Nat)
    (hf : needO lo + 1 ≤ f) (rest : List Tok) (hs : stopAt 4 rest = true) :
    parseLvl f 4 (emitE Fix.canon (.isNull lo b) ++ rest) = some (.isNull lo b, rest) := by
  cases f with
  | zero => omega
  | succ f =>
    obtain ⟨t, r, ht, hh⟩ := emitO_head true lo
    have h1 := parseO_emit lo hlo f (by omega) (Tok.isNull b :: rest) (by simp [oFollow])
    simp only [emitE, Fix.canon, List.append_assoc, List.cons_append, List.nil_append] at h1 ⊢
    simp only [parseLvl, ge_iff_le, Nat.le_refl, if_true]
    rw [ht] at h1 ⊢
    cases t <;> simp_all [oHead]

theorem own_kinds (ref k : String) (ks : List String) (f : Nat) (hf : 2 ≤ f) (rest : List Tok)
    (hs : stopAt 4 rest = true) :
    parseLvl f 4 (emitE Fix.canon (.kinds ref (k :: ks) true) ++ rest) = some (.kinds ref (k :: ks) true, rest) := by
  cases f with
  | zero => omega
  | succ f =>
    cases f with
    | zero => omega
    | succ f =>
      simp only [emitE, emitKinds_canon, List.cons_append]
      simp [parseLvl, parseO, parseLabels_tail 4 ks rest hs]

theorem canonLs_cons (L : Nat) (e : Expr) (es : List Expr) : canonLs L (e :: es) = (canonL L e && canonLs L es) := by
  simp [canonLs]

theorem canonL_mono : ∀ (e : Expr) (L L' : Nat), canonL L e = true → L' ≤ L → canonL L' e = true := by
  intro e L L' h hl
  cases e with
  | neg c => simp only [canonL, Bool.and_eq_true, decide_eq_true_eq] at h ⊢; exact ⟨by omega, h.2⟩
  | join op es => simp only [canonL, Bool.and_eq_true, decide_eq_true_eq] at h ⊢; exact ⟨⟨by omega, h.1.2⟩, h.2⟩
  | _ => simpa [canonL] using h

/-- a canonical cmp-level node never begins with NOT or needs the `(`-branch by accident -/
theorem head_lvl4 (e : Expr) (h : canonL 4 e = true) (rest : List Tok) :
    ∀ r, emitE Fix.canon e ++ rest ≠ Tok.kwNot :: r := by
  intro r
  cases e with
  | cmp lo op ro =>
    obtain ⟨t, r', ht, hh⟩ := emitO_head true lo
    simp only [emitE, Fix.canon, ht]
    intro heq; cases t <;> simp_all [oHead]
  | isNull lo b =>
    obtain ⟨t, r', ht, hh⟩ := emitO_head true lo
    simp only [emitE, Fix.canon, ht]
    intro heq; cases t <;> simp_all [oHead]
  | kinds ref ks allOf =>
    cases ks with
    | nil => simp [canonL] at h
    | cons k ks =>
      simp only [canonL, Bool.and_eq_true] at h
      have : allOf = true := h.1
      subst this
      simp [emitE, emitKinds_canon]
  | neg c => simp [canonL] at h
  | paren c => simp [emitE]
  | join op es =>
    simp only [canonL, Bool.and_eq_true, decide_eq_true_eq] at h
    have := Op.lvl_le op
    omega

theorem skipNots_of_head {ts : List Tok} (h : ∀ r, ts ≠ Tok.kwNot :: r) : skipNots ts = ts := by
  cases ts with
  | nil => rfl
  | cons t r =>
    cases t <;> first | rfl | exact absurd rfl (h r)

mutual
theorem parse_at : ∀ (e : Expr) (l : Nat), l ≤ 4 → canonL l e = true → ∀ f, needE e ≤ f → ∀ rest,
    stopAt l rest = true → parseLvl f l (emitE Fix.canon e ++ rest) = some (e, rest)
  | .cmp lo op ro, l, hl, hc, f, hf, rest, hs => by
    simp only [canonL, Bool.and_eq_true] at hc
    simp only [needE] at hf
    exact descend _ _ (needO lo + needO ro + 1) (by omega) 4 (by omega)
      (fun _ rest r => head_lvl4 (.cmp lo op ro) (by simp [canonL, hc]) rest r)
      (fun f hf rest hs => own_cmp lo ro op hc.1 hc.2 f hf rest hs) (4 - l) l (by omega) f (by omega) rest hs
  | .isNull lo b, l, hl, hc, f, hf, rest, hs => by
    simp only [canonL] at hc
    simp only [needE] at hf
    exact descend _ _ (needO lo + 1) (by omega) 4 (by omega)
      (fun _ rest r => head_lvl4 (.isNull lo b) (by simp [canonL, hc]) rest r)
      (fun f hf rest hs => own_isNull lo b hc f hf rest hs) (4 - l) l (by omega) f (by omega) rest hs
  | .kinds ref ks allOf, l, hl, hc, f, hf, rest, hs => by
    cases ks with
    | nil => simp [canonL] at hc
    | cons k ks =>
      simp only [canonL, Bool.and_eq_true] at hc
      have : allOf = true := hc.1
      subst this
      simp only [needE] at hf
      exact descend _ _ 2 (by omega) 4 (by omega)
        (fun _ rest r => head_lvl4 (.kinds ref (k :: ks) true) (by simp [canonL]) rest r)
        (fun f hf rest hs => own_kinds ref k ks f hf rest hs) (4 - l) l (by omega) f (by omega) rest hs
  | .paren c, l, hl, hc, f, hf, rest, hs => by
    simp only [canonL] at hc
    simp only [needE] at hf
    refine descend _ _ (needE c + 1) (by omega) 4 (by omega)
      (fun _ rest r => head_lvl4 (.paren c) (by simp [canonL, hc]) rest r) ?_ (4 - l) l (by omega) f (by omega) rest hs
    intro f hf rest hs
    cases f with
    | zero => omega
    | succ f =>
      have ih := parse_at c 0 (by omega) hc f (by omega) (Tok.rp :: rest) (by simp [stopAt])
      simp only [emitE, List.cons_append, List.append_assoc, List.nil_append]
      simp only [parseLvl, ge_iff_le, Nat.le_refl, if_true]
      rw [ih]
  | .neg c, l, hl, hc, f, hf, rest, hs => by
    simp only [canonL, Bool.and_eq_true, decide_eq_true_eq] at hc
    simp only [needE] at hf
    refine descend _ _ (needE c + 1) (by omega) 3 (by omega) (by omega) ?_ (3 - l) l (by omega) f (by omega) rest hs
    intro f hf rest hs
    cases f with
    | zero => omega
    | succ f =>
      have ih := parse_at c 4 (by omega) hc.2 f (by omega) rest (stopAt_mono hs (by omega))
      have hh := head_lvl4 c hc.2 rest
      simp only [emitE, Fix.canon, Bool.false_and, wrapIf, List.cons_append]
      simp only [Fix.canon] at ih hh
      simp [parseLvl, skipNots_of_head hh, ih]
  | .join op [], l, hl, hc, f, hf, rest, hs => by
    simp [canonL] at hc
  | .join op (c :: cs), l, hl, hc, f, hf, rest, hs => by
    simp only [canonL, Bool.and_eq_true, decide_eq_true_eq, canonLs_cons] at hc
    simp only [needE, needEs] at hf
    have hop := Op.lvl_le op
    refine descend _ _ (needE c + needEs cs + 2) (by omega) op.lvl (by omega) (by omega) ?_ (op.lvl - l) l (by omega) f (by omega) rest hs
    intro f hf rest hs
    cases f with
    | zero => omega
    | succ f =>
      have hstop : stopAt (op.lvl + 1) (emitETail Fix.canon op cs ++ rest) = true := by
        cases cs with
        | nil => simpa [emitETail] using stopAt_mono hs (by omega)
        | cons c' cs' => simp [emitETail, stopAt]
      have ih := parse_at c (op.lvl + 1) (by omega) hc.2.1 f (by omega) _ hstop
      have iht := parse_tail op cs hc.2.2 f (by omega) [c] rest hs
      have hn4 : ¬ (op.lvl ≥ 4) := by omega
      have hn3 : ¬ (op.lvl = 3) := by omega
      simp only [emitE, Fix.canon, Bool.false_and, wrapIf, List.append_assoc] at ih ⊢
      simp only [parseLvl, hn4, hn3, if_false]
      simp only [Fix.canon] at iht
      simp only [Bool.false_eq_true, if_false] at ih ⊢
      simp only [ih, iht]
      cases cs with
      | nil => simp at hc
      | cons c' cs' => simp [mkJ]
theorem parse_tail (op : Op) : ∀ (cs : List Expr), canonLs (op.lvl + 1) cs = true → ∀ f, needEs cs ≤ f →
    ∀ acc rest, stopAt op.lvl rest = true →
    parseLoop f op.lvl acc (emitETail Fix.canon op cs ++ rest) = some (mkJ op (acc ++ cs), rest)
  | [], _, f, hf, acc, rest, hs => by
    cases f with
    | zero => simp [needEs] at hf
    | succ f => simp [emitETail, parseLoop_stop f op.lvl acc rest hs, opOf_lvl]
  | c :: cs, hc, f, hf, acc, rest, hs => by
    simp only [canonLs_cons, Bool.and_eq_true] at hc
    simp only [needEs] at hf
    have hop := Op.lvl_le op
    cases f with
    | zero => omega
    | succ f =>
      have hstop : stopAt (op.lvl + 1) (emitETail Fix.canon op cs ++ rest) = true := by
        cases cs with
        | nil => simpa [emitETail] using stopAt_mono hs (by omega)
        | cons c' cs' => simp [emitETail, stopAt]
      have ih := parse_at c (op.lvl + 1) (by omega) hc.1 f (by omega) _ hstop
      have iht := parse_tail op cs hc.2 f (by omega) (acc ++ [c]) rest hs
      simp only [emitETail, Fix.canon, Bool.false_and, wrapIf, List.cons_append, List.append_assoc] at ih ⊢
      simp only [Bool.false_eq_true, if_false] at ih ⊢
      simp only [parseLoop, if_true]
      simp only [Fix.canon] at iht
      simp only [ih, iht]
      simp
end

end Dawgs.C10
