/-
C16 — retention lemmas: what each operation of the SIEVE / map cache does to the SET of stored bindings.
The refinement theorem (Proofs/C16.lean) allows a cache to forget anything at any time; these lemmas state
that the modelled caches forget exactly what the policy says: SIEVE loses one entry per insertion into a full
cache and the deleted key on `Delete`, nothing else; the map cache loses the deleted key only.
-/
import Dawgs.Proofs.C16
namespace Dawgs.C16

/-- `evict` removes exactly one stored key and leaves every other binding as it was. -/
theorem Sieve.evict_keys {s : Sieve} (hi : s.Inv) (hne : s.queue ≠ []) :
    ∃ h, h ∈ keys s.queue ∧ keys s.evict.queue = (keys s.queue).filter (· != h) ∧
      (∀ x, x ≠ h → valOf s.evict.queue x = valOf s.queue x) := by
  have ⟨h0, hh0, hm0⟩ : ∃ h0, s.handOrBack = some h0 ∧ h0 ∈ keys s.queue := by
    unfold Sieve.handOrBack
    cases hh : s.hand with
    | some h => exact ⟨h, rfl, hi.hand h hh⟩
    | none =>
      obtain ⟨p, hb⟩ := backKey_isSome hne
      exact ⟨p, hb, backKey_mem hb⟩
  have hsome := sweep_fuel_sufficient_aux (fuel := s.queue.length + 1) hi.nodup hm0
    (by have := countVisited_le s.queue; omega)
  obtain ⟨⟨q, h⟩, hsw⟩ := Option.isSome_iff_exists.1 hsome
  have hspec := sweep_spec hsw hi.nodup
  have hev : s.evict = { s with hand := prevKey q h, queue := remove q h, size := s.size - 1 } := by
    unfold Sieve.evict; rw [hh0]; simp only; rw [hsw]
  refine ⟨h, by rw [← hspec.1]; exact hspec.2.2, ?_, ?_⟩
  · rw [hev]; show keys (remove q h) = _
    rw [keys_remove, hspec.1]
  · intro x hx
    rw [hev]; show valOf (remove q h) x = _
    rw [valOf_remove]; simp only [hx, if_false]; exact hspec.2.1 x

theorem Sieve.evict_hits (s : Sieve) : s.evict.hits = s.hits ∧ s.evict.misses = s.misses := by
  unfold Sieve.evict; split
  · exact ⟨rfl, rfl⟩
  · split <;> exact ⟨rfl, rfl⟩

/-- `Get` never changes what is stored. -/
theorem Sieve.get_frame (s : Sieve) (k : Nat) :
    keys (s.get k).1.queue = keys s.queue ∧ ∀ x, valOf (s.get k).1.queue x = valOf s.queue x := by
  unfold Sieve.get; split
  · exact ⟨keys_setVisited _ _ _, fun x => valOf_setVisited _ _ _ x⟩
  · exact ⟨rfl, fun _ => rfl⟩

/-- `Put` of a stored key replaces its value and touches nothing else. -/
theorem Sieve.put_frame_present {s : Sieve} {k : Nat} (hk : k ∈ keys s.queue) (v : Nat) :
    keys (s.put k v).queue = keys s.queue ∧ ∀ x, x ≠ k → valOf (s.put k v).queue x = valOf s.queue x := by
  unfold Sieve.put
  cases hf : find s.queue k with
  | none => exact absurd hk ((find_none_iff _ _).1 hf)
  | some e =>
    simp only
    refine ⟨keys_setValVisited _ _ _, fun x hx => ?_⟩
    rw [valOf_setValVisited]; simp [hx]

/-- `Put` of a new key into a cache with room stores it and evicts nothing. -/
theorem Sieve.put_frame_room {s : Sieve} {k : Nat} (hk : k ∉ keys s.queue) (hroom : s.queue.length < s.cap)
    (v : Nat) :
    keys (s.put k v).queue = k :: keys s.queue ∧ ∀ x, x ≠ k → valOf (s.put k v).queue x = valOf s.queue x := by
  unfold Sieve.put
  rw [(find_none_iff _ _).2 hk]
  simp only
  unfold Sieve.putEntry
  have : ¬ s.queue.length ≥ s.cap := by omega
  simp only [this, if_false]
  refine ⟨rfl, fun x hx => ?_⟩
  rw [valOf_cons]; simp [Ne.symm hx]

/-- `Put` of a new key into a full cache evicts exactly one stored key (never the new one) and stores the new
binding; every other binding stays. -/
theorem Sieve.put_frame_full {s : Sieve} (hi : s.Inv) {k : Nat} (hk : k ∉ keys s.queue)
    (hfull : s.queue.length ≥ s.cap) (v : Nat) :
    ∃ h, h ∈ keys s.queue ∧ keys (s.put k v).queue = k :: (keys s.queue).filter (· != h) ∧
      (∀ x, x ≠ k → x ≠ h → valOf (s.put k v).queue x = valOf s.queue x) := by
  have hne : s.queue ≠ [] := by
    intro h0; have := hi.capPos; simp [h0] at hfull; omega
  obtain ⟨h, hm, hkeys, hvals⟩ := Sieve.evict_keys hi hne
  refine ⟨h, hm, ?_, ?_⟩
  · unfold Sieve.put
    rw [(find_none_iff _ _).2 hk]
    simp only
    unfold Sieve.putEntry
    simp only [hfull, if_true, keys_cons, hkeys]
  · intro x hxk hxh
    unfold Sieve.put
    rw [(find_none_iff _ _).2 hk]
    simp only
    unfold Sieve.putEntry
    simp only [hfull, if_true]
    rw [valOf_cons]; simp only [Ne.symm hxk, if_false]
    exact hvals x hxh

/-- `Delete` removes the named key only. -/
theorem Sieve.delete_frame (s : Sieve) (k : Nat) :
    keys (s.delete k).queue = (keys s.queue).filter (· != k) ∧
    ∀ x, x ≠ k → valOf (s.delete k).queue x = valOf s.queue x := by
  unfold Sieve.delete
  cases hf : find s.queue k with
  | none =>
    have hk : k ∉ keys s.queue := (find_none_iff _ _).1 hf
    refine ⟨?_, fun _ _ => rfl⟩
    show keys s.queue = _
    rw [← keys_remove, remove_of_not_mem hk]
  | some e =>
    simp only
    refine ⟨keys_remove _ _, fun x hx => ?_⟩
    rw [valOf_remove]; simp [hx]

/-! ### statistics -/

def isGet : Op → Bool
  | .get _ => true
  | _ => false

def isHit : Op × Out → Bool
  | (_, .hit _) => true
  | _ => false

def isMiss : Op × Out → Bool
  | (_, .miss) => true
  | _ => false

theorem Sieve.put_hits (s : Sieve) (k v) : (s.put k v).hits = s.hits ∧ (s.put k v).misses = s.misses := by
  unfold Sieve.put; split
  · exact ⟨rfl, rfl⟩
  · unfold Sieve.putEntry; simp only; split
    · exact Sieve.evict_hits s
    · exact ⟨rfl, rfl⟩

theorem Sieve.delete_hits (s : Sieve) (k) : (s.delete k).hits = s.hits ∧ (s.delete k).misses = s.misses := by
  unfold Sieve.delete; split <;> exact ⟨rfl, rfl⟩

/-- The hit and miss counters count exactly the hits and misses the callers saw. -/
theorem Sieve.counters (s : Sieve) (ops : List Op) :
    (s.run ops).hits = s.hits + ((s.trace ops).filter isHit).length ∧
    (s.run ops).misses = s.misses + ((s.trace ops).filter isMiss).length := by
  induction ops generalizing s with
  | nil => exact ⟨rfl, rfl⟩
  | cons o ops ih =>
    have := ih (s.step o).1
    show ((s.step o).1.run ops).hits = _ ∧ ((s.step o).1.run ops).misses = _
    rw [this.1, this.2]
    cases o with
    | put k v =>
      have h := Sieve.put_hits s k v
      simp only [Sieve.trace, Sieve.step, List.filter_cons, isHit, isMiss, h.1, h.2]
      simp
    | del k =>
      have h := Sieve.delete_hits s k
      simp only [Sieve.trace, Sieve.step, List.filter_cons, isHit, isMiss, h.1, h.2]
      simp
    | get k =>
      simp only [Sieve.trace, Sieve.step, List.filter_cons]
      unfold Sieve.get
      cases hf : find s.queue k with
      | some e => simp [outOf, isHit, isMiss]; omega
      | none => simp [outOf, isHit, isMiss]; omega

/-! ### map cache -/

theorem NeMap.get_frame (s : NeMap) (k : Nat) : (s.get k).1.store = s.store := by
  unfold NeMap.get; split <;> rfl

/-- The map cache never evicts: `Put` keeps every stored key (a new key is stored when there is room and
DROPPED when the cache is full), and only changes the value of the key it names. -/
theorem NeMap.put_frame (s : NeMap) (k v : Nat) :
    (∀ x, x ∈ skeys s.store → x ∈ skeys (s.put k v).store) ∧
    (∀ x, x ≠ k → (s.put k v).lookup x = s.lookup x) := by
  unfold NeMap.put
  cases hl : s.lookup k with
  | some w =>
    simp only
    refine ⟨fun x hx => by rw [skeys_update]; exact hx, fun x hx => ?_⟩
    show Ideal.get _ x = Ideal.get s.store x
    rw [get_update]; simp [hx]
  | none =>
    simp only
    split
    · refine ⟨fun x hx => by rw [skeys_cons]; exact List.mem_cons_of_mem _ hx, fun x hx => ?_⟩
      show Ideal.get ((k, v) :: s.store) x = Ideal.get s.store x
      rw [Ideal.get_cons]; simp [Ne.symm hx]
    · exact ⟨fun _ hx => hx, fun _ _ => rfl⟩

/-- A full map cache ignores the `Put` of a new key. -/
theorem NeMap.put_full_dropped {s : NeMap} {k : Nat} (hk : s.lookup k = none) (hfull : ¬ s.size < s.cap) (v : Nat) :
    s.put k v = s := by
  unfold NeMap.put; rw [hk]; simp only [hfull, if_false]

theorem NeMap.delete_frame (s : NeMap) (k : Nat) :
    skeys (s.delete k).store = (skeys s.store).filter (· != k) ∧
    ∀ x, x ≠ k → (s.delete k).lookup x = s.lookup x := by
  unfold NeMap.delete
  cases hl : s.lookup k with
  | none =>
    have hk : k ∉ skeys s.store := (lookup_none_iff _ _).1 hl
    refine ⟨?_, fun _ _ => rfl⟩
    show skeys s.store = _
    symm; rw [List.filter_eq_self]; intro a ha; simp; intro h; exact hk (h ▸ ha)
  | some w =>
    simp only
    refine ⟨skeys_filter _ _, fun x hx => ?_⟩
    show Ideal.get (Ideal.del s.store k) x = Ideal.get s.store x
    rw [Ideal.get_del]; simp [hx]

end Dawgs.C16

namespace Dawgs.C16

theorem Sieve.step_cap (s : Sieve) (o : Op) : (s.step o).1.cap = s.cap := by
  cases o with
  | put k v =>
    show (s.put k v).cap = s.cap
    unfold Sieve.put; split
    · rfl
    · unfold Sieve.putEntry Sieve.evict; split
      · simp only; split
        · rfl
        · split <;> rfl
      · rfl
  | get k => show (s.get k).1.cap = s.cap; unfold Sieve.get; split <;> rfl
  | del k => show (s.delete k).cap = s.cap; unfold Sieve.delete; split <;> rfl

theorem Sieve.run_cap (s : Sieve) (ops : List Op) : (s.run ops).cap = s.cap := by
  induction ops generalizing s with
  | nil => rfl
  | cons o ops ih =>
    show ((s.step o).1.run ops).cap = s.cap
    rw [ih, Sieve.step_cap]

theorem Sieve.trace_length (s : Sieve) (ops : List Op) : (s.trace ops).length = ops.length := by
  induction ops generalizing s with
  | nil => rfl
  | cons o ops ih => simp [Sieve.trace, ih]

/-- every `get` of the history is answered by a hit or a miss, nothing else is. -/
theorem Sieve.trace_gets (s : Sieve) (ops : List Op) :
    ((s.trace ops).filter isHit).length + ((s.trace ops).filter isMiss).length = (ops.filter isGet).length := by
  induction ops generalizing s with
  | nil => rfl
  | cons o ops ih =>
    have := ih (s.step o).1
    cases o with
    | put k v => simpa [Sieve.trace, Sieve.step, isHit, isMiss, isGet] using this
    | del k => simpa [Sieve.trace, Sieve.step, isHit, isMiss, isGet] using this
    | get k =>
      simp only [Sieve.step] at this
      simp only [Sieve.trace, Sieve.step, List.filter_cons, isGet, if_true, List.length_cons]
      cases hg : (s.get k).2 with
      | some v => simp [outOf, isHit, isMiss] at this ⊢; omega
      | none => simp [outOf, isHit, isMiss] at this ⊢; omega

end Dawgs.C16
