import Dawgs.Model.C01
import Dawgs.Model.CyEval
import Dawgs.Model.SqlEval
/-! C01 proofs, stage S1: the SQL evaluator on the S1 statement shape, value-level correspondences under `encode`,
predicate / item correspondence, the Cypher evaluator on the S1 query shape, and the final assembly. -/
namespace Dawgs.C01.Proofs
open Dawgs Dawgs.Sql

-- ------------------------------------------------------------------ Except plumbing

@[simp] theorem ebind_ok {ε α β : Type} (a : α) (f : α → Except ε β) : ((Except.ok a : Except ε α) >>= f) = f a := rfl
@[simp] theorem ebind_err {ε α β : Type} (e : ε) (f : α → Except ε β) : ((Except.error e : Except ε α) >>= f) = Except.error e := rfl
@[simp] theorem epure_ok {ε α : Type} (a : α) : (pure a : Except ε α) = Except.ok a := rfl
@[simp] theorem emap_ok {ε α β : Type} (a : α) (f : α → β) : (f <$> (Except.ok a : Except ε α)) = Except.ok (f a) := rfl

theorem ebind_eq_ok {ε α β : Type} {x : Except ε α} {f : α → Except ε β} {b : β} (h : (x >>= f) = .ok b) :
    ∃ a, x = .ok a ∧ f a = .ok b := by
  cases x with
  | error e => cases h
  | ok a => exact ⟨a, rfl, h⟩

@[simp] theorem mapE_nil {ε α β : Type} (f : α → Except ε β) : ([] : List α).mapE f = .ok [] := rfl
theorem mapE_cons {ε α β : Type} (x : α) (xs : List α) (f : α → Except ε β) :
    (x :: xs).mapE f = (do let y ← f x; let ys ← xs.mapE f; pure (y :: ys)) := rfl
@[simp] theorem filterE_nil {ε α : Type} (f : α → Except ε Bool) : ([] : List α).filterE f = .ok [] := rfl
theorem filterE_cons {ε α : Type} (x : α) (xs : List α) (f : α → Except ε Bool) :
    (x :: xs).filterE f = (do let b ← f x; let ys ← xs.filterE f; pure (if b then x :: ys else ys)) := rfl

theorem mapE_singleton {ε α β : Type} (x : α) (f : α → Except ε β) : [x].mapE f = (do let y ← f x; pure [y]) := by
  rw [mapE_cons]
  cases f x <;> rfl

theorem filterE_true {ε α : Type} (xs : List α) : xs.filterE (fun _ => (Except.ok true : Except ε Bool)) = .ok xs := by
  induction xs with
  | nil => rfl
  | cons x xs ih => rw [filterE_cons, ih]; rfl

/-- pointwise relation of two lists -/
inductive All₂ {α β : Type} (R : α → β → Prop) : List α → List β → Prop
  | nil : All₂ R [] []
  | cons {a b as bs} : R a b → All₂ R as bs → All₂ R (a :: as) (b :: bs)

/-- inversion of a successful `mapE` -/
theorem mapE_ok {ε α β : Type} {f : α → Except ε β} : ∀ {xs : List α} {ys : List β}, xs.mapE f = .ok ys →
    All₂ (fun x y => f x = .ok y) xs ys
  | [], ys, h => by cases h; exact .nil
  | x :: xs, ys, h => by
    rw [mapE_cons] at h
    obtain ⟨y, hy, h⟩ := ebind_eq_ok h
    obtain ⟨ys', hys, h⟩ := ebind_eq_ok h
    cases h
    exact .cons hy (mapE_ok hys)

theorem mapE_of_forall₂ {ε α β : Type} {f : α → Except ε β} : ∀ {xs : List α} {ys : List β},
    All₂ (fun x y => f x = .ok y) xs ys → xs.mapE f = .ok ys
  | [], [], .nil => rfl
  | x :: xs, y :: ys, .cons h t => by rw [mapE_cons, h, ebind_ok, mapE_of_forall₂ t]; rfl

/-- a successful `filterE` evaluated the predicate successfully on every element and kept exactly the `true` ones -/
theorem filterE_ok {ε α : Type} {f : α → Except ε Bool} : ∀ {xs ys : List α}, xs.filterE f = .ok ys →
    ∃ bs : List Bool, All₂ (fun x b => f x = .ok b) xs bs ∧ ys = (xs.zip bs).filterMap (fun p => if p.2 then some p.1 else none)
  | [], ys, h => by cases h; exact ⟨[], .nil, rfl⟩
  | x :: xs, ys, h => by
    rw [filterE_cons] at h
    obtain ⟨b, hb, h⟩ := ebind_eq_ok h
    obtain ⟨ys', hys, h⟩ := ebind_eq_ok h
    obtain ⟨bs, hbs, hys'⟩ := filterE_ok hys
    refine ⟨b :: bs, .cons hb hbs, ?_⟩
    cases h
    cases b <;> simp [hys']

-- ------------------------------------------------------------------ the SQL evaluator on single-table selects

theorem lookupTableE_push (E : EEnv) (l : Level) (t : String) : lookupTableE (E.push l) t = lookupTableE E t := rfl

/-- FROM <table> [alias] without joins: one single-binding level per table row -/
theorem evalFrom_single (E : EEnv) (t : String) (alias : Option String) (tbl : Table) (h : lookupTableE E t = .ok tbl) :
    evalFromClauses E [[]] [.mk (.table [t] alias) []] = .ok (tbl.rows.map (fun r => [(⟨alias.getD t, tbl.cols, r⟩ : Binding)])) := by
  rw [evalFromClauses, evalJoin]
  · simp only [mapE_singleton]
    rw [evalFromItem]
    simp only [lookupTableE_push, h, ebind_ok, epure_ok, List.nil_append, filterE_true]
    have hk : (JoinKind.inner == JoinKind.leftOuter) = false := by decide
    simp only [hk, Bool.and_false, Bool.false_eq_true, if_false, ebind_ok, List.flatten_cons, List.flatten_nil, List.append_nil]
    simp only [evalJoins, evalFromClauses, ebind_ok]
  · intro hh; cases hh
  · intro hh; cases hh

def whTest (E : EEnv) (wh : Option Expr) (l : Level) : EM Bool :=
  match wh with
  | none => pure true
  | some c => do let v ← evalExpr (E.push l) c; pure (isTrue v)

def projNames (proj : List Expr) (rows : List Level) : List String :=
  proj.flatMap (fun p => match p with
    | .wildcard => (rows.headD []).flatMap (·.cols)
    | e => [figureNameE e])

/-- non-aggregated, non-DISTINCT select over one table: filter the rows by WHERE, then project -/
theorem evalSelect_single (E : EEnv) (t : String) (alias : Option String) (tbl : Table) (proj : List Expr) (wh : Option Expr)
    (h : lookupTableE E t = .ok tbl) (hagg : hasAggL proj = false) :
    evalSetExpr E (.select false proj [.mk (.table [t] alias) []] wh [] none) =
      (do let rows ← (tbl.rows.map (fun r => [(⟨alias.getD t, tbl.cols, r⟩ : Binding)])).filterE (whTest E wh)
          let out ← rows.mapE (fun l => do let vals ← evalProj (E.push l) l proj; pure (vals, some (E.push l)))
          pure (projNames proj rows, out)) := by
  rw [evalSetExpr]
  simp only [Option.isSome_none, Bool.false_eq_true, if_false, evalFrom_single E t alias tbl h, ebind_ok, hagg,
    List.isEmpty_nil, Bool.not_true, Bool.or_false]
  rfl

theorem mapE_pure {ε α β : Type} (f : α → β) : ∀ (xs : List α), xs.mapE (fun x => (Except.ok (f x) : Except ε β)) = .ok (xs.map f)
  | [] => rfl
  | x :: xs => by rw [mapE_cons, ebind_ok, mapE_pure f xs]; rfl

theorem insertBy_le {α : Type} (le : α → α → Bool) (x : α) (xs : List α) (hle : ∀ b, le x b = true) : insertBy le x xs = x :: xs := by
  cases xs with
  | nil => rfl
  | cons y ys => simp [insertBy, hle]

theorem sortBy_id {α : Type} (le : α → α → Bool) : ∀ (xs : List α), (∀ a ∈ xs, ∀ b, le a b = true) → sortBy le xs = xs
  | [], _ => rfl
  | x :: xs, h => by
    show insertBy le x (sortBy le xs) = x :: xs
    rw [sortBy_id le xs (fun a ha => h a (List.mem_cons_of_mem _ ha)), insertBy_le le x xs (h x (List.mem_cons_self ..))]

theorem keysComparable_nil {α : Type} (rows : List α) : keysComparable (rows.map (fun _ => ([] : List (Val × Bool)))) = true := by
  cases rows with
  | nil => rfl
  | cons r rs => simp [keysComparable]

theorem orderRows_nokeys {α : Type} (rows : List α) : orderRows (rows.map (fun r => (([] : List (Val × Bool)), r))) = .ok rows := by
  unfold orderRows
  have h1 : (rows.map (fun r => (([] : List (Val × Bool)), r))).map (·.1) = rows.map (fun _ => ([] : List (Val × Bool))) := by
    simp [List.map_map, Function.comp_def]
  rw [h1, keysComparable_nil]
  simp only [if_true]
  rw [sortBy_id]
  · simp [List.map_map, Function.comp_def]
  · intro a ha b
    obtain ⟨r, _, rfl⟩ := List.mem_map.mp ha
    rfl

theorem cutRows_none {α : Type} (rows : List α) : cutRows none none rows = .ok rows := rfl

theorem evalQuery_simple (E : EEnv) (body : SetExpr) :
    evalQuery E (Query.simple body) = (do let r ← evalSetExpr E body; pure (⟨r.1, r.2.map (·.1)⟩ : Table)) := by
  unfold Query.simple
  rw [evalQuery, evalCtes]
  simp only [ebind_ok, evalOpt, epure_ok, evalOrderKeys, mapE_pure, orderRows_nokeys, cutRows_none]

/-- shape of every S1 statement -/
def s1Stmt (w : Option Expr) (items : List Expr) (ob : List (Expr × Bool)) (off lim : Option Expr) : Stmt :=
  .query (.mk false
    [.mk "s0" none none (Query.simple (.select false [S1.nodeComposite] [.mk (.table ["node"] (some "n0")) []] w [] none))]
    (.select false items [.mk (.table ["s0"] none) []] none [] none) ob off lim)

def E0 (db : Db) : EEnv := ⟨db, [], [], [], none⟩

def E1 (db : Db) (t0 : Table) : EEnv := ⟨db, [], [("s0", t0)], [], none⟩

theorem eval_s1Stmt (db : Db) (w : Option Expr) (items : List Expr) (ob : List (Expr × Bool)) (off lim : Option Expr) :
    Sql.eval db (s1Stmt w items ob off lim) [] = (do
      let t0 ← evalQuery (E0 db) (Query.simple (.select false [S1.nodeComposite] [.mk (.table ["node"] (some "n0")) []] w [] none))
      let r ← evalSetExpr (E1 db t0) (.select false items [.mk (.table ["s0"] none) []] none [] none)
      let keyed ← r.2.mapE (fun row => do let k ← evalOrderKeys r.1 row ob; pure (k, row))
      let rows ← orderRows keyed
      let o ← evalOpt (E1 db t0) off
      let l ← evalOpt (E1 db t0) lim
      let rows ← cutRows o l rows
      pure (⟨r.1, rows.map (·.1)⟩ : Table)) := by
  unfold s1Stmt
  rw [Sql.eval, evalQuery, evalCtes]
  · simp only [evalCtes, ebind_ok, epure_ok, bind_assoc]
    rfl
  · intro _ _ _ _ _ hh _; cases hh

-- ------------------------------------------------------------------ the node frame s0

def nodeCols : List String := ["id", "graph_id", "kind_ids", "properties"]

/-- the FROM level of the node frame for graph node `n` -/
def nodeLvl (km : KindMap) (n : NodeRec) : Level := [⟨"n0", nodeCols, encodeNode km n⟩]

/-- the nodecomposite value of a graph node -/
def nodeVal (km : KindMap) (n : NodeRec) : Val :=
  .row "nodecomposite" [.int n.id, .arr (kindIdsOf km n.kinds), .jsonb (.obj n.props)]

theorem lookup_inner (km : KindMap) (n : NodeRec) (rest : List Level) :
    lookupQualifiedV "n0" "id" (nodeLvl km n :: rest) = .ok (.int n.id) ∧
    lookupQualifiedV "n0" "kind_ids" (nodeLvl km n :: rest) = .ok (.arr (kindIdsOf km n.kinds)) ∧
    lookupQualifiedV "n0" "properties" (nodeLvl km n :: rest) = .ok (.jsonb (.obj n.props)) := by
  refine ⟨?_, ?_, ?_⟩ <;> simp [lookupQualifiedV, nodeLvl, findBinding, colVals, nodeCols, encodeNode]

theorem eval_innerCol (km : KindMap) (n : NodeRec) (E : EEnv) :
    evalExpr (E.push (nodeLvl km n)) (S1.innerCol "id") = .ok (.int n.id) ∧
    evalExpr (E.push (nodeLvl km n)) (S1.innerCol "kind_ids") = .ok (.arr (kindIdsOf km n.kinds)) ∧
    evalExpr (E.push (nodeLvl km n)) (S1.innerCol "properties") = .ok (.jsonb (.obj n.props)) := by
  have h := lookup_inner km n E.levels
  refine ⟨?_, ?_, ?_⟩ <;> (unfold S1.innerCol; rw [evalExpr]; simp only [EEnv.push]) 
  · exact h.1
  · exact h.2.1
  · exact h.2.2

theorem eval_nodeComposite (km : KindMap) (n : NodeRec) (E : EEnv) :
    evalExpr (E.push (nodeLvl km n)) S1.nodeComposite = .ok (nodeVal km n) := by
  have h := eval_innerCol km n E
  unfold S1.nodeComposite
  rw [evalExpr, evalExpr]
  simp only [evalExprs, h.1, h.2.1, h.2.2, ebind_ok, epure_ok, nodeVal]

-- ------------------------------------------------------------------ the meaning of S1 predicates on a node (spec both sides are compared with)

open Dawgs.Cy in
def propC (n : NodeRec) (k : String) : Cy.CVal := ((Json.lookup k n.props).map Cy.jsonToC).getD .null

open Dawgs.Cy in
def relT (op : Cmp) (a b : Cy.CVal) : Cy.Tri :=
  match op with
  | .eq => cEq a b
  | .ne => triNot (cEq a b)
  | .lt => (cCmp a b).map (· == .lt)
  | .le => (cCmp a b).map (· != .gt)
  | .gt => (cCmp a b).map (· == .gt)
  | .ge => (cCmp a b).map (· != .lt)

open Dawgs.Cy in
def sem (n : NodeRec) : S1.Pred → Cy.Tri
  | .propEqStr k s => cEq (propC n k) (.str s)
  | .propEqInt neg k i => if neg then triNot (cEq (propC n k) (.int i)) else cEq (propC n k) (.int i)
  | .propIsNull k => some (match propC n k with | .null => true | _ => false)
  | .propNotNull k => some (match propC n k with | .null => false | _ => true)
  | .idCmp op i => relT op (.int n.id) (.int i)
  | .kinds ks => some (kindsAllOf n.kinds ks)
  | .and p q => triAnd (sem n p) (sem n q)
  | .or p q => triOr (sem n p) (sem n q)
  | .not p => triNot (sem n p)
  | .paren p => sem n p

theorem cRel_relT (op : Cmp) (a b : Cy.CVal) : Cy.cRel op.cy a b = .ok (relT op a b) := by
  cases op <;> rfl

/-- graphs the theorems are about: node ids are unique, the kind map is injective (a `kind` table has a unique id per name),
and no property holds an explicit JSON null (a property graph stores no null values: setting a property to null removes it) -/
structure GraphOK (km : KindMap) (g : Graph) : Prop where
  nodup : (g.nodes.map (·.id)).Nodup
  inj : ∀ a b i, km.id? a = some i → km.id? b = some i → a = b
  noNull : ∀ n ∈ g.nodes, ∀ k, Json.lookup k n.props ≠ some .null

theorem find_of_nodup : ∀ (ns : List NodeRec), (ns.map (·.id)).Nodup → ∀ n ∈ ns, ns.find? (fun m => m.id == n.id) = some n
  | [], _, n, hn => by cases hn
  | m :: ms, hnd, n, hn => by
    rw [List.map_cons, List.nodup_cons] at hnd
    rw [List.find?_cons]
    cases List.mem_cons.mp hn with
    | inl h => subst h; simp
    | inr h =>
      have hne : (m.id == n.id) = false := by
        cases hh : m.id == n.id with
        | false => rfl
        | true =>
          have := eq_of_beq hh
          exact absurd (List.mem_map.mpr ⟨n, h, this.symm⟩) hnd.1
      rw [hne]
      exact find_of_nodup ms hnd.2 n h

theorem GraphOK.node? {km : KindMap} {g : Graph} (h : GraphOK km g) (n : NodeRec) (hn : n ∈ g.nodes) : g.node? n.id = some n :=
  find_of_nodup g.nodes h.nodup n hn

-- ------------------------------------------------------------------ Cypher side: predicates

section CySide
open Dawgs.Cy

theorem cmpOp_rel (un : Bool) (op : Cmp) (lp rp lv rv : Bool) (a b : CVal) :
    cmpOp .none un op.cy lp rp lv rv a b = .ok (triToC (relT op a b)) := by
  cases op <;> simp [cmpOp, Cmp.cy, Quirks.none, cRel, relT]

theorem propOf_node (g : Graph) (n : NodeRec) (k : String) (hnode : g.node? n.id = some n) :
    propOf g (.node n.id) k = .ok (propC n k) := by
  simp [propOf, nodeProps, hnode, propC]

theorem triAnd_true_right (t : Tri) : triAnd t (some true) = t := by
  cases t with
  | none => rfl
  | some b => cases b <;> rfl

theorem triOr_false_right (t : Tri) : triOr t (some false) = t := by
  cases t with
  | none => rfl
  | some b => cases b <;> rfl

theorem triOfC_triToC (t : Tri) : triOfC (triToC t) = .ok t := by
  cases t with
  | none => rfl
  | some b => rfl

theorem evalConj_single (g : Graph) (env : Env) (e : Cy.Expr) (t : Tri)
    (h : ∀ b, Cy.evalExpr .none g env b e = .ok (triToC t)) : Cy.evalConj .none g env [e] = .ok t := by
  simp only [Cy.evalConj, h, ebind_ok, triOfC_triToC, epure_ok, triAnd_true_right]

theorem evalDisj_single (g : Graph) (env : Env) (e : Cy.Expr) (t : Tri)
    (h : ∀ b, Cy.evalExpr .none g env b e = .ok (triToC t)) : Cy.evalDisj .none g env [e] = .ok t := by
  simp only [Cy.evalDisj, h, ebind_ok, triOfC_triToC, epure_ok, triOr_false_right]

theorem evalFn_id (g : Graph) (i : Int) : evalFn g "id" [.node i] = .ok (.int i) := by
  simp [evalFn]

/-- the Cypher evaluator on the Cypher reading of an S1 predicate computes `sem` (openCypher, no deviation switches) -/
theorem cy_pred (g : Graph) (n : NodeRec) (v : String) (env : Env)
    (hnode : g.node? n.id = some n) (henv : env.lookup v = some (.node n.id)) :
    ∀ (p : S1.Pred),
      (∀ b, Cy.evalExpr .none g env b (p.toCy v) = .ok (triToC (sem n p))) ∧
      Cy.evalConj .none g env (S1.Pred.conjTail v p) = .ok (sem n p) ∧
      Cy.evalDisj .none g env (S1.Pred.disjTail v p) = .ok (sem n p) := by
  intro p
  induction p with
  | propEqStr k s =>
    have h : ∀ b, Cy.evalExpr .none g env b (.cmp "=" (.prop (.var v) k) (.lit (.str s))) = .ok (triToC (cEq (propC n k) (.str s))) := by
      intro b
      rw [Cy.evalExpr, Cy.evalExpr, Cy.evalExpr, Cy.evalExpr]
      simp only [lookupVar, henv, ebind_ok, propOf_node g n k hnode]
      exact cmpOp_rel b .eq _ _ _ _ _ _
    exact ⟨h, evalConj_single g env _ _ h, evalDisj_single g env _ _ h⟩
  | propEqInt neg k i =>
    have h : ∀ b, Cy.evalExpr .none g env b (.cmp (if neg then "<>" else "=") (.prop (.var v) k) (.lit (.int i))) =
        .ok (triToC (if neg then triNot (cEq (propC n k) (.int i)) else cEq (propC n k) (.int i))) := by
      intro b
      rw [Cy.evalExpr, Cy.evalExpr, Cy.evalExpr, Cy.evalExpr]
      simp only [lookupVar, henv, ebind_ok, propOf_node g n k hnode]
      cases neg
      · exact cmpOp_rel b .eq _ _ _ _ _ _
      · exact cmpOp_rel b .ne _ _ _ _ _ _
    exact ⟨h, evalConj_single g env _ _ h, evalDisj_single g env _ _ h⟩
  | propIsNull k =>
    have h : ∀ b, Cy.evalExpr .none g env b (.cmp "is" (.prop (.var v) k) (.lit .null)) =
        .ok (triToC (some (match propC n k with | .null => true | _ => false))) := by
      intro b
      rw [Cy.evalExpr, Cy.evalExpr, Cy.evalExpr, Cy.evalExpr]
      simp only [lookupVar, henv, ebind_ok, propOf_node g n k hnode]
      rfl
    exact ⟨h, evalConj_single g env _ _ h, evalDisj_single g env _ _ h⟩
  | propNotNull k =>
    have h : ∀ b, Cy.evalExpr .none g env b (.cmp "is not" (.prop (.var v) k) (.lit .null)) =
        .ok (triToC (some (match propC n k with | .null => false | _ => true))) := by
      intro b
      rw [Cy.evalExpr, Cy.evalExpr, Cy.evalExpr, Cy.evalExpr]
      simp only [lookupVar, henv, ebind_ok, propOf_node g n k hnode]
      rfl
    exact ⟨h, evalConj_single g env _ _ h, evalDisj_single g env _ _ h⟩
  | idCmp op i =>
    have h : ∀ b, Cy.evalExpr .none g env b (.cmp op.cy (.fn "id" false [.var v]) (.lit (.int i))) = .ok (triToC (relT op (.int n.id) (.int i))) := by
      intro b
      rw [Cy.evalExpr, Cy.evalExpr, Cy.evalExpr]
      simp only [isAggregate, Cy.evalExprs, Cy.evalExpr, lookupVar, henv, ebind_ok, epure_ok, evalFn_id]
      have hc : (["count", "collect", "sum", "avg", "min", "max"].contains "id") = false := by decide
      simp only [hc, Bool.false_eq_true, if_false, ebind_ok]
      exact cmpOp_rel b op _ _ _ _ _ _
    exact ⟨h, evalConj_single g env _ _ h, evalDisj_single g env _ _ h⟩
  | kinds ks =>
    have h : ∀ b, Cy.evalExpr .none g env b (.kindIs (.var v) ks true) = .ok (triToC (some (kindsAllOf n.kinds ks))) := by
      intro b
      rw [Cy.evalExpr, Cy.evalExpr]
      simp only [lookupVar, henv, ebind_ok, hnode, epure_ok]
      rfl
    exact ⟨h, evalConj_single g env _ _ h, evalDisj_single g env _ _ h⟩
  | and p q ihp ihq =>
    have h : ∀ b, Cy.evalExpr .none g env b (.conj (p.toCy v :: S1.Pred.conjTail v q)) = .ok (triToC (triAnd (sem n p) (sem n q))) := by
      intro b
      rw [Cy.evalExpr, Cy.evalConj]
      simp only [ihp.1, ebind_ok, triOfC_triToC, ihq.2.1, epure_ok]
    refine ⟨h, ?_, evalDisj_single g env _ _ h⟩
    show Cy.evalConj .none g env (p.toCy v :: S1.Pred.conjTail v q) = _
    rw [Cy.evalConj]
    simp only [ihp.1, ebind_ok, triOfC_triToC, ihq.2.1, epure_ok, sem]
  | or p q ihp ihq =>
    have h : ∀ b, Cy.evalExpr .none g env b (.disj (p.toCy v :: S1.Pred.disjTail v q)) = .ok (triToC (triOr (sem n p) (sem n q))) := by
      intro b
      rw [Cy.evalExpr, Cy.evalDisj]
      simp only [ihp.1, ebind_ok, triOfC_triToC, ihq.2.2, epure_ok]
    refine ⟨h, evalConj_single g env _ _ h, ?_⟩
    show Cy.evalDisj .none g env (p.toCy v :: S1.Pred.disjTail v q) = _
    rw [Cy.evalDisj]
    simp only [ihp.1, ebind_ok, triOfC_triToC, ihq.2.2, epure_ok, sem]
  | not p ih =>
    have h : ∀ b, Cy.evalExpr .none g env b (.not (p.toCy v)) = .ok (triToC (triNot (sem n p))) := by
      intro b
      rw [Cy.evalExpr]
      simp only [ih.1, ebind_ok, triOfC_triToC, epure_ok]
    exact ⟨h, evalConj_single g env _ _ h, evalDisj_single g env _ _ h⟩
  | paren p ih =>
    have h : ∀ b, Cy.evalExpr .none g env b (.paren (p.toCy v)) = .ok (triToC (sem n p)) := by
      intro b
      rw [Cy.evalExpr]
      exact ih.1 b
    exact ⟨h, evalConj_single g env _ _ h, evalDisj_single g env _ _ h⟩

end CySide

-- ------------------------------------------------------------------ SQL side: expression evaluation lemmas

def triVal : Cy.Tri → Val
  | none => .null
  | some b => .bool b

theorem eval_strLit (E : EEnv) (s : String) : evalExpr E (S1.strLit s) = .ok (.text s) := by
  unfold S1.strLit; rw [evalExpr]; rfl

theorem eval_intLit (E : EEnv) (i : Int) : evalExpr E (S1.intLit i) = .ok (.int i) := by
  unfold S1.intLit; rw [evalExpr]; rfl

/-- a plain binary operator (not AND / OR, right operand not ANY / ALL) evaluates both operands, then applies `binOp` -/
theorem eval_bin (E : EEnv) (op : String) (l r : Expr) (h1 : (op == "and" || op == "or") = false)
    (h2 : ∀ arr, r ≠ .anyOf arr) (h3 : ∀ arr, r ≠ .allOf arr) :
    evalExpr E (.bin op l r) = (do let a ← evalExpr E l; let b ← evalExpr E r; binOp op a b) := by
  rw [evalExpr]
  · simp only [h1, Bool.false_eq_true, if_false]
  · intro arr hh; exact h2 arr hh
  · intro arr hh; exact h3 arr hh

theorem strLit_not_any (s : String) : (∀ arr, S1.strLit s ≠ .anyOf arr) ∧ (∀ arr, S1.strLit s ≠ .allOf arr) := by
  constructor <;> (intro arr hh; unfold S1.strLit at hh; cases hh)

theorem intLit_not_any (i : Int) : (∀ arr, S1.intLit i ≠ .anyOf arr) ∧ (∀ arr, S1.intLit i ≠ .allOf arr) := by
  constructor <;> (intro arr hh; unfold S1.intLit at hh; cases hh)

theorem eval_arrow (km : KindMap) (n : NodeRec) (E : EEnv) (k : String) :
    evalExpr (E.push (nodeLvl km n)) (.bin "->" (S1.innerCol "properties") (S1.strLit k)) =
      .ok (match Json.lookup k n.props with | some j => .jsonb j | none => .null) := by
  rw [eval_bin _ _ _ _ (by decide) (strLit_not_any k).1 (strLit_not_any k).2]
  simp only [(eval_innerCol km n E).2.2, eval_strLit, ebind_ok]
  unfold binOp
  simp only [arrowOp, jsonGet]
  rfl

end Dawgs.C01.Proofs
