/- Helper lemmas for C14: queue BFS (`Reach`, `BFSTree`) over an arbitrary adjacency callback. -/
import Dawgs.Proofs.C14
set_option linter.unusedSimpArgs false
set_option linter.unusedVariables false
namespace Dawgs.C14

/-! ### walks -/

theorem mem_walkEnds_succ {adj : Nat → List Nat} {s w k : Nat} :
    w ∈ walkEnds adj s (k + 1) ↔ ∃ u ∈ walkEnds adj s k, w ∈ adj u := by
  show w ∈ (walkEnds adj s k).flatMap adj ↔ _
  rw [List.mem_flatMap]

theorem walkEnds_zero (adj : Nat → List Nat) (s : Nat) : walkEnds adj s 0 = [s] := rfl

theorem Reachable.step {adj : Nat → List Nat} {s u w : Nat} (hu : u = s ∨ Reachable adj s u) (hw : w ∈ adj u) :
    Reachable adj s w := by
  rcases hu with rfl | ⟨k, hk, hmem⟩
  · exact ⟨1, Nat.le_refl 1, mem_walkEnds_succ.mpr ⟨u, by simp [walkEnds_zero], hw⟩⟩
  · exact ⟨k + 1, by omega, mem_walkEnds_succ.mpr ⟨u, hmem, hw⟩⟩

/-- walks along two adjacency functions that agree as sets have the same end points -/
theorem walkEnds_congr {adj adj' : Nat → List Nat} (h : ∀ v w, w ∈ adj v ↔ w ∈ adj' v) (s : Nat) :
    ∀ k w, w ∈ walkEnds adj s k ↔ w ∈ walkEnds adj' s k := by
  intro k
  induction k with
  | zero => intro w; rfl
  | succ k ih =>
    intro w
    rw [mem_walkEnds_succ, mem_walkEnds_succ]
    constructor
    · rintro ⟨u, hu, hw⟩; exact ⟨u, (ih u).mp hu, (h u w).mp hw⟩
    · rintro ⟨u, hu, hw⟩; exact ⟨u, (ih u).mpr hu, (h u w).mpr hw⟩

theorem reachable_congr {adj adj' : Nat → List Nat} (h : ∀ v w, w ∈ adj v ↔ w ∈ adj' v) (s w : Nat) :
    Reachable adj s w ↔ Reachable adj' s w := by
  unfold Reachable
  constructor
  · rintro ⟨k, hk, hm⟩; exact ⟨k, hk, (walkEnds_congr h s k w).mp hm⟩
  · rintro ⟨k, hk, hm⟩; exact ⟨k, hk, (walkEnds_congr h s k w).mpr hm⟩

/-! ### the callback of `Reach` -/

theorem reachVisit_pos {st : List Nat × List Nat} {a : Nat} (h : a ∈ st.2) : reachVisit st a = st := by
  unfold reachVisit; rw [if_pos h]
theorem reachVisit_neg {st : List Nat × List Nat} {a : Nat} (h : a ∉ st.2) :
    reachVisit st a = (st.1 ++ [a], sinsert a st.2) := by
  unfold reachVisit; rw [if_neg h]

theorem foldl_reachVisit (l : List Nat) : ∀ (st : List Nat × List Nat),
    (∀ w, w ∈ (l.foldl reachVisit st).2 ↔ w ∈ st.2 ∨ w ∈ l) ∧
    (∀ w, w ∈ (l.foldl reachVisit st).1 ↔ w ∈ st.1 ∨ (w ∈ l ∧ w ∉ st.2)) := by
  induction l with
  | nil => intro st; simp
  | cons a l ih =>
    intro st
    rw [List.foldl_cons]
    obtain ⟨ih1, ih2⟩ := ih (reachVisit st a)
    by_cases ha : a ∈ st.2
    · rw [reachVisit_pos ha] at ih1 ih2 ⊢
      constructor
      · intro w; rw [ih1]; simp only [List.mem_cons]
        constructor
        · rintro (h | h) <;> simp [h]
        · rintro (h | rfl | h)
          · exact Or.inl h
          · exact Or.inl ha
          · exact Or.inr h
      · intro w; rw [ih2]; simp only [List.mem_cons]
        constructor
        · rintro (h | ⟨h1, h2⟩)
          · exact Or.inl h
          · exact Or.inr ⟨Or.inr h1, h2⟩
        · rintro (h | ⟨rfl | h1, h2⟩)
          · exact Or.inl h
          · exact absurd ha h2
          · exact Or.inr ⟨h1, h2⟩
    · rw [reachVisit_neg ha] at ih1 ih2 ⊢
      constructor
      · intro w; rw [ih1]; simp only [mem_sinsert, List.mem_cons]
        constructor
        · rintro ((h | h) | h) <;> simp [h]
        · rintro (h | h | h) <;> simp [h]
      · intro w; rw [ih2]; simp only [mem_sinsert, List.mem_append, List.mem_cons, List.not_mem_nil, or_false, not_or]
        constructor
        · rintro ((h | rfl) | ⟨h1, h2, h3⟩)
          · exact Or.inl h
          · exact Or.inr ⟨Or.inl rfl, ha⟩
          · exact Or.inr ⟨Or.inr h1, h3⟩
        · rintro (h | ⟨rfl | h1, h2⟩)
          · exact Or.inl (Or.inl h)
          · exact Or.inl (Or.inr rfl)
          · by_cases hw : w = a
            · exact Or.inl (Or.inr hw)
            · exact Or.inr ⟨h1, hw, h2⟩

theorem reachLoop_nil (adj : Nat → List Nat) (fuel : Nat) (vis : List Nat) : reachLoop adj fuel [] vis = some vis := by
  cases fuel <;> rfl
theorem reachLoop_zero (adj : Nat → List Nat) (x : Nat) (q vis : List Nat) : reachLoop adj 0 (x :: q) vis = none := rfl
theorem reachLoop_succ (adj : Nat → List Nat) (fuel x : Nat) (q vis : List Nat) :
    reachLoop adj (fuel + 1) (x :: q) vis =
      reachLoop adj fuel ((adj x).foldl reachVisit (q, vis)).1 ((adj x).foldl reachVisit (q, vis)).2 := rfl

/-! ### invariant: soundness and closure -/

structure ReachInv (adj : Nat → List Nat) (s : Nat) (q vis : List Nat) : Prop where
  sound : ∀ w ∈ vis, Reachable adj s w
  queue : ∀ x ∈ q, x = s ∨ x ∈ vis
  closed : ∀ u, (u = s ∨ u ∈ vis) → u ∈ q ∨ ∀ w ∈ adj u, w ∈ vis

theorem ReachInv.init (adj : Nat → List Nat) (s : Nat) : ReachInv adj s [s] [] where
  sound := by intro w h; cases h
  queue := by intro x h; simp at h; exact Or.inl h
  closed := by
    intro u h
    rcases h with rfl | h
    · exact Or.inl (by simp)
    · cases h

theorem ReachInv.step {adj : Nat → List Nat} {s x : Nat} {q vis : List Nat} (inv : ReachInv adj s (x :: q) vis) :
    ReachInv adj s ((adj x).foldl reachVisit (q, vis)).1 ((adj x).foldl reachVisit (q, vis)).2 := by
  obtain ⟨h2, h1⟩ := foldl_reachVisit (adj x) (q, vis)
  simp only at h1 h2
  have hx : x = s ∨ Reachable adj s x := by
    rcases inv.queue x (by simp) with h | h
    · exact Or.inl h
    · exact Or.inr (inv.sound x h)
  refine { sound := ?_, queue := ?_, closed := ?_ }
  · intro w hw
    rcases (h2 w).mp hw with h | h
    · exact inv.sound w h
    · exact Reachable.step hx h
  · intro y hy
    rcases (h1 y).mp hy with h | ⟨h, _⟩
    · rcases inv.queue y (by simp [h]) with h' | h'
      · exact Or.inl h'
      · exact Or.inr ((h2 y).mpr (Or.inl h'))
    · exact Or.inr ((h2 y).mpr (Or.inr h))
  · intro u hu
    have hu' : (u = s ∨ u ∈ vis) ∨ (u ∈ adj x ∧ u ∉ vis) := by
      rcases hu with h | h
      · exact Or.inl (Or.inl h)
      · rcases (h2 u).mp h with h | h
        · exact Or.inl (Or.inr h)
        · by_cases hv : u ∈ vis
          · exact Or.inl (Or.inr hv)
          · exact Or.inr ⟨h, hv⟩
    rcases hu' with hu' | ⟨ha, hv⟩
    · rcases inv.closed u hu' with h | h
      · rcases List.mem_cons.mp h with rfl | h
        · exact Or.inr (fun w hw => (h2 w).mpr (Or.inr hw))
        · exact Or.inl ((h1 u).mpr (Or.inl h))
      · exact Or.inr (fun w hw => (h2 w).mpr (Or.inl (h w hw)))
    · exact Or.inl ((h1 u).mpr (Or.inr ⟨ha, hv⟩))

theorem ReachInv.final {adj : Nat → List Nat} {s : Nat} {vis : List Nat} (inv : ReachInv adj s [] vis) (w : Nat) :
    w ∈ vis ↔ Reachable adj s w := by
  constructor
  · exact inv.sound w
  · rintro ⟨k, hk, hm⟩
    have hall : ∀ k w, w ∈ walkEnds adj s (k + 1) → w ∈ vis := by
      intro k
      induction k with
      | zero =>
        intro w hw
        obtain ⟨u, hu, hwu⟩ := mem_walkEnds_succ.mp hw
        simp [walkEnds_zero] at hu
        rcases inv.closed u (Or.inl hu) with h | h
        · cases h
        · exact h w hwu
      | succ k ih =>
        intro w hw
        obtain ⟨u, hu, hwu⟩ := mem_walkEnds_succ.mp hw
        rcases inv.closed u (Or.inr (ih u hu)) with h | h
        · cases h
        · exact h w hwu
    obtain ⟨k', rfl⟩ : ∃ k', k = k' + 1 := ⟨k - 1, by omega⟩
    exact hall k' w hm

theorem reachLoop_correct (adj : Nat → List Nat) (s : Nat) : ∀ (fuel : Nat) (q vis r : List Nat),
    ReachInv adj s q vis → reachLoop adj fuel q vis = some r → ∀ w, w ∈ r ↔ Reachable adj s w := by
  intro fuel
  induction fuel with
  | zero =>
    intro q vis r inv h
    cases q with
    | nil => rw [reachLoop_nil] at h; cases h; exact inv.final
    | cons x q => rw [reachLoop_zero] at h; cases h
  | succ fuel ih =>
    intro q vis r inv h
    cases q with
    | nil => rw [reachLoop_nil] at h; cases h; exact inv.final
    | cons x q => rw [reachLoop_succ] at h; exact ih _ _ r inv.step h

/-! ### fuel: `|queue| + |unvisited nodes|` drops by one per `PopFront` -/

def unvis (nodes vis : List Nat) : Nat := (nodes.filter (fun n => decide (n ∉ vis))).length

theorem unvis_nil (vis : List Nat) : unvis [] vis = 0 := rfl
theorem unvis_cons (n : Nat) (ns vis : List Nat) :
    unvis (n :: ns) vis = (if n ∉ vis then 1 else 0) + unvis ns vis := by
  unfold unvis
  rw [List.filter_cons]
  by_cases h : n ∉ vis
  · simp [h]; omega
  · simp [h]

theorem unvis_sinsert_le (a : Nat) (ns vis : List Nat) : unvis ns (sinsert a vis) ≤ unvis ns vis := by
  induction ns with
  | nil => simp [unvis_nil]
  | cons n ns ih =>
    rw [unvis_cons, unvis_cons]
    by_cases h : n ∈ vis
    · have : n ∈ sinsert a vis := mem_sinsert.mpr (Or.inr h)
      simp [h, this]; exact ih
    · by_cases h' : n ∈ sinsert a vis
      · simp [h, h']; omega
      · simp [h, h']; exact ih

theorem unvis_sinsert_lt {a : Nat} {ns vis : List Nat} (ha : a ∈ ns) (hv : a ∉ vis) :
    unvis ns (sinsert a vis) + 1 ≤ unvis ns vis := by
  induction ns with
  | nil => cases ha
  | cons n ns ih =>
    rw [unvis_cons, unvis_cons]
    by_cases hn : n = a
    · subst hn
      have h1 : n ∈ sinsert n vis := mem_sinsert.mpr (Or.inl rfl)
      have := unvis_sinsert_le n ns vis
      simp [hv, h1]; omega
    · have ha' : a ∈ ns := by
        rcases List.mem_cons.mp ha with h | h
        · exact absurd h.symm hn
        · exact h
      have := ih ha'
      have hiff : n ∈ sinsert a vis ↔ n ∈ vis := by
        rw [mem_sinsert]; constructor
        · rintro (h | h)
          · exact absurd h hn
          · exact h
        · intro h; exact Or.inr h
      by_cases h : n ∈ vis
      · have h' := hiff.mpr h
        simp [h, h']; exact this
      · have h' : n ∉ sinsert a vis := fun c => h (hiff.mp c)
        simp [h, h']; omega

theorem foldl_reachVisit_measure (nodes : List Nat) (l : List Nat) : ∀ (st : List Nat × List Nat),
    (∀ a ∈ l, a ∈ nodes) →
    (l.foldl reachVisit st).1.length + unvis nodes (l.foldl reachVisit st).2 ≤ st.1.length + unvis nodes st.2 := by
  induction l with
  | nil => intro st _; exact Nat.le_refl _
  | cons a l ih =>
    intro st hl
    rw [List.foldl_cons]
    have := ih (reachVisit st a) (fun b hb => hl b (List.mem_cons_of_mem _ hb))
    by_cases ha : a ∈ st.2
    · rw [reachVisit_pos ha] at this ⊢; exact this
    · rw [reachVisit_neg ha] at this ⊢
      have hlt := unvis_sinsert_lt (hl a (by simp)) ha
      simp only [List.length_append, List.length_singleton] at this
      omega

theorem reachLoop_total (adj : Nat → List Nat) (nodes : List Nat) (hadj : ∀ v w, w ∈ adj v → w ∈ nodes) :
    ∀ (fuel : Nat) (q vis : List Nat), q.length + unvis nodes vis ≤ fuel → (reachLoop adj fuel q vis).isSome := by
  intro fuel
  induction fuel with
  | zero =>
    intro q vis h
    cases q with
    | nil => rw [reachLoop_nil]; rfl
    | cons x q => simp at h
  | succ fuel ih =>
    intro q vis h
    cases q with
    | nil => rw [reachLoop_nil]; rfl
    | cons x q =>
      rw [reachLoop_succ]
      apply ih
      have := foldl_reachVisit_measure nodes (adj x) (q, vis) (fun a ha => hadj x a ha)
      simp only [List.length_cons] at h this
      omega

theorem unvis_empty (nodes : List Nat) : unvis nodes [] = nodes.length := by
  induction nodes with
  | nil => rfl
  | cons n ns ih => rw [unvis_cons, ih]; simp; omega

/-- `Reach` never runs out of fuel `|nodes| + 1` when every neighbour is a node -/
theorem reach_total (adj : Nat → List Nat) (nodes : List Nat) (hadj : ∀ v w, w ∈ adj v → w ∈ nodes) (s : Nat) :
    (reach adj (nodes.length + 1) s).isSome := by
  unfold reach
  apply reachLoop_total adj nodes hadj
  rw [unvis_empty]; simp; omega

/-- whatever fuel it is given, a completed `Reach` is exactly the ≥ 1-step reachable set -/
theorem reach_correct (adj : Nat → List Nat) (fuel s : Nat) (r : List Nat) (h : reach adj fuel s = some r) (w : Nat) :
    w ∈ r ↔ Reachable adj s w :=
  reachLoop_correct adj s fuel [s] [] r (ReachInv.init adj s) h w

/-! ### BFSTree: simulation by `Reach`, distances are walk lengths -/

theorem bfsVisit_pos {d : Nat} {st : BfsSt} {a : Nat} (h : a ∈ st.visited) : bfsVisit d st a = st := by
  unfold bfsVisit; rw [if_pos h]
theorem bfsVisit_neg {d : Nat} {st : BfsSt} {a : Nat} (h : a ∉ st.visited) :
    bfsVisit d st a = { queue := st.queue ++ [⟨a, d + 1⟩], visited := sinsert a st.visited, terms := st.terms ++ [⟨a, d + 1⟩] } := by
  unfold bfsVisit; rw [if_neg h]

theorem bfsLoop_nil (adj : Nat → List Nat) (fuel : Nat) (vis : List Nat) (ts : List Term) :
    bfsLoop adj fuel ⟨[], vis, ts⟩ = some ts := by
  cases fuel <;> rfl
theorem bfsLoop_zero (adj : Nat → List Nat) (x : Term) (q : List Term) (vis : List Nat) (ts : List Term) :
    bfsLoop adj 0 ⟨x :: q, vis, ts⟩ = none := rfl
theorem bfsLoop_succ (adj : Nat → List Nat) (fuel : Nat) (x : Term) (q : List Term) (vis : List Nat) (ts : List Term) :
    bfsLoop adj (fuel + 1) ⟨x :: q, vis, ts⟩ = bfsLoop adj fuel ((adj x.node).foldl (bfsVisit x.dist) ⟨q, vis, ts⟩) := rfl

/-- what the BFS state carries: the `Reach` state plus, per terminal, a witnessed walk length -/
structure BfsInv (adj : Nat → List Nat) (s : Nat) (st : BfsSt) : Prop where
  qwalk : ∀ t ∈ st.queue, t.node ∈ walkEnds adj s t.dist
  twalk : ∀ t ∈ st.terms, 1 ≤ t.dist ∧ t.node ∈ walkEnds adj s t.dist
  tvis : ∀ w, w ∈ st.visited ↔ ∃ t ∈ st.terms, t.node = w
  nodup : (st.terms.map (·.node)).Nodup

theorem BfsInv.init (adj : Nat → List Nat) (s : Nat) : BfsInv adj s ⟨[⟨s, 0⟩], [], []⟩ where
  qwalk := by intro t ht; simp at ht; subst ht; simp [walkEnds_zero]
  twalk := by intro t ht; cases ht
  tvis := by intro w; simp
  nodup := by simp

theorem foldl_bfsVisit (adj : Nat → List Nat) (s : Nat) (x : Term) (hx : x.node ∈ walkEnds adj s x.dist) (l : List Nat)
    (hl : ∀ a ∈ l, a ∈ adj x.node) : ∀ (st : BfsSt), BfsInv adj s st →
    BfsInv adj s (l.foldl (bfsVisit x.dist) st) ∧
    (l.foldl (bfsVisit x.dist) st).visited = (l.foldl reachVisit (st.queue.map (·.node), st.visited)).2 ∧
    (l.foldl (bfsVisit x.dist) st).queue.map (·.node) = (l.foldl reachVisit (st.queue.map (·.node), st.visited)).1 := by
  induction l with
  | nil => intro st inv; exact ⟨inv, rfl, rfl⟩
  | cons a l ih =>
    intro st inv
    rw [List.foldl_cons, List.foldl_cons]
    have hl' : ∀ b ∈ l, b ∈ adj x.node := fun b hb => hl b (List.mem_cons_of_mem _ hb)
    by_cases ha : a ∈ st.visited
    · rw [bfsVisit_pos ha, reachVisit_pos (by exact ha)]
      exact ih hl' st inv
    · rw [bfsVisit_neg ha, reachVisit_neg (by exact ha)]
      have hwalk : a ∈ walkEnds adj s (x.dist + 1) := mem_walkEnds_succ.mpr ⟨x.node, hx, hl a (by simp)⟩
      have inv' : BfsInv adj s { queue := st.queue ++ [⟨a, x.dist + 1⟩], visited := sinsert a st.visited,
                                 terms := st.terms ++ [⟨a, x.dist + 1⟩] } := by
        refine { qwalk := ?_, twalk := ?_, tvis := ?_, nodup := ?_ }
        · intro t ht
          rcases List.mem_append.mp ht with h | h
          · exact inv.qwalk t h
          · simp at h; subst h; exact hwalk
        · intro t ht
          rcases List.mem_append.mp ht with h | h
          · exact inv.twalk t h
          · simp at h; subst h; exact ⟨by simp, hwalk⟩
        · intro w
          simp only [mem_sinsert, List.mem_append, List.mem_singleton, inv.tvis w]
          constructor
          · rintro (rfl | ⟨t, ht, hw⟩)
            · exact ⟨⟨w, x.dist + 1⟩, Or.inr rfl, rfl⟩
            · exact ⟨t, Or.inl ht, hw⟩
          · rintro ⟨t, ht | rfl, hw⟩
            · exact Or.inr ⟨t, ht, hw⟩
            · exact Or.inl hw.symm
        · rw [List.map_append, List.nodup_append]
          refine ⟨inv.nodup, by simp, ?_⟩
          intro y hy z hz
          simp at hz; subst hz
          intro e; subst e
          obtain ⟨t, ht, hty⟩ := List.mem_map.mp hy
          exact ha ((inv.tvis y).mpr ⟨t, ht, hty⟩)
      have := ih hl' _ inv'
      simpa using this

theorem bfsLoop_sim (adj : Nat → List Nat) (s : Nat) : ∀ (fuel : Nat) (st : BfsSt) (ts : List Term),
    BfsInv adj s st → bfsLoop adj fuel st = some ts →
    (∀ t ∈ ts, 1 ≤ t.dist ∧ t.node ∈ walkEnds adj s t.dist) ∧ (ts.map (·.node)).Nodup ∧
    ∃ r, reachLoop adj fuel (st.queue.map (·.node)) st.visited = some r ∧ ∀ w, w ∈ r ↔ ∃ t ∈ ts, t.node = w := by
  intro fuel
  induction fuel with
  | zero =>
    intro st ts inv h
    obtain ⟨q, vis, tm⟩ := st
    cases q with
    | nil =>
      rw [bfsLoop_nil] at h; cases h
      exact ⟨inv.twalk, inv.nodup, vis, by simp [reachLoop_nil], inv.tvis⟩
    | cons x q => rw [bfsLoop_zero] at h; cases h
  | succ fuel ih =>
    intro st ts inv h
    obtain ⟨q, vis, tm⟩ := st
    cases q with
    | nil =>
      rw [bfsLoop_nil] at h; cases h
      exact ⟨inv.twalk, inv.nodup, vis, by simp [reachLoop_nil], inv.tvis⟩
    | cons x q =>
      rw [bfsLoop_succ] at h
      have invq : BfsInv adj s ⟨q, vis, tm⟩ :=
        { qwalk := fun t ht => inv.qwalk t (List.mem_cons_of_mem _ ht), twalk := inv.twalk, tvis := inv.tvis, nodup := inv.nodup }
      obtain ⟨inv', hv, hq⟩ := foldl_bfsVisit adj s x (inv.qwalk x (by simp)) (adj x.node) (fun a ha => ha) ⟨q, vis, tm⟩ invq
      obtain ⟨h1, h2, r, hr, hrw⟩ := ih _ ts inv' h
      refine ⟨h1, h2, r, ?_, hrw⟩
      simp only [List.map_cons]
      rw [reachLoop_succ]
      rw [hq, hv] at hr
      exact hr

theorem bfsLoop_total (adj : Nat → List Nat) (s : Nat) : ∀ (fuel : Nat) (st : BfsSt),
    BfsInv adj s st → (reachLoop adj fuel (st.queue.map (·.node)) st.visited).isSome → (bfsLoop adj fuel st).isSome := by
  intro fuel
  induction fuel with
  | zero =>
    intro st inv h
    obtain ⟨q, vis, tm⟩ := st
    cases q with
    | nil => rw [bfsLoop_nil]; rfl
    | cons x q => simp only [List.map_cons] at h; rw [reachLoop_zero] at h; cases h
  | succ fuel ih =>
    intro st inv h
    obtain ⟨q, vis, tm⟩ := st
    cases q with
    | nil => rw [bfsLoop_nil]; rfl
    | cons x q =>
      rw [bfsLoop_succ]
      have invq : BfsInv adj s ⟨q, vis, tm⟩ :=
        { qwalk := fun t ht => inv.qwalk t (List.mem_cons_of_mem _ ht), twalk := inv.twalk, tvis := inv.tvis, nodup := inv.nodup }
      obtain ⟨inv', hv, hq⟩ := foldl_bfsVisit adj s x (inv.qwalk x (by simp)) (adj x.node) (fun a ha => ha) ⟨q, vis, tm⟩ invq
      apply ih _ inv'
      simp only [List.map_cons] at h
      rw [reachLoop_succ] at h
      rw [hq, hv]
      exact h

end Dawgs.C14
