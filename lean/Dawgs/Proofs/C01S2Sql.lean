import Dawgs.Model.C01S2
import Dawgs.Proofs.C01Sound
import Dawgs.Proofs.C01At
/-
C01 / S2a — SQL side: the frame `edge e0 join node … join node …` under `Sql.eval`.
-/
namespace Dawgs.C01.Proofs
open Dawgs Dawgs.Sql

/-- inner join of a base table / CTE: every partial row is extended by every table row that passes ON -/
theorem evalJoin_table (E : EEnv) (partials : List Level) (t : String) (alias : Option String) (tbl : Table) (on : Option Expr)
    (h : lookupTableE E t = .ok tbl) :
    evalJoin E partials .inner (.table [t] alias) on =
      (do let outs ← partials.mapE (fun lvl => (tbl.rows.map (fun r => lvl ++ [(⟨alias.getD t, tbl.cols, r⟩ : Binding)])).filterE (whTest E on))
          pure outs.flatten) := by
  rw [evalJoin]
  · have hk : (JoinKind.inner == JoinKind.leftOuter) = false := by decide
    have hf : ∀ lvl : Level, evalFromItem (E.push lvl) (.table [t] alias) = .ok (alias.getD t, tbl.cols, tbl.rows) := by
      intro lvl
      rw [evalFromItem]
      simp only [lookupTableE_push, h, ebind_ok, epure_ok]
    simp only [hf, ebind_ok, hk, Bool.and_false, Bool.false_eq_true, if_false]
    congr 1
    congr 1
    funext lvl
    simp only [bind_pure]
    rfl
  · intro hh; cases hh
  · intro hh; cases hh

def edgeCols : List String := ["id", "graph_id", "start_id", "end_id", "kind_id", "properties"]

def eB (km : KindMap) (e : EdgeRec) : Binding := ⟨"e0", edgeCols, encodeEdge km e⟩
def nB (al : String) (km : KindMap) (n : NodeRec) : Binding := ⟨al, nodeCols, encodeNode km n⟩

/-- a FROM row of the hop frame: the edge binding and the two node bindings, in either join order -/
structure HopLvl (km : KindMap) (l : Level) (e : EdgeRec) : Prop where
  edge : findBinding "e0" l = some (eB km e)

theorem lookup_e0 (km : KindMap) (l : Level) (rest : List Level) (e : EdgeRec) (h : findBinding "e0" l = some (eB km e)) :
    lookupQualifiedV "e0" "id" (l :: rest) = .ok (.int e.id) ∧
    lookupQualifiedV "e0" "start_id" (l :: rest) = .ok (.int e.start) ∧
    lookupQualifiedV "e0" "end_id" (l :: rest) = .ok (.int e.stop) ∧
    lookupQualifiedV "e0" "kind_id" (l :: rest) = .ok (.int ((km.id? e.kind).getD 0)) ∧
    lookupQualifiedV "e0" "properties" (l :: rest) = .ok (.jsonb (.obj e.props)) := by
  refine ⟨?_, ?_, ?_, ?_, ?_⟩ <;> simp [lookupQualifiedV, h, eB, colVals, edgeCols, encodeEdge]

theorem lookup_n (al : String) (km : KindMap) (l : Level) (rest : List Level) (n : NodeRec) (h : findBinding al l = some (nB al km n)) :
    lookupQualifiedV al "id" (l :: rest) = .ok (.int n.id) ∧
    lookupQualifiedV al "kind_ids" (l :: rest) = .ok (.arr (kindIdsOf km n.kinds)) ∧
    lookupQualifiedV al "properties" (l :: rest) = .ok (.jsonb (.obj n.props)) := by
  refine ⟨?_, ?_, ?_⟩ <;> simp [lookupQualifiedV, h, nB, colVals, nodeCols, encodeNode]

theorem eval_col (E : EEnv) (t c : String) : evalExpr E (S2.col t c) = lookupQualifiedV t c E.levels := by
  unfold S2.col; rw [evalExpr]

theorem vCompare_int_eq (a b : Int) : vCompare "=" (.int a) (.int b) = .ok (.bool (a == b)) := by
  simp only [vCompare, valCmp, relOp, intCmp_eq]

theorem col_not_any (t c : String) : (∀ arr, S2.col t c ≠ .anyOf arr) ∧ (∀ arr, S2.col t c ≠ .allOf arr) := by
  constructor <;> (intro arr hh; unfold S2.col at hh; cases hh)

theorem compound_not_any (ps : List String) : (∀ arr, Expr.compound ps ≠ .anyOf arr) ∧ (∀ arr, Expr.compound ps ≠ .allOf arr) := by
  constructor <;> (intro arr hh; cases hh)

/-- a node bound under alias `al` in a FROM row is an entity view for the predicate language -/
theorem entAt_node (km : KindMap) (hinj : ∀ a b i, km.id? a = some i → km.id? b = some i → a = b)
    (E : EEnv) (l : Level) (al : String) (n : NodeRec) (hn : findBinding al l = some (nB al km n)) :
    EntAt km (E.push l) al false (nodeEnt n) where
  id := by rw [show Expr.compound [al, "id"] = S2.col al "id" from rfl, eval_col]; exact (lookup_n al km l E.levels n hn).1
  props := by rw [show Expr.compound [al, "properties"] = S2.col al "properties" from rfl, eval_col]; exact (lookup_n al km l E.levels n hn).2.2
  kinds ks ids hids := by
    unfold kindsExpr
    simp only [Bool.false_eq_true, if_false]
    rw [eval_bin _ "operator (pg_catalog.@>)" _ _ (by decide) (lit_not_any ..).1 (lit_not_any ..).2,
      show Expr.compound [al, "kind_ids"] = S2.col al "kind_ids" from rfl, eval_col]
    rw [evalExpr.eq_def (E.push l) (.lit ..)]
    simp only [EEnv.push, (lookup_n al km l E.levels n hn).2.1, litVal, ebind_ok]
    unfold binOp
    simp only [containsOp, List.map_map, nodeEnt]
    congr 2
    exact kind_match_encode km hinj n.kinds ks ids hids

theorem anyOp_ints (x : Int) : ∀ (ids : List Nat), anyOp "=" (.int x) (ids.map (fun i => Val.int (Int.ofNat i))) = .ok (.bool (ids.any (fun i => x == Int.ofNat i)))
  | [] => rfl
  | i :: ids => by
    rw [List.map_cons, anyOp, binOp_eq, vCompare_int_eq, anyOp_ints x ids]
    simp only [ebind_ok, List.any_cons]
    cases (x == Int.ofNat i) <;> cases (ids.any fun i => x == Int.ofNat i) <;> rfl

/-- relationship kinds: `e0.kind_id = any (array[ids])` is `type(e) ∈ kinds` when the edge's kind is known to the (injective) kind map -/
theorem any_kind_ids (km : KindMap) (hinj : ∀ a b i, km.id? a = some i → km.id? b = some i → a = b) (k : String) (kid : Nat) (hk : km.id? k = some kid) :
    ∀ (ks : List String) (ids : List Nat), ks.mapM km.id? = some ids → ids.any (fun i => Int.ofNat kid == Int.ofNat i) = ks.contains k
  | [], ids, h => by simp only [List.mapM_nil] at h; cases h; rfl
  | k' :: ks, ids, h => by
    rw [List.mapM_cons] at h
    cases hk' : km.id? k' with
    | none => rw [hk'] at h; cases h
    | some i' =>
      rw [hk'] at h
      cases hks : ks.mapM km.id? with
      | none => rw [hks] at h; cases h
      | some ids' =>
        rw [hks] at h; cases h
        rw [List.any_cons, any_kind_ids km hinj k kid hk ks ids' hks, List.contains_cons]
        congr 1
        by_cases hkk : k = k'
        · subst hkk; rw [hk] at hk'; cases hk'; simp
        · have h1 : (k == k') = false := by simpa using hkk
          rw [h1]
          have : kid ≠ i' := fun hh => hkk (hinj k k' kid hk (hh ▸ hk'))
          have : (Int.ofNat kid == Int.ofNat i') = false := by
            have : Int.ofNat kid ≠ Int.ofNat i' := fun hh => this (Int.ofNat.inj hh)
            simpa using this
          exact this

/-- the edge bound under alias `e0` in a FROM row is an entity view (its kind must be known to the kind map) -/
theorem entAt_edge (km : KindMap) (hinj : ∀ a b i, km.id? a = some i → km.id? b = some i → a = b)
    (E : EEnv) (l : Level) (e : EdgeRec) (he : findBinding "e0" l = some (eB km e)) (hknown : (km.id? e.kind).isSome = true) :
    EntAt km (E.push l) "e0" true (edgeEnt e) where
  id := by rw [show Expr.compound ["e0", "id"] = S2.col "e0" "id" from rfl, eval_col]; exact (lookup_e0 km l E.levels e he).1
  props := by rw [show Expr.compound ["e0", "properties"] = S2.col "e0" "properties" from rfl, eval_col]; exact (lookup_e0 km l E.levels e he).2.2.2.2
  kinds ks ids hids := by
    obtain ⟨kid, hkid⟩ := Option.isSome_iff_exists.mp hknown
    unfold kindsExpr
    simp only [if_true]
    rw [evalExpr]
    have h1 : ("=" == "and" || "=" == "or") = false := by decide
    rw [show Expr.compound ["e0", "kind_id"] = S2.col "e0" "kind_id" from rfl, eval_col, evalExpr.eq_def (E.push l) (.lit ..)]
    simp only [EEnv.push, (lookup_e0 km l E.levels e he).2.2.2.1, hkid, Option.getD_some, litVal, ebind_ok, List.map_map, Function.comp_def]
    simp only [h1, Bool.false_eq_true, if_false]
    have := anyOp_ints (Int.ofNat kid) ids
    simp only [List.map_map, Function.comp_def, Int.ofNat_eq_natCast] at this ⊢
    rw [this]
    simp only [edgeEnt]
    congr 2
    have := any_kind_ids km hinj e.kind kid hkid ks ids hids
    simpa [Int.ofNat_eq_natCast] using this

-- ------------------------------------------------------------------ conjunctions of lowered predicates

/-- three-valued conjunction of the conjuncts over one entity (`[]`: true) -/
def conjT : List Cy.Tri → Cy.Tri
  | [] => some true
  | [t] => t
  | t :: ts => Cy.triAnd t (conjT ts)

theorem triAnd_true_left (t : Cy.Tri) : Cy.triAnd (some true) t = t := by
  cases t with
  | none => rfl
  | some b => cases b <;> rfl

theorem triAnd_is_true (a b : Cy.Tri) : (Cy.triAnd a b == some true) = ((a == some true) && (b == some true)) := by
  cases a with
  | none => cases b with
    | none => rfl
    | some y => cases y <;> rfl
  | some x => cases b with
    | none => cases x <;> rfl
    | some y => cases x <;> cases y <;> rfl

theorem conjT_is_true : ∀ (ts : List Cy.Tri), (conjT ts == some true) = ts.all (fun t => t == some true)
  | [] => rfl
  | [t] => by simp [conjT]
  | t :: t' :: ts => by
    have := conjT_is_true (t' :: ts)
    simp only [conjT, triAnd_is_true, this, List.all_cons]

/-- do the conjuncts over entity `x` all hold? -/
def okPreds (x : Ent) (ps : List S1.Pred) : Bool := ps.all (fun p => semE x p == some true)

theorem okPreds_conjT (x : Ent) (ps : List S1.Pred) : (conjT (ps.map (semE x)) == some true) = okPreds x ps := by
  rw [conjT_is_true, okPreds, List.all_map]; rfl

def NotAny (e : Expr) : Prop := (∀ arr, e ≠ .anyOf arr) ∧ (∀ arr, e ≠ .allOf arr)

theorem predsAnd_ben {km : KindMap} {E' : EEnv} {t : String} {edge : Bool} {x : Ent} (H : EntAt km E' t edge x)
    (hnn : ∀ k, Json.lookup k x.props ≠ some .null) :
    ∀ (ps : List S1.Pred) (e : Expr), S2.predsAnd km t edge ps = some e → Benign (evalExpr E' e) (conjT (ps.map (semE x))) ∧ NotAny e
  | [], e, h => by simp [S2.predsAnd] at h
  | [p], e, h => by
    simp only [S2.predsAnd] at h
    exact ⟨sql_predAt H hnn p e h, trAt_not_any km t edge p e h⟩
  | p :: p' :: ps, e, h => by
    simp only [S2.predsAnd] at h
    cases hp : S1.Pred.trAt km t edge p with
    | none => simp [hp, bind, Option.bind] at h
    | some a =>
      cases hq : S2.predsAnd km t edge (p' :: ps) with
      | none => simp [hp, hq, bind, Option.bind] at h
      | some b =>
        simp [hp, hq, bind, Option.bind] at h
        subst h
        obtain ⟨hb, hna⟩ := predsAnd_ben H hnn (p' :: ps) b hq
        exact ⟨and_ben _ _ _ _ _ (sql_predAt H hnn p a hp) hb hna.1 hna.2, bin_not_any ..⟩

/-- an optional condition with its three-valued meaning (`none`: true) -/
def OptBen (E' : EEnv) (c : Option Expr) (t : Cy.Tri) : Prop :=
  match c with
  | none => t = some true
  | some e => Benign (evalExpr E' e) t ∧ NotAny e

theorem predsE_ben {km : KindMap} {E' : EEnv} {t : String} {edge : Bool} {x : Ent} (H : EntAt km E' t edge x)
    (hnn : ∀ k, Json.lookup k x.props ≠ some .null) (ps : List S1.Pred) (pe : Option Expr) (h : S2.predsE km t edge ps = some pe) :
    OptBen E' pe (conjT (ps.map (semE x))) := by
  unfold S2.predsE at h
  cases hps : ps.isEmpty with
  | true =>
    simp only [hps, if_true, Option.some.injEq] at h
    subst h
    have : ps = [] := List.isEmpty_iff.mp hps
    subst this
    rfl
  | false =>
    simp only [hps, Bool.false_eq_true, if_false, Option.map_eq_some_iff] at h
    obtain ⟨e, he, rfl⟩ := h
    obtain ⟨hb, _⟩ := predsAnd_ben H hnn ps e he
    exact ⟨paren_ben _ _ _ hb, by constructor <;> (intro arr hh; cases hh)⟩

theorem both_ben (E' : EEnv) (p k : Option Expr) (tp tk : Cy.Tri) (hp : OptBen E' p tp) (hk : OptBen E' k tk) :
    OptBen E' (S2.both p k) (Cy.triAnd tp tk) := by
  cases p with
  | none =>
    simp only [OptBen] at hp
    subst hp
    rw [triAnd_true_left]
    exact hk
  | some pe =>
    cases k with
    | none =>
      simp only [OptBen] at hk
      subst hk
      rw [triAnd_true_right]
      exact hp
    | some ke =>
      exact ⟨and_ben _ _ _ _ _ hp.1 hk.1 hk.2.1 hk.2.2, bin_not_any ..⟩

/-- node kinds in a join condition -/
theorem nodeKindsE_ben {km : KindMap} {E' : EEnv} {al : String} {x : Ent} (H : EntAt km E' al false x)
    (ks : List String) (kid : Option (List Nat)) (hk : S2.kindIds? km ks = some kid) (hempty : x.kindsOk [] = true) :
    OptBen E' (S2.nodeKindsE al kid) (some (x.kindsOk ks)) := by
  unfold S2.kindIds? at hk
  cases hks : ks.isEmpty with
  | true =>
    simp only [hks, if_true, Option.some.injEq] at hk
    subst hk
    have : ks = [] := List.isEmpty_iff.mp hks
    subst this
    simp only [S2.nodeKindsE, Option.map_none, OptBen, hempty]
  | false =>
    simp only [hks, Bool.false_eq_true, if_false, Option.map_eq_some_iff] at hk
    obtain ⟨ids, hids, rfl⟩ := hk
    have := H.kinds ks ids hids
    unfold kindsExpr at this
    simp only [Bool.false_eq_true, if_false] at this
    exact ⟨Or.inl this, bin_not_any ..⟩

theorem whTest_ben (E : EEnv) (c : Option Expr) (l : Level) (t : Cy.Tri) (h : OptBen (E.push l) c t) :
    BenignT (whTest E c l) (t == some true) := by
  cases c with
  | none => simp only [OptBen] at h; subst h; exact Or.inl rfl
  | some ce =>
    rcases h.1 with h | ⟨u, h⟩
    · left; simp only [whTest, h, ebind_ok, epure_ok, isTrue_triVal]
    · right; exact ⟨u, by simp only [whTest, h]; rfl⟩

/-- the join condition `[(conjuncts) and] [kinds and] n.id = e0.<endpoint>` on a row holding edge e and node n under alias `al` -/
theorem joinOnC_ben (km : KindMap) (hinj : ∀ a b i, km.id? a = some i → km.id? b = some i → a = b)
    (E : EEnv) (l : Level) (al ep : String) (e : EdgeRec) (n : NodeRec) (epv : Int)
    (hn : findBinding al l = some (nB al km n)) (hnn : ∀ k, Json.lookup k n.props ≠ some .null)
    (hep : lookupQualifiedV "e0" ep (l :: E.levels) = .ok (.int epv))
    (ks : List String) (kid : Option (List Nat)) (hk : S2.kindIds? km ks = some kid)
    (ps : List S1.Pred) (pe : Option Expr) (hp : S2.predsE km al false ps = some pe) :
    BenignT (whTest E (some (S2.joinOnC al ep (S2.both pe (S2.nodeKindsE al kid)))) l)
      ((okPreds (nodeEnt n) ps && Cy.kindsAllOf n.kinds ks) && n.id == epv) := by
  have H := entAt_node km hinj E l al n hn
  have hid := (lookup_n al km l E.levels n hn).1
  have heq : evalExpr (E.push l) (.bin "=" (S2.col al "id") (S2.col "e0" ep)) = .ok (.bool (n.id == epv)) := by
    rw [eval_bin _ "=" (S2.col al "id") (S2.col "e0" ep) (by decide) (col_not_any ..).1 (col_not_any ..).2, eval_col, eval_col]
    simp only [EEnv.push, hid, hep, ebind_ok, binOp_eq, vCompare_int_eq]
  have hc := both_ben (E.push l) pe (S2.nodeKindsE al kid) _ _ (predsE_ben H hnn ps pe hp)
    (nodeKindsE_ben H ks kid hk (by simp [nodeEnt, Cy.kindsAllOf]))
  have hall : OptBen (E.push l) (some (S2.joinOnC al ep (S2.both pe (S2.nodeKindsE al kid))))
      (Cy.triAnd (Cy.triAnd (conjT (ps.map (semE (nodeEnt n)))) (some ((nodeEnt n).kindsOk ks))) (some (n.id == epv))) := by
    unfold S2.joinOnC
    cases hb : S2.both pe (S2.nodeKindsE al kid) with
    | none =>
      rw [hb] at hc
      simp only [OptBen] at hc
      rw [hc, triAnd_true_left]
      exact ⟨Or.inl heq, bin_not_any ..⟩
    | some c =>
      rw [hb] at hc
      exact ⟨and_ben _ _ _ _ _ hc.1 (Or.inl heq) (bin_not_any ..).1 (bin_not_any ..).2, bin_not_any ..⟩
  have := whTest_ben E _ l _ hall
  rw [triAnd_is_true, triAnd_is_true, okPreds_conjT] at this
  simpa [nodeEnt] using this

-- ------------------------------------------------------------------ list plumbing

theorem mapE_append {ε α β : Type} (F : α → Except ε β) : ∀ (xs ys : List α) (as bs : List β),
    xs.mapE F = .ok as → ys.mapE F = .ok bs → (xs ++ ys).mapE F = .ok (as ++ bs)
  | [], ys, as, bs, h1, h2 => by cases h1; exact h2
  | x :: xs, ys, as, bs, h1, h2 => by
    rw [mapE_cons] at h1
    obtain ⟨y, hy, h1⟩ := ebind_eq_ok h1
    obtain ⟨as', has, h1⟩ := ebind_eq_ok h1
    cases h1
    rw [List.cons_append, mapE_cons, hy, ebind_ok, mapE_append F xs ys as' bs has h2]
    rfl

theorem mapE_mem_ok {ε α β : Type} (F : α → Except ε β) (G : α → β) : ∀ (xs : List α), (∀ x ∈ xs, F x = .ok (G x)) → xs.mapE F = .ok (xs.map G)
  | [], _ => rfl
  | x :: xs, h => by
    rw [mapE_cons, h x (List.mem_cons_self ..), mapE_mem_ok F G xs (fun y hy => h y (List.mem_cons_of_mem _ hy))]; rfl

/-- `mapE` over a comprehension: the function may depend on the generator element -/
theorem mapE_flatMap_ok {ε α β γ : Type} (f : α → List β) (F : β → Except ε γ) (G : α → β → γ) : ∀ (xs : List α),
    (∀ x ∈ xs, ∀ y ∈ f x, F y = .ok (G x y)) → (xs.flatMap f).mapE F = .ok (xs.flatMap (fun x => (f x).map (G x)))
  | [], _ => rfl
  | x :: xs, h => by
    rw [List.flatMap_cons, List.flatMap_cons]
    exact mapE_append F _ _ _ _ (mapE_mem_ok F (G x) (f x) (h x (List.mem_cons_self ..)))
      (mapE_flatMap_ok f F G xs (fun x' hx' => h x' (List.mem_cons_of_mem _ hx')))

theorem flatten_flatMap_map {α β γ : Type} (f : α → List β) (G : α → β → List γ) (xs : List α) :
    (xs.flatMap (fun x => (f x).map (G x))).flatten = xs.flatMap (fun x => (f x).flatMap (G x)) := by
  induction xs with
  | nil => rfl
  | cons x xs ih => rw [List.flatMap_cons, List.flatMap_cons, List.flatten_append, ih, List.flatMap_def (l := f x)]

theorem filterE_mem_ok {ε α : Type} (t : α → Except ε Bool) (p : α → Bool) : ∀ (xs : List α), (∀ x ∈ xs, t x = .ok (p x)) →
    xs.filterE t = .ok (xs.filter p)
  | [], _ => rfl
  | x :: xs, h => by
    rw [filterE_cons, h x (List.mem_cons_self ..), filterE_mem_ok t p xs (fun y hy => h y (List.mem_cons_of_mem _ hy)), List.filter_cons]
    cases p x <;> rfl

-- ------------------------------------------------------------------ FROM edge e0 JOIN node … JOIN node …

theorem lookup_edge_table (km : KindMap) (g : Graph) :
    lookupTableE (E0 (encode km g)) "edge" = .ok ⟨edgeCols, g.edges.map (encodeEdge km)⟩ := by
  simp [lookupTableE, E0, encode, Db.table?, List.lookup, edgeCols]

theorem flatten_map_map {α β γ : Type} (f : α → List β) (h : α → β → γ) (xs : List α) :
    (xs.map (fun x => (f x).map (h x))).flatten = (xs.flatMap (fun x => (f x).map (fun y => (x, y)))).map (fun p => h p.1 p.2) := by
  induction xs with
  | nil => rfl
  | cons x xs ih => simp [List.flatMap_cons, List.map_append, ih, List.map_map, Function.comp_def]

/-- one `join node <al> on <on>` step over partial rows indexed by `ps` -/
theorem join_node_step (km : KindMap) (g : Graph) {ι : Type} (ps : List ι) (lv : ι → Level) (al : String) (on : Expr) (p : ι → NodeRec → Bool)
    (hon : ∀ x ∈ ps, ∀ n ∈ g.nodes, whTest (E0 (encode km g)) (some on) (lv x ++ [nB al km n]) = .ok (p x n)) :
    evalJoin (E0 (encode km g)) (ps.map lv) .inner (.table ["node"] (some al)) (some on) =
      .ok ((ps.flatMap (fun x => (g.nodes.filter (p x)).map (fun n => (x, n)))).map (fun xn => lv xn.1 ++ [nB al km xn.2])) := by
  rw [evalJoin_table _ _ _ _ _ _ (lookup_node_table km g)]
  rw [mapE_map_ok lv _ (fun x => (g.nodes.filter (p x)).map (fun n => lv x ++ [nB al km n]))]
  · simp only [ebind_ok, epure_ok]
    rw [flatten_map_map]
  · intro x hx
    simp only [Option.getD_some, List.map_map, Function.comp_def]
    exact filterE_map_ok (fun n => lv x ++ [nB al km n]) _ (p x) g.nodes (fun n hn => hon x hx n hn)

theorem mapE_map_ben {α β γ : Type} (f : α → β) (F : β → EM γ) (G : α → γ) : ∀ (xs : List α),
    (∀ x ∈ xs, BenignT (F (f x)) (G x)) → BenignT ((xs.map f).mapE F) (xs.map G)
  | [], _ => Or.inl rfl
  | x :: xs, h => by
    rw [List.map_cons, mapE_cons]
    apply benT_bind (h x (List.mem_cons_self ..))
    apply benT_bind (mapE_map_ben f F G xs (fun y hy => h y (List.mem_cons_of_mem _ hy)))
    exact Or.inl rfl

/-- one `join node <al> on <on>` step, the ON condition being total up to `unmodelled` -/
theorem join_node_step_ben (km : KindMap) (g : Graph) {ι : Type} (ps : List ι) (lv : ι → Level) (al : String) (on : Expr) (p : ι → NodeRec → Bool)
    (hon : ∀ x ∈ ps, ∀ n ∈ g.nodes, BenignT (whTest (E0 (encode km g)) (some on) (lv x ++ [nB al km n])) (p x n)) :
    BenignT (evalJoin (E0 (encode km g)) (ps.map lv) .inner (.table ["node"] (some al)) (some on))
      ((ps.flatMap (fun x => (g.nodes.filter (p x)).map (fun n => (x, n)))).map (fun xn => lv xn.1 ++ [nB al km xn.2])) := by
  rw [evalJoin_table _ _ _ _ _ _ (lookup_node_table km g)]
  apply benT_bind (mapE_map_ben lv _ (fun x => (g.nodes.filter (p x)).map (fun n => lv x ++ [nB al km n])) ps ?_)
  · left
    simp only [epure_ok]
    rw [flatten_map_map]
  · intro x hx
    simp only [Option.getD_some, List.map_map, Function.comp_def]
    exact filterE_ben (fun n => lv x ++ [nB al km n]) _ (p x) g.nodes (fun n hn => hon x hx n hn)

/-- the (edge, first node, second node) triples of the hop's FROM clause -/
def hopTriples (g : Graph) (p1 p2 : EdgeRec → NodeRec → Bool) : List ((EdgeRec × NodeRec) × NodeRec) :=
  (g.edges.flatMap (fun e => (g.nodes.filter (p1 e)).map (fun n => (e, n)))).flatMap (fun en => (g.nodes.filter (p2 en.1)).map (fun n => (en, n)))

theorem whTest_some (E : EEnv) (c : Expr) (l : Level) (b : Bool) (h : evalExpr (E.push l) c = .ok (.bool b)) :
    whTest E (some c) l = .ok b := by
  simp only [whTest, h, ebind_ok, epure_ok]
  cases b <;> rfl

/-- the FROM clause `edge e0 join node al1 on on1 join node al2 on on2`, the two ON conditions total up to `unmodelled` -/
theorem hop_from_ben (km : KindMap) (g : Graph) (al1 al2 : String) (on1 on2 : Expr) (p1 p2 : EdgeRec → NodeRec → Bool)
    (h1e : (al1 == "e0") = false) (h2e : (al2 == "e0") = false) (h12 : (al1 == al2) = false)
    (hon1 : ∀ (l : Level) (e : EdgeRec) (n : NodeRec), e ∈ g.edges → n ∈ g.nodes → findBinding "e0" l = some (eB km e) →
      findBinding al1 l = some (nB al1 km n) → BenignT (whTest (E0 (encode km g)) (some on1) l) (p1 e n))
    (hon2 : ∀ (l : Level) (e : EdgeRec) (n : NodeRec), e ∈ g.edges → n ∈ g.nodes → findBinding "e0" l = some (eB km e) →
      findBinding al2 l = some (nB al2 km n) → BenignT (whTest (E0 (encode km g)) (some on2) l) (p2 e n)) :
    BenignT (evalFromClauses (E0 (encode km g)) [[]] [.mk (.table ["edge"] (some "e0"))
        [.mk .inner (.table ["node"] (some al1)) (some on1), .mk .inner (.table ["node"] (some al2)) (some on2)]])
      ((hopTriples g p1 p2).map (fun t => [eB km t.1.1, nB al1 km t.1.2, nB al2 km t.2])) := by
  have he0 : ("e0" == al1) = false := by
    cases h : "e0" == al1 with
    | false => rfl
    | true => have := eq_of_beq h; subst this; simp at h1e
  have he02 : ("e0" == al2) = false := by
    cases h : "e0" == al2 with
    | false => rfl
    | true => have := eq_of_beq h; subst this; simp at h2e
  have hstart : evalJoin (E0 (encode km g)) [[]] .inner (.table ["edge"] (some "e0")) none = .ok (g.edges.map (fun e => [eB km e])) := by
    rw [evalJoin_table _ _ _ _ _ _ (lookup_edge_table km g)]
    simp only [mapE_singleton, whTest_none, filterE_true, ebind_ok, epure_ok, List.flatten_cons, List.flatten_nil, List.append_nil,
      List.nil_append, List.map_map, Function.comp_def, Option.getD_some]
    rfl
  rw [evalFromClauses, hstart]
  simp only [ebind_ok]
  rw [evalJoins]
  simp only [bind_assoc]
  have hmem1 : ∀ en ∈ g.edges.flatMap (fun e => (g.nodes.filter (p1 e)).map (fun n => (e, n))), en.1 ∈ g.edges := by
    intro en hen
    obtain ⟨e, he, hen⟩ := List.mem_flatMap.mp hen
    obtain ⟨n, _, rfl⟩ := List.mem_map.mp hen
    exact he
  apply benT_bind (join_node_step_ben km g g.edges (fun e => [eB km e]) al1 on1 p1 ?_)
  · rw [evalJoins]
    simp only [bind_assoc]
    apply benT_bind (join_node_step_ben km g _ (fun (en : EdgeRec × NodeRec) => [eB km en.1] ++ [nB al1 km en.2]) al2 on2
      (fun en n => p2 en.1 n) ?_)
    · left
      simp only [evalJoins, evalFromClauses, ebind_ok]
      unfold hopTriples
      simp only [List.cons_append, List.nil_append]
    · intro en hen n hn
      apply hon2 _ en.1 n (hmem1 en hen) hn
      · simp [findBinding, eB]
      · simp [findBinding, eB, nB, he02, h12]
  · intro e he n hn
    apply hon1 _ e n he hn
    · simp [findBinding, eB]
    · simp [findBinding, eB, nB, he0]

-- ------------------------------------------------------------------ the frame select

/-- non-aggregated, non-DISTINCT select over an already evaluated FROM clause -/
theorem evalSelect_from (E : EEnv) (frm : List FromClause) (rows : List Level) (proj : List Expr) (wh : Option Expr)
    (hfrom : evalFromClauses E [[]] frm = .ok rows) (hagg : hasAggL proj = false) :
    evalSetExpr E (.select false proj frm wh [] none) =
      (do let rows' ← rows.filterE (whTest E wh)
          let out ← rows'.mapE (fun l => do let vals ← evalProj (E.push l) l proj; pure (vals, some (E.push l)))
          pure (projNames proj rows', out)) := by
  rw [evalSetExpr]
  simp only [Option.isSome_none, Bool.false_eq_true, if_false, hfrom, ebind_ok, hagg, List.isEmpty_nil, Bool.not_true, Bool.or_false]
  rfl

/-- the edgecomposite value of a graph edge -/
def edgeVal (km : KindMap) (e : EdgeRec) : Val :=
  .row "edgecomposite" [.int e.id, .int e.start, .int e.stop, .int ((km.id? e.kind).getD 0), .jsonb (.obj e.props)]

theorem eval_edgeComposite (km : KindMap) (E : EEnv) (l : Level) (e : EdgeRec) (he : findBinding "e0" l = some (eB km e)) :
    evalExpr (E.push l) S2.edgeComposite = .ok (edgeVal km e) := by
  have h := lookup_e0 km l E.levels e he
  unfold S2.edgeComposite
  rw [evalExpr, evalExpr]
  simp only [evalExprs, eval_col, EEnv.push, h.1, h.2.1, h.2.2.1, h.2.2.2.1, h.2.2.2.2, ebind_ok, epure_ok, edgeVal]

theorem eval_nodeCompositeOf (al : String) (km : KindMap) (E : EEnv) (l : Level) (n : NodeRec) (hn : findBinding al l = some (nB al km n)) :
    evalExpr (E.push l) (S2.nodeCompositeOf al) = .ok (nodeVal km n) := by
  have h := lookup_n al km l E.levels n hn
  unfold S2.nodeCompositeOf
  rw [evalExpr, evalExpr]
  simp only [evalExprs, eval_col, EEnv.push, h.1, h.2.1, h.2.2, ebind_ok, epure_ok, nodeVal]

/-- the frame's WHERE `[(conjuncts over r) and] [e0.kind_id = any (array[…])]` -/
theorem hop_where_ben (km : KindMap) (hinj : ∀ a b i, km.id? a = some i → km.id? b = some i → a = b) (E : EEnv) (l : Level) (e : EdgeRec)
    (he : findBinding "e0" l = some (eB km e)) (hknown : (km.id? e.kind).isSome = true) (hnn : ∀ k, Json.lookup k e.props ≠ some .null)
    (ks : List String) (kr : Option (List Nat)) (hk : S2.kindIds? km ks = some kr)
    (ps : List S1.Pred) (pe : Option Expr) (hp : S2.predsE km "e0" true ps = some pe) :
    BenignT (whTest E (S2.both pe (kr.map (fun ids => Expr.bin "=" (S2.col "e0" "kind_id") (.anyOf (S2.kindsLit ids))))) l)
      (okPreds (edgeEnt e) ps && Cy.kindAnyOf e.kind ks) := by
  have H := entAt_edge km hinj E l e he hknown
  have hkinds : OptBen (E.push l) (kr.map (fun ids => Expr.bin "=" (S2.col "e0" "kind_id") (.anyOf (S2.kindsLit ids)))) (some (Cy.kindAnyOf e.kind ks)) := by
    unfold S2.kindIds? at hk
    cases hks : ks.isEmpty with
    | true =>
      simp only [hks, if_true, Option.some.injEq] at hk
      subst hk
      simp only [Option.map_none, OptBen, Cy.kindAnyOf, hks, Bool.true_or]
    | false =>
      simp only [hks, Bool.false_eq_true, if_false, Option.map_eq_some_iff] at hk
      obtain ⟨ids, hids, rfl⟩ := hk
      have := H.kinds ks ids hids
      unfold kindsExpr at this
      simp only [if_true] at this
      refine ⟨Or.inl ?_, bin_not_any ..⟩
      simp only [Option.map_some, S2.col, S2.kindsLit, Cy.kindAnyOf, hks, Bool.false_or]
      exact this
  have := whTest_ben E _ l _ (both_ben (E.push l) pe _ _ _ (predsE_ben H hnn ps pe hp) hkinds)
  rw [triAnd_is_true, okPreds_conjT] at this
  simpa using this

theorem evalSelect_from' (E : EEnv) (frm : List FromClause) (proj : List Expr) (wh : Option Expr) (hagg : hasAggL proj = false) :
    evalSetExpr E (.select false proj frm wh [] none) =
      (do let rows ← evalFromClauses E [[]] frm
          let rows' ← rows.filterE (whTest E wh)
          let out ← rows'.mapE (fun l => do let vals ← evalProj (E.push l) l proj; pure (vals, some (E.push l)))
          pure (projNames proj rows', out)) := by
  rw [evalSetExpr]
  simp only [Option.isSome_none, Bool.false_eq_true, if_false, hagg, List.isEmpty_nil, Bool.not_true, Bool.or_false]
  rfl

/-- a select list made of the flagged members of a list of (flag, expression, value) triples -/
theorem evalProj_flagged (E : EEnv) (lvl : Level) : ∀ (xs : List (Bool × Expr × Val)),
    (∀ x ∈ xs, evalExpr E x.2.1 = .ok x.2.2 ∧ x.2.1 ≠ .wildcard) →
    evalProj E lvl ((xs.filter (·.1)).map (·.2.1)) = .ok ((xs.filter (·.1)).map (·.2.2))
  | [], _ => by rw [List.filter_nil, List.map_nil, evalProj]; rfl
  | x :: xs, h => by
    have ih := evalProj_flagged E lvl xs (fun y hy => h y (List.mem_cons_of_mem _ hy))
    obtain ⟨he, hw⟩ := h x (List.mem_cons_self ..)
    rw [List.filter_cons]
    cases hx : x.1 with
    | false => simpa using ih
    | true =>
      simp only [if_true, List.map_cons]
      rw [evalProj]
      · rw [he, ih]; rfl
      · exact hw

/-- names and values of the kept bindings of a FROM row, in the order e0, n0, n1 -/
def keptCols (ke ka kb : Bool) : List String := ([(ke, "e0"), (ka, "n0"), (kb, "n1")].filter (·.1)).map (·.2)
def keptVals (km : KindMap) (ke ka kb : Bool) (e : EdgeRec) (a b : NodeRec) : List Val :=
  ([(ke, edgeVal km e), (ka, nodeVal km a), (kb, nodeVal km b)].filter (·.1)).map (·.2)

/-- the frame `s0` of a hop: one row per FROM row that passes WHERE, holding the kept bindings -/
theorem hop_frame_ben (km : KindMap) (g : Graph) (ke ka kb : Bool)
    {T : Type} (ts : List T) (lv : T → Level) (eOf : T → EdgeRec) (aOf bOf : T → NodeRec) (frm : List FromClause)
    (hfrom : BenignT (evalFromClauses (E0 (encode km g)) [[]] frm) (ts.map lv))
    (hb : ∀ t ∈ ts, findBinding "e0" (lv t) = some (eB km (eOf t)) ∧ findBinding "n0" (lv t) = some (nB "n0" km (aOf t)) ∧
      findBinding "n1" (lv t) = some (nB "n1" km (bOf t)))
    (wh : Option Expr) (pw : T → Bool) (hwh : ∀ t ∈ ts, BenignT (whTest (E0 (encode km g)) wh (lv t)) (pw t)) :
    BenignT (evalQuery (E0 (encode km g)) (Query.simple (.select false (S2.frameProj ke ka kb) frm wh [] none)))
      (⟨keptCols ke ka kb, (ts.filter pw).map (fun t => keptVals km ke ka kb (eOf t) (aOf t) (bOf t))⟩ : Table) := by
  have hagg : hasAggL (S2.frameProj ke ka kb) = false := by cases ke <;> cases ka <;> cases kb <;> decide
  rw [evalQuery_simple, evalSelect_from' _ _ _ _ hagg]
  simp only [bind_assoc]
  apply benT_bind hfrom
  apply benT_bind (filterE_ben lv _ pw ts hwh)
  left
  rw [mapE_map_ok lv _ (fun t => (keptVals km ke ka kb (eOf t) (aOf t) (bOf t), some ((E0 (encode km g)).push (lv t))))]
  · simp only [ebind_ok, epure_ok, List.map_map, Function.comp_def]
    have hnames : ∀ (rows : List Level), projNames (S2.frameProj ke ka kb) rows = keptCols ke ka kb := by
      intro rows; cases ke <;> cases ka <;> cases kb <;> rfl
    rw [hnames]
  · intro t ht
    have ht' := (List.mem_filter.mp ht).1
    obtain ⟨h1, h2, h3⟩ := hb t ht'
    have := evalProj_flagged ((E0 (encode km g)).push (lv t)) (lv t)
      [(ke, S2.edgeComposite, edgeVal km (eOf t)), (ka, S2.nodeCompositeOf "n0", nodeVal km (aOf t)), (kb, S2.nodeCompositeOf "n1", nodeVal km (bOf t))]
      (by
        intro x hx
        simp only [List.mem_cons, List.mem_singleton, List.not_mem_nil, or_false] at hx
        rcases hx with rfl | rfl | rfl
        · exact ⟨eval_edgeComposite km _ _ _ h1, by unfold S2.edgeComposite; intro hh; cases hh⟩
        · exact ⟨eval_nodeCompositeOf "n0" km _ _ _ h2, by unfold S2.nodeCompositeOf; intro hh; cases hh⟩
        · exact ⟨eval_nodeCompositeOf "n1" km _ _ _ h3, by unfold S2.nodeCompositeOf; intro hh; cases hh⟩)
    have hp : S2.frameProj ke ka kb = (([(ke, S2.edgeComposite, edgeVal km (eOf t)), (ka, S2.nodeCompositeOf "n0", nodeVal km (aOf t)),
        (kb, S2.nodeCompositeOf "n1", nodeVal km (bOf t))] : List (Bool × Expr × Val)).filter (·.1)).map (·.2.1) := by
      cases ke <;> cases ka <;> cases kb <;> rfl
    have hv : keptVals km ke ka kb (eOf t) (aOf t) (bOf t) = (([(ke, S2.edgeComposite, edgeVal km (eOf t)), (ka, S2.nodeCompositeOf "n0", nodeVal km (aOf t)),
        (kb, S2.nodeCompositeOf "n1", nodeVal km (bOf t))] : List (Bool × Expr × Val)).filter (·.1)).map (·.2.2) := by
      cases ke <;> cases ka <;> cases kb <;> rfl
    rw [hp, this, ← hv]; rfl

-- ------------------------------------------------------------------ the statement: WITH s0 AS (frame) SELECT items FROM s0

theorem eval_cteStmt (db : Db) (frameQ : Query) (body : SetExpr) :
    Sql.eval db (.query (.mk false [.mk "s0" none none frameQ] body [] none none)) [] = (do
      let t0 ← evalQuery (E0 db) frameQ
      let r ← evalSetExpr (E1 db t0) body
      pure (⟨r.1, r.2.map (·.1)⟩ : Table)) := by
  rw [Sql.eval, evalQuery, evalCtes]
  · simp only [evalCtes, ebind_ok, epure_ok, bind_assoc, evalOrderKeys, evalOpt, cutRows_none]
    congr 1
    funext t0
    congr 1
    funext r
    rw [mapE_pure (fun row => (([] : List (Val × Bool)), row)) r.2]
    simp only [ebind_ok, orderRows_nokeys, cutRows_none, epure_ok]
  · intro _ _ _ _ _ hh _; cases hh

def sLvl3 (km : KindMap) (e : EdgeRec) (a b : NodeRec) : Level := [⟨"s0", ["e0", "n0", "n1"], [edgeVal km e, nodeVal km a, nodeVal km b]⟩]

def propVal (props : List (String × Json)) (k : String) : Val := match Json.lookup k props with | some j => .jsonb j | none => .null

/-- the SQL value of a RETURN item on the matched (edge, a, b) -/
def itemVal2 (km : KindMap) (e : EdgeRec) (a b : NodeRec) : S2.Item → Val
  | .ent .a _ => nodeVal km a
  | .ent .r _ => edgeVal km e
  | .ent .b _ => nodeVal km b
  | .idOf .a _ => .int a.id
  | .idOf .r _ => .int e.id
  | .idOf .b _ => .int b.id
  | .prop .a k _ => propVal a.props k
  | .prop .r k _ => propVal e.props k
  | .prop .b k _ => propVal b.props k

def sLvlK (km : KindMap) (ke ka kb : Bool) (e : EdgeRec) (a b : NodeRec) : Level :=
  [⟨"s0", keptCols ke ka kb, keptVals km ke ka kb e a b⟩]

def keepOf (ke ka kb : Bool) : S2.Ref → Bool
  | .a => ka | .r => ke | .b => kb

def refVal (km : KindMap) (e : EdgeRec) (a b : NodeRec) : S2.Ref → Val
  | .a => nodeVal km a | .r => edgeVal km e | .b => nodeVal km b

theorem eval_s0colK (km : KindMap) (ke ka kb : Bool) (e : EdgeRec) (a b : NodeRec) (E : EEnv) (x : S2.Ref) (hk : keepOf ke ka kb x = true) :
    evalExpr (E.push (sLvlK km ke ka kb e a b)) (S2.col "s0" (S2.frameName x)) = .ok (refVal km e a b x) := by
  rw [eval_col]
  cases x <;> cases ke <;> cases ka <;> cases kb <;> simp [keepOf] at hk <;>
    simp [EEnv.push, lookupQualifiedV, sLvlK, keptCols, keptVals, findBinding, colVals, S2.frameName, refVal]

theorem eval_item2 (km : KindMap) (q : S2.Query) (ke ka kb : Bool) (e : EdgeRec) (a b : NodeRec) (E : EEnv) (it : S2.Item)
    (hk : keepOf ke ka kb it.ref = true) :
    evalExpr (E.push (sLvlK km ke ka kb e a b)) (it.tr q) = .ok (itemVal2 km e a b it) := by
  have hcol := eval_s0colK km ke ka kb e a b E it.ref hk
  have harrow : ∀ (x : Expr) (props : List (String × Json)) (k : String), evalExpr (E.push (sLvlK km ke ka kb e a b)) x = .ok (.jsonb (.obj props)) →
      evalExpr (E.push (sLvlK km ke ka kb e a b)) (.bin "->" x (S1.strLit k)) = .ok (propVal props k) := by
    intro x props k hx
    rw [eval_bin _ _ _ _ (by decide) (strLit_not_any k).1 (strLit_not_any k).2]
    simp only [hx, eval_strLit, ebind_ok]
    unfold binOp
    simp only [arrowOp, jsonGet, propVal]
    rfl
  cases it with
  | ent x al =>
    simp only [S2.Item.ref] at hcol
    cases x <;> (simp only [S2.Item.tr, itemVal2]; rw [evalExpr]; simpa [refVal] using hcol)
  | idOf x al =>
    simp only [S2.Item.ref] at hcol
    cases x <;> cases al <;> simp only [S2.Item.tr, itemVal2] <;>
      (first | (rw [evalExpr, evalExpr]) | (rw [evalExpr])) <;>
      simp [hcol, refVal, edgeVal, nodeVal, compositeFields, List.zip, List.lookup]
  | prop x k al =>
    simp only [S2.Item.ref] at hcol
    cases x <;> cases al <;> simp only [S2.Item.tr, itemVal2] <;>
      first
        | (apply harrow; rw [evalExpr, hcol]; simp [refVal, nodeVal, edgeVal, compositeFields, List.zip, List.lookup])
        | (rw [evalExpr]; apply harrow; rw [evalExpr, hcol]; simp [refVal, nodeVal, edgeVal, compositeFields, List.zip, List.lookup])

end Dawgs.C01.Proofs
