/- Helper lemmas for C14: little-endian words and the segment (un)marshalling state machine. -/
import Dawgs.Spec.C14
set_option linter.unusedSimpArgs false
set_option linter.unusedVariables false
namespace Dawgs.C14

theorem leBytesN_zero (n : Nat) : leBytesN 0 n = [] := rfl
theorem leBytesN_succ (k n : Nat) : leBytesN (k + 1) n = n % 256 :: leBytesN k (n / 256) := rfl

theorem leBytesN_length (k : Nat) : ∀ n, (leBytesN k n).length = k := by
  induction k with
  | zero => intro n; rfl
  | succ k ih => intro n; rw [leBytesN_succ, List.length_cons, ih]

theorem unle_nil : unle [] = 0 := rfl
theorem unle_cons (b : Nat) (bs : List Nat) : unle (b :: bs) = b + 256 * unle bs := rfl

theorem unle_leBytesN (k : Nat) : ∀ n, unle (leBytesN k n) = n % 256 ^ k := by
  induction k with
  | zero => intro n; simp [leBytesN_zero, unle_nil, Nat.mod_one]
  | succ k ih =>
    intro n
    rw [leBytesN_succ, unle_cons, ih, Nat.pow_succ, Nat.mul_comm (256 ^ k) 256, Nat.mod_mul]

theorem le64_length (n : Nat) : (le64 n).length = 8 := leBytesN_length 8 _

theorem unle_le64 (n : Nat) : unle (le64 n) = n % 2 ^ 64 := by
  unfold le64
  rw [unle_leBytesN]
  have : (256 : Nat) ^ 8 = 2 ^ 64 := by decide
  rw [this, Nat.mod_mod]

/-- every byte written is a byte -/
theorem leBytesN_lt (k : Nat) : ∀ n, ∀ b ∈ leBytesN k n, b < 256 := by
  induction k with
  | zero => intro n b hb; cases hb
  | succ k ih =>
    intro n b hb
    rw [leBytesN_succ] at hb
    rcases List.mem_cons.mp hb with rfl | hb
    · exact Nat.mod_lt _ (by decide)
    · exact ih _ b hb

theorem words_nil (fuel : Nat) : words fuel [] = some [] := by cases fuel <;> rfl
theorem words_succ_cons (fuel b : Nat) (bs : List Nat) :
    words (fuel + 1) (b :: bs) =
      if (b :: bs).length < 8 then none
      else (words fuel ((b :: bs).drop 8)).map (fun ws => unle ((b :: bs).take 8) :: ws) := rfl

theorem words_append (fuel : Nat) (w rest : List Nat) (hw : w.length = 8) :
    words (fuel + 1) (w ++ rest) = (words fuel rest).map (fun ws => unle w :: ws) := by
  cases w with
  | nil => simp at hw
  | cons b w' =>
    rw [List.cons_append, words_succ_cons]
    have hlen : ¬ (b :: (w' ++ rest)).length < 8 := by
      simp only [List.length_cons, List.length_append] at hw ⊢; omega
    rw [if_neg hlen]
    have h1 : (b :: (w' ++ rest)).drop 8 = rest := by
      rw [← List.cons_append, List.drop_left' hw]
    have h2 : (b :: (w' ++ rest)).take 8 = b :: w' := by
      rw [← List.cons_append, List.take_left' hw]
    rw [h1, h2]

theorem words_flatMap (ids : List Nat) : ∀ fuel, ids.length < fuel →
    words fuel (ids.flatMap le64) = some (ids.map (· % 2 ^ 64)) := by
  induction ids with
  | nil => intro fuel _; simp [words_nil]
  | cons n ids ih =>
    intro fuel h
    obtain ⟨f, rfl⟩ : ∃ f, fuel = f + 1 := ⟨fuel - 1, by simp at h; omega⟩
    rw [List.flatMap_cons, words_append f _ _ (le64_length n), ih f (by simp at h; omega), unle_le64]
    rfl

theorem flatMap_le64_length (ids : List Nat) : (ids.flatMap le64).length = 8 * ids.length := by
  induction ids with
  | nil => rfl
  | cons n ids ih => rw [List.flatMap_cons, List.length_append, le64_length, ih, List.length_cons]; omega

theorem marshalIds_single (s : Seg) : marshalIds [s] = [s.node] := rfl
theorem marshalIds_cons2 (s t : Seg) (rest : List Seg) :
    marshalIds (s :: t :: rest) = s.node :: s.edge :: marshalIds (t :: rest) := rfl

theorem unmarshalIds_single (n : Nat) : unmarshalIds [n] = [⟨n, 0⟩] := rfl
theorem unmarshalIds_cons2 (n e : Nat) (rest : List Nat) : unmarshalIds (n :: e :: rest) = ⟨n, e⟩ :: unmarshalIds rest := rfl

/-- the id-level state machines are inverse on chains whose root `Edge` is 0 -/
theorem unmarshalIds_marshalIds : ∀ (s : List Seg) (hne : s ≠ []), (s.getLast hne).edge = 0 →
    unmarshalIds (marshalIds s) = s := by
  intro s
  induction s with
  | nil => intro hne; exact absurd rfl hne
  | cons a t ih =>
    intro hne h0
    cases t with
    | nil =>
      rw [marshalIds_single, unmarshalIds_single]
      simp at h0
      cases a; simp_all
    | cons b t' =>
      rw [marshalIds_cons2, unmarshalIds_cons2, ih (by simp) (by simpa using h0)]

theorem mem_marshalIds {s : List Seg} {x : Nat} (h : x ∈ marshalIds s) : ∃ c ∈ s, x = c.node ∨ x = c.edge := by
  induction s with
  | nil => cases h
  | cons a t ih =>
    cases t with
    | nil => rw [marshalIds_single] at h; simp at h; exact ⟨a, by simp, Or.inl h⟩
    | cons b t' =>
      rw [marshalIds_cons2] at h
      rcases List.mem_cons.mp h with rfl | h
      · exact ⟨a, by simp, Or.inl rfl⟩
      · rcases List.mem_cons.mp h with rfl | h
        · exact ⟨a, by simp, Or.inr rfl⟩
        · obtain ⟨c, hc, hx⟩ := ih h
          exact ⟨c, List.mem_cons_of_mem _ hc, hx⟩

theorem map_mod_id {l : List Nat} (h : ∀ x ∈ l, x < 2 ^ 64) : l.map (· % 2 ^ 64) = l := by
  induction l with
  | nil => rfl
  | cons a l ih =>
    rw [List.map_cons, ih (fun x hx => h x (List.mem_cons_of_mem _ hx)), Nat.mod_eq_of_lt (h a (by simp))]

end Dawgs.C14
