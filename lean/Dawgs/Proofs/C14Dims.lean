/- Helper lemmas for C14: `Degrees` (callback counts) and `Dimensions` agree across the set-valued containers. -/
import Dawgs.Proofs.C14Edges
set_option linter.unusedSimpArgs false
set_option linter.unusedVariables false
namespace Dawgs.C14

/-! ### callback sequences without repetition -/

theorem AdjMap.adjacent_nodup {a : AdjMap} {g : G} (r : a.Rel g) (v : Nat) (d : Dir) : (a.adjacent v d).Nodup := by
  apply Asc.nodup
  unfold AdjMap.adjacent AdjMap.getAdjacent
  cases d with
  | out =>
    cases h : mlookup a.outbound v with
    | none => exact asc_nil
    | some o => have := r.ascOut v; rw [mget_eq_of_lookup h] at this; exact this
  | inn =>
    cases h : mlookup a.inbound v with
    | none => exact asc_nil
    | some o => have := r.ascIn v; rw [mget_eq_of_lookup h] at this; exact this
  | both =>
    cases ho : mlookup a.outbound v <;> cases hi : mlookup a.inbound v
    · exact asc_nil
    · have := r.ascIn v; rw [mget_eq_of_lookup hi] at this; exact this
    · have := r.ascOut v; rw [mget_eq_of_lookup ho] at this; exact this
    · have := r.ascOut v; rw [mget_eq_of_lookup ho] at this
      exact asc_sunion this

theorem asc_tsAdjStep (fixed : Bool) (t : TS) (n : Nat) (d : Dir) (acc : List Nat) (i : Nat) (h : Asc acc) :
    Asc (tsAdjStep fixed t n d acc i) := by
  unfold tsAdjStep
  cases t.edges[i]? with
  | none => exact h
  | some e =>
    simp only
    split
    · exact h
    · unfold tsAddEnds
      cases d with
      | out => exact asc_sinsert h
      | inn => exact asc_sinsert h
      | both => cases fixed
                · exact asc_sinsert (asc_sinsert h)
                · exact asc_sinsert h

theorem TS.adjacent_nodup (fixed : Bool) (t : TS) (v : Nat) (d : Dir) : (t.adjacent fixed v d).Nodup := by
  apply Asc.nodup
  unfold TS.adjacent
  generalize t.adjacentEdgeIndices v d = idxs
  have : ∀ (idxs : List Nat) (acc : List Nat), Asc acc → Asc (idxs.foldl (tsAdjStep fixed t v d) acc) := by
    intro idxs
    induction idxs with
    | nil => intro acc h; exact h
    | cons i idxs ih => intro acc h; exact ih _ (asc_tsAdjStep fixed t v d acc i h)
  exact this idxs [] asc_nil

theorem csr_row_nodup {b : CsrB} {g : G} (r : b.Rel g) (tmp : NMap) (P : Nat → Nat → Prop) (hasc : ∀ i, Asc (mget tmp i))
    (htmp : ∀ i j, j ∈ mget tmp i ↔ ∃ s t, b.denseToId[i]? = some s ∧ b.denseToId[j]? = some t ∧ P s t) (i : Nat) :
    ((mget tmp i).map (idOf b.denseToId)).Nodup := by
  unfold List.Nodup
  rw [List.pairwise_map]
  refine List.Pairwise.imp_of_mem ?_ (asc_pairwise_ne (hasc i))
  intro j j' hj hj' hne heq
  obtain ⟨_, _, _, h1, _⟩ := (htmp i j).mp hj
  obtain ⟨_, _, _, h2, _⟩ := (htmp i j').mp hj'
  have e1 := idOf_of_get h1
  have e2 := idOf_of_get h2
  rw [e1] at heq
  rw [e2] at heq
  subst heq
  exact hne (nodup_getElem?_inj r.nodup h1 h2)

theorem Csr.adjacent_nodup {b : CsrB} {g : G} (r : b.Rel g) (v : Nat) (d : Dir) (hd : d ≠ .both) :
    (b.build.adjacent v d).Nodup := by
  unfold Csr.adjacent CsrB.build
  simp only
  cases hl : ilookup b.idToDense v with
  | none => simp
  | some idx =>
    simp only
    have hidx := (r.idx v idx).mp hl
    have hlt : idx < b.denseToId.length := by
      rcases Nat.lt_or_ge idx b.denseToId.length with h | h
      · exact h
      · rw [List.getElem?_eq_none h] at hidx; cases hidx
    cases d with
    | out =>
      simp only
      rw [(buildSide_spec b.denseToId b.outTmp).2.2.2.2.2 idx hlt]
      exact csr_row_nodup r b.outTmp _ r.ascOut r.out idx
    | inn =>
      simp only
      rw [(buildSide_spec b.denseToId b.inTmp).2.2.2.2.2 idx hlt]
      exact csr_row_nodup r b.inTmp _ r.ascIn r.inn idx
    | both => exact absurd rfl hd

/-! ### the largest row -/

def rowMax (nodes : List Nat) (f : Nat → Nat) : Nat := nodes.foldl (fun m n => if f n > m then f n else m) 0

theorem foldl_max_spec (f : Nat → Nat) (l : List Nat) : ∀ (a : Nat),
    a ≤ l.foldl (fun m n => if f n > m then f n else m) a ∧
    (∀ x ∈ l, f x ≤ l.foldl (fun m n => if f n > m then f n else m) a) ∧
    (l.foldl (fun m n => if f n > m then f n else m) a = a ∨
      ∃ x ∈ l, f x = l.foldl (fun m n => if f n > m then f n else m) a) := by
  induction l with
  | nil => intro a; simp
  | cons x l ih =>
    intro a
    simp only [List.foldl_cons]
    by_cases hx : f x > a
    · rw [if_pos hx]
      obtain ⟨h1, h2, h3⟩ := ih (f x)
      refine ⟨by omega, ?_, ?_⟩
      · intro y hy
        rcases List.mem_cons.mp hy with rfl | hy
        · exact h1
        · exact h2 y hy
      · rcases h3 with h3 | ⟨y, hy, h3⟩
        · exact Or.inr ⟨x, by simp, h3.symm⟩
        · exact Or.inr ⟨y, List.mem_cons_of_mem _ hy, h3⟩
    · rw [if_neg hx]
      obtain ⟨h1, h2, h3⟩ := ih a
      refine ⟨h1, ?_, ?_⟩
      · intro y hy
        rcases List.mem_cons.mp hy with rfl | hy
        · omega
        · exact h2 y hy
      · rcases h3 with h3 | ⟨y, hy, h3⟩
        · exact Or.inl h3
        · exact Or.inr ⟨y, List.mem_cons_of_mem _ hy, h3⟩

theorem rowMax_congr {l l' : List Nat} {f f' : Nat → Nat} (hl : ∀ x, x ∈ l ↔ x ∈ l') (hf : ∀ x ∈ l, f x = f' x) :
    rowMax l f = rowMax l' f' := by
  unfold rowMax
  obtain ⟨_, a2, a3⟩ := foldl_max_spec f l 0
  obtain ⟨_, b2, b3⟩ := foldl_max_spec f' l' 0
  apply Nat.le_antisymm
  · rcases a3 with h | ⟨x, hx, h⟩
    · omega
    · rw [← h, hf x hx]; exact b2 x ((hl x).mp hx)
  · rcases b3 with h | ⟨x, hx, h⟩
    · omega
    · rw [← h, ← hf x ((hl x).mpr hx)]; exact a2 x ((hl x).mpr hx)

theorem dimensions_eq_rowMax (nodes : List Nat) (n : Nat) (adj : Nat → List Nat) :
    dimensions nodes n adj = (n, rowMax nodes (fun v => (adj v).length)) := rfl

end Dawgs.C14
