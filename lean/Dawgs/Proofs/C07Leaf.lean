import Dawgs.Model.C07Tree
set_option linter.unusedSimpArgs false
set_option linter.unusedVariables false
/-! Typed leaves and name tables: decoding what `treeOf` encodes. -/
namespace Dawgs.C07
open Dawgs.Grammar Dawgs.C08

theorem mkLeaf_toList (k : Nat) (s : String) : (mkLeaf k s).toList = Nat.toDigits 10 k ++ ':' :: s.toList := by
  simp [mkLeaf, String.toList_append, Nat.toList_repr]

theorem digit_ne_colon {c : Char} (h : c.isDigit = true) : (c != ':') = true := by
  simp [Char.isDigit] at h
  simp
  intro hc; subst hc; simp at h

theorem takeWhile_digits (ds rest : List Char) (h : ∀ c ∈ ds, c.isDigit = true) :
    (ds ++ ':' :: rest).takeWhile (· != ':') = ds := by
  induction ds with
  | nil => simp
  | cons d ds ih =>
    have hd := digit_ne_colon (h d (by simp))
    simp [hd]
    exact ih (fun c hc => h c (by simp [hc]))

theorem dropWhile_digits (ds rest : List Char) (h : ∀ c ∈ ds, c.isDigit = true) :
    (ds ++ ':' :: rest).dropWhile (· != ':') = ':' :: rest := by
  induction ds with
  | nil => simp
  | cons d ds ih =>
    have hd := digit_ne_colon (h d (by simp))
    simp [hd]
    exact ih (fun c hc => h c (by simp [hc]))

theorem foldl_digits (ds : List Char) (a : Nat) :
    ds.foldl (fun a c => a * 10 + (c.toNat - 48)) a = Nat.ofDigitChars 10 ds a := by
  induction ds generalizing a with
  | nil => simp
  | cons d ds ih => simp [Nat.ofDigitChars_cons, ih, Nat.mul_comm]

theorem digitsVal_toDigits (k : Nat) : digitsVal (Nat.toDigits 10 k) = k := by
  unfold digitsVal; rw [foldl_digits]; simp

theorem toDigits_all_digit (k : Nat) : ∀ c ∈ Nat.toDigits 10 k, c.isDigit = true :=
  fun c hc => Nat.isDigit_of_mem_toDigits (by decide) (by decide) hc

theorem toDigits_head_ne_minus (k : Nat) : ∀ ds, Nat.toDigits 10 k ≠ '-' :: ds := by
  intro ds h
  have := toDigits_all_digit k '-' (by rw [h]; simp)
  simp [Char.isDigit] at this

@[simp] theorem leafType_mkLeaf (k : Nat) (s : String) : leafType (mkLeaf k s) = (k : Int) := by
  unfold leafType
  rw [mkLeaf_toList, takeWhile_digits _ _ (toDigits_all_digit k)]
  have hne : Nat.toDigits 10 k ≠ [] := Nat.toDigits_ne_nil
  have hall : (Nat.toDigits 10 k).all Char.isDigit = true := List.all_eq_true.2 (toDigits_all_digit k)
  split
  · rename_i ds heq; exact absurd heq (toDigits_head_ne_minus k ds)
  · rename_i ds hnm
    have hemp : (Nat.toDigits 10 k).isEmpty = false := by
      cases h : Nat.toDigits 10 k with
      | nil => exact absurd h hne
      | cons _ _ => rfl
    simp [hemp, hall, digitsVal_toDigits]

@[simp] theorem leafText_mkLeaf (k : Nat) (s : String) : leafText (mkLeaf k s) = s := by
  unfold leafText
  rw [mkLeaf_toList, dropWhile_digits _ _ (toDigits_all_digit k)]
  simp [String.ofList_toList]

/-! ### integers: strconv.ParseInt of what strconv.FormatInt wrote -/

theorem parseInt64_toString (n : Nat) (h : (n : Int) ≤ maxInt64) : parseInt64 (toString n) = some (n : Int) := by
  unfold parseInt64
  have htl : (toString n).toList = Nat.toDigits 10 n := by simp [Nat.toList_repr]
  have hne : (toString n).isEmpty = false := by
    have : toString n ≠ "" := by simpa using (Nat.repr_ne_empty (n := n))
    simpa [String.isEmpty_iff] using this
  have hall : (toString n).toList.all isDigit = true := by
    rw [htl]; apply List.all_eq_true.2
    intro c hc
    simpa [isDigit] using toDigits_all_digit n c hc
  have hv : (toString n).toList.foldl (fun a c => a * 10 + (c.toNat - '0'.toNat)) 0 = n := by
    rw [htl]
    have := digitsVal_toDigits n
    unfold digitsVal at this
    simpa using this
  simp only [hne, hall, hv]
  unfold maxInt64 at h
  simp
  omega

/-! ### name tables -/

theorem ok_rule {N : Names} (h : N.ok = true) {r : String} (hr : r ∈ usedRules) : N.rule (N.rid r) = r := by
  unfold Names.ok at h
  simp only [Bool.and_eq_true] at h
  have := (List.all_eq_true.1 h.1.1) r hr
  simpa using this

theorem ok_tok {N : Names} (h : N.ok = true) {t : String} (ht : t ∈ usedToks) : N.tok t = (N.tokNat t : Int) := by
  unfold Names.ok at h
  simp only [Bool.and_eq_true] at h
  have := (List.all_eq_true.1 h.1.2) t ht
  simpa using this

theorem ok_inj {N : Names} (h : N.ok = true) {a b : String} (ha : a ∈ usedToks) (hb : b ∈ usedToks) (hab : a ≠ b) :
    N.tokNat a ≠ N.tokNat b := by
  unfold Names.ok at h
  simp only [Bool.and_eq_true] at h
  have := (List.all_eq_true.1 ((List.all_eq_true.1 h.2) a ha)) b hb
  simp [hab] at this
  exact this

@[simp] theorem rootRule_nd (N : Names) (r : String) (ks : List Tree) : (N.nd r ks).rootRule = some (N.rid r) := rfl
@[simp] theorem rootRule_lf (N : Names) (t s : String) : (N.lf t s).rootRule = none := rfl
@[simp] theorem kids_nd (N : Names) (r : String) (ks : List Tree) : kids (N.nd r ks) = ks := rfl

theorem ruleNameOf_nd {N : Names} (h : N.ok = true) {r : String} (hr : r ∈ usedRules) (ks : List Tree) :
    ruleNameOf N (N.nd r ks) = r := by
  simp [ruleNameOf, ok_rule h hr]

/-- does a leaf built for token `a` have the type the code tests with `b`? exactly when a = b -/
theorem leaf_is_tok {N : Names} (h : N.ok = true) {a b : String} (ha : a ∈ usedToks) (hb : b ∈ usedToks) (s : String) :
    (leafType (mkLeaf (N.tokNat a) s) == N.tok b) = decide (a = b) := by
  rw [leafType_mkLeaf, ok_tok h hb]
  by_cases hab : a = b
  · subst hab; simp
  · have := ok_inj h ha hb hab
    simp [hab]
    omega

@[simp] theorem isTokLeaf_nd (N : Names) (b r : String) (ks : List Tree) : isTokLeaf N b (N.nd r ks) = false := rfl
@[simp] theorem litTok_nd (N : Names) (r : String) (ks : List Tree) : litTok (N.nd r ks) = none := rfl
@[simp] theorem litTok_lf (N : Names) (a s : String) : litTok (N.lf a s) = if goBlank s then none else some s := by
  simp [litTok, Names.lf]

@[simp] theorem isNode_nd (N : Names) (r : String) (ks : List Tree) : isNode (N.nd r ks) = true := rfl
@[simp] theorem isNode_lf (N : Names) (a s : String) : isNode (N.lf a s) = false := rfl
@[simp] theorem isRuleKid_lf (N : Names) (name a s : String) : isRuleKid N name (N.lf a s) = false := rfl

/-- simp forms without side conditions (the guards are closed terms, decided by `simp (config := {decide := true})`) -/
theorem rn {N : Names} (hN : N.ok = true) (r : String) (ks : List Tree) :
    ruleNameOf N (N.nd r ks) = if usedRules.contains r then r else ruleNameOf N (N.nd r ks) := by
  split
  · rename_i h; exact ruleNameOf_nd hN (by simpa using h) ks
  · rfl

theorem rr {N : Names} (hN : N.ok = true) (r : String) :
    N.rule (N.rid r) = if usedRules.contains r then r else N.rule (N.rid r) := by
  split
  · rename_i h; exact ok_rule hN (by simpa using h)
  · rfl

theorem tk {N : Names} (hN : N.ok = true) (a b : String) :
    (((N.tokNat a : Nat) : Int) = N.tok b) =
      if usedToks.contains a && usedToks.contains b then (a = b) else (((N.tokNat a : Nat) : Int) = N.tok b) := by
  split
  · rename_i h; simp only [Bool.and_eq_true] at h
    have ha : a ∈ usedToks := by simpa using h.1
    have hb : b ∈ usedToks := by simpa using h.2
    rw [ok_tok hN hb]
    apply propext
    constructor
    · intro he
      by_cases hab : a = b
      · exact hab
      · exact absurd (by omega) (ok_inj hN ha hb hab)
    · intro he; subst he; rfl
  · rfl

theorem isRuleKid_nd {N : Names} (hN : N.ok = true) (name r : String) (ks : List Tree) :
    isRuleKid N name (N.nd r ks) = if usedRules.contains r then decide (r = name) else isRuleKid N name (N.nd r ks) := by
  split
  · rename_i h
    have hr : r ∈ usedRules := by simpa using h
    simp only [isRuleKid, rootRule_nd, ok_rule hN hr]
    by_cases hrn : r = name <;> simp [hrn]
  · rfl

theorem isTokLeaf_lf {N : Names} (hN : N.ok = true) (a b s : String) :
    isTokLeaf N b (N.lf a s) = if usedToks.contains a && usedToks.contains b then decide (a = b) else isTokLeaf N b (N.lf a s) := by
  split
  · rename_i h
    have hp := tk hN a b
    rw [if_pos h] at hp
    simp only [isTokLeaf, Names.lf, leafType_mkLeaf]
    by_cases hab : a = b
    · have : ((N.tokNat a : Nat) : Int) = N.tok b := by rw [hp]; exact hab
      simp [hab, this]
      subst hab; simpa using this
    · have : ¬ (((N.tokNat a : Nat) : Int) = N.tok b) := by rw [hp]; exact hab
      simp [hab, this]
  · rfl

end Dawgs.C07
