/-
C11 proofs, part 1: the transcribed `walk.Generic` (Model/C11 §5).
  * every log it produces is accepted by the protocol monitor of Spec/C11 (for EVERY visitor and tree),
  * it terminates within `fuel t` iterations,
  * with a visitor that consumes by label it enters exactly the nodes outside the consumed subtrees.
-/
import Dawgs.Spec.C11
namespace Dawgs.C11
variable {α : Type}

/-! ### plumbing -/

theorem step_of_ret (v : Visitor α) (s : State α) (r : Result) (h : s.ret = some r) : step v s = s := by
  unfold step; rw [h]

theorem steps_of_ret (v : Visitor α) (n : Nat) (s : State α) (r : Result) (h : s.ret = some r) :
    steps v n s = s := by
  induction n with
  | zero => rfl
  | succ n ih => simp [steps, step_of_ret v s r h, ih]

theorem steps_add (v : Visitor α) (a b : Nat) (s : State α) : steps v (a + b) s = steps v b (steps v a s) := by
  induction a generalizing s with
  | zero => simp [steps]
  | succ a ih => rw [Nat.succ_add]; simp [steps, ih]

theorem steps_succ' (v : Visitor α) (n : Nat) (s : State α) : steps v (n + 1) s = step v (steps v n s) := by
  rw [steps_add]; rfl

section replay
variable [DecidableEq α]

theorem replay_append (v : Visitor α) (seen A B : List (Ev α)) (m : Mon α) :
    replay v seen (A ++ B) m = (replay v seen A m).bind (fun m' => replay v (seen ++ A) B m') := by
  induction A generalizing seen m with
  | nil => simp [replay]
  | cons e es ih =>
    simp only [List.cons_append, replay]
    cases hs : m.step (v (seen ++ [e])) e with
    | none => simp
    | some m' => simp [ih, List.append_assoc]

theorem replay_snoc (v : Visitor α) (L : List (Ev α)) (e : Ev α) :
    replay v [] (L ++ [e]) Mon.init = (replay v [] L Mon.init).bind (fun m => m.step (v (L ++ [e])) e) := by
  rw [replay_append]
  congr 1; funext m
  simp only [replay, List.nil_append]
  cases m.step (v (L ++ [e])) e <;> rfl

theorem replay_nest (v : Visitor α) (seen L : List (Ev α)) (m m' : Mon α) (h : replay v seen L m = some m') :
    nest m.opened L = some m'.opened := by
  induction L generalizing seen m with
  | nil => simp [replay] at h; simp [nest, h]
  | cons e es ih =>
    simp only [replay] at h
    cases hs : m.step (v (seen ++ [e])) e with
    | none => simp [hs] at h
    | some m1 =>
      simp only [hs] at h
      have := ih _ _ h
      unfold Mon.step at hs
      split at hs
      · cases hs
      · cases e with
        | enter l =>
          simp only at hs
          split at hs
          · cases hs
          · simp only [Option.some.injEq] at hs
            have ho : m1.opened = l :: m.opened := by
              rw [← hs]; unfold Mon.after; cases v (seen ++ [Ev.enter l]) <;> simp
            rw [ho] at this
            simpa [nest] using this
        | visit l =>
          simp only at hs
          split at hs
          · cases hs
          · cases hm : m.opened with
            | nil => simp [hm] at hs
            | cons t r =>
              simp only [hm] at hs
              split at hs
              · simp only [Option.some.injEq] at hs
                have ho : m1.opened = m.opened := by
                  rw [← hs]; unfold Mon.after; cases v (seen ++ [Ev.visit l]) <;> simp
                rename_i htl
                subst htl
                rw [ho, hm] at this
                simpa [nest] using this
              · cases hs
        | exit l =>
          simp only at hs
          cases hm : m.opened with
          | nil => simp [hm] at hs
          | cons t r =>
            simp only [hm] at hs
            split at hs
            · simp only [Option.some.injEq] at hs
              have ho : m1.opened = r := by
                rw [← hs]; unfold Mon.after; cases v (seen ++ [Ev.exit l]) <;> simp
              rename_i htl
              obtain ⟨htl, _⟩ := htl
              subst htl
              rw [ho] at this
              simpa [nest] using this
            · cases hs

/-! ### the protocol invariant -/

/-- nodes of the cursors that have been entered (a cursor that has descended at least once) -/
def openOf (st : List (Cursor α)) : List α := (st.filter (fun c => c.idx != 0)).map (·.node)

omit [DecidableEq α] in
theorem openOf_cons_zero (c : Cursor α) (rest : List (Cursor α)) (h : c.idx = 0) :
    openOf (c :: rest) = openOf rest := by simp [openOf, h]

omit [DecidableEq α] in
theorem openOf_cons_pos (c : Cursor α) (rest : List (Cursor α)) (h : c.idx ≠ 0) :
    openOf (c :: rest) = c.node :: openOf rest := by simp [openOf, h]

def InvBody (s : State α) (m : Mon α) : Prop :=
  m.must = none ∧
  match s.ret with
  | none => s.h.consumed = false ∧ s.h.err = false ∧ m.opened = openOf s.stack ∧
            m.stopped = (if s.h.done then some Stop.done else none)
  | some r => okRes r m ∧ (m.stopped = none → s.h = Handler.fresh)

/-- the monitor accepts the log so far and its state mirrors the walker's -/
def Inv (v : Visitor α) (s : State α) : Prop :=
  ∃ m, replay v [] s.log Mon.init = some m ∧ InvBody s m

omit [DecidableEq α] in
theorem handler_fresh_of (h : Handler) (h1 : h.consumed = false) (h2 : h.done = false) (h3 : h.err = false) :
    h = Handler.fresh := by
  cases h; simp only [Handler.fresh] at *; simp [h1, h2, h3]

theorem start_inv (v : Visitor α) (t : Tree α) : Inv v (start t) := by
  cases t with
  | node l kids => exact ⟨Mon.init, by simp [start, construct, replay], by simp [InvBody, start, construct, Mon.init, openOf, Handler.fresh]⟩
  | bad => exact ⟨Mon.init, by simp [start, construct, replay], by simp [InvBody, start, construct, Mon.init, okRes]⟩

omit [DecidableEq α] in
theorem exitAndPop_log (v : Visitor α) (s : State α) (c : Cursor α) (rest : List (Cursor α)) :
    (exitAndPop v s c rest).log = s.log ++ [Ev.exit c.node] := by
  unfold exitAndPop; simp only; split <;> simp [halt, fire]

theorem exitAndPop_inv (v : Visitor α) (s : State α) (c : Cursor α) (rest : List (Cursor α)) (m : Mon α)
    (hm : replay v [] s.log Mon.init = some m) (hst : m.stopped = none)
    (hop : m.opened = c.node :: openOf rest) (hmust : m.must = none ∨ m.must = some c.node)
    (hret : s.ret = none) (herr : s.h.err = false) (hdone : s.h.done = false) :
    Inv v (exitAndPop v s c rest) := by
  have hstep : ∀ a, m.step a (Ev.exit c.node) =
      some (Mon.after { m with opened := openOf rest, must := none } a c.node true) := by
    intro a; simp [Mon.step, hst, hop, hmust]
  refine ⟨Mon.after { m with opened := openOf rest, must := none } (v (s.log ++ [Ev.exit c.node])) c.node true, ?_, ?_⟩
  · rw [exitAndPop_log, replay_snoc, hm]; simp [hstep]
  · unfold exitAndPop
    cases ha : v (s.log ++ [Ev.exit c.node]) <;>
      simp [InvBody, fire, ha, Handler.apply, herr, hret, hdone, Mon.after, hst, halt, okRes]

omit [DecidableEq α] in
theorem construct_some (t : Tree α) (k : Cursor α) (h : construct t = some k) :
    k.idx = 0 ∧ t = Tree.node k.node k.branches := by
  cases t with
  | bad => simp [construct] at h
  | node l kids => simp [construct] at h; subst h; simp

theorem descend_inv (v : Visitor α) (s : State α) (c : Cursor α) (rest : List (Cursor α)) (m : Mon α)
    (hm : replay v [] s.log Mon.init = some m) (hst : m.stopped = none)
    (hop : m.opened = c.node :: openOf rest) (hmust : m.must = none)
    (hret : s.ret = none) (herr : s.h.err = false) (hdone : s.h.done = false) (hcons : s.h.consumed = false) :
    Inv v (descend s c rest) := by
  unfold descend
  cases hk : construct (c.branches.getD c.idx Tree.bad) with
  | none =>
    exact ⟨m, by simpa [halt] using hm, by
      simp only [InvBody, halt, hmust, okRes, hst, true_and]
      exact fun _ => handler_fresh_of _ hcons hdone herr⟩
  | some k =>
    have hk0 : k.idx = 0 := (construct_some _ _ hk).1
    refine ⟨m, by simpa using hm, ?_⟩
    simp [InvBody, hmust, hret, herr, hcons, hdone, hst, hop, openOf, hk0]

omit [DecidableEq α] in
@[simp] theorem fire_log (v : Visitor α) (s : State α) (e : Ev α) : (fire v s e).log = s.log ++ [e] := rfl
omit [DecidableEq α] in
@[simp] theorem fire_h (v : Visitor α) (s : State α) (e : Ev α) : (fire v s e).h = s.h.apply (v (s.log ++ [e])) := rfl
omit [DecidableEq α] in
@[simp] theorem fire_ret (v : Visitor α) (s : State α) (e : Ev α) : (fire v s e).ret = s.ret := rfl
omit [DecidableEq α] in
@[simp] theorem fire_stack (v : Visitor α) (s : State α) (e : Ev α) : (fire v s e).stack = s.stack := rfl
omit [DecidableEq α] in
@[simp] theorem clear_log (s : State α) : (clearConsumed s).log = s.log := rfl
omit [DecidableEq α] in
@[simp] theorem clear_ret (s : State α) : (clearConsumed s).ret = s.ret := rfl
omit [DecidableEq α] in
@[simp] theorem clear_stack (s : State α) : (clearConsumed s).stack = s.stack := rfl
omit [DecidableEq α] in
@[simp] theorem clear_h (s : State α) : (clearConsumed s).h = { s.h with consumed := false } := rfl
omit [DecidableEq α] in
@[simp] theorem halt_log (s : State α) (r : Result) : (halt s r).log = s.log := rfl
omit [DecidableEq α] in
@[simp] theorem halt_ret (s : State α) (r : Result) : (halt s r).ret = some r := rfl
@[simp] theorem apply_continue (h : Handler) : h.apply .continue = h := rfl
@[simp] theorem apply_consume (h : Handler) : h.apply .consume = { h with consumed := true } := rfl
@[simp] theorem apply_done (h : Handler) (c : Bool) : h.apply (.done c) = { h with consumed := h.consumed || c, done := true } := rfl
@[simp] theorem apply_error (h : Handler) (c : Bool) : h.apply (.error c) = { h with consumed := h.consumed || c, err := true, done := true } := rfl

theorem fire_replay (v : Visitor α) (s : State α) (e : Ev α) (m m' : Mon α)
    (hm : replay v [] s.log Mon.init = some m) (hs : m.step (v (s.log ++ [e])) e = some m') :
    replay v [] (fire v s e).log Mon.init = some m' := by
  simp [replay_snoc, hm, hs]

/-- a halted state satisfies the invariant when the monitor state agrees with the result -/
theorem halt_inv (v : Visitor α) (s : State α) (r : Result) (m : Mon α)
    (hm : replay v [] s.log Mon.init = some m) (hmust : m.must = none) (hr : okRes r m)
    (hf : m.stopped = none → s.h = Handler.fresh) :
    Inv v (halt s r) := ⟨m, by simpa using hm, hmust, by simpa [InvBody] using ⟨hr, hf⟩⟩

theorem iter_inv (v : Visitor α) (s : State α) (c : Cursor α) (rest : List (Cursor α)) (m : Mon α)
    (hm : replay v [] s.log Mon.init = some m) (hmust : m.must = none) (hst : m.stopped = none)
    (hop : m.opened = openOf (c :: rest)) (hret : s.ret = none) (hcons : s.h.consumed = false)
    (herr : s.h.err = false) (hdone : s.h.done = false) :
    Inv v (iter v s c rest) := by
  unfold iter
  by_cases h0 : c.idx = 0
  · -- first visit: Enter
    have hop' : m.opened = openOf rest := by rw [hop, openOf_cons_zero _ _ h0]
    have hstepE : ∀ a, m.step a (Ev.enter c.node) =
        some (Mon.after { m with opened := c.node :: m.opened } a c.node false) := by
      intro a; simp [Mon.step, hst, hmust]
    have hrep := fire_replay v s (Ev.enter c.node) m _ hm (hstepE _)
    have hb : (c.idx == 0) = true := by simp [h0]
    simp only [hb, ite_true, Bool.true_and]
    generalize hs1 : fire v s (Ev.enter c.node) = s1 at hrep ⊢
    have h1h : s1.h = s.h.apply (v (s.log ++ [Ev.enter c.node])) := by rw [← hs1]; rfl
    have h1r : s1.ret = none := by rw [← hs1]; exact hret
    cases ha : v (s.log ++ [Ev.enter c.node]) with
    | error cc =>
      rw [ha] at h1h hrep
      have : s1.h.err = true := by rw [h1h]; rfl
      simp only [this, ite_true]
      exact halt_inv v s1 _ _ hrep (by simp [Mon.after, hmust]) (by simp [okRes, Mon.after]) (by simp [Mon.after])
    | done cc =>
      rw [ha] at h1h hrep
      have e1 : s1.h.err = false := by rw [h1h]; exact herr
      have e2 : s1.h.done = true := by rw [h1h]; rfl
      simp only [e1, e2, Bool.false_eq_true, ite_false, ite_true]
      exact halt_inv v s1 _ _ hrep (by simp [Mon.after, hmust]) (by simp [okRes, Mon.after]) (by simp [Mon.after])
    | «continue» =>
      rw [ha] at h1h hrep
      have e1 : s1.h.err = false := by rw [h1h]; exact herr
      have e2 : s1.h.done = false := by rw [h1h]; exact hdone
      have e3 : s1.h.consumed = false := by rw [h1h]; exact hcons
      simp only [e1, e2, e3, Bool.false_eq_true, ite_false]
      split
      · exact exitAndPop_inv v s1 c rest _ hrep (by simp [Mon.after, hst]) (by simp [Mon.after, hop'])
          (by simp [Mon.after, hmust]) h1r e1 e2
      · exact descend_inv v _ c rest _ (by simpa using hrep) (by simp [Mon.after, hst])
          (by simp [Mon.after, hop']) (by simp [Mon.after, hmust]) (by simpa using h1r)
          (by simpa using e1) (by simpa using e2) (by simp)
    | consume =>
      rw [ha] at h1h hrep
      have e1 : s1.h.err = false := by rw [h1h]; exact herr
      have e2 : s1.h.done = false := by rw [h1h]; exact hdone
      have e3 : s1.h.consumed = true := by rw [h1h]; rfl
      simp only [e1, e2, e3, Bool.false_eq_true, ite_false, ite_true]
      split
      · exact exitAndPop_inv v s1 c rest _ hrep (by simp [Mon.after, hst]) (by simp [Mon.after, hop'])
          (by simp [Mon.after]) h1r e1 e2
      · exact exitAndPop_inv v _ c rest _ (by simpa using hrep) (by simp [Mon.after, hst])
          (by simp [Mon.after, hop']) (by simp [Mon.after]) (by simpa using h1r)
          (by simpa using e1) (by simpa using e2)
  · -- a later visit
    have hop' : m.opened = c.node :: openOf rest := by rw [hop, openOf_cons_pos _ _ h0]
    have hb : (c.idx == 0) = false := by simp [h0]
    simp only [hb, Bool.false_eq_true, ite_false, Bool.false_and, Bool.not_false, ite_true, hcons]
    split
    · exact exitAndPop_inv v s c rest m hm hst hop' (Or.inl hmust) hret herr hdone
    · -- Visit
      have hstepV : ∀ a, m.step a (Ev.visit c.node) = some (m.after a c.node false) := by
        intro a; simp [Mon.step, hst, hmust, hop']
      have hrep := fire_replay v (clearConsumed s) (Ev.visit c.node) m _ (by simpa using hm) (hstepV _)
      generalize hs3 : fire v (clearConsumed s) (Ev.visit c.node) = s3 at hrep ⊢
      have h3h : s3.h = ({ s.h with consumed := false } : Handler).apply (v (s.log ++ [Ev.visit c.node])) := by
        rw [← hs3]; rfl
      have h3r : s3.ret = none := by rw [← hs3]; exact hret
      rw [clear_log] at hrep
      cases ha : v (s.log ++ [Ev.visit c.node]) with
      | error cc =>
        rw [ha] at h3h hrep
        have : s3.h.err = true := by rw [h3h]; rfl
        simp only [this, ite_true]
        exact halt_inv v s3 _ _ hrep (by simp [Mon.after, hmust]) (by simp [okRes, Mon.after]) (by simp [Mon.after])
      | done cc =>
        rw [ha] at h3h hrep
        have e1 : s3.h.err = false := by rw [h3h]; exact herr
        have e2 : s3.h.done = true := by rw [h3h]; rfl
        simp only [e1, e2, Bool.false_eq_true, ite_false, ite_true]
        exact halt_inv v s3 _ _ hrep (by simp [Mon.after, hmust]) (by simp [okRes, Mon.after]) (by simp [Mon.after])
      | «continue» =>
        rw [ha] at h3h hrep
        have e1 : s3.h.err = false := by rw [h3h]; exact herr
        have e2 : s3.h.done = false := by rw [h3h]; exact hdone
        have e3 : s3.h.consumed = false := by rw [h3h]; rfl
        simp only [e1, e2, e3, Bool.false_eq_true, ite_false]
        exact descend_inv v _ c rest _ (by simpa using hrep) (by simp [Mon.after, hst])
          (by simp [Mon.after, hop']) (by simp [Mon.after, hmust]) (by simpa using h3r)
          (by simpa using e1) (by simpa using e2) (by simp)
      | consume =>
        rw [ha] at h3h hrep
        have e1 : s3.h.err = false := by rw [h3h]; exact herr
        have e2 : s3.h.done = false := by rw [h3h]; exact hdone
        have e3 : s3.h.consumed = true := by rw [h3h]; rfl
        simp only [e1, e2, e3, Bool.false_eq_true, ite_false, ite_true]
        exact exitAndPop_inv v _ c rest _ (by simpa using hrep) (by simp [Mon.after, hst])
          (by simp [Mon.after, hop']) (by simp [Mon.after]) (by simpa using h3r)
          (by simpa using e1) (by simpa using e2)

theorem step_inv (v : Visitor α) (s : State α) (h : Inv v s) : Inv v (step v s) := by
  obtain ⟨m, hm, hmust, hb⟩ := h
  unfold step
  cases hret : s.ret with
  | some r => simp only; exact ⟨m, hm, hmust, hb⟩
  | none =>
    simp only [hret] at hb
    obtain ⟨hcons, herr, hop, hst⟩ := hb
    simp only
    cases hstack : s.stack with
    | nil =>
      refine ⟨m, by simpa [halt] using hm, hmust, ?_⟩
      simp only [halt, okRes]
      rw [hstack] at hop
      refine ⟨⟨?_, ?_⟩, ?_⟩
      · intro _; simpa [openOf] using hop
      · rw [hst]; split <;> simp
      · intro hs0
        have hd0 : s.h.done = false := by
          rw [hst] at hs0; cases hd : s.h.done <;> simp [hd] at hs0 ⊢
        exact handler_fresh_of _ hcons hd0 herr
    | cons c rest =>
      simp only
      by_cases hd : s.h.done = true
      · simp only [hd, ite_true]
        refine ⟨m, by simpa [halt] using hm, hmust, ?_⟩
        simp [halt, okRes, hst, hd]
      · have hd' : s.h.done = false := by simpa using hd
        simp only [hd', Bool.false_eq_true, ite_false]
        rw [hstack] at hop
        exact iter_inv v s c rest m hm hmust (by simp [hst, hd']) hop hret hcons herr hd'

theorem steps_inv (v : Visitor α) (n : Nat) (s : State α) (h : Inv v s) : Inv v (steps v n s) := by
  induction n generalizing s with
  | zero => exact h
  | succ n ih => exact ih _ (step_inv v s h)

end replay

/-! ### termination -/

/-- iterations a cursor can still cause: one to leave it, two per node of every branch not yet taken -/
def weight (c : Cursor α) : Nat := 1 + 2 * sizeL (c.branches.drop c.idx)

def mu : List (Cursor α) → Nat
  | [] => 0
  | c :: rest => weight c + mu rest

theorem exitAndPop_mu (v : Visitor α) (s : State α) (c : Cursor α) (rest : List (Cursor α)) :
    (exitAndPop v s c rest).ret.isSome ∨ (exitAndPop v s c rest).stack = rest := by
  unfold exitAndPop; simp only; split
  · left; simp [halt]
  · right; rfl

theorem descend_mu (s : State α) (c : Cursor α) (rest : List (Cursor α)) (h : c.idx < c.branches.length) :
    (descend s c rest).ret.isSome ∨ mu (descend s c rest).stack < mu (c :: rest) := by
  unfold descend
  cases hk : construct (c.branches.getD c.idx Tree.bad) with
  | none => left; simp [halt]
  | some k =>
    right
    obtain ⟨hk0, hb⟩ := construct_some _ _ hk
    have hdrop : c.branches.drop c.idx = Tree.node k.node k.branches :: c.branches.drop (c.idx + 1) := by
      rw [List.drop_eq_getElem_cons h]
      congr 1
      rw [← hb]; simp [List.getD_eq_getElem?_getD, h]
    simp only [mu, weight, hk0, List.drop_zero, hdrop, sizeL, Tree.size]
    omega

theorem iter_mu (v : Visitor α) (s : State α) (c : Cursor α) (rest : List (Cursor α)) :
    (iter v s c rest).ret.isSome ∨ mu (iter v s c rest).stack < mu (c :: rest) := by
  have hpop : ∀ s', (exitAndPop v s' c rest).ret.isSome ∨ mu (exitAndPop v s' c rest).stack < mu (c :: rest) := by
    intro s'
    rcases exitAndPop_mu v s' c rest with h | h
    · exact Or.inl h
    · right; rw [h]; simp [mu, weight]; omega
  unfold iter
  by_cases h0 : c.idx = 0
  · have hb : (c.idx == 0) = true := by simp [h0]
    simp only [hb, ite_true, Bool.true_and, Bool.not_true, Bool.false_eq_true, ite_false]
    generalize fire v s (Ev.enter c.node) = s1
    split
    · left; rfl
    · split
      · left; rfl
      · split
        · exact hpop _
        · rename_i hlt
          have hlt' : c.idx < c.branches.length := by simpa using hlt
          split
          · exact hpop _
          · exact descend_mu _ c rest hlt'
  · have hb : (c.idx == 0) = false := by simp [h0]
    simp only [hb, Bool.false_eq_true, ite_false, Bool.false_and, Bool.not_false, ite_true]
    split
    · exact hpop _
    · rename_i hlt
      have hlt' : c.idx < c.branches.length := by simpa using hlt
      split
      · exact hpop _
      · generalize fire v (clearConsumed s) (Ev.visit c.node) = s3
        split
        · left; rfl
        · split
          · left; rfl
          · split
            · exact hpop _
            · exact descend_mu _ c rest hlt'

theorem steps_terminate (v : Visitor α) (n : Nat) (s : State α) (h : mu s.stack < n) :
    (steps v n s).ret.isSome := by
  induction n generalizing s with
  | zero => omega
  | succ n ih =>
    simp only [steps]
    cases hret : s.ret with
    | some r => rw [step_of_ret v s r hret, steps_of_ret v n s r hret, hret]; rfl
    | none =>
      have hstep : (step v s).ret.isSome ∨ mu (step v s).stack < mu s.stack := by
        unfold step; simp only [hret]
        cases hst : s.stack with
        | nil => left; simp [halt]
        | cons c rest =>
          simp only
          split
          · left; simp [halt]
          · exact iter_mu v s c rest
      rcases hstep with h1 | h1
      · obtain ⟨r, hr⟩ := Option.isSome_iff_exists.1 h1
        rw [steps_of_ret v n _ r hr, hr]; rfl
      · exact ih _ (by omega)

/-- `walk.Generic` returns on every finite tree, whatever the visitor does -/
theorem generic_terminates (v : Visitor α) (t : Tree α) : (generic v t).ret.isSome := by
  unfold generic
  apply steps_terminate
  cases t with
  | node l kids => simp [start, construct, mu, weight, fuel, Tree.size]; omega
  | bad => simp [start, construct, mu, fuel]

/-! ### what is entered: pruning by label -/

theorem byLabel_snoc (p : α → Bool) (L : List (Ev α)) (e : Ev α) :
    byLabel p (L ++ [e]) = match e with
      | .enter l => if p l then .consume else .continue
      | _ => .continue := by
  unfold byLabel
  simp only [List.getLast?_append, List.getLast?_singleton, Option.some_or]
  cases e <;> rfl

theorem enters_append (A B : List (Ev α)) : enters (A ++ B) = enters A ++ enters B := by
  induction A with
  | nil => rfl
  | cons e es ih => cases e <;> simp [enters, ih]

/-- labels still to be entered because of cursor `c` -/
def pendC (p : α → Bool) (c : Cursor α) : List α :=
  if c.idx = 0 then ((Tree.node c.node c.branches).prune p).labels
  else labelsL (pruneL p (c.branches.drop c.idx))

def goodC (p : α → Bool) (c : Cursor α) : Bool :=
  if c.idx = 0 then ((Tree.node c.node c.branches).prune p).good
  else goodL (pruneL p (c.branches.drop c.idx))

def pending (p : α → Bool) : List (Cursor α) → List α
  | [] => []
  | c :: rest => pendC p c ++ pending p rest

def goodSt (p : α → Bool) : List (Cursor α) → Bool
  | [] => true
  | c :: rest => goodC p c && goodSt p rest

/-- invariant of a walk with `byLabel p` over a tree whose pruned form has labels `L` -/
def PInv (p : α → Bool) (L : List α) (s : State α) : Prop :=
  match s.ret with
  | none => s.h = Handler.fresh ∧ enters s.log ++ pending p s.stack = L ∧ goodSt p s.stack = true
  | some r => r = .ok ∧ enters s.log = L

theorem exitAndPop_pinv (p : α → Bool) (L : List α) (s : State α) (c : Cursor α) (rest : List (Cursor α))
    (hret : s.ret = none) (hh : s.h.done = false ∧ s.h.err = false)
    (hL : enters s.log ++ pending p rest = L) (hg : goodSt p rest = true) :
    PInv p L (exitAndPop (byLabel p) s c rest) := by
  unfold exitAndPop
  have ha : byLabel p (s.log ++ [Ev.exit c.node]) = .continue := by rw [byLabel_snoc]
  simp only [fire_h, ha, apply_continue, hh.2, Bool.false_eq_true, ite_false]
  simp only [PInv, fire_ret, hret, fire_log, enters_append, enters, List.append_nil]
  refine ⟨?_, hL, hg⟩
  simp [Handler.fresh, hh.1]

theorem descend_pinv (p : α → Bool) (L : List α) (s : State α) (c : Cursor α) (rest : List (Cursor α))
    (hret : s.ret = none) (hh : s.h = Handler.fresh) (hlt : c.idx < c.branches.length)
    (hL : enters s.log ++ (labelsL (pruneL p (c.branches.drop c.idx)) ++ pending p rest) = L)
    (hgc : goodL (pruneL p (c.branches.drop c.idx)) = true) (hg : goodSt p rest = true) :
    PInv p L (descend s c rest) := by
  have hdrop : c.branches.drop c.idx = c.branches.getD c.idx Tree.bad :: c.branches.drop (c.idx + 1) := by
    rw [List.drop_eq_getElem_cons hlt]; simp [List.getD_eq_getElem?_getD, hlt]
  rw [hdrop] at hL hgc
  unfold descend
  cases hb : c.branches.getD c.idx Tree.bad with
  | bad => rw [hb] at hgc; simp [pruneL, Tree.prune, goodL, Tree.good] at hgc
  | node l kids =>
    rw [hb] at hL hgc
    simp only [construct, PInv, hret]
    refine ⟨hh, ?_, ?_⟩
    · simp only [pending, pendC, Nat.add_one_ne_zero, ite_true, ite_false]
      simpa [pruneL, labelsL, List.append_assoc] using hL
    · simp only [goodSt, goodC, Nat.add_one_ne_zero, ite_true, ite_false, hg, Bool.and_true]
      simpa [pruneL, goodL] using hgc

theorem iter_pinv (p : α → Bool) (L : List α) (s : State α) (c : Cursor α) (rest : List (Cursor α))
    (hret : s.ret = none) (hh : s.h = Handler.fresh)
    (hL : enters s.log ++ (pendC p c ++ pending p rest) = L)
    (hgc : goodC p c = true) (hg : goodSt p rest = true) :
    PInv p L (iter (byLabel p) s c rest) := by
  unfold iter
  by_cases h0 : c.idx = 0
  · have hb : (c.idx == 0) = true := by simp [h0]
    simp only [hb, ite_true, Bool.true_and, Bool.not_true, Bool.false_eq_true, ite_false]
    have ha := byLabel_snoc p s.log (Ev.enter c.node)
    simp only at ha
    generalize hs1 : fire (byLabel p) s (Ev.enter c.node) = s1
    have h1h : s1.h = s.h.apply (byLabel p (s.log ++ [Ev.enter c.node])) := by rw [← hs1]; rfl
    have h1r : s1.ret = none := by rw [← hs1]; exact hret
    have h1l : enters s1.log = enters s.log ++ [c.node] := by rw [← hs1]; simp [enters_append, enters]
    rw [ha, hh] at h1h
    by_cases hp : p c.node = true
    · -- consumed in Enter
      simp only [hp, ite_true, apply_consume] at h1h
      have e1 : s1.h.err = false := by rw [h1h]; rfl
      have e2 : s1.h.done = false := by rw [h1h]; rfl
      have e3 : s1.h.consumed = true := by rw [h1h]
      simp only [e1, e2, e3, Bool.false_eq_true, ite_false, ite_true]
      have hpc : pendC p c = [c.node] := by simp [pendC, h0, Tree.prune, hp, Tree.labels, labelsL]
      rw [hpc] at hL
      have hL' : enters s1.log ++ pending p rest = L := by rw [h1l]; simpa [List.append_assoc] using hL
      split
      · exact exitAndPop_pinv p L s1 c rest h1r ⟨e2, e1⟩ hL' hg
      · exact exitAndPop_pinv p L _ c rest (by simpa using h1r) ⟨by simpa using e2, by simpa using e1⟩
          (by simpa using hL') hg
    · have hp' : p c.node = false := by simpa using hp
      simp only [hp', Bool.false_eq_true, ite_false, apply_continue] at h1h
      have e1 : s1.h.err = false := by rw [h1h]; rfl
      have e2 : s1.h.done = false := by rw [h1h]; rfl
      have e3 : s1.h.consumed = false := by rw [h1h]; rfl
      simp only [e1, e2, e3, Bool.false_eq_true, ite_false]
      have hpc : pendC p c = c.node :: labelsL (pruneL p c.branches) := by
        simp [pendC, h0, Tree.prune, hp', Tree.labels]
      have hgc' : goodL (pruneL p c.branches) = true := by
        simpa [goodC, h0, Tree.prune, hp', Tree.good] using hgc
      rw [hpc] at hL
      split
      · rename_i hlt
        have hnil : c.branches = [] := by
          have : c.branches.length ≤ 0 := by simpa [h0] using hlt
          exact List.eq_nil_of_length_eq_zero (by omega)
        rw [hnil] at hL
        exact exitAndPop_pinv p L s1 c rest h1r ⟨e2, e1⟩
          (by rw [h1l]; simpa [pruneL, labelsL, List.append_assoc] using hL) hg
      · rename_i hlt
        have hlt' : c.idx < c.branches.length := by simpa using hlt
        exact descend_pinv p L _ c rest (by simpa using h1r) (by simp [h1h, Handler.fresh]) hlt'
          (by rw [clear_log, h1l, h0]; simpa [List.append_assoc] using hL)
          (by rw [h0]; simpa using hgc') hg
  · have hb : (c.idx == 0) = false := by simp [h0]
    have hcons : s.h.consumed = false := by rw [hh]; rfl
    simp only [hb, Bool.false_eq_true, ite_false, Bool.false_and, Bool.not_false, ite_true, hcons]
    have hpc : pendC p c = labelsL (pruneL p (c.branches.drop c.idx)) := by simp [pendC, h0]
    have hgc' : goodL (pruneL p (c.branches.drop c.idx)) = true := by simpa [goodC, h0] using hgc
    rw [hpc] at hL
    split
    · rename_i hlt
      have hle : c.branches.length ≤ c.idx := by simpa using hlt
      rw [List.drop_eq_nil_of_le hle] at hL
      exact exitAndPop_pinv p L s c rest hret ⟨by rw [hh]; rfl, by rw [hh]; rfl⟩
        (by simpa [pruneL, labelsL] using hL) hg
    · rename_i hlt
      have hlt' : c.idx < c.branches.length := by simpa using hlt
      have ha := byLabel_snoc p s.log (Ev.visit c.node)
      simp only at ha
      generalize hs3 : fire (byLabel p) (clearConsumed s) (Ev.visit c.node) = s3
      have h3h : s3.h = ({ s.h with consumed := false } : Handler).apply (byLabel p (s.log ++ [Ev.visit c.node])) := by
        rw [← hs3]; rfl
      have h3r : s3.ret = none := by rw [← hs3]; exact hret
      have h3l : enters s3.log = enters s.log := by rw [← hs3]; simp [enters_append, enters]
      rw [ha, hh] at h3h
      simp only [apply_continue] at h3h
      have e1 : s3.h.err = false := by rw [h3h]; rfl
      have e2 : s3.h.done = false := by rw [h3h]; rfl
      have e3 : s3.h.consumed = false := by rw [h3h]
      simp only [e1, e2, e3, Bool.false_eq_true, ite_false]
      exact descend_pinv p L _ c rest (by simpa using h3r) (by simp [h3h, Handler.fresh]) hlt'
        (by rw [clear_log, h3l]; exact hL) hgc' hg

theorem step_pinv (p : α → Bool) (L : List α) (s : State α) (h : PInv p L s) :
    PInv p L (step (byLabel p) s) := by
  unfold step
  cases hret : s.ret with
  | some r => simpa [PInv, hret] using h
  | none =>
    simp only [PInv, hret] at h
    obtain ⟨hh, hL, hg⟩ := h
    simp only
    cases hst : s.stack with
    | nil =>
      rw [hst] at hL
      simp only [PInv, halt]
      exact ⟨by first | rfl | trivial, by simpa [pending] using hL⟩
    | cons c rest =>
      rw [hst] at hL hg
      have hd : s.h.done = false := by rw [hh]; rfl
      simp only [hd, Bool.false_eq_true, ite_false]
      simp only [goodSt, Bool.and_eq_true] at hg
      exact iter_pinv p L s c rest hret hh (by simpa [pending] using hL) hg.1 hg.2

theorem steps_pinv (p : α → Bool) (L : List α) (n : Nat) (s : State α) (h : PInv p L s) :
    PInv p L (steps (byLabel p) n s) := by
  induction n generalizing s with
  | zero => exact h
  | succ n ih => exact ih _ (step_pinv p L s h)

/-- A visitor that consumes exactly when it enters a `p`-node makes `walk.Generic` return nil having entered,
in pre-order, exactly the nodes of the tree that are not below a `p`-node (provided no nil branch is met outside
the pruned subtrees). -/
theorem generic_byLabel (p : α → Bool) (t : Tree α) (hg : (t.prune p).good = true) :
    (generic (byLabel p) t).ret = some .ok ∧ enters (generic (byLabel p) t).log = (t.prune p).labels := by
  have h0 : PInv p (t.prune p).labels (start t) := by
    cases t with
    | bad => simp [Tree.prune, Tree.good] at hg
    | node l kids =>
      simp only [start, construct, PInv]
      refine ⟨by first | rfl | trivial, ?_, ?_⟩
      · simp [enters, pending, pendC]
      · simpa [goodSt, goodC] using hg
  have h1 := steps_pinv p _ (fuel t) _ h0
  obtain ⟨r, hr⟩ := Option.isSome_iff_exists.1 (generic_terminates (byLabel p) t)
  unfold generic at hr ⊢
  simp only [PInv, hr] at h1
  rw [hr, h1.1]
  exact ⟨rfl, h1.2⟩

/-! ### a nil branch outside the consumed subtrees is reported -/

/-- invariant of a walk with `byLabel p` over a tree whose pruned form contains a nil branch -/
def NInv (p : α → Bool) (s : State α) : Prop :=
  match s.ret with
  | none => s.h = Handler.fresh ∧ goodSt p s.stack = false
  | some r => r = .cursorError

theorem exitAndPop_ninv (p : α → Bool) (s : State α) (c : Cursor α) (rest : List (Cursor α))
    (hret : s.ret = none) (hh : s.h.done = false ∧ s.h.err = false) (hg : goodSt p rest = false) :
    NInv p (exitAndPop (byLabel p) s c rest) := by
  unfold exitAndPop
  have ha : byLabel p (s.log ++ [Ev.exit c.node]) = .continue := by rw [byLabel_snoc]
  simp only [fire_h, ha, apply_continue, hh.2, Bool.false_eq_true, ite_false]
  simp only [NInv, fire_ret, hret]
  exact ⟨by simp [Handler.fresh, hh.1], hg⟩

theorem descend_ninv (p : α → Bool) (s : State α) (c : Cursor α) (rest : List (Cursor α))
    (hret : s.ret = none) (hh : s.h = Handler.fresh) (hlt : c.idx < c.branches.length)
    (hg : (goodL (pruneL p (c.branches.drop c.idx)) && goodSt p rest) = false) :
    NInv p (descend s c rest) := by
  have hdrop : c.branches.drop c.idx = c.branches.getD c.idx Tree.bad :: c.branches.drop (c.idx + 1) := by
    rw [List.drop_eq_getElem_cons hlt]; simp [List.getD_eq_getElem?_getD, hlt]
  rw [hdrop] at hg
  unfold descend
  cases hb : c.branches.getD c.idx Tree.bad with
  | bad => simp [construct, NInv, halt]
  | node l kids =>
    rw [hb] at hg
    simp only [construct, NInv, hret]
    refine ⟨hh, ?_⟩
    simp only [goodSt, goodC, Nat.add_one_ne_zero, ite_true, ite_false]
    simpa [pruneL, goodL, Bool.and_assoc] using hg

theorem iter_ninv (p : α → Bool) (s : State α) (c : Cursor α) (rest : List (Cursor α))
    (hret : s.ret = none) (hh : s.h = Handler.fresh) (hg : (goodC p c && goodSt p rest) = false) :
    NInv p (iter (byLabel p) s c rest) := by
  unfold iter
  by_cases h0 : c.idx = 0
  · have hb : (c.idx == 0) = true := by simp [h0]
    simp only [hb, ite_true, Bool.true_and, Bool.not_true, Bool.false_eq_true, ite_false]
    have ha := byLabel_snoc p s.log (Ev.enter c.node)
    simp only at ha
    generalize hs1 : fire (byLabel p) s (Ev.enter c.node) = s1
    have h1h : s1.h = s.h.apply (byLabel p (s.log ++ [Ev.enter c.node])) := by rw [← hs1]; rfl
    have h1r : s1.ret = none := by rw [← hs1]; exact hret
    rw [ha, hh] at h1h
    by_cases hp : p c.node = true
    · simp only [hp, ite_true, apply_consume] at h1h
      have e1 : s1.h.err = false := by rw [h1h]; rfl
      have e2 : s1.h.done = false := by rw [h1h]; rfl
      have e3 : s1.h.consumed = true := by rw [h1h]
      simp only [e1, e2, e3, Bool.false_eq_true, ite_false, ite_true]
      have hgc : goodC p c = true := by simp [goodC, h0, Tree.prune, hp, Tree.good, goodL]
      have hg' : goodSt p rest = false := by simpa [hgc] using hg
      split
      · exact exitAndPop_ninv p s1 c rest h1r ⟨e2, e1⟩ hg'
      · exact exitAndPop_ninv p _ c rest (by simpa using h1r) ⟨by simpa using e2, by simpa using e1⟩ hg'
    · have hp' : p c.node = false := by simpa using hp
      simp only [hp', Bool.false_eq_true, ite_false, apply_continue] at h1h
      have e1 : s1.h.err = false := by rw [h1h]; rfl
      have e2 : s1.h.done = false := by rw [h1h]; rfl
      have e3 : s1.h.consumed = false := by rw [h1h]; rfl
      simp only [e1, e2, e3, Bool.false_eq_true, ite_false]
      have hgc : goodC p c = goodL (pruneL p c.branches) := by simp [goodC, h0, Tree.prune, hp', Tree.good]
      rw [hgc] at hg
      split
      · rename_i hlt
        have hnil : c.branches = [] := by
          have : c.branches.length ≤ 0 := by simpa [h0] using hlt
          exact List.eq_nil_of_length_eq_zero (by omega)
        rw [hnil] at hg
        exact exitAndPop_ninv p s1 c rest h1r ⟨e2, e1⟩ (by simpa [pruneL, goodL] using hg)
      · rename_i hlt
        have hlt' : c.idx < c.branches.length := by simpa using hlt
        exact descend_ninv p _ c rest (by simpa using h1r) (by simp [h1h, Handler.fresh]) hlt'
          (by rw [h0]; simpa using hg)
  · have hb : (c.idx == 0) = false := by simp [h0]
    have hcons : s.h.consumed = false := by rw [hh]; rfl
    simp only [hb, Bool.false_eq_true, ite_false, Bool.false_and, Bool.not_false, ite_true, hcons]
    have hgc : goodC p c = goodL (pruneL p (c.branches.drop c.idx)) := by simp [goodC, h0]
    rw [hgc] at hg
    split
    · rename_i hlt
      have hle : c.branches.length ≤ c.idx := by simpa using hlt
      rw [List.drop_eq_nil_of_le hle] at hg
      exact exitAndPop_ninv p s c rest hret ⟨by rw [hh]; rfl, by rw [hh]; rfl⟩
        (by simpa [pruneL, goodL] using hg)
    · rename_i hlt
      have hlt' : c.idx < c.branches.length := by simpa using hlt
      have ha := byLabel_snoc p s.log (Ev.visit c.node)
      simp only at ha
      generalize hs3 : fire (byLabel p) (clearConsumed s) (Ev.visit c.node) = s3
      have h3h : s3.h = ({ s.h with consumed := false } : Handler).apply (byLabel p (s.log ++ [Ev.visit c.node])) := by
        rw [← hs3]; rfl
      have h3r : s3.ret = none := by rw [← hs3]; exact hret
      rw [ha, hh] at h3h
      simp only [apply_continue] at h3h
      have e1 : s3.h.err = false := by rw [h3h]; rfl
      have e2 : s3.h.done = false := by rw [h3h]; rfl
      have e3 : s3.h.consumed = false := by rw [h3h]
      simp only [e1, e2, e3, Bool.false_eq_true, ite_false]
      exact descend_ninv p _ c rest (by simpa using h3r) (by simp [h3h, Handler.fresh]) hlt' hg

theorem step_ninv (p : α → Bool) (s : State α) (h : NInv p s) : NInv p (step (byLabel p) s) := by
  unfold step
  cases hret : s.ret with
  | some r => simpa [NInv, hret] using h
  | none =>
    simp only [NInv, hret] at h
    obtain ⟨hh, hg⟩ := h
    simp only
    cases hst : s.stack with
    | nil => rw [hst] at hg; simp [goodSt] at hg
    | cons c rest =>
      rw [hst] at hg
      have hd : s.h.done = false := by rw [hh]; rfl
      simp only [hd, Bool.false_eq_true, ite_false]
      exact iter_ninv p s c rest hret hh (by simpa [goodSt] using hg)

theorem steps_ninv (p : α → Bool) (n : Nat) (s : State α) (h : NInv p s) : NInv p (steps (byLabel p) n s) := by
  induction n generalizing s with
  | zero => exact h
  | succ n ih => exact ih _ (step_ninv p s h)

/-- if a nil branch remains after pruning, the walk returns the cursor constructor's error -/
theorem generic_byLabel_bad (p : α → Bool) (t : Tree α) (hg : (t.prune p).good = false) :
    (generic (byLabel p) t).ret = some .cursorError := by
  have h0 : NInv p (start t) := by
    cases t with
    | bad => simp [start, construct, NInv]
    | node l kids =>
      simp only [start, construct, NInv]
      exact ⟨by first | rfl | trivial, by simpa [goodSt, goodC] using hg⟩
  have h1 := steps_ninv p (fuel t) _ h0
  obtain ⟨r, hr⟩ := Option.isSome_iff_exists.1 (generic_terminates (byLabel p) t)
  unfold generic at hr ⊢
  simp only [NInv, hr] at h1
  rw [hr, h1]

mutual
theorem prune_false (t : Tree α) : t.prune (fun _ => false) = t := by
  cases t with
  | bad => rfl
  | node l kids => simp [Tree.prune, pruneL_false kids]
theorem pruneL_false (ts : List (Tree α)) : pruneL (fun _ => false) ts = ts := by
  cases ts with
  | nil => rfl
  | cons t ts => simp [pruneL, prune_false t, pruneL_false ts]
end

theorem byLabel_false : byLabel (fun _ : α => false) = (fun _ => Act.continue) := by
  funext hist
  unfold byLabel
  split <;> simp

/-! ### the handler: a callback's calls and their net effect -/

theorem calls_closed (h : Handler) (cs : List Call) :
    h.calls cs = { consumed := h.consumed || cs.contains .consume,
                   done := h.done || (cs.contains .setDone || cs.contains (.setError false)),
                   err := h.err || cs.contains (.setError false) } := by
  induction cs generalizing h with
  | nil => simp [Handler.calls]
  | cons c cs ih =>
    have : h.calls (c :: cs) = (h.call c).calls cs := rfl
    rw [this, ih]
    cases c with
    | consume => simp [Handler.call]
    | setDone => simp [Handler.call]
    | setError b =>
      cases b
      · simp [Handler.call, List.contains_cons, Bool.or_assoc, Bool.or_comm, Bool.or_left_comm]
      · simp [Handler.call, List.contains_cons]

/-- Executing the handler calls of a callback one by one (`Handler.call`: the exact transcription of Consume,
SetDone, SetError with its `err != nil` guard) has exactly the effect of the summarising action `actOf`. So
`genericCalls` is `walk.Generic` for visitors given by their calls, `SetError(nil)` included (a no-op). -/
theorem calls_eq_apply (h : Handler) (cs : List Call) : h.calls cs = h.apply (actOf cs) := by
  rw [calls_closed]
  unfold actOf
  simp only
  cases he : cs.contains (Call.setError false) <;> cases hd : cs.contains Call.setDone <;>
    cases hc : cs.contains Call.consume <;> simp [Handler.apply]

/-! ### consequences of monitor acceptance, in index form -/

section consequences
variable [DecidableEq α]

/-- the log of every run is accepted by the monitor, and the returned value agrees with it -/
theorem generic_accepted (v : Visitor α) (t : Tree α) :
    ∃ r m, (generic v t).ret = some r ∧ replay v [] (generic v t).log Mon.init = some m ∧
      m.must = none ∧ okRes r m := by
  obtain ⟨m, hm, hmust, hb⟩ := steps_inv v (fuel t) _ (start_inv v t)
  obtain ⟨r, hr⟩ := Option.isSome_iff_exists.1 (generic_terminates v t)
  unfold generic at hr ⊢
  simp only [hr] at hb
  exact ⟨r, m, hr, hm, hmust, hb.1⟩

/-- if no callback cancelled the walk, the handler it leaves behind is in its initial state: the consume flag is
cleared (done / err are never set in that case) -/
theorem generic_clean (v : Visitor α) (t : Tree α) :
    ∃ m, replay v [] (generic v t).log Mon.init = some m ∧ (m.stopped = none → (generic v t).h = Handler.fresh) := by
  obtain ⟨m, hm, _, hb⟩ := steps_inv v (fuel t) _ (start_inv v t)
  obtain ⟨r, hr⟩ := Option.isSome_iff_exists.1 (generic_terminates v t)
  unfold generic at hr ⊢
  simp only [hr] at hb
  exact ⟨m, hm, hb.2⟩

omit [DecidableEq α] in
theorem genericFrom_fresh (v : Visitor α) (t : Tree α) : genericFrom Handler.fresh v t = generic v t := by
  unfold genericFrom generic startFrom start; cases construct t <;> rfl

omit [DecidableEq α] in
/-- a visitor that is already done (a previous walk was cancelled or failed) gets no callback at all -/
theorem genericFrom_done (h0 : Handler) (v : Visitor α) (t : Tree α) (hd : h0.done = true) :
    (genericFrom h0 v t).log = [] ∧ (genericFrom h0 v t).h = h0 ∧
      (t.good = true → (genericFrom h0 v t).ret = some .ok) := by
  cases t with
  | bad =>
    have : genericFrom h0 v (Tree.bad : Tree α) = startFrom h0 Tree.bad :=
      steps_of_ret v _ _ .cursorError (by simp [startFrom, construct])
    rw [this]; simp [startFrom, construct, Tree.good]
  | node l kids =>
    have h1 : step v (startFrom h0 (Tree.node l kids)) = halt (startFrom h0 (Tree.node l kids)) .ok := by
      simp [step, startFrom, construct, hd]
    have : genericFrom h0 v (Tree.node l kids) = halt (startFrom h0 (Tree.node l kids)) .ok := by
      unfold genericFrom fuel
      rw [show 2 * (Tree.node l kids).size + 2 = (2 * (Tree.node l kids).size + 1) + 1 from rfl]
      simp only [steps]
      rw [h1]
      exact steps_of_ret v _ _ .ok rfl
    rw [this]; simp [halt, startFrom, construct]

theorem judgeRun_generic (v : Visitor α) (t : Tree α) (r : Result) (h : (generic v t).ret = some r) :
    judgeRun v (generic v t).log r = none := by
  obtain ⟨r', m, hr, hm, hmust, hok⟩ := generic_accepted v t
  rw [h] at hr; cases hr
  simp [judgeRun, hm, hmust, hok]

/-- which `Stop` an action causes -/
def Act.stop : Act → Option Stop
  | .done _ => some .done
  | .error _ => some .error
  | _ => none

theorem step_stop (m m' : Mon α) (a : Act) (e : Ev α) (st : Stop) (h : m.step a e = some m')
    (ha : a.stop = some st) : m'.stopped = some st := by
  have haft : ∀ (m0 : Mon α) l b, (m0.after a l b).stopped = some st := by
    intro m0 l b
    cases a with
    | «continue» => cases ha
    | consume => cases ha
    | done c => simp only [Act.stop, Option.some.injEq] at ha; subst ha; rfl
    | error c => simp only [Act.stop, Option.some.injEq] at ha; subst ha; rfl
  unfold Mon.step at h
  split at h
  · cases h
  · cases e with
    | enter l =>
      simp only at h; split at h
      · cases h
      · simp only [Option.some.injEq] at h; rw [← h]; exact haft _ _ _
    | visit l =>
      simp only at h; split at h
      · cases h
      · split at h
        · split at h
          · simp only [Option.some.injEq] at h; rw [← h]; exact haft _ _ _
          · cases h
        · cases h
    | exit l =>
      simp only at h
      split at h
      · split at h
        · simp only [Option.some.injEq] at h; rw [← h]; exact haft _ _ _
        · cases h
      · cases h

theorem step_consume (m m' : Mon α) (l : α) (e : Ev α) (h : m.step .consume e = some m')
    (he : e = .enter l ∨ e = .visit l) : m'.must = some l := by
  unfold Mon.step at h
  split at h
  · cases h
  · rcases he with rfl | rfl
    · simp only at h; split at h
      · cases h
      · simp only [Option.some.injEq] at h; rw [← h]; rfl
    · simp only at h; split at h
      · cases h
      · split at h
        · split at h
          · simp only [Option.some.injEq] at h; rw [← h]; rfl
          · cases h
        · cases h

theorem step_must (m m' : Mon α) (l : α) (a : Act) (e : Ev α) (hm : m.must = some l)
    (h : m.step a e = some m') : e = .exit l := by
  unfold Mon.step at h
  split at h
  · cases h
  · cases e with
    | enter l' => simp [hm] at h
    | visit l' => simp [hm] at h
    | exit l' =>
      simp only at h
      split at h
      · split at h
        · rename_i hc
          rcases hc.2 with h2 | h2
          · rw [hm] at h2; cases h2
          · rw [hm] at h2; cases h2; rfl
        · cases h
      · cases h

theorem replay_split (v : Visitor α) (pre post : List (Ev α)) (e : Ev α) (m : Mon α)
    (h : replay v [] (pre ++ e :: post) Mon.init = some m) :
    ∃ m1 m2, replay v [] pre Mon.init = some m1 ∧ m1.step (v (pre ++ [e])) e = some m2 ∧
      replay v (pre ++ [e]) post m2 = some m := by
  rw [replay_append] at h
  cases h1 : replay v [] pre Mon.init with
  | none => simp [h1] at h
  | some m1 =>
    simp only [h1, Option.bind_some, List.nil_append, replay] at h
    cases h2 : m1.step (v (pre ++ [e])) e with
    | none => simp [h2] at h
    | some m2 => simp only [h2] at h; exact ⟨m1, m2, rfl, h2, h⟩

/-- after a callback in which the visitor called SetDone/SetError(non-nil) there is no further event -/
theorem stop_is_last (v : Visitor α) (pre post : List (Ev α)) (e : Ev α) (m : Mon α) (st : Stop)
    (h : replay v [] (pre ++ e :: post) Mon.init = some m)
    (ha : (v (pre ++ [e])).stop = some st) :
    post = [] ∧ m.stopped = some st := by
  obtain ⟨m1, m2, _, h2, h3⟩ := replay_split v pre post e m h
  have hs := step_stop m1 m2 _ e st h2 ha
  cases post with
  | nil => simp only [replay, Option.some.injEq] at h3; rw [← h3]; exact ⟨rfl, hs⟩
  | cons e' es => simp [replay, Mon.step, hs] at h3

/-- after a callback Enter(l)/Visit(l) in which the visitor called Consume the next event is Exit(l) -/
theorem consume_next_is_exit (v : Visitor α) (pre post : List (Ev α)) (e : Ev α) (l : α) (m : Mon α)
    (h : replay v [] (pre ++ e :: post) Mon.init = some m) (hmust : m.must = none)
    (ha : v (pre ++ [e]) = .consume) (he : e = .enter l ∨ e = .visit l) :
    ∃ post', post = .exit l :: post' := by
  obtain ⟨m1, m2, _, h2, h3⟩ := replay_split v pre post e m h
  rw [ha] at h2
  have hs := step_consume m1 m2 l e h2 he
  cases post with
  | nil => simp only [replay, Option.some.injEq] at h3; rw [← h3, hs] at hmust; cases hmust
  | cons e' es =>
    simp only [replay] at h3
    simp only [List.append_assoc, List.cons_append, List.nil_append] at h3
    cases h4 : m2.step (v (pre ++ [e, e'])) e' with
    | none => simp [h4] at h3
    | some m3 => exact ⟨es, by rw [step_must m2 m3 l _ e' hs h4]⟩

/-- a visitor that never cancels leaves the monitor un-stopped -/
theorem replay_never_stopped (v : Visitor α) (hv : ∀ h, (v h).stop = none) (seen L : List (Ev α))
    (m m' : Mon α) (h : replay v seen L m = some m') (hm : m.stopped = none) : m'.stopped = none := by
  induction L generalizing seen m with
  | nil => simp only [replay, Option.some.injEq] at h; rw [← h]; exact hm
  | cons e es ih =>
    simp only [replay] at h
    cases hs : m.step (v (seen ++ [e])) e with
    | none => simp [hs] at h
    | some m1 =>
      simp only [hs] at h
      refine ih _ _ h ?_
      have hne := hv (seen ++ [e])
      unfold Mon.step at hs
      split at hs
      · cases hs
      · have haft : ∀ (m0 : Mon α) l b, m0.stopped = none → (m0.after (v (seen ++ [e])) l b).stopped = none := by
          intro m0 l b h0
          unfold Mon.after
          cases hva : v (seen ++ [e]) with
          | «continue» => exact h0
          | consume => cases b <;> simpa using h0
          | done cc => rw [hva] at hne; cases hne
          | error cc => rw [hva] at hne; cases hne
        cases e with
        | enter l =>
          simp only at hs; split at hs
          · cases hs
          · simp only [Option.some.injEq] at hs; rw [← hs]; exact haft _ _ _ hm
        | visit l =>
          simp only at hs; split at hs
          · cases hs
          · split at hs
            · split at hs
              · simp only [Option.some.injEq] at hs; rw [← hs]; exact haft _ _ _ hm
              · cases hs
            · cases hs
        | exit l =>
          simp only at hs
          split at hs
          · split at hs
            · simp only [Option.some.injEq] at hs; rw [← hs]; exact haft _ _ _ hm
            · cases hs
          · cases hs

end consequences

end Dawgs.C11
