import Dawgs.Proofs.C07RoundUpd
set_option linter.unusedSimpArgs false
set_option linter.unusedVariables false
set_option linter.unusedSectionVars false
/-! `build ∘ treeOf = id`: single-part queries, multi-part queries, the whole tree. -/
namespace Dawgs.C07
open Dawgs.Grammar Dawgs.C08

/-- every tree of the list is a node of a used rule other than `r` -/
def NotRule (N : Names) (r : String) (xs : List Tree) : Prop := ∀ x ∈ xs, ∃ r' ks, x = N.nd r' ks ∧ r' ∈ usedRules ∧ r' ≠ r

theorem notRule_of_all {N : Names} {r r' : String} (hr' : r' ∈ usedRules) (hne : r' ≠ r) {xs : List Tree} (h : AllRule N r' xs) :
    NotRule N r xs := fun x hx => by
  obtain ⟨ks, rfl⟩ := h x hx
  exact ⟨r', ks, rfl, hr', hne⟩

theorem notRule_append {N : Names} {r : String} {xs ys : List Tree} (h1 : NotRule N r xs) (h2 : NotRule N r ys) : NotRule N r (xs ++ ys) :=
  fun x hx => by
    rcases List.mem_append.1 hx with h | h
    · exact h1 x h
    · exact h2 x h

section Q
variable {N : Names} (hN : N.ok = true) (recT : Expr → Tree) (recW : Expr → Bool) (Hrec : RecOK N recT recW)
include hN Hrec

theorem filter_notRule {r : String} : ∀ (xs : List Tree), NotRule N r xs → xs.filter (isRuleKid N r) = []
  | [], _ => rfl
  | x :: xs, h => by
    obtain ⟨r', ks, rfl, hr', hne⟩ := h x (by simp)
    have h1 : isRuleKid N r (N.nd r' ks) = false := by
      rw [isRuleKid_nd hN, if_pos (by simpa using hr')]; simpa using hne
    simp only [List.filter_cons, h1, Bool.false_eq_true, if_false]
    exact filter_notRule xs (fun y hy => h y (by simp [hy]))

theorem filter_isNode_notRule {r : String} : ∀ (xs : List Tree), NotRule N r xs → xs.filter isNode = xs
  | [], _ => rfl
  | x :: xs, h => by
    obtain ⟨r', ks, rfl, _, _⟩ := h x (by simp)
    simp only [List.filter_cons, isNode_nd, if_true]
    rw [filter_isNode_notRule xs (fun y hy => h y (by simp [hy]))]

theorem tReading_rule (r : Reading) : ∃ ks, tReading N recT r = N.nd "oC_ReadingClause" ks := by cases r <;> exact ⟨_, rfl⟩
theorem tUpdating_rule (u : Updating) : ∃ ks, tUpdating N recT u = N.nd "oC_UpdatingClause" ks := by cases u <;> exact ⟨_, rfl⟩

theorem single_kids (R U : List Tree) (hR : AllRule N "oC_ReadingClause" R) (hU : AllRule N "oC_UpdatingClause" U) (rk : Option (List Tree)) :
    kidsOfRule N (N.nd "oC_SinglePartQuery" (R ++ U ++ optList rk (N.nd "oC_Return"))) "oC_ReadingClause" = R ∧
    kidsOfRule N (N.nd "oC_SinglePartQuery" (R ++ U ++ optList rk (N.nd "oC_Return"))) "oC_UpdatingClause" = U ∧
    kidOfRule N (N.nd "oC_SinglePartQuery" (R ++ U ++ optList rk (N.nd "oC_Return"))) "oC_Return" = rk.map (N.nd "oC_Return") := by
  have r1 := filter_rule_all hN recT recW Hrec (r := "oC_ReadingClause") (by decide) R hR
  have r2 := filter_rule_none hN recT recW Hrec (r := "oC_ReadingClause") (r' := "oC_UpdatingClause") (by decide) (by decide) U hU
  have u1 := filter_rule_none hN recT recW Hrec (r := "oC_UpdatingClause") (r' := "oC_ReadingClause") (by decide) (by decide) R hR
  have u2 := filter_rule_all hN recT recW Hrec (r := "oC_UpdatingClause") (by decide) U hU
  have t1 := filter_rule_none hN recT recW Hrec (r := "oC_Return") (r' := "oC_ReadingClause") (by decide) (by decide) R hR
  have t2 := filter_rule_none hN recT recW Hrec (r := "oC_Return") (r' := "oC_UpdatingClause") (by decide) (by decide) U hU
  simp only [kidOfRule, kidsOfRule, kids_nd, List.filter_append, r1, r2, u1, u2, t1, t2]
  cases rk <;> bsimp [optList]

theorem bSinglePart_ok (q : SinglePart) (f : Nat) (hw : wSinglePart recW q = true) (hf : 2 * size (tSinglePart N recT q) + 2 ≤ f) :
    bSinglePart N f (tSinglePart N recT q) = .ok q := by
  obtain ⟨rs, us, ret⟩ := q
  simp only [wSinglePart, Bool.and_eq_true] at hw
  obtain ⟨⟨hwr, hwu⟩, hwp⟩ := hw
  simp only [tSinglePart, size_nd, sizeL_append] at hf
  let gr : Projection → List Tree := fun p => [N.lf "RETURN" "return", tProjBody N recT p]
  have hrn : optList ret (returnNode N recT) = optList (ret.map gr) (N.nd "oC_Return") := optList_nd N _ gr ret
  have hR := allRule_map N _ _ (tReading_rule hN recT recW Hrec) rs
  have hU := allRule_map N _ _ (tUpdating_rule hN recT recW Hrec) us
  obtain ⟨k1, k2, k3⟩ := single_kids hN recT recW Hrec _ _ hR hU (ret.map gr)
  have m1 : mapM' (bReading N f) (rs.map (tReading N recT)) = .ok rs := by
    apply mapM'_map_id
    intro r hr
    have := size_le_sizeL (List.mem_map_of_mem (f := tReading N recT) hr)
    exact bReading_ok hN recT recW Hrec r f ((List.all_eq_true.1 hwr) r hr) (by omega)
  have m2 : mapM' (bUpdating N f) (us.map (tUpdating N recT)) = .ok us := by
    apply mapM'_map_id
    intro u hu
    have := size_le_sizeL (List.mem_map_of_mem (f := tUpdating N recT) hu)
    exact bUpdating_ok hN recT recW Hrec u f ((List.all_eq_true.1 hwu) u hu) (by omega)
  unfold bSinglePart
  simp only [tSinglePart, hrn, k1, k2, k3, m1, m2]
  cases ret with
  | none => rfl
  | some p =>
    have hp := bProjection_ok hN recT recW Hrec p f hwp (by simp [optList, returnNode] at hf; omega)
    obtain ⟨pk, hpk⟩ : ∃ pk, tProjBody N recT p = N.nd "oC_ProjectionBody" pk := ⟨_, rfl⟩
    rw [hpk] at hp
    simp only [Option.map_some, gr, hpk]
    bsimp [hp, Except.map]

/-! ### multi-part queries -/

theorem bParts_readings (f : Nat) : ∀ (rs : List Reading) (rest : List Tree) (acc : List Reading) (uacc : List Updating),
    (∀ r ∈ rs, wReading recW r = true ∧ 2 * size (tReading N recT r) + 2 ≤ f) →
    bParts N f (rs.map (tReading N recT) ++ rest) acc uacc = bParts N f rest (acc ++ rs) uacc
  | [], rest, acc, uacc, _ => by simp
  | r :: rs, rest, acc, uacc, h => by
    obtain ⟨ks, hks⟩ := tReading_rule hN recT recW Hrec r
    have hb := bReading_ok hN recT recW Hrec r f (h r (by simp)).1 (h r (by simp)).2
    have ih := bParts_readings f rs rest (acc ++ [r]) uacc (fun x hx => h x (by simp [hx]))
    rw [hks] at hb
    simp only [List.map_cons, List.cons_append, hks]
    rw [bParts]
    bsimp [hb]
    rw [ih]
    simp

theorem bParts_updatings (f : Nat) : ∀ (us : List Updating) (rest : List Tree) (acc : List Reading) (uacc : List Updating),
    (∀ u ∈ us, wUpdating recW u = true ∧ 2 * size (tUpdating N recT u) + 2 ≤ f) →
    bParts N f (us.map (tUpdating N recT) ++ rest) acc uacc = bParts N f rest acc (uacc ++ us)
  | [], rest, acc, uacc, _ => by simp
  | u :: us, rest, acc, uacc, h => by
    obtain ⟨ks, hks⟩ := tUpdating_rule hN recT recW Hrec u
    have hb := bUpdating_ok hN recT recW Hrec u f (h u (by simp)).1 (h u (by simp)).2
    have ih := bParts_updatings f us rest acc (uacc ++ [u]) (fun x hx => h x (by simp [hx]))
    rw [hks] at hb
    simp only [List.map_cons, List.cons_append, hks]
    rw [bParts]
    bsimp [hb]
    rw [ih]
    simp

theorem with_kids (pk : List Tree) (wk : Option (List Tree)) :
    kidOfRule N (N.nd "oC_With" ([N.lf "WITH" "with", N.nd "oC_ProjectionBody" pk] ++ optList wk (N.nd "oC_Where"))) "oC_ProjectionBody" =
      some (N.nd "oC_ProjectionBody" pk) ∧
    kidOfRule N (N.nd "oC_With" ([N.lf "WITH" "with", N.nd "oC_ProjectionBody" pk] ++ optList wk (N.nd "oC_Where"))) "oC_Where" =
      wk.map (N.nd "oC_Where") := by
  cases wk <;> bsimp [optList]

theorem bParts_with (f : Nat) (p : Part) (rest : List Tree) (acc : List Reading) (uacc : List Updating) (ps : List Part)
    (hwp : wProjBody recW p.withProj = true) (hww : ∀ e, p.withWhere = some e → recW e = true)
    (hf : 2 * size (withNode N recT p) + 2 ≤ f) (hrest : bParts N f rest [] [] = .ok ps) :
    bParts N f (withNode N recT p :: rest) acc uacc =
      .ok ({ reading := acc, updating := uacc, withProj := p.withProj, withWhere := p.withWhere } :: ps) := by
  obtain ⟨rs, us, proj, wh⟩ := p
  let gw : Expr → List Tree := fun e => [N.lf "WHERE" "where", exprNode N (recT e)]
  have hwn : optList wh (whereNode N recT) = optList (wh.map gw) (N.nd "oC_Where") := optList_nd N _ gw wh
  obtain ⟨pk, hpk⟩ : ∃ pk, tProjBody N recT proj = N.nd "oC_ProjectionBody" pk := ⟨_, rfl⟩
  simp only [withNode, size_nd, sizeL_append, sizeL_cons', sizeL_nil', size_lf] at hf
  have hp := bProjection_ok hN recT recW Hrec proj f hwp (by omega)
  obtain ⟨k1, k2⟩ := with_kids hN recT recW Hrec pk (wh.map gw)
  have e2 : (wh.map gw).map (N.nd "oC_Where") = wh.map (whereNode N recT) := by cases wh <;> rfl
  rw [e2] at k2
  have b2 := bOptWhere_ok hN recT recW Hrec _ wh f k2 hww (by intro e h; subst h; rw [sizeL_optList_some] at hf; omega)
  rw [hpk] at hp
  simp only [withNode, hwn, hpk] at b2 ⊢
  rw [bParts]
  have hr : ruleNameOf N (N.nd "oC_With" ([N.lf "WITH" "with", N.nd "oC_ProjectionBody" pk] ++ optList (wh.map gw) (N.nd "oC_Where"))) = "oC_With" := by
    bsimp []
  simp only [hr, k1, hp, b2, hrest]

theorem bParts_last (f : Nat) (l : SinglePart) (acc : List Reading) (uacc : List Updating) :
    bParts N f [tSinglePart N recT l] acc uacc = .ok [] := by
  rw [bParts]
  bsimp [tSinglePart]

theorem bParts_ok (f : Nat) (l : SinglePart) : ∀ (ps : List Part), (∀ p ∈ ps, wPartQ recW p = true ∧ 2 * sizeL (partKids N recT p) + 2 ≤ f) →
    bParts N f ((ps.map (partKids N recT)).flatten ++ [tSinglePart N recT l]) [] [] = .ok ps
  | [], _ => by simpa using bParts_last hN recT recW Hrec f l [] []
  | p :: ps, h => by
    have ih := bParts_ok f l ps (fun x hx => h x (by simp [hx]))
    obtain ⟨hw, hf⟩ := h p (by simp)
    simp only [wPartQ, Bool.and_eq_true] at hw
    obtain ⟨⟨⟨hwr, hwu⟩, hwp⟩, hww⟩ := hw
    simp only [partKids, sizeL_append, sizeL_cons', sizeL_nil'] at hf
    simp only [List.map_cons, List.flatten_cons, partKids, List.append_assoc]
    rw [bParts_readings hN recT recW Hrec f p.reading _ [] [] (fun r hr => ⟨(List.all_eq_true.1 hwr) r hr, by
      have := size_le_sizeL (List.mem_map_of_mem (f := tReading N recT) hr); omega⟩)]
    rw [bParts_updatings hN recT recW Hrec f p.updating _ _ [] (fun u hu => ⟨(List.all_eq_true.1 hwu) u hu, by
      have := size_le_sizeL (List.mem_map_of_mem (f := tUpdating N recT) hu); omega⟩)]
    simp only [List.singleton_append, List.nil_append]
    have ih' : bParts N f ((ps.map (partKids N recT)).flatten ++ [tSinglePart N recT l]) [] [] = .ok ps := ih
    rw [bParts_with hN recT recW Hrec f p _ _ _ ps hwp (by intro e he; rw [he] at hww; exact hww) (by omega) ih']

/-! ### the whole tree -/

theorem notRule_partKids (p : Part) : NotRule N "oC_SinglePartQuery" (partKids N recT p) := by
  unfold partKids
  refine notRule_append (notRule_append ?_ ?_) ?_
  · exact notRule_of_all (by decide) (by decide) (allRule_map N _ _ (tReading_rule hN recT recW Hrec) p.reading)
  · exact notRule_of_all (by decide) (by decide) (allRule_map N _ _ (tUpdating_rule hN recT recW Hrec) p.updating)
  · intro x hx
    simp only [List.mem_singleton] at hx
    subst hx
    exact ⟨"oC_With", _, rfl, by decide, by decide⟩

theorem notRule_flatten {r : String} : ∀ (xss : List (List Tree)), (∀ xs ∈ xss, NotRule N r xs) → NotRule N r xss.flatten
  | [], _ => by intro x hx; simp at hx
  | xs :: xss, h => by
    rw [List.flatten_cons]
    exact notRule_append (h xs (by simp)) (notRule_flatten xss (fun ys hys => h ys (by simp [hys])))

theorem sizeL_flatten_mem : ∀ (xss : List (List Tree)) (xs : List Tree), xs ∈ xss → sizeL xs ≤ sizeL xss.flatten
  | [], _, h => by simp at h
  | ys :: yss, xs, h => by
    rcases List.mem_cons.1 h with h | h
    · subst h; simp
    · have := sizeL_flatten_mem yss xs h; simp; omega

theorem build_ok (q : Query) (hw : wQuery recW q = true) : build N (tQuery N recT q) = .ok q := by
  cases q with
  | single s =>
    simp only [wQuery] at hw
    obtain ⟨sk, hsk⟩ : ∃ sk, tSinglePart N recT s = N.nd "oC_SinglePartQuery" sk := ⟨_, rfl⟩
    have hb : ∀ F, 2 * size (tQuery N recT (.single s)) + 8 ≤ F → bSinglePart N F (N.nd "oC_SinglePartQuery" sk) = .ok s := by
      intro F hF
      rw [← hsk]
      exact bSinglePart_ok hN recT recW Hrec s F hw (by simp [tQuery, tBody] at hF; omega)
    unfold build
    simp only [tQuery, tBody, hsk] at hb ⊢
    bsimp [Except.map]
    rw [hb _ (by simp)]
  | multi ps l =>
    simp only [wQuery, Bool.and_eq_true] at hw
    have hsz : size (tQuery N recT (.multi ps l)) = 7 + (sizeL (ps.map (partKids N recT)).flatten + size (tSinglePart N recT l)) := by
      simp [tQuery, tBody]; omega
    obtain ⟨sk, hsk⟩ : ∃ sk, tSinglePart N recT l = N.nd "oC_SinglePartQuery" sk := ⟨_, rfl⟩
    have hb : ∀ F, 2 * size (tQuery N recT (.multi ps l)) + 8 ≤ F → bSinglePart N F (N.nd "oC_SinglePartQuery" sk) = .ok l := by
      intro F hF
      rw [← hsk]
      exact bSinglePart_ok hN recT recW Hrec l F hw.2 (by omega)
    have hp : ∀ F, 2 * size (tQuery N recT (.multi ps l)) + 8 ≤ F →
        bParts N F ((ps.map (partKids N recT)).flatten ++ [N.nd "oC_SinglePartQuery" sk]) [] [] = .ok ps := by
      intro F hF
      rw [← hsk]
      apply bParts_ok hN recT recW Hrec F l ps
      intro p hp
      refine ⟨(List.all_eq_true.1 hw.1) p hp, ?_⟩
      have := sizeL_flatten_mem hN recT recW Hrec _ _ (List.mem_map_of_mem (f := partKids N recT) hp)
      omega
    have hnr : NotRule N "oC_SinglePartQuery" (ps.map (partKids N recT)).flatten := by
      apply notRule_flatten hN recT recW Hrec
      intro xs hxs
      obtain ⟨p, _, rfl⟩ := List.mem_map.1 hxs
      exact notRule_partKids hN recT recW Hrec p
    have hf1 := filter_notRule hN recT recW Hrec _ hnr
    have hf2 := filter_isNode_notRule hN recT recW Hrec _ hnr
    unfold build
    simp only [tQuery, tBody, hsk] at hb hp ⊢
    bsimp [hf1, hf2, Except.map]
    rw [hb _ (by simp), hp _ (by simp)]

end Q
end Dawgs.C07
