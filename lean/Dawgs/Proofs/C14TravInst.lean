/- Helper lemmas for C14: `EachAdjacentEdge` of the triple store / projections is literally the edge list's
incident-edge filter; height bounds of the traversal trees under a depth bound or a rank function. -/
import Dawgs.Proofs.C14Trav
import Dawgs.Proofs.C14TS
import Dawgs.Proofs.C14Reach
set_option linter.unusedSimpArgs false
set_option linter.unusedVariables false
namespace Dawgs.C14

/-! ### an ascending list is determined by its members -/

theorem asc_unique : ∀ {a b : List Nat}, Asc a → Asc b → (∀ x, x ∈ a ↔ x ∈ b) → a = b := by
  intro a
  induction a with
  | nil =>
    intro b _ _ h
    cases b with
    | nil => rfl
    | cons y b' => exact absurd ((h y).mpr (by simp)) (by simp)
  | cons x a' ih =>
    intro b ha hb h
    cases b with
    | nil => exact absurd ((h x).mp (by simp)) (by simp)
    | cons y b' =>
      unfold Asc at ha hb
      rw [List.pairwise_cons] at ha hb
      have hxy : x = y := by
        rcases List.mem_cons.mp ((h x).mp (by simp)) with e | hx
        · exact e
        · rcases List.mem_cons.mp ((h y).mpr (by simp)) with e | hy
          · exact e.symm
          · have := ha.1 y hy; have := hb.1 x hx; omega
      subst hxy
      congr 1
      apply ih ha.2 hb.2
      intro z
      constructor
      · intro hz
        rcases List.mem_cons.mp ((h z).mp (List.mem_cons_of_mem _ hz)) with e | hz'
        · have := ha.1 z hz; omega
        · exact hz'
      · intro hz
        rcases List.mem_cons.mp ((h z).mpr (List.mem_cons_of_mem _ hz)) with e | hz'
        · have := hb.1 z hz; omega
        · exact hz'

theorem asc_range_filter (n : Nat) (p : Nat → Bool) : Asc ((List.range n).filter p) := by
  unfold Asc
  exact List.Pairwise.filter _ List.pairwise_lt_range

/-! ### `EachAdjacentEdge` = incident-edge filter of the edge array -/

def incB (v : Nat) : Dir → Edge → Bool
  | .out => fun e => decide (e.start = v)
  | .inn => fun e => decide (e.stop = v)
  | .both => fun e => decide (e.start = v) || decide (e.stop = v)

theorem incB_iff (v : Nat) (d : Dir) (e : Edge) : incB v d e = true ↔ Incident e v d := by
  cases d <;> simp [incB, Incident]

theorem incident_eq (g : G) (v : Nat) (d : Dir) : g.incident v d = g.edges.filter (incB v d) := by
  cases d <;> rfl

def optB (p : Edge → Bool) : Option Edge → Bool
  | some e => p e
  | none => false

theorem optB_some (p : Edge → Bool) (e : Edge) : optB p (some e) = p e := rfl

theorem filterMap_range_filter (p : Edge → Bool) : ∀ (xs : List Edge),
    ((List.range xs.length).filter (fun i => optB p xs[i]?)).filterMap (fun i => xs[i]?) = xs.filter p := by
  intro xs
  induction xs with
  | nil => rfl
  | cons x xs ih =>
    rw [List.length_cons, List.range_succ_eq_map, List.filter_cons]
    have htail : ((List.map Nat.succ (List.range xs.length)).filter (fun i => optB p (x :: xs)[i]?)).filterMap
        (fun i => (x :: xs)[i]?) = xs.filter p := by
      rw [List.filter_map, List.filterMap_map]
      simpa [Function.comp_def] using ih
    by_cases hp : p x = true
    · simp only [List.getElem?_cons_zero, optB_some, hp, if_true, List.filterMap_cons, List.filter_cons]
      rw [htail]
    · have hp' : p x = false := by simpa using hp
      simp only [List.getElem?_cons_zero, optB_some, hp', Bool.false_eq_true, if_false, List.filter_cons]
      rw [htail]

theorem TS.indices_eq {t : TS} {g : G} (r : t.Rel g) (v : Nat) (d : Dir) :
    t.adjacentEdgeIndices v d = (List.range t.edges.length).filter (fun i => optB (incB v d) t.edges[i]?) := by
  apply asc_unique
  · cases d
    · exact asc_sunion asc_nil
    · exact asc_sunion asc_nil
    · exact asc_sunion (asc_sunion asc_nil)
  · exact asc_range_filter _ _
  · intro i
    rw [TS.mem_indices r, List.mem_filter, List.mem_range]
    constructor
    · rintro ⟨e, he, hinc⟩
      refine ⟨?_, by rw [he]; exact (incB_iff v d e).mpr hinc⟩
      rcases Nat.lt_or_ge i t.edges.length with h | h
      · exact h
      · rw [List.getElem?_eq_none h] at he; cases he
    · rintro ⟨hlt, hb⟩
      cases he : t.edges[i]? with
      | none => rw [he] at hb; cases hb
      | some e => rw [he] at hb; exact ⟨e, rfl, (incB_iff v d e).mp hb⟩

/-- the store's `EachAdjacentEdge` sequence is the incident-edge filter of the edge list, in order — tombstones ignored -/
theorem TS.adjacentEdges_eq {t : TS} {g : G} (r : t.Rel g) (v : Nat) (d : Dir) : t.adjacentEdges v d = g.incident v d := by
  unfold TS.adjacentEdges
  rw [TS.indices_eq r, filterMap_range_filter, incident_eq, r.edges]

theorem Proj.adjacentEdges_eq {t : TS} {g : G} (r : t.Rel g) (dn de : List Nat) (v : Nat) (d : Dir) :
    Proj.adjacentEdges ⟨t, dn, de⟩ v d = (g.project dn de).incident v d := by
  unfold Proj.adjacentEdges
  simp only
  rw [TS.adjacentEdges_eq r, incident_eq, incident_eq, project_edges_eq, List.filter_filter, List.filter_filter]
  apply List.filter_congr
  intro e _
  rw [Bool.and_comm]
  rfl

/-! ### height bounds -/

theorem mem_segChildren {adjE : Nat → List Edge} {filt : Edge → Bool} {md : Int} {pick : Edge → Nat → Nat} {w c : List Seg}
    (h : c ∈ segChildren adjE filt md pick w) :
    segExceeded md w = false ∧ ∃ e ∈ adjE (segNode w), filt e = true ∧ c = ⟨pick e (segNode w), e.id⟩ :: w := by
  unfold segChildren at h
  by_cases hx : segExceeded md w = true
  · rw [if_pos hx] at h; cases h
  · rw [if_neg hx] at h
    obtain ⟨e, he, rfl⟩ := List.mem_map.mp h
    rw [List.mem_filter] at he
    exact ⟨by simpa using hx, e, he.1, he.2, rfl⟩

theorem seg_bounded_depth (adjE : Nat → List Edge) (filt : Edge → Bool) (md : Int) (pick : Edge → Nat → Nat) (hmd : md > 0) :
    ∀ (k : Nat) (w : List Seg), md.toNat + 1 ≤ w.length + k → Bounded (segChildren adjE filt md pick) (k + 1) w := by
  intro k
  induction k with
  | zero =>
    intro w hw c hc
    obtain ⟨hx, _⟩ := mem_segChildren hc
    unfold segExceeded at hx
    have : md < (w.length : Int) := by omega
    simp [hmd, this] at hx
  | succ k ih =>
    intro w hw c hc
    obtain ⟨_, e, _, _, rfl⟩ := mem_segChildren hc
    apply ih
    simp only [List.length_cons]; omega

theorem seg_bounded_rank (adjE : Nat → List Edge) (filt : Edge → Bool) (md : Int) (pick : Edge → Nat → Nat) (rk : Nat → Nat)
    (hrk : ∀ n e, e ∈ adjE n → filt e = true → rk (pick e n) < rk n) :
    ∀ (m : Nat) (w : List Seg), rk (segNode w) ≤ m → Bounded (segChildren adjE filt md pick) (m + 1) w := by
  intro m
  induction m with
  | zero =>
    intro w hw c hc
    obtain ⟨_, e, he, hf, rfl⟩ := mem_segChildren hc
    have := hrk _ e he hf; omega
  | succ m ih =>
    intro w hw c hc
    obtain ⟨_, e, he, hf, rfl⟩ := mem_segChildren hc
    apply ih
    have := hrk _ e he hf
    show rk (pick e (segNode w)) ≤ m
    omega

theorem mem_ptChildren {adjE : Nat → List Edge} {wfilt : Edge → Option Nat} {md : Int} {pick : Edge → Nat → Nat} {t c : PTerm}
    (h : c ∈ ptChildren adjE wfilt md pick t) :
    ptExceeded md t = false ∧ ∃ e ∈ adjE t.node, ∃ w, wfilt e = some w ∧
      c = ⟨pick e t.node, t.dist + 1, if t.dist > 0 then w * t.weight else w⟩ := by
  unfold ptChildren at h
  by_cases hx : ptExceeded md t = true
  · rw [if_pos hx] at h; cases h
  · rw [if_neg hx] at h
    obtain ⟨e, he, hm⟩ := List.mem_filterMap.mp h
    cases hw : wfilt e with
    | none => rw [hw] at hm; cases hm
    | some w => rw [hw] at hm; simp at hm; exact ⟨by simpa using hx, e, he, w, hw, hm.symm⟩

theorem pt_bounded_depth (adjE : Nat → List Edge) (wfilt : Edge → Option Nat) (md : Int) (pick : Edge → Nat → Nat) (hmd : md > 0) :
    ∀ (k : Nat) (t : PTerm), md.toNat + 1 ≤ t.dist + k → Bounded (ptChildren adjE wfilt md pick) (k + 1) t := by
  intro k
  induction k with
  | zero =>
    intro t ht c hc
    obtain ⟨hx, _⟩ := mem_ptChildren hc
    unfold ptExceeded at hx
    have : md < (t.dist : Int) := by omega
    simp [hmd, this] at hx
  | succ k ih =>
    intro t ht c hc
    obtain ⟨_, e, _, w, _, rfl⟩ := mem_ptChildren hc
    apply ih
    show md.toNat + 1 ≤ t.dist + 1 + k
    omega

theorem pt_bounded_rank (adjE : Nat → List Edge) (wfilt : Edge → Option Nat) (md : Int) (pick : Edge → Nat → Nat) (rk : Nat → Nat)
    (hrk : ∀ n e, e ∈ adjE n → (wfilt e).isSome = true → rk (pick e n) < rk n) :
    ∀ (m : Nat) (t : PTerm), rk t.node ≤ m → Bounded (ptChildren adjE wfilt md pick) (m + 1) t := by
  intro m
  induction m with
  | zero =>
    intro t ht c hc
    obtain ⟨_, e, he, w, hw, rfl⟩ := mem_ptChildren hc
    have := hrk _ e he (by rw [hw]; rfl); omega
  | succ m ih =>
    intro t ht c hc
    obtain ⟨_, e, he, w, hw, rfl⟩ := mem_ptChildren hc
    apply ih
    have := hrk _ e he (by rw [hw]; rfl)
    show rk (pick e t.node) ≤ m
    omega

theorem pickAt_true (d : Dir) : pickAt true d = Edge.other := by
  funext e n; simp [pickAt, pickOr]

/-! ### leaves are past the root; stateless terminals are ends of walks of their `dist` -/

theorem treeLeaves_isPath {α : Type} (children : α → List α) (isPath : α → Bool) :
    ∀ (F : Nat) (x y : α), y ∈ treeLeaves children isPath F x → isPath y = true := by
  intro F
  induction F with
  | zero => intro x y h; cases h
  | succ F ih =>
    intro x y h
    rw [treeLeaves_succ] at h
    split at h
    · split at h
      · simp at h; subst h; assumption
      · cases h
    · obtain ⟨c, _, hy⟩ := List.mem_flatMap.mp h
      exact ih c y hy

/-- one admitted step of the stateless search from node `n` -/
def admittedEnds (adjE : Nat → List Edge) (wfilt : Edge → Option Nat) (n : Nat) : List Nat :=
  (adjE n).filterMap (fun e => (wfilt e).map (fun _ => e.other n))

theorem ptLeaves_walk (adjE : Nat → List Edge) (wfilt : Edge → Option Nat) (md : Int) (root : Nat) :
    ∀ (F : Nat) (x y : PTerm), x.node ∈ walkEnds (admittedEnds adjE wfilt) root x.dist →
      y ∈ treeLeaves (ptChildren adjE wfilt md Edge.other) ptIsPath F x →
      y.node ∈ walkEnds (admittedEnds adjE wfilt) root y.dist := by
  intro F
  induction F with
  | zero => intro x y _ h; cases h
  | succ F ih =>
    intro x y hx h
    rw [treeLeaves_succ] at h
    split at h
    · split at h
      · simp at h; subst h; exact hx
      · cases h
    · obtain ⟨c, hc, hy⟩ := List.mem_flatMap.mp h
      apply ih c y _ hy
      obtain ⟨_, e, he, w, hw, rfl⟩ := mem_ptChildren hc
      show e.other x.node ∈ walkEnds (admittedEnds adjE wfilt) root (x.dist + 1)
      rw [mem_walkEnds_succ]
      refine ⟨x.node, hx, ?_⟩
      unfold admittedEnds
      rw [List.mem_filterMap]
      exact ⟨e, he, by rw [hw]; rfl⟩

/-- a property of the root that every expansion step keeps holds of every leaf -/
theorem treeLeaves_inv {α : Type} (children : α → List α) (isPath : α → Bool) (P : α → Prop)
    (hstep : ∀ x c, P x → c ∈ children x → P c) : ∀ (F : Nat) (x y : α), P x → y ∈ treeLeaves children isPath F x → P y := by
  intro F
  induction F with
  | zero => intro x y _ h; cases h
  | succ F ih =>
    intro x y hx h
    rw [treeLeaves_succ] at h
    split at h
    · split at h
      · simp at h; subst h; exact hx
      · cases h
    · obtain ⟨c, hc, hy⟩ := List.mem_flatMap.mp h
      exact ih c y (hstep x c hx hc) hy

/-- what every segment a traversal from `root` builds looks like: it ends in the root with `Edge = 0`, and all its ids
are ids of the graph -/
def SegWf (root : Nat) (w : List Seg) : Prop :=
  (∃ pre, w = pre ++ [⟨root, 0⟩]) ∧ ∀ x ∈ w, x.node < 2 ^ 64 ∧ x.edge < 2 ^ 64

theorem segWf_children (adjE : Nat → List Edge) (filt : Edge → Bool) (md : Int) (root : Nat)
    (h64 : ∀ n, ∀ e ∈ adjE n, e.id < 2 ^ 64 ∧ e.start < 2 ^ 64 ∧ e.stop < 2 ^ 64) :
    ∀ w c, SegWf root w → c ∈ segChildren adjE filt md Edge.other w → SegWf root c := by
  intro w c hw hc
  obtain ⟨_, e, he, _, rfl⟩ := mem_segChildren hc
  obtain ⟨⟨pre, hpre⟩, hall⟩ := hw
  have hb := h64 _ e he
  refine ⟨⟨⟨e.other (segNode w), e.id⟩ :: pre, by rw [hpre]; rfl⟩, ?_⟩
  intro x hx
  rcases List.mem_cons.mp hx with rfl | hx
  · refine ⟨?_, hb.1⟩
    show e.other (segNode w) < 2 ^ 64
    unfold Edge.other; split
    · exact hb.2.2
    · exact hb.2.1
  · exact hall x hx

end Dawgs.C14
