import Dawgs.Proofs.C07RoundExpr2
set_option linter.unusedSimpArgs false
set_option linter.unusedVariables false
set_option linter.unusedSectionVars false
/-! `build ∘ treeOf = id` on the expression layer: the arithmetic tower. -/
namespace Dawgs.C07
open Dawgs.Grammar Dawgs.C08

theorem zip_fst_snd {α β} : ∀ (ps : List (α × β)), (ps.map (·.1)).zip (ps.map (·.2)) = ps
  | [] => rfl
  | p :: ps => by simp [zip_fst_snd ps]

def arithRules : List String := ["oC_AddOrSubtractExpression", "oC_MultiplyDivideModuloExpression", "oC_PowerOfExpression"]

theorem goBlank_arith (op : String) (h : arithOps.contains op = true) : goBlank op = false := by
  simp [arithOps] at h
  rcases h with rfl | rfl | rfl | rfl | rfl | rfl <;> decide

/-- operators are never SP texts: the repaired iterator (skipSP) collects the same tokens from a node whose terminals are operators -/
theorem spText_arith (s : String) (h : arithOps.contains s = true) : spText s = false := by
  simp only [arithOps, List.contains_eq_mem, List.mem_cons, List.not_mem_nil, or_false, decide_eq_true_eq] at h
  rcases h with rfl | rfl | rfl | rfl | rfl | rfl <;> decide

theorem opTokens_eq (sk : Bool) (t : Tree) (h : (litTokens t).all arithOps.contains = true) : opTokens sk t = litTokens t := by
  unfold opTokens
  apply List.filter_eq_self.2
  intro s hs
  have := spText_arith s ((List.all_eq_true.1 h) s hs)
  simp [this]

section Arith
variable {N : Names} (hN : N.ok = true)
include hN

/-- what one level of the tower needs from the level below -/
structure SubOK (sub : Expr → Tree) (wsub : Expr → Bool) : Prop where
  ok : ∀ x g, wsub x = true → 2 * size (sub x) + 2 ≤ g → bExpr N g (sub x) = .ok x
  node : ∀ x, ∃ r ks, sub x = N.nd r ks

theorem litTokens_opKids (sub : Expr → Tree) (hnode : ∀ x, ∃ r ks, sub x = N.nd r ks) :
    ∀ (parts : List (String × Expr)), (∀ p ∈ parts, goBlank p.1 = false) →
      ((parts.map (fun p => [N.lf (opTok p.1) p.1, sub p.2])).flatten).filterMap litTok = parts.map (·.1)
  | [], _ => rfl
  | p :: ps, h => by
    obtain ⟨r, ks, hs⟩ := hnode p.2
    have ih := litTokens_opKids sub hnode ps (fun q hq => h q (by simp [hq]))
    simp [List.filterMap_cons, hs, h p (by simp), ih]

theorem ruleKids_opKids (sub : Expr → Tree) (hnode : ∀ x, ∃ r ks, sub x = N.nd r ks) :
    ∀ (parts : List (String × Expr)),
      ((parts.map (fun p => [N.lf (opTok p.1) p.1, sub p.2])).flatten).filter isNode = parts.map (fun p => sub p.2)
  | [] => rfl
  | p :: ps => by
    obtain ⟨r, ks, hs⟩ := hnode p.2
    have ih := ruleKids_opKids sub hnode ps
    simp [List.filter, hs, ih]

theorem sizeL_opKids_ge (sub : Expr → Tree) (parts : List (String × Expr)) (p : String × Expr) (hp : p ∈ parts) :
    size (sub p.2) + 1 ≤ sizeL ((parts.map (fun p => [N.lf (opTok p.1) p.1, sub p.2])).flatten) := by
  induction parts with
  | nil => cases hp
  | cons q qs ih =>
    rcases List.mem_cons.1 hp with h | h
    · subst h; simp; omega
    · have := ih h; simp; omega

/-- a level that owns the expression: `l op r op r …` -/
theorem bArith_proper (rule : String) (hr : arithRules.contains rule = true) (sub : Expr → Tree) (wsub : Expr → Bool)
    (H : SubOK (N := N) sub wsub) (l : Expr) (parts : List (String × Expr)) (hne : parts ≠ [])
    (hops : ∀ p ∈ parts, arithOps.contains p.1 = true) (hwl : wsub l = true) (hwp : ∀ p ∈ parts, wsub p.2 = true)
    (g : Nat) (hg : 2 * size (N.nd rule (opKids N sub l parts)) + 2 ≤ g) :
    bExpr N g (N.nd rule (opKids N sub l parts)) = .ok (.arith l parts) := by
  simp only [opKids, size_nd, sizeL_cons'] at hg
  obtain ⟨g', rfl⟩ : ∃ g', g = g' + 2 := ⟨g - 2, by omega⟩
  have hlit := litTokens_opKids hN sub H.node parts (fun p hp => goBlank_arith p.1 (hops p hp))
  have hrk := ruleKids_opKids hN sub H.node parts
  obtain ⟨rl, kl, hl⟩ := H.node l
  have hl' := H.ok l g' hwl (by omega)
  have hm : mapM' (bExpr N g') (parts.map (fun p => sub p.2)) = .ok (parts.map (·.2)) := by
    induction parts with
    | nil => rfl
    | cons p ps ih =>
      have h1 := H.ok p.2 g' (hwp p (by simp)) (by
        have := sizeL_opKids_ge hN sub (p :: ps) p (by simp)
        omega)
      have h2 : mapM' (bExpr N g') (ps.map (fun p => sub p.2)) = .ok (ps.map (·.2)) := by
        by_cases hps : ps = []
        · subst hps; rfl
        · apply ih hps (fun q hq => hops q (by simp [hq])) (fun q hq => hwp q (by simp [hq]))
          · simp at hg ⊢; omega
          · exact litTokens_opKids hN sub H.node ps (fun q hq => goBlank_arith q.1 (hops q (by simp [hq])))
          · exact ruleKids_opKids hN sub H.node ps
      simp [mapM', h1, h2]
  have hall : (parts.map (·.1)).all arithOps.contains = true := by
    simp only [List.all_map, List.all_eq_true]
    intro p hp; exact hops p hp
  have hname : ruleNameOf N (N.nd rule (sub l :: (parts.map (fun p => [N.lf (opTok p.1) p.1, sub p.2])).flatten)) = rule := by
    simp [arithRules] at hr
    rcases hr with rfl | rfl | rfl <;> bsimp []
  rw [show g' + 2 = (g' + 1) + 1 from rfl, bExpr]
  simp only [opKids, hname]
  have hb : bArith N (g' + 1) (N.nd rule (sub l :: (parts.map (fun p => [N.lf (opTok p.1) p.1, sub p.2])).flatten)) = .ok (.arith l parts) := by
    rw [bArith]
    have hlt : litTokens (N.nd rule (sub l :: (parts.map (fun p => [N.lf (opTok p.1) p.1, sub p.2])).flatten)) = parts.map (·.1) := by
      simp only [litTokens, kids_nd, List.filterMap_cons, hl, litTok_nd, hlit]
    rw [opTokens_eq _ _ (by rw [hlt]; exact hall), hlt]
    simp only [ruleKids, kids_nd, List.filter_cons, hl, isNode_nd, if_true]
    rw [← hl]
    simp only [hlit, hrk, hall, Bool.not_true, Bool.false_eq_true, if_false]
    cases parts with
    | nil => exact absurd rfl hne
    | cons p ps =>
      simp only [List.map_cons] at hm ⊢
      cases hps : ps with
      | nil =>
        subst hps
        simp only [List.map_nil] at hm ⊢
        simp [mapM'] at hm
        simp [hl', hm, mapM', hname]
      | cons q qs =>
        subst hps
        simp only [List.map_cons] at hm ⊢
        simp [hl', hm, zip_fst_snd]
  simp [arithRules] at hr
  rcases hr with rfl | rfl | rfl <;> simpa using hb

def towerRules : List String := "oC_UnaryAddOrSubtractExpression" :: arithRules

/-- a level that only wraps the next one -/
theorem bArith_unit (rule : String) (hr : towerRules.contains rule = true) (r : String) (ks : List Tree) (g : Nat) :
    bExpr N (g + 2) (N.nd rule [N.nd r ks]) = bExpr N g (N.nd r ks) := by
  simp [towerRules, arithRules] at hr
  rcases hr with rfl | rfl | rfl | rfl <;>
  · rw [show g + 2 = (g + 1) + 1 from rfl, bExpr]
    bsimp [bArith, arithOps, opTokens]

section Levels
variable (recT : Expr → Tree) (recW : Expr → Bool) (Hrec : RecOK N recT recW)
include Hrec

theorem tNonArith_node (e : Expr) : ∃ r ks, tNonArith N recT e = N.nd r ks := by
  cases e <;> exact ⟨_, _, rfl⟩

theorem subOK_nonArith : SubOK (N := N) (tNonArith N recT) (wNonArith recW) :=
  ⟨fun x g hw hg => bExpr_tNonArith hN recT recW Hrec x g hw hg, tNonArith_node hN recT recW Hrec⟩

theorem tUnary_node (e : Expr) : ∃ r ks, tUnary N recT e = N.nd r ks := by
  unfold tUnary; split <;> exact ⟨_, _, rfl⟩

theorem bExpr_tUnary (e : Expr) (g : Nat) (hw : wUnary recW e = true) (hg : 2 * size (tUnary N recT e) + 2 ≤ g) :
    bExpr N g (tUnary N recT e) = .ok e := by
  unfold tUnary at hg ⊢
  unfold wUnary at hw
  split at hg
  · -- a signed operand
    rename_i op x
    simp only [Bool.and_eq_true] at hw
    obtain ⟨r, ks, hx⟩ := tNonArith_node hN recT recW Hrec x
    simp only [size_nd, sizeL_cons', size_lf, sizeL_nil'] at hg
    obtain ⟨g', rfl⟩ : ∃ g', g = g' + 2 := ⟨g - 2, by omega⟩
    have hk := bExpr_tNonArith hN recT recW Hrec x g' hw.2 (by omega)
    have hop : arithOps.contains op = true := by
      have := hw.1; simp [addOps] at this; rcases this with rfl | rfl <;> decide
    have hb := goBlank_arith op hop
    rw [show g' + 2 = (g' + 1) + 1 from rfl, bExpr]
    rw [hx] at hk ⊢
    have hmem : op ∈ arithOps := by simpa using hop
    have hsp := spText_arith op hop
    bsimp [bArith, opTokens, hb, hsp, hmem, hk, Except.map]
  · -- unit
    rename_i hne
    obtain ⟨r, ks, hx⟩ := tNonArith_node hN recT recW Hrec e
    simp only [size_nd, sizeL_cons', sizeL_nil'] at hg
    obtain ⟨g', rfl⟩ : ∃ g', g = g' + 2 := ⟨g - 2, by omega⟩
    have hw' : wNonArith recW e = true := by
      split at hw
      · rename_i op x; exact absurd rfl (hne op x)
      · exact hw
    rw [hx, bArith_unit hN _ (by decide), ← hx]
    exact bExpr_tNonArith hN recT recW Hrec e g' hw' (by omega)

theorem subOK_unary : SubOK (N := N) (tUnary N recT) (wUnary recW) :=
  ⟨fun x g hw hg => bExpr_tUnary hN recT recW Hrec x g hw hg, tUnary_node hN recT recW Hrec⟩

end Levels

/-- one level of the tower, generically -/
theorem subOK_level (rule : String) (hr : arithRules.contains rule = true) (own : String → Bool)
    (hown : ∀ op, own op = true → arithOps.contains op = true)
    (sub : Expr → Tree) (wsub : Expr → Bool) (H : SubOK (N := N) sub wsub) :
    SubOK (N := N) (tLevel N rule own sub) (wLevel own wsub) := by
  constructor
  · intro e g hw hg
    unfold tLevel at hg ⊢
    unfold wLevel at hw
    split at hg
    · rename_i l op r ps
      by_cases ho : own op = true
      · simp only [ho, if_true, Bool.and_eq_true, List.all_eq_true] at hw hg ⊢
        exact bArith_proper hN rule hr sub wsub H l ((op, r) :: ps) (by simp)
          (fun p hp => hown p.1 (hw.1 p hp).1) hw.2 (fun p hp => (hw.1 p hp).2) g hg
      · simp only [ho, Bool.false_eq_true, if_false] at hw hg ⊢
        obtain ⟨rr', ks, hx⟩ := H.node (.arith l ((op, r) :: ps))
        simp only [size_nd, sizeL_cons', sizeL_nil'] at hg
        obtain ⟨g', rfl⟩ : ∃ g', g = g' + 2 := ⟨g - 2, by omega⟩
        rw [hx, bArith_unit hN rule (by simp [towerRules]; right; simpa using hr), ← hx]
        exact H.ok _ g' hw (by omega)
    · rename_i hne
      obtain ⟨rr', ks, hx⟩ := H.node e
      simp only [size_nd, sizeL_cons', sizeL_nil'] at hg
      obtain ⟨g', rfl⟩ : ∃ g', g = g' + 2 := ⟨g - 2, by omega⟩
      have hw' : wsub e = true := by
        split at hw
        · rename_i l op r ps; exact absurd rfl (hne l op r ps)
        · exact hw
      rw [hx, bArith_unit hN rule (by simp [towerRules]; right; simpa using hr), ← hx]
      exact H.ok _ g' hw' (by omega)
  · intro e
    unfold tLevel
    split
    · split <;> exact ⟨_, _, rfl⟩
    · exact ⟨_, _, rfl⟩

theorem subOK_add (recT : Expr → Tree) (recW : Expr → Bool) (Hrec : RecOK N recT recW) :
    SubOK (N := N) (tAdd N recT) (wAdd recW) := by
  have hu := subOK_unary hN recT recW Hrec
  have hp : SubOK (N := N) (tPow N recT) (wPow recW) :=
    subOK_level hN "oC_PowerOfExpression" (by decide) (· == "^") (by intro op h; simp at h; subst h; decide) _ _ hu
  have hm : SubOK (N := N) (tMul N recT) (wMul recW) :=
    subOK_level hN "oC_MultiplyDivideModuloExpression" (by decide) mulOps.contains
      (by intro op h; simp [mulOps] at h; rcases h with rfl | rfl | rfl <;> decide) _ _ hp
  exact subOK_level hN "oC_AddOrSubtractExpression" (by decide) addOps.contains
      (by intro op h; simp [addOps] at h; rcases h with rfl | rfl <;> decide) _ _ hm

end Arith
end Dawgs.C07
