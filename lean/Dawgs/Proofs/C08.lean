import Dawgs.Model.C08
import Dawgs.Proofs.C09
set_option linter.unusedSectionVars false
set_option linter.unusedVariables false
namespace Dawgs.C08
open Dawgs.Grammar

/-! ### lookup lemmas -/

theorem acts_nil (V : Nat) : acts [] V = [] := by simp [acts]

theorem acts_not_mem {row : List (Nat × List Action)} {V : Nat} (h : V ∉ row.map (·.1)) : acts row V = [] := by
  unfold acts
  have : row.find? (fun e => e.1 == V) = none := by
    apply List.find?_eq_none.2
    intro e he hc
    apply h
    have : e.1 = V := by simpa using hc
    exact List.mem_map.2 ⟨e, he, this⟩
  rw [this]

theorem pairOK_nil : pairOK [] [] = true := rfl

theorem getD_ge {α} (l : List α) (d : α) {i : Nat} (h : l.length ≤ i) : l.getD i d = d := by
  rw [List.getD_eq_getElem?_getD, List.getElem?_eq_none h]; rfl

/-- the bounded table check gives the pairing for every visitor type and every rule index -/
theorem balanced_all {T : Tables} (hb : T.balanced = true) (V r : Nat) :
    pairOK (T.enterActs V r) (T.exitActs V r) = true := by
  unfold Tables.enterActs Tables.exitActs
  by_cases hr : r < max T.enter.length T.exit.length
  · have hrow := (List.all_eq_true.1 hb) r (List.mem_range.2 hr)
    unfold rowOK at hrow
    by_cases hV : V ∈ (T.enter.getD r []).map (·.1) ++ (T.exit.getD r []).map (·.1)
    · exact (List.all_eq_true.1 hrow) V hV
    · have h1 : V ∉ (T.enter.getD r []).map (·.1) := fun h => hV (List.mem_append_left _ h)
      have h2 : V ∉ (T.exit.getD r []).map (·.1) := fun h => hV (List.mem_append_right _ h)
      rw [acts_not_mem h1, acts_not_mem h2]; rfl
  · have h1 : T.enter.length ≤ r := by omega
    have h2 : T.exit.length ≤ r := by omega
    rw [getD_ge _ _ h1, getD_ge _ _ h2, acts_nil]; rfl

theorem filters_inert_all {T : Tables} (hf : T.filtersInert = true) {f : Nat} (hmem : f ∈ T.filters) (r : Nat) :
    T.enterActs f r = [] := by
  unfold Tables.enterActs
  have h1 := (List.all_eq_true.1 hf) f hmem
  by_cases hr : r < T.enter.length
  · have hrow : T.enter.getD r [] ∈ T.enter := by
      rw [List.getD_eq_getElem?_getD, List.getElem?_eq_getElem hr]; simp
    have := (List.all_eq_true.1 h1) _ hrow
    simpa using this
  · rw [getD_ge _ _ (by omega), acts_nil]

/-! ### single steps -/

section Steps
variable (T : Tables)

theorem runActions_nil (kids : List Tree) (st : St) : T.runActions kids st [] = .ok st := rfl

theorem runActions_single (kids : List Tree) (st : St) (a : Action) :
    T.runActions kids st [a] = T.runAction kids st a := by
  simp only [Tables.runActions]
  cases h : T.runAction kids st a <;> simp

/-- filters that never touch the stack only cost one callback each -/
theorem runFilters_inert (r : Nat) (kids : List Tree) :
    ∀ (fs : List Nat) (st : St), (∀ f ∈ fs, T.enterActs f r = []) →
      T.runFilters r kids st fs = .ok { stack := st.stack, rootSet := st.rootSet, steps := st.steps + fs.length }
  | [], st, _ => by simp [Tables.runFilters]
  | f :: fs, st, h => by
    have hf : T.enterActs f r = [] := h f (by simp)
    simp only [Tables.runFilters, hf, Tables.runActions]
    rw [runFilters_inert r kids fs _ (fun g hg => h g (by simp [hg]))]
    simp; omega

/-- result of Enter on a frame `(V,d)`: what the stack looks like afterwards and what the matching Exit will do -/
theorem enter_exit_spec (hb : ∀ V r, pairOK (T.enterActs V r) (T.exitActs V r) = true)
    (hf : ∀ f ∈ T.filters, ∀ r, T.enterActs f r = [])
    (r : Nat) (kids : List Tree) (st : St) (V : Nat) (d : Int) (rest : List Frame)
    (hst : st.stack = (V, d) :: rest) (hd : 0 ≤ d) :
    ∃ st1, T.enterRule r kids st = .ok st1 ∧
      (st.rootSet = true → st1.rootSet = true) ∧
      ((V = T.root ∧ T.setsRoot r = true) → st1.rootSet = true) ∧
      st1.steps ≤ st.steps + T.filters.length + 2 ∧
      (∃ top, st1.stack = top ++ (V, d + 1) :: rest ∧ (top = [] ∨ ∃ W, top = [(W, 0)]) ∧
        (T.enterActs V r = [] → top = []) ∧
        ∀ st2 : St, st2.stack = top ++ (V, d + 1) :: rest →
          ∃ st3, T.exitRule r kids st2 = .ok st3 ∧ st3.stack = (V, d) :: rest ∧ st3.rootSet = st2.rootSet ∧
            st3.steps ≤ st2.steps + 2) := by
  have hfl := runFilters_inert T r kids T.filters st (fun f h => hf f h r)
  have hp := hb V r
  unfold Tables.enterRule
  rw [hfl]
  simp only [hst]
  have hd1 : d + 1 ≠ 0 := by omega
  -- case analysis on the (balanced) method pair
  generalize he : T.enterActs V r = ea at hp
  generalize hx : T.exitActs V r = xa at hp
  unfold pairOK at hp
  split at hp
  · -- no action on either side
    refine ⟨_, rfl, ?_, ?_, ?_, [], rfl, Or.inl rfl, fun _ => rfl, ?_⟩
    · intro h; simp [h]
    · intro h; simp [h.1, h.2]
    · simp <;> omega
    · intro st2 h2
      unfold Tables.exitRule
      simp only [h2, List.nil_append, if_neg hd1, hx, Tables.runActions]
      refine ⟨_, rfl, ?_, rfl, ?_⟩
      · simp
      · simp
  · -- push W under g / pop under g
    rename_i W g a g'
    have hg : g = g' := by
      have := (Bool.and_eq_true_iff.1 hp).1
      simpa using this
    have ha : a = none ∨ a = some W := by
      have := (Bool.and_eq_true_iff.1 hp).2
      simpa using this
    subst hg
    rw [runActions_single]
    unfold Tables.runAction
    by_cases hgv : T.evalGuard g kids = true
    · -- guard holds: pushed
      simp only [hgv, if_true]
      refine ⟨_, rfl, ?_, ?_, ?_, [(W, 0)], ?_, Or.inr ⟨W, rfl⟩, ?_, ?_⟩
      · intro h; simp [h]
      · intro h; simp [h.1, h.2]
      · simp <;> omega
      · simp
      · intro h; cases h
      · intro st2 h2
        unfold Tables.exitRule
        simp only [h2, List.cons_append, List.nil_append, if_true, hx]
        rw [runActions_single]
        unfold Tables.runAction
        simp only [hgv, if_true, Bool.false_eq_true, if_false]
        rcases ha with ha | ha
        · subst ha
          refine ⟨_, rfl, ?_, rfl, ?_⟩
          · simp
          · simp
        · subst ha
          simp only [if_true]
          refine ⟨_, rfl, ?_, rfl, ?_⟩
          · simp
          · simp
    · -- guard fails on both sides
      have hgf : T.evalGuard g kids = false := by simpa using hgv
      simp only [hgf, Bool.false_eq_true, if_false]
      refine ⟨_, rfl, ?_, ?_, ?_, [], rfl, Or.inl rfl, fun _ => rfl, ?_⟩
      · intro h; simp [h]
      · intro h; simp [h.1, h.2]
      · simp <;> omega
      · intro st2 h2
        unfold Tables.exitRule
        simp only [h2, List.nil_append, if_neg hd1, hx]
        rw [runActions_single]
        unfold Tables.runAction
        simp only [hgf, Bool.false_eq_true, if_false]
        refine ⟨_, rfl, ?_, rfl, ?_⟩
        · simp
        · simp
  · cases hp

end Steps

theorem size_node (r : Nat) (kids : List Tree) : size (.node r kids) = 1 + sizeL kids := by simp [size]
theorem sizeL_cons (t : Tree) (ts : List Tree) : sizeL (t :: ts) = size t + sizeL ts := by simp [sizeL]
theorem size_pos : ∀ t : Tree, 0 < size t
  | .node _ _ => by rw [size_node]; omega
  | .leaf _ => by simp [size]
  | .err _ => by simp [size]

/-! ### the walk never panics, restores the stack, costs linear work -/

section Walk
variable (T : Tables)
  (hb : ∀ V r, pairOK (T.enterActs V r) (T.exitActs V r) = true)
  (hf : ∀ f ∈ T.filters, ∀ r, T.enterActs f r = [])
include hb hf

mutual
theorem walk_ok : ∀ (t : Tree) (st : St) (V : Nat) (d : Int) (rest : List Frame),
    st.stack = (V, d) :: rest → 0 ≤ d →
    ∃ st', T.walk t st = .ok st' ∧ st'.stack = st.stack ∧ (st.rootSet = true → st'.rootSet = true) ∧
      st'.steps ≤ st.steps + (T.filters.length + 4) * size t
  | .node r kids, st, V, d, rest, hst, hd => by
    obtain ⟨st1, he, hroot1, _, hsteps1, top, hstack1, htop, _, hexit⟩ := enter_exit_spec T hb hf r kids st V d rest hst hd
    -- children run on the new top frame
    have hkids : ∃ st2, T.walkL kids st1 = .ok st2 ∧ st2.stack = st1.stack ∧ (st1.rootSet = true → st2.rootSet = true) ∧
        st2.steps ≤ st1.steps + (T.filters.length + 4) * sizeL kids := by
      rcases htop with h | ⟨W, h⟩
      · subst h
        exact walkL_ok kids st1 V (d + 1) rest (by simpa using hstack1) (by omega)
      · subst h
        exact walkL_ok kids st1 W 0 ((V, d + 1) :: rest) (by simpa using hstack1) (by omega)
    obtain ⟨st2, hw, hstack2, hroot2, hsteps2⟩ := hkids
    obtain ⟨st3, hx, hstack3, hroot3, hsteps3⟩ := hexit st2 (by rw [hstack2, hstack1])
    refine ⟨st3, ?_, ?_, ?_, ?_⟩
    · simp only [Tables.walk, he, hw, hx]
    · rw [hstack3, hst]
    · intro h; rw [hroot3]; exact hroot2 (hroot1 h)
    · rw [size_node]
      have : (T.filters.length + 4) * (1 + sizeL kids) = (T.filters.length + 4) + (T.filters.length + 4) * sizeL kids := by
        rw [Nat.mul_add, Nat.mul_one]
      omega
  | .leaf s, st, V, d, rest, hst, _ => by
    refine ⟨{ stack := st.stack, rootSet := st.rootSet, steps := st.steps + 1 }, ?_, rfl, fun h => h, ?_⟩
    · simp [Tables.walk, visitLeaf, hst]
    · simp only [size]
      have : 1 ≤ (T.filters.length + 4) * 1 := by omega
      omega
  | .err s, st, V, d, rest, hst, _ => by
    refine ⟨{ stack := st.stack, rootSet := st.rootSet, steps := st.steps + 1 }, ?_, rfl, fun h => h, ?_⟩
    · simp [Tables.walk, visitLeaf, hst]
    · simp only [size]
      have : 1 ≤ (T.filters.length + 4) * 1 := by omega
      omega
theorem walkL_ok : ∀ (ts : List Tree) (st : St) (V : Nat) (d : Int) (rest : List Frame),
    st.stack = (V, d) :: rest → 0 ≤ d →
    ∃ st', T.walkL ts st = .ok st' ∧ st'.stack = st.stack ∧ (st.rootSet = true → st'.rootSet = true) ∧
      st'.steps ≤ st.steps + (T.filters.length + 4) * sizeL ts
  | [], st, _, _, _, _, _ => ⟨st, by simp [Tables.walkL], rfl, fun h => h, by simp [sizeL]⟩
  | t :: ts, st, V, d, rest, hst, hd => by
    obtain ⟨st1, h1, hs1, hr1, hc1⟩ := walk_ok t st V d rest hst hd
    obtain ⟨st2, h2, hs2, hr2, hc2⟩ := walkL_ok ts st1 V d rest (by rw [hs1, hst]) hd
    refine ⟨st2, ?_, ?_, ?_, ?_⟩
    · simp only [Tables.walkL, h1, h2]
    · rw [hs2, hs1]
    · intro h; exact hr2 (hr1 h)
    · rw [sizeL_cons, Nat.mul_add]; omega
end

/-! ### the result field is assigned when a root-visitor chain reaches an assigning rule -/
mutual
theorem reaches_sets : ∀ (t : Tree) (st : St) (d : Int) (rest : List Frame),
    st.stack = (T.root, d) :: rest → 0 ≤ d → T.reaches t = true →
    ∀ st', T.walk t st = .ok st' → st'.rootSet = true
  | .node r kids, st, d, rest, hst, hd, hreach, st', hwalk => by
    obtain ⟨st1, he, _, hsets, _, top, hstack1, htop, hnopush, hexit⟩ := enter_exit_spec T hb hf r kids st T.root d rest hst hd
    have hkids : ∃ st2, T.walkL kids st1 = .ok st2 ∧ st2.stack = st1.stack ∧ (st1.rootSet = true → st2.rootSet = true) := by
      rcases htop with h | ⟨W, h⟩
      · subst h
        obtain ⟨s, a, b, c, _⟩ := walkL_ok T hb hf kids st1 T.root (d + 1) rest (by simpa using hstack1) (by omega)
        exact ⟨s, a, b, c⟩
      · subst h
        obtain ⟨s, a, b, c, _⟩ := walkL_ok T hb hf kids st1 W 0 ((T.root, d + 1) :: rest) (by simpa using hstack1) (by omega)
        exact ⟨s, a, b, c⟩
    obtain ⟨st2, hw, hstack2, hroot2⟩ := hkids
    obtain ⟨st3, hx, _, hroot3, _⟩ := hexit st2 (by rw [hstack2, hstack1])
    have hst3 : st' = st3 := by
      simp only [Tables.walk, he, hw, hx] at hwalk
      exact (Except.ok.inj hwalk).symm
    subst hst3
    rw [hroot3]
    simp only [Tables.reaches, Bool.or_eq_true, Bool.and_eq_true] at hreach
    rcases hreach with hs | ⟨hempty, hl⟩
    · exact hroot2 (hsets ⟨rfl, hs⟩)
    · have hnil : T.enterActs T.root r = [] := by simpa using hempty
      have htop' := hnopush hnil
      subst htop'
      exact reachesL_sets kids st1 (d + 1) rest (by simpa using hstack1) (by omega) hl st2 hw
  | .leaf _, _, _, _, _, _, hreach, _, _ => by simp [Tables.reaches] at hreach
  | .err _, _, _, _, _, _, hreach, _, _ => by simp [Tables.reaches] at hreach
theorem reachesL_sets : ∀ (ts : List Tree) (st : St) (d : Int) (rest : List Frame),
    st.stack = (T.root, d) :: rest → 0 ≤ d → T.reachesL ts = true →
    ∀ st', T.walkL ts st = .ok st' → st'.rootSet = true
  | [], _, _, _, _, _, hreach, _, _ => by simp [Tables.reachesL] at hreach
  | t :: ts, st, d, rest, hst, hd, hreach, st', hwalk => by
    obtain ⟨st1, h1, hs1, _, _⟩ := walk_ok T hb hf t st T.root d rest hst hd
    obtain ⟨st2, h2, _, hr2, _⟩ := walkL_ok T hb hf ts st1 T.root d rest (by rw [hs1, hst]) hd
    have : st' = st2 := by
      simp only [Tables.walkL, h1, h2] at hwalk
      exact (Except.ok.inj hwalk).symm
    subst this
    simp only [Tables.reachesL, Bool.or_eq_true] at hreach
    rcases hreach with h | h
    · exact hr2 (reaches_sets t st d rest hst hd h st1 h1)
    · exact reachesL_sets ts st1 d rest (by rw [hs1, hst]) hd h st' h2
end
end Walk

/-! ### a forced chain of rules from the root reaches the assignment of the result -/

theorem conformsL_mem {must : List (List (List Nat))} : ∀ {ks : List Tree} {k : Tree}, conformsL must ks = true → k ∈ ks → k.conforms must = true
  | [], _, _, h => by cases h
  | t :: ts, k, hc, h => by
    simp only [conformsL, Bool.and_eq_true] at hc
    rcases List.mem_cons.1 h with h | h
    · subst h; exact hc.1
    · exact conformsL_mem hc.2 h

theorem rulesL_mem : ∀ {ks : List Tree} {k : Tree} {x : Nat}, k ∈ ks → x ∈ k.rules → x ∈ rulesL ks
  | [], _, _, h, _ => by cases h
  | t :: ts, k, x, h, hx => by
    rw [Dawgs.C09.rulesL_cons]
    rcases List.mem_cons.1 h with h | h
    · subst h; exact List.mem_append_left _ hx
    · exact List.mem_append_right _ (rulesL_mem h hx)

theorem reachesL_mem (T : Tables) : ∀ {ks : List Tree} {k : Tree}, k ∈ ks → T.reaches k = true → T.reachesL ks = true
  | [], _, h, _ => by cases h
  | t :: ts, k, h, hr => by
    simp only [Tables.reachesL, Bool.or_eq_true]
    rcases List.mem_cons.1 h with h | h
    · subst h; exact Or.inl hr
    · exact Or.inr (reachesL_mem T h hr)

theorem reaches_of_chain (T : Tables) (direct : Nat → Bool) (must : List (List (List Nat))) :
    ∀ (path : List Nat) (t : Tree), T.chainOK direct must path = true → t.rootRule = path.head? →
      t.conforms must = true → (∀ x ∈ t.rules, direct x = false) → T.reaches t = true
  | [], _, h, _, _, _ => by simp [Tables.chainOK] at h
  | [r], t, h, hroot, _, _ => by
    cases t with
    | node r' kids =>
      simp [Tree.rootRule] at hroot; subst hroot
      simp only [Tables.chainOK] at h
      simp [Tables.reaches, h]
    | leaf _ => simp [Tree.rootRule] at hroot
    | err _ => simp [Tree.rootRule] at hroot
  | p :: c :: rest, t, h, hroot, hconf, hnd => by
    cases t with
    | leaf _ => simp [Tree.rootRule] at hroot
    | err _ => simp [Tree.rootRule] at hroot
    | node r' kids =>
      simp [Tree.rootRule] at hroot; subst hroot
      simp only [Tables.chainOK, Bool.and_eq_true] at h
      obtain ⟨⟨hempty, hclause⟩, hrest⟩ := h
      obtain ⟨clause, hcl, hall⟩ := List.any_eq_true.1 hclause
      simp only [Tree.conforms, Bool.and_eq_true] at hconf
      have hok := (List.all_eq_true.1 hconf.1) clause hcl
      obtain ⟨k, hk, hkc⟩ := List.any_eq_true.1 hok
      cases hrr : k.rootRule with
      | none => simp [hrr] at hkc
      | some x =>
        simp only [hrr] at hkc
        have hxmem : x ∈ clause := by simpa using hkc
        have hxrules : x ∈ (Tree.node r' kids).rules := by
          rw [Dawgs.C09.rules_node]; exact List.mem_cons_of_mem _ (Dawgs.C09.root_mem_rulesL hk hrr)
        have hxd := hnd x hxrules
        have hx := (List.all_eq_true.1 hall) x hxmem
        have hxc : x = c := by
          rcases Bool.or_eq_true_iff.1 hx with h1 | h1
          · simpa using h1
          · rw [hxd] at h1; cases h1
        subst hxc
        have hkreach : T.reaches k = true :=
          reaches_of_chain T direct must (x :: rest) k hrest (by simpa using hrr) (conformsL_mem hconf.2 hk)
            (fun y hy => hnd y (by rw [Dawgs.C09.rules_node]; exact List.mem_cons_of_mem _ (rulesL_mem hk hy)))
        simp only [Tables.reaches, Bool.or_eq_true, Bool.and_eq_true]
        exact Or.inr ⟨hempty, reachesL_mem T hk hkreach⟩

/-! ### Go's TrimSpace of an all-space string is empty -/
theorem blank_of_all_space (s : String) (h : ∀ c ∈ s.toList, goIsSpace c = true) : blankInput s = true := by
  unfold blankInput goBlank
  exact List.all_eq_true.2 h

end Dawgs.C08
