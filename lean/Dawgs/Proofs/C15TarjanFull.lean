/- C15: full correctness of the transcribed iterative Tarjan: its output passes the certificate checker
(each emitted component strongly connected, every edge goes to the same or an earlier-emitted component).
Helper lemmas; the statement is `tarjan_correct` in Props/C15.lean. -/
import Dawgs.Proofs.C15Tarjan
set_option linter.unusedSimpArgs false
set_option linter.unusedVariables false
set_option linter.unusedSectionVars false
namespace Dawgs.C15

/-- the Tarjan stack seen as frames: for each dfs cursor (top first) the finished nodes that lie above it -/
def joinFrames : List Cur → List (List Nat) → List Nat
  | c :: cs, S :: Ss => S ++ c.id :: joinFrames cs Ss
  | _, _ => []

def FramesAll (P : Cur → List Nat → Prop) : List Cur → List (List Nat) → Prop
  | c :: cs, S :: Ss => P c S ∧ FramesAll P cs Ss
  | [], [] => True
  | _, _ => False

def Chained (g : Digraph) : List Cur → Prop
  | c :: p :: rest => c.id ∈ g.outAdj p.id ∧ Chained g (p :: rest)
  | _ => True

theorem FramesAll.imp {P Q : Cur → List Nat → Prop} {cs : List Cur} {Ss : List (List Nat)}
    (h : ∀ c S, c ∈ cs → S ∈ Ss → P c S → Q c S) (hp : FramesAll P cs Ss) : FramesAll Q cs Ss := by
  induction cs generalizing Ss with
  | nil => cases Ss with
    | nil => trivial
    | cons S Ss => exact hp
  | cons c cs ih => cases Ss with
    | nil => exact hp
    | cons S Ss =>
      exact ⟨h c S (by simp) (by simp) hp.1,
        ih (fun c' S' hc hS => h c' S' (List.mem_cons_of_mem _ hc) (List.mem_cons_of_mem _ hS)) hp.2⟩

theorem mem_joinFrames_id {cs : List Cur} {Ss : List (List Nat)} (hf : FramesAll (fun _ _ => True) cs Ss) {c : Cur}
    (hc : c ∈ cs) : c.id ∈ joinFrames cs Ss := by
  induction cs generalizing Ss with
  | nil => simp at hc
  | cons c' cs ih => cases Ss with
    | nil => exact hf.elim
    | cons S Ss =>
      simp only [joinFrames, List.mem_append, List.mem_cons]
      rcases List.mem_cons.1 hc with rfl | hc
      · exact Or.inr (Or.inl rfl)
      · exact Or.inr (Or.inr (ih hf.2 hc))

theorem mem_joinFrames_seg {cs : List Cur} {Ss : List (List Nat)} (hf : FramesAll (fun _ _ => True) cs Ss) {S : List Nat}
    (hS : S ∈ Ss) {u : Nat} (hu : u ∈ S) : u ∈ joinFrames cs Ss := by
  induction cs generalizing Ss with
  | nil => cases Ss with
    | nil => simp at hS
    | cons S' Ss => exact hf.elim
  | cons c' cs ih => cases Ss with
    | nil => simp at hS
    | cons S' Ss =>
      simp only [joinFrames, List.mem_append, List.mem_cons]
      rcases List.mem_cons.1 hS with rfl | hS
      · exact Or.inl hu
      · exact Or.inr (Or.inr (ih hf.2 hS))

/-- two elements of a pairwise-related list are equal or related one way or the other -/
theorem pairwise_trichotomy {R : Nat → Nat → Prop} {l : List Nat} (h : l.Pairwise R) {a b : Nat} (ha : a ∈ l) (hb : b ∈ l) :
    a = b ∨ R a b ∨ R b a := by
  induction l with
  | nil => simp at ha
  | cons x l ih =>
    rw [List.pairwise_cons] at h
    rcases List.mem_cons.1 ha with e1 | ha'
    · rcases List.mem_cons.1 hb with e2 | hb'
      · exact Or.inl (e1.trans e2.symm)
      · exact Or.inr (Or.inl (e1 ▸ h.1 b hb'))
    · rcases List.mem_cons.1 hb with e2 | hb'
      · exact Or.inr (Or.inr (e2 ▸ h.1 a ha'))
      · exact ih h.2 ha' hb'

structure FullInv (g : Digraph) (segs : List (List Nat)) (st : TState) : Prop where
  stack_eq : st.stack = joinFrames st.dfs segs
  frames_ok : FramesAll (fun _ _ => True) st.dfs segs
  sorted : st.stack.Pairwise (fun a b => lookupD st.disc b < lookupD st.disc a)
  below_idx : ∀ v, v ∈ st.stack → lookupD st.disc v < st.index
  br_eq : ∀ c, c ∈ st.dfs → c.branches = g.outAdj c.id
  cur_seen : ∀ c, c ∈ st.dfs → ∀ v, v ∈ c.branches.take c.branchIdx → seen st.disc v
  fin_seen : ∀ S, S ∈ segs → ∀ u, u ∈ S → ∀ v, v ∈ g.outAdj u → seen st.disc v
  cur_low : ∀ c, c ∈ st.dfs → ∀ v, v ∈ c.branches.take c.branchIdx → v ∈ st.stack →
    lookupD st.low c.id ≤ lookupD st.disc v
  fin_low : ∀ S, S ∈ segs → ∀ u, u ∈ S → ∀ v, v ∈ g.outAdj u → v ∈ st.stack →
    lookupD st.low u ≤ lookupD st.disc v
  seg_low : FramesAll (fun c S => ∀ u, u ∈ S → lookupD st.low c.id ≤ lookupD st.low u) st.dfs segs
  seg_reach : FramesAll (fun c S => ∀ u, u ∈ S → Reach g.outAdj c.id u) st.dfs segs
  chained : Chained g st.dfs
  low_wit : ∀ w, w ∈ st.stack → ∃ v, v ∈ st.stack ∧ lookupD st.disc v = lookupD st.low w ∧ Reach g.outAdj w v
  fin_lt : ∀ S, S ∈ segs → ∀ u, u ∈ S → lookupD st.low u < lookupD st.disc u
  comp_strong : ∀ C, C ∈ st.comps → ∃ r, r ∈ C ∧ ∀ u, u ∈ C → Reach g.outAdj r u ∧ Reach g.outAdj u r
  comp_order : ∀ u, u ∈ st.comps.flatten → ∀ v, g.hasEdge u v = true → v ∈ g.nodes →
    ∃ i j, compIndexOf st.comps u = some i ∧ compIndexOf st.comps v = some j ∧ j ≤ i

theorem lookupD_cons_ne {k v : Nat} {m : List (Nat × Nat)} {x : Nat} (h : k ≠ x) : lookupD ((k, v) :: m) x = lookupD m x := by
  rw [lookupD_cons, if_neg h]

theorem lookupD_cons_self (k v : Nat) (m : List (Nat × Nat)) : lookupD ((k, v) :: m) k = v := by
  rw [lookupD_cons, if_pos rfl]

theorem chained_replace_top {g : Digraph} {c c' : Cur} {rest : List Cur} (he : c'.id = c.id)
    (h : Chained g (c :: rest)) : Chained g (c' :: rest) := by
  cases rest with
  | nil => trivial
  | cons p r => exact ⟨he ▸ h.1, h.2⟩

theorem chained_tail {g : Digraph} {c : Cur} {rest : List Cur} (h : Chained g (c :: rest)) : Chained g rest := by
  cases rest with
  | nil => trivial
  | cons p r => exact h.2

section FullStep
variable {g : Digraph} {base start : Nat}

/-- descending into an undiscovered neighbour -/
theorem fullInv_push {index : Nat} {disc low : List (Nat × Nat)} {onStack stack : List Nat} {cur : Cur}
    {rest : List Cur} {comps : List (List Nat)} {n2c : List (Nat × Nat)} {nb : Nat} {S : List Nat} {Ss : List (List Nat)}
    (h : RunInv g base start ⟨index, disc, low, onStack, stack, cur :: rest, comps, n2c⟩)
    (f : FullInv g (S :: Ss) ⟨index, disc, low, onStack, stack, cur :: rest, comps, n2c⟩)
    (hn : cur.branches[cur.branchIdx]? = some nb) (hd : lookup disc nb = none) :
    FullInv g ([] :: S :: Ss) (tarjanPush ⟨index, disc, low, onStack, stack,
      { id := nb, branches := g.outAdj nb, branchIdx := 0 } :: { cur with branchIdx := cur.branchIdx + 1 } :: rest, comps, n2c⟩ nb) := by
  have hns : ¬ seen disc nb := not_seen_of_none hd
  have hnst : nb ∉ stack := fun hm => hns ((h.disc_iff nb).2 (Or.inl hm))
  have hne : ∀ v, v ∈ stack → nb ≠ v := fun v hv e => hnst (e ▸ hv)
  have hseq := f.stack_eq
  have hbi := f.below_idx
  have hlowle := h.low_le
  simp only at hseq hbi hlowle
  have hcur_st : cur.id ∈ stack := h.ids_sub.subset (by simp [ids])
  have hbr : cur.branches = g.outAdj cur.id := f.br_eq cur (by simp)
  have hnb_adj : nb ∈ g.outAdj cur.id := hbr ▸ getElem?_mem hn
  -- every stack element's low is below the fresh discovery index
  have hfresh : ∀ u, u ∈ stack → lookupD low u ≤ index := fun u hu => by
    have := hlowle u hu; have := hbi u hu; omega
  have hframes_in : ∀ S', S' ∈ S :: Ss → ∀ u, u ∈ S' → u ∈ stack := fun S' hS' u hu => by
    rw [hseq]; exact mem_joinFrames_seg f.frames_ok hS' hu
  have hcur_in : ∀ c, c ∈ cur :: rest → c.id ∈ stack := fun c hc => by
    rw [hseq]; exact mem_joinFrames_id f.frames_ok hc
  refine ⟨?_, ⟨trivial, f.frames_ok⟩, ?_, ?_, ?_, ?_, ?_, ?_, ?_, ?_, ?_, ?_, ?_, ?_, f.comp_strong, f.comp_order⟩
  · show nb :: stack = [] ++ nb :: joinFrames ({ cur with branchIdx := cur.branchIdx + 1 } :: rest) (S :: Ss)
    rw [hseq]; rfl
  · show (nb :: stack).Pairwise (fun a b => lookupD ((nb, index) :: disc) b < lookupD ((nb, index) :: disc) a)
    rw [List.pairwise_cons]
    refine ⟨fun b hb => ?_, ?_⟩
    · rw [lookupD_cons_self, lookupD_cons_ne (hne b hb)]; exact hbi b hb
    · exact f.sorted.imp_of_mem (fun {a b} ha hb hab => by
        rw [lookupD_cons_ne (hne a ha), lookupD_cons_ne (hne b hb)]; exact hab)
  · intro v hv
    have hv' : v ∈ nb :: stack := hv
    show lookupD ((nb, index) :: disc) v < index + 1
    rcases List.mem_cons.1 hv' with rfl | hv'
    · rw [lookupD_cons_self]; omega
    · rw [lookupD_cons_ne (hne v hv')]; have := hbi v hv'; omega
  · intro c hc
    simp [tarjanPush] at hc
    rcases hc with rfl | rfl | hc
    · rfl
    · exact hbr
    · exact f.br_eq c (by simp [hc])
  · intro c hc v hv
    show seen ((nb, index) :: disc) v
    rw [seen_cons]
    simp [tarjanPush] at hc
    rcases hc with rfl | rfl | hc
    · simp at hv
    · rcases mem_take_succ hn hv with h1 | rfl
      · exact Or.inr (f.cur_seen cur (by simp) v h1)
      · exact Or.inl rfl
    · exact Or.inr (f.cur_seen c (by simp [hc]) v hv)
  · intro S' hS' u hu v hv
    show seen ((nb, index) :: disc) v
    rw [seen_cons]
    rcases List.mem_cons.1 hS' with rfl | hS'
    · simp at hu
    · exact Or.inr (f.fin_seen S' hS' u hu v hv)
  · intro c hc v hv hvs
    have hvs' : v ∈ nb :: stack := hvs
    show lookupD ((nb, index) :: low) c.id ≤ lookupD ((nb, index) :: disc) v
    simp [tarjanPush] at hc
    rcases hc with rfl | rfl | hc
    · simp at hv
    · rw [lookupD_cons_ne (hne _ hcur_st)]
      rcases List.mem_cons.1 hvs' with e | hvs2
      · rw [e, lookupD_cons_self]; exact hfresh _ hcur_st
      · rw [lookupD_cons_ne (hne v hvs2)]
        rcases mem_take_succ hn hv with h1 | e2
        · exact f.cur_low cur (by simp) v h1 hvs2
        · exact absurd (e2 ▸ hvs2) hnst
    · have hcs := hcur_in c (by simp [hc])
      rw [lookupD_cons_ne (hne _ hcs)]
      rcases List.mem_cons.1 hvs' with rfl | hvs'
      · rw [lookupD_cons_self]; exact hfresh _ hcs
      · rw [lookupD_cons_ne (hne v hvs')]
        exact f.cur_low c (by simp [hc]) v hv hvs'
  · intro S' hS' u hu v hv hvs
    have hvs' : v ∈ nb :: stack := hvs
    show lookupD ((nb, index) :: low) u ≤ lookupD ((nb, index) :: disc) v
    rcases List.mem_cons.1 hS' with rfl | hS'
    · simp at hu
    · have hus := hframes_in S' hS' u hu
      rw [lookupD_cons_ne (hne _ hus)]
      rcases List.mem_cons.1 hvs' with rfl | hvs'
      · rw [lookupD_cons_self]; exact hfresh _ hus
      · rw [lookupD_cons_ne (hne v hvs')]
        exact f.fin_low S' hS' u hu v hv hvs'
  · have hsl : FramesAll (fun c S => ∀ u, u ∈ S → lookupD ((nb, index) :: low) c.id ≤ lookupD ((nb, index) :: low) u)
        (cur :: rest) (S :: Ss) := by
      refine f.seg_low.imp (fun c S' hc hS' hp u hu => ?_)
      rw [lookupD_cons_ne (hne _ (hcur_in c hc)), lookupD_cons_ne (hne _ (hframes_in S' hS' u hu))]
      exact hp u hu
    exact ⟨fun u hu => by simp at hu, hsl.1, hsl.2⟩
  · exact ⟨fun u hu => by simp at hu, f.seg_reach.1, f.seg_reach.2⟩
  · exact ⟨hnb_adj, chained_replace_top (c := cur) rfl f.chained⟩
  · intro w hw
    have hw' : w ∈ nb :: stack := hw
    show ∃ v, v ∈ nb :: stack ∧ lookupD ((nb, index) :: disc) v = lookupD ((nb, index) :: low) w ∧ Reach g.outAdj w v
    rcases List.mem_cons.1 hw' with rfl | hw'
    · exact ⟨w, by simp, by rw [lookupD_cons_self, lookupD_cons_self], Reach.refl _⟩
    · obtain ⟨v, hv, he, hr⟩ := f.low_wit w hw'
      refine ⟨v, List.mem_cons_of_mem _ hv, ?_, hr⟩
      rw [lookupD_cons_ne (hne v hv), lookupD_cons_ne (hne w hw')]; exact he
  · intro S' hS' u hu
    show lookupD ((nb, index) :: low) u < lookupD ((nb, index) :: disc) u
    rcases List.mem_cons.1 hS' with rfl | hS'
    · simp at hu
    · have hus := hframes_in S' hS' u hu
      rw [lookupD_cons_ne (hne _ hus), lookupD_cons_ne (hne _ hus)]
      exact f.fin_lt S' hS' u hu

/-- the top cursor's id occurs nowhere else in the frames -/
theorem top_id_fresh {stack : List Nat} {cur : Cur} {rest : List Cur} {S : List Nat} {Ss : List (List Nat)}
    (hseq : stack = joinFrames (cur :: rest) (S :: Ss)) (hnd : stack.Nodup)
    (hok : FramesAll (fun _ _ => True) (cur :: rest) (S :: Ss)) :
    cur.id ∉ S ∧ cur.id ∉ joinFrames rest Ss ∧ (∀ u, u ∈ S → u ∉ joinFrames rest Ss) := by
  subst hseq
  simp only [joinFrames] at hnd
  rw [List.nodup_append] at hnd
  obtain ⟨_, h2, h3⟩ := hnd
  rw [List.nodup_cons] at h2
  exact ⟨fun hm => h3 _ hm _ (by simp) rfl, h2.1, fun u hu hm => h3 u hu u (by simp [hm]) rfl⟩

/-- processing an already discovered neighbour of the top cursor -/
theorem fullInv_advance {index : Nat} {disc low low' : List (Nat × Nat)} {onStack stack : List Nat} {cur : Cur}
    {rest : List Cur} {comps : List (List Nat)} {n2c : List (Nat × Nat)} {nb : Nat} {S : List Nat} {Ss : List (List Nat)}
    (h : RunInv g base start ⟨index, disc, low, onStack, stack, cur :: rest, comps, n2c⟩)
    (f : FullInv g (S :: Ss) ⟨index, disc, low, onStack, stack, cur :: rest, comps, n2c⟩)
    (hn : cur.branches[cur.branchIdx]? = some nb) (hseen : seen disc nb)
    (hkeep : ∀ x, x ≠ cur.id → lookupD low' x = lookupD low x)
    (hle : lookupD low' cur.id ≤ lookupD low cur.id)
    (hproc : nb ∈ stack → lookupD low' cur.id ≤ lookupD disc nb)
    (hwit : ∃ v, v ∈ stack ∧ lookupD disc v = lookupD low' cur.id ∧ Reach g.outAdj cur.id v) :
    FullInv g (S :: Ss) ⟨index, disc, low', onStack, stack, { cur with branchIdx := cur.branchIdx + 1 } :: rest, comps, n2c⟩ := by
  have hseq := f.stack_eq
  simp only at hseq
  have ⟨hf1, hf2, hf3⟩ := top_id_fresh hseq h.stack_nd f.frames_ok
  have hrest_ne : ∀ c, c ∈ rest → c.id ≠ cur.id := fun c hc e =>
    hf2 (e ▸ mem_joinFrames_id f.frames_ok.2 hc)
  have hseg_ne : ∀ S', S' ∈ S :: Ss → ∀ u, u ∈ S' → u ≠ cur.id := by
    intro S' hS' u hu e
    rcases List.mem_cons.1 hS' with rfl | hS'
    · exact hf1 (e ▸ hu)
    · exact hf2 (e ▸ mem_joinFrames_seg f.frames_ok.2 hS' hu)
  refine ⟨hseq, ⟨trivial, f.frames_ok.2⟩, f.sorted, f.below_idx, ?_, ?_, f.fin_seen, ?_, ?_, ?_, ⟨f.seg_reach.1, f.seg_reach.2⟩,
    chained_replace_top (c := cur) rfl f.chained, ?_, ?_, f.comp_strong, f.comp_order⟩
  · intro c hc
    simp at hc
    rcases hc with rfl | hc
    · exact f.br_eq cur (by simp)
    · exact f.br_eq c (by simp [hc])
  · intro c hc v hv
    simp at hc
    rcases hc with rfl | hc
    · rcases mem_take_succ hn hv with h1 | e
      · exact f.cur_seen cur (by simp) v h1
      · exact e ▸ hseen
    · exact f.cur_seen c (by simp [hc]) v hv
  · intro c hc v hv hvs
    simp at hc
    rcases hc with rfl | hc
    · show lookupD low' cur.id ≤ lookupD disc v
      rcases mem_take_succ hn hv with h1 | e
      · have := f.cur_low cur (by simp) v h1 hvs; simp only at this; omega
      · exact e ▸ hproc (e ▸ hvs)
    · show lookupD low' c.id ≤ lookupD disc v
      rw [hkeep _ (hrest_ne c hc)]
      exact f.cur_low c (by simp [hc]) v hv hvs
  · intro S' hS' u hu v hv hvs
    show lookupD low' u ≤ lookupD disc v
    rw [hkeep _ (hseg_ne S' hS' u hu)]
    exact f.fin_low S' hS' u hu v hv hvs
  · refine ⟨fun u hu => ?_, ?_⟩
    · show lookupD low' cur.id ≤ lookupD low' u
      rw [hkeep _ (hseg_ne S (by simp) u hu)]
      have := f.seg_low.1 u hu; simp only at this; omega
    · refine f.seg_low.2.imp (fun c S' hc hS' hp u hu => ?_)
      show lookupD low' c.id ≤ lookupD low' u
      rw [hkeep _ (hrest_ne c hc), hkeep _ (hseg_ne S' (List.mem_cons_of_mem _ hS') u hu)]
      exact hp u hu
  · intro w hw
    show ∃ v, v ∈ stack ∧ lookupD disc v = lookupD low' w ∧ Reach g.outAdj w v
    by_cases e : w = cur.id
    · subst e; exact hwit
    · rw [hkeep _ e]; exact f.low_wit w hw
  · intro S' hS' u hu
    show lookupD low' u < lookupD disc u
    rw [hkeep _ (hseg_ne S' hS' u hu)]
    exact f.fin_lt S' hS' u hu

theorem propagateLow_cons (low : List (Nat × Nat)) (p : Cur) (rest' : List Cur) (id : Nat) :
    (∀ x, x ≠ p.id → lookupD (propagateLow low (p :: rest') id) x = lookupD low x) ∧
    lookupD (propagateLow low (p :: rest') id) p.id ≤ lookupD low p.id ∧
    lookupD (propagateLow low (p :: rest') id) p.id ≤ lookupD low id ∧
    (lookupD (propagateLow low (p :: rest') id) p.id = lookupD low p.id ∨
     lookupD (propagateLow low (p :: rest') id) p.id = lookupD low id) := by
  unfold propagateLow
  simp only
  by_cases hc : lookupD low p.id > lookupD low id
  · rw [if_pos hc]
    refine ⟨fun x hx => lookupD_cons_ne (fun e => hx e.symm), ?_, ?_, Or.inr ?_⟩
    · rw [lookupD_cons_self]; omega
    · rw [lookupD_cons_self]; omega
    · rw [lookupD_cons_self]
  · rw [if_neg hc]
    exact ⟨fun _ _ => rfl, Nat.le_refl _, by omega, Or.inl rfl⟩

theorem propagateLow_nil (low : List (Nat × Nat)) (id : Nat) : propagateLow low [] id = low := rfl

/-- every node of the closing component reaches the component's root (the popped cursor) -/
theorem close_strong {disc low : List (Nat × Nat)} {S B : List Nat} {r : Nat}
    (hsorted : (S ++ r :: B).Pairwise (fun a b => lookupD disc b < lookupD disc a))
    (hroot : lookupD low r = lookupD disc r)
    (hseg : ∀ u, u ∈ S → lookupD low r ≤ lookupD low u)
    (hlt : ∀ u, u ∈ S → lookupD low u < lookupD disc u)
    (hwit : ∀ w, w ∈ S → ∃ v, v ∈ S ++ r :: B ∧ lookupD disc v = lookupD low w ∧ Reach g.outAdj w v) :
    ∀ u, u ∈ S → Reach g.outAdj u r := by
  rw [List.pairwise_append, List.pairwise_cons] at hsorted
  obtain ⟨_, ⟨hrB, _⟩, _⟩ := hsorted
  have key : ∀ n u, u ∈ S → lookupD disc u ≤ n → Reach g.outAdj u r := by
    intro n
    induction n with
    | zero =>
      intro u hu hn
      obtain ⟨v, hv, hdv, hr⟩ := hwit u hu
      have := hlt u hu; omega
    | succ n ih =>
      intro u hu hn
      obtain ⟨v, hv, hdv, hr⟩ := hwit u hu
      have h1 := hlt u hu
      have h2 := hseg u hu
      rcases List.mem_append.1 hv with hvS | hvB
      · exact hr.trans (ih v hvS (by omega))
      · rcases List.mem_cons.1 hvB with rfl | hvB
        · exact hr
        · have := hrB v hvB; omega
  exact fun u hu => key _ u hu (Nat.le_refl _)

theorem close_order {comps : List (List Nat)} {P : List Nat} (hPdisj : ∀ u, u ∈ P → u ∉ comps.flatten)
    (hold : ∀ u, u ∈ comps.flatten → ∀ v, g.hasEdge u v = true → v ∈ g.nodes →
      ∃ i j, compIndexOf comps u = some i ∧ compIndexOf comps v = some j ∧ j ≤ i)
    (hnew : ∀ u, u ∈ P → ∀ v, g.hasEdge u v = true → v ∈ g.nodes → v ∈ P ∨ v ∈ comps.flatten) :
    ∀ u, u ∈ (comps ++ [P]).flatten → ∀ v, g.hasEdge u v = true → v ∈ g.nodes →
      ∃ i j, compIndexOf (comps ++ [P]) u = some i ∧ compIndexOf (comps ++ [P]) v = some j ∧ j ≤ i := by
  intro u hu v he hv
  rw [List.flatten_append] at hu
  simp only [List.flatten_cons, List.flatten_nil, List.append_nil] at hu
  have inP : ∀ x, x ∈ P → compIndexOf (comps ++ [P]) x = some comps.length := by
    intro x hx
    rw [compIndexOf_append_single, compIndexOf_none_iff.2 (hPdisj x hx)]
    simp [hx]
  have inOld : ∀ x j, compIndexOf comps x = some j → compIndexOf (comps ++ [P]) x = some j ∧ j < comps.length := by
    intro x j hj
    rw [compIndexOf_append_single, hj]
    refine ⟨rfl, ?_⟩
    obtain ⟨A, hA, _⟩ := compIndexOf_get hj
    rcases Nat.lt_or_ge j comps.length with h' | h'
    · exact h'
    · rw [List.getElem?_eq_none h'] at hA; cases hA
  rcases List.mem_append.1 hu with hu | hu
  · obtain ⟨i, j, hi, hj, hji⟩ := hold u hu v he hv
    exact ⟨i, j, (inOld u i hi).1, (inOld v j hj).1, hji⟩
  · rcases hnew u hu v he hv with hvP | hvC
    · exact ⟨comps.length, comps.length, inP u hu, inP v hvP, Nat.le_refl _⟩
    · obtain ⟨j, hj⟩ := compIndexOf_some_of_mem hvC
      have := inOld v j hj
      exact ⟨comps.length, j, inP u hu, this.1, by omega⟩

theorem close_strong_comp {comps : List (List Nat)} {S : List Nat} {r : Nat}
    (hold : ∀ C, C ∈ comps → ∃ r, r ∈ C ∧ ∀ u, u ∈ C → Reach g.outAdj r u ∧ Reach g.outAdj u r)
    (hdown : ∀ u, u ∈ S → Reach g.outAdj r u) (hup : ∀ u, u ∈ S → Reach g.outAdj u r) :
    ∀ C, C ∈ comps ++ [S ++ [r]] → ∃ r, r ∈ C ∧ ∀ u, u ∈ C → Reach g.outAdj r u ∧ Reach g.outAdj u r := by
  intro C hC
  rcases List.mem_append.1 hC with hC | hC
  · exact hold C hC
  · simp at hC; subst hC
    refine ⟨r, by simp, fun u hu => ?_⟩
    simp at hu
    rcases hu with hu | rfl
    · exact ⟨hdown u hu, hup u hu⟩
    · exact ⟨Reach.refl _, Reach.refl _⟩

/-- popping the top cursor: low-link propagation, then either merge its frame into the parent's or close a
component -/
theorem fullInv_pop {index : Nat} {disc low : List (Nat × Nat)} {onStack stack : List Nat} {cur : Cur}
    {rest : List Cur} {comps : List (List Nat)} {n2c : List (Nat × Nat)} {S : List Nat} {Ss : List (List Nat)}
    (hg : g.WF)
    (h : RunInv g base start ⟨index, disc, low, onStack, stack, cur :: rest, comps, n2c⟩)
    (f : FullInv g (S :: Ss) ⟨index, disc, low, onStack, stack, cur :: rest, comps, n2c⟩)
    (hn : cur.branches[cur.branchIdx]? = none) :
    ∃ segs', FullInv g segs'
      (closeComponent ⟨index, disc, propagateLow low rest cur.id, onStack, stack, rest, comps, n2c⟩ cur.id) := by
  have hseq := f.stack_eq
  have hok := f.frames_ok
  have hsorted := f.sorted
  have hbi := f.below_idx
  have hbr := f.br_eq
  have hcs := f.cur_seen
  have hfs := f.fin_seen
  have hcl := f.cur_low
  have hfl := f.fin_low
  have hsl := f.seg_low
  have hsr := f.seg_reach
  have hch := f.chained
  have hlw := f.low_wit
  have hflt := f.fin_lt
  have hdi := h.disc_iff
  have hdisj := h.disj
  simp only at hseq hok hsorted hbi hbr hcs hfs hcl hfl hsl hsr hch hlw hflt hdi hdisj
  have hnd := h.stack_nd
  simp only at hnd
  have ⟨hf1, hf2, hf3⟩ := top_id_fresh hseq hnd hok
  have hcur : cur.id ∈ stack := by rw [hseq]; simp [joinFrames]
  have ⟨hge1, hle1⟩ := propagateLow_bounds (base := base) (rest := rest) hcur h.low_ge h.low_le
  simp only at hge1 hle1
  -- all branches of the popped cursor are processed
  have hall : cur.branches.take cur.branchIdx = g.outAdj cur.id := by
    rw [take_eq_self_of_none hn]; exact hbr cur (by simp)
  have hcur_seen : ∀ v, v ∈ g.outAdj cur.id → seen disc v := fun v hv => hcs cur (by simp) v (hall ▸ hv)
  have hcur_low : ∀ v, v ∈ g.outAdj cur.id → v ∈ stack → lookupD low cur.id ≤ lookupD disc v :=
    fun v hv hvs => hcl cur (by simp) v (hall ▸ hv) hvs
  -- shape of the stack
  have hstk : stack = S ++ cur.id :: joinFrames rest Ss := hseq
  have hsplit := hsorted
  rw [hstk, List.pairwise_append, List.pairwise_cons] at hsplit
  obtain ⟨_, ⟨hcB, hBsorted⟩, hSB⟩ := hsplit
  have hScur : ∀ u, u ∈ S → lookupD disc cur.id < lookupD disc u := fun u hu => hSB u hu cur.id (by simp)
  -- edges out of the popped frame stay in the frame or lead to emitted components, when the root closes
  have hedges : lookupD low cur.id = lookupD disc cur.id → ∀ u, u ∈ S ++ [cur.id] → ∀ v, g.hasEdge u v = true →
      v ∈ g.nodes → v ∈ S ++ [cur.id] ∨ v ∈ comps.flatten := by
    intro hroot u hu v he hv
    have hvadj : v ∈ g.outAdj u := Digraph.mem_outAdj.2 ⟨hv, he⟩
    have hu' : u ∈ S ∨ u = cur.id := by simpa using hu
    have hseenv : seen disc v := hu'.elim (fun h' => hfs S (by simp) u h' v hvadj) (fun e => hcur_seen v (e ▸ hvadj))
    rcases (hdi v).1 hseenv with hvs | hvc
    · left
      have hlowu : lookupD low cur.id ≤ lookupD low u :=
        hu'.elim (fun h' => hsl.1 u h') (fun e => e ▸ Nat.le_refl _)
      have hlv : lookupD low u ≤ lookupD disc v :=
        hu'.elim (fun h' => hfl S (by simp) u h' v hvadj hvs) (fun e => by rw [e]; exact hcur_low v (e ▸ hvadj) hvs)
      rw [hstk] at hvs
      rcases List.mem_append.1 hvs with h1 | h1
      · exact List.mem_append.2 (Or.inl h1)
      · rcases List.mem_cons.1 h1 with h1 | h1
        · simp [h1]
        · have := hcB v h1; omega
    · exact Or.inr hvc
  have hPin : ∀ u, u ∈ S ++ [cur.id] → u ∈ stack := by
    intro u hu
    rw [hstk]
    rcases List.mem_append.1 hu with h1 | h1
    · exact List.mem_append.2 (Or.inl h1)
    · simp at h1; subst h1; simp
  cases rest with
  | nil =>
    -- the run's first cursor
    cases Ss with
    | cons T Ss' => exact hok.2.elim
    | nil =>
      have hB : joinFrames ([] : List Cur) ([] : List (List Nat)) = [] := rfl
      rw [hB] at hstk
      have hcs' : cur.id = start := by
        have := h.ids_last; simpa [ids] using this
      have hfire : lookupD (propagateLow low [] cur.id) cur.id = lookupD disc cur.id := by
        rw [propagateLow_nil]
        have h1 := h.low_ge cur.id hcur
        have h2 := h.low_le cur.id hcur
        have h3 := h.start_disc
        simp only at h1 h2 h3
        rw [hcs'] at h1 h2 ⊢; omega
      rw [propagateLow_nil] at hfire
      refine ⟨[], ?_⟩
      unfold closeComponent
      simp only [propagateLow_nil, hfire, if_true]
      rw [hstk, popUntil_append _ _ _ hf1]
      have hwitS : ∀ w, w ∈ S → ∃ v, v ∈ S ++ cur.id :: [] ∧ lookupD disc v = lookupD low w ∧ Reach g.outAdj w v := by
        intro w hw; have := hlw w (by rw [hstk]; simp [hw]); rw [hstk] at this; exact this
      have hup := close_strong (g := g) (by rw [← hstk]; exact hsorted) hfire hsl.1 (hflt S (by simp)) hwitS
      refine ⟨rfl, trivial, List.Pairwise.nil, by simp, by simp, by simp, by simp, by simp, by simp, trivial, trivial,
        trivial, by simp, by simp, close_strong_comp f.comp_strong hsr.1 hup, ?_⟩
      exact close_order (fun u hu => hdisj u (hPin u hu)) f.comp_order (hedges hfire)
  | cons p rest' =>
    cases Ss with
    | nil => exact hok.2.elim
    | cons T Ss' =>
      have hB : joinFrames (p :: rest') (T :: Ss') = T ++ p.id :: joinFrames rest' Ss' := rfl
      have ⟨hp1, hp2, hp3, hp4⟩ := propagateLow_cons low p rest' cur.id
      -- freshness of the parent's id inside the rest of the stack
      have hBnd : (joinFrames (p :: rest') (T :: Ss')).Nodup := by
        rw [hstk, List.nodup_append] at hnd
        exact (List.nodup_cons.1 hnd.2.1).2
      have ⟨hq1, hq2, hq3⟩ := top_id_fresh rfl hBnd hok.2
      have hpcur : cur.id ≠ p.id := fun e => hf2 (by rw [e, hB]; simp)
      have hSp : ∀ u, u ∈ S → u ≠ p.id := fun u hu e => hf3 u hu (by rw [e, hB]; simp)
      have hTp : ∀ u, u ∈ T → u ≠ p.id := fun u hu e => hq1 (e ▸ hu)
      have hdeep_id : ∀ c, c ∈ rest' → c.id ≠ p.id := fun c hc e => hq2 (e ▸ mem_joinFrames_id hok.2.2 hc)
      have hdeep_seg : ∀ S', S' ∈ Ss' → ∀ u, u ∈ S' → u ≠ p.id := fun S' hS' u hu e =>
        hq2 (e ▸ mem_joinFrames_seg hok.2.2 hS' hu)
      have hlink : Reach g.outAdj p.id cur.id := Reach.single hch.1
      have hlow1cur : lookupD (propagateLow low (p :: rest') cur.id) cur.id = lookupD low cur.id := hp1 _ hpcur
      -- low-link witnesses survive the propagation
      have hW1 : ∀ w, w ∈ stack → ∃ v, v ∈ stack ∧ lookupD disc v = lookupD (propagateLow low (p :: rest') cur.id) w ∧
          Reach g.outAdj w v := by
        intro w hw
        by_cases e : w = p.id
        · subst e
          rcases hp4 with h4 | h4
          · rw [h4]; exact hlw _ hw
          · rw [h4]
            obtain ⟨v, hv, hdv, hr⟩ := hlw cur.id hcur
            exact ⟨v, hv, hdv, hlink.trans hr⟩
        · rw [hp1 _ e]; exact hlw w hw
      have hcur_low1 : ∀ c, c ∈ p :: rest' → ∀ v, v ∈ c.branches.take c.branchIdx → v ∈ stack →
          lookupD (propagateLow low (p :: rest') cur.id) c.id ≤ lookupD disc v := by
        intro c hc v hv hvs
        have := hcl c (List.mem_cons_of_mem _ hc) v hv hvs
        rcases List.mem_cons.1 hc with rfl | hc
        · omega
        · rw [hp1 _ (hdeep_id c hc)]; exact this
      have hdeep_low : FramesAll (fun c S' => ∀ u, u ∈ S' → lookupD (propagateLow low (p :: rest') cur.id) c.id ≤
          lookupD (propagateLow low (p :: rest') cur.id) u) rest' Ss' := by
        refine hsl.2.2.imp (fun c S' hc hS' hp u hu => ?_)
        rw [hp1 _ (hdeep_id c hc), hp1 _ (hdeep_seg S' hS' u hu)]
        exact hp u hu
      unfold closeComponent
      by_cases hfire : lookupD (propagateLow low (p :: rest') cur.id) cur.id = lookupD disc cur.id
      · -- a component closes: S ++ [cur.id] leaves the stack
        simp only [hfire, if_true]
        rw [hstk, popUntil_append _ _ _ hf1]
        rw [hlow1cur] at hfire
        have hwitS : ∀ w, w ∈ S → ∃ v, v ∈ S ++ cur.id :: joinFrames (p :: rest') (T :: Ss') ∧
            lookupD disc v = lookupD low w ∧ Reach g.outAdj w v := by
          intro w hw; have := hlw w (by rw [hstk]; simp [hw]); rw [hstk] at this; exact this
        have hup := close_strong (g := g) (by rw [← hstk]; exact hsorted) hfire hsl.1 (hflt S (by simp)) hwitS
        have hBin : ∀ v, v ∈ joinFrames (p :: rest') (T :: Ss') → v ∈ stack := fun v hv => by rw [hstk]; simp [hv]
        refine ⟨T :: Ss', rfl, hok.2, hBsorted, fun v hv => hbi v (hBin v hv), fun c hc => hbr c (List.mem_cons_of_mem _ hc),
          fun c hc => hcs c (List.mem_cons_of_mem _ hc), fun S' hS' => hfs S' (List.mem_cons_of_mem _ hS'),
          ?_, ?_, ?_, hsr.2, chained_tail hch, ?_, ?_, close_strong_comp f.comp_strong hsr.1 hup, ?_⟩
        · exact fun c hc v hv hvs => hcur_low1 c hc v hv (hBin v hvs)
        · intro S' hS' u hu v hv hvs
          have hne : u ≠ p.id := by
            rcases List.mem_cons.1 hS' with rfl | hS'
            · exact hTp u hu
            · exact hdeep_seg S' hS' u hu
          show lookupD (propagateLow low (p :: rest') cur.id) u ≤ lookupD disc v
          rw [hp1 _ hne]
          exact hfl S' (List.mem_cons_of_mem _ hS') u hu v hv (hBin v hvs)
        · refine ⟨fun u hu => ?_, hdeep_low⟩
          show lookupD (propagateLow low (p :: rest') cur.id) p.id ≤ lookupD (propagateLow low (p :: rest') cur.id) u
          rw [hp1 _ (hTp u hu)]
          have := hsl.2.1 u hu; omega
        · intro w hw
          obtain ⟨v, hv, hdv, hr⟩ := hW1 w (hBin w hw)
          refine ⟨v, ?_, hdv, hr⟩
          rw [hstk] at hv
          have hwlt : lookupD disc w < lookupD disc cur.id := hcB w hw
          have hwle := hle1 w (hBin w hw)
          rcases List.mem_append.1 hv with h1 | h1
          · have := hScur v h1; omega
          · rcases List.mem_cons.1 h1 with h1 | h1
            · subst h1; omega
            · exact h1
        · intro S' hS' u hu
          have hne : u ≠ p.id := by
            rcases List.mem_cons.1 hS' with rfl | hS'
            · exact hTp u hu
            · exact hdeep_seg S' hS' u hu
          show lookupD (propagateLow low (p :: rest') cur.id) u < lookupD disc u
          rw [hp1 _ hne]
          exact hflt S' (List.mem_cons_of_mem _ hS') u hu
        · exact close_order (fun u hu => hdisj u (hPin u hu)) f.comp_order (hedges hfire)
      · -- no component closes: the popped frame is absorbed by the parent's
        simp only [hfire, if_false]
        have hlt_cur : lookupD low cur.id < lookupD disc cur.id := by
          rw [hlow1cur] at hfire
          have := h.low_le cur.id hcur; simp only at this; omega
        refine ⟨(S ++ cur.id :: T) :: Ss', ?_, hok.2, hsorted, hbi, fun c hc => hbr c (List.mem_cons_of_mem _ hc),
          fun c hc => hcs c (List.mem_cons_of_mem _ hc), ?_, hcur_low1, ?_, ?_, ?_, chained_tail hch, hW1, ?_,
          f.comp_strong, f.comp_order⟩
        · show stack = (S ++ cur.id :: T) ++ p.id :: joinFrames rest' Ss'
          rw [hstk, hB]; simp [List.append_assoc]
        · intro S' hS' u hu v hv
          rcases List.mem_cons.1 hS' with rfl | hS'
          · rcases List.mem_append.1 hu with h1 | h1
            · exact hfs S (by simp) u h1 v hv
            · rcases List.mem_cons.1 h1 with h1 | h1
              · exact hcur_seen v (h1 ▸ hv)
              · exact hfs T (by simp) u h1 v hv
          · exact hfs S' (by simp [hS']) u hu v hv
        · intro S' hS' u hu v hv hvs
          show lookupD (propagateLow low (p :: rest') cur.id) u ≤ lookupD disc v
          rcases List.mem_cons.1 hS' with rfl | hS'
          · rcases List.mem_append.1 hu with h1 | h1
            · rw [hp1 _ (hSp u h1)]; exact hfl S (by simp) u h1 v hv hvs
            · rcases List.mem_cons.1 h1 with h1 | h1
              · rw [h1, hlow1cur]; exact hcur_low v (h1 ▸ hv) hvs
              · rw [hp1 _ (hTp u h1)]; exact hfl T (by simp) u h1 v hv hvs
          · rw [hp1 _ (hdeep_seg S' hS' u hu)]; exact hfl S' (by simp [hS']) u hu v hv hvs
        · refine ⟨fun u hu => ?_, hdeep_low⟩
          show lookupD (propagateLow low (p :: rest') cur.id) p.id ≤ lookupD (propagateLow low (p :: rest') cur.id) u
          rcases List.mem_append.1 hu with h1 | h1
          · rw [hp1 _ (hSp u h1)]; have := hsl.1 u h1; omega
          · rcases List.mem_cons.1 h1 with h1 | h1
            · rw [h1, hlow1cur]; exact hp3
            · rw [hp1 _ (hTp u h1)]; have := hsl.2.1 u h1; omega
        · refine ⟨fun u hu => ?_, hsr.2.2⟩
          rcases List.mem_append.1 hu with h1 | h1
          · exact hlink.trans (hsr.1 u h1)
          · rcases List.mem_cons.1 h1 with h1 | h1
            · exact h1 ▸ hlink
            · exact hsr.2.1 u h1
        · intro S' hS' u hu
          show lookupD (propagateLow low (p :: rest') cur.id) u < lookupD disc u
          rcases List.mem_cons.1 hS' with rfl | hS'
          · rcases List.mem_append.1 hu with h1 | h1
            · rw [hp1 _ (hSp u h1)]; exact hflt S (by simp) u h1
            · rcases List.mem_cons.1 h1 with h1 | h1
              · rw [h1, hlow1cur]; exact hlt_cur
              · rw [hp1 _ (hTp u h1)]; exact hflt T (by simp) u h1
          · rw [hp1 _ (hdeep_seg S' hS' u hu)]; exact hflt S' (by simp [hS']) u hu

end FullStep

section FullRun
variable {g : Digraph} {base start : Nat}

theorem tstep_full (hg : g.WF) (st : TState) (segs : List (List Nat)) (h : RunInv g base start st) (f : FullInv g segs st) :
    ∃ segs', FullInv g segs' (tstep g st) := by
  obtain ⟨index, disc, low, onStack, stack, dfs, comps, n2c⟩ := st
  cases dfs with
  | nil => exact absurd rfl h.dfs_ne
  | cons cur rest =>
    cases segs with
    | nil => exact f.frames_ok.elim
    | cons S Ss =>
      have hcur : cur.id ∈ stack := h.ids_sub.subset (by simp [ids])
      cases hn : cur.branches[cur.branchIdx]? with
      | some nb =>
        have hnbadj : nb ∈ g.outAdj cur.id := (f.br_eq cur (by simp)) ▸ getElem?_mem hn
        cases hd : lookup disc nb with
        | none =>
          simp only [tstep, hn, hd]
          exact ⟨_, fullInv_push h f hn hd⟩
        | some dn =>
          have hdn : lookupD disc nb = dn := lookupD_of_lookup hd
          have hseen : seen disc nb := seen_of_some hd
          simp only [tstep, hn, hd]
          split
          · rename_i hon
            have hnbs : nb ∈ stack := (h.on_iff nb).1 (by simpa using hon)
            split
            · rename_i hlow
              refine ⟨_, fullInv_advance h f hn hseen (fun x hx => lookupD_cons_ne (fun e => hx e.symm)) ?_ ?_ ?_⟩
              · rw [lookupD_cons_self]; omega
              · intro _; rw [lookupD_cons_self, hdn]; exact Nat.le_refl _
              · exact ⟨nb, hnbs, by rw [lookupD_cons_self, hdn], Reach.single hnbadj⟩
            · rename_i hlow
              refine ⟨_, fullInv_advance h f hn hseen (fun _ _ => rfl) (Nat.le_refl _) ?_ (f.low_wit cur.id hcur)⟩
              intro _; rw [hdn]; omega
          · rename_i hon
            refine ⟨_, fullInv_advance h f hn hseen (fun _ _ => rfl) (Nat.le_refl _) ?_ (f.low_wit cur.id hcur)⟩
            intro hnbs
            exact absurd ((h.on_iff nb).2 hnbs) (by simpa using hon)
      | none =>
        simp only [tstep, hn]
        exact fullInv_pop hg h f hn

theorem tloop_full (hg : g.WF) (fuel : Nat) (st st' : TState) (segs : List (List Nat))
    (h : RunInv g base start st ∨ OutInv g st) (f : FullInv g segs st) (hl : tloop g fuel st = some st') :
    ∃ segs', FullInv g segs' st' := by
  induction fuel generalizing st segs with
  | zero =>
    unfold tloop at hl
    cases hd : st.dfs with
    | nil => simp [hd] at hl; subst hl; exact ⟨segs, f⟩
    | cons c cs => simp [hd] at hl
  | succ fuel ih =>
    unfold tloop at hl
    cases hd : st.dfs with
    | nil => simp [hd] at hl; subst hl; exact ⟨segs, f⟩
    | cons c cs =>
      simp [hd] at hl
      rcases h with h | h
      · obtain ⟨segs', f'⟩ := tstep_full hg st segs h f
        exact ih _ segs' (tstep_run st h) f' hl
      · rw [h.dfs_nil] at hd; cases hd

theorem fullInv_start {index : Nat} {disc low : List (Nat × Nat)} {onStack : List Nat}
    {comps : List (List Nat)} {n2c : List (Nat × Nat)} {s : Nat} {segs : List (List Nat)}
    (f : FullInv g segs ⟨index, disc, low, onStack, [], [], comps, n2c⟩) :
    FullInv g [[]] (tarjanPush ⟨index, disc, low, onStack, [],
        [{ id := s, branches := g.outAdj s, branchIdx := 0 }], comps, n2c⟩ s) := by
  refine ⟨rfl, ⟨trivial, trivial⟩, by simp [tarjanPush], ?_, ?_, ?_, by simp, ?_, by simp, ⟨by simp, trivial⟩,
    ⟨by simp, trivial⟩, trivial, ?_, by simp, f.comp_strong, f.comp_order⟩
  · intro v hv
    simp [tarjanPush] at hv; subst hv
    show lookupD ((v, index) :: disc) v < index + 1
    rw [lookupD_cons_self]; omega
  · intro c hc; simp [tarjanPush] at hc; subst hc; rfl
  · intro c hc v hv; simp [tarjanPush] at hc; subst hc; simp at hv
  · intro c hc v hv; simp [tarjanPush] at hc; subst hc; simp at hv
  · intro w hw
    simp [tarjanPush] at hw; subst hw
    exact ⟨w, by simp [tarjanPush], by simp [tarjanPush, lookupD_cons_self], Reach.refl _⟩

theorem tarjanFrom_full (hg : g.WF) (st st' : TState) (s : Nat) (hs : s ∈ g.nodes) (h : OutInv g st)
    (segs : List (List Nat)) (f : FullInv g segs st) (hf : tarjanFrom g st s = some st') :
    ∃ segs', FullInv g segs' st' := by
  unfold tarjanFrom at hf
  cases hd : lookup st.disc s with
  | some d => simp [hd] at hf; subst hf; exact ⟨segs, f⟩
  | none =>
    simp only [hd] at hf
    obtain ⟨index, disc, low, onStack, stack, dfs, comps, n2c⟩ := st
    have hst : stack = [] := h.stack_nil
    have hdf : dfs = [] := h.dfs_nil
    subst hst; subst hdf
    exact tloop_full hg _ _ _ _ (Or.inl (runInv_start hs h hd)) (fullInv_start f) hf

theorem tarjanNodes_full (hg : g.WF) (l : List Nat) (hl : ∀ v, v ∈ l → v ∈ g.nodes) (st st' : TState)
    (h : OutInv g st) (segs : List (List Nat)) (f : FullInv g segs st) (hf : tarjanNodes g l st = some st') :
    ∃ segs', FullInv g segs' st' := by
  induction l generalizing st segs with
  | nil => simp [tarjanNodes] at hf; subst hf; exact ⟨segs, f⟩
  | cons a l ih =>
    unfold tarjanNodes at hf
    cases h1 : tarjanFrom g st a with
    | none => simp [h1] at hf
    | some st1 =>
      simp only [h1] at hf
      have ho1 := (tarjanFrom_out st st1 a (hl a (by simp)) h h1).1
      obtain ⟨segs1, f1⟩ := tarjanFrom_full hg st st1 a (hl a (by simp)) h segs f h1
      exact ih (fun v hv => hl v (by simp [hv])) st1 ho1 segs1 f1 hf

theorem fullInv_init : FullInv g [] TState.init := by
  refine ⟨rfl, trivial, List.Pairwise.nil, by simp [TState.init], by simp [TState.init], by simp [TState.init], by simp,
    by simp [TState.init], by simp, trivial, trivial, trivial, by simp [TState.init], by simp, by simp [TState.init],
    by simp [TState.init]⟩

/-- **Tarjan's output passes the certificate checker**, for every well-formed digraph -/
theorem tarjan_checkSCC (hg : g.WF) (comps : List (List Nat)) (lk : List (Nat × Nat)) (h : tarjan g = some (comps, lk)) :
    checkSCC g comps = true := by
  have ⟨hcover, hnodup, hne⟩ := tarjan_partition_aux comps lk h
  unfold tarjan at h
  cases hn : tarjanNodes g g.nodes TState.init with
  | none => simp [hn] at h
  | some st =>
    simp [hn] at h
    obtain ⟨rfl, rfl⟩ := h
    obtain ⟨segs, f⟩ := tarjanNodes_full hg g.nodes (fun _ hv => hv) TState.init st outInv_init [] fullInv_init hn
    simp only [checkSCC, Bool.and_eq_true]
    refine ⟨⟨?_, ?_⟩, ?_⟩
    · simp only [checkPartition, Bool.and_eq_true, List.all_eq_true]
      refine ⟨⟨⟨(nodupB_iff _).2 hnodup, fun v hv => by simpa using (hcover v).1 hv⟩,
        fun v hv => by simpa using (hcover v).2 hv⟩, fun C hC => ?_⟩
      have := hne C hC
      cases C with
      | nil => exact absurd rfl this
      | cons a t => rfl
    · rw [List.all_eq_true]
      intro C hC
      obtain ⟨r, hr, hall⟩ := f.comp_strong C hC
      cases C with
      | nil => exact absurd rfl (hne [] hC)
      | cons a t =>
        simp only [checkStrong, List.all_eq_true, Bool.and_eq_true]
        intro v hv
        have ha := hall a (by simp)
        have hv' := hall v hv
        exact ⟨by simpa using (g.mem_reachSet .outb a v).2 (ha.2.trans hv'.1),
               by simpa using (g.mem_reachSet .outb v a).2 (hv'.2.trans ha.1)⟩
    · simp only [checkOrder, List.all_eq_true]
      intro e he
      have hen := hg.2 e.1 e.2 he
      have hu : e.1 ∈ st.comps.flatten := (hcover e.1).1 hen.1
      have hedge : g.hasEdge e.1 e.2 = true := by simpa [Digraph.hasEdge] using he
      obtain ⟨i, j, hi, hj, hji⟩ := f.comp_order e.1 hu e.2 hedge hen.2
      simp [hi, hj, hji]

end FullRun

end Dawgs.C15
