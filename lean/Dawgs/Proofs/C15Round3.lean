/- C15 (round 3): refinement of the cached implementation to "no cache", node-level history independence,
caller-side edits of fresh results, topological numbering of the component graph. Helper lemmas. -/
import Dawgs.Proofs.C15Lift
import Dawgs.Proofs.C15TarjanFull
set_option linter.unusedSimpArgs false
set_option linter.unusedVariables false
set_option linter.unusedSectionVars false
namespace Dawgs.C15
open Dawgs.C16 (Sieve Ideal)

/-! ### the no-cache reference -/

theorem nullCache_lawful : Lawful nullCache (fun _ _ => True) :=
  ⟨fun _ _ _ _ => trivial, fun _ _ _ _ _ h => (by cases h), fun _ _ _ _ _ => trivial⟩

/-- the cache-free DFS returns, and returns exactly the reach set -/
theorem refReach_exact (cg : CompGraph) (c : Nat) (d : Dir) : ExactBits (cg.dg.adj d) c (refReach cg c d) := by
  unfold refReach
  have ht := reachDFS_terminates nullCache (cg.dg.adj d) cg.dg.nodes true (cg.dg.adj_sub_nodes d)
    (cg.dg.adj_length_le d) () c
  cases h : reachDFS nullCache (cg.dg.adj d) true (dfsFuel cg.dg.nodes.length) () c with
  | none => rw [h] at ht; cases ht
  | some p =>
    obtain ⟨u, r⟩ := p
    exact (reachDFS_fixed_exact nullCache (fun _ _ => True) (cg.dg.adj d) nullCache_lawful _ () [] trivial
      (cacheExact_nil _) c u r h).1

/-- one cached `componentReachDFS` call answers what the cache-free DFS answers -/
theorem RC.componentReach_eq_ref (rc : RC) (hf : rc.fixed = true) (hi : RCInv rc) (c : Nat) (d : Dir) :
    ∃ rc', rc.componentReach c d = some (rc', refReach rc.cg c d) ∧ RCInv rc' ∧ rc'.cg = rc.cg ∧ rc'.fixed = true := by
  obtain ⟨rc', r, hq, hex, hi', hcg, hf'⟩ := rc.componentReach_fixed hf hi c d
  have : r = refReach rc.cg c d := hex.unique (refReach_exact rc.cg c d)
  subst this
  exact ⟨rc', hq, hi', hcg, hf'⟩

section Ref
variable {g : Digraph} {comps : List (List Nat)} {lk : List (Nat × Nat)} (hc : Cert g comps lk)
include hc

/-- every public call of the repaired cache, in any reachable state, returns the history-free, cache-free answer -/
theorem step_refAns (rc : RC) (hcg : rc.cg = componentGraphOf g comps lk) (hf : rc.fixed = true) (hi : RCInv rc) (op : Op) :
    ∃ rc', rc.step op = some (rc', refAns g rc.cg op) ∧ rc'.cg = rc.cg ∧ rc'.fixed = true ∧ RCInv rc' := by
  cases op with
  | canReach u v d =>
    exact ⟨rc, by simp [RC.step, refAns, canReach_correct hc rc hcg u v d], rfl, hf, hi⟩
  | reach u d =>
    obtain ⟨rc', hq, h1, h2, h3⟩ := reachOf_correct hc rc hcg hf hi u d
    exact ⟨rc', by simp [RC.step, refAns, hq], h1, h2, h3⟩
  | orReach u d dup =>
    obtain ⟨rc', hq, h1, h2, h3⟩ := reachOf_correct hc rc hcg hf hi u d
    exact ⟨rc', by simp [RC.step, RC.orReach, refAns, hq, expectOrReach], h1, h2, h3⟩
  | xorReach u d dup =>
    obtain ⟨rc', hq, h1, h2, h3⟩ := reachOf_correct hc rc hcg hf hi u d
    exact ⟨rc', by simp [RC.step, RC.xorReach, refAns, hq, expectXorReach], h1, h2, h3⟩
  | reachSlice u d =>
    cases hl : lookup rc.cg.lookup u with
    | none => exact ⟨rc, by simp [RC.step, RC.reachSlice, refAns, hl], rfl, hf, hi⟩
    | some c =>
      obtain ⟨rc', hq, hi', hcg', hf'⟩ := rc.componentReach_eq_ref hf hi c d
      refine ⟨rc', ?_, hcg', hf', hi'⟩
      simp [RC.step, RC.reachSlice, refAns, hl, hq, RC.memberSlices, hcg']

theorem runOps_refAns (rc : RC) (hcg : rc.cg = componentGraphOf g comps lk) (hf : rc.fixed = true) (hi : RCInv rc)
    (ops : List Op) : rc.runOps ops = some (ops.map (refAns g rc.cg)) := by
  induction ops generalizing rc with
  | nil => rfl
  | cons o os ih =>
    obtain ⟨rc', hs, h1, h2, h3⟩ := step_refAns hc rc hcg hf hi o
    have := ih rc' (h1.trans hcg) h2 h3
    simp [RC.runOps, hs, this, h1]

end Ref

/-! ### caller-side edits of fresh values -/

theorem runOpsM_eq_runOps (rc : RC) (ops : List OpM) : rc.runOpsM ops = rc.runOps (callsOf ops) := by
  induction ops generalizing rc with
  | nil => rfl
  | cons o os ih =>
    cases o with
    | call q =>
      simp only [RC.runOpsM, callsOf, RC.runOps]
      cases rc.step q with
      | none => rfl
      | some p => obtain ⟨rc', a⟩ := p; simp only [ih rc']
    | editFresh f => simp only [RC.runOpsM, callsOf, RC.callerEdit]; exact ih rc

/-! ### the component graph is numbered topologically -/

theorem lookupD_eq_compIndex {g : Digraph} {comps : List (List Nat)} {lk : List (Nat × Nat)} (hc : Cert g comps lk)
    {u i : Nat} (h : compIndexOf comps u = some i) : lookupD lk u = i := by
  have := hc.lk_eq u
  rw [h] at this
  exact lookupD_of_lookup this

/-- every edge of the component digraph goes from a later-emitted to an earlier-emitted component -/
theorem compGraph_edge_lt {g : Digraph} {comps : List (List Nat)} {lk : List (Nat × Nat)} (hc : Cert g comps lk)
    (ho : checkOrder g comps = true) {a b : Nat} (h : b ∈ (componentGraphOf g comps lk).dg.outAdj a) : b < a := by
  obtain ⟨hne, u, v, hu, hv, he, rfl, rfl⟩ := (hc.cgSpec.mem_outAdj hc).1 h
  obtain ⟨i, j, hi, hj, hji⟩ := checkOrder_edge ho he
  rw [lookupD_eq_compIndex hc hi, lookupD_eq_compIndex hc hj] at hne ⊢
  omega

theorem compGraph_reach_le {g : Digraph} {comps : List (List Nat)} {lk : List (Nat × Nat)} (hc : Cert g comps lk)
    (ho : checkOrder g comps = true) {a b : Nat} (h : Reach (componentGraphOf g comps lk).dg.outAdj a b) : b ≤ a := by
  induction h with
  | refl => exact Nat.le_refl _
  | tail _ hm ih => have := compGraph_edge_lt hc ho hm; omega

end Dawgs.C15
