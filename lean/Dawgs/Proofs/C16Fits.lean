/-
C16 — a cache whose working set fits never forgets: if the history puts at most `capacity` distinct keys, SIEVE
answers every lookup exactly like the ideal (never evicting) map.  Lemmas; the statement is in Props/C16Retain.lean.
-/
import Dawgs.Proofs.C16Retain
namespace Dawgs.C16

def putKeys : List Op → List Nat
  | [] => []
  | .put k _ :: ops => k :: putKeys ops
  | _ :: ops => putKeys ops

/-- what the ideal map answers to the same history -/
def idealTrace : Ideal → List Op → List (Op × Out)
  | _, [] => []
  | m, o :: ops =>
    (o, match o with
        | .get k => outOf (m.get k)
        | _ => Out.unit) :: idealTrace (m.step o) ops

theorem Sieve.valOf_put_self (s : Sieve) (k v : Nat) : valOf (s.put k v).queue k = some v := by
  have := Sieve.get_after_put s k v
  unfold Sieve.get at this
  cases hf : find (s.put k v).queue k with
  | some e => simp only [hf] at this; simp [valOf, hf]; simpa using this
  | none => simp [hf] at this

theorem Sieve.get_out_valOf (s : Sieve) (k : Nat) : (s.get k).2 = valOf s.queue k := by
  unfold Sieve.get valOf
  cases find s.queue k <;> rfl

theorem Sieve.exact_trace {s : Sieve} {m : Ideal} (U : List Nat) (hi : s.Inv)
    (hex : ∀ x, valOf s.queue x = m.get x) (hsub : keys s.queue ⊆ U)
    (hU : ∀ l : List Nat, l.Nodup → l ⊆ U → l.length ≤ s.cap) (ops : List Op) (hops : putKeys ops ⊆ U) :
    s.trace ops = idealTrace m ops := by
  induction ops generalizing s m with
  | nil => rfl
  | cons o ops ih =>
    have hi' := Sieve.step_inv hi o
    have hcap := Sieve.step_cap s o
    cases o with
    | get k =>
      have hf := Sieve.get_frame s k
      have hops' : putKeys ops ⊆ U := hops
      have := ih (s := (s.step (.get k)).1) (m := m) hi'
        (fun x => by show valOf (s.get k).1.queue x = _; rw [hf.2 x]; exact hex x)
        (by show keys (s.get k).1.queue ⊆ U; rw [hf.1]; exact hsub)
        (by rw [hcap]; exact hU) hops'
      simp only [Sieve.trace, idealTrace, Ideal.step]
      rw [this]
      congr 2
      show outOf (s.get k).2 = outOf (m.get k)
      rw [Sieve.get_out_valOf, hex k]
    | del k =>
      have hf := Sieve.delete_frame s k
      have hops' : putKeys ops ⊆ U := hops
      have hknot : k ∉ keys (s.delete k).queue := by
        rw [hf.1]; simp
      have := ih (s := (s.step (.del k)).1) (m := m.del k) hi'
        (fun x => by
          show valOf (s.delete k).queue x = _
          rw [Ideal.get_del]
          by_cases hx : x = k
          · subst hx; simp only [if_true]; exact valOf_none_of_not_mem hknot
          · simp only [hx, if_false]; rw [hf.2 x hx]; exact hex x)
        (by show keys (s.delete k).queue ⊆ U; rw [hf.1]; exact fun a ha => hsub (List.mem_filter.1 ha).1)
        (by rw [hcap]; exact hU) hops'
      simp only [Sieve.trace, idealTrace, Ideal.step]
      rw [this]; rfl
    | put k v =>
      have hkU : k ∈ U := hops (by simp [putKeys])
      have hops' : putKeys ops ⊆ U := fun a ha => hops (by simp [putKeys, ha])
      have hframe : keys (s.put k v).queue ⊆ U ∧ ∀ x, x ≠ k → valOf (s.put k v).queue x = valOf s.queue x := by
        by_cases hk : k ∈ keys s.queue
        · have hf := Sieve.put_frame_present hk v
          exact ⟨by rw [hf.1]; exact hsub, hf.2⟩
        · have hroom : s.queue.length < s.cap := by
            have hnd : (k :: keys s.queue).Nodup := List.nodup_cons.2 ⟨hk, hi.nodup⟩
            have := hU (k :: keys s.queue) hnd (by
              intro a ha
              rcases List.mem_cons.1 ha with rfl | h
              · exact hkU
              · exact hsub h)
            simp only [List.length_cons, length_keys] at this; omega
          have hf := Sieve.put_frame_room hk hroom v
          refine ⟨?_, hf.2⟩
          rw [hf.1]; intro a ha
          rcases List.mem_cons.1 ha with rfl | h
          · exact hkU
          · exact hsub h
      have := ih (s := (s.step (.put k v)).1) (m := m.put k v) hi'
        (fun x => by
          show valOf (s.put k v).queue x = _
          rw [Ideal.get_put]
          by_cases hx : x = k
          · subst hx; simp only [if_true]; exact Sieve.valOf_put_self s x v
          · simp only [hx, if_false]; rw [hframe.2 x hx]; exact hex x)
        hframe.1 (by rw [hcap]; exact hU) hops'
      simp only [Sieve.trace, idealTrace, Ideal.step]
      rw [this]; rfl

end Dawgs.C16

namespace Dawgs.C16

theorem NeMap.step_cap (s : NeMap) (o : Op) : (s.step o).1.cap = s.cap := by
  cases o with
  | put k v =>
    show (s.put k v).cap = s.cap
    unfold NeMap.put; split
    · rfl
    · split <;> rfl
  | get k => show (s.get k).1.cap = s.cap; unfold NeMap.get; split <;> rfl
  | del k => show (s.delete k).cap = s.cap; unfold NeMap.delete; split <;> rfl

theorem NeMap.lookup_put_self_present {s : NeMap} {k : Nat} {w : Nat} (h : s.lookup k = some w) (v : Nat) :
    (s.put k v).lookup k = some v := by
  unfold NeMap.put; rw [h]; simp only
  show Ideal.get _ k = some v
  have hm : k ∈ skeys s.store := by
    apply Classical.byContradiction; intro hn
    have := (lookup_none_iff s.store k).2 hn
    rw [← NeMap.lookup_eq_get, h] at this; cases this
  rw [get_update]; simp [hm]

theorem NeMap.exact_trace {s : NeMap} {m : Ideal} (U : List Nat) (hi : s.Inv)
    (hex : ∀ x, s.lookup x = m.get x) (hsub : skeys s.store ⊆ U)
    (hU : ∀ l : List Nat, l.Nodup → l ⊆ U → (l.length : Int) ≤ s.cap) (ops : List Op) (hops : putKeys ops ⊆ U) :
    s.trace ops = idealTrace m ops := by
  induction ops generalizing s m with
  | nil => rfl
  | cons o ops ih =>
    have hi' := NeMap.step_inv hi o
    have hcap := NeMap.step_cap s o
    cases o with
    | get k =>
      have hf := NeMap.get_frame s k
      have hops' : putKeys ops ⊆ U := hops
      have := ih (s := (s.step (.get k)).1) (m := m) hi'
        (fun x => by show NeMap.lookup (s.get k).1 x = _; unfold NeMap.lookup; rw [hf]; exact hex x)
        (by show skeys (s.get k).1.store ⊆ U; rw [hf]; exact hsub)
        (by rw [hcap]; exact hU) hops'
      simp only [NeMap.trace, idealTrace, Ideal.step]
      rw [this]
      congr 2
      show outOf (s.get k).2 = outOf (m.get k)
      have : (s.get k).2 = s.lookup k := by unfold NeMap.get; cases s.lookup k <;> rfl
      rw [this, hex k]
    | del k =>
      have hf := NeMap.delete_frame s k
      have hops' : putKeys ops ⊆ U := hops
      have hknot : k ∉ skeys (s.delete k).store := by rw [hf.1]; simp
      have := ih (s := (s.step (.del k)).1) (m := m.del k) hi'
        (fun x => by
          show (s.delete k).lookup x = _
          rw [Ideal.get_del]
          by_cases hx : x = k
          · subst hx; simp only [if_true]; exact (lookup_none_iff _ _).2 hknot
          · simp only [hx, if_false]; rw [hf.2 x hx]; exact hex x)
        (by show skeys (s.delete k).store ⊆ U; rw [hf.1]; exact fun a ha => hsub (List.mem_filter.1 ha).1)
        (by rw [hcap]; exact hU) hops'
      simp only [NeMap.trace, idealTrace, Ideal.step]
      rw [this]; rfl
    | put k v =>
      have hkU : k ∈ U := hops (by simp [putKeys])
      have hops' : putKeys ops ⊆ U := fun a ha => hops (by simp [putKeys, ha])
      have hpf := NeMap.put_frame s k v
      have hself : (s.put k v).lookup k = some v ∧ skeys (s.put k v).store ⊆ U := by
        cases hl : s.lookup k with
        | some w =>
          refine ⟨NeMap.lookup_put_self_present hl v, ?_⟩
          unfold NeMap.put; rw [hl]; simp only; rw [skeys_update]; exact hsub
        | none =>
          have hk : k ∉ skeys s.store := (lookup_none_iff _ _).1 hl
          have hroom : s.size < s.cap := by
            have hnd : (k :: skeys s.store).Nodup := List.nodup_cons.2 ⟨hk, hi.nodup⟩
            have := hU (k :: skeys s.store) hnd (by
              intro a ha
              rcases List.mem_cons.1 ha with rfl | h
              · exact hkU
              · exact hsub h)
            have hlen : (skeys s.store).length = s.store.length := by simp [skeys]
            simp only [List.length_cons, hlen] at this
            rw [hi.size]; omega
          unfold NeMap.put; rw [hl]; simp only [hroom, if_true]
          refine ⟨?_, ?_⟩
          · show Ideal.get ((k, v) :: s.store) k = some v
            rw [Ideal.get_cons]; simp
          · rw [skeys_cons]; intro a ha
            rcases List.mem_cons.1 ha with rfl | h
            · exact hkU
            · exact hsub h
      have := ih (s := (s.step (.put k v)).1) (m := m.put k v) hi'
        (fun x => by
          show (s.put k v).lookup x = _
          rw [Ideal.get_put]
          by_cases hx : x = k
          · subst hx; simp only [if_true]; exact hself.1
          · simp only [hx, if_false]; rw [hpf.2 x hx]; exact hex x)
        hself.2 (by rw [hcap]; exact hU) hops'
      simp only [NeMap.trace, idealTrace, Ideal.step]
      rw [this]; rfl

end Dawgs.C16
