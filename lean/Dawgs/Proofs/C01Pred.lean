import Dawgs.Proofs.C01Sql
/-
C01 / S1 — the lowered WHERE predicate of a node frame computes the three-valued meaning `sem` (total form).
-/
namespace Dawgs.C01.Proofs
open Dawgs Dawgs.Sql

variable (km : KindMap) (n : NodeRec) (E : EEnv)

theorem ben_propEqStr (k s : String) (hnn : Json.lookup k n.props ≠ some .null) (e : Expr)
    (he : S1.Pred.tr km (.propEqStr k s) = some e) : Benign (evalExpr (E.push (nodeLvl km n)) e) (sem n (.propEqStr k s)) := by
  simp only [S1.Pred.tr, Option.some.injEq] at he
  subst he
  apply paren_ben
  simp only [sem, propC]
  cases hl : Json.lookup k n.props with
  | none =>
    exact and_ben _ _ _ none none (ben_ok (by rw [eval_typeofEq, hl]; rfl)) (ben_ok (by rw [eval_textEq, hl]; rfl)) (bin_not_any ..).1 (bin_not_any ..).2
  | some j =>
    cases j with
    | null => exact absurd hl hnn
    | str t =>
      have := and_ben _ _ _ (some true) (some (t == s)) (ben_ok (by rw [eval_typeofEq km n E k, hl]; rfl)) (ben_ok (by rw [eval_textEq km n E k s, hl]; rfl)) (bin_not_any ..).1 (bin_not_any ..).2
      simp only [Option.map, Option.getD, Cy.jsonToC, Cy.cEq]
      cases hts : (t == s) <;> (rw [hts] at this; exact this)
    | num d =>
      exact and_ben _ _ _ (some false) (some (d.toText == s)) (ben_ok (by rw [eval_typeofEq km n E k, hl]; rfl)) (ben_ok (by rw [eval_textEq km n E k s, hl]; rfl)) (bin_not_any ..).1 (bin_not_any ..).2
    | bool b =>
      exact and_ben _ _ _ (some false) (some ((if b then "true" else "false") == s)) (ben_ok (by rw [eval_typeofEq km n E k, hl]; rfl)) (ben_ok (by rw [eval_textEq km n E k s, hl]; rfl)) (bin_not_any ..).1 (bin_not_any ..).2
    | arr xs =>
      exact and_ben _ _ _ (some false) none (ben_ok (by rw [eval_typeofEq km n E k, hl]; rfl)) (Or.inr ⟨"->>-of-container", by rw [eval_textEq km n E k s, hl]; rfl⟩) (bin_not_any ..).1 (bin_not_any ..).2
    | obj kvs =>
      exact and_ben _ _ _ (some false) none (ben_ok (by rw [eval_typeofEq km n E k, hl]; rfl)) (Or.inr ⟨"->>-of-container", by rw [eval_textEq km n E k s, hl]; rfl⟩) (bin_not_any ..).1 (bin_not_any ..).2

theorem ben_propEqInt (neg : Bool) (k : String) (i : Int) (hnn : Json.lookup k n.props ≠ some .null) (e : Expr)
    (he : S1.Pred.tr km (.propEqInt neg k i) = some e) : Benign (evalExpr (E.push (nodeLvl km n)) e) (sem n (.propEqInt neg k i)) := by
  simp only [S1.Pred.tr, Option.some.injEq] at he
  subst he
  left
  simp only [sem, propC]
  cases neg with
  | false =>
    simp only [Bool.false_eq_true, if_false]
    rw [eval_bin _ _ _ _ (by decide) (call_not_any ..).1 (call_not_any ..).2, eval_propJsonb, eval_toJsonbInt]
    simp only [ebind_ok, binOp_eq]
    cases hl : Json.lookup k n.props with
    | none => rfl
    | some j =>
      simp only [vCompare, valCmp, jsonCmp_num]
      cases j <;> first | (exact absurd hl hnn) | rfl
  | true =>
    simp only [if_true]
    rw [eval_bin _ _ _ _ (by decide) (call_not_any ..).1 (call_not_any ..).2, eval_propJsonb, eval_toJsonbInt]
    simp only [ebind_ok, binOp_ne]
    cases hl : Json.lookup k n.props with
    | none => rfl
    | some j =>
      simp only [vCompare, valCmp, jsonCmp_num]
      cases j <;> first | (exact absurd hl hnn) | rfl

theorem ben_propIsNull (k : String) (hnn : Json.lookup k n.props ≠ some .null) (e : Expr)
    (he : S1.Pred.tr km (.propIsNull k) = some e) : Benign (evalExpr (E.push (nodeLvl km n)) e) (sem n (.propIsNull k)) := by
  simp only [S1.Pred.tr, Option.some.injEq] at he
  subst he
  apply paren_ben
  simp only [sem, propC]
  cases hl : Json.lookup k n.props with
  | none =>
    exact or_ben _ _ _ (Cy.triNot (some false)) none (not_ben _ _ _ (ben_ok (by rw [eval_hasKey, hl]; rfl)))
      (ben_ok (by rw [eval_isJsonNull km n E k hnn, hl]; rfl)) (bin_not_any ..).1 (bin_not_any ..).2
  | some j =>
    have hj : j ≠ .null := by intro hh; subst hh; exact hnn hl
    have := or_ben _ _ _ (Cy.triNot (some true)) (some false) (not_ben _ _ _ (ben_ok (by rw [eval_hasKey km n E k, hl]; rfl)))
      (ben_ok (by rw [eval_isJsonNull km n E k hnn, hl]; rfl)) (bin_not_any ..).1 (bin_not_any ..).2
    have hc := jsonToC_ne_null j hj
    simp only [Option.map, Option.getD]
    cases hcc : Cy.jsonToC j <;> first | (exact absurd hcc hc) | exact this

theorem ben_propNotNull (k : String) (hnn : Json.lookup k n.props ≠ some .null) (e : Expr)
    (he : S1.Pred.tr km (.propNotNull k) = some e) : Benign (evalExpr (E.push (nodeLvl km n)) e) (sem n (.propNotNull k)) := by
  simp only [S1.Pred.tr, Option.some.injEq] at he
  subst he
  apply paren_ben
  simp only [sem, propC]
  cases hl : Json.lookup k n.props with
  | none =>
    exact and_ben _ _ _ (some false) (Cy.triNot none) (ben_ok (by rw [eval_hasKey, hl]; rfl))
      (not_ben _ _ _ (ben_ok (by rw [eval_isJsonNull km n E k hnn, hl]; rfl))) (un_not_any ..).1 (un_not_any ..).2
  | some j =>
    have hj : j ≠ .null := by intro hh; subst hh; exact hnn hl
    have := and_ben _ _ _ (some true) (Cy.triNot (some false)) (ben_ok (by rw [eval_hasKey km n E k, hl]; rfl))
      (not_ben _ _ _ (ben_ok (by rw [eval_isJsonNull km n E k hnn, hl]; rfl))) (un_not_any ..).1 (un_not_any ..).2
    have hc := jsonToC_ne_null j hj
    simp only [Option.map, Option.getD]
    cases hcc : Cy.jsonToC j <;> first | (exact absurd hcc hc) | exact this

theorem ben_idCmp (op : Cmp) (i : Int) (e : Expr)
    (he : S1.Pred.tr km (.idCmp op i) = some e) : Benign (evalExpr (E.push (nodeLvl km n)) e) (sem n (.idCmp op i)) := by
  simp only [S1.Pred.tr, Option.some.injEq] at he
  subst he
  left
  rw [eval_bin _ _ _ _ (by cases op <;> decide) (intLit_not_any i).1 (intLit_not_any i).2]
  simp only [(eval_innerCol km n E).1, eval_intLit, ebind_ok, binOp_cmp]
  simp only [sem]
  cases op <;> simp only [vCompare, valCmp, Cmp.sql, Cmp.cy, relOp] <;>
    simp only [relT, Cy.cEq, Cy.cCmp, Cy.triNot, Option.map, triVal, intCmp_eq, bne]

theorem ben_kinds (hinj : ∀ a b i, km.id? a = some i → km.id? b = some i → a = b) (ks : List String) (e : Expr)
    (he : S1.Pred.tr km (.kinds ks) = some e) : Benign (evalExpr (E.push (nodeLvl km n)) e) (sem n (.kinds ks)) := by
  simp only [S1.Pred.tr] at he
  cases hm : ks.mapM km.id? with
  | none => rw [hm] at he; cases he
  | some ids =>
    rw [hm] at he
    cases he
    left
    rw [eval_bin _ _ _ _ (by decide) (lit_not_any ..).1 (lit_not_any ..).2]
    rw [evalExpr.eq_def (E.push (nodeLvl km n)) (.lit ..)]
    simp only [(eval_innerCol km n E).2.1, litVal, ebind_ok]
    unfold binOp
    simp only [containsOp, List.map_map]
    simp only [sem, triVal]
    congr 2
    exact kind_match_encode km hinj n.kinds ks ids hm

/-- a lowered predicate is never an `ANY (…)` / `ALL (…)` operand -/
theorem tr_not_any (p : S1.Pred) (e : Expr) (he : S1.Pred.tr km p = some e) : (∀ arr, e ≠ .anyOf arr) ∧ (∀ arr, e ≠ .allOf arr) := by
  cases p <;> simp only [S1.Pred.tr] at he
  case kinds ks =>
    cases hm : ks.mapM km.id? with
    | none => rw [hm] at he; cases he
    | some ids => rw [hm] at he; cases he; exact bin_not_any ..
  case and p q =>
    cases hp : S1.Pred.tr km p <;> cases hq : S1.Pred.tr km q <;> simp [hp, hq, bind, Option.bind] at he
    subst he; exact bin_not_any ..
  case or p q =>
    cases hp : S1.Pred.tr km p <;> cases hq : S1.Pred.tr km q <;> simp [hp, hq, bind, Option.bind] at he
    subst he; exact bin_not_any ..
  case not p =>
    cases hp : S1.Pred.tr km p <;> simp [hp, bind, Option.bind] at he
    subst he; exact un_not_any ..
  case paren p =>
    cases hp : S1.Pred.tr km p <;> simp [hp, bind, Option.bind] at he
    subst he; constructor <;> (intro arr hh; cases hh)
  all_goals (cases he; first | exact bin_not_any .. | (constructor <;> (intro arr hh; cases hh)))

/-- THE PREDICATE THEOREM (SQL side): on the FROM row of graph node `n`, the lowered predicate evaluates to `sem n p`
(or the model stops with `unmodelled`; never a run-time / type / name error) -/
theorem sql_pred (hinj : ∀ a b i, km.id? a = some i → km.id? b = some i → a = b) (hnn : ∀ k, Json.lookup k n.props ≠ some .null) :
    ∀ (p : S1.Pred) (e : Expr), S1.Pred.tr km p = some e → Benign (evalExpr (E.push (nodeLvl km n)) e) (sem n p) := by
  intro p
  induction p with
  | propEqStr k s => intro e he; exact ben_propEqStr km n E k s (hnn k) e he
  | propEqInt neg k i => intro e he; exact ben_propEqInt km n E neg k i (hnn k) e he
  | propIsNull k => intro e he; exact ben_propIsNull km n E k (hnn k) e he
  | propNotNull k => intro e he; exact ben_propNotNull km n E k (hnn k) e he
  | idCmp op i => intro e he; exact ben_idCmp km n E op i e he
  | kinds ks => intro e he; exact ben_kinds km n E hinj ks e he
  | and p q ihp ihq =>
    intro e he
    simp only [S1.Pred.tr] at he
    cases hp : S1.Pred.tr km p with
    | none => simp [hp, bind, Option.bind] at he
    | some a =>
      cases hq : S1.Pred.tr km q with
      | none => simp [hp, hq, bind, Option.bind] at he
      | some b =>
        simp [hp, hq, bind, Option.bind] at he
        subst he
        exact and_ben _ _ _ _ _ (ihp a hp) (ihq b hq) (tr_not_any km q b hq).1 (tr_not_any km q b hq).2
  | or p q ihp ihq =>
    intro e he
    simp only [S1.Pred.tr] at he
    cases hp : S1.Pred.tr km p with
    | none => simp [hp, bind, Option.bind] at he
    | some a =>
      cases hq : S1.Pred.tr km q with
      | none => simp [hp, hq, bind, Option.bind] at he
      | some b =>
        simp [hp, hq, bind, Option.bind] at he
        subst he
        exact or_ben _ _ _ _ _ (ihp a hp) (ihq b hq) (tr_not_any km q b hq).1 (tr_not_any km q b hq).2
  | not p ih =>
    intro e he
    simp only [S1.Pred.tr] at he
    cases hp : S1.Pred.tr km p with
    | none => simp [hp, bind, Option.bind] at he
    | some a =>
      simp [hp, bind, Option.bind] at he
      subst he
      exact not_ben _ _ _ (ih a hp)
  | paren p ih =>
    intro e he
    simp only [S1.Pred.tr] at he
    cases hp : S1.Pred.tr km p with
    | none => simp [hp, bind, Option.bind] at he
    | some a =>
      simp [hp, bind, Option.bind] at he
      subst he
      exact paren_ben _ _ _ (ih a hp)

end Dawgs.C01.Proofs
