/- Helper lemmas for C20 (no property statements here; those live in Props/C20.lean). -/
import Dawgs.Spec.C20
set_option linter.unusedSimpArgs false
set_option linter.unusedVariables false
namespace Dawgs.C20

/-! ## split / join -/

theorem consHead_ne_nil (c : Char) (l : List Str) : consHead c l ≠ [] := by
  cases l <;> simp [consHead]

theorem splitSlash_ne_nil (s : Str) : splitSlash s ≠ [] := by
  cases s with
  | nil => simp [splitSlash]
  | cons c cs =>
    unfold splitSlash
    split
    · simp
    · exact consHead_ne_nil _ _

theorem consHead_append (c : Char) (l m : List Str) (h : l ≠ []) : consHead c (l ++ m) = consHead c l ++ m := by
  cases l with
  | nil => exact absurd rfl h
  | cons a t => rfl

theorem splitSlash_nil : splitSlash [] = [[]] := rfl
theorem splitSlash_cons_slash (cs : Str) : splitSlash ('/' :: cs) = [] :: splitSlash cs := by
  simp [splitSlash]
theorem splitSlash_cons_ne (c : Char) (cs : Str) (h : c ≠ '/') : splitSlash (c :: cs) = consHead c (splitSlash cs) := by
  simp [splitSlash, h]

theorem splitSlash_append_slash (a b : Str) : splitSlash (a ++ '/' :: b) = splitSlash a ++ splitSlash b := by
  induction a with
  | nil => simp [splitSlash_cons_slash, splitSlash_nil]
  | cons c a ih =>
    by_cases hc : c = '/'
    · subst hc
      simp only [List.cons_append, splitSlash_cons_slash, ih]
    · simp only [List.cons_append, splitSlash_cons_ne _ _ hc, ih]
      exact consHead_append _ _ _ (splitSlash_ne_nil a)

theorem mem_consHead {c : Char} {l : List Str} {x : Str} (h : x ∈ consHead c l) :
    (∃ y, x = c :: y ∧ (y ∈ l ∨ (l = [] ∧ y = []))) ∨ x ∈ l := by
  cases l with
  | nil =>
    simp [consHead] at h
    exact .inl ⟨[], h, .inr ⟨rfl, rfl⟩⟩
  | cons a t =>
    simp [consHead] at h
    rcases h with h | h
    · exact .inl ⟨a, h, .inl (List.mem_cons_self ..)⟩
    · exact .inr (List.mem_cons_of_mem _ h)

/-- no component contains a separator; every character of a component is a character of the string -/
theorem mem_splitSlash {s : Str} : ∀ {c : Str}, c ∈ splitSlash s → '/' ∉ c ∧ ∀ x ∈ c, x ∈ s := by
  induction s with
  | nil =>
    intro c hc
    simp [splitSlash] at hc
    subst hc
    simp
  | cons a s ih =>
    intro c hc
    by_cases ha : a = '/'
    · subst ha
      rw [splitSlash_cons_slash] at hc
      rcases List.mem_cons.mp hc with h | h
      · subst h; simp
      · have := ih h
        exact ⟨this.1, fun x hx => List.mem_cons_of_mem _ (this.2 x hx)⟩
    · rw [splitSlash_cons_ne _ _ ha] at hc
      rcases mem_consHead hc with ⟨y, hxy, hy⟩ | h
      · subst hxy
        rcases hy with hy | ⟨hl, hy⟩
        · have := ih hy
          refine ⟨?_, ?_⟩
          · intro hm
            rcases List.mem_cons.mp hm with h | h
            · exact ha h.symm
            · exact this.1 h
          · intro x hx
            rcases List.mem_cons.mp hx with h | h
            · subst h; exact List.mem_cons_self ..
            · exact List.mem_cons_of_mem _ (this.2 x h)
        · exact absurd hl (splitSlash_ne_nil s)
      · have := ih h
        exact ⟨this.1, fun x hx => List.mem_cons_of_mem _ (this.2 x hx)⟩

theorem joinSlash_cons_cons (a b : Str) (t : List Str) : joinSlash (a :: b :: t) = a ++ '/' :: joinSlash (b :: t) := rfl
theorem joinSlash_single (a : Str) : joinSlash [a] = a := rfl

theorem joinSlash_cons_of_ne_nil (a : Str) (l : List Str) (h : l ≠ []) : joinSlash (a :: l) = a ++ '/' :: joinSlash l := by
  cases l with
  | nil => exact absurd rfl h
  | cons b t => rfl

theorem joinSlash_consHead (c : Char) (l : List Str) (h : l ≠ []) : joinSlash (consHead c l) = c :: joinSlash l := by
  cases l with
  | nil => exact absurd rfl h
  | cons a t =>
    cases t with
    | nil => rfl
    | cons b t => rfl

theorem joinSlash_splitSlash (s : Str) : joinSlash (splitSlash s) = s := by
  induction s with
  | nil => rfl
  | cons c s ih =>
    by_cases hc : c = '/'
    · subst hc
      rw [splitSlash_cons_slash, joinSlash_cons_of_ne_nil _ _ (splitSlash_ne_nil s), ih]
      rfl
    · rw [splitSlash_cons_ne _ _ hc, joinSlash_consHead _ _ (splitSlash_ne_nil s), ih]

theorem splitSlash_noslash {a : Str} (h : '/' ∉ a) : splitSlash a = [a] := by
  induction a with
  | nil => rfl
  | cons c a ih =>
    have hc : c ≠ '/' := fun e => h (e ▸ List.mem_cons_self ..)
    have ha : '/' ∉ a := fun m => h (List.mem_cons_of_mem _ m)
    rw [splitSlash_cons_ne _ _ hc, ih ha]
    rfl

theorem splitSlash_joinSlash {cs : List Str} (hne : cs ≠ []) (h : ∀ c ∈ cs, '/' ∉ c) : splitSlash (joinSlash cs) = cs := by
  induction cs with
  | nil => exact absurd rfl hne
  | cons a t ih =>
    cases t with
    | nil => exact splitSlash_noslash (h a (List.mem_cons_self ..))
    | cons b t =>
      rw [joinSlash_cons_cons, splitSlash_append_slash, splitSlash_noslash (h a (List.mem_cons_self ..)),
        ih (by simp) (fun c hc => h c (List.mem_cons_of_mem _ hc))]
      rfl

theorem joinSlash_append {a b : List Str} (ha : a ≠ []) (hb : b ≠ []) :
    joinSlash (a ++ b) = joinSlash a ++ '/' :: joinSlash b := by
  induction a with
  | nil => exact absurd rfl ha
  | cons x t ih =>
    cases t with
    | nil =>
      show joinSlash (x :: b) = x ++ '/' :: joinSlash b
      exact joinSlash_cons_of_ne_nil _ _ hb
    | cons y t =>
      show joinSlash (x :: ((y :: t) ++ b)) = _
      rw [joinSlash_cons_of_ne_nil _ _ (by simp), ih (by simp), joinSlash_cons_cons]
      simp

theorem mem_joinSlash {cs : List Str} {x : Char} (h : x ∈ joinSlash cs) : x = '/' ∨ ∃ c ∈ cs, x ∈ c := by
  induction cs with
  | nil => simp [joinSlash] at h
  | cons a t ih =>
    cases t with
    | nil => exact .inr ⟨a, List.mem_cons_self .., h⟩
    | cons b t =>
      rw [joinSlash_cons_cons] at h
      rcases List.mem_append.mp h with h | h
      · exact .inr ⟨a, List.mem_cons_self .., h⟩
      · rcases List.mem_cons.mp h with h | h
        · exact .inl h
        · rcases ih h with h | ⟨c, hc, hx⟩
          · exact .inl h
          · exact .inr ⟨c, List.mem_cons_of_mem _ hc, hx⟩

theorem joinSlash_head {a : Str} {t : List Str} {c : Char} {r : Str} (h : a = c :: r) :
    ∃ r', joinSlash (a :: t) = c :: r' := by
  subst h
  cases t with
  | nil => exact ⟨r, rfl⟩
  | cons b t => exact ⟨r ++ '/' :: joinSlash (b :: t), rfl⟩

/-! ## path.Clean on component lists without `..` -/

/-- kept by `path.Clean` when no `..` is around -/
def keepC (c : Str) : Bool := decide (c ≠ [] ∧ c ≠ dot)

/-- an ordinary component -/
def Normal (c : Str) : Prop := c ≠ [] ∧ c ≠ dot ∧ c ≠ dotdot ∧ '/' ∉ c

theorem cleanStep_skip {r : Bool} {st : List Str} {c : Str} (h : c = [] ∨ c = dot) : cleanStep r st c = st := by
  simp [cleanStep, h]

theorem cleanStep_push {r : Bool} {st : List Str} {c : Str} (h1 : c ≠ []) (h2 : c ≠ dot) (h3 : c ≠ dotdot) :
    cleanStep r st c = c :: st := by
  simp [cleanStep, h1, h2, h3]

theorem foldl_cleanStep_nodotdot (r : Bool) (cs : List Str) (h : ∀ c ∈ cs, c ≠ dotdot) (st : List Str) :
    cs.foldl (cleanStep r) st = (cs.filter keepC).reverse ++ st := by
  induction cs generalizing st with
  | nil => rfl
  | cons c cs ih =>
    have hc : c ≠ dotdot := h c (List.mem_cons_self ..)
    have ht : ∀ c ∈ cs, c ≠ dotdot := fun x hx => h x (List.mem_cons_of_mem _ hx)
    rw [List.foldl_cons, ih ht]
    by_cases hk : c = [] ∨ c = dot
    · have : keepC c = false := by
        unfold keepC
        rcases hk with hk | hk <;> simp [hk]
      rw [cleanStep_skip hk, List.filter_cons_of_neg (by simp [this])]
    · have hk' : c ≠ [] ∧ c ≠ dot := by
        constructor
        · exact fun e => hk (.inl e)
        · exact fun e => hk (.inr e)
      have : keepC c = true := by simp [keepC, hk'.1, hk'.2]
      rw [cleanStep_push hk'.1 hk'.2 hc, List.filter_cons_of_pos this]
      simp

theorem cleanComps_nodotdot (r : Bool) (cs : List Str) (h : ∀ c ∈ cs, c ≠ dotdot) :
    cleanComps r cs = cs.filter keepC := by
  unfold cleanComps
  rw [foldl_cleanStep_nodotdot r cs h]
  simp

theorem filter_keepC_normal {K : List Str} (h : ∀ c ∈ K, Normal c) : K.filter keepC = K := by
  apply List.filter_eq_self.mpr
  intro c hc
  have := h c hc
  simp [keepC, this.1, this.2.1]

/-- appending ordinary components to any prefix only pushes them -/
theorem cleanComps_append_normal (r : Bool) (xs K : List Str) (h : ∀ c ∈ K, Normal c) :
    cleanComps r (xs ++ K) = cleanComps r xs ++ K := by
  unfold cleanComps
  rw [List.foldl_append, foldl_cleanStep_nodotdot r K (fun c hc => (h c hc).2.2.1), filter_keepC_normal h]
  simp

/-- every component kept by `cleanStep` is non-empty -/
theorem foldl_cleanStep_nonempty (r : Bool) (cs : List Str) (st : List Str) (hst : ∀ c ∈ st, c ≠ []) :
    ∀ c ∈ cs.foldl (cleanStep r) st, c ≠ [] := by
  induction cs generalizing st with
  | nil => exact hst
  | cons c cs ih =>
    rw [List.foldl_cons]
    apply ih
    intro x hx
    unfold cleanStep at hx
    split at hx
    · exact hst x hx
    · split at hx
      · rename_i hdd
        split at hx
        · split at hx
          · simp at hx
          · simp at hx; subst hx; simp [dotdot]
        · rename_i top rest
          split at hx
          · split at hx
            · exact hst x hx
            · rcases List.mem_cons.mp hx with h | h
              · subst h; simp [dotdot]
              · exact hst x h
          · exact hst x (List.mem_cons_of_mem _ hx)
      · rename_i h1 h2
        rcases List.mem_cons.mp hx with h | h
        · subst h
          exact fun e => h1 (.inl e)
        · exact hst x h

theorem cleanComps_nonempty (r : Bool) (cs : List Str) : ∀ c ∈ cleanComps r cs, c ≠ [] := by
  intro c hc
  unfold cleanComps at hc
  exact foldl_cleanStep_nonempty r cs [] (by simp) c (List.mem_reverse.mp hc)

theorem joinSlash_ne_nil {B : List Str} (hne : B ≠ []) (h : ∀ c ∈ B, c ≠ []) : joinSlash B ≠ [] := by
  cases B with
  | nil => exact absurd rfl hne
  | cons a t =>
    have ha : a ≠ [] := h a (List.mem_cons_self ..)
    cases a with
    | nil => exact absurd rfl ha
    | cons c r =>
      obtain ⟨r', hr⟩ := joinSlash_head (a := c :: r) (t := t) rfl
      rw [hr]; simp

/-! ## sanitize -/

theorem isAbs_cons (c : Char) (s : Str) : isAbs (c :: s) = decide (c = '/') := rfl

/-- structure of an accepted name: the slash-join of a non-empty list of ordinary components without backslash -/
theorem sanitize_ok_struct {n p : Str} (h : sanitize n = .ok p) :
    ∃ K : List Str, K ≠ [] ∧ (∀ c ∈ K, Normal c ∧ '\\' ∉ c) ∧ p = joinSlash K ∧
      K = (splitSlash (trimSpace n)).filter keepC := by
  unfold sanitize at h
  simp only at h
  split at h
  · cases h
  · rename_i hne
    split at h
    · cases h
    · rename_i hbs
      split at h
      · cases h
      · rename_i habs
        split at h
        · cases h
        · rename_i hdd
          split at h
          · cases h
          · rename_i hinv
            injection h with h
            have hnd : ∀ c ∈ splitSlash (trimSpace n), c ≠ dotdot := fun c hc e => hdd (e ▸ hc)
            have habs' : isAbs (trimSpace n) = false := by
              cases hb : isAbs (trimSpace n) with
              | false => rfl
              | true => simp [hb] at habs
            have hcl : pathClean (trimSpace n) =
                (if (splitSlash (trimSpace n)).filter keepC = [] then dot else joinSlash ((splitSlash (trimSpace n)).filter keepC)) := by
              unfold pathClean
              rw [if_neg hne, habs', cleanComps_nodotdot false _ hnd]
              simp
            refine ⟨(splitSlash (trimSpace n)).filter keepC, ?_, ?_, ?_, rfl⟩
            · intro he
              apply hinv
              left
              rw [hcl, if_pos he]
            · intro c hc
              have hm := List.mem_filter.mp hc
              have hk : c ≠ [] ∧ c ≠ dot := by simpa [keepC] using hm.2
              have hs := mem_splitSlash hm.1
              refine ⟨⟨hk.1, hk.2, hnd c hm.1, hs.1⟩, ?_⟩
              intro hb
              exact hbs (hs.2 _ hb)
            · rw [← h, hcl]
              split
              · rename_i he
                exfalso
                apply hinv
                left
                rw [hcl, if_pos he]
              · rfl

theorem splitSlash_of_normals {K : List Str} (hne : K ≠ []) (h : ∀ c ∈ K, Normal c) : splitSlash (joinSlash K) = K :=
  splitSlash_joinSlash hne (fun c hc => (h c hc).2.2.2)

/-- joining an accepted relative path to an absolute directory: `Clean(out + "/" + p)` is literally
`Clean(out)` followed by `/` and `p`. -/
theorem joinOut_normals {out : Str} {K : List Str} (habs : isAbs out = true) (hne : K ≠ []) (h : ∀ c ∈ K, Normal c) :
    joinOut out (joinSlash K) = joinUnder (pathClean out) (joinSlash K) := by
  have hout : out ≠ [] := by
    intro e; subst e; simp [isAbs] at habs
  have habs2 : isAbs (out ++ '/' :: joinSlash K) = true := by
    cases out with
    | nil => exact absurd rfl hout
    | cons c r => simpa [isAbs] using habs
  unfold joinOut
  have h1 : pathClean (out ++ '/' :: joinSlash K) =
      '/' :: joinSlash (cleanComps true (splitSlash out) ++ K) := by
    unfold pathClean
    rw [if_neg (by simp), habs2]
    simp only [if_true]
    rw [splitSlash_append_slash, splitSlash_of_normals hne h, cleanComps_append_normal true _ _ h]
  have h2 : pathClean out = '/' :: joinSlash (cleanComps true (splitSlash out)) := by
    unfold pathClean
    rw [if_neg hout, habs]
    simp
  rw [h1, h2]
  unfold joinUnder
  by_cases hB : cleanComps true (splitSlash out) = []
  · rw [hB]
    simp [joinSlash]
  · have hj : joinSlash (cleanComps true (splitSlash out)) ≠ [] :=
      joinSlash_ne_nil hB (cleanComps_nonempty true _)
    rw [if_neg (by simpa using hj), joinSlash_append hB hne]
    simp

/-! ## shape and idempotence of `path.Clean`, for every input -/
/-- shape of the (reversed) stack of kept components: ordinary components on top of a block of `..`,
and no `..` at all when the path is rooted -/
def StackInv (rooted : Bool) (st : List Str) : Prop :=
  ∃ ns n, st = ns ++ List.replicate n dotdot ∧ (∀ c ∈ ns, c ≠ [] ∧ c ≠ dot ∧ c ≠ dotdot) ∧ (rooted = true → n = 0)

theorem cleanStep_inv (rooted : Bool) (st : List Str) (c : Str) (h : StackInv rooted st) : StackInv rooted (cleanStep rooted st c) := by
  obtain ⟨ns, n, hst, hns, hr⟩ := h
  unfold cleanStep
  split
  · exact ⟨ns, n, hst, hns, hr⟩
  · rename_i hskip
    split
    · -- c = ".."
      cases ns with
      | nil =>
        cases n with
        | zero =>
          simp at hst; subst hst
          cases rooted with
          | true => exact ⟨[], 0, by simp, by simp, fun _ => rfl⟩
          | false => exact ⟨[], 1, by simp [List.replicate], by simp, by simp⟩
        | succ n =>
          have : st = dotdot :: List.replicate n dotdot := by simpa [List.replicate_succ] using hst
          subst this
          simp only [if_true]
          cases rooted with
          | true => exact absurd (hr rfl) (by simp)
          | false =>
            refine ⟨[], n + 2, ?_, by simp, by simp⟩
            simp [List.replicate_succ]
      | cons a ns' =>
        have : st = a :: (ns' ++ List.replicate n dotdot) := by simpa using hst
        subst this
        have ha := hns a (List.mem_cons_self ..)
        simp only [ha.2.2, if_false]
        exact ⟨ns', n, rfl, fun c hc => hns c (List.mem_cons_of_mem _ hc), hr⟩
    · rename_i hdd
      refine ⟨c :: ns, n, by simp [hst], ?_, hr⟩
      intro x hx
      rcases List.mem_cons.mp hx with e | e
      · subst e
        exact ⟨fun e => hskip (.inl e), fun e => hskip (.inr e), hdd⟩
      · exact hns x e

theorem foldl_cleanStep_inv (rooted : Bool) (cs : List Str) (st : List Str) (h : StackInv rooted st) :
    StackInv rooted (cs.foldl (cleanStep rooted) st) := by
  induction cs generalizing st with
  | nil => exact h
  | cons c cs ih => exact ih _ (cleanStep_inv rooted st c h)

/-- Shape of `path.Clean`'s component list for EVERY input: some `..` in front (none when rooted), then
only ordinary components — never an empty one, never `.`, never a `..` after an ordinary component. -/
theorem cleanComps_shape (rooted : Bool) (cs : List Str) :
    ∃ n ns, cleanComps rooted cs = List.replicate n dotdot ++ ns ∧
      (∀ c ∈ ns, c ≠ [] ∧ c ≠ dot ∧ c ≠ dotdot) ∧ (rooted = true → n = 0) := by
  obtain ⟨ns, n, hst, hns, hr⟩ := foldl_cleanStep_inv rooted cs [] ⟨[], 0, rfl, by simp, fun _ => rfl⟩
  refine ⟨n, ns.reverse, ?_, fun c hc => hns c (List.mem_reverse.mp hc), hr⟩
  unfold cleanComps
  rw [hst]
  simp



/-- kept components come from the input (or are `..`), so they contain no separator -/
theorem foldl_cleanStep_noslash (rooted : Bool) (cs : List Str) (st : List Str)
    (hcs : ∀ c ∈ cs, '/' ∉ c) (hst : ∀ c ∈ st, '/' ∉ c) : ∀ c ∈ cs.foldl (cleanStep rooted) st, '/' ∉ c := by
  induction cs generalizing st with
  | nil => exact hst
  | cons c cs ih =>
    rw [List.foldl_cons]
    apply ih _ (fun x hx => hcs x (List.mem_cons_of_mem _ hx))
    intro x hx
    have hc := hcs c (List.mem_cons_self ..)
    have hdd : '/' ∉ dotdot := by decide
    unfold cleanStep at hx
    split at hx
    · exact hst x hx
    · split at hx
      · split at hx
        · split at hx
          · simp at hx
          · simp at hx; subst hx; exact hdd
        · split at hx
          · split at hx
            · exact hst x hx
            · rcases List.mem_cons.mp hx with e | e
              · subst e; exact hdd
              · exact hst x e
          · exact hst x (List.mem_cons_of_mem _ hx)
      · rcases List.mem_cons.mp hx with e | e
        · subst e; exact hc
        · exact hst x e

theorem cleanComps_noslash (rooted : Bool) (s : Str) : ∀ c ∈ cleanComps rooted (splitSlash s), '/' ∉ c := by
  intro c hc
  unfold cleanComps at hc
  exact foldl_cleanStep_noslash rooted _ [] (fun x hx => (mem_splitSlash hx).1) (by simp) c (List.mem_reverse.mp hc)

theorem replicate_append_cons {α : Type} (n : Nat) (a : α) (l : List α) :
    List.replicate n a ++ a :: l = a :: (List.replicate n a ++ l) := by
  induction n with
  | zero => rfl
  | succ n ih => rw [List.replicate_succ, List.cons_append, ih, List.cons_append]

theorem foldl_cleanStep_dotdots (n : Nat) (st : List Str) (h : ∀ c ∈ st, c = dotdot) :
    (List.replicate n dotdot).foldl (cleanStep false) st = List.replicate n dotdot ++ st := by
  induction n generalizing st with
  | zero => rfl
  | succ n ih =>
    rw [List.replicate_succ, List.foldl_cons]
    have hstep : cleanStep false st dotdot = dotdot :: st := by
      unfold cleanStep
      rw [if_neg (by decide), if_pos rfl]
      cases st with
      | nil => rfl
      | cons a t =>
        have : a = dotdot := h a (List.mem_cons_self ..)
        subst this
        simp
    rw [hstep, ih _ (by intro c hc; rcases List.mem_cons.mp hc with e | e; exact e; exact h c e)]
    rw [replicate_append_cons, List.cons_append]

/-- the cleaned component list is a fixpoint of the component cleaner -/
theorem cleanComps_fix {rooted : Bool} {n : Nat} {ns : List Str}
    (hns : ∀ c ∈ ns, c ≠ [] ∧ c ≠ dot ∧ c ≠ dotdot) (hr : rooted = true → n = 0) :
    cleanComps rooted (List.replicate n dotdot ++ ns) = List.replicate n dotdot ++ ns := by
  have hpush : ∀ (st : List Str), ns.foldl (cleanStep rooted) st = ns.reverse ++ st := by
    intro st
    rw [foldl_cleanStep_nodotdot rooted ns (fun c hc => (hns c hc).2.2)]
    congr 2
    apply List.filter_eq_self.mpr
    intro c hc
    simp [keepC, (hns c hc).1, (hns c hc).2.1]
  unfold cleanComps
  rw [List.foldl_append]
  cases rooted with
  | true =>
    rw [hr rfl]
    simp [hpush]
  | false =>
    rw [foldl_cleanStep_dotdots n [] (by simp), hpush]
    simp

theorem pathClean_idempotent (s : Str) : pathClean (pathClean s) = pathClean s := by
  by_cases hs : s = []
  · subst hs; decide
  · by_cases habs : isAbs s = true
    · -- rooted
      obtain ⟨n, ns, hL, hns, hr⟩ := cleanComps_shape true (splitSlash s)
      have hn : n = 0 := hr rfl
      subst hn
      simp only [List.replicate_zero, List.nil_append] at hL
      have hc : pathClean s = '/' :: joinSlash ns := by
        unfold pathClean; rw [if_neg hs, if_pos habs, hL]
      rw [hc]
      have hnoslash : ∀ c ∈ ns, '/' ∉ c := by
        intro c hc'; exact cleanComps_noslash true s c (hL ▸ hc')
      unfold pathClean
      rw [if_neg (by simp), if_pos (by simp [isAbs])]
      congr 2
      by_cases hnil : ns = []
      · subst hnil; decide
      · rw [splitSlash_cons_slash, splitSlash_joinSlash hnil hnoslash]
        have := cleanComps_fix (rooted := true) (n := 0) (ns := ns) hns (fun _ => rfl)
        simp only [List.replicate_zero, List.nil_append] at this
        unfold cleanComps at this ⊢
        rw [List.foldl_cons, cleanStep_skip (.inl rfl)]
        exact this
    · -- not rooted
      have habs' : isAbs s = false := by cases h : isAbs s <;> simp_all
      obtain ⟨n, ns, hL, hns, _⟩ := cleanComps_shape false (splitSlash s)
      by_cases hnil : cleanComps false (splitSlash s) = []
      · have hc : pathClean s = dot := by
          unfold pathClean; rw [if_neg hs, habs', hnil]; simp
        rw [hc]; decide
      · have hc : pathClean s = joinSlash (cleanComps false (splitSlash s)) := by
          unfold pathClean; rw [if_neg hs, habs']; simp [hnil]
        have hnoslash := cleanComps_noslash false s
        have hne := cleanComps_nonempty false (splitSlash s)
        rw [hc]
        generalize cleanComps false (splitSlash s) = L at hL hnil hnoslash hne
        have hj : joinSlash L ≠ [] := joinSlash_ne_nil hnil hne
        have hnabs : isAbs (joinSlash L) = false := by
          cases L with
          | nil => exact absurd rfl hnil
          | cons a t =>
            have ha := hne a (List.mem_cons_self ..)
            cases a with
            | nil => exact absurd rfl ha
            | cons c r =>
              obtain ⟨r', hr'⟩ := joinSlash_head (a := c :: r) (t := t) rfl
              rw [hr', isAbs_cons]
              have : c ≠ '/' := fun e => hnoslash _ (List.mem_cons_self ..) (e ▸ List.mem_cons_self ..)
              simp [this]
        have hfix : cleanComps false L = L := by
          rw [hL]; exact cleanComps_fix hns (fun h => by cases h)
        unfold pathClean
        rw [if_neg hj, hnabs, splitSlash_joinSlash hnil hnoslash]
        simp [hfix, hnil]

/-! ## extraction loop -/

def keysOf (fs : FS) : List Str := fs.map (·.1)

theorem FS.has_eq_true {fs : FS} {p : Str} : fs.has p = true ↔ p ∈ keysOf fs := by
  unfold FS.has keysOf
  simp [List.any_eq_true]

/-- provenance of a file written by the loop: a regular entry of the archive with a complete body,
created at the join of the output directory with the entry's SANITISED name -/
def WrittenBy (out : Str) (items : List Item) (pb : Str × Bytes) : Prop :=
  ∃ e rel, Item.entry e ∈ items ∧ sanitize e.name = .ok rel ∧ pb.1 = joinOut out rel ∧ pb.2 = e.body ∧
    (e.typ = typeReg ∨ e.typ = typeRegA) ∧ (e.body.length : Int) = e.size

theorem WrittenBy.mono {out : Str} {items items' : List Item} {pb : Str × Bytes}
    (h : WrittenBy out items pb) (hs : ∀ x ∈ items, x ∈ items') : WrittenBy out items' pb := by
  obtain ⟨e, rel, hm, r⟩ := h
  exact ⟨e, rel, hs _ hm, r⟩

theorem extractOne_cases (refuse : Str → Bool) (out : Str) (st : XState) (it : Item) :
    ((extractOne refuse out st it).err.isSome = true ∧ (extractOne refuse out st it).st.fs = st.fs) ∨
    ((extractOne refuse out st it).err = none ∧ ∃ e rel, it = .entry e ∧ sanitize e.name = .ok rel ∧
      (e.typ = typeReg ∨ e.typ = typeRegA) ∧ (e.body.length : Int) = e.size ∧ rel ∉ st.seen ∧
      st.fs.has (joinOut out rel) = false ∧
      (extractOne refuse out st it).st = ⟨(joinOut out rel, e.body) :: st.fs, rel :: st.seen⟩) := by
  cases it with
  | corrupt => left; simp [extractOne]
  | entry e =>
    cases hs : sanitize e.name with
    | error pe => left; simp [extractOne, hs]
    | ok rel =>
      simp only [extractOne, hs]
      split
      · left; simp
      · rename_i hseen
        split
        · left; simp
        · rename_i htyp
          split
          · left; simp
          · split
            · left; simp
            · split
              · left; simp
              · rename_i hhas
                split
                · left; simp
                · rename_i hsize
                  right
                  refine ⟨rfl, e, rel, rfl, hs, ?_, ?_, hseen, ?_, rfl⟩
                  · by_cases h1 : e.typ = typeReg
                    · exact .inl h1
                    · by_cases h2 : e.typ = typeRegA
                      · exact .inr h2
                      · exact absurd ⟨h1, h2⟩ htyp
                  · exact Classical.not_not.mp hsize
                  · cases hh : st.fs.has (joinOut out rel) with
                    | false => rfl
                    | true => exact absurd hh hhas

theorem extractLoop_nil (refuse : Str → Bool) (out : Str) (st : XState) : extractLoop refuse out [] st = ⟨st, none⟩ := rfl
theorem extractLoop_cons (refuse : Str → Bool) (out : Str) (it : Item) (rest : List Item) (st : XState) :
    extractLoop refuse out (it :: rest) st =
      if (extractOne refuse out st it).err.isSome then extractOne refuse out st it
      else extractLoop refuse out rest (extractOne refuse out st it).st := rfl

theorem extractLoop_inv (refuse : Str → Bool) (out : Str) : ∀ (items : List Item) (st : XState),
    ∃ added : FS, (extractLoop refuse out items st).st.fs = added ++ st.fs ∧ (∀ pb ∈ added, WrittenBy out items pb) ∧
      ((keysOf st.fs).Nodup → (keysOf (added ++ st.fs)).Nodup) := by
  intro items
  induction items with
  | nil => intro st; exact ⟨[], rfl, by simp, by simp⟩
  | cons it rest ih =>
    intro st
    rw [extractLoop_cons]
    rcases extractOne_cases refuse out st it with ⟨he, hfs⟩ | ⟨he, e, rel, hit, hsan, htyp, hsize, hseen, hhas, hst⟩
    · rw [if_pos he]
      exact ⟨[], by simpa using hfs, by simp, by simp⟩
    · rw [if_neg (by simp [he])]
      obtain ⟨added, hfs, hw, hnd⟩ := ih (extractOne refuse out st it).st
      rw [hst] at hfs hnd
      refine ⟨added ++ [(joinOut out rel, e.body)], ?_, ?_, ?_⟩
      · rw [hst, hfs]; simp
      · intro pb hpb
        rcases List.mem_append.mp hpb with h | h
        · exact (hw pb h).mono (fun x hx => List.mem_cons_of_mem _ hx)
        · simp at h
          subst h
          exact ⟨e, rel, by simp [hit], hsan, rfl, rfl, htyp, hsize⟩
      · intro hn
        have hnot : joinOut out rel ∉ keysOf st.fs := by
          intro hm
          have := FS.has_eq_true.mpr hm
          rw [hhas] at this
          cases this
        have : (keysOf ((joinOut out rel, e.body) :: st.fs)).Nodup := by
          simp only [keysOf, List.map_cons, List.nodup_cons]
          exact ⟨hnot, hn⟩
        have := hnd this
        simpa using this

/-! ## frames -/

section Frames
variable {K H C : Type}

/-- symbolic freeness: sealing is injective in key, additional data and plaintext jointly -/
def Aead.Free (A : Aead K (Aad H) C) : Prop :=
  ∀ k a p k' a' p', A.sealIt k a p = A.sealIt k' a' p' → k = k' ∧ a = a' ∧ p = p'

def cts (fs : List (Frame C)) : List C := fs.map (·.ct)

theorem writeFrom_nil (A : Aead K (Aad H) C) (k : K) (hh : H) (i : Nat) :
    writeFrom A k hh i [] = [⟨frameFinal, A.sealIt k ⟨hh, i, frameFinal⟩ []⟩] := rfl
theorem writeFrom_cons (A : Aead K (Aad H) C) (k : K) (hh : H) (i : Nat) (c : Bytes) (cs : List Bytes) :
    writeFrom A k hh i (c :: cs) = ⟨frameData, A.sealIt k ⟨hh, i, frameData⟩ c⟩ :: writeFrom A k hh (i + 1) cs := rfl

theorem mem_cts_writeFrom (A : Aead K (Aad H) C) (k : K) (hh : H) : ∀ (cs : List Bytes) (i : Nat) (c : C),
    c ∈ cts (writeFrom A k hh i cs) →
      (∃ j p, cs[j]? = some p ∧ c = A.sealIt k ⟨hh, i + j, frameData⟩ p) ∨
      c = A.sealIt k ⟨hh, i + cs.length, frameFinal⟩ [] := by
  intro cs
  induction cs with
  | nil =>
    intro i c h
    simp [writeFrom_nil, cts] at h
    right; simpa using h
  | cons x cs ih =>
    intro i c h
    rw [writeFrom_cons] at h
    simp only [cts, List.map_cons, List.mem_cons] at h
    rcases h with h | h
    · left; exact ⟨0, x, rfl, by simpa using h⟩
    · rcases ih (i + 1) c h with ⟨j, p, hj, hc⟩ | hc
      · left
        refine ⟨j + 1, p, by simpa using hj, ?_⟩
        rw [hc]; congr 2; omega
      · right
        rw [hc]; congr 2; simp; omega

theorem consChunk_ok {p : Bytes} {r : Except FErr (List Bytes)} {ps : List Bytes} (h : consChunk p r = .ok ps) :
    ∃ ps', r = .ok ps' ∧ ps = p :: ps' := by
  cases r with
  | error e => simp [consChunk] at h
  | ok ps' =>
    simp [consChunk] at h
    exact ⟨ps', rfl, h.symm⟩

theorem readFrames_cons (A : Aead K (Aad H) C) (k : K) (hh : H) (i : Nat) (f : Frame C) (rest : List (Frame C)) (tail : Tail) :
    readFrames A k hh i (f :: rest) tail =
      if f.typ ≠ frameData ∧ f.typ ≠ frameFinal then .error .badType
      else match A.openIt k ⟨hh, i, f.typ⟩ f.ct with
        | none => .error .decrypt
        | some p =>
          if f.typ = frameFinal then
            if p ≠ [] then .error .finalPlaintext
            else if rest ≠ [] ∨ tail ≠ Tail.clean then .error .trailing
            else .ok []
          else consChunk p (readFrames A k hh (i + 1) rest tail) := by
  rfl

theorem readFrames_nil_ne_ok (A : Aead K (Aad H) C) (k : K) (hh : H) (i : Nat) (tail : Tail) (ps : List Bytes) :
    readFrames A k hh i [] tail ≠ .ok ps := by
  cases tail <;> simp [readFrames]

/-- Core of `frames_authentic`: reading from index `i` with the archive's remaining chunks `cs`. -/
theorem readFrames_exact (A : Aead K (Aad H) C) (hfree : Aead.Free A) (k : K) (hh0 : H) (chunks : List Bytes) :
    ∀ (fs : List (Frame C)) (i : Nat) (pre cs : List Bytes) (hh : H) (tail : Tail) (ps : List Bytes),
      chunks = pre ++ cs → pre.length = i →
      (∀ f ∈ fs, (∃ a p, f.ct = A.sealIt k a p) → f.ct ∈ cts (writeFrames A k hh0 chunks)) →
      readFrames A k hh i fs tail = .ok ps →
      hh = hh0 ∧ fs = writeFrom A k hh0 i cs ∧ tail = Tail.clean ∧ ps = cs := by
  intro fs
  induction fs with
  | nil =>
    intro i pre cs hh tail ps _ _ _ h
    exact absurd h (readFrames_nil_ne_ok A k hh i tail ps)
  | cons f rest ih =>
    intro i pre cs hh tail ps hch hlen hauth h
    rw [readFrames_cons] at h
    split at h
    · cases h
    · split at h
      · cases h
      · rename_i p hopen
        have hct : f.ct = A.sealIt k ⟨hh, i, f.typ⟩ p := (A.openIt_iff _ _ _ _).mp hopen
        have hmem := hauth f (List.mem_cons_self ..) ⟨_, _, hct⟩
        have hauth' : ∀ g ∈ rest, (∃ a p, g.ct = A.sealIt k a p) → g.ct ∈ cts (writeFrames A k hh0 chunks) :=
          fun g hg => hauth g (List.mem_cons_of_mem _ hg)
        unfold writeFrames at hmem
        rcases mem_cts_writeFrom A k hh0 chunks 0 f.ct hmem with ⟨j, q, hj, hc⟩ | hc
        · -- a data frame of the archive
          rw [hct] at hc
          obtain ⟨_, ha, hp⟩ := hfree _ _ _ _ _ _ hc
          injection ha with h1 h2 h3
          simp only [Nat.zero_add] at h2
          subst h1; subst hp
          have hty : f.typ = frameData := h3
          rw [if_neg (by rw [hty]; decide)] at h
          obtain ⟨ps', hr, hps⟩ := consChunk_ok h
          -- chunks[i] = p and chunks = pre ++ cs with |pre| = i, so cs = p :: cs'
          have hcs : cs[0]? = some p := by
            rw [hch, ← h2, ← hlen, List.getElem?_append_right (Nat.le_refl _)] at hj
            simpa using hj
          cases cs with
          | nil => simp at hcs
          | cons c cs' =>
            simp at hcs
            subst hcs
            obtain ⟨e1, e2, e3, e4⟩ := ih (i + 1) (pre ++ [c]) cs' hh tail ps' (by simp [hch]) (by simp [hlen]) hauth' hr
            refine ⟨rfl, ?_, e3, ?_⟩
            · rw [writeFrom_cons, ← e2]
              congr 1
              cases f with
              | mk t c' => simp at hty hct; subst hty; rw [hct]
            · rw [hps, e4]
        · -- the final frame of the archive
          rw [hct] at hc
          obtain ⟨_, ha, hp⟩ := hfree _ _ _ _ _ _ hc
          injection ha with h1 h2 h3
          subst h1
          have hty : f.typ = frameFinal := h3
          rw [if_pos hty] at h
          subst hp
          simp only [ne_eq, not_true_eq_false, if_false] at h
          split at h
          · cases h
          · rename_i hnt
            have hrest : rest = [] := Classical.not_not.mp (fun e => hnt (.inl e))
            have htail : tail = Tail.clean := Classical.not_not.mp (fun e => hnt (.inr e))
            have hcs : cs = [] := by
              have : pre.length + cs.length = chunks.length := by rw [hch]; simp
              have : cs.length = 0 := by simp only [Nat.zero_add] at h2; omega
              exact List.eq_nil_of_length_eq_zero this
            subst hcs hrest
            injection h with h
            refine ⟨rfl, ?_, htail, h.symm⟩
            rw [writeFrom_nil]
            cases f with
            | mk t c' => simp at hty hct; subst hty; rw [hct]

/-! ### end-of-stream check over the reader contract -/

theorem requireEOF_clean {r : ReadRes} (h : requireEOF r = .clean) : r.n = 0 ∧ r.eof = true := by
  unfold requireEOF at h
  split at h
  · cases h
  · rename_i hn
    split at h
    · rename_i he
      exact ⟨by omega, he⟩
    · cases h

theorem readFramesVia_cons (A : Aead K (Aad H) C) (k : K) (hh : H) (probe : Probe) (i : Nat) (f : Frame C)
    (rest : List (Frame C)) (tail : Tail) :
    readFramesVia A k hh probe i (f :: rest) tail =
      if f.typ ≠ frameData ∧ f.typ ≠ frameFinal then .error .badType
      else match A.openIt k ⟨hh, i, f.typ⟩ f.ct with
        | none => .error .decrypt
        | some p =>
          if f.typ = frameFinal then
            if p ≠ [] then .error .finalPlaintext
            else match requireEOF (probe (decide (rest = [] ∧ tail = Tail.clean))) with
              | .clean => .ok []
              | .trailing => .error .trailing
              | .noEof => .error .noEof
          else consChunk p (readFramesVia A k hh probe (i + 1) rest tail) := by
  rfl

/-- whatever a contract-abiding reader answers to the probe, acceptance implies acceptance by the direct reader -/
theorem readFramesVia_accept (A : Aead K (Aad H) C) (k : K) (hh : H) (probe : Probe) (hv : probe.Valid) :
    ∀ (fs : List (Frame C)) (i : Nat) (tail : Tail) (ps : List Bytes),
      readFramesVia A k hh probe i fs tail = .ok ps → readFrames A k hh i fs tail = .ok ps := by
  intro fs
  induction fs with
  | nil =>
    intro i tail ps h
    cases tail <;> simp [readFramesVia] at h
  | cons f rest ih =>
    intro i tail ps h
    rw [readFramesVia_cons] at h
    rw [readFrames_cons]
    split at h
    · cases h
    · rename_i hty
      rw [if_neg hty]
      split at h
      · cases h
      · rename_i p hopen
        split at h
        · rename_i hfin
          rw [if_pos hfin]
          split at h
          · cases h
          · rename_i hp
            rw [if_neg hp]
            split at h
            · rename_i hclean
              have hc := requireEOF_clean hclean
              by_cases hb : rest = [] ∧ tail = Tail.clean
              · rw [if_neg (by
                  intro hor
                  rcases hor with h1 | h1
                  · exact h1 hb.1
                  · exact h1 hb.2)]
                exact h
              · exfalso
                have : decide (rest = [] ∧ tail = Tail.clean) = false := by simp [hb]
                rw [this] at hc
                exact hv hc
            · cases h
            · cases h
        · rename_i hfin
          rw [if_neg hfin]
          obtain ⟨ps', hr, hps⟩ := consChunk_ok h
          rw [ih (i + 1) tail ps' hr, hps]
          rfl

/-- every frame of a stream accepted through a contract-abiding reader went through the AEAD: each one opened
under the reader's key (nothing is skipped, nothing follows the final frame) -/
theorem readFramesVia_all_open (A : Aead K (Aad H) C) (k : K) (hh : H) (probe : Probe) (hv : probe.Valid) :
    ∀ (fs : List (Frame C)) (i : Nat) (tail : Tail) (ps : List Bytes),
      readFramesVia A k hh probe i fs tail = .ok ps → ∀ f ∈ fs, ∃ a p, A.openIt k a f.ct = some p := by
  intro fs
  induction fs with
  | nil =>
    intro i tail ps h
    cases tail <;> simp [readFramesVia] at h
  | cons f rest ih =>
    intro i tail ps h g hg
    rw [readFramesVia_cons] at h
    split at h
    · cases h
    · split at h
      · cases h
      · rename_i p hopen
        rcases List.mem_cons.mp hg with e | e
        · subst e; exact ⟨_, _, hopen⟩
        · split at h
          · split at h
            · cases h
            · split at h
              · rename_i hclean
                have hc := requireEOF_clean hclean
                by_cases hb : rest = [] ∧ tail = Tail.clean
                · rw [hb.1] at e; cases e
                · exfalso
                  have : decide (rest = [] ∧ tail = Tail.clean) = false := by simp [hb]
                  rw [this] at hc
                  exact hv hc
              · cases h
              · cases h
          · obtain ⟨ps', hr, _⟩ := consChunk_ok h
            exact ih (i + 1) tail ps' hr g e

end Frames

/-! ## Load -/

section Load
variable {D R σ : Type} [DecidableEq D]

/-- what successful verification establishes about one manifest entry -/
def FragBound (E : LoadEnv D R σ) (codec : Nat) (dir : Dir) (f : Frag D) : Prop :=
  ∃ b recs, dir.get f.path = some b ∧ (b.length : Int) = f.cbytes ∧ E.hash b = f.sha ∧
    E.decode codec f.phase b = some recs ∧ (recs.length : Int) = f.count

theorem verifyFrag_some {E : LoadEnv D R σ} {codec : Nat} {dir : Dir} {s s' : σ} {f : Frag D}
    (h : verifyFrag E codec dir s f = some s') : FragBound E codec dir f := by
  unfold verifyFrag at h
  split at h
  · cases h
  · rename_i b hb
    split at h
    · cases h
    · rename_i hlen
      split at h
      · cases h
      · rename_i hsha
        split at h
        · cases h
        · rename_i recs hdec
          split at h
          · cases h
          · split at h
            · cases h
            · rename_i hcount
              exact ⟨b, recs, hb, Classical.not_not.mp hlen, Classical.not_not.mp hsha, hdec, Classical.not_not.mp hcount⟩

theorem verifyFrags_some {E : LoadEnv D R σ} {codec : Nat} {dir : Dir} : ∀ {fs : List (Frag D)} {s s' : σ},
    verifyFrags E codec dir s fs = some s' → ∀ f ∈ fs, FragBound E codec dir f := by
  intro fs
  induction fs with
  | nil => intro s s' _ f hf; cases hf
  | cons x fs ih =>
    intro s s' h f hf
    unfold verifyFrags at h
    split at h
    · cases h
    · rename_i s1 h1
      rcases List.mem_cons.mp hf with e | e
      · subst e; exact verifyFrag_some h1
      · exact ih h f e

theorem verifyGraphs_true {E : LoadEnv D R σ} {codec : Nat} {dir : Dir} : ∀ {gs : List (GraphM D)},
    verifyGraphs E codec dir gs = true → ∀ g ∈ gs, ∀ f ∈ g.files, FragBound E codec dir f := by
  intro gs
  induction gs with
  | nil => intro _ g hg; cases hg
  | cons x gs ih =>
    intro h g hg f hf
    unfold verifyGraphs at h
    split at h
    · cases h
    · rename_i s1 h1
      rcases List.mem_cons.mp hg with e | e
      · subst e; exact verifyFrags_some h1 f hf
      · exact ih h g e f hf

theorem load_batch_implies (E : LoadEnv D R σ) (m : Man D) (dir : Dir) (ev : Ev R)
    (hev : ev ∈ (load E m dir).trace) (hb : ev.isBatch = true) :
    m.validate E.emptySha = true ∧ verifyGraphs E m.codec dir m.graphs = true ∧ (load E m dir).err = none ∧
      ∃ rest, (load E m dir).trace = .verifiedAll :: rest := by
  unfold load at hev ⊢
  split at hev
  · simp at hev
  · rename_i hval
    split at hev
    · simp at hev
    · rename_i hver
      have hval' : m.validate E.emptySha = true := by
        cases h : m.validate E.emptySha with
        | true => rfl
        | false => exact absurd h hval
      have hver' : verifyGraphs E m.codec dir m.graphs = true := by
        cases h : verifyGraphs E m.codec dir m.graphs with
        | true => rfl
        | false => exact absurd h hver
      split at hev
      · simp at hev; subst hev; simp [Ev.isBatch] at hb
      · split at hev
        · simp at hev
          rcases hev with h | ⟨g, _, h⟩
          · subst h; simp [Ev.isBatch] at hb
          · subst h; simp [Ev.isBatch] at hb
        · rename_i h3 h4
          rw [if_neg hval, if_neg hver, if_neg h3, if_neg h4]
          exact ⟨hval', hver', rfl, _, rfl⟩

/-- no write when validation or verification fails -/
theorem load_no_batch_of_fail (E : LoadEnv D R σ) (m : Man D) (dir : Dir)
    (h : m.validate E.emptySha = false ∨ verifyGraphs E m.codec dir m.graphs = false) :
    (load E m dir).err.isSome = true ∧ ∀ ev ∈ (load E m dir).trace, ev.isBatch = false := by
  unfold load
  rcases h with h | h
  · rw [if_pos h]; simp
  · by_cases hv : m.validate E.emptySha = false
    · rw [if_pos hv]; simp
    · rw [if_neg hv, if_pos h]; simp

omit [DecidableEq D] in
theorem mem_files_iff {m : Man D} {f : Frag D} : f ∈ m.files ↔ ∃ g ∈ m.graphs, f ∈ g.files := by
  unfold Man.files
  simp [List.mem_flatMap]

/-- a manifest entry that the directory does not back up stops `Load` before any write -/
theorem load_rejects_unbound (E : LoadEnv D R σ) (m : Man D) (dir : Dir) (f : Frag D) (hf : f ∈ m.files)
    (hnb : ¬ FragBound E m.codec dir f) :
    (load E m dir).err.isSome = true ∧ ∀ ev ∈ (load E m dir).trace, ev.isBatch = false := by
  apply load_no_batch_of_fail
  right
  cases h : verifyGraphs E m.codec dir m.graphs with
  | false => rfl
  | true =>
    obtain ⟨g, hg, hfg⟩ := mem_files_iff.mp hf
    exact absurd (verifyGraphs_true h g hg f hfg) hnb

/-! ### the per-graph id preflight -/

theorem mem_nodeIdsOf {rs : List IdRec} {x : Str} : x ∈ nodeIdsOf rs ↔ IdRec.node x ∈ rs := by
  induction rs with
  | nil => simp [nodeIdsOf]
  | cons r rs ih =>
    cases r with
    | node id => simp [nodeIdsOf, ih]
    | edge a b => simp [nodeIdsOf, ih]

theorem nodeIdsOf_append (a b : List IdRec) : nodeIdsOf (a ++ b) = nodeIdsOf a ++ nodeIdsOf b := by
  induction a with
  | nil => rfl
  | cons r a ih => cases r <;> simp [nodeIdsOf, ih]

omit [DecidableEq D] in
/-- one fragment's records against the ids seen so far: the state only grows, grows by this fragment's node
ids only, and contains both endpoints of every edge record -/
theorem checkAll_id (E : LoadEnv D IdRec (List Str)) (hc : E.check = idCheck) (ph : Phase) :
    ∀ (recs : List IdRec) (s s' : List Str), checkAll E ph s recs = some s' →
      (∀ x ∈ s, x ∈ s') ∧ (∀ x ∈ s', x ∈ s ∨ x ∈ nodeIdsOf recs) ∧
      (∀ a b, IdRec.edge a b ∈ recs → a ∈ s' ∧ b ∈ s') := by
  intro recs
  induction recs with
  | nil =>
    intro s s' h
    simp [checkAll] at h
    subst h
    exact ⟨fun x hx => hx, fun x hx => .inl hx, by simp⟩
  | cons r recs ih =>
    intro s s' h
    unfold checkAll at h
    rw [hc] at h
    cases r with
    | node id =>
      simp only [idCheck] at h
      split at h
      · simp at h
      · rename_i heq
        split at heq
        · cases heq
        · injection heq with heq
          subst heq
          obtain ⟨h1, h2, h3⟩ := ih _ _ h
          refine ⟨fun x hx => h1 x (List.mem_cons_of_mem _ hx), ?_, ?_⟩
          · intro x hx
            rcases h2 x hx with h | h
            · rcases List.mem_cons.mp h with e | e
              · right; subst e; simp [nodeIdsOf]
              · left; exact e
            · right; simp [nodeIdsOf, h]
          · intro a b hab
            rcases List.mem_cons.mp hab with e | e
            · cases e
            · exact h3 a b e
    | edge a0 b0 =>
      simp only [idCheck] at h
      split at h
      · simp at h
      · rename_i heq
        split at heq
        · rename_i hmem
          injection heq with heq
          subst heq
          obtain ⟨h1, h2, h3⟩ := ih _ _ h
          refine ⟨h1, ?_, ?_⟩
          · intro x hx
            rcases h2 x hx with h | h
            · exact .inl h
            · exact .inr (by simpa [nodeIdsOf] using h)
          · intro a b hab
            rcases List.mem_cons.mp hab with e | e
            · injection e with e1 e2
              subst e1 e2
              exact ⟨h1 _ hmem.1, h1 _ hmem.2⟩
            · exact h3 a b e
        · cases heq

theorem verifyFrag_id (E : LoadEnv D IdRec (List Str)) (hc : E.check = idCheck) (codec : Nat) (dir : Dir)
    (s s' : List Str) (f : Frag D) (h : verifyFrag E codec dir s f = some s') :
    (∀ x ∈ s, x ∈ s') ∧ (∀ x ∈ s', x ∈ s ∨ x ∈ nodeIdsOf (recsOf E codec dir f)) ∧
    (∀ a b, IdRec.edge a b ∈ recsOf E codec dir f → a ∈ s' ∧ b ∈ s') := by
  unfold verifyFrag at h
  split at h
  · cases h
  · rename_i bts hb
    split at h
    · cases h
    · split at h
      · cases h
      · split at h
        · cases h
        · rename_i recs hdec
          split at h
          · cases h
          · rename_i s1 hchk
            split at h
            · cases h
            · injection h with h
              subst h
              have hr : recsOf E codec dir f = recs := by
                unfold recsOf; rw [hb]; simp [hdec]
              rw [hr]
              exact checkAll_id E hc f.phase recs s s1 hchk

theorem verifyFrags_id (E : LoadEnv D IdRec (List Str)) (hc : E.check = idCheck) (codec : Nat) (dir : Dir) :
    ∀ (fs : List (Frag D)) (s s' : List Str), verifyFrags E codec dir s fs = some s' →
      (∀ x ∈ s, x ∈ s') ∧ (∀ x ∈ s', x ∈ s ∨ x ∈ nodeIdsOf (fs.flatMap (recsOf E codec dir))) ∧
      (∀ f ∈ fs, ∀ a b, IdRec.edge a b ∈ recsOf E codec dir f → a ∈ s' ∧ b ∈ s') := by
  intro fs
  induction fs with
  | nil =>
    intro s s' h
    simp [verifyFrags] at h
    subst h
    exact ⟨fun x hx => hx, fun x hx => .inl hx, by simp⟩
  | cons f fs ih =>
    intro s s' h
    unfold verifyFrags at h
    split at h
    · cases h
    · rename_i s1 h1
      obtain ⟨a1, a2, a3⟩ := verifyFrag_id E hc codec dir s s1 f h1
      obtain ⟨b1, b2, b3⟩ := ih s1 s' h
      refine ⟨fun x hx => b1 x (a1 x hx), ?_, ?_⟩
      · intro x hx
        rw [List.flatMap_cons, nodeIdsOf_append]
        rcases b2 x hx with h | h
        · rcases a2 x h with h | h
          · exact .inl h
          · exact .inr (List.mem_append_left _ h)
        · exact .inr (List.mem_append_right _ h)
      · intro g hg a b hab
        rcases List.mem_cons.mp hg with e | e
        · subst e
          have := a3 a b hab
          exact ⟨b1 _ this.1, b1 _ this.2⟩
        · exact b3 g e a b hab

/-! ### duplicate ids: the resolver's state is exactly the node ids seen, each once -/

omit [DecidableEq D] in
theorem checkAll_ids_eq (E : LoadEnv D IdRec (List Str)) (hc : E.check = idCheck) (ph : Phase) :
    ∀ (recs : List IdRec) (s s' : List Str), checkAll E ph s recs = some s' →
      s' = (nodeIdsOf recs).reverse ++ s ∧ (s.Nodup → s'.Nodup) := by
  intro recs
  induction recs with
  | nil =>
    intro s s' h
    simp [checkAll] at h
    subst h
    exact ⟨by simp [nodeIdsOf], fun h => h⟩
  | cons r recs ih =>
    intro s s' h
    unfold checkAll at h
    rw [hc] at h
    cases r with
    | node id =>
      simp only [idCheck] at h
      split at h
      · simp at h
      · rename_i heq
        split at heq
        · cases heq
        · rename_i hnot
          injection heq with heq
          subst heq
          obtain ⟨h1, h2⟩ := ih _ _ h
          refine ⟨by rw [h1]; simp [nodeIdsOf], fun hs => h2 (List.nodup_cons.mpr ⟨hnot, hs⟩)⟩
    | edge a0 b0 =>
      simp only [idCheck] at h
      split at h
      · simp at h
      · rename_i heq
        split at heq
        · injection heq with heq
          subst heq
          obtain ⟨h1, h2⟩ := ih _ _ h
          exact ⟨by rw [h1]; simp [nodeIdsOf], h2⟩
        · cases heq

theorem verifyFrag_ids_eq (E : LoadEnv D IdRec (List Str)) (hc : E.check = idCheck) (codec : Nat) (dir : Dir)
    (s s' : List Str) (f : Frag D) (h : verifyFrag E codec dir s f = some s') :
    s' = (nodeIdsOf (recsOf E codec dir f)).reverse ++ s ∧ (s.Nodup → s'.Nodup) := by
  unfold verifyFrag at h
  split at h
  · cases h
  · rename_i bts hb
    split at h
    · cases h
    · split at h
      · cases h
      · split at h
        · cases h
        · rename_i recs hdec
          split at h
          · cases h
          · rename_i s1 hchk
            split at h
            · cases h
            · injection h with h
              subst h
              have hr : recsOf E codec dir f = recs := by
                unfold recsOf; rw [hb]; simp [hdec]
              rw [hr]
              exact checkAll_ids_eq E hc f.phase recs s s1 hchk

theorem verifyFrags_ids_eq (E : LoadEnv D IdRec (List Str)) (hc : E.check = idCheck) (codec : Nat) (dir : Dir) :
    ∀ (fs : List (Frag D)) (s s' : List Str), verifyFrags E codec dir s fs = some s' →
      s' = (nodeIdsOf (fs.flatMap (recsOf E codec dir))).reverse ++ s ∧ (s.Nodup → s'.Nodup) := by
  intro fs
  induction fs with
  | nil =>
    intro s s' h
    simp [verifyFrags] at h
    subst h
    exact ⟨by simp [nodeIdsOf], fun h => h⟩
  | cons f fs ih =>
    intro s s' h
    unfold verifyFrags at h
    split at h
    · cases h
    · rename_i s1 h1
      obtain ⟨a1, a2⟩ := verifyFrag_ids_eq E hc codec dir s s1 f h1
      obtain ⟨b1, b2⟩ := ih s1 s' h
      refine ⟨?_, fun hs => b2 (a2 hs)⟩
      rw [b1, a1, List.flatMap_cons, nodeIdsOf_append]
      simp

end Load

end Dawgs.C20
