/- Helper lemmas for C17 (c): LimitSkipTracker window and the parallelNodeQuery range partition. -/
import Dawgs.Model.C17Seq
import Dawgs.Spec.C17
import Batteries.Data.List.Perm
import Mathlib.Data.List.Nodup
set_option linter.unusedTactic false
set_option linter.unreachableTactic false
set_option linter.unnecessarySeqFocus false
set_option linter.unusedSimpArgs false
namespace Dawgs.C17.Seq

theorem offer_nil (t : Tracker) : (t.offer ([] : List α)).2 = [] := rfl

theorem offer_cons (t : Tracker) (x : α) (xs : List α) :
    (t.offer (x :: xs)).2 =
      if t.shouldCollect.2 then x :: (t.shouldCollect.1.offer xs).2 else (t.shouldCollect.1.offer xs).2 := rfl

/-- second phase (skip exhausted): collect until `seen` reaches a positive limit -/
theorem offer_noskip (t : Tracker) (hs : t.skip ≤ 0) (xs : List α) :
    (t.offer xs).2 = if t.limit > 0 then xs.take (t.limit.toNat - t.seen) else xs := by
  induction xs generalizing t with
  | nil => simp [offer_nil]
  | cons x xs ih =>
    rw [offer_cons]
    have hsk : ¬ t.skip > 0 := by omega
    by_cases hl : t.limit > 0
    · by_cases ha : (t.seen : Int) ≥ t.limit
      · have hat : t.atLimit = true := by simp [Tracker.atLimit, hl, ha]
        have e : t.shouldCollect = (t, false) := by simp [Tracker.shouldCollect, hsk, hat]
        rw [e]; simp only []
        rw [ih t hs]
        have : t.limit.toNat - t.seen = 0 := by omega
        simp [hl, this]
      · have hat : t.atLimit = false := by simp [Tracker.atLimit, hl, ha]
        have e : t.shouldCollect = ({ t with seen := t.seen + 1 }, true) := by
          simp [Tracker.shouldCollect, hsk, hat]
        rw [e]; simp only []
        rw [ih { t with seen := t.seen + 1 } hs]
        have : t.limit.toNat - t.seen = (t.limit.toNat - (t.seen + 1)) + 1 := by omega
        simp [hl, this, List.take_succ_cons]
    · have hat : t.atLimit = false := by simp [Tracker.atLimit, hl]
      have e : t.shouldCollect = ({ t with seen := t.seen + 1 }, true) := by
        simp [Tracker.shouldCollect, hsk, hat]
      rw [e]; simp only []
      rw [ih { t with seen := t.seen + 1 } hs]
      simp [hl]

theorem offer_window (t : Tracker) (h0 : t.seen = 0) (xs : List α) :
    (t.offer xs).2 = window t.skip t.limit xs := by
  induction xs generalizing t with
  | nil => simp [offer_nil, window]
  | cons x xs ih =>
    by_cases hs : t.skip > 0
    · rw [offer_cons]
      have e : t.shouldCollect = ({ t with skip := t.skip - 1 }, false) := by simp [Tracker.shouldCollect, hs]
      rw [e]; simp only []
      rw [ih { t with skip := t.skip - 1 } h0]
      have : t.skip.toNat = (t.skip - 1).toNat + 1 := by omega
      simp only [window, this, List.drop_succ_cons]
      rfl
    · rw [offer_noskip t (by omega)]
      have : t.skip.toNat = 0 := by omega
      simp [window, this, h0]

/-! range partition -/

theorem floorsLoop_above (max stride id : Nat) (fuel f : Nat) (h : id < f) :
    (floorsLoop max stride fuel f).countP (inWindow stride id) = 0 := by
  induction fuel generalizing f with
  | zero => rfl
  | succ n ih =>
    unfold floorsLoop
    split
    · have hw : inWindow stride id f = false := by simp [inWindow]; omega
      rw [List.countP_cons_of_neg (by simp [hw])]
      exact ih (f + stride) (by omega)
    · rfl

theorem floorsLoop_cover (max stride id : Nat) (hs : 0 < stride) (fuel f : Nat) (hf : f ≤ id) (hid : id ≤ max)
    (hfuel : max + 1 ≤ fuel + f) :
    (floorsLoop max stride fuel f).countP (inWindow stride id) = 1 := by
  induction fuel generalizing f with
  | zero => omega
  | succ n ih =>
    unfold floorsLoop
    rw [if_pos (by omega)]
    by_cases hw : id < f + stride
    · have : inWindow stride id f = true := by simp [inWindow]; omega
      rw [List.countP_cons_of_pos (by simp [this]), floorsLoop_above _ _ _ _ _ hw]
    · have : inWindow stride id f = false := by simp [inWindow]; omega
      rw [List.countP_cons_of_neg (by simp [this])]
      exact ih (f + stride) (by omega) (by omega)

theorem floorsLoop_le (max stride : Nat) (fuel f : Nat) : ∀ x ∈ floorsLoop max stride fuel f, x ≤ max := by
  induction fuel generalizing f with
  | zero => intro x hx; cases hx
  | succ n ih =>
    intro x hx
    unfold floorsLoop at hx
    split at hx
    · cases hx with
      | head => assumption
      | tail _ h => exact ih _ x h
    · cases hx

/-! ### helpers: the loop collects the window of the filtered DFS sequence -/

theorem offer_nil1 (t : Tracker) : (t.offer ([] : List α)).1 = t := rfl
theorem offer_cons1 (t : Tracker) (x : α) (xs : List α) :
    (t.offer (x :: xs)).1 = (t.shouldCollect.1.offer xs).1 := rfl

theorem offer_single (t : Tracker) (x : α) :
    t.offer [x] = (t.shouldCollect.1, if t.shouldCollect.2 then [x] else []) := rfl

theorem offer_append (t : Tracker) (xs ys : List α) :
    (t.offer (xs ++ ys)).1 = ((t.offer xs).1.offer ys).1 ∧
    (t.offer (xs ++ ys)).2 = (t.offer xs).2 ++ ((t.offer xs).1.offer ys).2 := by
  induction xs generalizing t with
  | nil => exact ⟨rfl, rfl⟩
  | cons x xs ih =>
    have h := ih t.shouldCollect.1
    refine ⟨?_, ?_⟩
    · show ((t.offer (x :: (xs ++ ys))).1) = _
      rw [offer_cons1, offer_cons1]; exact h.1
    · show ((t.offer (x :: (xs ++ ys))).2) = _
      rw [offer_cons, offer_cons, offer_cons1, h.2]
      split <;> simp

/-- once a value has been collected the skip budget is exhausted -/
def TInv (t : Tracker) : Prop := t.seen > 0 → t.skip ≤ 0

theorem tinv_shouldCollect (t : Tracker) (h : TInv t) : TInv t.shouldCollect.1 := by
  unfold Tracker.shouldCollect
  split
  · next hs => intro hseen; have := h hseen; omega
  · next hs =>
    split
    · intro _; show t.skip ≤ 0; omega
    · exact h

theorem tinv_offer (t : Tracker) (h : TInv t) (xs : List α) : TInv (t.offer xs).1 := by
  induction xs generalizing t with
  | nil => exact h
  | cons x xs ih => rw [offer_cons1]; exact ih _ (tinv_shouldCollect t h)

theorem offer_atLimit (t : Tracker) (h : TInv t) (ha : t.atLimit = true) (xs : List α) : (t.offer xs).2 = [] := by
  simp only [Tracker.atLimit, Bool.and_eq_true, decide_eq_true_eq] at ha
  have hs : t.skip ≤ 0 := h (by omega)
  rw [offer_noskip t hs, if_pos ha.1]
  have : t.limit.toNat - t.seen = 0 := by omega
  rw [this]; rfl

/-- the descent loop = filter, then offer the filtered candidates -/
theorem pushAll_eq (p : Plan) (t : Tracker) (cs : List Seg) :
    pushAll p t cs = ((t.offer (cs.filter (offeredByDescent p))).1, cs.filter (pushOK p),
                      (t.offer (cs.filter (offeredByDescent p))).2) := by
  induction cs generalizing t with
  | nil => rfl
  | cons c cs ih =>
    unfold pushAll
    simp only [ih]
    unfold descentOne pushOK offeredByDescent
    cases hd : optAccept p.descentFilter c <;> cases hh : p.helper <;>
      simp [hd, hh, List.filter_cons, pushOK, offeredByDescent, offer_nil1] <;>
      (try (cases hn : optAccept p.nodeFilter c.node <;> simp [hn, offer_cons, offer_cons1] <;> (try (split <;> simp)))) <;>
      (try (cases hc : c.isCycle <;> simp [hc]))

theorem visitOne_eq (p : Plan) (t : Tracker) (next : Seg) (np : Bool) :
    visitOne p t next np = t.offer (if offeredByVisit p next np then [next] else []) := by
  unfold visitOne offeredByVisit
  cases hh : p.helper <;> simp [hh]
  all_goals first | rfl | (split <;> simp_all [offer_single] <;> rfl)

theorem iter_eq (p : Plan) (st : St) :
    iter p st = (iterCore p { stack := st.stack, visited := st.visited }).map (fun r =>
      { stack := if (st.tracker.offer r.2).1.atLimit then [] else r.1.stack, tracker := (st.tracker.offer r.2).1,
        visited := r.1.visited, out := st.out ++ (st.tracker.offer r.2).2 }) := by
  unfold iter iterCore
  cases hs : st.stack with
  | nil => rfl
  | cons next below =>
    simp only [Option.map_some, pushAll_eq, visitOne_eq]
    have ha := offer_append st.tracker ((expandNext p st.visited next).2.filter (offeredByDescent p))
      (if offeredByVisit p next ((expandNext p st.visited next).2.filter (pushOK p)).isEmpty then [next] else [])
    rw [ha.1, ha.2, List.append_assoc]

theorem loop_out (p : Plan) (fuel : Nat) (st : St) (h : TInv st.tracker) :
    (loop p fuel st).out =
      st.out ++ (st.tracker.offer (events p fuel { stack := st.stack, visited := st.visited })).2 := by
  induction fuel generalizing st with
  | zero => simp [loop, events, offer_nil]
  | succ n ih =>
    unfold loop events
    rw [iter_eq]
    cases hc : iterCore p { stack := st.stack, visited := st.visited } with
    | none => simp [offer_nil]
    | some r =>
      obtain ⟨c', off⟩ := r
      simp only [Option.map_some]
      have hinv := tinv_offer st.tracker h off
      have happ := offer_append st.tracker off (events p n c')
      by_cases hat : (st.tracker.offer off).1.atLimit = true
      · -- `break`: nothing further would have been collected anyway
        have hstop : ∀ m (s : St), s.stack = [] → loop p m s = s := by
          intro m s hs; cases m with
          | zero => rfl
          | succ k => unfold loop iter; rw [hs]
        rw [hstop n _ (by simp [hat])]
        simp only [happ.2, offer_atLimit _ hinv hat, List.append_nil]
      · rw [ih _ hinv]
        simp only [if_neg hat, happ.2, List.append_assoc]

/-! ### TraversePaths: the stack DFS visits the path tree in the order of the recursive definition -/

theorem events_nil (p : Plan) (F : Nat) (v : List Nat) : events p F { stack := [], visited := v } = [] := by
  cases F <;> simp [events, iterCore]

theorem iterCore_paths (p : Plan) (hp : p.helper = .paths) (next : Seg) (below : List Seg) (v : List Nat) :
    iterCore p { stack := next :: below, visited := v } =
      some ({ stack := (pathKids p next).reverse ++ below, visited := v },
            if (pathKids p next).isEmpty && decide (next.depth > 0) && optAccept p.pathFilter next then [next] else []) := by
  have hk : (expandNext p v next).2.filter (pushOK p) = pathKids p next := by
    have hf : pushOK p = fun c => optAccept p.descentFilter c && !c.isCycle := by
      funext c; simp [pushOK, hp]
    simp [expandNext, Plan.acyclic, hp, pathKids, hf]
  have hv : (expandNext p v next).1 = v := by simp [expandNext, Plan.acyclic, hp]
  have ho : (expandNext p v next).2.filter (offeredByDescent p) = [] := by
    simp [offeredByDescent, hp]
  simp only [iterCore, hk, hv, ho, List.nil_append, offeredByVisit, hp]
  simp

theorem events_step_paths (p : Plan) (hp : p.helper = .paths) (F : Nat) (next : Seg) (below : List Seg) (v : List Nat) :
    events p (F + 1) { stack := next :: below, visited := v } =
      (if (pathKids p next).isEmpty && decide (next.depth > 0) && optAccept p.pathFilter next then [next] else []) ++
        events p F { stack := (pathKids p next).reverse ++ below, visited := v } := by
  show (match iterCore p { stack := next :: below, visited := v } with
        | none => [] | some (c', off) => off ++ events p F c') = _
  rw [iterCore_paths p hp]

/-- a stack prefix whose segments all fit is consumed in finitely many steps, emitting their specs in order -/
theorem events_stack (p : Plan) (d : Nat)
    (ih : ∀ seg, Fits p d seg → ∃ n, ∀ F below v,
      events p (n + F) { stack := seg :: below, visited := v } = pathsSpec p d seg ++ events p F { stack := below, visited := v }) :
    ∀ ks : List Seg, (∀ k ∈ ks, Fits p d k) → ∃ n, ∀ F below v,
      events p (n + F) { stack := ks ++ below, visited := v } =
        ks.flatMap (pathsSpec p d) ++ events p F { stack := below, visited := v } := by
  intro ks
  induction ks with
  | nil => intro _; exact ⟨0, fun F below v => by simp⟩
  | cons k ks ihk =>
    intro hfit
    obtain ⟨n1, h1⟩ := ih k (hfit k (List.mem_cons_self ..))
    obtain ⟨n2, h2⟩ := ihk (fun x hx => hfit x (List.mem_cons_of_mem _ hx))
    refine ⟨n1 + n2, fun F below v => ?_⟩
    have e : n1 + n2 + F = n1 + (n2 + F) := by omega
    rw [e, List.cons_append, h1 (n2 + F) (ks ++ below) v, h2 F below v]
    simp [List.flatMap_cons, List.append_assoc]

theorem events_subtree (p : Plan) (hp : p.helper = .paths) :
    ∀ d seg, Fits p d seg → ∃ n, ∀ F below v,
      events p (n + F) { stack := seg :: below, visited := v } = pathsSpec p d seg ++ events p F { stack := below, visited := v } := by
  intro d
  induction d with
  | zero => intro seg h; exact absurd h (by simp [Fits])
  | succ d ih =>
    intro seg hfit
    obtain ⟨n, hn⟩ := events_stack p d ih (pathKids p seg).reverse (fun k hk => hfit k (List.mem_reverse.mp hk))
    refine ⟨n + 1, fun F below v => ?_⟩
    have e : n + 1 + F = (n + F) + 1 := by omega
    rw [e, events_step_paths p hp, hn F below v]
    unfold pathsSpec
    cases hk : (pathKids p seg).isEmpty
    · simp [hk]
    · have : pathKids p seg = [] := List.isEmpty_iff.mp hk
      simp [hk, this]

/-! finite graphs fit -/

theorem pathNodes_descend (s : Seg) (e n : Nat) : (s.descend e n).pathNodes = s.pathNodes ++ [n] := by
  simp [Seg.descend, Seg.pathNodes]

theorem isCycle_descend (s : Seg) (e n : Nat) : (s.descend e n).isCycle = decide (n ∈ s.pathNodes) := by
  simp only [Seg.descend, Seg.isCycle, Seg.pathNodes]
  rw [Bool.eq_iff_iff]
  simp only [Bool.or_eq_true, beq_iff_eq, List.any_eq_true, decide_eq_true_eq, List.mem_cons, List.mem_map,
    List.mem_reverse]

theorem depth_eq (s : Seg) : s.depth + 1 = s.pathNodes.length := by simp [Seg.depth, Seg.pathNodes]

/-- on a graph whose node ids are all below `N`, every acyclic path fits in depth `N + 1` -/
theorem fits_of_bounded (p : Plan) (N : Nat) (hadj : ∀ n, ∀ e ∈ p.adj n, e.2 < N) :
    ∀ d (seg : Seg), seg.pathNodes.Nodup → (∀ x ∈ seg.pathNodes, x < N) → N ≤ seg.depth + d → Fits p d seg := by
  intro d
  induction d with
  | zero =>
    intro seg hnd hlt hN
    have hsub : seg.pathNodes ⊆ List.range N := fun x hx => List.mem_range.mpr (hlt x hx)
    have := (List.subperm_of_subset hnd hsub).length_le
    have := depth_eq seg
    simp at *; omega
  | succ d ih =>
    intro seg hnd hlt hN k hk
    simp only [pathKids, List.mem_filter, List.mem_map, Bool.and_eq_true, Bool.not_eq_true'] at hk
    obtain ⟨⟨e, he, rfl⟩, _, hcyc⟩ := hk
    rw [isCycle_descend] at hcyc
    have hnot : e.2 ∉ seg.pathNodes := by simpa using hcyc
    apply ih
    · rw [pathNodes_descend]
      exact List.nodup_append.mpr ⟨hnd, List.nodup_singleton _, by
        intro a ha b hb; simp at hb; subst hb; intro h; subst h; exact hnot ha⟩
    · rw [pathNodes_descend]; intro x hx
      rcases List.mem_append.mp hx with h | h
      · exact hlt x h
      · simp at h; subst h; exact hadj _ e he
    · have : (seg.descend e.1 e.2).depth = seg.depth + 1 := by simp [Seg.descend, Seg.depth]
      omega

/-! ### AcyclicTraverseNodes: the candidate set is the set of nodes reachable over at least one edge -/

def succs (adj : Nat → List (Nat × Nat)) (u : Nat) : List Nat := (adj u).map (·.2)

/-- reachability in the plan's ordered adjacency -/
inductive Reachable (adj : Nat → List (Nat × Nat)) (root : Nat) : Nat → Prop where
  | refl : Reachable adj root root
  | step {u v : Nat} : Reachable adj root u → v ∈ succs adj u → Reachable adj root v

/-- run the tracker-free DFS for `fuel` iterations, accumulating the offered candidates -/
def accRun (p : Plan) : Nat → Core → List Seg → Core × List Seg
  | 0, c, acc => (c, acc)
  | fuel + 1, c, acc => match iterCore p c with
    | none => (c, acc)
    | some (c', off) => accRun p fuel c' (acc ++ off)

theorem accRun_events (p : Plan) (fuel : Nat) (c : Core) (acc : List Seg) :
    (accRun p fuel c acc).2 = acc ++ events p fuel c := by
  induction fuel generalizing c acc with
  | zero => simp [accRun, events]
  | succ n ih =>
    unfold accRun events
    cases h : iterCore p c with
    | none => simp
    | some r => obtain ⟨c', off⟩ := r; simp only []; rw [ih]; simp [List.append_assoc]

@[simp] theorem node_descend (s : Seg) (e n : Nat) : (s.descend e n).node = n := by simp [Seg.descend, Seg.node]

structure NInv (p : Plan) (root : Nat) (c : Core) (acc : List Seg) : Prop where
  reachS : ∀ s ∈ c.stack, Reachable p.adj root s.node
  reachV : ∀ u ∈ c.visited, Reachable p.adj root u
  closed : ∀ u ∈ c.visited, ∀ v ∈ succs p.adj u, v ∈ c.visited ∨ ∃ s ∈ c.stack, s.node = v
  offers : ∀ v, v ∈ acc.map Seg.node ↔ optAccept p.nodeFilter v = true ∧ ∃ u ∈ c.visited, v ∈ succs p.adj u
  root : root ∈ c.visited ∨ ∃ s ∈ c.stack, s.node = root

theorem ninv_step (p : Plan) (hp : p.helper = .nodes) (hd : p.descentFilter = none) (root : Nat)
    {c c' : Core} {acc off : List Seg} (hi : NInv p root c acc) (h : iterCore p c = some (c', off)) :
    NInv p root c' (acc ++ off) := by
  unfold iterCore at h
  cases hst : c.stack with
  | nil => rw [hst] at h; cases h
  | cons next below =>
    rw [hst] at h
    simp only [Option.some.injEq, Prod.mk.injEq] at h
    obtain ⟨hc', hoff⟩ := h
    have hnext : next ∈ c.stack := by rw [hst]; exact List.mem_cons_self ..
    have hbelow : ∀ s ∈ below, s ∈ c.stack := fun s hs => by rw [hst]; exact List.mem_cons_of_mem _ hs
    have hpush : ∀ x : Seg, pushOK p x = true := by intro x; simp [pushOK, hd, optAccept, hp]
    have hvis : ∀ b, offeredByVisit p next b = false := by
      intro b; simp [offeredByVisit, hp]
    have hod : ∀ x : Seg, offeredByDescent p x = optAccept p.nodeFilter x.node := by
      intro x; simp [offeredByDescent, hp, hd, optAccept]
    simp only [hvis, Bool.false_eq_true, if_false, List.append_nil] at hoff
    by_cases hv : c.visited.contains next.node = true
    · -- already expanded: nothing fetched, nothing offered
      have hvm : next.node ∈ c.visited := by simpa using hv
      have hex : expandNext p c.visited next = (c.visited, []) := by simp [expandNext, Plan.acyclic, hp, hvm]
      rw [hex] at hc' hoff
      simp only [List.filter_nil, List.reverse_nil, List.nil_append] at hc' hoff
      subst hc'; subst hoff
      refine ⟨fun s hs => hi.reachS s (hbelow s hs), hi.reachV, ?_, ?_, ?_⟩
      · intro u hu v hvs
        rcases hi.closed u hu v hvs with h1 | ⟨s, hs, hsv⟩
        · exact Or.inl h1
        · rw [hst] at hs
          rcases List.mem_cons.mp hs with h2 | h2
          · subst h2; rw [← hsv]; exact Or.inl hvm
          · exact Or.inr ⟨s, h2, hsv⟩
      · simpa using hi.offers
      · rcases hi.root with h1 | ⟨s, hs, hsv⟩
        · exact Or.inl h1
        · rw [hst] at hs
          rcases List.mem_cons.mp hs with h2 | h2
          · subst h2; rw [← hsv]; exact Or.inl hvm
          · exact Or.inr ⟨s, h2, hsv⟩
    · -- first visit: mark, fetch, push every branch, offer the ones the node filter accepts
      have hvn : next.node ∉ c.visited := by simpa using hv
      have hex : expandNext p c.visited next =
          (next.node :: c.visited, (p.adj next.node).map (fun e => next.descend e.1 e.2)) := by
        simp [expandNext, Plan.acyclic, hp, hvn]
      rw [hex] at hc' hoff
      have hfil : ((p.adj next.node).map (fun e => next.descend e.1 e.2)).filter (pushOK p) =
          (p.adj next.node).map (fun e => next.descend e.1 e.2) := List.filter_eq_self.mpr (fun x _ => hpush x)
      rw [hfil] at hc'
      subst hc'; subst hoff
      have hkid : ∀ s, s ∈ (p.adj next.node).map (fun e => next.descend e.1 e.2) → s.node ∈ succs p.adj next.node := by
        intro s hs
        obtain ⟨e, he, rfl⟩ := List.mem_map.mp hs
        simp only [node_descend, succs]; exact List.mem_map.mpr ⟨e, he, rfl⟩
      have hkid' : ∀ v ∈ succs p.adj next.node, ∃ s ∈ (p.adj next.node).map (fun e => next.descend e.1 e.2), s.node = v := by
        intro v hv
        obtain ⟨e, he, rfl⟩ := List.mem_map.mp hv
        exact ⟨next.descend e.1 e.2, List.mem_map.mpr ⟨e, he, rfl⟩, by simp⟩
      refine ⟨?_, ?_, ?_, ?_, ?_⟩
      · intro s hs
        rcases List.mem_append.mp hs with h1 | h1
        · exact Reachable.step (hi.reachS next hnext) (hkid s (List.mem_reverse.mp h1))
        · exact hi.reachS s (hbelow s h1)
      · intro u hu
        rcases List.mem_cons.mp hu with h1 | h1
        · subst h1; exact hi.reachS next hnext
        · exact hi.reachV u h1
      · intro u hu v hvs
        rcases List.mem_cons.mp hu with h1 | h1
        · subst h1
          obtain ⟨s, hs, hsv⟩ := hkid' v hvs
          exact Or.inr ⟨s, List.mem_append.mpr (Or.inl (List.mem_reverse.mpr hs)), hsv⟩
        · rcases hi.closed u h1 v hvs with h2 | ⟨s, hs, hsv⟩
          · exact Or.inl (List.mem_cons_of_mem _ h2)
          · rw [hst] at hs
            rcases List.mem_cons.mp hs with h3 | h3
            · subst h3; rw [← hsv]; exact Or.inl (List.mem_cons_self ..)
            · exact Or.inr ⟨s, List.mem_append.mpr (Or.inr h3), hsv⟩
      · intro v
        simp only [List.map_append, List.mem_append]
        constructor
        · rintro (h1 | h1)
          · obtain ⟨ha, u, hu, hvs⟩ := (hi.offers v).mp h1
            exact ⟨ha, u, List.mem_cons_of_mem _ hu, hvs⟩
          · obtain ⟨s, hs, rfl⟩ := List.mem_map.mp h1
            have hs' := List.mem_filter.mp hs
            exact ⟨by rw [← hod]; exact hs'.2, next.node, List.mem_cons_self .., hkid s hs'.1⟩
        · rintro ⟨ha, u, hu, hvs⟩
          rcases List.mem_cons.mp hu with h1 | h1
          · subst h1
            obtain ⟨s, hs, hsv⟩ := hkid' v hvs
            right
            exact List.mem_map.mpr ⟨s, List.mem_filter.mpr ⟨hs, by rw [hod, hsv]; exact ha⟩, hsv⟩
          · left; exact (hi.offers v).mpr ⟨ha, u, h1, hvs⟩
      · rcases hi.root with h1 | ⟨s, hs, hsv⟩
        · exact Or.inl (List.mem_cons_of_mem _ h1)
        · rw [hst] at hs
          rcases List.mem_cons.mp hs with h3 | h3
          · subst h3; rw [← hsv]; exact Or.inl (List.mem_cons_self ..)
          · exact Or.inr ⟨s, List.mem_append.mpr (Or.inr h3), hsv⟩

theorem ninv_run (p : Plan) (hp : p.helper = .nodes) (hd : p.descentFilter = none) (root : Nat) :
    ∀ fuel c acc, NInv p root c acc → NInv p root (accRun p fuel c acc).1 (accRun p fuel c acc).2 := by
  intro fuel
  induction fuel with
  | zero => intro c acc hi; exact hi
  | succ n ih =>
    intro c acc hi
    unfold accRun
    cases h : iterCore p c with
    | none => exact hi
    | some r => obtain ⟨c', off⟩ := r; exact ih c' (acc ++ off) (ninv_step p hp hd root hi h)

/-! ### AcyclicTraverseTerminals: an order-free characterisation by counting -/

/-- number of edges into `v` out of the nodes of `V` (with multiplicity) -/
def indeg (adj : Nat → List (Nat × Nat)) (V : List Nat) (v : Nat) : Nat := (V.flatMap (succs adj)).count v

def b2n (b : Prop) [Decidable b] : Nat := if b then 1 else 0

structure TermInv (p : Plan) (root : Nat) (c : Core) (acc : List Seg) : Prop where
  eqn : ∀ v, (acc.map Seg.node).count v + (c.stack.map Seg.node).count v + b2n (v ∈ c.visited) =
    indeg p.adj c.visited v + b2n (v = root) + b2n (v ∈ c.visited ∧ p.adj v = [] ∧ v ≠ root)
  nodup : c.visited.Nodup
  phase : (c.stack = [{ root := root, steps := [] }] ∧ c.visited = [] ∧ acc = []) ∨
          (root ∈ c.visited ∧ ∀ s ∈ c.stack, s.depth > 0)

theorem kids_nodes (adj : Nat → List (Nat × Nat)) (next : Seg) :
    ((adj next.node).map (fun e => next.descend e.1 e.2)).map Seg.node = succs adj next.node := by
  simp [succs, List.map_map, Function.comp_def]

theorem terminv_step (p : Plan) (hp : p.helper = .terminals) (hd : p.descentFilter = none) (hpf : p.pathFilter = none)
    (root : Nat) {c c' : Core} {acc off : List Seg} (hi : TermInv p root c acc) (h : iterCore p c = some (c', off)) :
    TermInv p root c' (acc ++ off) := by
  unfold iterCore at h
  cases hst : c.stack with
  | nil => rw [hst] at h; cases h
  | cons next below =>
    rw [hst] at h
    simp only [Option.some.injEq, Prod.mk.injEq] at h
    obtain ⟨hc', hoff⟩ := h
    have hpush : ∀ x : Seg, pushOK p x = true := by intro x; simp [pushOK, hd, optAccept, hp]
    have hod : ∀ x : Seg, offeredByDescent p x = false := by intro x; simp [offeredByDescent, hp]
    have hov : ∀ b, offeredByVisit p next b = (b && decide (next.depth > 0)) := by
      intro b; simp [offeredByVisit, hp, hpf, optAccept]
    have hfd : ∀ l : List Seg, l.filter (offeredByDescent p) = [] := by
      intro l; exact List.filter_eq_nil_iff.mpr (fun x _ => by simp [hod])
    have hfp : ∀ l : List Seg, l.filter (pushOK p) = l := fun l => List.filter_eq_self.mpr (fun x _ => hpush x)
    simp only [hfd, hfp, hov, List.nil_append] at hc' hoff
    have heq := hi.eqn
    rw [hst] at heq
    by_cases hv : next.node ∈ c.visited
    · -- a node reached again: no expansion, reported as a terminal (its segment has depth > 0)
      have hex : expandNext p c.visited next = (c.visited, []) := by simp [expandNext, Plan.acyclic, hp, hv]
      rw [hex] at hc' hoff
      have hdepth : next.depth > 0 := by
        rcases hi.phase with ⟨_, h2, _⟩ | ⟨_, h2⟩
        · rw [h2] at hv; cases hv
        · exact h2 next (by rw [hst]; exact List.mem_cons_self ..)
      simp only [List.reverse_nil, List.nil_append, List.isEmpty_nil, Bool.true_and, hdepth, decide_true, if_true] at hc' hoff
      subst hc'; subst hoff
      refine ⟨?_, hi.nodup, ?_⟩
      · intro v
        have := heq v
        simp only [List.map_append, List.map_cons, List.map_nil, List.count_append, List.count_cons, List.count_nil] at this ⊢
        omega
      · right
        rcases hi.phase with ⟨_, h2, _⟩ | ⟨h1, h2⟩
        · rw [h2] at hv; cases hv
        · exact ⟨h1, fun s hs => h2 s (by rw [hst]; exact List.mem_cons_of_mem _ hs)⟩
    · -- first visit: mark it, push every branch; a terminal iff it has no branch and depth > 0
      have hex : expandNext p c.visited next =
          (next.node :: c.visited, (p.adj next.node).map (fun e => next.descend e.1 e.2)) := by
        simp [expandNext, Plan.acyclic, hp, hv]
      rw [hex] at hc' hoff
      subst hc'; subst hoff
      have hkn := kids_nodes p.adj next
      -- the root is expanded by the initial segment only
      have hroot : (next.node = root ∧ next.depth = 0) ∨ (next.node ≠ root ∧ next.depth > 0) := by
        rcases hi.phase with ⟨h1, _, _⟩ | ⟨h1, h2⟩
        · rw [hst] at h1; simp only [List.cons.injEq] at h1; left; rw [h1.1]; simp [Seg.node, Seg.depth]
        · right
          exact ⟨fun he => hv (he ▸ h1), h2 next (by rw [hst]; exact List.mem_cons_self ..)⟩
      refine ⟨?_, List.nodup_cons.mpr ⟨hv, hi.nodup⟩, ?_⟩
      · intro v
        have := heq v
        have hind : indeg p.adj (next.node :: c.visited) v = (succs p.adj next.node).count v + indeg p.adj c.visited v := by
          simp [indeg, List.flatMap_cons, List.count_append]
        have hstack : ((((p.adj next.node).map (fun e => next.descend e.1 e.2)).reverse ++ below).map Seg.node).count v =
            (succs p.adj next.node).count v + (below.map Seg.node).count v := by
          rw [List.map_append, List.count_append, List.map_reverse, List.count_reverse, hkn]
        rw [hind, hstack]
        simp only [List.map_cons, List.count_cons, List.map_append, List.count_append] at this ⊢
        by_cases hvx : v = next.node
        · subst hvx
          have hnv : b2n (next.node ∈ c.visited) = 0 := by simp [b2n, hv]
          have hnv' : b2n (next.node ∈ next.node :: c.visited) = 1 := by simp [b2n]
          have hs0 : b2n (next.node ∈ c.visited ∧ p.adj next.node = [] ∧ next.node ≠ root) = 0 := by simp [b2n, hv]
          rw [hnv, hs0] at this
          rw [hnv']
          by_cases hsink : p.adj next.node = []
          · rcases hroot with ⟨hr, hd0⟩ | ⟨hr, hd0⟩
            · simp [b2n, hsink, hr, hd0] at this ⊢; omega
            · simp [b2n, hsink, hr, hd0] at this ⊢; omega
          · have hne : ((p.adj next.node).map (fun e => next.descend e.1 e.2)).reverse.isEmpty = false := by
              cases h : p.adj next.node with
              | nil => exact absurd h hsink
              | cons a l => simp
            simp [b2n, hsink, hne] at this ⊢; omega
        · have h1 : b2n (v ∈ next.node :: c.visited) = b2n (v ∈ c.visited) := by simp [b2n, hvx]
          have h2 : b2n (v ∈ next.node :: c.visited ∧ p.adj v = [] ∧ v ≠ root) = b2n (v ∈ c.visited ∧ p.adj v = [] ∧ v ≠ root) := by
            simp [b2n, hvx]
          have h3 : (if next.node == v then 1 else 0) = 0 := by simp [Ne.symm hvx]
          have h4 : ((if (((p.adj next.node).map (fun e => next.descend e.1 e.2)).isEmpty && decide (next.depth > 0)) = true
              then [next] else []).map Seg.node).count v = 0 := by
            split <;> simp [Ne.symm hvx]
          rw [h1, h2, h4]
          rw [h3] at this
          omega
      · right
        have hrootV : root ∈ next.node :: c.visited := by
          rcases hi.phase with ⟨h1, _, _⟩ | ⟨h1, _⟩
          · rw [hst] at h1; simp only [List.cons.injEq] at h1
            have : next.node = root := by rw [h1.1]; simp [Seg.node]
            rw [this]; exact List.mem_cons_self ..
          · exact List.mem_cons_of_mem _ h1
        refine ⟨hrootV, fun s hs => ?_⟩
        rcases List.mem_append.mp hs with h1 | h1
        · obtain ⟨e, _, rfl⟩ := List.mem_map.mp (List.mem_reverse.mp h1)
          simp [Seg.descend, Seg.depth]
        · rcases hi.phase with ⟨h2, _, _⟩ | ⟨_, h2⟩
          · rw [hst] at h2; simp only [List.cons.injEq] at h2; rw [h2.2] at h1; cases h1
          · exact h2 s (by rw [hst]; exact List.mem_cons_of_mem _ h1)

theorem terminv_run (p : Plan) (hp : p.helper = .terminals) (hd : p.descentFilter = none) (hpf : p.pathFilter = none) (root : Nat) :
    ∀ fuel c acc, TermInv p root c acc → TermInv p root (accRun p fuel c acc).1 (accRun p fuel c acc).2 := by
  intro fuel
  induction fuel with
  | zero => intro c acc hi; exact hi
  | succ n ih =>
    intro c acc hi
    unfold accRun
    cases h : iterCore p c with
    | none => exact hi
    | some r => obtain ⟨c', off⟩ := r; exact ih c' (acc ++ off) (terminv_step p hp hd hpf root hi h)

/-- every reported terminal has been expanded or re-reached: its node is in the visited set -/
theorem term_off_visited (p : Plan) (hp : p.helper = .terminals) {c c' : Core} {off : List Seg}
    (h : iterCore p c = some (c', off)) : (∀ s ∈ off, s.node ∈ c'.visited) ∧ (∀ u ∈ c.visited, u ∈ c'.visited) := by
  unfold iterCore at h
  cases hst : c.stack with
  | nil => rw [hst] at h; cases h
  | cons next below =>
    rw [hst] at h
    simp only [Option.some.injEq, Prod.mk.injEq] at h
    obtain ⟨hc', hoff⟩ := h
    have hfd : ∀ l : List Seg, l.filter (offeredByDescent p) = [] := by
      intro l; exact List.filter_eq_nil_iff.mpr (fun x _ => by simp [offeredByDescent, hp])
    simp only [hfd, List.nil_append] at hoff
    have hvis : next.node ∈ (expandNext p c.visited next).1 ∧ ∀ u ∈ c.visited, u ∈ (expandNext p c.visited next).1 := by
      by_cases hv : next.node ∈ c.visited <;> simp [expandNext, Plan.acyclic, hp, hv]
      intro u hu; exact Or.inr hu
    subst hc'; subst hoff
    refine ⟨fun s hs => ?_, hvis.2⟩
    split at hs
    · simp at hs; subst hs; exact hvis.1
    · cases hs

theorem term_acc_visited (p : Plan) (hp : p.helper = .terminals) :
    ∀ fuel c acc, (∀ s ∈ acc, s.node ∈ c.visited) →
      ∀ s ∈ (accRun p fuel c acc).2, s.node ∈ (accRun p fuel c acc).1.visited := by
  intro fuel
  induction fuel with
  | zero => intro c acc h; exact h
  | succ n ih =>
    intro c acc h
    unfold accRun
    cases hc : iterCore p c with
    | none => exact h
    | some r =>
      obtain ⟨c', off⟩ := r
      have h2 := term_off_visited p hp hc
      exact ih c' (acc ++ off) (fun s hs => by
        rcases List.mem_append.mp hs with h3 | h3
        · exact h2.2 _ (h s h3)
        · exact h2.1 s h3)

/-- the stack / visited evolution of the terminals helper is that of the node-set helper -/
def asNodes (p : Plan) : Plan := { p with helper := .nodes }

theorem iterCore_core_eq (p : Plan) (hp : p.helper = .terminals) (c : Core) :
    (iterCore p c).map (·.1) = (iterCore (asNodes p) c).map (·.1) := by
  unfold iterCore
  cases c.stack with
  | nil => rfl
  | cons next below =>
    have h1 : expandNext (asNodes p) c.visited next = expandNext p c.visited next := by
      simp [expandNext, Plan.acyclic, asNodes, hp]
    have h2 : pushOK (asNodes p) = pushOK p := by
      funext x; simp only [pushOK, asNodes, hp]; rfl
    simp [h1, h2]

theorem accRun_core_eq (p : Plan) (hp : p.helper = .terminals) :
    ∀ fuel c acc acc', (accRun p fuel c acc).1 = (accRun (asNodes p) fuel c acc').1 := by
  intro fuel
  induction fuel with
  | zero => intro c acc acc'; rfl
  | succ n ih =>
    intro c acc acc'
    have h := iterCore_core_eq p hp c
    unfold accRun
    cases h1 : iterCore p c with
    | none =>
      rw [h1] at h
      cases h2 : iterCore (asNodes p) c with
      | none => rfl
      | some r => rw [h2] at h; cases h
    | some r =>
      rw [h1] at h
      cases h2 : iterCore (asNodes p) c with
      | none => rw [h2] at h; cases h
      | some r' =>
        rw [h2] at h
        simp only [Option.map_some, Option.some.injEq] at h
        obtain ⟨c1, o1⟩ := r; obtain ⟨c2, o2⟩ := r'
        simp only at h; subst h
        exact ih c1 _ _

end Dawgs.C17.Seq
