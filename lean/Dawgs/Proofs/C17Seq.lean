/- Helper lemmas for C17 (c): LimitSkipTracker window and the parallelNodeQuery range partition. -/
import Dawgs.Model.C17Seq
namespace Dawgs.C17.Seq

theorem offer_nil (t : Tracker) : (t.offer ([] : List α)).2 = [] := rfl

theorem offer_cons (t : Tracker) (x : α) (xs : List α) :
    (t.offer (x :: xs)).2 =
      if t.shouldCollect.2 then x :: (t.shouldCollect.1.offer xs).2 else (t.shouldCollect.1.offer xs).2 := rfl

/-- second phase (skip exhausted): collect until `seen` reaches a positive limit -/
theorem offer_noskip (t : Tracker) (hs : t.skip ≤ 0) (xs : List α) :
    (t.offer xs).2 = if t.limit > 0 then xs.take (t.limit.toNat - t.seen) else xs := by
  induction xs generalizing t with
  | nil => simp [offer_nil]
  | cons x xs ih =>
    rw [offer_cons]
    have hsk : ¬ t.skip > 0 := by omega
    by_cases hl : t.limit > 0
    · by_cases ha : (t.seen : Int) ≥ t.limit
      · have hat : t.atLimit = true := by simp [Tracker.atLimit, hl, ha]
        have e : t.shouldCollect = (t, false) := by simp [Tracker.shouldCollect, hsk, hat]
        rw [e]; simp only []
        rw [ih t hs]
        have : t.limit.toNat - t.seen = 0 := by omega
        simp [hl, this]
      · have hat : t.atLimit = false := by simp [Tracker.atLimit, hl, ha]
        have e : t.shouldCollect = ({ t with seen := t.seen + 1 }, true) := by
          simp [Tracker.shouldCollect, hsk, hat]
        rw [e]; simp only []
        rw [ih { t with seen := t.seen + 1 } hs]
        have : t.limit.toNat - t.seen = (t.limit.toNat - (t.seen + 1)) + 1 := by omega
        simp [hl, this, List.take_succ_cons]
    · have hat : t.atLimit = false := by simp [Tracker.atLimit, hl]
      have e : t.shouldCollect = ({ t with seen := t.seen + 1 }, true) := by
        simp [Tracker.shouldCollect, hsk, hat]
      rw [e]; simp only []
      rw [ih { t with seen := t.seen + 1 } hs]
      simp [hl]

theorem offer_window (t : Tracker) (h0 : t.seen = 0) (xs : List α) :
    (t.offer xs).2 = window t.skip t.limit xs := by
  induction xs generalizing t with
  | nil => simp [offer_nil, window]
  | cons x xs ih =>
    by_cases hs : t.skip > 0
    · rw [offer_cons]
      have e : t.shouldCollect = ({ t with skip := t.skip - 1 }, false) := by simp [Tracker.shouldCollect, hs]
      rw [e]; simp only []
      rw [ih { t with skip := t.skip - 1 } h0]
      have : t.skip.toNat = (t.skip - 1).toNat + 1 := by omega
      simp only [window, this, List.drop_succ_cons]
      rfl
    · rw [offer_noskip t (by omega)]
      have : t.skip.toNat = 0 := by omega
      simp [window, this, h0]

/-! range partition -/

theorem floorsLoop_above (max stride id : Nat) (fuel f : Nat) (h : id < f) :
    (floorsLoop max stride fuel f).countP (inWindow stride id) = 0 := by
  induction fuel generalizing f with
  | zero => rfl
  | succ n ih =>
    unfold floorsLoop
    split
    · have hw : inWindow stride id f = false := by simp [inWindow]; omega
      rw [List.countP_cons_of_neg (by simp [hw])]
      exact ih (f + stride) (by omega)
    · rfl

theorem floorsLoop_cover (max stride id : Nat) (hs : 0 < stride) (fuel f : Nat) (hf : f ≤ id) (hid : id ≤ max)
    (hfuel : max + 1 ≤ fuel + f) :
    (floorsLoop max stride fuel f).countP (inWindow stride id) = 1 := by
  induction fuel generalizing f with
  | zero => omega
  | succ n ih =>
    unfold floorsLoop
    rw [if_pos (by omega)]
    by_cases hw : id < f + stride
    · have : inWindow stride id f = true := by simp [inWindow]; omega
      rw [List.countP_cons_of_pos (by simp [this]), floorsLoop_above _ _ _ _ _ hw]
    · have : inWindow stride id f = false := by simp [inWindow]; omega
      rw [List.countP_cons_of_neg (by simp [this])]
      exact ih (f + stride) (by omega) (by omega)

theorem floorsLoop_le (max stride : Nat) (fuel f : Nat) : ∀ x ∈ floorsLoop max stride fuel f, x ≤ max := by
  induction fuel generalizing f with
  | zero => intro x hx; cases hx
  | succ n ih =>
    intro x hx
    unfold floorsLoop at hx
    split at hx
    · cases hx with
      | head => assumption
      | tail _ h => exact ih _ x h
    · cases hx

end Dawgs.C17.Seq
