import Dawgs.Proofs.C01S2Cy
/-
C01 / S2a — assembly: the emitted statement for one directed hop returns, on every encoded graph, a permutation of the rows the reference
semantics returns (no ORDER BY in this stage: bag equality).
-/
namespace Dawgs.C01.Proofs
open Dawgs Dawgs.Sql

-- ------------------------------------------------------------------ permutations of comprehensions

theorem perm_flatMap_congr {α β : Type} (f g : α → List β) : ∀ (l : List α), (∀ x ∈ l, (f x).Perm (g x)) → (l.flatMap f).Perm (l.flatMap g)
  | [], _ => List.Perm.refl _
  | x :: l, h => by
    rw [List.flatMap_cons, List.flatMap_cons]
    exact (h x (List.mem_cons_self ..)).append (perm_flatMap_congr f g l (fun y hy => h y (List.mem_cons_of_mem _ hy)))

theorem flatMap_append_perm' {α β : Type} (f g : α → List β) : ∀ (l : List α),
    (l.flatMap (fun x => f x ++ g x)).Perm (l.flatMap f ++ l.flatMap g)
  | [] => List.Perm.refl _
  | x :: l => by
    simp only [List.flatMap_cons]
    have ih := flatMap_append_perm' f g l
    refine (List.Perm.append_left _ ih).trans ?_
    rw [List.append_assoc, List.append_assoc]
    apply List.Perm.append_left
    rw [← List.append_assoc, ← List.append_assoc]
    exact List.Perm.append_right _ List.perm_append_comm

theorem flatMap_nil_fn {α β : Type} (l : List α) : l.flatMap (fun _ => ([] : List β)) = [] := by
  induction l with
  | nil => rfl
  | cons x l ih => rw [List.flatMap_cons, ih]; rfl

/-- the order of two independent generators does not matter for the bag -/
theorem flatMap_swap_perm {α β γ : Type} (g : α → β → List γ) : ∀ (xs : List α) (ys : List β),
    (xs.flatMap (fun x => ys.flatMap (g x))).Perm (ys.flatMap (fun y => xs.flatMap (fun x => g x y)))
  | [], ys => by simp only [List.flatMap_nil, flatMap_nil_fn]; exact List.Perm.refl _
  | x :: xs, ys => by
    simp only [List.flatMap_cons]
    exact ((List.Perm.refl _).append (flatMap_swap_perm g xs ys)).trans (flatMap_append_perm' (g x) (fun y => xs.flatMap (fun x => g x y)) ys).symm

theorem filter_flatMap_ite {α β : Type} (p : α → Bool) (f : α → List β) : ∀ (l : List α),
    (l.filter p).flatMap f = l.flatMap (fun x => if p x then f x else [])
  | [] => rfl
  | x :: l => by
    rw [List.filter_cons, List.flatMap_cons, ← filter_flatMap_ite p f l]
    cases p x <;> simp

/-- generators with a join condition: edges outer / nodes inner versus nodes outer / edges inner -/
theorem flatMap_filter_swap {α β γ : Type} (p : α → β → Bool) (F : α → β → List γ) (es : List α) (ns : List β) :
    (es.flatMap (fun e => (ns.filter (p e)).flatMap (F e))).Perm (ns.flatMap (fun a => (es.filter (fun e => p e a)).flatMap (fun e => F e a))) := by
  have h1 : es.flatMap (fun e => (ns.filter (p e)).flatMap (F e)) = es.flatMap (fun e => ns.flatMap (fun a => if p e a then F e a else [])) := by
    congr 1; funext e; exact filter_flatMap_ite (p e) (F e) ns
  have h2 : ns.flatMap (fun a => (es.filter (fun e => p e a)).flatMap (fun e => F e a)) = ns.flatMap (fun a => es.flatMap (fun e => if p e a then F e a else [])) := by
    congr 1; funext a; exact filter_flatMap_ite (fun e => p e a) (fun e => F e a) es
  rw [h1, h2]
  exact flatMap_swap_perm (fun e a => if p e a then F e a else []) es ns

-- ------------------------------------------------------------------ hypotheses on the graph

/-- `GraphOK` plus: relationship ids are unique and every relationship's kind is known to the kind map -/
structure GraphOK2 (km : KindMap) (g : Graph) : Prop extends GraphOK km g where
  edgeNodup : (g.edges.map (·.id)).Nodup
  edgeKinds : ∀ e ∈ g.edges, (km.id? e.kind).isSome = true

theorem find_edge_of_nodup : ∀ (es : List EdgeRec), (es.map (·.id)).Nodup → ∀ e ∈ es, es.find? (fun m => m.id == e.id) = some e
  | [], _, e, he => by cases he
  | m :: ms, hnd, e, he => by
    rw [List.map_cons, List.nodup_cons] at hnd
    rw [List.find?_cons]
    cases List.mem_cons.mp he with
    | inl h => subst h; simp
    | inr h =>
      have hne : (m.id == e.id) = false := by
        cases hh : m.id == e.id with
        | false => rfl
        | true => exact absurd (List.mem_map.mpr ⟨e, h, (eq_of_beq hh).symm⟩) hnd.1
      rw [hne]
      exact find_edge_of_nodup ms hnd.2 e h

theorem GraphOK2.edge? {km : KindMap} {g : Graph} (h : GraphOK2 km g) (e : EdgeRec) (he : e ∈ g.edges) : g.edge? e.id = some e :=
  find_edge_of_nodup g.edges h.edgeNodup e he

-- ------------------------------------------------------------------ SQL side

theorem hopTriples_mem (g : Graph) (p1 p2 : EdgeRec → NodeRec → Bool) (t : (EdgeRec × NodeRec) × NodeRec) (ht : t ∈ hopTriples g p1 p2) :
    t.1.1 ∈ g.edges := by
  unfold hopTriples at ht
  obtain ⟨en, hen, ht⟩ := List.mem_flatMap.mp ht
  obtain ⟨n, _, rfl⟩ := List.mem_map.mp ht
  obtain ⟨e, he, hen⟩ := List.mem_flatMap.mp hen
  obtain ⟨n', _, rfl⟩ := List.mem_map.mp hen
  exact he

theorem evalProj_items2 (km : KindMap) (q : S2.Query) (e : EdgeRec) (a b : NodeRec) (E : EEnv) (lvl : Level) : ∀ (items : List S2.Item),
    evalProj (E.push (sLvl3 km e a b)) lvl (items.map (S2.Item.tr q)) = .ok (items.map (itemVal2 km e a b))
  | [] => by rw [List.map_nil, evalProj]; rfl
  | it :: items => by
    rw [List.map_cons, evalProj]
    · rw [eval_item2, evalProj_items2 km q e a b E lvl items]; rfl
    · intro hh; cases it with
      | ent x al => cases hh
      | idOf x al => cases al <;> cases hh
      | prop x k al => cases al <;> cases hh

theorem hasAggL_items2 (q : S2.Query) : ∀ (items : List S2.Item), hasAggL (items.map (S2.Item.tr q)) = false
  | [] => by simp [hasAggL]
  | it :: items => by
    rw [List.map_cons, hasAggL, hasAggL_items2 q items]
    cases it with
    | ent x al => simp [S2.Item.tr, S2.col, hasAgg]
    | idOf x al => cases al <;> simp [S2.Item.tr, S2.col, hasAgg]
    | prop x k al => cases al <;> simp [S2.Item.tr, S2.col, S1.strLit, hasAgg]

/-- the whole statement, given the frame's FROM rows in either join order -/
theorem sql_hop (km : KindMap) (hinj : ∀ a b i, km.id? a = some i → km.id? b = some i → a = b) (g : Graph) (q : S2.Query)
    {T : Type} (ts : List T) (lv : T → Level) (eOf : T → EdgeRec) (aOf bOf : T → NodeRec) (joins : List Join)
    (hfrom : evalFromClauses (E0 (encode km g)) [[]] [.mk (.table ["edge"] (some "e0")) joins] = .ok (ts.map lv))
    (hb : ∀ t ∈ ts, findBinding "e0" (lv t) = some (eB km (eOf t)) ∧ findBinding "n0" (lv t) = some (nB "n0" km (aOf t)) ∧
      findBinding "n1" (lv t) = some (nB "n1" km (bOf t)) ∧ (km.id? (eOf t).kind).isSome = true)
    (kr : Option (List Nat)) (hk : S2.kindIds? km q.rkinds = some kr) :
    ∃ names, Sql.eval (encode km g) (.query (.mk false
      [.mk "s0" none none (Query.simple (.select false [S2.edgeComposite, S2.nodeCompositeOf "n0", S2.nodeCompositeOf "n1"]
        [.mk (.table ["edge"] (some "e0")) joins] (kr.map (fun ids => Expr.bin "=" (S2.col "e0" "kind_id") (.anyOf (S2.kindsLit ids)))) [] none))]
      (.select false (q.items.map (S2.Item.tr q)) [.mk (.table ["s0"] none) []] none [] none) [] none none)) [] =
      .ok ⟨names, (ts.filter (fun t => Cy.kindAnyOf (eOf t).kind q.rkinds)).map (fun t => q.items.map (itemVal2 km (eOf t) (aOf t) (bOf t)))⟩ := by
  rw [eval_cteStmt, hop_frame km hinj g ts lv eOf aOf bOf _ hfrom hb q.rkinds kr hk]
  simp only [ebind_ok]
  generalize hts : ts.filter (fun t => Cy.kindAnyOf (eOf t).kind q.rkinds) = ts'
  generalize ht0 : (⟨["e0", "n0", "n1"], ts'.map (fun t => [edgeVal km (eOf t), nodeVal km (aOf t), nodeVal km (bOf t)])⟩ : Table) = t0
  have hl : lookupTableE (E1 (encode km g) t0) "s0" = .ok t0 := by simp [lookupTableE, E1]
  rw [evalSelect_single _ _ _ _ _ _ hl (hasAggL_items2 q q.items)]
  have hrows : (t0.rows.map (fun r => [(⟨(none : Option String).getD "s0", t0.cols, r⟩ : Binding)])) = ts'.map (fun t => sLvl3 km (eOf t) (aOf t) (bOf t)) := by
    subst ht0
    simp [List.map_map, Function.comp_def, sLvl3]
  rw [hrows, whTest_none, filterE_true]
  simp only [ebind_ok]
  rw [mapE_map_ok (fun t => sLvl3 km (eOf t) (aOf t) (bOf t)) _
    (fun t => (q.items.map (itemVal2 km (eOf t) (aOf t) (bOf t)), some ((E1 (encode km g) t0).push (sLvl3 km (eOf t) (aOf t) (bOf t)))))]
  · simp only [ebind_ok, epure_ok, List.map_map, Function.comp_def]
    exact ⟨_, rfl⟩
  · intro t _
    rw [evalProj_items2]; rfl

-- ------------------------------------------------------------------ SQL order versus Cypher order

theorem filter_by_id : ∀ (ns : List NodeRec), (ns.map (·.id)).Nodup → ∀ (i : Int) (ok : NodeRec → Bool),
    ns.filter (fun n => ok n && n.id == i) = (match ns.find? (fun n => n.id == i) with | some n => if ok n then [n] else [] | none => [])
  | [], _, _, _ => rfl
  | m :: ms, hnd, i, ok => by
    rw [List.map_cons, List.nodup_cons] at hnd
    rw [List.filter_cons, List.find?_cons]
    cases hm : m.id == i with
    | true =>
      have hid : m.id = i := eq_of_beq hm
      have hnone : ms.filter (fun n => ok n && n.id == i) = [] := by
        apply List.filter_eq_nil_iff.mpr
        intro n hn hh
        simp only [Bool.and_eq_true, beq_iff_eq] at hh
        exact hnd.1 (List.mem_map.mpr ⟨n, hn, by rw [hh.2, hid]⟩)
      simp only [Bool.and_true, hnone]
    | false =>
      simp only [Bool.and_false, Bool.false_eq_true, if_false]
      exact filter_by_id ms hnd.2 i ok

theorem flatten_singletons {α β : Type} (f : α → β) : ∀ (l : List α), (l.map (fun a => [f a])).flatten = l.map f
  | [] => rfl
  | x :: l => by rw [List.map_cons, List.flatten_cons, flatten_singletons f l]; rfl

theorem filter_true' {α : Type} : ∀ (l : List α), l.filter (fun _ => true) = l
  | [] => rfl
  | x :: l => by rw [List.filter_cons, filter_true' l]; rfl

theorem flatten_nils {α β : Type} : ∀ (l : List α), (l.map (fun _ => ([] : List β))).flatten = []
  | [] => rfl
  | x :: l => by rw [List.map_cons, List.flatten_cons, flatten_nils l]; rfl

/-- the per-(edge, a-node) contribution shared by both enumeration orders -/
def hopF (g : Graph) (q : S2.Query) (e : EdgeRec) (a : NodeRec) : List (NodeRec × EdgeRec × NodeRec) :=
  if Cy.kindAnyOf e.kind q.rkinds then (farNodes g q e).map (fun b => (a, e, b)) else []

def pA (q : S2.Query) (e : EdgeRec) (n : NodeRec) : Bool := Cy.kindsAllOf n.kinds q.akinds && n.id == e.start
def pB (q : S2.Query) (e : EdgeRec) (n : NodeRec) : Bool := Cy.kindsAllOf n.kinds q.bkinds && n.id == e.stop

theorem filter_pB (g : Graph) (hnd : (g.nodes.map (·.id)).Nodup) (q : S2.Query) (e : EdgeRec) : g.nodes.filter (pB q e) = farNodes g q e := by
  unfold pB farNodes Graph.node?
  exact filter_by_id g.nodes hnd e.stop (fun n => Cy.kindsAllOf n.kinds q.bkinds)

/-- Cypher order, rewritten over the shared contribution -/
theorem hopMatchesCy_eq (g : Graph) (q : S2.Query) :
    hopMatchesCy g q = g.nodes.flatMap (fun a => (g.edges.filter (fun e => pA q e a)).flatMap (fun e => hopF g q e a)) := by
  unfold hopMatchesCy
  rw [filter_flatMap_ite]
  congr 1
  funext a
  unfold pA hopF
  cases hk : Cy.kindsAllOf a.kinds q.akinds with
  | false => simp
  | true =>
    simp only [if_true, Bool.true_and]
    have : (fun e : EdgeRec => e.start == a.id && Cy.kindAnyOf e.kind q.rkinds) = (fun e => (decide (Cy.kindAnyOf e.kind q.rkinds = true)) && (a.id == e.start)) := by
      funext e; rw [Bool.and_comm]; congr 1
      · simp
      · exact Bool.beq_comm ..
    rw [this, ← List.filter_filter, filter_flatMap_ite]
    congr 1
    funext e
    simp

/-- SQL order (a-node joined first), rewritten over the shared contribution -/
theorem sqlMatches_eq (g : Graph) (hnd : (g.nodes.map (·.id)).Nodup) (q : S2.Query) :
    ((hopTriples g (pA q) (pB q)).filter (fun t => Cy.kindAnyOf t.1.1.kind q.rkinds)).map (fun t => (t.1.2, t.1.1, t.2)) =
      g.edges.flatMap (fun e => (g.nodes.filter (pA q e)).flatMap (fun a => hopF g q e a)) := by
  unfold hopTriples hopF
  simp only [List.flatMap_assoc, List.filter_flatMap, List.map_flatMap, List.flatMap_map, List.filter_map, List.map_map, Function.comp_def,
    filter_pB g hnd]
  congr 1
  funext e
  congr 1
  funext a
  cases Cy.kindAnyOf e.kind q.rkinds <;> simp [filter_true']

/-- SQL order with the b-node joined first: the same bag -/
theorem sqlMatches_flip_perm (g : Graph) (hnd : (g.nodes.map (·.id)).Nodup) (q : S2.Query) :
    (((hopTriples g (pB q) (pA q)).filter (fun t => Cy.kindAnyOf t.1.1.kind q.rkinds)).map (fun t => (t.2, t.1.1, t.1.2))).Perm
      (g.edges.flatMap (fun e => (g.nodes.filter (pA q e)).flatMap (fun a => hopF g q e a))) := by
  have : ((hopTriples g (pB q) (pA q)).filter (fun t => Cy.kindAnyOf t.1.1.kind q.rkinds)).map (fun t => (t.2, t.1.1, t.1.2)) =
      g.edges.flatMap (fun e => (g.nodes.filter (pB q e)).flatMap (fun b => (g.nodes.filter (pA q e)).flatMap (fun a =>
        if Cy.kindAnyOf e.kind q.rkinds then [(a, e, b)] else []))) := by
    unfold hopTriples
    simp only [List.flatMap_assoc, List.filter_flatMap, List.map_flatMap, List.flatMap_map, List.filter_map, List.map_map, Function.comp_def]
    congr 1
    funext e
    congr 1
    funext b
    cases Cy.kindAnyOf e.kind q.rkinds <;> simp [List.flatMap_def, flatten_singletons, flatten_nils]
  rw [this]
  apply perm_flatMap_congr
  intro e _
  refine (flatMap_swap_perm (fun b a => if Cy.kindAnyOf e.kind q.rkinds then [(a, e, b)] else []) (g.nodes.filter (pB q e)) (g.nodes.filter (pA q e))).trans ?_
  apply perm_flatMap_congr
  intro a _
  unfold hopF
  rw [filter_pB g hnd]
  cases Cy.kindAnyOf e.kind q.rkinds
  · simp [flatMap_nil_fn]
  · simp [List.flatMap_def, flatten_singletons]

-- ------------------------------------------------------------------ values, and the stage theorem

theorem edge_toR (km : KindMap) (g : Graph) (e : EdgeRec) (he : g.edge? e.id = some e) :
    valToR (edgeVal km e) = Cy.CVal.toR g km (.rel e.id) := by
  simp [edgeVal, valToR, rowToR, Cy.CVal.toR, Cy.relToR, he]

theorem propVal_toR (km : KindMap) (g : Graph) (props : List (String × Json)) (k : String) :
    valToR (propVal props k) = Cy.CVal.toR g km (((Json.lookup k props).map Cy.jsonToC).getD .null) := by
  unfold propVal
  cases Json.lookup k props with
  | none => simp [valToR, Cy.CVal.toR]
  | some j => simp [valToR, toR_jsonToC]

theorem item2_toR (km : KindMap) (g : Graph) (a : NodeRec) (e : EdgeRec) (b : NodeRec)
    (ha : g.node? a.id = some a) (he : g.edge? e.id = some e) (hb : g.node? b.id = some b) (it : S2.Item) :
    valToR (itemVal2 km e a b it) = Cy.CVal.toR g km (itemC2 a e b it) := by
  cases it with
  | ent x al =>
    cases x <;> simp only [itemVal2, itemC2]
    · exact item_toR km g a ha (.node none)
    · exact edge_toR km g e he
    · exact item_toR km g b hb (.node none)
  | idOf x al => cases x <;> simp [itemVal2, itemC2, valToR, Cy.CVal.toR]
  | prop x k al => cases x <;> (simp only [itemVal2, itemC2]; exact propVal_toR km g _ k)

/-- the client-visible row of a match -/
def rowR2 (km : KindMap) (q : S2.Query) (m : NodeRec × EdgeRec × NodeRec) : List RVal :=
  valsToR (q.items.map (itemVal2 km m.2.1 m.1 m.2.2))

theorem rows_perm (km : KindMap) (g : Graph) (q : S2.Query) (hn : ∀ n ∈ g.nodes, g.node? n.id = some n) (he : ∀ e ∈ g.edges, g.edge? e.id = some e)
    (names : List String) (M : List (NodeRec × EdgeRec × NodeRec)) (hM : M.Perm (hopMatchesCy g q)) :
    (sqlRows ⟨names, M.map (fun m => q.items.map (itemVal2 km m.2.1 m.1 m.2.2))⟩).Perm
      (cyRows g km (Cy.projNames (q.items.map (S2.Item.toCy q)), (hopMatchesCy g q).map (fun m => q.items.map (itemC2 m.1 m.2.1 m.2.2)))) := by
  unfold sqlRows cyRows
  simp only [List.map_map, Function.comp_def]
  have hcongr : (hopMatchesCy g q).map (fun m => q.items.map (fun it => Cy.CVal.toR g km (itemC2 m.1 m.2.1 m.2.2 it))) =
      (hopMatchesCy g q).map (fun m => valsToR (q.items.map (itemVal2 km m.2.1 m.1 m.2.2))) := by
    apply List.map_congr_left
    intro m hm
    obtain ⟨h1, h2, h3, _, _⟩ := hopMatches_mem g q hn he m hm
    rw [valsToR_map, List.map_map]
    apply List.map_congr_left
    intro it _
    exact (item2_toR km g m.1 m.2.1 m.2.2 h1 h2 h3 it).symm
  rw [hcongr]
  exact hM.map _

/-- STAGE S2a (one directed hop), for ALL graphs satisfying `GraphOK2` and ALL queries of the stage: both semantics yield a result and the
client-visible rows of the SQL result are a permutation of the rows of the Cypher result (the stage has no ORDER BY) -/
theorem s2_total (km : KindMap) (g : Graph) (hok : GraphOK2 km g) (q : S2.Query) (st : Stmt) (h : q.tr km = some st) :
    ∃ r t, Cy.eval .none g q.toCy = .ok r ∧ Sql.eval (encode km g) st [] = .ok t ∧ (sqlRows t).Perm (cyRows g km r) := by
  have hnd := hok.nodup
  have hinj := hok.inj
  have hn : ∀ n ∈ g.nodes, g.node? n.id = some n := find_of_nodup g.nodes hnd
  have he : ∀ e ∈ g.edges, g.edge? e.id = some e := fun e hm => hok.edge? e hm
  unfold S2.Query.tr at h
  cases hwf : q.wf with
  | false => simp [hwf] at h
  | true =>
  simp only [hwf, Bool.not_true, Bool.false_eq_true, if_false] at h
  cases hka : S2.kindIds? km q.akinds with
  | none => simp [hka] at h
  | some ka =>
  cases hkr : S2.kindIds? km q.rkinds with
  | none => simp [hka, hkr] at h
  | some kr =>
  cases hkb : S2.kindIds? km q.bkinds with
  | none => simp [hka, hkr, hkb] at h
  | some kb =>
  simp only [hka, hkr, hkb, Option.some.injEq] at h
  have hcy := cy_side2 g q hwf hn he
  have hstart : ∀ l rest e, findBinding "e0" l = some (eB km e) → lookupQualifiedV "e0" "start_id" (l :: rest) = .ok (.int e.start) :=
    fun l rest e hh => (lookup_e0 km l rest e hh).2.1
  have hstop : ∀ l rest e, findBinding "e0" l = some (eB km e) → lookupQualifiedV "e0" "end_id" (l :: rest) = .ok (.int e.stop) :=
    fun l rest e hh => (lookup_e0 km l rest e hh).2.2.1
  have hCyPerm : (g.edges.flatMap (fun e => (g.nodes.filter (pA q e)).flatMap (fun a => hopF g q e a))).Perm (hopMatchesCy g q) := by
    rw [hopMatchesCy_eq]
    exact flatMap_filter_swap (pA q) (hopF g q) g.edges g.nodes
  cases hflip : (ka.isNone && kb.isSome) with
  | false =>
    simp only [hflip, Bool.false_eq_true, if_false] at h
    subst h
    have hfrom := hop_from km hinj g "n0" "start_id" "n1" "end_id" (·.start) (·.stop) q.akinds q.bkinds ka kb
      (by decide) (by decide) (by decide) hstart hstop hka hkb
    obtain ⟨names, hsql⟩ := sql_hop km hinj g q (hopTriples g (pA q) (pB q)) (fun t => [eB km t.1.1, nB "n0" km t.1.2, nB "n1" km t.2])
      (fun t => t.1.1) (fun t => t.1.2) (fun t => t.2) _ hfrom
      (fun t ht => ⟨by simp [findBinding, eB], by simp [findBinding, eB, nB], by simp [findBinding, eB, nB],
        hok.edgeKinds _ (hopTriples_mem g _ _ t ht)⟩) kr hkr
    refine ⟨_, _, hcy, hsql, ?_⟩
    have hM : (((hopTriples g (pA q) (pB q)).filter (fun t => Cy.kindAnyOf t.1.1.kind q.rkinds)).map (fun t => (t.1.2, t.1.1, t.2))).Perm (hopMatchesCy g q) := by
      rw [sqlMatches_eq g hnd q]; exact hCyPerm
    have := rows_perm km g q hn he names _ hM
    simpa [List.map_map, Function.comp_def] using this
  | true =>
    simp only [hflip, if_true] at h
    subst h
    have hfrom := hop_from km hinj g "n1" "end_id" "n0" "start_id" (·.stop) (·.start) q.bkinds q.akinds kb ka
      (by decide) (by decide) (by decide) hstop hstart hkb hka
    obtain ⟨names, hsql⟩ := sql_hop km hinj g q (hopTriples g (pB q) (pA q)) (fun t => [eB km t.1.1, nB "n1" km t.1.2, nB "n0" km t.2])
      (fun t => t.1.1) (fun t => t.2) (fun t => t.1.2) _ hfrom
      (fun t ht => ⟨by simp [findBinding, eB], by simp [findBinding, eB, nB], by simp [findBinding, eB, nB],
        hok.edgeKinds _ (hopTriples_mem g _ _ t ht)⟩) kr hkr
    refine ⟨_, _, hcy, hsql, ?_⟩
    have hM : (((hopTriples g (pB q) (pA q)).filter (fun t => Cy.kindAnyOf t.1.1.kind q.rkinds)).map (fun t => (t.2, t.1.1, t.1.2))).Perm (hopMatchesCy g q) :=
      (sqlMatches_flip_perm g hnd q).trans hCyPerm
    have := rows_perm km g q hn he names _ hM
    simpa [List.map_map, Function.comp_def] using this

theorem graphOK2b_sound (km : KindMap) (g : Graph) (h : graphOK2b km g = true) : GraphOK2 km g := by
  unfold graphOK2b at h
  simp only [Bool.and_eq_true, decide_eq_true_eq, List.all_eq_true] at h
  exact { toGraphOK := graphOKb_sound km g h.1.1, edgeNodup := h.1.2, edgeKinds := h.2 }

-- ------------------------------------------------------------------ the recogniser of stage S2a is sound

theorem refOf2_name (a r b v : String) (x : S2.Ref) (h : refOf2 a r b v = some x) (q : S2.Query) (ha : q.a = a) (hr : q.r = r) (hb : q.b = b) :
    q.name x = v := by
  unfold refOf2 at h
  split at h
  · rename_i hv; cases h; rw [S2.Query.name, ha]; exact (eq_of_beq hv).symm
  · split at h
    · rename_i hv; cases h; rw [S2.Query.name, hr]; exact (eq_of_beq hv).symm
    · split at h
      · rename_i hv; cases h; rw [S2.Query.name, hb]; exact (eq_of_beq hv).symm
      · cases h

theorem itemOf2_sound (q : S2.Query) (it : Cy.ProjItem) (i : S2.Item) (h : itemOf2 q.a q.r q.b it = some i) : i.toCy q = it := by
  unfold itemOf2 at h
  cases it with
  | mk e alias =>
    simp only at h
    split at h
    · rename_i v heq
      obtain ⟨x, hx, rfl⟩ := Option.map_eq_some_iff.mp h
      simp only [S2.Item.toCy, refOf2_name _ _ _ _ x hx q rfl rfl rfl]
    · rename_i v heq
      obtain ⟨x, hx, rfl⟩ := Option.map_eq_some_iff.mp h
      simp only [S2.Item.toCy, refOf2_name _ _ _ _ x hx q rfl rfl rfl]
    · rename_i v k heq
      obtain ⟨x, hx, rfl⟩ := Option.map_eq_some_iff.mp h
      simp only [S2.Item.toCy, refOf2_name _ _ _ _ x hx q rfl rfl rfl]
    · cases h

theorem itemsOf2_sound (q : S2.Query) : ∀ (its : List Cy.ProjItem) (is : List S2.Item), its.mapM (itemOf2 q.a q.r q.b) = some is →
    is.map (S2.Item.toCy q) = its
  | [], is, h => by simp only [List.mapM_nil] at h; cases h; rfl
  | it :: its, is, h => by
    rw [List.mapM_cons] at h
    cases hi : itemOf2 q.a q.r q.b it with
    | none => rw [hi] at h; cases h
    | some i =>
      rw [hi] at h
      cases hr : its.mapM (itemOf2 q.a q.r q.b) with
      | none => rw [hr] at h; cases h
      | some is' =>
        rw [hr] at h; cases h
        rw [List.map_cons, itemOf2_sound q it i hi, itemsOf2_sound q its is' hr]

/-- an accepted parsed query is exactly the Cypher reading of the S2a query returned -/
theorem ofCy2_sound (q : Cy.Query) (s : S2.Query) (h : ofCy2 q = some s) : s.toCy = q := by
  unfold ofCy2 at h
  split at h
  · rename_i a akinds r rkinds b bkinds hparts hclauses
    split at h
    · cases h
    · rename_i hcond
      simp only [Bool.or_eq_true, not_or, Bool.not_eq_true, Bool.not_eq_true'] at hcond
      simp only [bind, Option.bind_eq_some_iff, pure] at h
      obtain ⟨items, hitems, h⟩ := h
      split at h
      · simp only [Option.some.injEq] at h
        subst h
        have hit := itemsOf2_sound ⟨a, r, b, akinds, rkinds, bkinds, items⟩ _ _ hitems
        cases q with
        | mk parts clauses ret =>
          cases ret with
          | mk distinct all ritems orderBy rskip rlimit =>
            simp only at hparts hclauses hcond hit
            subst hparts hclauses
            simp only [S2.Query.toCy, hit, Cy.Query.mk.injEq, Cy.Projection.mk.injEq, true_and]
            simp_all
      · cases h
  · cases h

end Dawgs.C01.Proofs
