import Dawgs.Proofs.C01S2Cy
import Dawgs.Proofs.C01Frag
/-
C01 / S2a — assembly: the emitted statement for one directed hop returns, on every encoded graph, a permutation of the rows the reference
semantics returns (no ORDER BY in this stage: bag equality).
-/
namespace Dawgs.C01.Proofs
open Dawgs Dawgs.Sql

-- ------------------------------------------------------------------ permutations of comprehensions

theorem perm_flatMap_congr {α β : Type} (f g : α → List β) : ∀ (l : List α), (∀ x ∈ l, (f x).Perm (g x)) → (l.flatMap f).Perm (l.flatMap g)
  | [], _ => List.Perm.refl _
  | x :: l, h => by
    rw [List.flatMap_cons, List.flatMap_cons]
    exact (h x (List.mem_cons_self ..)).append (perm_flatMap_congr f g l (fun y hy => h y (List.mem_cons_of_mem _ hy)))

theorem flatMap_append_perm' {α β : Type} (f g : α → List β) : ∀ (l : List α),
    (l.flatMap (fun x => f x ++ g x)).Perm (l.flatMap f ++ l.flatMap g)
  | [] => List.Perm.refl _
  | x :: l => by
    simp only [List.flatMap_cons]
    have ih := flatMap_append_perm' f g l
    refine (List.Perm.append_left _ ih).trans ?_
    rw [List.append_assoc, List.append_assoc]
    apply List.Perm.append_left
    rw [← List.append_assoc, ← List.append_assoc]
    exact List.Perm.append_right _ List.perm_append_comm

theorem flatMap_nil_fn {α β : Type} (l : List α) : l.flatMap (fun _ => ([] : List β)) = [] := by
  induction l with
  | nil => rfl
  | cons x l ih => rw [List.flatMap_cons, ih]; rfl

/-- the order of two independent generators does not matter for the bag -/
theorem flatMap_swap_perm {α β γ : Type} (g : α → β → List γ) : ∀ (xs : List α) (ys : List β),
    (xs.flatMap (fun x => ys.flatMap (g x))).Perm (ys.flatMap (fun y => xs.flatMap (fun x => g x y)))
  | [], ys => by simp only [List.flatMap_nil, flatMap_nil_fn]; exact List.Perm.refl _
  | x :: xs, ys => by
    simp only [List.flatMap_cons]
    exact ((List.Perm.refl _).append (flatMap_swap_perm g xs ys)).trans (flatMap_append_perm' (g x) (fun y => xs.flatMap (fun x => g x y)) ys).symm

theorem filter_flatMap_ite {α β : Type} (p : α → Bool) (f : α → List β) : ∀ (l : List α),
    (l.filter p).flatMap f = l.flatMap (fun x => if p x then f x else [])
  | [] => rfl
  | x :: l => by
    rw [List.filter_cons, List.flatMap_cons, ← filter_flatMap_ite p f l]
    cases p x <;> simp

/-- generators with a join condition: edges outer / nodes inner versus nodes outer / edges inner -/
theorem flatMap_filter_swap {α β γ : Type} (p : α → β → Bool) (F : α → β → List γ) (es : List α) (ns : List β) :
    (es.flatMap (fun e => (ns.filter (p e)).flatMap (F e))).Perm (ns.flatMap (fun a => (es.filter (fun e => p e a)).flatMap (fun e => F e a))) := by
  have h1 : es.flatMap (fun e => (ns.filter (p e)).flatMap (F e)) = es.flatMap (fun e => ns.flatMap (fun a => if p e a then F e a else [])) := by
    congr 1; funext e; exact filter_flatMap_ite (p e) (F e) ns
  have h2 : ns.flatMap (fun a => (es.filter (fun e => p e a)).flatMap (fun e => F e a)) = ns.flatMap (fun a => es.flatMap (fun e => if p e a then F e a else [])) := by
    congr 1; funext a; exact filter_flatMap_ite (fun e => p e a) (fun e => F e a) es
  rw [h1, h2]
  exact flatMap_swap_perm (fun e a => if p e a then F e a else []) es ns

-- ------------------------------------------------------------------ hypotheses on the graph

/-- `GraphOK` plus: relationship ids are unique and every relationship's kind is known to the kind map -/
structure GraphOK2 (km : KindMap) (g : Graph) : Prop extends GraphOK km g where
  edgeNodup : (g.edges.map (·.id)).Nodup
  edgeKinds : ∀ e ∈ g.edges, (km.id? e.kind).isSome = true
  edgeNoNull : ∀ e ∈ g.edges, ∀ k, Json.lookup k e.props ≠ some .null

theorem find_edge_of_nodup : ∀ (es : List EdgeRec), (es.map (·.id)).Nodup → ∀ e ∈ es, es.find? (fun m => m.id == e.id) = some e
  | [], _, e, he => by cases he
  | m :: ms, hnd, e, he => by
    rw [List.map_cons, List.nodup_cons] at hnd
    rw [List.find?_cons]
    cases List.mem_cons.mp he with
    | inl h => subst h; simp
    | inr h =>
      have hne : (m.id == e.id) = false := by
        cases hh : m.id == e.id with
        | false => rfl
        | true => exact absurd (List.mem_map.mpr ⟨e, h, (eq_of_beq hh).symm⟩) hnd.1
      rw [hne]
      exact find_edge_of_nodup ms hnd.2 e h

theorem GraphOK2.edge? {km : KindMap} {g : Graph} (h : GraphOK2 km g) (e : EdgeRec) (he : e ∈ g.edges) : g.edge? e.id = some e :=
  find_edge_of_nodup g.edges h.edgeNodup e he

-- ------------------------------------------------------------------ SQL side

theorem hopTriples_mem (g : Graph) (p1 p2 : EdgeRec → NodeRec → Bool) (t : (EdgeRec × NodeRec) × NodeRec) (ht : t ∈ hopTriples g p1 p2) :
    t.1.1 ∈ g.edges := by
  unfold hopTriples at ht
  obtain ⟨en, hen, ht⟩ := List.mem_flatMap.mp ht
  obtain ⟨n, _, rfl⟩ := List.mem_map.mp ht
  obtain ⟨e, he, hen⟩ := List.mem_flatMap.mp hen
  obtain ⟨n', _, rfl⟩ := List.mem_map.mp hen
  exact he

theorem evalProj_items2 (km : KindMap) (q : S2.Query) (ke ka kb : Bool) (e : EdgeRec) (a b : NodeRec) (E : EEnv) (lvl : Level) : ∀ (items : List S2.Item),
    (∀ it ∈ items, keepOf ke ka kb it.ref = true) →
    evalProj (E.push (sLvlK km ke ka kb e a b)) lvl (items.map (S2.Item.tr q)) = .ok (items.map (itemVal2 km e a b))
  | [], _ => by rw [List.map_nil, evalProj]; rfl
  | it :: items, h => by
    rw [List.map_cons, evalProj]
    · rw [eval_item2 km q ke ka kb e a b E it (h it (List.mem_cons_self ..)),
        evalProj_items2 km q ke ka kb e a b E lvl items (fun i hi => h i (List.mem_cons_of_mem _ hi))]; rfl
    · intro hh; cases it with
      | ent x al => cases hh
      | idOf x al => cases al <;> cases hh
      | prop x k al => cases al <;> cases hh

theorem hasAggL_items2 (q : S2.Query) : ∀ (items : List S2.Item), hasAggL (items.map (S2.Item.tr q)) = false
  | [] => by simp [hasAggL]
  | it :: items => by
    rw [List.map_cons, hasAggL, hasAggL_items2 q items]
    cases it with
    | ent x al => simp [S2.Item.tr, S2.col, hasAgg]
    | idOf x al => cases al <;> simp [S2.Item.tr, S2.col, hasAgg]
    | prop x k al => cases al <;> simp [S2.Item.tr, S2.col, S1.strLit, hasAgg]

/-- the whole statement, given the frame's FROM rows in either join order, the meaning of its WHERE, and the bindings the frame keeps
(every binding a RETURN item reads is kept) -/
theorem sql_hop_ben (km : KindMap) (g : Graph) (q : S2.Query) (ke ka kb : Bool) (hkeep : ∀ it ∈ q.items, keepOf ke ka kb it.ref = true)
    {T : Type} (ts : List T) (lv : T → Level) (eOf : T → EdgeRec) (aOf bOf : T → NodeRec) (joins : List Join)
    (hfrom : BenignT (evalFromClauses (E0 (encode km g)) [[]] [.mk (.table ["edge"] (some "e0")) joins]) (ts.map lv))
    (hb : ∀ t ∈ ts, findBinding "e0" (lv t) = some (eB km (eOf t)) ∧ findBinding "n0" (lv t) = some (nB "n0" km (aOf t)) ∧
      findBinding "n1" (lv t) = some (nB "n1" km (bOf t)))
    (wh : Option Expr) (pw : T → Bool) (hwh : ∀ t ∈ ts, BenignT (whTest (E0 (encode km g)) wh (lv t)) (pw t)) :
    ∃ names, BenignT (Sql.eval (encode km g) (.query (.mk false
      [.mk "s0" none none (Query.simple (.select false (S2.frameProj ke ka kb) [.mk (.table ["edge"] (some "e0")) joins] wh [] none))]
      (.select false (q.items.map (S2.Item.tr q)) [.mk (.table ["s0"] none) []] none [] none) [] none none)) [])
      (⟨names, (ts.filter pw).map (fun t => q.items.map (itemVal2 km (eOf t) (aOf t) (bOf t)))⟩ : Table) := by
  rw [eval_cteStmt]
  generalize hts : ts.filter pw = ts'
  generalize ht0 : (⟨keptCols ke ka kb, ts'.map (fun t => keptVals km ke ka kb (eOf t) (aOf t) (bOf t))⟩ : Table) = t0
  have hfr := hop_frame_ben km g ke ka kb ts lv eOf aOf bOf _ hfrom hb wh pw hwh
  rw [hts, ht0] at hfr
  have hl : lookupTableE (E1 (encode km g) t0) "s0" = .ok t0 := by simp [lookupTableE, E1]
  have hrows : (t0.rows.map (fun r => [(⟨(none : Option String).getD "s0", t0.cols, r⟩ : Binding)])) = ts'.map (fun t => sLvlK km ke ka kb (eOf t) (aOf t) (bOf t)) := by
    subst ht0
    simp [List.map_map, Function.comp_def, sLvlK]
  refine ⟨projNames (q.items.map (S2.Item.tr q)) (ts'.map (fun t => sLvlK km ke ka kb (eOf t) (aOf t) (bOf t))), benT_bind hfr (Or.inl ?_)⟩
  rw [evalSelect_single _ _ _ _ _ _ hl (hasAggL_items2 q q.items), hrows, whTest_none, filterE_true]
  simp only [ebind_ok]
  rw [mapE_map_ok (fun t => sLvlK km ke ka kb (eOf t) (aOf t) (bOf t)) _
    (fun t => (q.items.map (itemVal2 km (eOf t) (aOf t) (bOf t)), some ((E1 (encode km g) t0).push (sLvlK km ke ka kb (eOf t) (aOf t) (bOf t)))))]
  · simp only [ebind_ok, epure_ok, List.map_map, Function.comp_def]
  · intro t _
    rw [evalProj_items2 km q ke ka kb _ _ _ _ _ q.items hkeep]; rfl

-- ------------------------------------------------------------------ SQL order versus Cypher order

theorem filter_by_id : ∀ (ns : List NodeRec), (ns.map (·.id)).Nodup → ∀ (i : Int) (ok : NodeRec → Bool),
    ns.filter (fun n => ok n && n.id == i) = (match ns.find? (fun n => n.id == i) with | some n => if ok n then [n] else [] | none => [])
  | [], _, _, _ => rfl
  | m :: ms, hnd, i, ok => by
    rw [List.map_cons, List.nodup_cons] at hnd
    rw [List.filter_cons, List.find?_cons]
    cases hm : m.id == i with
    | true =>
      have hid : m.id = i := eq_of_beq hm
      have hnone : ms.filter (fun n => ok n && n.id == i) = [] := by
        apply List.filter_eq_nil_iff.mpr
        intro n hn hh
        simp only [Bool.and_eq_true, beq_iff_eq] at hh
        exact hnd.1 (List.mem_map.mpr ⟨n, hn, by rw [hh.2, hid]⟩)
      simp only [Bool.and_true, hnone]
    | false =>
      simp only [Bool.and_false, Bool.false_eq_true, if_false]
      exact filter_by_id ms hnd.2 i ok

theorem flatten_singletons {α β : Type} (f : α → β) : ∀ (l : List α), (l.map (fun a => [f a])).flatten = l.map f
  | [] => rfl
  | x :: l => by rw [List.map_cons, List.flatten_cons, flatten_singletons f l]; rfl

theorem filter_true' {α : Type} : ∀ (l : List α), l.filter (fun _ => true) = l
  | [] => rfl
  | x :: l => by rw [List.filter_cons, filter_true' l]; rfl

theorem flatten_nils {α β : Type} : ∀ (l : List α), (l.map (fun _ => ([] : List β))).flatten = []
  | [] => rfl
  | x :: l => by rw [List.map_cons, List.flatten_cons, flatten_nils l]; rfl

/-- the per-(edge, a-node) contribution shared by both enumeration orders -/
def hopF (g : Graph) (q : S2.Query) (e : EdgeRec) (a : NodeRec) : List (NodeRec × EdgeRec × NodeRec) :=
  if Cy.kindAnyOf e.kind q.rkinds then (farNodes g q e).map (fun b => (a, e, b)) else []

def pA (q : S2.Query) (e : EdgeRec) (n : NodeRec) : Bool := Cy.kindsAllOf n.kinds q.akinds && n.id == e.start
def pB (q : S2.Query) (e : EdgeRec) (n : NodeRec) : Bool := Cy.kindsAllOf n.kinds q.bkinds && n.id == e.stop

theorem filter_pB (g : Graph) (hnd : (g.nodes.map (·.id)).Nodup) (q : S2.Query) (e : EdgeRec) : g.nodes.filter (pB q e) = farNodes g q e := by
  unfold pB farNodes Graph.node?
  exact filter_by_id g.nodes hnd e.stop (fun n => Cy.kindsAllOf n.kinds q.bkinds)

/-- Cypher order, rewritten over the shared contribution -/
theorem hopMatchesCy_eq (g : Graph) (q : S2.Query) :
    hopMatchesCy g q = g.nodes.flatMap (fun a => (g.edges.filter (fun e => pA q e a)).flatMap (fun e => hopF g q e a)) := by
  unfold hopMatchesCy
  rw [filter_flatMap_ite]
  congr 1
  funext a
  unfold pA hopF
  cases hk : Cy.kindsAllOf a.kinds q.akinds with
  | false => simp
  | true =>
    simp only [if_true, Bool.true_and]
    have : (fun e : EdgeRec => e.start == a.id && Cy.kindAnyOf e.kind q.rkinds) = (fun e => (decide (Cy.kindAnyOf e.kind q.rkinds = true)) && (a.id == e.start)) := by
      funext e; rw [Bool.and_comm]; congr 1
      · simp
      · exact Bool.beq_comm ..
    rw [this, ← List.filter_filter, filter_flatMap_ite]
    congr 1
    funext e
    simp

/-- SQL order (a-node joined first), rewritten over the shared contribution -/
theorem sqlMatches_eq (g : Graph) (hnd : (g.nodes.map (·.id)).Nodup) (q : S2.Query) :
    ((hopTriples g (pA q) (pB q)).filter (fun t => Cy.kindAnyOf t.1.1.kind q.rkinds)).map (fun t => (t.1.2, t.1.1, t.2)) =
      g.edges.flatMap (fun e => (g.nodes.filter (pA q e)).flatMap (fun a => hopF g q e a)) := by
  unfold hopTriples hopF
  simp only [List.flatMap_assoc, List.filter_flatMap, List.map_flatMap, List.flatMap_map, List.filter_map, List.map_map, Function.comp_def,
    filter_pB g hnd]
  congr 1
  funext e
  congr 1
  funext a
  cases Cy.kindAnyOf e.kind q.rkinds <;> simp [filter_true']

/-- SQL order with the b-node joined first: the same bag -/
theorem sqlMatches_flip_perm (g : Graph) (hnd : (g.nodes.map (·.id)).Nodup) (q : S2.Query) :
    (((hopTriples g (pB q) (pA q)).filter (fun t => Cy.kindAnyOf t.1.1.kind q.rkinds)).map (fun t => (t.2, t.1.1, t.1.2))).Perm
      (g.edges.flatMap (fun e => (g.nodes.filter (pA q e)).flatMap (fun a => hopF g q e a))) := by
  have : ((hopTriples g (pB q) (pA q)).filter (fun t => Cy.kindAnyOf t.1.1.kind q.rkinds)).map (fun t => (t.2, t.1.1, t.1.2)) =
      g.edges.flatMap (fun e => (g.nodes.filter (pB q e)).flatMap (fun b => (g.nodes.filter (pA q e)).flatMap (fun a =>
        if Cy.kindAnyOf e.kind q.rkinds then [(a, e, b)] else []))) := by
    unfold hopTriples
    simp only [List.flatMap_assoc, List.filter_flatMap, List.map_flatMap, List.flatMap_map, List.filter_map, List.map_map, Function.comp_def]
    congr 1
    funext e
    congr 1
    funext b
    cases Cy.kindAnyOf e.kind q.rkinds <;> simp [List.flatMap_def, flatten_singletons, flatten_nils]
  rw [this]
  apply perm_flatMap_congr
  intro e _
  refine (flatMap_swap_perm (fun b a => if Cy.kindAnyOf e.kind q.rkinds then [(a, e, b)] else []) (g.nodes.filter (pB q e)) (g.nodes.filter (pA q e))).trans ?_
  apply perm_flatMap_congr
  intro a _
  unfold hopF
  rw [filter_pB g hnd]
  cases Cy.kindAnyOf e.kind q.rkinds
  · simp [flatMap_nil_fn]
  · simp [List.flatMap_def, flatten_singletons]

-- ------------------------------------------------------------------ WHERE conjuncts pushed into the joins: the same matches, filtered

/-- strengthening both join conditions by node predicates filters the FROM rows -/
theorem hopTriples_strengthen (g : Graph) (k1 k2 : EdgeRec → NodeRec → Bool) (f1 f2 : NodeRec → Bool) :
    hopTriples g (fun e n => f1 n && k1 e n) (fun e n => f2 n && k2 e n) = (hopTriples g k1 k2).filter (fun t => f1 t.1.2 && f2 t.2) := by
  unfold hopTriples
  have hA : g.edges.flatMap (fun e => (g.nodes.filter (fun n => f1 n && k1 e n)).map (fun n => (e, n))) =
      (g.edges.flatMap (fun e => (g.nodes.filter (k1 e)).map (fun n => (e, n)))).filter (fun en => f1 en.2) := by
    rw [List.filter_flatMap]
    congr 1; funext e
    rw [List.filter_map, ← List.filter_filter]
    rfl
  rw [hA, filter_flatMap_ite, List.filter_flatMap]
  congr 1; funext en
  rw [List.filter_map, ← List.filter_filter]
  cases h1 : f1 en.2 with
  | false => simp [Function.comp_def, h1]
  | true => simp [Function.comp_def, h1]

def ok3 (q : S2.Query) (m : NodeRec × EdgeRec × NodeRec) : Bool :=
  okPreds (nodeEnt m.1) (q.preds .a) && okPreds (edgeEnt m.2.1) (q.preds .r) && okPreds (nodeEnt m.2.2) (q.preds .b)

theorem all_split (F : S2.Ref → S1.Pred → Bool) : ∀ (cs : List (S2.Ref × S1.Pred)),
    cs.all (fun c => F c.1 c.2) =
      ((((cs.filter (fun c => c.1 == .a)).map (·.2)).all (F .a) && ((cs.filter (fun c => c.1 == .r)).map (·.2)).all (F .r)) &&
        ((cs.filter (fun c => c.1 == .b)).map (·.2)).all (F .b))
  | [] => rfl
  | (x, p) :: cs => by
    have ih := all_split F cs
    have hab : (S2.Ref.a == S2.Ref.b) = false := by decide
    have har : (S2.Ref.a == S2.Ref.r) = false := by decide
    have hra : (S2.Ref.r == S2.Ref.a) = false := by decide
    have hrb : (S2.Ref.r == S2.Ref.b) = false := by decide
    have hba : (S2.Ref.b == S2.Ref.a) = false := by decide
    have hbr : (S2.Ref.b == S2.Ref.r) = false := by decide
    cases x <;>
      simp only [List.all_cons, List.filter_cons, ih, List.map_cons, beq_self_eq_true, if_true, hab, har, hra, hrb, hba, hbr,
        Bool.false_eq_true, if_false] <;>
      (cases F _ p <;> simp)

theorem okWhere_split (q : S2.Query) (a : NodeRec) (e : EdgeRec) (b : NodeRec) : okWhere q a e b = ok3 q (a, e, b) := by
  unfold okWhere ok3 S2.Query.preds okPreds
  have := all_split (fun x p => semE (entOf a e b x) p == some true) q.wh
  simpa [entOf] using this

/-- the join conditions and the frame WHERE of the statement, as Boolean functions -/
def pA' (q : S2.Query) (e : EdgeRec) (n : NodeRec) : Bool := (okPreds (nodeEnt n) (q.preds .a) && Cy.kindsAllOf n.kinds q.akinds) && n.id == e.start
def pB' (q : S2.Query) (e : EdgeRec) (n : NodeRec) : Bool := (okPreds (nodeEnt n) (q.preds .b) && Cy.kindsAllOf n.kinds q.bkinds) && n.id == e.stop
def wR' (q : S2.Query) (e : EdgeRec) : Bool := okPreds (edgeEnt e) (q.preds .r) && Cy.kindAnyOf e.kind q.rkinds

theorem pA'_eq (q : S2.Query) : pA' q = fun e n => okPreds (nodeEnt n) (q.preds .a) && pA q e n := by
  funext e n; unfold pA' pA; rw [Bool.and_assoc]
theorem pB'_eq (q : S2.Query) : pB' q = fun e n => okPreds (nodeEnt n) (q.preds .b) && pB q e n := by
  funext e n; unfold pB' pB; rw [Bool.and_assoc]

/-- a-node joined first: the SQL matches are the stage-S2a matches filtered by the WHERE conjuncts -/
theorem sqlMatches'_eq (g : Graph) (q : S2.Query) :
    ((hopTriples g (pA' q) (pB' q)).filter (fun t => wR' q t.1.1)).map (fun t => (t.1.2, t.1.1, t.2)) =
      (((hopTriples g (pA q) (pB q)).filter (fun t => Cy.kindAnyOf t.1.1.kind q.rkinds)).map (fun t => (t.1.2, t.1.1, t.2))).filter (ok3 q) := by
  rw [pA'_eq, pB'_eq, hopTriples_strengthen, List.filter_map, List.filter_filter, List.filter_filter]
  congr 1
  apply List.filter_congr
  intro t _
  simp only [wR', ok3, Function.comp_def]
  cases okPreds (nodeEnt t.1.2) (q.preds .a) <;> cases okPreds (edgeEnt t.1.1) (q.preds .r) <;> cases okPreds (nodeEnt t.2) (q.preds .b) <;>
    cases Cy.kindAnyOf t.1.1.kind q.rkinds <;> rfl

/-- b-node joined first -/
theorem sqlMatches'_flip_eq (g : Graph) (q : S2.Query) :
    ((hopTriples g (pB' q) (pA' q)).filter (fun t => wR' q t.1.1)).map (fun t => (t.2, t.1.1, t.1.2)) =
      (((hopTriples g (pB q) (pA q)).filter (fun t => Cy.kindAnyOf t.1.1.kind q.rkinds)).map (fun t => (t.2, t.1.1, t.1.2))).filter (ok3 q) := by
  rw [pA'_eq, pB'_eq, hopTriples_strengthen, List.filter_map, List.filter_filter, List.filter_filter]
  congr 1
  apply List.filter_congr
  intro t _
  simp only [wR', ok3, Function.comp_def]
  cases okPreds (nodeEnt t.2) (q.preds .a) <;> cases okPreds (edgeEnt t.1.1) (q.preds .r) <;> cases okPreds (nodeEnt t.1.2) (q.preds .b) <;>
    cases Cy.kindAnyOf t.1.1.kind q.rkinds <;> rfl

theorem whereMatchesCy_eq (g : Graph) (q : S2.Query) : whereMatchesCy g q = (hopMatchesCy g q).filter (ok3 q) := by
  unfold whereMatchesCy
  apply List.filter_congr
  intro m _
  exact okWhere_split q m.1 m.2.1 m.2.2

-- ------------------------------------------------------------------ values, and the stage theorem

theorem edge_toR (km : KindMap) (g : Graph) (e : EdgeRec) (he : g.edge? e.id = some e) :
    valToR (edgeVal km e) = Cy.CVal.toR g km (.rel e.id) := by
  simp [edgeVal, valToR, rowToR, Cy.CVal.toR, Cy.relToR, he]

theorem propVal_toR (km : KindMap) (g : Graph) (props : List (String × Json)) (k : String) :
    valToR (propVal props k) = Cy.CVal.toR g km (((Json.lookup k props).map Cy.jsonToC).getD .null) := by
  unfold propVal
  cases Json.lookup k props with
  | none => simp [valToR, Cy.CVal.toR]
  | some j => simp [valToR, toR_jsonToC]

theorem item2_toR (km : KindMap) (g : Graph) (a : NodeRec) (e : EdgeRec) (b : NodeRec)
    (ha : g.node? a.id = some a) (he : g.edge? e.id = some e) (hb : g.node? b.id = some b) (it : S2.Item) :
    valToR (itemVal2 km e a b it) = Cy.CVal.toR g km (itemC2 a e b it) := by
  cases it with
  | ent x al =>
    cases x <;> simp only [itemVal2, itemC2]
    · exact item_toR km g a ha (.node none)
    · exact edge_toR km g e he
    · exact item_toR km g b hb (.node none)
  | idOf x al => cases x <;> simp [itemVal2, itemC2, valToR, Cy.CVal.toR]
  | prop x k al => cases x <;> (simp only [itemVal2, itemC2]; exact propVal_toR km g _ k)

/-- the client-visible row of a match -/
def rowR2 (km : KindMap) (q : S2.Query) (m : NodeRec × EdgeRec × NodeRec) : List RVal :=
  valsToR (q.items.map (itemVal2 km m.2.1 m.1 m.2.2))

theorem rows_perm (km : KindMap) (g : Graph) (q : S2.Query) (hn : ∀ n ∈ g.nodes, g.node? n.id = some n) (he : ∀ e ∈ g.edges, g.edge? e.id = some e)
    (names : List String) (M : List (NodeRec × EdgeRec × NodeRec)) (hM : M.Perm (hopMatchesCy g q)) :
    (sqlRows ⟨names, M.map (fun m => q.items.map (itemVal2 km m.2.1 m.1 m.2.2))⟩).Perm
      (cyRows g km (Cy.projNames (q.items.map (S2.Item.toCy q)), (hopMatchesCy g q).map (fun m => q.items.map (itemC2 m.1 m.2.1 m.2.2)))) := by
  unfold sqlRows cyRows
  simp only [List.map_map, Function.comp_def]
  have hcongr : (hopMatchesCy g q).map (fun m => q.items.map (fun it => Cy.CVal.toR g km (itemC2 m.1 m.2.1 m.2.2 it))) =
      (hopMatchesCy g q).map (fun m => valsToR (q.items.map (itemVal2 km m.2.1 m.1 m.2.2))) := by
    apply List.map_congr_left
    intro m hm
    obtain ⟨h1, h2, h3, _, _⟩ := hopMatches_mem g q hn he m hm
    rw [valsToR_map, List.map_map]
    apply List.map_congr_left
    intro it _
    exact (item2_toR km g m.1 m.2.1 m.2.2 h1 h2 h3 it).symm
  rw [hcongr]
  exact hM.map _

/-- rows of the statement over a list of matches that is a permutation of Cypher's matches -/
theorem rows_perm' (km : KindMap) (g : Graph) (q : S2.Query) (hn : ∀ n ∈ g.nodes, g.node? n.id = some n) (he : ∀ e ∈ g.edges, g.edge? e.id = some e)
    (names : List String) (M : List (NodeRec × EdgeRec × NodeRec)) (hM : M.Perm (whereMatchesCy g q)) :
    (sqlRows ⟨names, M.map (fun m => q.items.map (itemVal2 km m.2.1 m.1 m.2.2))⟩).Perm
      (cyRows g km (Cy.projNames (q.items.map (S2.Item.toCy q)), (whereMatchesCy g q).map (fun m => q.items.map (itemC2 m.1 m.2.1 m.2.2)))) := by
  unfold sqlRows cyRows
  simp only [List.map_map, Function.comp_def]
  have hcongr : (whereMatchesCy g q).map (fun m => q.items.map (fun it => Cy.CVal.toR g km (itemC2 m.1 m.2.1 m.2.2 it))) =
      (whereMatchesCy g q).map (fun m => valsToR (q.items.map (itemVal2 km m.2.1 m.1 m.2.2))) := by
    apply List.map_congr_left
    intro m hm
    obtain ⟨h1, h2, h3, _, _⟩ := hopMatches_mem g q hn he m (whereMatches_mem g q m hm)
    rw [valsToR_map, List.map_map]
    apply List.map_congr_left
    intro it _
    exact (item2_toR km g m.1 m.2.1 m.2.2 h1 h2 h3 it).symm
  rw [hcongr]
  exact hM.map _

/-- STAGE S2 (one directed hop with an optional WHERE of single-variable conjuncts), for ALL graphs satisfying `GraphOK2`, ALL queries of the
stage, BOTH join orders and the frame with or without projection pruning: the reference semantics yields a result; the emitted statement either yields a table whose client-visible rows
are a permutation of the Cypher rows, or the SQL model stops with `unmodelled` (never a run-time / type / name error) -/
theorem s2_sound (km : KindMap) (g : Graph) (hok : GraphOK2 km g) (q : S2.Query) (flip prune : Bool) (st : Stmt) (h : q.trWith km flip prune = some st) :
    ∃ r names rows, Cy.eval .none g q.toCy = .ok r ∧ BenignT (Sql.eval (encode km g) st []) (⟨names, rows⟩ : Table) ∧
      (sqlRows ⟨names, rows⟩).Perm (cyRows g km r) := by
  have hnd := hok.nodup
  have hinj := hok.inj
  have hn : ∀ n ∈ g.nodes, g.node? n.id = some n := find_of_nodup g.nodes hnd
  have he : ∀ e ∈ g.edges, g.edge? e.id = some e := fun e hm => hok.edge? e hm
  unfold S2.Query.trWith at h
  cases hwf : q.wf with
  | false => simp [hwf] at h
  | true =>
  simp only [hwf, Bool.not_true, Bool.false_eq_true, if_false] at h
  cases hka : S2.kindIds? km q.akinds with
  | none => simp [hka] at h
  | some ka =>
  cases hkr : S2.kindIds? km q.rkinds with
  | none => simp [hka, hkr] at h
  | some kr =>
  cases hkb : S2.kindIds? km q.bkinds with
  | none => simp [hka, hkr, hkb] at h
  | some kb =>
  cases hpa : S2.predsE km "n0" false (q.preds .a) with
  | none => simp [hka, hkr, hkb, hpa] at h
  | some pa =>
  cases hpr : S2.predsE km "e0" true (q.preds .r) with
  | none => simp [hka, hkr, hkb, hpa, hpr] at h
  | some pr =>
  cases hpb : S2.predsE km "n1" false (q.preds .b) with
  | none => simp [hka, hkr, hkb, hpa, hpr, hpb] at h
  | some pb =>
  simp only [hka, hkr, hkb, hpa, hpr, hpb, Option.some.injEq] at h
  have hcy := cy_side2 g q hwf hn he
  have hkeep : ∀ it ∈ q.items, keepOf (!prune || q.reads .r) (!prune || q.reads .a) (!prune || q.reads .b) it.ref = true := by
    intro it hit
    have hr : q.reads it.ref = true := by
      unfold S2.Query.reads
      simp only [Bool.or_eq_true, List.any_eq_true]
      exact Or.inl ⟨it, hit, by simp⟩
    cases hx : it.ref <;> (rw [hx] at hr; simp [keepOf, hr])
  have hCyPerm : (g.edges.flatMap (fun e => (g.nodes.filter (pA q e)).flatMap (fun a => hopF g q e a))).Perm (hopMatchesCy g q) := by
    rw [hopMatchesCy_eq]
    exact flatMap_filter_swap (pA q) (hopF g q) g.edges g.nodes
  -- the two join conditions and the frame WHERE, on FROM rows
  have honA : ∀ (l : Level) (e : EdgeRec) (n : NodeRec), e ∈ g.edges → n ∈ g.nodes → findBinding "e0" l = some (eB km e) →
      findBinding "n0" l = some (nB "n0" km n) →
      BenignT (whTest (E0 (encode km g)) (some (S2.joinOnC "n0" "start_id" (S2.both pa (S2.nodeKindsE "n0" ka)))) l) (pA' q e n) :=
    fun l e n _ hnm hfe hfn => joinOnC_ben km hinj _ l "n0" "start_id" e n e.start hfn (hok.noNull n hnm)
      (lookup_e0 km l _ e hfe).2.1 q.akinds ka hka (q.preds .a) pa hpa
  have honB : ∀ (l : Level) (e : EdgeRec) (n : NodeRec), e ∈ g.edges → n ∈ g.nodes → findBinding "e0" l = some (eB km e) →
      findBinding "n1" l = some (nB "n1" km n) →
      BenignT (whTest (E0 (encode km g)) (some (S2.joinOnC "n1" "end_id" (S2.both pb (S2.nodeKindsE "n1" kb)))) l) (pB' q e n) :=
    fun l e n _ hnm hfe hfn => joinOnC_ben km hinj _ l "n1" "end_id" e n e.stop hfn (hok.noNull n hnm)
      (lookup_e0 km l _ e hfe).2.2.1 q.bkinds kb hkb (q.preds .b) pb hpb
  cases flip with
  | false =>
    simp only [Bool.false_eq_true, if_false] at h
    subst h
    have hfrom := hop_from_ben km g "n0" "n1" _ _ (pA' q) (pB' q) (by decide) (by decide) (by decide) honA honB
    obtain ⟨names, hsql⟩ := sql_hop_ben km g q _ _ _ hkeep (hopTriples g (pA' q) (pB' q)) (fun t => [eB km t.1.1, nB "n0" km t.1.2, nB "n1" km t.2])
      (fun t => t.1.1) (fun t => t.1.2) (fun t => t.2) _ hfrom
      (fun t _ => ⟨by simp [findBinding, eB], by simp [findBinding, eB, nB], by simp [findBinding, eB, nB]⟩)
      _ (fun t => wR' q t.1.1)
      (fun t ht => hop_where_ben km hinj _ _ t.1.1 (by simp [findBinding, eB]) (hok.edgeKinds _ (hopTriples_mem g _ _ t ht))
        (hok.edgeNoNull _ (hopTriples_mem g _ _ t ht)) q.rkinds kr hkr (q.preds .r) pr hpr)
    have hM : (((hopTriples g (pA' q) (pB' q)).filter (fun t => wR' q t.1.1)).map (fun t => (t.1.2, t.1.1, t.2))).Perm (whereMatchesCy g q) := by
      rw [sqlMatches'_eq, whereMatchesCy_eq, sqlMatches_eq g hnd q]
      exact hCyPerm.filter _
    refine ⟨_, names, _, hcy, hsql, ?_⟩
    have := rows_perm' km g q hn he names _ hM
    simpa [List.map_map, Function.comp_def] using this
  | true =>
    simp only [if_true] at h
    subst h
    have hfrom := hop_from_ben km g "n1" "n0" _ _ (pB' q) (pA' q) (by decide) (by decide) (by decide) honB honA
    obtain ⟨names, hsql⟩ := sql_hop_ben km g q _ _ _ hkeep (hopTriples g (pB' q) (pA' q)) (fun t => [eB km t.1.1, nB "n1" km t.1.2, nB "n0" km t.2])
      (fun t => t.1.1) (fun t => t.2) (fun t => t.1.2) _ hfrom
      (fun t _ => ⟨by simp [findBinding, eB], by simp [findBinding, eB, nB], by simp [findBinding, eB, nB]⟩)
      _ (fun t => wR' q t.1.1)
      (fun t ht => hop_where_ben km hinj _ _ t.1.1 (by simp [findBinding, eB]) (hok.edgeKinds _ (hopTriples_mem g _ _ t ht))
        (hok.edgeNoNull _ (hopTriples_mem g _ _ t ht)) q.rkinds kr hkr (q.preds .r) pr hpr)
    have hM : (((hopTriples g (pB' q) (pA' q)).filter (fun t => wR' q t.1.1)).map (fun t => (t.2, t.1.1, t.1.2))).Perm (whereMatchesCy g q) := by
      rw [sqlMatches'_flip_eq, whereMatchesCy_eq]
      exact ((sqlMatches_flip_perm g hnd q).trans hCyPerm).filter _
    refine ⟨_, names, _, hcy, hsql, ?_⟩
    have := rows_perm' km g q hn he names _ hM
    simpa [List.map_map, Function.comp_def] using this

theorem graphOK2b_sound (km : KindMap) (g : Graph) (h : graphOK2b km g = true) : GraphOK2 km g := by
  unfold graphOK2b at h
  simp only [Bool.and_eq_true, decide_eq_true_eq, List.all_eq_true] at h
  exact { toGraphOK := graphOKb_sound km g h.1.1.1, edgeNodup := h.1.1.2, edgeKinds := h.1.2,
          edgeNoNull := fun e hm k => lookup_not_null e.props (List.all_eq_true.mpr (h.2 e hm)) k }

-- ------------------------------------------------------------------ the recogniser of stage S2a is sound

theorem refOf2_name (a r b v : String) (x : S2.Ref) (h : refOf2 a r b v = some x) (q : S2.Query) (ha : q.a = a) (hr : q.r = r) (hb : q.b = b) :
    q.name x = v := by
  unfold refOf2 at h
  split at h
  · rename_i hv; cases h; rw [S2.Query.name, ha]; exact (eq_of_beq hv).symm
  · split at h
    · rename_i hv; cases h; rw [S2.Query.name, hr]; exact (eq_of_beq hv).symm
    · split at h
      · rename_i hv; cases h; rw [S2.Query.name, hb]; exact (eq_of_beq hv).symm
      · cases h

theorem itemOf2_sound (q : S2.Query) (it : Cy.ProjItem) (i : S2.Item) (h : itemOf2 q.a q.r q.b it = some i) : i.toCy q = it := by
  unfold itemOf2 at h
  cases it with
  | mk e alias =>
    simp only at h
    split at h
    · rename_i v heq
      obtain ⟨x, hx, rfl⟩ := Option.map_eq_some_iff.mp h
      simp only [S2.Item.toCy, refOf2_name _ _ _ _ x hx q rfl rfl rfl]
    · rename_i v heq
      obtain ⟨x, hx, rfl⟩ := Option.map_eq_some_iff.mp h
      simp only [S2.Item.toCy, refOf2_name _ _ _ _ x hx q rfl rfl rfl]
    · rename_i v k heq
      obtain ⟨x, hx, rfl⟩ := Option.map_eq_some_iff.mp h
      simp only [S2.Item.toCy, refOf2_name _ _ _ _ x hx q rfl rfl rfl]
    · cases h

theorem itemsOf2_sound (q : S2.Query) : ∀ (its : List Cy.ProjItem) (is : List S2.Item), its.mapM (itemOf2 q.a q.r q.b) = some is →
    is.map (S2.Item.toCy q) = its
  | [], is, h => by simp only [List.mapM_nil] at h; cases h; rfl
  | it :: its, is, h => by
    rw [List.mapM_cons] at h
    cases hi : itemOf2 q.a q.r q.b it with
    | none => rw [hi] at h; cases h
    | some i =>
      rw [hi] at h
      cases hr : its.mapM (itemOf2 q.a q.r q.b) with
      | none => rw [hr] at h; cases h
      | some is' =>
        rw [hr] at h; cases h
        rw [List.map_cons, itemOf2_sound q it i hi, itemsOf2_sound q its is' hr]

theorem conjunctOf2_sound (q : S2.Query) (e : Cy.Expr) (c : S2.Ref × S1.Pred) (h : conjunctOf2 q.a q.r q.b e = some c) :
    S1.Pred.toCy (q.name c.1) c.2 = e := by
  unfold conjunctOf2 at h
  cases ha : predOf q.a e with
  | some p => rw [ha] at h; cases h; exact (predOf_sound q.a).1 e p ha
  | none =>
    rw [ha] at h
    cases hr : predOf q.r e with
    | some p => rw [hr] at h; cases h; exact (predOf_sound q.r).1 e p hr
    | none =>
      rw [hr] at h
      obtain ⟨p, hp, rfl⟩ := Option.map_eq_some_iff.mp h
      exact (predOf_sound q.b).1 e p hp

theorem conjunctsOf2_sound (q : S2.Query) : ∀ (es : List Cy.Expr) (cs : List (S2.Ref × S1.Pred)), es.mapM (conjunctOf2 q.a q.r q.b) = some cs →
    cs.map (fun c => S1.Pred.toCy (q.name c.1) c.2) = es ∧ cs.length = es.length
  | [], cs, h => by simp only [List.mapM_nil] at h; cases h; exact ⟨rfl, rfl⟩
  | e :: es, cs, h => by
    rw [List.mapM_cons] at h
    cases hc : conjunctOf2 q.a q.r q.b e with
    | none => rw [hc] at h; cases h
    | some c =>
      rw [hc] at h
      cases hr : es.mapM (conjunctOf2 q.a q.r q.b) with
      | none => rw [hr] at h; cases h
      | some cs' =>
        rw [hr] at h; cases h
        obtain ⟨h1, h2⟩ := conjunctsOf2_sound q es cs' hr
        exact ⟨by rw [List.map_cons, conjunctOf2_sound q e c hc, h1], by rw [List.length_cons, List.length_cons, h2]⟩

theorem whereOf2_sound (q : S2.Query) (wh : Option Cy.Expr) (h : whereOf2 q.a q.r q.b wh = some q.wh) : q.whereCy = wh := by
  unfold S2.Query.whereCy
  unfold whereOf2 at h
  split at h
  · simp only [Option.some.injEq] at h; rw [← h]
  · rename_i es
    split at h
    · cases h
    · rename_i hlen
      obtain ⟨h1, h2⟩ := conjunctsOf2_sound q es q.wh h
      have hl : 2 ≤ q.wh.length := by rw [h2]; omega
      cases hw : q.wh with
      | nil => rw [hw] at hl; simp at hl
      | cons c cs =>
        cases cs with
        | nil => rw [hw] at hl; simp at hl
        | cons c' cs' => rw [hw] at h1; simp only [h1]
  · rename_i e hne
    obtain ⟨c, hc, hcs⟩ := Option.map_eq_some_iff.mp h
    rw [← hcs]
    simp only [conjunctOf2_sound q e c hc]

/-- an accepted parsed query is exactly the Cypher reading of the S2 query returned -/
theorem ofCy2_sound (q : Cy.Query) (s : S2.Query) (h : ofCy2 q = some s) : s.toCy = q := by
  unfold ofCy2 at h
  split at h
  · rename_i a akinds r rkinds b bkinds wh hparts hclauses
    split at h
    · cases h
    · rename_i hcond
      simp only [Bool.or_eq_true, not_or, Bool.not_eq_true, Bool.not_eq_true'] at hcond
      simp only [bind, Option.bind_eq_some_iff, pure] at h
      obtain ⟨cs, hcs, items, hitems, h⟩ := h
      split at h
      · simp only [Option.some.injEq] at h
        subst h
        have hit := itemsOf2_sound ⟨a, r, b, akinds, rkinds, bkinds, cs, items⟩ _ _ hitems
        have hwh := whereOf2_sound ⟨a, r, b, akinds, rkinds, bkinds, cs, items⟩ wh hcs
        cases q with
        | mk parts clauses ret =>
          cases ret with
          | mk distinct all ritems orderBy rskip rlimit =>
            simp only at hparts hclauses hcond hit
            subst hparts hclauses
            simp only [S2.Query.toCy, hit, hwh, Cy.Query.mk.injEq, Cy.Projection.mk.injEq, true_and]
            simp_all
      · cases h
  · cases h

end Dawgs.C01.Proofs
