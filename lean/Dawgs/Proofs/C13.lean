/- Helper lemmas for C13 (no property statements here; those live in Props/C13.lean). -/
import Dawgs.Spec.C13
import Dawgs.Model.C13Facts
set_option linter.unusedSimpArgs false
set_option linter.unusedVariables false
namespace Dawgs.C13
open Spec

theorem has_iff {s : S} {x : Nat} : has s x = true ↔ x ∈ s := by
  unfold has; simp

theorem has_false_iff {s : S} {x : Nat} : has s x = false ↔ x ∉ s := by
  rw [← has_iff]; cases has s x <;> simp

/-! ### Sorted -/

theorem sorted_nil : Sorted [] := List.Pairwise.nil
theorem sorted_cons {x : Nat} {s : S} : Sorted (x :: s) ↔ (∀ y ∈ s, x < y) ∧ Sorted s := List.pairwise_cons
theorem sorted_tail {x : Nat} {s : S} (h : Sorted (x :: s)) : Sorted s := (sorted_cons.1 h).2
theorem sorted_head_lt {x : Nat} {s : S} (h : Sorted (x :: s)) : ∀ y ∈ s, x < y := (sorted_cons.1 h).1
theorem Sorted.sublist {a b : S} (h : a.Sublist b) (hb : Sorted b) : Sorted a := List.Pairwise.sublist h hb

theorem sortedB_iff : ∀ s : S, sortedB s = true ↔ Sorted s
  | [] => by simp [sortedB, sorted_nil]
  | [x] => by simp [sortedB, Sorted]
  | x :: y :: t => by
    have ih := sortedB_iff (y :: t)
    simp only [sortedB, Bool.and_eq_true, decide_eq_true_eq, ih]
    constructor
    · rintro ⟨hxy, hs⟩
      refine sorted_cons.2 ⟨?_, hs⟩
      intro z hz
      rcases List.mem_cons.1 hz with rfl | hz
      · exact hxy
      · exact Nat.lt_trans hxy (sorted_head_lt hs z hz)
    · intro h
      exact ⟨sorted_head_lt h y (List.mem_cons_self), (sorted_tail h)⟩

/-- strictly ascending lists are determined by their members -/
theorem sorted_ext : ∀ {a b : S}, Sorted a → Sorted b → (∀ x, x ∈ a ↔ x ∈ b) → a = b
  | [], [], _, _, _ => rfl
  | [], y :: b, _, _, h => absurd ((h y).2 List.mem_cons_self) (by simp)
  | x :: a, [], _, _, h => absurd ((h x).1 List.mem_cons_self) (by simp)
  | x :: a, y :: b, ha, hb, h => by
    have hxy : x = y := by
      have h1 := (h x).1 List.mem_cons_self
      have h2 := (h y).2 List.mem_cons_self
      rcases List.mem_cons.1 h1 with e | h1
      · exact e
      · rcases List.mem_cons.1 h2 with e | h2
        · exact e.symm
        · have := sorted_head_lt hb x h1; have := sorted_head_lt ha y h2; omega
    subst hxy
    congr 1
    apply sorted_ext (sorted_tail ha) (sorted_tail hb)
    intro z
    constructor
    · intro hz
      have := (h z).1 (List.mem_cons_of_mem _ hz)
      rcases List.mem_cons.1 this with e | hz'
      · have := sorted_head_lt ha z hz; omega
      · exact hz'
    · intro hz
      have := (h z).2 (List.mem_cons_of_mem _ hz)
      rcases List.mem_cons.1 this with e | hz'
      · have := sorted_head_lt hb z hz; omega
      · exact hz'

/-! ### ins / del -/

theorem ins_nil (x : Nat) : ins x [] = [x] := rfl
theorem ins_cons (x y : Nat) (t : S) :
    ins x (y :: t) = if x < y then x :: y :: t else if x = y then y :: t else y :: ins x t := rfl
theorem del_nil (x : Nat) : del x [] = [] := rfl
theorem del_cons (x y : Nat) (t : S) : del x (y :: t) = if x = y then t else y :: del x t := rfl

theorem mem_ins {x y : Nat} : ∀ {s : S}, y ∈ ins x s ↔ y = x ∨ y ∈ s
  | [] => by simp [ins_nil]
  | z :: t => by
    rw [ins_cons]
    split
    · simp
    · split
      · rename_i h; subst h; simp
      · simp only [List.mem_cons, mem_ins (s := t)]
        constructor
        · rintro (h | h | h) <;> simp [h]
        · rintro (h | h | h) <;> simp [h]

theorem sorted_ins {x : Nat} : ∀ {s : S}, Sorted s → Sorted (ins x s)
  | [], _ => by simp [ins_nil, Sorted]
  | z :: t, hs => by
    rw [ins_cons]
    split
    · rename_i h
      refine sorted_cons.2 ⟨?_, hs⟩
      intro y hy
      rcases List.mem_cons.1 hy with rfl | hy
      · exact h
      · exact Nat.lt_trans h (sorted_head_lt hs y hy)
    · split
      · exact hs
      · rename_i h1 h2
        refine sorted_cons.2 ⟨?_, sorted_ins (sorted_tail hs)⟩
        intro y hy
        rcases mem_ins.1 hy with rfl | hy
        · omega
        · exact sorted_head_lt hs y hy

theorem del_sublist (x : Nat) : ∀ s : S, (del x s).Sublist s
  | [] => List.Sublist.slnil
  | y :: t => by
    rw [del_cons]; split
    · exact List.sublist_cons_self y t
    · exact (del_sublist x t).cons_cons y

theorem mem_of_mem_del {x y : Nat} {s : S} (h : y ∈ del x s) : y ∈ s := (del_sublist x s).subset h

theorem mem_del_of_ne {x y : Nat} : ∀ {s : S}, y ∈ s → y ≠ x → y ∈ del x s
  | [], h, _ => by simp at h
  | z :: t, h, hne => by
    rw [del_cons]; split
    · rename_i e; subst e
      rcases List.mem_cons.1 h with e | h
      · exact absurd e hne
      · exact h
    · rcases List.mem_cons.1 h with e | h
      · simp [e]
      · exact List.mem_cons_of_mem _ (mem_del_of_ne h hne)

theorem sorted_del {x : Nat} {s : S} (hs : Sorted s) : Sorted (del x s) := Sorted.sublist (del_sublist x s) hs

theorem not_mem_del_self {x : Nat} : ∀ {s : S}, Sorted s → x ∉ del x s
  | [], _ => by simp [del_nil]
  | z :: t, hs => by
    rw [del_cons]; split
    · rename_i e; subst e
      intro h; have := sorted_head_lt hs x h; omega
    · rename_i hne
      intro h
      rcases List.mem_cons.1 h with e | h
      · exact hne e
      · exact not_mem_del_self (sorted_tail hs) h

theorem mem_del {x y : Nat} {s : S} (hs : Sorted s) : y ∈ del x s ↔ y ∈ s ∧ y ≠ x :=
  ⟨fun h => ⟨mem_of_mem_del h, fun e => not_mem_del_self hs (e ▸ h)⟩, fun ⟨h, hne⟩ => mem_del_of_ne h hne⟩

/-! ### union / inter / diff / symm (the native operations) -/

theorem union_nil_left (b : S) : union [] b = b := rfl
theorem union_cons (x : Nat) (a b : S) : union (x :: a) b = unionAux x a (union a) b := rfl
theorem unionAux_nil (x a' rec) : unionAux x a' rec [] = x :: a' := rfl
theorem unionAux_cons (x a' rec y b) : unionAux x a' rec (y :: b) =
    if x < y then x :: rec (y :: b) else if y < x then y :: unionAux x a' rec b else x :: rec b := rfl

theorem mem_unionAux {x : Nat} {a' : S} {rec : S → S} (hrec : ∀ b z, z ∈ rec b ↔ z ∈ a' ∨ z ∈ b) {z : Nat} :
    ∀ {b : S}, z ∈ unionAux x a' rec b ↔ (z = x ∨ z ∈ a') ∨ z ∈ b
  | [] => by simp [unionAux_nil]
  | y :: b => by
    rw [unionAux_cons]
    split
    · simp only [List.mem_cons, hrec]
      constructor
      · rintro (h | h | h | h) <;> simp [h]
      · rintro ((h | h) | h | h) <;> simp [h]
    · split
      · simp only [List.mem_cons, mem_unionAux hrec (b := b)]
        constructor
        · rintro (h | (h | h) | h) <;> simp [h]
        · rintro ((h | h) | h | h) <;> simp [h]
      · rename_i h1 h2
        have : x = y := by omega
        subst this
        simp only [List.mem_cons, hrec]
        constructor
        · rintro (h | h | h) <;> simp [h]
        · rintro ((h | h) | h | h) <;> simp [h]

theorem mem_union {z : Nat} : ∀ {a b : S}, z ∈ union a b ↔ z ∈ a ∨ z ∈ b
  | [], b => by simp [union_nil_left]
  | x :: a, b => by
    rw [union_cons, mem_unionAux (fun b z => mem_union (a := a) (b := b))]
    simp

/-- lower bound transfer used by the sortedness proofs -/
def LB (m : Nat) (s : S) : Prop := ∀ y ∈ s, m < y

theorem sorted_unionAux {x : Nat} {a' : S} {rec : S → S} (hx : Sorted (x :: a'))
    (hrec : ∀ b, Sorted b → Sorted (rec b)) (hmem : ∀ b z, z ∈ rec b ↔ z ∈ a' ∨ z ∈ b) :
    ∀ {b : S}, Sorted b → Sorted (unionAux x a' rec b)
  | [], _ => hx
  | y :: b, hb => by
    rw [unionAux_cons]
    split
    · rename_i h
      refine sorted_cons.2 ⟨?_, hrec _ hb⟩
      intro z hz
      rcases (hmem _ z).1 hz with hz | hz
      · exact sorted_head_lt hx z hz
      · rcases List.mem_cons.1 hz with rfl | hz
        · exact h
        · exact Nat.lt_trans h (sorted_head_lt hb z hz)
    · split
      · rename_i h1 h2
        refine sorted_cons.2 ⟨?_, sorted_unionAux hx hrec hmem (sorted_tail hb)⟩
        intro z hz
        rcases (mem_unionAux hmem).1 hz with (rfl | hz) | hz
        · exact h2
        · exact Nat.lt_trans h2 (sorted_head_lt hx z hz)
        · exact sorted_head_lt hb z hz
      · rename_i h1 h2
        have : x = y := by omega
        subst this
        refine sorted_cons.2 ⟨?_, hrec _ (sorted_tail hb)⟩
        intro z hz
        rcases (hmem _ z).1 hz with hz | hz
        · exact sorted_head_lt hx z hz
        · exact sorted_head_lt hb z hz

theorem sorted_union : ∀ {a b : S}, Sorted a → Sorted b → Sorted (union a b)
  | [], b, _, hb => hb
  | x :: a, b, ha, hb => by
    rw [union_cons]
    exact sorted_unionAux ha (fun b hb => sorted_union (sorted_tail ha) hb) (fun b z => mem_union) hb

theorem inter_nil_left (b : S) : inter [] b = [] := rfl
theorem inter_cons (x : Nat) (a b : S) : inter (x :: a) b = interAux x (inter a) b := rfl
theorem interAux_nil (x rec) : interAux x rec [] = [] := rfl
theorem interAux_cons (x rec y b) : interAux x rec (y :: b) =
    if x < y then rec (y :: b) else if y < x then interAux x rec b else x :: rec b := rfl

theorem mem_interAux {x : Nat} {a' : S} {rec : S → S} (hx : Sorted (x :: a'))
    (hrec : ∀ b z, Sorted b → (z ∈ rec b ↔ z ∈ a' ∧ z ∈ b)) {z : Nat} :
    ∀ {b : S}, Sorted b → (z ∈ interAux x rec b ↔ (z = x ∨ z ∈ a') ∧ z ∈ b)
  | [], _ => by simp [interAux_nil]
  | y :: b, hb => by
    rw [interAux_cons]
    split
    · rename_i h
      rw [hrec _ _ hb]
      constructor
      · rintro ⟨h1, h2⟩; exact ⟨Or.inr h1, h2⟩
      · rintro ⟨h1 | h1, h2⟩
        · subst h1
          rcases List.mem_cons.1 h2 with e | h2
          · omega
          · have := sorted_head_lt hb z h2; omega
        · exact ⟨h1, h2⟩
    · split
      · rename_i h1 h2
        rw [mem_interAux hx hrec (sorted_tail hb)]
        constructor
        · rintro ⟨h3, h4⟩; exact ⟨h3, List.mem_cons_of_mem _ h4⟩
        · rintro ⟨h3, h4⟩
          refine ⟨h3, ?_⟩
          rcases List.mem_cons.1 h4 with e | h4
          · subst e
            rcases h3 with e | h3
            · omega
            · have := sorted_head_lt hx z h3; omega
          · exact h4
      · rename_i h1 h2
        have : x = y := by omega
        subst this
        simp only [List.mem_cons, hrec _ _ (sorted_tail hb)]
        constructor
        · rintro (h | ⟨h3, h4⟩)
          · simp [h]
          · exact ⟨Or.inr h3, Or.inr h4⟩
        · rintro ⟨h3 | h3, h4 | h4⟩
          · exact Or.inl h3
          · exact Or.inl h3
          · exact Or.inl h4
          · exact Or.inr ⟨h3, h4⟩

theorem mem_inter {z : Nat} : ∀ {a b : S}, Sorted a → Sorted b → (z ∈ inter a b ↔ z ∈ a ∧ z ∈ b)
  | [], b, _, _ => by simp [inter_nil_left]
  | x :: a, b, ha, hb => by
    rw [inter_cons, mem_interAux ha (fun b z hb => mem_inter (sorted_tail ha) hb) hb]
    simp

theorem interAux_sublist {x : Nat} {a' : S} {rec : S → S} (hrec : ∀ b, (rec b).Sublist a') :
    ∀ b : S, (interAux x rec b).Sublist (x :: a')
  | [] => by simp [interAux_nil]
  | y :: b => by
    rw [interAux_cons]
    split
    · exact (hrec _).cons x
    · split
      · exact interAux_sublist hrec b
      · exact (hrec _).cons_cons x

theorem inter_sublist : ∀ a b : S, (inter a b).Sublist a
  | [], b => by simp [inter_nil_left]
  | x :: a, b => by rw [inter_cons]; exact interAux_sublist (fun b => inter_sublist a b) b

theorem sorted_inter {a b : S} (ha : Sorted a) : Sorted (inter a b) := Sorted.sublist (inter_sublist a b) ha

theorem diff_nil_left (b : S) : diff [] b = [] := rfl
theorem diff_cons (x : Nat) (a b : S) : diff (x :: a) b = diffAux x a (diff a) b := rfl
theorem diffAux_nil (x a' rec) : diffAux x a' rec [] = x :: a' := rfl
theorem diffAux_cons (x a' rec y b) : diffAux x a' rec (y :: b) =
    if x < y then x :: rec (y :: b) else if y < x then diffAux x a' rec b else rec b := rfl

theorem mem_diffAux {x : Nat} {a' : S} {rec : S → S} (hx : Sorted (x :: a'))
    (hrec : ∀ b z, Sorted b → (z ∈ rec b ↔ z ∈ a' ∧ z ∉ b)) (hrec0 : rec [] = a') {z : Nat} :
    ∀ {b : S}, Sorted b → (z ∈ diffAux x a' rec b ↔ (z = x ∨ z ∈ a') ∧ z ∉ b)
  | [], _ => by simp [diffAux_nil]
  | y :: b, hb => by
    rw [diffAux_cons]
    split
    · rename_i h
      simp only [List.mem_cons, hrec _ _ hb]
      constructor
      · rintro (e | ⟨h1, h2⟩)
        · subst e
          refine ⟨Or.inl rfl, ?_⟩
          intro hm
          rcases hm with e | hm
          · omega
          · have := sorted_head_lt hb z hm; omega
        · exact ⟨Or.inr h1, by simpa using h2⟩
      · rintro ⟨h1 | h1, h2⟩
        · exact Or.inl h1
        · exact Or.inr ⟨h1, by simpa using h2⟩
    · split
      · rename_i h1 h2
        rw [mem_diffAux hx hrec hrec0 (sorted_tail hb)]
        constructor
        · rintro ⟨h3, h4⟩
          refine ⟨h3, ?_⟩
          intro hm
          rcases List.mem_cons.1 hm with e | hm
          · subst e
            rcases h3 with e | h3
            · omega
            · have := sorted_head_lt hx z h3; omega
          · exact h4 hm
        · rintro ⟨h3, h4⟩
          exact ⟨h3, fun hm => h4 (List.mem_cons_of_mem _ hm)⟩
      · rename_i h1 h2
        have : x = y := by omega
        subst this
        rw [hrec _ _ (sorted_tail hb)]
        constructor
        · rintro ⟨h3, h4⟩
          refine ⟨Or.inr h3, ?_⟩
          intro hm
          rcases List.mem_cons.1 hm with e | hm
          · subst e; have := sorted_head_lt hx z h3; omega
          · exact h4 hm
        · rintro ⟨h3 | h3, h4⟩
          · subst h3; exact absurd List.mem_cons_self h4
          · exact ⟨h3, fun hm => h4 (List.mem_cons_of_mem _ hm)⟩

theorem diff_nil_right : ∀ a : S, diff a [] = a
  | [] => rfl
  | x :: a => by rw [diff_cons, diffAux_nil]

theorem mem_diff {z : Nat} : ∀ {a b : S}, Sorted a → Sorted b → (z ∈ diff a b ↔ z ∈ a ∧ z ∉ b)
  | [], b, _, _ => by simp [diff_nil_left]
  | x :: a, b, ha, hb => by
    rw [diff_cons, mem_diffAux ha (fun b z hb => mem_diff (sorted_tail ha) hb) (diff_nil_right a) hb]
    simp

theorem diffAux_sublist {x : Nat} {a' : S} {rec : S → S} (hrec : ∀ b, (rec b).Sublist a') :
    ∀ b : S, (diffAux x a' rec b).Sublist (x :: a')
  | [] => by simp [diffAux_nil]
  | y :: b => by
    rw [diffAux_cons]
    split
    · exact (hrec _).cons_cons x
    · split
      · exact diffAux_sublist hrec b
      · exact (hrec _).cons x

theorem diff_sublist : ∀ a b : S, (diff a b).Sublist a
  | [], b => by simp [diff_nil_left]
  | x :: a, b => by rw [diff_cons]; exact diffAux_sublist (fun b => diff_sublist a b) b

theorem sorted_diff {a b : S} (ha : Sorted a) : Sorted (diff a b) := Sorted.sublist (diff_sublist a b) ha

theorem mem_symm {z : Nat} {a b : S} (ha : Sorted a) (hb : Sorted b) :
    z ∈ symm a b ↔ (z ∈ a ∧ z ∉ b) ∨ (z ∈ b ∧ z ∉ a) := by
  unfold symm; rw [mem_union, mem_diff ha hb, mem_diff hb ha]

theorem sorted_symm {a b : S} (ha : Sorted a) (hb : Sorted b) : Sorted (symm a b) :=
  sorted_union (sorted_diff ha) (sorted_diff hb)

/-! ### fallback loops -/

theorem mem_foldl_ins {y : Nat} : ∀ {o r : S}, y ∈ o.foldl (fun acc v => ins v acc) r ↔ y ∈ r ∨ y ∈ o
  | [], r => by simp
  | v :: o, r => by
    rw [List.foldl_cons, mem_foldl_ins (o := o), mem_ins]
    simp only [List.mem_cons]
    constructor
    · rintro ((h | h) | h) <;> simp [h]
    · rintro (h | h | h) <;> simp [h]

theorem sorted_foldl_ins : ∀ {o r : S}, Sorted r → Sorted (o.foldl (fun acc v => ins v acc) r)
  | [], r, h => h
  | v :: o, r, h => by rw [List.foldl_cons]; exact sorted_foldl_ins (sorted_ins h)

theorem foldl_ins_nil_eq {o : S} (ho : Sorted o) : o.foldl (fun acc v => ins v acc) [] = o :=
  sorted_ext (sorted_foldl_ins sorted_nil) ho (fun x => by rw [mem_foldl_ins]; simp)

theorem orFallback_eq {r o : S} (hr : Sorted r) (ho : Sorted o) : orFallback r o = union r o :=
  sorted_ext (sorted_foldl_ins hr) (sorted_union hr ho) (fun x => by unfold orFallback; rw [mem_foldl_ins, mem_union])

theorem xorFallback_eq {r o : S} (ho : Sorted o) : xorFallback r o = symm r o := by
  unfold xorFallback; rw [foldl_ins_nil_eq ho]

theorem foldl_del_sublist : ∀ (l r : S), (l.foldl (fun acc v => del v acc) r).Sublist r
  | [], r => List.Sublist.refl r
  | v :: l, r => by rw [List.foldl_cons]; exact (foldl_del_sublist l (del v r)).trans (del_sublist v r)

theorem mem_foldl_del {y : Nat} : ∀ {l r : S}, Sorted r → (y ∈ l.foldl (fun acc v => del v acc) r ↔ y ∈ r ∧ y ∉ l)
  | [], r, _ => by simp
  | v :: l, r, hr => by
    rw [List.foldl_cons, mem_foldl_del (sorted_del hr), mem_del hr]
    simp only [List.mem_cons, not_or]
    constructor
    · rintro ⟨⟨h1, h2⟩, h3⟩; exact ⟨h1, h2, h3⟩
    · rintro ⟨h1, h2, h3⟩; exact ⟨⟨h1, h2⟩, h3⟩

theorem mem_collectRemove {r : S} {rm : Nat → Bool} (hr : Sorted r) {y : Nat} :
    y ∈ collectRemove r rm ↔ y ∈ r ∧ rm y = false := by
  unfold collectRemove
  rw [mem_foldl_del hr, List.mem_filter]
  constructor
  · rintro ⟨h1, h2⟩
    refine ⟨h1, ?_⟩
    cases h : rm y
    · rfl
    · exact absurd ⟨h1, h⟩ h2
  · rintro ⟨h1, h2⟩; exact ⟨h1, fun h => by simp [h2] at h⟩

theorem sorted_collectRemove {r : S} {rm : Nat → Bool} (hr : Sorted r) : Sorted (collectRemove r rm) :=
  Sorted.sublist (foldl_del_sublist _ r) hr

theorem andFallbackFixed_eq {r o : S} (hr : Sorted r) (ho : Sorted o) : andFallbackFixed r o = inter r o :=
  sorted_ext (sorted_collectRemove hr) (sorted_inter hr) (fun x => by
    unfold andFallbackFixed
    rw [mem_collectRemove hr, mem_inter hr ho]
    simp [has_iff])

theorem andNotFallbackFixed_eq {r o : S} (hr : Sorted r) (ho : Sorted o) : andNotFallbackFixed r o = diff r o :=
  sorted_ext (sorted_collectRemove hr) (sorted_diff hr) (fun x => by
    unfold andNotFallbackFixed
    rw [mem_collectRemove hr, mem_diff hr ho, has_false_iff])

/-! ### what the iterate-while-remove loops do guarantee, whatever the cursor yields -/

theorem loop32_sublist (rm : Nat → Bool) : ∀ (fuel : Nat) (live : S) (c : Cur32), (loop32 rm fuel live c).Sublist live
  | 0, live, _ => List.Sublist.refl live
  | fuel+1, live, c => by
    unfold loop32
    split
    · simp only
      split
      · exact (loop32_sublist rm fuel _ _).trans (del_sublist _ live)
      · exact loop32_sublist rm fuel _ _
    · exact List.Sublist.refl live

theorem loop32_keeps (rm : Nat → Bool) {y : Nat} (hy : rm y = false) :
    ∀ (fuel : Nat) (live : S) (c : Cur32), y ∈ live → y ∈ loop32 rm fuel live c
  | 0, live, _, h => h
  | fuel+1, live, c, h => by
    unfold loop32
    split
    · simp only
      split
      · rename_i hx
        apply loop32_keeps rm hy
        apply mem_del_of_ne h
        intro e; rw [e] at hy; rw [hy] at hx; exact Bool.noConfusion hx
      · exact loop32_keeps rm hy fuel _ _ h
    · exact h

theorem loop64_sublist (rm : Nat → Bool) : ∀ (fuel : Nat) (live : S) (c : Cur64), (loop64 rm fuel live c).Sublist live
  | 0, live, _ => List.Sublist.refl live
  | fuel+1, live, c => by
    unfold loop64
    split
    · simp only
      split
      · exact (loop64_sublist rm fuel _ _).trans (del_sublist _ live)
      · exact loop64_sublist rm fuel _ _
    · exact List.Sublist.refl live

theorem loop64_keeps (rm : Nat → Bool) {y : Nat} (hy : rm y = false) :
    ∀ (fuel : Nat) (live : S) (c : Cur64), y ∈ live → y ∈ loop64 rm fuel live c
  | 0, live, _, h => h
  | fuel+1, live, c, h => by
    unfold loop64
    split
    · simp only
      split
      · rename_i hx
        apply loop64_keeps rm hy
        apply mem_del_of_ne h
        intro e; rw [e] at hy; rw [hy] at hx; exact Bool.noConfusion hx
      · exact loop64_keeps rm hy fuel _ _ h
    · exact h

theorem eachRemove_sublist (w : Width) (r : S) (rm : Nat → Bool) : (eachRemove w r rm).Sublist r := by
  cases w
  · exact loop32_sublist rm _ _ _
  · exact loop64_sublist rm _ _ _

theorem eachRemove_keeps (w : Width) (r : S) (rm : Nat → Bool) {y : Nat} (hy : rm y = false) (h : y ∈ r) :
    y ∈ eachRemove w r rm := by
  cases w
  · exact loop32_keeps rm hy _ _ _ h
  · exact loop64_keeps rm hy _ _ _ h

/-! ### the model refines the spec, call by call -/

theorem nativeOp_eq_binop (op : BinOp) : nativeOp op = Spec.binop op := by cases op <;> rfl

theorem sorted_binop {op : BinOp} {a b : S} (ha : Sorted a) (hb : Sorted b) : Sorted (Spec.binop op a b) := by
  cases op
  · exact sorted_union ha hb
  · exact sorted_inter ha
  · exact sorted_diff ha
  · exact sorted_symm ha hb

theorem fallbackOp_fixed_eq {w : Width} {op : BinOp} {r o : S} (hr : Sorted r) (ho : Sorted o) :
    fallbackOp true w op r o = Spec.binop op r o := by
  cases op
  · exact orFallback_eq hr ho
  · exact andFallbackFixed_eq hr ho
  · exact andNotFallbackFixed_eq hr ho
  · exact xorFallback_eq ho

/-- one call of the live model (F1 repair, snapshot protocol) on a provider with a free mutex and canonical content: it
returns, with the spec's answer and the spec's content, and the provider stays in that shape -/
theorem Spec.step_refines (p : Prov) (hl : p.locked = false) (hs : Sorted p.set) (op : Spec.SeqOp) (hok : op.Ok p.wrapped) :
    ∃ p' r, p.step true true op = (p', some r) ∧ r = Spec.answer p.set (op.spec p) ∧ p'.set = Spec.next p.set (op.spec p) ∧
      p'.locked = false ∧ p'.wrapped = p.wrapped ∧ Sorted p'.set := by
  have hg : (p.wrapped && p.locked) = false := by simp [hl]
  cases op with
  | add vs => exact ⟨{ p with set := addMany p.set vs }, .unit, by simp [Prov.step, Prov.update, Prov.guard, hg, Spec.resOut], rfl, rfl, hl, rfl, sorted_foldl_ins hs⟩
  | remove v => exact ⟨{ p with set := del v p.set }, .unit, by simp [Prov.step, Prov.update, Prov.guard, hg, Spec.resOut], rfl, rfl, hl, rfl, sorted_del hs⟩
  | clear => exact ⟨{ p with set := [] }, .unit, by simp [Prov.step, Prov.update, Prov.guard, hg, Spec.resOut], rfl, rfl, hl, rfl, sorted_nil⟩
  | checkedAdd v => exact ⟨{ p with set := ins v p.set }, .bool (!has p.set v), by simp [Prov.step, Prov.checkedAdd, Prov.guard, hg], rfl, rfl, hl, rfl, sorted_ins hs⟩
  | contains v => exact ⟨p, _, by simp [Prov.step, Prov.guard, hg]; rfl, rfl, rfl, hl, rfl, hs⟩
  | card => exact ⟨p, _, by simp [Prov.step, Prov.guard, hg]; rfl, rfl, rfl, hl, rfl, hs⟩
  | slice => exact ⟨p, _, by simp [Prov.step, Prov.guard, hg]; rfl, rfl, rfl, hl, rfl, hs⟩
  | each k => exact ⟨p, _, by simp [Prov.step, Prov.guard, hg]; rfl, rfl, rfl, hl, rfl, hs⟩
  | clone => exact ⟨p, _, by simp [Prov.step, Prov.clone, Prov.guard, hg]; rfl, rfl, rfl, hl, rfl, hs⟩
  | bin b o =>
    cases o with
    | bitmap s =>
      have hso : Sorted s := hok
      refine ⟨{ p with set := Spec.binop b p.set s }, .unit, ?_, rfl, rfl, hl, rfl, sorted_binop hs hso⟩
      cases hw : p.wrapped <;>
        simp [Prov.step, Prov.binop, hw, hl, snapshotOperand, bitmapBinop, nativeOp_eq_binop, Spec.resOut]
    | wrapper l s =>
      obtain ⟨rfl, hso⟩ := hok
      refine ⟨{ p with set := Spec.binop b p.set s }, .unit, ?_, rfl, rfl, hl, rfl, sorted_binop hs hso⟩
      cases hw : p.wrapped <;>
        simp [Prov.step, Prov.binop, hw, hl, snapshotOperand, bitmapBinop, nativeOp_eq_binop, fallbackOp_fixed_eq hs hso, Spec.resOut]
    | selfWrapper =>
      have hw : p.wrapped = true := hok
      refine ⟨{ p with set := Spec.binop b p.set p.set }, .unit, ?_, rfl, rfl, hl, rfl, sorted_binop hs hs⟩
      simp [Prov.step, Prov.binop, hw, hl, snapshotOperand, bitmapBinop, nativeOp_eq_binop, Spec.resOut]
    | nonDuplex => exact hok.elim

theorem Spec.accepted_of_ok : ∀ (ops : List Spec.SeqOp) (p : Prov), p.locked = false → Sorted p.set →
    (∀ op ∈ ops, op.Ok p.wrapped) → Prov.accepted true true p ops = true
  | [], _, _, _, _ => rfl
  | op :: ops, p, hl, hs, hok => by
    obtain ⟨p', r, hstep, hr, hset, hl', hw', hs'⟩ := Spec.step_refines p hl hs op (hok op List.mem_cons_self)
    unfold Prov.accepted
    rw [hstep]
    simp only [hr, hset, decide_true, Bool.true_and]
    exact Spec.accepted_of_ok ops p' hl' hs' (fun o ho => hw' ▸ hok o (List.mem_cons_of_mem _ ho))

/-! ### commutative.go -/

theorem commContains_iff {dc : List S} {v : Nat} : commContains dc v = true ↔ ∃ d ∈ dc, v ∈ d := by
  simp only [commContains, List.any_eq_true, Bool.and_eq_true, decide_eq_true_eq, has_iff]
  constructor
  · rintro ⟨d, hd, _, hv⟩; exact ⟨d, hd, hv⟩
  · rintro ⟨d, hd, hv⟩; exact ⟨d, hd, List.length_pos_of_mem hv, hv⟩

theorem commDuplexesContains_iff {ors ands : List (List S)} {v : Nat} :
    commDuplexesContains ors ands v = true ↔ (∃ dc ∈ ors, ∃ d ∈ dc, v ∈ d) ∧ (∀ dc ∈ ands, ∃ d ∈ dc, v ∈ d) := by
  simp only [commDuplexesContains, Bool.and_eq_true, List.any_eq_true, List.all_eq_true, commContains_iff]

/-! ### CheckedAdd on spec traces -/
namespace Spec

/-- operations that never remove an element -/
def Grows : Op → Prop
  | .add _ => True
  | .checkedAdd _ => True
  | .contains _ => True
  | .card => True
  | .slice => True
  | .each _ => True
  | .clone => True
  | .bin .or _ => True
  | _ => False

/-- `CheckedAdd` and read-only operations -/
def CaddOrRead : Op → Prop
  | .checkedAdd _ => True
  | .contains _ => True
  | .card => True
  | .slice => True
  | .each _ => True
  | .clone => True
  | _ => False

theorem CaddOrRead.grows {op : Op} (h : CaddOrRead op) : Grows op := by
  cases op <;> first | trivial | exact h.elim

/-- a `CheckedAdd v` that answered `true` -/
def isCaddTrue (v : Nat) : Op × Out → Bool
  | (.checkedAdd u, .bool true) => u == v
  | _ => false

/-- every answer of the trace is the ideal one, the ideal set threaded through -/
def validTrace : S → List (Op × Out) → Prop
  | _, [] => True
  | s, (op, r) :: t => r = answer s op ∧ validTrace (next s op) t

theorem mem_next_of_grows {s : S} {op : Op} {v : Nat} (hg : Grows op) (hv : v ∈ s) : v ∈ next s op := by
  cases op with
  | add vs => exact mem_foldl_ins.2 (Or.inl hv)
  | checkedAdd u => exact mem_ins.2 (Or.inr hv)
  | bin b o =>
    cases b with
    | or => exact mem_union.2 (Or.inl hv)
    | _ => exact hg.elim
  | remove _ => exact hg.elim
  | clear => exact hg.elim
  | _ => exact hv

theorem cadd_count_of_mem {v : Nat} : ∀ {s : S} {tr : List (Op × Out)}, v ∈ s → (∀ p ∈ tr, Grows p.1) →
    validTrace s tr → (tr.filter (isCaddTrue v)).length = 0
  | _, [], _, _, _ => rfl
  | s, (op, r) :: t, hv, hg, hval => by
    have ih := cadd_count_of_mem (mem_next_of_grows (hg (op, r) List.mem_cons_self) hv)
      (fun p hp => hg p (List.mem_cons_of_mem _ hp)) hval.2
    have hhead : isCaddTrue v (op, r) = false := by
      cases op with
      | checkedAdd u =>
        by_cases e : u = v
        · subst e
          have hr : r = .bool (!has s u) := hval.1
          rw [hr, has_iff.2 hv]; rfl
        · cases r with
          | bool b => cases b <;> simp [isCaddTrue, e]
          | _ => rfl
      | _ => rfl
    rw [List.filter_cons, hhead]; simpa using ih

/-- in a history of operations that never remove, `CheckedAdd v` answers `true` at most once -/
theorem cadd_count_le_one {v : Nat} : ∀ {s : S} {tr : List (Op × Out)}, (∀ p ∈ tr, Grows p.1) →
    validTrace s tr → (tr.filter (isCaddTrue v)).length ≤ 1
  | _, [], _, _ => by simp
  | s, (op, r) :: t, hg, hval => by
    rw [List.filter_cons]
    split
    · rename_i htrue
      -- this CheckedAdd v inserted v: nobody after it can see `true` again
      have hop : op = .checkedAdd v := by
        cases op with
        | checkedAdd u =>
          cases r with
          | bool b => cases b <;> simp [isCaddTrue] at htrue; rw [htrue]
          | _ => simp [isCaddTrue] at htrue
        | _ => simp [isCaddTrue] at htrue
      subst hop
      have := cadd_count_of_mem (v := v) (s := next s (.checkedAdd v)) (tr := t) (mem_ins.2 (Or.inl rfl))
        (fun p hp => hg p (List.mem_cons_of_mem _ hp)) hval.2
      simp [this]
    · exact cadd_count_le_one (fun p hp => hg p (List.mem_cons_of_mem _ hp)) hval.2

/-- … and exactly once when `v` is new, only `CheckedAdd`s insert, and some `CheckedAdd v` is in the history -/
theorem cadd_count_eq_one {v : Nat} : ∀ {s : S} {tr : List (Op × Out)}, v ∉ s → (∀ p ∈ tr, CaddOrRead p.1) →
    validTrace s tr → (∃ r, (Op.checkedAdd v, r) ∈ tr) → (tr.filter (isCaddTrue v)).length = 1
  | _, [], _, _, _, ⟨r, h⟩ => by simp at h
  | s, (op, r) :: t, hv, hc, hval, ⟨r', hin⟩ => by
    have hct := fun p hp => hc p (List.mem_cons_of_mem _ hp)
    by_cases hop : op = .checkedAdd v
    · subst hop
      have hr : r = .bool (!has s v) := hval.1
      have hfalse : has s v = false := has_false_iff.2 hv
      have h0 := cadd_count_of_mem (v := v) (s := next s (.checkedAdd v)) (tr := t) (mem_ins.2 (Or.inl rfl))
        (fun p hp => (hct p hp).grows) hval.2
      rw [List.filter_cons, hr, hfalse]
      simp [isCaddTrue, h0]
    · have hhead : isCaddTrue v (op, r) = false := by
        cases op with
        | checkedAdd u =>
          have : u ≠ v := fun e => hop (by rw [e])
          cases r with
          | bool b => cases b <;> simp [isCaddTrue, this]
          | _ => rfl
        | _ => rfl
      have hv' : v ∉ next s op := by
        cases op with
        | checkedAdd u =>
          have : u ≠ v := fun e => hop (by rw [e])
          intro h; rcases mem_ins.1 h with e | h
          · exact this e.symm
          · exact hv h
        | add _ => exact (hc _ List.mem_cons_self).elim
        | remove _ => exact (hc _ List.mem_cons_self).elim
        | clear => exact (hc _ List.mem_cons_self).elim
        | bin _ _ => exact (hc _ List.mem_cons_self).elim
        | _ => exact hv
      have hin' : ∃ r, (Op.checkedAdd v, r) ∈ t := by
        rcases List.mem_cons.1 hin with e | h
        · injection e with e1 _; exact absurd e1.symm hop
        · exact ⟨r', h⟩
      rw [List.filter_cons, hhead]
      simpa using cadd_count_eq_one hv' hct hval.2 hin'

end Spec

end Dawgs.C13
