import Dawgs.Model.C08Parts
set_option linter.unusedVariables false
set_option linter.unusedSectionVars false
set_option linter.unusedSimpArgs false
namespace Dawgs.C08
open Dawgs.Grammar

/-- the concrete invariant: the last part is the part of the current index, or it has just been closed by a WITH -/
def Inv (c : Cnt) : Prop := c.len = c.idx ∨ c.len = c.idx + 1
/-- abstraction: true = F (len = idx + 1), false = E (len = idx) -/
def alpha (c : Cnt) : Bool := decide (c.len = c.idx + 1)

theorem inv_init : Inv { len := 0, idx := 0 } := Or.inl rfl

theorem absOp_none (op : Nat) : absOp none op = none := by
  unfold absOp; split <;> simp_all

theorem absOps_none (ops : List Nat) : absOps none ops = none := by
  induction ops with
  | nil => rfl
  | cons o os ih => simp only [absOps, List.foldl_cons, absOp_none] at *; exact ih

theorem absOps_cons (a : Option Bool) (o : Nat) (os : List Nat) : absOps a (o :: os) = absOps (absOp a o) os := rfl

theorem absOps_append (a : Option Bool) (xs ys : List Nat) : absOps a (xs ++ ys) = absOps (absOps a xs) ys := by
  simp [absOps, List.foldl_append]

theorem absOp_sound (c : Cnt) (hinv : Inv c) (op : Nat) (b : Bool) (h : absOp (some (alpha c)) op = some b) :
    ∃ c', runOp c op = .ok c' ∧ Inv c' ∧ alpha c' = b := by
  unfold Inv at hinv
  unfold alpha at h ⊢
  rcases hinv with hE | hF
  · -- E: len = idx
    have hα : decide (c.len = c.idx + 1) = false := by simp; omega
    rw [hα] at h
    rcases op with _ | _ | _ | n
    · simp [absOp] at h; subst h
      refine ⟨{ c with len := c.len + 1 }, by simp [runOp, hE], Or.inr (by simp; omega), by simp; omega⟩
    · simp [absOp] at h
    · simp [absOp] at h
    · simp [absOp] at h
  · -- F: len = idx + 1
    have hα : decide (c.len = c.idx + 1) = true := by simp; omega
    rw [hα] at h
    have hne : ¬ c.len = c.idx := by omega
    have hne0 : ¬ c.len = 0 := by omega
    rcases op with _ | _ | _ | n
    · simp [absOp] at h; subst h
      exact ⟨c, by simp [runOp, hne], Or.inr hF, by simp; omega⟩
    · simp [absOp] at h; subst h
      exact ⟨c, by simp [runOp, hne0, hF], Or.inr hF, by simp; omega⟩
    · simp [absOp] at h; subst h
      exact ⟨{ c with idx := c.idx + 1 }, by simp [runOp], Or.inl (by simp; omega), by simp; omega⟩
    · simp [absOp] at h

theorem absOps_sound : ∀ (ops : List Nat) (c : Cnt), Inv c → (absOps (some (alpha c)) ops).isSome = true →
    ∃ c', runOps c ops = .ok c' ∧ Inv c'
  | [], c, hinv, _ => ⟨c, rfl, hinv⟩
  | o :: os, c, hinv, h => by
    rw [absOps_cons] at h
    cases ho : absOp (some (alpha c)) o with
    | none => rw [ho, absOps_none] at h; cases h
    | some b =>
      obtain ⟨c1, hr, hinv1, hα1⟩ := absOp_sound c hinv o b ho
      rw [ho, ← hα1] at h
      obtain ⟨c2, hr2, hinv2⟩ := absOps_sound os c1 hinv1 h
      exact ⟨c2, by simp [runOps, hr, hr2], hinv2⟩

/-- safe from both abstract states = safe from every concrete state satisfying the invariant -/
theorem ops_safe_of_both (ops : List Nat) (hE : (absOps (some false) ops).isSome = true) (hF : (absOps (some true) ops).isSome = true)
    (c : Cnt) (hinv : Inv c) : ∃ c', runOps c ops = .ok c' ∧ Inv c' := by
  apply absOps_sound ops c hinv
  cases hα : alpha c
  · exact hE
  · exact hF

theorem runOps_append (c : Cnt) (xs ys : List Nat) :
    runOps c (xs ++ ys) = (match runOps c xs with | .ok c1 => runOps c1 ys | .error e => .error e) := by
  induction xs generalizing c with
  | nil => simp [runOps]
  | cons o os ih =>
    simp only [List.cons_append, runOps]
    cases runOp c o with
    | error e => simp
    | ok c1 => simp [ih]

theorem ops_nil_of_not_listed (P : PartsTab) (V r : Nat) (enter : Bool)
    (h : ∀ e ∈ P, ¬ (e.1 = V ∧ e.2.1 = r)) : P.ops V r enter = [] := by
  unfold PartsTab.ops
  have : P.find? (fun e => e.1 == V && e.2.1 == r && e.2.2.1 == enter) = none := by
    apply List.find?_eq_none.2
    intro e he hc
    apply h e he
    simp only [Bool.and_eq_true, beq_iff_eq] at hc
    exact ⟨hc.1.1, hc.1.2⟩
  rw [this]

theorem itemSafe_all {T : Tables} {P : PartsTab} (h : partsSafe T P = true) (V r : Nat) : itemSafe T P V r = true := by
  by_cases hl : ∃ e ∈ P, e.1 = V ∧ e.2.1 = r
  · obtain ⟨e, he, h1, h2⟩ := hl
    have := (List.all_eq_true.1 h) e he
    rw [h1, h2] at this; exact this
  · have hn : ∀ e ∈ P, ¬ (e.1 = V ∧ e.2.1 = r) := fun e he hc => hl ⟨e, he, hc⟩
    unfold itemSafe
    rw [ops_nil_of_not_listed P V r true hn, ops_nil_of_not_listed P V r false hn]
    split <;> rfl

section PWalk
variable (T : Tables) (P : PartsTab) (hs : ∀ V r, itemSafe T P V r = true)
include hs

mutual
theorem pwalk_ok : ∀ (t : Tree) (V : Nat) (c : Cnt), Inv c → ∃ c', T.pwalk P V t c = .ok c' ∧ Inv c'
  | .node r kids, V, c, hinv => by
    have hsafe := hs V r
    unfold itemSafe at hsafe
    by_cases hshape : ∃ W, T.enterActs V r = [(true, some W, [])]
    · -- unguarded push: Enter;Exit atomic for this instance
      obtain ⟨W, hW⟩ := hshape
      simp only [hW, Bool.and_eq_true] at hsafe
      obtain ⟨c3, hrun, hinv3⟩ := ops_safe_of_both _ hsafe.1 hsafe.2 c hinv
      rw [runOps_append] at hrun
      cases h1 : runOps c (P.ops V r true) with
      | error e => rw [h1] at hrun; cases hrun
      | ok c1 =>
        rw [h1] at hrun
        have hpush : T.pushedType V r kids = some W := by simp [Tables.pushedType, hW, Tables.evalGuard]
        obtain ⟨ck, hk, _⟩ := pwalkL_ok kids W { len := 0, idx := 0 } inv_init
        exact ⟨c3, by simp only [Tables.pwalk, h1, hpush, hk]; exact hrun, hinv3⟩
    · -- no push, or a guarded one: Enter and Exit are safe on their own
      have h4 : (absOps (some false) (P.ops V r true)).isSome = true ∧ (absOps (some true) (P.ops V r true)).isSome = true ∧
          (absOps (some false) (P.ops V r false)).isSome = true ∧ (absOps (some true) (P.ops V r false)).isSome = true := by
        revert hsafe
        split
        · rename_i W heq; exact absurd ⟨_, heq⟩ hshape
        · intro h; simpa [Bool.and_eq_true, and_assoc] using h
      obtain ⟨c1, h1, hinv1⟩ := ops_safe_of_both _ h4.1 h4.2.1 c hinv
      cases hp : T.pushedType V r kids with
      | some W =>
        obtain ⟨ck, hk, _⟩ := pwalkL_ok kids W { len := 0, idx := 0 } inv_init
        obtain ⟨c3, h3, hinv3⟩ := ops_safe_of_both _ h4.2.2.1 h4.2.2.2 c1 hinv1
        exact ⟨c3, by simp only [Tables.pwalk, h1, hp, hk]; exact h3, hinv3⟩
      | none =>
        obtain ⟨c2, hk, hinv2⟩ := pwalkL_ok kids V c1 hinv1
        obtain ⟨c3, h3, hinv3⟩ := ops_safe_of_both _ h4.2.2.1 h4.2.2.2 c2 hinv2
        exact ⟨c3, by simp only [Tables.pwalk, h1, hp, hk]; exact h3, hinv3⟩
  | .leaf _, _, c, hinv => ⟨c, by simp [Tables.pwalk], hinv⟩
  | .err _, _, c, hinv => ⟨c, by simp [Tables.pwalk], hinv⟩
theorem pwalkL_ok : ∀ (ts : List Tree) (V : Nat) (c : Cnt), Inv c → ∃ c', T.pwalkL P V ts c = .ok c' ∧ Inv c'
  | [], _, c, hinv => ⟨c, by simp [Tables.pwalkL], hinv⟩
  | t :: ts, V, c, hinv => by
    obtain ⟨c1, h1, hinv1⟩ := pwalk_ok t V c hinv
    obtain ⟨c2, h2, hinv2⟩ := pwalkL_ok ts V c1 hinv1
    exact ⟨c2, by simp only [Tables.pwalkL, h1, h2], hinv2⟩
end
end PWalk

end Dawgs.C08
