/-
C11 proofs, part 2: values. `copy` driven by a copy table satisfying `schemaCopyOK` returns a value that is
equal up to addresses and whose mutable addresses are all fresh; branch trees built from two branch tables,
one of which covers the other, enter a superset of nodes.
-/
import Dawgs.Model.C11
set_option linter.unusedSectionVars false
namespace Dawgs.C11

/-! ### copy -/

/-- kid `i` of a handled node is copied deeply, or shared where sharing is unobservable -/
def kidOK (T : Tables) (sh : Shape) (ty i : Nat) : Prop :=
  T.modeAt sh ty i = .deep ∨ (T.modeAt sh ty i = .shallow ∧ T.sharedAt sh ty i = true)

theorem decl_mem_or_dflt (T : Tables) (ty : Nat) : T.decl ty ∈ T.types ∨ T.decl ty = TypeDecl.dflt := by
  unfold Tables.decl
  rw [List.getD_eq_getElem?_getD]
  cases h : T.types[ty]? with
  | none => right; rfl
  | some d => left; exact List.mem_of_getElem? h

theorem decl_ok_of_schema (T : Tables) (hT : schemaCopyOK T = true) (sh : Shape) (ty : Nat)
    (hh : T.handles sh ty = true) : (T.decl ty).copyOK = true ∧ T.allocs ty = true := by
  simp only [Tables.handles, Bool.and_eq_true, beq_iff_eq] at hh
  rcases decl_mem_or_dflt T ty with hm | hd
  · have := (List.all_eq_true.1 hT) _ hm
    simpa [hh.1, Tables.allocs] using this
  · rw [hd] at hh; cases hh.1

theorem kidOK_of_schema (T : Tables) (hT : schemaCopyOK T = true) (sh : Shape) (ty : Nat)
    (hh : T.handles sh ty = true) (i : Nat) : kidOK T sh ty i := by
  have hok := (decl_ok_of_schema T hT sh ty hh).1
  simp only [Tables.handles, Bool.and_eq_true, beq_iff_eq] at hh
  obtain ⟨hcase, hshape⟩ := hh
  simp only [TypeDecl.copyOK, Bool.and_eq_true, Bool.or_eq_true, beq_iff_eq] at hok
  unfold kidOK Tables.modeAt Tables.sharedAt
  cases sh with
  | obj =>
    simp only
    have hf : (T.field ty i).copyOK = true := by
      unfold Tables.field
      rw [List.getD_eq_getElem?_getD]
      cases h : (T.decl ty).fields[i]? with
      | none => rfl
      | some f => exact (List.all_eq_true.1 hok.1) f (List.mem_of_getElem? h)
    unfold Field.copyOK at hf
    cases hm : (T.field ty i).mode <;> simp [hm] at hf ⊢
    exact hf
  | list =>
    simp only
    rcases hok.2 with h | h
    · rw [hshape] at h; cases h
    · left; exact h
  | map =>
    simp only
    rcases hok.2 with h | h
    · rw [hshape] at h; cases h
    · left; exact h

mutual
theorem copy_erase (T : Tables) (hT : schemaCopyOK T = true) :
    ∀ (v : Val) (n : Nat), (copy T v n).1.erase = v.erase
  | .scalar _ _, _ => rfl
  | .nil, _ => rfl
  | .tnil _, _ => rfl
  | .node sh a ty keys kids, n => by
    unfold copy
    by_cases hh : (T.handles sh ty && T.allocs ty) = true
    · have hh1 : T.handles sh ty = true := by simp only [Bool.and_eq_true] at hh; exact hh.1
      simp only [hh, ite_true, Val.erase]
      rw [copyK_erase T hT sh ty (kidOK_of_schema T hT sh ty hh1) 0 kids (n + 1)]
    · simp [hh]
theorem copyK_erase (T : Tables) (hT : schemaCopyOK T = true) (sh : Shape) (ty : Nat)
    (hk : ∀ i, kidOK T sh ty i) :
    ∀ (i : Nat) (ks : List Val) (n : Nat), eraseL (copyK T sh ty i ks n).1 = eraseL ks
  | _, [], _ => rfl
  | i, k :: ks, n => by
    unfold copyK
    simp only [eraseL]
    rcases hk i with hd | ⟨hs, _⟩
    · simp only [hd]
      rw [copy_erase T hT k n, copyK_erase T hT sh ty hk (i + 1) ks _]
    · simp only [hs]
      rw [copyK_erase T hT sh ty hk (i + 1) ks _]
end

mutual
theorem copy_fresh (T : Tables) (hT : schemaCopyOK T = true) :
    ∀ (v : Val) (n : Nat), copyPanics T v = false →
      n ≤ (copy T v n).2 ∧ ∀ a ∈ mutAddrs T (copy T v n).1, n ≤ a ∧ a < (copy T v n).2
  | .scalar _ _, n, _ => ⟨Nat.le_refl _, by intro a ha; simp [copy, mutAddrs] at ha⟩
  | .nil, n, _ => ⟨Nat.le_refl _, by intro a ha; simp [copy, mutAddrs] at ha⟩
  | .tnil _, n, _ => ⟨Nat.le_refl _, by intro a ha; simp [copy, mutAddrs] at ha⟩
  | .node sh a ty keys kids, n, hp => by
    simp only [copyPanics, Bool.or_eq_false_iff, Bool.not_eq_false'] at hp
    obtain ⟨hh, hpk⟩ := hp
    have ih := copyK_fresh T hT sh ty (kidOK_of_schema T hT sh ty hh) 0 kids (n + 1) hpk
    unfold copy
    simp only [hh, (decl_ok_of_schema T hT sh ty hh).2, Bool.and_self, ite_true, mutAddrs]
    refine ⟨by omega, ?_⟩
    intro x hx
    rcases List.mem_cons.1 hx with rfl | hx
    · omega
    · have := ih.2 x hx; omega
theorem copyK_fresh (T : Tables) (hT : schemaCopyOK T = true) (sh : Shape) (ty : Nat)
    (hk : ∀ i, kidOK T sh ty i) :
    ∀ (i : Nat) (ks : List Val) (n : Nat), copyPanicsK T sh ty i ks = false →
      n ≤ (copyK T sh ty i ks n).2 ∧ ∀ a ∈ mutAddrsK T sh ty i (copyK T sh ty i ks n).1, n ≤ a ∧ a < (copyK T sh ty i ks n).2
  | _, [], n, _ => ⟨Nat.le_refl _, by intro a ha; simp [copyK, mutAddrsK] at ha⟩
  | i, k :: ks, n, hp => by
    simp only [copyPanicsK, Bool.or_eq_false_iff, Bool.and_eq_false_imp, beq_iff_eq] at hp
    obtain ⟨hp1, hp2⟩ := hp
    unfold copyK
    rcases hk i with hd | ⟨hs, hshare⟩
    · simp only [hd, mutAddrsK]
      have ih1 := copy_fresh T hT k n (hp1 hd)
      have ih2 := copyK_fresh T hT sh ty hk (i + 1) ks (copy T k n).2 hp2
      refine ⟨by omega, ?_⟩
      intro x hx
      rcases List.mem_append.1 hx with hx | hx
      · split at hx
        · cases hx
        · have := ih1.2 x hx; omega
      · have := ih2.2 x hx; omega
    · simp only [hs, mutAddrsK, hshare, ite_true, List.nil_append]
      exact copyK_fresh T hT sh ty hk (i + 1) ks n hp2
end

/-! ### Copy never reaches its `default: panic` on a value built from handled types -/

mutual
theorem copy_never_panics (T : Tables) : ∀ (v : Val), allHandled T v = true → copyPanics T v = false
  | .scalar _ _, _ => rfl
  | .nil, _ => rfl
  | .tnil _, h => by simp [allHandled] at h
  | .node sh a ty keys kids, h => by
    simp only [allHandled, Bool.and_eq_true] at h
    simp only [copyPanics, h.1, Bool.not_true, Bool.false_or]
    exact copyK_never_panics T sh ty kids 0 h.2
theorem copyK_never_panics (T : Tables) (sh : Shape) (ty : Nat) :
    ∀ (ks : List Val) (i : Nat), allHandledL T ks = true → copyPanicsK T sh ty i ks = false
  | [], _, _ => rfl
  | k :: ks, i, h => by
    simp only [allHandledL, Bool.and_eq_true] at h
    simp only [copyPanicsK, copy_never_panics T k h.1, Bool.and_false, Bool.false_or]
    exact copyK_never_panics T sh ty ks (i + 1) h.2
end

/-! ### a value that is well-typed against the schema consists of handled types only -/

/-- a position whose legal node values have a `Copy` case -/
def posOK (T : Tables) (k : Kind) (sty : Nat) : Prop :=
  k = .iface ∨ k = .value ∨ k = .opaque ∨ (T.decl sty).copyCase = true

theorem decl_mem_of_copyCase (T : Tables) (ty : Nat) (h : (T.decl ty).copyCase = true) : T.decl ty ∈ T.types := by
  rcases decl_mem_or_dflt T ty with hm | hd
  · exact hm
  · rw [hd] at h; cases h

theorem kidKind_posOK (T : Tables) (hT : typesHandled T = true) (sh : Shape) (ty : Nat) (hm : T.decl ty ∈ T.types)
    (i : Nat) : posOK T (T.kidKind sh ty i).1 (T.kidKind sh ty i).2 := by
  have hd := (List.all_eq_true.1 hT) _ hm
  simp only [Bool.and_eq_true, Bool.or_eq_true, beq_iff_eq] at hd
  unfold Tables.kidKind posOK
  cases sh with
  | obj =>
    simp only
    unfold Tables.field
    rw [List.getD_eq_getElem?_getD]
    cases hf : (T.decl ty).fields[i]? with
    | none => right; left; rfl
    | some f =>
      have := (List.all_eq_true.1 hd.1.2) f (List.mem_of_getElem? hf)
      simp only [Bool.or_eq_true, beq_iff_eq] at this
      simp only [Option.getD_some]
      rcases this with ((h | h) | h) | h
      · right; left; exact h
      · right; right; left; exact h
      · left; exact h
      · right; right; right; exact h
  | list =>
    simp only
    rcases hd.2 with ((h | h) | h) | h
    · right; left; exact h
    · right; right; left; exact h
    · left; exact h
    · right; right; right; exact h
  | map =>
    simp only
    rcases hd.2 with ((h | h) | h) | h
    · right; left; exact h
    · right; right; left; exact h
    · left; exact h
    · right; right; right; exact h

mutual
theorem wtAs_allHandled (T : Tables) (hT : typesHandled T = true) :
    ∀ (v : Val) (k : Kind) (sty : Nat), posOK T k sty → wtAs T k sty v = true → allHandled T v = true
  | .scalar _ _, _, _, _, _ => rfl
  | .nil, _, _, _, _ => rfl
  | .tnil _, _, _, _, h => by simp [wtAs] at h
  | .node sh a ty keys kids, k, sty, hp, h => by
    simp only [wtAs, Bool.and_eq_true, beq_iff_eq] at h
    obtain ⟨⟨hk, hshape⟩, hkids⟩ := h
    have hcc : (T.decl ty).copyCase = true := by
      cases k with
      | iface =>
        simp only at hk
        have hm : T.decl ty ∈ T.types := by
          rcases decl_mem_or_dflt T ty with hm | hd
          · exact hm
          · rw [hd] at hk; cases hk
        have hd := (List.all_eq_true.1 hT) _ hm
        simp only [Bool.and_eq_true, Bool.or_eq_true, Bool.not_eq_true'] at hd
        rcases hd.1.1 with h0 | h0
        · rw [hk] at h0; cases h0
        · exact h0
      | value => simp at hk
      | «opaque» => simp at hk
      | ptr => simp only [beq_iff_eq] at hk; rcases hp with h0 | h0 | h0 | h0 <;> first | cases h0 | (rw [hk]; exact h0)
      | slice => simp only [beq_iff_eq] at hk; rcases hp with h0 | h0 | h0 | h0 <;> first | cases h0 | (rw [hk]; exact h0)
      | map => simp only [beq_iff_eq] at hk; rcases hp with h0 | h0 | h0 | h0 <;> first | cases h0 | (rw [hk]; exact h0)
      | ptrScalar => simp only [beq_iff_eq] at hk; rcases hp with h0 | h0 | h0 | h0 <;> first | cases h0 | (rw [hk]; exact h0)
      | sliceScalar => simp only [beq_iff_eq] at hk; rcases hp with h0 | h0 | h0 | h0 <;> first | cases h0 | (rw [hk]; exact h0)
      | kinds => simp only [beq_iff_eq] at hk; rcases hp with h0 | h0 | h0 | h0 <;> first | cases h0 | (rw [hk]; exact h0)
    simp only [allHandled, Tables.handles, hcc, hshape, beq_self_eq_true, Bool.and_self, Bool.true_and]
    exact wtKids_allHandled T hT sh ty (decl_mem_of_copyCase T ty hcc) kids 0 hkids
theorem wtKids_allHandled (T : Tables) (hT : typesHandled T = true) (sh : Shape) (ty : Nat)
    (hm : T.decl ty ∈ T.types) :
    ∀ (ks : List Val) (i : Nat), wtKids T sh ty i ks = true → allHandledL T ks = true
  | [], _, _ => rfl
  | x :: xs, i, h => by
    simp only [wtKids, Bool.and_eq_true] at h
    simp only [allHandledL, Bool.and_eq_true]
    exact ⟨wtAs_allHandled T hT x _ _ (kidKind_posOK T hT sh ty hm i) h.1,
      wtKids_allHandled T hT sh ty hm xs (i + 1) h.2⟩
end

/-- every value that is well-typed against the schema is built from types `Copy` handles -/
theorem schema_typed_allHandled (T : Tables) (hT : typesHandled T = true) (v : Val) (h : wellTyped T v = true) :
    allHandled T v = true := wtAs_allHandled T hT v .iface 0 (Or.inl rfl) h

/-! ### branch trees: a covering table enters a superset -/

theorem labelsL_append {α : Type} (A B : List (Tree α)) : labelsL (A ++ B) = labelsL A ++ labelsL B := by
  induction A with
  | nil => rfl
  | cons t ts ih => simp [labelsL, ih, List.append_assoc]

/-- everything `a` can contribute is contributed by `b` -/
def Rel (a b : Info) : Prop :=
  a.asNode.labels ⊆ b.asNode.labels ∧ labelsL a.elems ⊆ labelsL b.elems ∧
  labelsL a.items ⊆ labelsL b.items ∧ labelsL a.items ⊆ b.asNode.labels

def RelL (xs ys : List Info) : Prop := ∀ i, Rel (xs.getD i Info.none) (ys.getD i Info.none)

theorem Rel_none (x : Info) : Rel Info.none x := by
  simp [Rel, Info.none, Tree.labels, labelsL]

theorem Rel_refl_scalar (T : Tables) (p : List Nat) (tn : String) : Rel (scalarInfo T p tn) (scalarInfo T p tn) := by
  simp [Rel, scalarInfo, labelsL]

theorem RelL_nil : RelL [] [] := by intro i; simp [Rel_none]

theorem RelL_cons {a b : Info} {xs ys : List Info} (h : Rel a b) (hs : RelL xs ys) : RelL (a :: xs) (b :: ys) := by
  intro i
  cases i with
  | zero => simpa using h
  | succ i => simpa using hs i

theorem info_unset (T : Tables) (tab : BranchTab) (p : List Nat) (v : Val) (h : v.isSet = false ∨ v.isTNil = true) :
    info T tab p v = Info.none := by
  cases v with
  | nil => simp [info]
  | tnil ty => simp [info]
  | scalar tn s => simp [Val.isSet, Val.isTNil] at h
  | node sh a ty keys kids => simp [Val.isSet, Val.isTNil] at h

theorem evalConds_own (kids : List Val) (cs : List (Nat × Bool)) (i : Nat)
    (hcs : cs.all (· == (i, true)) = true) (hset : (kids.getD i Val.nil).isSet = true) :
    evalConds kids cs = true := by
  unfold evalConds
  rw [List.all_eq_true] at hcs ⊢
  intro c hc
  have := hcs c hc
  simp only [beq_iff_eq] at this
  subst this
  show ((kids.getD i Val.nil).isSet == true) = true
  rw [hset]; rfl

/-- one covered entry -/
theorem entry_sub (kids : List Val) (infosA infosB : List Info) (selfA selfB : List (Tree Lbl))
    (hinf : ∀ i, infosA.getD i Info.none = Info.none ∨ (kids.getD i Val.nil).isSet = true)
    (hnn : ∀ i, (kids.getD i Val.nil).isTNil = true → infosA.getD i Info.none = Info.none)
    (hR : RelL infosA infosB) (hself : labelsL selfA ⊆ labelsL selfB) (a b : Entry)
    (hc : coversEntry b a = true) :
    labelsL (entryTrees kids infosA selfA a) ⊆ labelsL (entryTrees kids infosB selfB b) := by
  unfold coversEntry at hc
  unfold entryTrees
  by_cases hca : evalConds kids a.conds = true
  case neg => simp [hca, labelsL]
  simp only [hca, ite_true]
  cases hat : a.tgt with
  | unknown => simp [hat] at hc
  | selfItems =>
    simp only [hat, Bool.and_eq_true, beq_iff_eq, List.isEmpty_iff] at hc
    simp only [hc.1, hc.2, evalConds, List.all_nil, ite_true]
    exact hself
  | field i =>
    simp only [hat, Bool.and_eq_true, beq_iff_eq] at hc
    simp only [hc.1]
    rcases hinf i with hnone | hset
    · rw [hnone]; split <;> simp [labelsL, Info.none, Tree.labels]
    · rw [evalConds_own kids b.conds i hc.2 hset]
      simp only [ite_true]
      by_cases ht : (kids.getD i Val.nil).isTNil = true
      · rw [hnn i ht]; split <;> simp [labelsL, Info.none, Tree.labels]
      · have ht' := Bool.eq_false_iff.2 ht
        have hbn : (b.nn && (!(kids.getD i Val.nil).isSet || (kids.getD i Val.nil).isTNil)) = false := by
          rw [hset, ht']; cases b.nn <;> rfl
        simp only [hbn, Bool.false_eq_true, ite_false]
        split
        · simp [labelsL]
        · simpa [labelsL] using (hR i).1
  | elems i =>
    simp only [hat, Bool.and_eq_true, beq_iff_eq] at hc
    simp only [hc.1]
    rcases hinf i with hnone | hset
    · rw [hnone]; simp [labelsL, Info.none]
    · rw [evalConds_own kids b.conds i hc.2 hset]
      exact (hR i).2.1
  | mapItems i =>
    simp only [hat, Bool.and_eq_true, Bool.or_eq_true, beq_iff_eq] at hc
    dsimp only
    rcases hinf i with hnone | hset
    · rw [hnone]; simp [labelsL, Info.none]
    · rw [evalConds_own kids b.conds i hc.2 hset]
      simp only [ite_true]
      rcases hc.1 with hb | hb
      · simp only [hb]; exact (hR i).2.2.1
      · simp only [hb]
        by_cases ht : (kids.getD i Val.nil).isTNil = true
        · rw [hnn i ht]; simp [labelsL, Info.none]
        · have ht' := Bool.eq_false_iff.2 ht
          have hbn : (b.nn && (!(kids.getD i Val.nil).isSet || (kids.getD i Val.nil).isTNil)) = false := by
            rw [hset, ht']; cases b.nn <;> rfl
          simp only [hbn, Bool.false_eq_true, ite_false]
          simpa [labelsL] using (hR i).2.2.2

theorem select_mem (kids : List Val) (infos : List Info) (self : List (Tree Lbl)) (es : List Entry) (e : Entry)
    (he : e ∈ es) : labelsL (entryTrees kids infos self e) ⊆ labelsL (selectTrees kids infos self es) := by
  induction es with
  | nil => cases he
  | cons x xs ih =>
    simp only [selectTrees, labelsL_append]
    rcases List.mem_cons.1 he with rfl | h
    · exact List.subset_append_left _ _
    · exact List.subset_append_of_subset_right _ (ih h)

theorem select_sub (kids : List Val) (infosA infosB : List Info) (selfA selfB : List (Tree Lbl))
    (hinf : ∀ i, infosA.getD i Info.none = Info.none ∨ (kids.getD i Val.nil).isSet = true)
    (hnn : ∀ i, (kids.getD i Val.nil).isTNil = true → infosA.getD i Info.none = Info.none)
    (hR : RelL infosA infosB) (hself : labelsL selfA ⊆ labelsL selfB) (ea eb : List Entry)
    (hc : ea.all (fun a => eb.any (fun b => coversEntry b a)) = true) :
    labelsL (selectTrees kids infosA selfA ea) ⊆ labelsL (selectTrees kids infosB selfB eb) := by
  induction ea with
  | nil => simp [selectTrees, labelsL]
  | cons a as ih =>
    simp only [List.all_cons, Bool.and_eq_true] at hc
    simp only [selectTrees, labelsL_append]
    apply List.append_subset.2
    constructor
    · obtain ⟨b, hb, hcb⟩ := List.any_eq_true.1 hc.1
      exact List.Subset.trans (entry_sub kids infosA infosB selfA selfB hinf hnn hR hself a b hcb)
        (select_mem kids infosB selfB eb b hb)
    · exact ih hc.2

theorem coversTab_get (A B : BranchTab) (h : coversTab A B = true) (ty : Nat) (ea : List Entry)
    (ha : A.getD ty none = some ea) :
    ∃ eb, B.getD ty none = some eb ∧ ea.all (fun a => eb.any (fun b => coversEntry b a)) = true := by
  have hlt : ty < A.length := by
    by_cases hlt : ty < A.length
    · exact hlt
    · rw [List.getD_eq_getElem?_getD, List.getElem?_eq_none (by omega)] at ha; cases ha
  have := (List.all_eq_true.1 h) ty (List.mem_range.2 hlt)
  simp only [ha] at this
  cases hb : B.getD ty none with
  | none => rw [List.getD_eq_getElem?_getD] at hb; simp [hb] at this
  | some eb => rw [hb] at this; exact ⟨eb, rfl, this⟩

theorem mkNode_sub (A B : BranchTab) (hAB : coversTab A B = true) (l : Lbl) (ty : Nat) (kids : List Val)
    (infosA infosB : List Info) (selfA selfB : List (Tree Lbl))
    (hinf : ∀ i, infosA.getD i Info.none = Info.none ∨ (kids.getD i Val.nil).isSet = true)
    (hnn : ∀ i, (kids.getD i Val.nil).isTNil = true → infosA.getD i Info.none = Info.none)
    (hR : RelL infosA infosB) (hself : labelsL selfA ⊆ labelsL selfB) :
    (mkNode A l ty kids infosA selfA).labels ⊆ (mkNode B l ty kids infosB selfB).labels := by
  unfold mkNode
  cases ha : A.getD ty none with
  | none => simp [Tree.labels]
  | some ea =>
    obtain ⟨eb, hb, hc⟩ := coversTab_get A B hAB ty ea ha
    simp only [hb, Tree.labels]
    exact List.cons_subset_cons _ (select_sub kids infosA infosB selfA selfB hinf hnn hR hself ea eb hc)

theorem infoK_unset (T : Tables) (tab : BranchTab) (sh : Shape) (p : List Nat) :
    ∀ (ks : List Val) (j i : Nat),
      (infoK T tab sh p j ks).getD i Info.none = Info.none ∨ (ks.getD i Val.nil).isSet = true
  | [], _, i => by left; simp [infoK]
  | k :: ks, j, 0 => by
    by_cases h : k.isSet = true
    · right; simpa using h
    · left; simpa [infoK] using info_unset T tab _ k (Or.inl (Bool.eq_false_iff.2 h))
  | k :: ks, j, i + 1 => by simpa [infoK] using infoK_unset T tab sh p ks (j + 1) i

theorem infoK_tnil (T : Tables) (tab : BranchTab) (sh : Shape) (p : List Nat) :
    ∀ (ks : List Val) (j i : Nat), (ks.getD i Val.nil).isTNil = true →
      (infoK T tab sh p j ks).getD i Info.none = Info.none
  | [], _, i, _ => by simp [infoK]
  | k :: ks, j, 0, h => by simpa [infoK] using info_unset T tab _ k (Or.inr (by simpa using h))
  | k :: ks, j, i + 1, h => by
    simpa [infoK] using infoK_tnil T tab sh p ks (j + 1) i (by simpa using h)

theorem pair_unset (T : Tables) (tab : BranchTab) (q r : List Nat) (key : String) (k : Val) (i : Nat) :
    [scalarInfo T q "string", info T tab r k].getD i Info.none = Info.none ∨
      ([Val.scalar "string" key, k].getD i Val.nil).isSet = true := by
  match i with
  | 0 => right; rfl
  | 1 =>
    by_cases h : k.isSet = true
    · right; simpa using h
    · left; simpa using info_unset T tab _ k (Or.inl (Bool.eq_false_iff.2 h))
  | i + 2 => left; simp

theorem pair_tnil (T : Tables) (tab : BranchTab) (q r : List Nat) (key : String) (k : Val) (i : Nat)
    (h : ([Val.scalar "string" key, k].getD i Val.nil).isTNil = true) :
    [scalarInfo T q "string", info T tab r k].getD i Info.none = Info.none := by
  match i with
  | 0 => simp [Val.isTNil] at h
  | 1 => simpa using info_unset T tab _ k (Or.inr (by simpa using h))
  | i + 2 => simp

theorem map_asNode_items (T : Tables) (B : BranchTab) (hME : mapsExpanded T B = true) (l : Lbl) (ty : Nat) (hshape : (T.decl ty).shape = .map) (its : List (Tree Lbl)) :
    labelsL its ⊆ (mkNode B l ty [] [] its).labels := by
  have hlt : ty < T.types.length := by
    by_cases hlt : ty < T.types.length
    · exact hlt
    · have : T.decl ty = TypeDecl.dflt := by
        unfold Tables.decl; rw [List.getD_eq_getElem?_getD, List.getElem?_eq_none (by omega)]; rfl
      rw [this] at hshape; cases hshape
  have := (List.all_eq_true.1 hME) ty (List.mem_range.2 hlt)
  simp only [hshape, bne_self_eq_false, Bool.false_or] at this
  unfold mkNode
  cases hb : B.getD ty none with
  | none => rw [hb] at this; cases this
  | some es =>
    rw [hb] at this
    obtain ⟨e, he, hte⟩ := List.any_eq_true.1 this
    simp only [Bool.and_eq_true, beq_iff_eq, List.isEmpty_iff] at hte
    simp only [Tree.labels]
    refine List.subset_cons_of_subset _ (List.Subset.trans ?_ (select_mem [] [] its es e he))
    simp [entryTrees, hte.1, hte.2, evalConds]

section Cover
variable (T : Tables) (A B : BranchTab) (hAB : coversTab A B = true) (hME : mapsExpanded T B = true)
include hAB hME

mutual
theorem info_sub : ∀ (v : Val) (p : List Nat), Rel (info T A p v) (info T B p v)
  | .scalar tn _, p => by simpa [info] using Rel_refl_scalar T p tn
  | .nil, p => by simpa [info] using Rel_none _
  | .tnil _, p => by simpa [info] using Rel_none _
  | .node sh a ty keys kids, p => by
    have ihK := infoK_sub kids sh p 0
    unfold info
    by_cases hs : ((T.decl ty).shape == sh) = true
    · simp only [hs, ite_true]
      cases sh with
      | obj =>
        refine ⟨?_, by simp [labelsL], by simp [labelsL], by simp [labelsL]⟩
        exact mkNode_sub A B hAB _ ty kids _ _ [] [] (infoK_unset T A .obj p kids 0) (infoK_tnil T A .obj p kids 0)
          ihK.1 (by simp [labelsL])
      | list =>
        refine ⟨?_, ihK.2.1, by simp [labelsL], by simp [labelsL]⟩
        exact mkNode_sub A B hAB _ ty [] [] [] [] [] (by intro i; left; simp) (by intro i h; simp)
          RelL_nil (by simp [labelsL])
      | map =>
        have hits := ihK.2.2 p 0 keys
        have hshape : (T.decl ty).shape = .map := by simpa using hs
        refine ⟨?_, by simp [labelsL], hits, ?_⟩
        · exact mkNode_sub A B hAB _ ty [] [] [] _ _ (by intro i; left; simp) (by intro i h; simp)
            RelL_nil hits
        · exact List.Subset.trans hits (map_asNode_items T B hME _ ty hshape _)
    · simp only [hs]
      exact Rel_none _
theorem infoK_sub : ∀ (ks : List Val) (sh : Shape) (p : List Nat) (j : Nat),
    RelL (infoK T A sh p j ks) (infoK T B sh p j ks) ∧
    labelsL ((infoK T A sh p j ks).map (·.asNode)) ⊆ labelsL ((infoK T B sh p j ks).map (·.asNode)) ∧
    ∀ (q : List Nat) (j' : Nat) (keys : List String),
      labelsL (itemTrees T A q j' keys ks (infoK T A sh p j ks)) ⊆
        labelsL (itemTrees T B q j' keys ks (infoK T B sh p j ks))
  | [], sh, p, j => by
    refine ⟨by simpa [infoK] using RelL_nil, by simp [infoK, labelsL], ?_⟩
    intro q j' keys
    cases keys <;> simp [itemTrees, labelsL]
  | k :: ks, sh, p, j => by
    have ih1 := info_sub k (kidPath sh p j)
    have ih2 := infoK_sub ks sh p (j + 1)
    refine ⟨by simpa [infoK] using RelL_cons ih1 ih2.1, ?_, ?_⟩
    · simp only [infoK, List.map_cons, labelsL]
      exact List.append_subset.2 ⟨List.subset_append_of_subset_left _ ih1.1,
        List.subset_append_of_subset_right _ ih2.2.1⟩
    · intro q j' keys
      cases keys with
      | nil => simp [itemTrees, labelsL]
      | cons key keys =>
        simp only [infoK, itemTrees, labelsL]
        refine List.append_subset.2 ⟨List.subset_append_of_subset_left _ ?_,
          List.subset_append_of_subset_right _ (ih2.2.2 q (j' + 1) keys)⟩
        exact mkNode_sub A B hAB _ _ _ _ _ [] [] (pair_unset T A _ _ key k) (pair_tnil T A _ _ key k)
          (RelL_cons (Rel_refl_scalar T _ _) (RelL_cons ih1 RelL_nil)) (by simp [labelsL])
end

/-- every node entered through constructor table `A` is entered through a covering table `B` -/
theorem treeOf_sub (v : Val) : (treeOf T A v).labels ⊆ (treeOf T B v).labels :=
  (info_sub T A B hAB hME v []).1

end Cover

end Dawgs.C11
