import Dawgs.Proofs.C01Cy
/-
C01 / S1 — assembly: what the client sees of the SQL result equals what the client sees of the Cypher result.
-/
namespace Dawgs.C01.Proofs
open Dawgs Dawgs.Sql

theorem kindNats_kindIdsOf (km : KindMap) : ∀ (ks : List String), kindNats (kindIdsOf km ks) = ks.filterMap km.id?
  | [] => rfl
  | k :: ks => by
    rw [kindIdsOf_cons, List.filterMap_cons]
    cases hk : km.id? k with
    | none => exact kindNats_kindIdsOf km ks
    | some i =>
      simp only [kindNats, kindNats_kindIdsOf km ks]
      rfl

mutual
theorem toR_jsonToC (g : Graph) (km : KindMap) : ∀ (j : Json), Cy.CVal.toR g km (Cy.jsonToC j) = Json.toR j
  | .null => by simp [Cy.jsonToC, Cy.CVal.toR, Json.toR]
  | .bool b => by simp [Cy.jsonToC, Cy.CVal.toR, Json.toR]
  | .num d => by simp [Cy.jsonToC, Cy.CVal.toR, Json.toR]
  | .str s => by simp [Cy.jsonToC, Cy.CVal.toR, Json.toR]
  | .arr xs => by simp [Cy.jsonToC, Cy.CVal.toR, Json.toR, toRList_jsonToC g km xs]
  | .obj kvs => by simp [Cy.jsonToC, Cy.CVal.toR, Json.toR, toRKvs_jsonToC g km kvs]
theorem toRList_jsonToC (g : Graph) (km : KindMap) : ∀ (xs : List Json), Cy.CVal.toRList g km (Cy.jsonListToC xs) = Json.toRList xs
  | [] => by simp [Cy.jsonListToC, Cy.CVal.toRList, Json.toRList]
  | x :: xs => by simp [Cy.jsonListToC, Cy.CVal.toRList, Json.toRList, toR_jsonToC g km x, toRList_jsonToC g km xs]
theorem toRKvs_jsonToC (g : Graph) (km : KindMap) : ∀ (kvs : List (String × Json)), Cy.CVal.toRKvs g km (Cy.jsonKvsToC kvs) = Json.toRKvs kvs
  | [] => by simp [Cy.jsonKvsToC, Cy.CVal.toRKvs, Json.toRKvs]
  | (k, v) :: rest => by simp [Cy.jsonKvsToC, Cy.CVal.toRKvs, Json.toRKvs, toR_jsonToC g km v, toRKvs_jsonToC g km rest]
end

/-- item values: the SQL value and the Cypher value of a RETURN item look the same to the client -/
theorem item_toR (km : KindMap) (g : Graph) (n : NodeRec) (hnode : g.node? n.id = some n) (it : S1.Item) :
    valToR (itemVal km n it) = Cy.CVal.toR g km (itemC n it) := by
  cases it with
  | node a =>
    simp only [itemVal, itemC, nodeVal, Cy.CVal.toR, Cy.nodeToR, hnode, valToR, rowToR, kindNats_kindIdsOf]
  | prop k a =>
    simp only [itemVal, itemC, propC]
    cases Json.lookup k n.props with
    | none => simp [valToR, Cy.CVal.toR]
    | some j => simp [valToR, toR_jsonToC]
  | id a => simp [itemVal, itemC, valToR, Cy.CVal.toR]

theorem valsToR_map (vs : List Val) : valsToR vs = vs.map valToR := by
  induction vs with
  | nil => simp [valsToR]
  | cons v vs ih => simp [valsToR, ih]

/-- what the client sees of an SQL result / of a Cypher result (column names are not compared) -/
def sqlRows (t : Table) : List (List RVal) := t.rows.map valsToR
def cyRows (g : Graph) (km : KindMap) (r : List String × List (List Cy.CVal)) : List (List RVal) :=
  r.2.map (fun row => row.map (Cy.CVal.toR g km))

theorem rows_agree (km : KindMap) (g : Graph) (s : S1.Query) (hn : ∀ n ∈ g.nodes, g.node? n.id = some n) (ns : List NodeRec)
    (hsub : ∀ n ∈ ns, n ∈ g.nodes) :
    (ns.map (fun n => s.items.map (itemVal km n))).map valsToR =
      (ns.map (fun n => s.items.map (itemC n))).map (fun row => row.map (Cy.CVal.toR g km)) := by
  simp only [List.map_map, Function.comp_def, valsToR_map]
  apply List.map_congr_left
  intro n hmem
  apply List.map_congr_left
  intro it _
  exact item_toR km g n (hn n (hsub n hmem)) it

theorem cutN_sub {α : Type} (skip limit : Option Nat) (xs : List α) : ∀ x ∈ cutN skip limit xs, x ∈ xs := by
  intro x hx
  unfold cutN at hx
  cases skip <;> cases limit <;> simp only at hx
  · exact hx
  · exact List.mem_of_mem_take hx
  · exact List.mem_of_mem_drop hx
  · exact List.mem_of_mem_drop (List.mem_of_mem_take hx)

theorem specNodes_sub (s : S1.Query) (g : Graph) : ∀ n ∈ specNodes s g, n ∈ g.nodes := by
  intro n hn
  unfold specNodes ordNodes at hn
  cases ho : s.order with
  | none => rw [ho] at hn; exact (List.mem_filter.mp hn).1
  | some o =>
    rw [ho] at hn
    have := cutN_sub _ _ _ n hn
    have := (sortBy_perm _ _).mem_iff.mp this
    exact (List.mem_filter.mp this).1

/-- STAGE S1, total form: on every well-formed graph the Cypher reference semantics yields a result, and the emitted SQL evaluated on
the encoded graph yields the same client-visible rows in the same order — or the SQL MODEL stops with `unmodelled` (`->>` of an
array / object property); it never ends in a run-time, type or name error -/
theorem s1_total (km : KindMap) (g : Graph) (hok : GraphOK km g) (s : S1.Query) (st : Stmt) (h : s.tr km = some st) :
    ∃ r, Cy.eval .none g s.toCy = .ok r ∧
      ((∃ t, Sql.eval (encode km g) st [] = .ok t ∧ sqlRows t = cyRows g km r) ∨
       (∃ w, Sql.eval (encode km g) st [] = .error (.unmodelled w))) := by
  have hwf : s.wf = true := by
    unfold S1.Query.tr at h
    cases hwf : s.wf with
    | true => rfl
    | false => simp [hwf] at h
  refine ⟨_, cy_side g hok.nodup s hwf, ?_⟩
  rcases sql_side km g hok s st h with hs | ⟨w, hs⟩
  · left
    refine ⟨_, hs, ?_⟩
    exact rows_agree km g s (find_of_nodup g.nodes hok.nodup) (specNodes s g) (specNodes_sub s g)
  · right; exact ⟨w, hs⟩

-- ------------------------------------------------------------------ the hypotheses are decidable

theorem lookup_mem_snd : ∀ (km : KindMap) (a : String) (i : Nat), km.lookup a = some i → i ∈ km.map (·.2)
  | [], _, _, h => by cases h
  | (k, j) :: km, a, i, h => by
    rw [List.lookup_cons] at h
    cases hak : a == k with
    | true => rw [hak] at h; cases h; exact List.mem_cons_self ..
    | false => rw [hak] at h; exact List.mem_cons_of_mem _ (lookup_mem_snd km a i h)

theorem inj_of_nodup : ∀ (km : KindMap), (km.map (·.2)).Nodup → ∀ a b i, km.lookup a = some i → km.lookup b = some i → a = b
  | [], _, _, _, _, h, _ => by cases h
  | (k, j) :: km, hnd, a, b, i, ha, hb => by
    rw [List.map_cons, List.nodup_cons] at hnd
    rw [List.lookup_cons] at ha hb
    cases hak : a == k with
    | true =>
      rw [hak] at ha; cases ha
      cases hbk : b == k with
      | true => rw [eq_of_beq hak, eq_of_beq hbk]
      | false => rw [hbk] at hb; exact absurd (lookup_mem_snd km b _ hb) hnd.1
    | false =>
      rw [hak] at ha
      cases hbk : b == k with
      | true => rw [hbk] at hb; cases hb; exact absurd (lookup_mem_snd km a _ ha) hnd.1
      | false => rw [hbk] at hb; exact inj_of_nodup km hnd.2 a b i ha hb

theorem lookup_not_null : ∀ (props : List (String × Json)), props.all (fun p => !Json.isNull p.2) = true → ∀ k, Json.lookup k props ≠ some .null
  | [], _, k => by simp [Json.lookup]
  | (k', v) :: rest, h, k => by
    rw [List.all_cons, Bool.and_eq_true] at h
    unfold Json.lookup
    split
    · intro hh; cases hh; simp [C01.Json.isNull] at h
    · exact lookup_not_null rest h.2 k

theorem graphOKb_sound (km : KindMap) (g : Graph) (h : graphOKb km g = true) : GraphOK km g := by
  unfold graphOKb at h
  simp only [Bool.and_eq_true, decide_eq_true_eq] at h
  refine ⟨h.1.1, inj_of_nodup km h.1.2, ?_⟩
  intro n hn k
  exact lookup_not_null n.props (List.all_eq_true.mp h.2 n hn) k

end Dawgs.C01.Proofs
