/- Helper lemmas for C14: CSR builder — prefix sums, fill loop, slices, dense index invariant. -/
import Dawgs.Proofs.C14
set_option linter.unusedSimpArgs false
set_option linter.unusedVariables false
namespace Dawgs.C14

/-! ### prefix sums, fill loop and slices (pure list facts, valid for every builder state) -/

def lens (rows : List (List Nat)) : List Nat := rows.map List.length

theorem lens_nil : lens [] = [] := rfl
theorem lens_cons (r : List Nat) (rows : List (List Nat)) : lens (r :: rows) = r.length :: lens rows := rfl

theorem prefixSums_nil (acc : Nat) : prefixSums acc [] = [] := rfl
theorem prefixSums_cons (acc c : Nat) (cs : List Nat) :
    prefixSums acc (c :: cs) = (acc + c) :: prefixSums (acc + c) cs := rfl

theorem prefixSums_length (acc : Nat) (cs : List Nat) : (prefixSums acc cs).length = cs.length := by
  induction cs generalizing acc with
  | nil => rfl
  | cons c cs ih => rw [prefixSums_cons, List.length_cons, List.length_cons, ih]

theorem getLastD_prefix (acc : Nat) (rows : List (List Nat)) :
    (acc :: prefixSums acc (lens rows)).getLastD 0 = acc + rows.flatten.length := by
  induction rows generalizing acc with
  | nil => simp [lens_nil, prefixSums_nil]
  | cons r rows ih =>
    rw [lens_cons, prefixSums_cons]
    have := ih (acc + r.length)
    rw [List.getLastD_cons] at this ⊢
    rw [List.getLastD_cons]
    simp only [List.flatten_cons, List.length_append]
    omega

theorem writeAt_nil (arr : List Nat) (pos : Nat) : writeAt arr pos [] = arr := rfl
theorem writeAt_cons (arr : List Nat) (pos v : Nat) (vs : List Nat) :
    writeAt arr pos (v :: vs) = writeAt (arr.set pos v) (pos + 1) vs := rfl

/-- writing `vals` over a window of the same length replaces exactly that window -/
theorem writeAt_window (vals : List Nat) : ∀ (pre z post : List Nat), z.length = vals.length →
    writeAt (pre ++ z ++ post) pre.length vals = pre ++ vals ++ post := by
  induction vals with
  | nil => intro pre z post h; have : z = [] := List.length_eq_zero_iff.mp h; subst this; rfl
  | cons v vs ih =>
    intro pre z post h
    cases z with
    | nil => simp at h
    | cons a z' =>
      rw [writeAt_cons]
      have hset : (pre ++ a :: z' ++ post).set pre.length v = (pre ++ [v]) ++ z' ++ post := by
        rw [List.append_assoc, List.set_append_right _ _ (Nat.le_refl _)]
        simp
      rw [hset]
      have hl : pre.length + 1 = (pre ++ [v]).length := by simp
      rw [hl, ih (pre ++ [v]) z' post (by simpa using h)]
      simp

theorem fillRows_cons (arr : List Nat) (off : Nat) (offs : List Nat) (row : List Nat) (rows : List (List Nat)) :
    fillRows arr (off :: offs) (row :: rows) = fillRows (writeAt arr off row) offs rows := rfl
theorem fillRows_nil_rows (arr : List Nat) (offs : List Nat) : fillRows arr offs [] = arr := by
  cases offs <;> rfl

/-- the fill loop: writing row `i` at `offsets[i]` yields the concatenation of the rows -/
theorem fillRows_flatten (rows : List (List Nat)) : ∀ (acc : Nat) (pre z : List Nat),
    pre.length = acc → z.length = rows.flatten.length →
    fillRows (pre ++ z) (acc :: prefixSums acc (lens rows)) rows = pre ++ rows.flatten := by
  induction rows with
  | nil =>
    intro acc pre z hp hz
    have : z = [] := List.length_eq_zero_iff.mp (by simpa using hz)
    subst this
    rw [fillRows_nil_rows]; simp
  | cons r rows ih =>
    intro acc pre z hp hz
    rw [lens_cons, prefixSums_cons, fillRows_cons]
    simp only [List.flatten_cons, List.length_append] at hz
    have hsplit : z = z.take r.length ++ z.drop r.length := (List.take_append_drop _ _).symm
    have h1 : (z.take r.length).length = r.length := by rw [List.length_take]; omega
    have h2 : (z.drop r.length).length = rows.flatten.length := by rw [List.length_drop]; omega
    have hw : writeAt (pre ++ z) acc r = (pre ++ r) ++ z.drop r.length := by
      have := writeAt_window r pre (z.take r.length) (z.drop r.length) h1
      rw [hp] at this
      rw [List.append_assoc, ← hsplit] at this
      rw [this]
    rw [hw, ih (acc + r.length) (pre ++ r) (z.drop r.length) (by simp [hp]) h2]
    simp

theorem csrSlice_succ (a : Nat) (offs adj : List Nat) (i : Nat) :
    csrSlice (a :: offs) adj (i + 1) = csrSlice offs adj i := by
  unfold csrSlice
  simp [List.getD_cons_succ]

/-- slice `i` of the flat array is row `i` -/
theorem csrSlice_row (rows : List (List Nat)) : ∀ (acc i : Nat) (pre : List Nat), pre.length = acc → i < rows.length →
    csrSlice (acc :: prefixSums acc (lens rows)) (pre ++ rows.flatten) i = rows.getD i [] := by
  induction rows with
  | nil => intro acc i pre hp hi; simp at hi
  | cons r rows ih =>
    intro acc i pre hp hi
    rw [lens_cons, prefixSums_cons]
    cases i with
    | zero =>
      unfold csrSlice
      simp only [List.getD_cons_zero, List.getD_cons_succ, List.flatten_cons]
      rw [← hp, List.drop_left' rfl]
      have : pre.length + r.length - pre.length = r.length := by omega
      rw [this, List.take_left' rfl]
    | succ i =>
      rw [csrSlice_succ]
      have := ih (acc + r.length) i (pre ++ r) (by simp [hp]) (by simpa using hi)
      simp only [List.flatten_cons, List.getD_cons_succ]
      rw [← List.append_assoc]
      exact this

theorem offsets_mono (rows : List (List Nat)) : ∀ (acc i : Nat), i < rows.length →
    (acc :: prefixSums acc (lens rows)).getD i 0 ≤ (acc :: prefixSums acc (lens rows)).getD (i + 1) 0 := by
  induction rows with
  | nil => intro acc i hi; simp at hi
  | cons r rows ih =>
    intro acc i hi
    rw [lens_cons, prefixSums_cons]
    cases i with
    | zero => simp
    | succ i =>
      simp only [List.getD_cons_succ]
      exact ih (acc + r.length) i (by simpa using hi)

/-- everything `buildSide` computes, for any rows -/
theorem buildSide_spec (denseToId : List Nat) (tmp : NMap) :
    let n := denseToId.length
    let rows := (rowsOf tmp n).map (fun r => r.map (idOf denseToId))
    let side := buildSide denseToId tmp
    side.1.length = n + 1 ∧ side.1.getD 0 0 = 0 ∧ side.1.getLastD 0 = side.2.length ∧ side.2 = rows.flatten ∧
    (∀ i, i < n → side.1.getD i 0 ≤ side.1.getD (i + 1) 0) ∧
    (∀ i, i < n → csrSlice side.1 side.2 i = (mget tmp i).map (idOf denseToId)) := by
  intro n rows side
  have hrowsLen : rows.length = n := by simp [rows, rowsOf]
  have hlens : lens rows = (rowsOf tmp n).map List.length := by
    simp [lens, rows, List.map_map, Function.comp_def]
  have hoff : side.1 = 0 :: prefixSums 0 (lens rows) := by
    show (buildSide denseToId tmp).1 = _
    unfold buildSide
    simp only
    rw [hlens]
  have htotal : side.1.getLastD 0 = rows.flatten.length := by
    rw [hoff, getLastD_prefix]; omega
  have hadj : side.2 = rows.flatten := by
    show (buildSide denseToId tmp).2 = _
    unfold buildSide
    simp only
    have e1 : (0 :: prefixSums 0 ((rowsOf tmp denseToId.length).map List.length)) = 0 :: prefixSums 0 (lens rows) := by
      rw [hlens]
    rw [e1, getLastD_prefix]
    have := fillRows_flatten rows 0 [] (List.replicate (0 + rows.flatten.length) 0) rfl (by simp)
    simpa using this
  refine ⟨?_, ?_, ?_, hadj, ?_, ?_⟩
  · rw [hoff]; simp [prefixSums_length, lens, hrowsLen]
  · rw [hoff]; rfl
  · rw [htotal, hadj]
  · intro i hi
    rw [hoff]; exact offsets_mono rows 0 i (by omega)
  · intro i hi
    rw [hoff, hadj]
    have := csrSlice_row rows 0 i [] rfl (by omega)
    simp only [List.nil_append] at this
    rw [this]
    simp [rows, rowsOf, List.getD_eq_getElem?_getD, hi]

/-! ### dense index invariant of the builder -/

structure CsrB.Rel (b : CsrB) (g : G) : Prop where
  nodup : b.denseToId.Nodup
  idx : ∀ id i, ilookup b.idToDense id = some i ↔ b.denseToId[i]? = some id
  nodes : ∀ n, n ∈ b.denseToId ↔ n ∈ g.nodes
  out : ∀ i j, j ∈ mget b.outTmp i ↔ ∃ s t, b.denseToId[i]? = some s ∧ b.denseToId[j]? = some t ∧ HasEdge g.edges s t
  inn : ∀ i j, j ∈ mget b.inTmp i ↔ ∃ s t, b.denseToId[i]? = some s ∧ b.denseToId[j]? = some t ∧ HasEdge g.edges t s
  closed : g.Closed
  ascOut : ∀ i, Asc (mget b.outTmp i)
  ascIn : ∀ i, Asc (mget b.inTmp i)

theorem CsrB.rel_empty : CsrB.Rel {} {} where
  nodup := List.nodup_nil
  idx := by intro id i; simp [ilookup_nil]
  nodes := by intro n; simp
  out := by intro i j; simp [mget_nil]
  inn := by intro i j; simp [mget_nil]
  closed := by intro s t he; exact absurd he (hasEdge_nil s t)
  ascOut := by intro i; rw [mget_nil]; exact asc_nil
  ascIn := by intro i; rw [mget_nil]; exact asc_nil

theorem getElem?_append_single' {α : Type} (l : List α) (a b : α) (i : Nat) :
    (l ++ [a])[i]? = some b ↔ l[i]? = some b ∨ (i = l.length ∧ a = b) := by
  by_cases h : i < l.length
  · rw [List.getElem?_append_left h]
    constructor
    · intro h'; exact Or.inl h'
    · rintro (h' | ⟨h', _⟩)
      · exact h'
      · omega
  · have hge : l.length ≤ i := Nat.le_of_not_lt h
    rw [List.getElem?_append_right hge]
    have hnone : l[i]? = none := List.getElem?_eq_none hge
    rw [hnone]
    by_cases h0 : i = l.length
    · subst h0; simp
    · have : i - l.length ≠ 0 := by omega
      obtain ⟨k, hk⟩ := Nat.exists_eq_succ_of_ne_zero this
      rw [hk]; simp [h0]

theorem nodup_getElem?_inj {l : List Nat} (h : l.Nodup) {i j x : Nat} (hi : l[i]? = some x) (hj : l[j]? = some x) : i = j := by
  have hil : i < l.length := by
    rcases Nat.lt_or_ge i l.length with h' | h'
    · exact h'
    · rw [List.getElem?_eq_none h'] at hi; cases hi
  exact (List.getElem?_inj hil h).mp (by rw [hi, hj])

/-- `ensureNode id` keeps the invariant for the graph with `id` added as a node, and returns `id`'s index -/
theorem CsrB.ensure_rel {b : CsrB} {g : G} (r : b.Rel g) (id : Nat) :
    (b.ensureNode id).1.Rel { g with nodes := g.nodes ++ [id] } ∧
    (b.ensureNode id).1.denseToId[(b.ensureNode id).2]? = some id := by
  have hclosed : G.Closed { g with nodes := g.nodes ++ [id] } := by
    intro s t he
    have := r.closed s t he
    simp [this.1, this.2]
  unfold CsrB.ensureNode
  cases hl : ilookup b.idToDense id with
  | some i =>
    simp only
    have hi := (r.idx id i).mp hl
    have hmem : id ∈ b.denseToId := List.mem_of_getElem? hi
    refine ⟨{ nodup := r.nodup, idx := r.idx, nodes := ?_, out := r.out, inn := r.inn, closed := hclosed,
              ascOut := r.ascOut, ascIn := r.ascIn }, hi⟩
    intro n
    simp only [List.mem_append, List.mem_singleton]
    constructor
    · intro h; exact Or.inl ((r.nodes n).mp h)
    · rintro (h | h)
      · exact (r.nodes n).mpr h
      · subst h; exact hmem
  | none =>
    simp only
    have hnot : id ∉ b.denseToId := by
      intro hmem
      obtain ⟨i, hi⟩ := List.getElem?_of_mem hmem
      have := (r.idx id i).mpr hi
      rw [hl] at this; cases this
    have hnotG : id ∉ g.nodes := fun h => hnot ((r.nodes id).mpr h)
    have noEdgeL : ∀ t, ¬ HasEdge g.edges id t := fun t he => hnotG (r.closed id t he).1
    have noEdgeR : ∀ s, ¬ HasEdge g.edges s id := fun s he => hnotG (r.closed s id he).2
    refine ⟨{ nodup := ?_, idx := ?_, nodes := ?_, out := ?_, inn := ?_, closed := hclosed,
              ascOut := fun i => by rw [mget_append_empty]; exact r.ascOut i,
              ascIn := fun i => by rw [mget_append_empty]; exact r.ascIn i }, ?_⟩
    · rw [List.nodup_append]
      exact ⟨r.nodup, by simp, by intro a ha c hc; simp at hc; subst hc; intro e; subst e; exact hnot ha⟩
    · intro x i
      rw [ilookup_append, getElem?_append_single']
      cases hx : ilookup b.idToDense x with
      | some i' =>
        simp only [Option.some.injEq]
        have hi' := (r.idx x i').mp hx
        constructor
        · intro h; subst h; exact Or.inl hi'
        · rintro (h | ⟨h1, h2⟩)
          · have := (r.idx x i).mpr h; rw [hx] at this; cases this; rfl
          · subst h2; rw [hl] at hx; cases hx
      | none =>
        simp only
        constructor
        · intro h
          by_cases hid : id = x
          · rw [if_pos hid] at h; cases h; exact Or.inr ⟨rfl, hid⟩
          · rw [if_neg hid] at h; cases h
        · rintro (h | ⟨h1, h2⟩)
          · have := (r.idx x i).mpr h; rw [hx] at this; cases this
          · rw [if_pos h2, h1]
    · intro n
      simp only [List.mem_append, List.mem_singleton, r.nodes n]
    · intro i j
      rw [mget_append_empty, r.out i j]
      constructor
      · rintro ⟨s, t, hs, ht, he⟩
        exact ⟨s, t, (getElem?_append_single' _ _ _ _).mpr (Or.inl hs), (getElem?_append_single' _ _ _ _).mpr (Or.inl ht), he⟩
      · rintro ⟨s, t, hs, ht, he⟩
        rcases (getElem?_append_single' _ _ _ _).mp hs with hs | ⟨_, hs⟩
        · rcases (getElem?_append_single' _ _ _ _).mp ht with ht | ⟨_, ht⟩
          · exact ⟨s, t, hs, ht, he⟩
          · subst ht; exact absurd he (noEdgeR s)
        · subst hs; exact absurd he (noEdgeL t)
    · intro i j
      rw [mget_append_empty, r.inn i j]
      constructor
      · rintro ⟨s, t, hs, ht, he⟩
        exact ⟨s, t, (getElem?_append_single' _ _ _ _).mpr (Or.inl hs), (getElem?_append_single' _ _ _ _).mpr (Or.inl ht), he⟩
      · rintro ⟨s, t, hs, ht, he⟩
        rcases (getElem?_append_single' _ _ _ _).mp hs with hs | ⟨_, hs⟩
        · rcases (getElem?_append_single' _ _ _ _).mp ht with ht | ⟨_, ht⟩
          · exact ⟨s, t, hs, ht, he⟩
          · subst ht; exact absurd he (noEdgeL s)
        · subst hs; exact absurd he (noEdgeR t)
    · simp

/-- an index that denoted `x` still denotes `x` after `ensureNode` -/
theorem CsrB.ensure_mono (b : CsrB) (id : Nat) {i x : Nat} (h : b.denseToId[i]? = some x) :
    (b.ensureNode id).1.denseToId[i]? = some x := by
  unfold CsrB.ensureNode
  cases ilookup b.idToDense id with
  | some _ => exact h
  | none => exact (getElem?_append_single' _ _ _ _).mpr (Or.inl h)

theorem CsrB.rel_step {b : CsrB} {g : G} (r : b.Rel g) (o : Op) : (b.step o).Rel (g.step o) := by
  cases o with
  | node n => exact (CsrB.ensure_rel r n).1
  | edge id s e =>
    show (b.addEdge s e).Rel _
    rw [G.step_edge]
    obtain ⟨r1, hs⟩ := CsrB.ensure_rel r s
    obtain ⟨r2, he⟩ := CsrB.ensure_rel r1 e
    have hs2 := CsrB.ensure_mono (b.ensureNode s).1 e hs
    unfold CsrB.addEdge
    simp only
    generalize hb2 : ((b.ensureNode s).1.ensureNode e).1 = b2 at r2 he hs2
    generalize hsi : (b.ensureNode s).2 = si at hs hs2
    generalize hei : ((b.ensureNode s).1.ensureNode e).2 = ei at he
    have hnodes : ∀ n, n ∈ g.nodes ++ [s] ++ [e] ↔ n ∈ g.nodes ++ [s, e] := by intro n; simp
    refine { nodup := r2.nodup, idx := r2.idx, nodes := ?_, out := ?_, inn := ?_, closed := ?_,
             ascOut := fun i => by
               simp only [mget_madd]; split
               · exact asc_sinsert (r2.ascOut _)
               · exact r2.ascOut i,
             ascIn := fun i => by
               simp only [mget_madd]; split
               · exact asc_sinsert (r2.ascIn _)
               · exact r2.ascIn i }
    · intro n; rw [r2.nodes n]; exact hnodes n
    · intro i j
      simp only [mem_mget_madd, r2.out i j, hasEdge_append_single]
      constructor
      · rintro (⟨h1, h2⟩ | ⟨s', t', h1, h2, h3⟩)
        · subst h1; subst h2; exact ⟨s, e, hs2, he, Or.inr ⟨rfl, rfl⟩⟩
        · exact ⟨s', t', h1, h2, Or.inl h3⟩
      · rintro ⟨s', t', h1, h2, h3 | ⟨h3, h4⟩⟩
        · exact Or.inr ⟨s', t', h1, h2, h3⟩
        · subst h3; subst h4
          exact Or.inl ⟨nodup_getElem?_inj r2.nodup h1 hs2, nodup_getElem?_inj r2.nodup h2 he⟩
    · intro i j
      simp only [mem_mget_madd, r2.inn i j, hasEdge_append_single]
      constructor
      · rintro (⟨h1, h2⟩ | ⟨s', t', h1, h2, h3⟩)
        · subst h1; subst h2; exact ⟨e, s, he, hs2, Or.inr ⟨rfl, rfl⟩⟩
        · exact ⟨s', t', h1, h2, Or.inl h3⟩
      · rintro ⟨s', t', h1, h2, h3 | ⟨h3, h4⟩⟩
        · exact Or.inr ⟨s', t', h1, h2, h3⟩
        · subst h3; subst h4
          exact Or.inl ⟨nodup_getElem?_inj r2.nodup h1 he, nodup_getElem?_inj r2.nodup h2 hs2⟩
    · have := G.closed_step r.closed (.edge id s e)
      rw [G.step_edge] at this
      exact this

theorem CsrB.rel_ofOps (ops : List Op) : (CsrB.ofOps ops).Rel (G.ofOps ops) :=
  foldl_rel CsrB.Rel CsrB.step G.step (fun _ _ s r => CsrB.rel_step r s) ops {} {} CsrB.rel_empty

/-! ### adjacency queries of the built CSR -/

theorem idOf_of_get {l : List Nat} {i x : Nat} (h : l[i]? = some x) : idOf l i = x := by
  unfold idOf; rw [List.getD_eq_getElem?_getD, h]; rfl

theorem Csr.mem_adjacent_side {b : CsrB} {g : G} (r : b.Rel g) (tmp : NMap) (v y : Nat) (P : Nat → Nat → Prop)
    (htmp : ∀ i j, j ∈ mget tmp i ↔ ∃ s t, b.denseToId[i]? = some s ∧ b.denseToId[j]? = some t ∧ P s t)
    (hP : ∀ s t, P s t → s ∈ g.nodes ∧ t ∈ g.nodes) :
    (y ∈ (match ilookup b.idToDense v with
          | none => []
          | some idx => csrSlice (buildSide b.denseToId tmp).1 (buildSide b.denseToId tmp).2 idx)) ↔ P v y := by
  cases hl : ilookup b.idToDense v with
  | none =>
    simp only [List.not_mem_nil, false_iff]
    intro hp
    have hv : v ∈ b.denseToId := (r.nodes v).mpr (hP v y hp).1
    obtain ⟨i, hi⟩ := List.getElem?_of_mem hv
    have := (r.idx v i).mpr hi
    rw [hl] at this; cases this
  | some idx =>
    simp only
    have hidx := (r.idx v idx).mp hl
    have hlt : idx < b.denseToId.length := by
      rcases Nat.lt_or_ge idx b.denseToId.length with h | h
      · exact h
      · rw [List.getElem?_eq_none h] at hidx; cases hidx
    rw [(buildSide_spec b.denseToId tmp).2.2.2.2.2 idx hlt, List.mem_map]
    constructor
    · rintro ⟨j, hj, hy⟩
      obtain ⟨s, t, hs, ht, hp⟩ := (htmp idx j).mp hj
      rw [hidx] at hs; cases hs
      rw [idOf_of_get ht] at hy; subst hy
      exact hp
    · intro hp
      have hy : y ∈ b.denseToId := (r.nodes y).mpr (hP v y hp).2
      obtain ⟨j, hj⟩ := List.getElem?_of_mem hy
      exact ⟨j, (htmp idx j).mpr ⟨v, y, hidx, hj, hp⟩, idOf_of_get hj⟩

theorem Csr.adjacent_spec {b : CsrB} {g : G} (r : b.Rel g) (v y : Nat) (d : Dir) :
    y ∈ b.build.adjacent v d ↔ y ∈ g.adj v d := by
  have ho := Csr.mem_adjacent_side r b.outTmp v y (fun s t => HasEdge g.edges s t) r.out (fun s t h => r.closed s t h)
  have hi := Csr.mem_adjacent_side r b.inTmp v y (fun s t => HasEdge g.edges t s) r.inn
    (fun s t h => ⟨(r.closed t s h).2, (r.closed t s h).1⟩)
  rw [mem_adj]
  unfold Csr.adjacent CsrB.build
  simp only
  cases hl : ilookup b.idToDense v with
  | none =>
    rw [hl] at ho hi
    simp only [List.not_mem_nil, false_iff] at ho hi
    cases d <;> simp [AdjRel, ho, hi]
  | some idx =>
    rw [hl] at ho hi
    simp only at ho hi
    cases d
    · simpa [AdjRel] using ho
    · simpa [AdjRel] using hi
    · simp only [AdjRel, List.mem_append, ho, hi]

theorem Csr.nodes_build (b : CsrB) : b.build.nodes = b.denseToId := rfl
theorem Csr.numNodes_build (b : CsrB) : b.build.numNodes = b.denseToId.length := rfl

end Dawgs.C14
