/-
C06 helper lemmas: injectivity of generated names, association-list algebra under key maps,
commutation of every scope operation with an injective re-keying, and the reachability invariants.
Core Lean only.
-/
import Dawgs.Model.C06
namespace Dawgs.C06
set_option linter.unusedSectionVars false
set_option linter.unusedVariables false

/-! ### generated names: `render` is injective -/

def notDigit (c : Char) : Bool := !c.isDigit

theorem render_toList (c : Cls) (k : Nat) : (render c k).toList = c.pfx.toList ++ Nat.toDigits 10 k := by
  simp [render, String.toList_append, Nat.toString_eq_repr, Nat.toList_repr]

theorem pfx_notDigit (c : Cls) : ∀ a ∈ c.pfx.toList, notDigit a = true := by
  cases c <;> decide

theorem pfx_inj : ∀ c c' : Cls, c.pfx.toList = c'.pfx.toList → c = c' := by
  intro c c'; cases c <;> cases c' <;> decide

theorem takeWhile_pfx_digits (p d : List Char) (hp : ∀ a ∈ p, notDigit a = true)
    (hd : ∀ a ∈ d, a.isDigit = true) : (p ++ d).takeWhile notDigit = p := by
  rw [List.takeWhile_append_of_pos hp]
  cases d with
  | nil => simp
  | cons x xs =>
    have : notDigit x = false := by simp [notDigit, hd x (by simp)]
    simp [List.takeWhile, this]

theorem render_inj {c c' : Cls} {k k' : Nat} (h : render c k = render c' k') : c = c' ∧ k = k' := by
  have hl : c.pfx.toList ++ Nat.toDigits 10 k = c'.pfx.toList ++ Nat.toDigits 10 k' := by
    rw [← render_toList, ← render_toList, h]
  have hd : ∀ n a, a ∈ Nat.toDigits 10 n → a.isDigit = true :=
    fun n a ha => Nat.isDigit_of_mem_toDigits (by decide) (by decide) ha
  have h1 := congrArg (List.takeWhile notDigit) hl
  rw [takeWhile_pfx_digits _ _ (pfx_notDigit c) (hd k), takeWhile_pfx_digits _ _ (pfx_notDigit c') (hd k')] at h1
  have hc := pfx_inj c c' h1
  subst hc
  refine ⟨rfl, ?_⟩
  have h2 := List.append_cancel_left hl
  have := congrArg (fun l => Nat.ofDigitChars 10 l 0) h2
  simpa [Nat.ofDigitChars_ten_toDigits] using this

/-! ### association lists under a key map that is injective on the keys in play -/

def InjOn {K K' : Type} (f : K → K') (S : List K) : Prop := ∀ a ∈ S, ∀ b ∈ S, f a = f b → a = b

def mapK {K K' β : Type} (f : K → K') (l : List (K × β)) : List (K' × β) := l.map (fun p => (f p.1, p.2))
def mapV {α β γ : Type} (h : β → γ) (l : List (α × β)) : List (α × γ) := l.map (fun p => (p.1, h p.2))

def KeysIn {K β : Type} (S : List K) (l : List (K × β)) : Prop := ∀ p ∈ l, p.1 ∈ S

section assoc
variable {K K' β γ : Type} [DecidableEq K] [DecidableEq K']

@[simp] theorem mapK_nil (f : K → K') : mapK f ([] : List (K × β)) = [] := rfl
@[simp] theorem mapK_cons (f : K → K') (p : K × β) (t : List (K × β)) : mapK f (p :: t) = (f p.1, p.2) :: mapK f t := rfl
@[simp] theorem mapV_nil (h : β → γ) : mapV h ([] : List (K × β)) = [] := rfl
@[simp] theorem mapV_cons (h : β → γ) (p : K × β) (t : List (K × β)) : mapV h (p :: t) = (p.1, h p.2) :: mapV h t := rfl

theorem KeysIn.tail {S : List K} {p : K × β} {t : List (K × β)} (h : KeysIn S (p :: t)) : KeysIn S t :=
  fun q hq => h q (List.mem_cons_of_mem _ hq)
theorem KeysIn.head {S : List K} {p : K × β} {t : List (K × β)} (h : KeysIn S (p :: t)) : p.1 ∈ S :=
  h p (List.mem_cons_self ..)
theorem KeysIn.nil {S : List K} : KeysIn S ([] : List (K × β)) := fun _ h => nomatch h
theorem KeysIn.cons {S : List K} {p : K × β} {t : List (K × β)} (hp : p.1 ∈ S) (ht : KeysIn S t) : KeysIn S (p :: t) := by
  intro q hq
  cases hq with
  | head => exact hp
  | tail _ h => exact ht q h

theorem get_mapK {f : K → K'} {S : List K} (hinj : InjOn f S) {k : K} (hk : k ∈ S) :
    ∀ {l : List (K × β)}, KeysIn S l → Assoc.get (f k) (mapK f l) = Assoc.get k l
  | [], _ => rfl
  | p :: t, hl => by
    have ih := get_mapK hinj hk (hl.tail)
    by_cases h : p.1 = k
    · simp [Assoc.get, h]
    · have : f p.1 ≠ f k := fun e => h (hinj _ hl.head _ hk e)
      simp [Assoc.get, h, this, ih]

theorem erase_mapK {f : K → K'} {S : List K} (hinj : InjOn f S) {k : K} (hk : k ∈ S) :
    ∀ {l : List (K × β)}, KeysIn S l → Assoc.erase (f k) (mapK f l) = mapK f (Assoc.erase k l)
  | [], _ => rfl
  | p :: t, hl => by
    have ih := erase_mapK hinj hk (hl.tail)
    by_cases h : p.1 = k
    · simp [Assoc.erase, h, ih]
    · have : f p.1 ≠ f k := fun e => h (hinj _ hl.head _ hk e)
      simp [Assoc.erase, h, this, ih]

theorem erase_keysIn {S : List K} (k : K) : ∀ {l : List (K × β)}, KeysIn S l → KeysIn S (Assoc.erase k l)
  | [], _ => KeysIn.nil
  | p :: t, hl => by
    by_cases h : p.1 = k
    · simpa [Assoc.erase, h] using erase_keysIn k hl.tail
    · simpa [Assoc.erase, h] using KeysIn.cons hl.head (erase_keysIn k hl.tail)

theorem set_mapK {f : K → K'} {S : List K} (hinj : InjOn f S) {k : K} (hk : k ∈ S) (v : β)
    {l : List (K × β)} (hl : KeysIn S l) : Assoc.set (f k) v (mapK f l) = mapK f (Assoc.set k v l) := by
  simp [Assoc.set, erase_mapK hinj hk hl]

theorem set_keysIn {S : List K} {k : K} (hk : k ∈ S) (v : β) {l : List (K × β)} (hl : KeysIn S l) :
    KeysIn S (Assoc.set k v l) := KeysIn.cons hk (erase_keysIn k hl)

theorem find_val_mapK (f : K → K') (q : β → Bool) :
    ∀ l : List (K × β), (mapK f l).find? (fun e => q e.2) = (l.find? (fun e => q e.2)).map (fun e => (f e.1, e.2))
  | [] => rfl
  | p :: t => by
    by_cases h : q p.2
    · simp [List.find?, h]
    · simp [List.find?, h, find_val_mapK f q t]

theorem find_mem_keysIn {S : List K} {q : K × β → Bool} {l : List (K × β)} (hl : KeysIn S l) {e : K × β}
    (h : l.find? q = some e) : e.1 ∈ S := hl e (List.mem_of_find?_eq_some h)

/-! value maps -/

theorem get_mapV (h : β → γ) (k : K) : ∀ l : List (K × β), Assoc.get k (mapV h l) = (Assoc.get k l).map h
  | [] => rfl
  | p :: t => by
    by_cases e : p.1 = k
    · simp [Assoc.get, e]
    · simp [Assoc.get, e, get_mapV h k t]

theorem erase_mapV (h : β → γ) (k : K) : ∀ l : List (K × β), Assoc.erase k (mapV h l) = mapV h (Assoc.erase k l)
  | [] => rfl
  | p :: t => by
    by_cases e : p.1 = k
    · simp [Assoc.erase, e, erase_mapV h k t]
    · simp [Assoc.erase, e, erase_mapV h k t]

theorem set_mapV (h : β → γ) (k : K) (v : β) (l : List (K × β)) :
    Assoc.set k (h v) (mapV h l) = mapV h (Assoc.set k v l) := by
  simp [Assoc.set, erase_mapV]

theorem modify_mapV (h : β → γ) (g : β → β) (g' : γ → γ) (hg : ∀ b, g' (h b) = h (g b)) (k : K) :
    ∀ l : List (K × β), Assoc.modify k g' (mapV h l) = mapV h (Assoc.modify k g l)
  | [] => rfl
  | p :: t => by
    by_cases e : p.1 = k
    · simp [Assoc.modify, e, hg, modify_mapV h g g' hg k t]
    · simp [Assoc.modify, e, modify_mapV h g g' hg k t]

end assoc

/-! ### every scope primitive commutes with re-keying -/
section scope
variable {K K' : Type} [DecidableEq K] [DecidableEq K'] (f : K → K')

abbrev Scope.AKeysIn (S : List K) (s : Scope K) : Prop := KeysIn S s.aliases

theorem view_mapKeys (b : Binding K) : (b.mapKeys f).view = b.view := by
  cases b with | mk i d a p l => cases a <;> rfl

@[simp] theorem mapKeys_aliases (s : Scope K) : (s.mapKeys f).aliases = mapK f s.aliases := rfl
@[simp] theorem mapKeys_defs (s : Scope K) : (s.mapKeys f).defs = mapV (Binding.mapKeys f) s.defs := rfl
@[simp] theorem mapKeys_stack (s : Scope K) : (s.mapKeys f).stack = s.stack := rfl
@[simp] theorem mapKeys_gen (s : Scope K) : (s.mapKeys f).gen = s.gen := rfl
@[simp] theorem mapKeys_nextFrameID (s : Scope K) : (s.mapKeys f).nextFrameID = s.nextFrameID := rfl

theorem scope_ext {a b : Scope K} (h1 : a.nextFrameID = b.nextFrameID) (h2 : a.stack = b.stack) (h3 : a.gen = b.gen)
    (h4 : a.aliases = b.aliases) (h5 : a.defs = b.defs) : a = b := by
  cases a; cases b; simp_all

theorem define_mapKeys (s : Scope K) (id : Ident) (dt : DataType) :
    (s.mapKeys f).define id dt = ((s.define id dt).1.mapKeys f, (s.define id dt).2.mapKeys f) := by
  unfold Scope.define
  refine Prod.ext (scope_ext rfl rfl rfl rfl ?_) rfl
  exact set_mapV (Binding.mapKeys f) id { ident := id, dataType := dt } s.defs

theorem defineNew_mapKeys (s : Scope K) (dt : DataType) :
    (s.mapKeys f).defineNew dt = ((s.defineNew dt).1.mapKeys f, (s.defineNew dt).2.mapKeys f) := by
  unfold Scope.defineNew
  exact define_mapKeys f { s with gen := (s.gen.next dt).2 } (s.gen.next dt).1 dt

theorem lookup_mapKeys (s : Scope K) (id : Ident) :
    (s.mapKeys f).lookup id = (s.lookup id).map (Binding.mapKeys f) := by
  unfold Scope.lookup; exact get_mapV _ _ _

theorem aliasedLookup_mapKeys {S : List K} (hinj : InjOn f S) (s : Scope K) (hs : s.AKeysIn S) {k : K} (hk : k ∈ S) :
    (s.mapKeys f).aliasedLookup (f k) = (s.aliasedLookup k).map (Binding.mapKeys f) := by
  unfold Scope.aliasedLookup
  rw [mapKeys_aliases, get_mapK hinj hk hs]
  cases Assoc.get k s.aliases with
  | none => rfl
  | some id => exact lookup_mapKeys f s id

theorem alias_mapKeys {S : List K} (hinj : InjOn f S) (s : Scope K) (hs : s.AKeysIn S) {k : K} (hk : k ∈ S) (id : Ident) :
    (s.mapKeys f).alias (f k) id = (s.alias k id).mapKeys f := by
  unfold Scope.alias
  refine scope_ext rfl rfl rfl ?_ ?_
  · exact set_mapK hinj hk id hs
  · exact modify_mapV (Binding.mapKeys f) _ _ (fun b => rfl) id s.defs

theorem alias_keysIn {S : List K} (s : Scope K) (hs : s.AKeysIn S) {k : K} (hk : k ∈ S) (id : Ident) :
    (s.alias k id).AKeysIn S := set_keysIn hk id hs

theorem setParam_mapKeys (s : Scope K) (id : Ident) : (s.mapKeys f).setParam id = (s.setParam id).mapKeys f := by
  unfold Scope.setParam
  exact scope_ext rfl rfl rfl rfl (modify_mapV (Binding.mapKeys f) _ _ (fun b => rfl) id s.defs)

theorem materializedBy_mapKeys (s : Scope K) (id : Ident) (fid : Nat) :
    (s.mapKeys f).materializedBy id fid = (s.materializedBy id fid).mapKeys f := by
  unfold Scope.materializedBy
  exact scope_ext rfl rfl rfl rfl (modify_mapV (Binding.mapKeys f) _ _ (fun b => rfl) id s.defs)

theorem pruneAliasStep_mapK {S : List K} (hinj : InjOn f S) {l : List (K × Ident)} (hl : KeysIn S l)
    {acc : List (K × Ident)} (hacc : KeysIn S acc) (p : Ident) :
    pruneAliasStep (mapK f l) (mapK f acc) p = mapK f (pruneAliasStep l acc p) ∧ KeysIn S (pruneAliasStep l acc p) := by
  unfold pruneAliasStep
  rw [find_val_mapK f (fun v => decide (v = p)) l]
  cases hfe : l.find? (fun e => decide (e.2 = p)) with
  | none => exact ⟨rfl, hacc⟩
  | some e =>
    have he : e.1 ∈ S := find_mem_keysIn hl hfe
    exact ⟨set_mapK hinj he p hacc, set_keysIn he p hacc⟩

theorem pruneAliases_fold_mapK {S : List K} (hinj : InjOn f S) {l : List (K × Ident)} (hl : KeysIn S l) :
    ∀ (prot : List Ident) (acc : List (K × Ident)), KeysIn S acc →
      prot.foldl (pruneAliasStep (mapK f l)) (mapK f acc) = mapK f (prot.foldl (pruneAliasStep l) acc)
      ∧ KeysIn S (prot.foldl (pruneAliasStep l) acc)
  | [], acc, hacc => ⟨rfl, hacc⟩
  | p :: t, acc, hacc => by
    simp only [List.foldl_cons]
    have h := pruneAliasStep_mapK f hinj hl hacc p
    rw [h.1]
    exact pruneAliases_fold_mapK hinj hl t _ h.2

theorem pruneAliases_mapK {S : List K} (hinj : InjOn f S) (prot : List Ident) {l : List (K × Ident)} (hl : KeysIn S l) :
    pruneAliases prot (mapK f l) = mapK f (pruneAliases prot l) ∧ KeysIn S (pruneAliases prot l) :=
  pruneAliases_fold_mapK f hinj hl prot [] KeysIn.nil

theorem pruneDefStep_mapV {β γ : Type} (h : β → γ) (d : List (Ident × β)) (acc : Option (List (Ident × β))) (p : Ident) :
    pruneDefStep (mapV h d) (acc.map (mapV h)) p = (pruneDefStep d acc p).map (mapV h) := by
  unfold pruneDefStep
  rw [get_mapV]
  cases acc with
  | none => rfl
  | some a =>
    cases Assoc.get p d with
    | none => rfl
    | some b => simp [set_mapV]

theorem pruneDefs_fold_mapV {β γ : Type} (h : β → γ) (d : List (Ident × β)) :
    ∀ (prot : List Ident) (acc : Option (List (Ident × β))),
      prot.foldl (pruneDefStep (mapV h d)) (acc.map (mapV h)) = (prot.foldl (pruneDefStep d) acc).map (mapV h)
  | [], acc => rfl
  | p :: t, acc => by
    simp only [List.foldl_cons]
    rw [pruneDefStep_mapV]
    exact pruneDefs_fold_mapV h d t _

theorem pruneDefs_mapKeys (prot : List Ident) (d : List (Ident × Binding K)) :
    pruneDefs prot (mapV (Binding.mapKeys f) d) = (pruneDefs prot d).map (mapV (Binding.mapKeys f)) :=
  pruneDefs_fold_mapV (Binding.mapKeys f) d prot (some [])

@[simp] theorem defineNew_aliases (s : Scope K) (dt : DataType) : (s.defineNew dt).1.aliases = s.aliases := rfl
@[simp] theorem defineNew_stack (s : Scope K) (dt : DataType) : (s.defineNew dt).1.stack = s.stack := rfl

theorem defineAliased_mapKeys {S : List K} (hinj : InjOn f S) (s : Scope K) (hs : s.AKeysIn S) {k : K} (hk : k ∈ S) (dt : DataType) :
    (s.mapKeys f).defineAliased dt (f k) = ((s.defineAliased dt k).1.mapKeys f, (s.defineAliased dt k).2.mapKeys f)
    ∧ (s.defineAliased dt k).1.AKeysIn S := by
  unfold Scope.defineAliased
  have h := defineNew_mapKeys f s dt
  have hs1 : (s.defineNew dt).1.AKeysIn S := hs
  constructor
  · rw [h]
    refine Prod.ext ?_ rfl
    exact alias_mapKeys f hinj (s.defineNew dt).1 hs1 hk _
  · exact alias_keysIn (s.defineNew dt).1 hs1 hk _

theorem setCurrent_mapKeys (s : Scope K) (fr : Frame) : (s.mapKeys f).setCurrent fr = (s.setCurrent fr).mapKeys f := by
  unfold Scope.setCurrent
  cases hst : s.stack with
  | nil => simp [hst]
  | cons a t => simp [hst]; rfl

theorem setCurrent_aliases (s : Scope K) (fr : Frame) : (s.setCurrent fr).aliases = s.aliases := by
  unfold Scope.setCurrent; cases s.stack <;> rfl

theorem onFrame_mapKeys (s : Scope K) (g : Frame → Frame) :
    (s.mapKeys f).onFrame g = ((s.onFrame g).1.mapKeys f, (s.onFrame g).2) := by
  unfold Scope.onFrame Scope.currentFrame
  simp only [mapKeys_stack]
  cases s.stack.head? with
  | none => rfl
  | some fr => simp [setCurrent_mapKeys]

theorem onFrame_aliases (s : Scope K) (g : Frame → Frame) : (s.onFrame g).1.aliases = s.aliases := by
  unfold Scope.onFrame
  cases s.currentFrame with
  | none => rfl
  | some fr => exact setCurrent_aliases s _

theorem pushFrame_mapKeys (s : Scope K) :
    (s.mapKeys f).pushFrame = ((s.pushFrame).1.mapKeys f, (s.pushFrame).2) := by
  unfold Scope.pushFrame
  have h := defineNew_mapKeys f { s with nextFrameID := s.nextFrameID + 1 } "scope"
  have e : ({ s.mapKeys f with nextFrameID := (s.mapKeys f).nextFrameID + 1 } : Scope K')
      = ({ s with nextFrameID := s.nextFrameID + 1 } : Scope K).mapKeys f := rfl
  simp only [e, h]
  rfl

theorem pushFrame_aliases (s : Scope K) : (s.pushFrame).1.aliases = s.aliases := rfl

theorem popFrame_mapKeys (s : Scope K) : (s.mapKeys f).popFrame = ((s.popFrame).1.mapKeys f, (s.popFrame).2) := by
  unfold Scope.popFrame
  cases hst : s.stack with
  | nil => simp [hst]
  | cons a t => simp [hst]; rfl

theorem popFrame_aliases (s : Scope K) : (s.popFrame).1.aliases = s.aliases := by
  unfold Scope.popFrame; cases s.stack <;> rfl

theorem unwindToFrame_mapKeys (s : Scope K) (fid : Nat) :
    (s.mapKeys f).unwindToFrame fid = ((s.unwindToFrame fid).1.mapKeys f, (s.unwindToFrame fid).2) := by
  unfold Scope.unwindToFrame
  simp only [mapKeys_stack]
  cases unwindStack fid s.stack with
  | none => rfl
  | some st => rfl

theorem unwindToFrame_aliases (s : Scope K) (fid : Nat) : (s.unwindToFrame fid).1.aliases = s.aliases := by
  unfold Scope.unwindToFrame; cases unwindStack fid s.stack <;> rfl

theorem prune_mapKeys {S : List K} (hinj : InjOn f S) (s : Scope K) (hs : s.AKeysIn S) (prot : List Ident) :
    (s.mapKeys f).prune prot = ((s.prune prot).1.mapKeys f, (s.prune prot).2) ∧ (s.prune prot).1.AKeysIn S := by
  unfold Scope.prune
  rw [mapKeys_defs, pruneDefs_mapKeys]
  cases pruneDefs prot s.defs with
  | none => exact ⟨rfl, hs⟩
  | some d =>
    have hp := pruneAliases_mapK f hinj prot hs
    simp only [Option.map_some, Scope.currentFrame, mapKeys_stack, mapKeys_aliases]
    cases hst : s.stack with
    | nil =>
      simp only [List.head?_nil]
      refine ⟨Prod.ext (scope_ext rfl (by simp [hst]) rfl ?_ rfl) rfl, hp.2⟩
      exact hp.1
    | cons a t =>
      simp only [List.head?_cons, Scope.setCurrent, hst]
      refine ⟨Prod.ext (scope_ext rfl rfl rfl ?_ rfl) rfl, hp.2⟩
      exact hp.1

theorem lookupAll_mapKeys (s : Scope K) : ∀ ids : List Ident, lookupAll (s.mapKeys f) ids = lookupAll s ids
  | [] => rfl
  | id :: t => by
    unfold lookupAll
    rw [lookup_mapKeys, lookupAll_mapKeys s t]
    cases s.lookup id with
    | none => rfl
    | some b => cases lookupAll s t <;> simp [view_mapKeys]

/-- THE commutation theorem: on keys where `f` is injective, running an operation on the re-keyed scope is the
re-keyed result of running it on the original scope, and the RESULT (generated identifiers, lookup views,
errors) is literally the same. -/
theorem step_mapKeys {S : List K} (hinj : InjOn f S) (s : Scope K) (hs : s.AKeysIn S) (o : Op K)
    (ho : ∀ k ∈ o.keys, k ∈ S) :
    step (s.mapKeys f) (o.mapKeys f) = ((step s o).1.mapKeys f, (step s o).2) ∧ (step s o).1.AKeysIn S := by
  cases o with
  | defineNew dt =>
    simp only [step, Op.mapKeys, defineNew_mapKeys]
    exact ⟨by first | rfl | trivial, hs⟩
  | bindPattern k dt =>
    cases k with
    | none =>
      simp only [step, Op.mapKeys, Option.map_none, defineNew_mapKeys, view_mapKeys]
      exact ⟨by first | rfl | trivial, hs⟩
    | some k =>
      have hk : k ∈ S := ho k (by simp [Op.keys])
      simp only [step, Op.mapKeys, Option.map_some, aliasedLookup_mapKeys f hinj s hs hk]
      cases s.aliasedLookup k with
      | some b => simp only [Option.map_some, view_mapKeys]; exact ⟨by first | rfl | trivial, hs⟩
      | none =>
        have h := defineAliased_mapKeys f hinj s hs hk dt
        simp only [Option.map_none, h.1, view_mapKeys]
        exact ⟨by first | rfl | trivial, h.2⟩
  | bindPath k =>
    have hk : k ∈ S := ho k (by simp [Op.keys])
    have h := defineAliased_mapKeys f hinj s hs hk "pathcomposite"
    simp only [step, Op.mapKeys, h.1]
    exact ⟨by first | rfl | trivial, h.2⟩
  | useVariable k =>
    have hk : k ∈ S := ho k (by simp [Op.keys])
    simp only [step, Op.mapKeys, aliasedLookup_mapKeys f hinj s hs hk]
    cases s.aliasedLookup k with
    | some b => exact ⟨by first | rfl | trivial, hs⟩
    | none => exact ⟨by first | rfl | trivial, hs⟩
  | useParameter k =>
    cases k with
    | none =>
      simp only [step, Op.mapKeys, Option.map_none, defineNew_mapKeys, setParam_mapKeys]
      exact ⟨by first | rfl | trivial, hs⟩
    | some k =>
      have hk : k ∈ S := ho k (by simp [Op.keys])
      simp only [step, Op.mapKeys, Option.map_some, aliasedLookup_mapKeys f hinj s hs hk]
      cases s.aliasedLookup k with
      | some b => exact ⟨by first | rfl | trivial, hs⟩
      | none =>
        have h := defineAliased_mapKeys f hinj s hs hk "parameter_identifier"
        simp only [Option.map_none, h.1, setParam_mapKeys]
        exact ⟨by first | rfl | trivial, h.2⟩
  | unwindTarget k =>
    have hk : k ∈ S := ho k (by simp [Op.keys])
    simp only [step, Op.mapKeys, aliasedLookup_mapKeys f hinj s hs hk]
    cases s.aliasedLookup k with
    | some b => exact ⟨by first | rfl | trivial, hs⟩
    | none =>
      have h := defineAliased_mapKeys f hinj s hs hk ""
      simp only [Option.map_none, h.1]
      exact ⟨by first | rfl | trivial, h.2⟩
  | ensureAlias k dt =>
    have hk : k ∈ S := ho k (by simp [Op.keys])
    simp only [step, Op.mapKeys, aliasedLookup_mapKeys f hinj s hs hk]
    cases s.aliasedLookup k with
    | some b => exact ⟨by first | rfl | trivial, hs⟩
    | none =>
      have h := defineAliased_mapKeys f hinj s hs hk dt
      simp only [Option.map_none, h.1]
      exact ⟨by first | rfl | trivial, h.2⟩
  | withProject id k =>
    simp only [step, Op.mapKeys, lookup_mapKeys]
    cases s.lookup id with
    | none => exact ⟨by first | rfl | trivial, hs⟩
    | some b =>
      cases k with
      | none => exact ⟨by first | rfl | trivial, hs⟩
      | some k =>
        have hk : k ∈ S := ho k (by simp [Op.keys])
        have h := defineAliased_mapKeys f hinj s hs hk b.dataType
        simp only [Option.map_some, aliasedLookup_mapKeys f hinj s hs hk]
        cases s.aliasedLookup k with
        | none =>
          simp only [Option.map_none]
          show (((s.mapKeys f).defineAliased b.dataType (f k)).1, Res.ident ((s.mapKeys f).defineAliased b.dataType (f k)).2.ident) = _ ∧ _
          rw [h.1]; exact ⟨by first | rfl | trivial, h.2⟩
        | some ab =>
          simp only [Option.map_some]
          show (if ab.ident = b.ident then (s.mapKeys f, Res.ident ab.ident)
                else (((s.mapKeys f).defineAliased b.dataType (f k)).1, Res.ident ((s.mapKeys f).defineAliased b.dataType (f k)).2.ident)) = _ ∧ _
          by_cases e : ab.ident = b.ident
          · simp only [e, if_true]; exact ⟨by first | rfl | trivial, hs⟩
          · simp only [e, if_false]; rw [h.1]; exact ⟨by first | rfl | trivial, h.2⟩
  | quantifierBind k =>
    have hk : k ∈ S := ho k (by simp [Op.keys])
    have h := defineAliased_mapKeys f hinj s hs hk "anyarray"
    simp only [step, Op.mapKeys, h.1, aliasedLookup_mapKeys f hinj _ h.2 hk]
    refine ⟨Prod.ext rfl ?_, h.2⟩
    cases (s.defineAliased "anyarray" k).1.aliasedLookup k <;> simp [view_mapKeys]
  | aliasedLookup k =>
    have hk : k ∈ S := ho k (by simp [Op.keys])
    simp only [step, Op.mapKeys, aliasedLookup_mapKeys f hinj s hs hk]
    refine ⟨Prod.ext rfl ?_, hs⟩
    cases s.aliasedLookup k <;> simp [view_mapKeys]
  | lookup id =>
    simp only [step, Op.mapKeys, lookup_mapKeys]
    refine ⟨Prod.ext rfl ?_, hs⟩
    cases s.lookup id <;> simp [view_mapKeys]
  | lookupBindings ids =>
    simp only [step, Op.mapKeys, lookupAll_mapKeys]
    cases lookupAll s ids <;> exact ⟨by first | rfl | trivial, hs⟩
  | isMaterialized id =>
    simp only [step, Op.mapKeys, lookup_mapKeys]
    refine ⟨Prod.ext rfl ?_, hs⟩
    cases s.lookup id <;> rfl
  | materializedBy id fid =>
    simp only [step, Op.mapKeys, materializedBy_mapKeys]
    exact ⟨by first | rfl | trivial, hs⟩
  | pushFrame =>
    simp only [step, Op.mapKeys, pushFrame_mapKeys]
    exact ⟨by first | rfl | trivial, hs⟩
  | popFrame =>
    simp only [step, Op.mapKeys, popFrame_mapKeys]
    refine ⟨by first | rfl | trivial, ?_⟩
    show KeysIn S (s.popFrame).1.aliases
    rw [popFrame_aliases]; exact hs
  | unwindToFrame fid =>
    simp only [step, Op.mapKeys, unwindToFrame_mapKeys]
    refine ⟨by first | rfl | trivial, ?_⟩
    show KeysIn S (s.unwindToFrame fid).1.aliases
    rw [unwindToFrame_aliases]; exact hs
  | declare id =>
    simp only [step, Op.mapKeys, onFrame_mapKeys]
    refine ⟨by first | rfl | trivial, ?_⟩
    show KeysIn S (s.onFrame _).1.aliases
    rw [onFrame_aliases]; exact hs
  | export_ id =>
    simp only [step, Op.mapKeys, onFrame_mapKeys]
    refine ⟨by first | rfl | trivial, ?_⟩
    show KeysIn S (s.onFrame _).1.aliases
    rw [onFrame_aliases]; exact hs
  | unexport id =>
    simp only [step, Op.mapKeys, onFrame_mapKeys]
    refine ⟨by first | rfl | trivial, ?_⟩
    show KeysIn S (s.onFrame _).1.aliases
    rw [onFrame_aliases]; exact hs
  | stash id =>
    simp only [step, Op.mapKeys, onFrame_mapKeys]
    refine ⟨by first | rfl | trivial, ?_⟩
    show KeysIn S (s.onFrame _).1.aliases
    rw [onFrame_aliases]; exact hs
  | reveal id =>
    simp only [step, Op.mapKeys, onFrame_mapKeys]
    refine ⟨by first | rfl | trivial, ?_⟩
    show KeysIn S (s.onFrame _).1.aliases
    rw [onFrame_aliases]; exact hs
  | restoreStashed =>
    simp only [step, Op.mapKeys, onFrame_mapKeys]
    refine ⟨by first | rfl | trivial, ?_⟩
    show KeysIn S (s.onFrame _).1.aliases
    rw [onFrame_aliases]; exact hs
  | prune prot =>
    have h := prune_mapKeys f hinj s hs prot
    simp only [step, Op.mapKeys, h.1]
    exact ⟨by first | rfl | trivial, h.2⟩

theorem run_mapKeys {S : List K} (hinj : InjOn f S) :
    ∀ (p : List (Op K)) (s : Scope K), s.AKeysIn S → (∀ o ∈ p, ∀ k ∈ o.keys, k ∈ S) →
      run (s.mapKeys f) (p.map (Op.mapKeys f)) = ((run s p).1.mapKeys f, (run s p).2)
  | [], s, _, _ => rfl
  | o :: t, s, hs, hp => by
    have h := step_mapKeys f hinj s hs o (hp o (List.mem_cons_self ..))
    simp only [List.map_cons, run, h.1]
    rw [run_mapKeys hinj t (step s o).1 h.2 (fun o' ho' => hp o' (List.mem_cons_of_mem _ ho'))]

theorem results_mapKeys {S : List K} (hinj : InjOn f S) (p : List (Op K)) (hp : ∀ o ∈ p, ∀ k ∈ o.keys, k ∈ S) :
    results (p.map (Op.mapKeys f)) = results p := by
  unfold results
  have h := run_mapKeys f hinj p (Scope.new : Scope K) KeysIn.nil hp
  have e : ((Scope.new : Scope K).mapKeys f) = (Scope.new : Scope K') := rfl
  rw [e] at h
  rw [h]

end scope

/-! ### reachability invariants: generated names only, bounded by the counters, alias values injective -/
section inv
variable {K : Type} [DecidableEq K]

def IsGen (g : Gen) (id : Ident) : Prop := ∃ c k, id = render c k ∧ k < g.ctr c

/-- distinct alias keys never point at the same generated identifier -/
def ValInj {β : Type} (l : List (K × β)) : Prop := ∀ p ∈ l, ∀ q ∈ l, p.2 = q.2 → p.1 = q.1

structure Inv (s : Scope K) : Prop where
  defs_gen : ∀ p ∈ s.defs, IsGen s.gen p.1
  alias_gen : ∀ p ∈ s.aliases, IsGen s.gen p.2
  alias_inj : ValInj s.aliases

theorem IsGen.bump {g : Gen} {id : Ident} (h : IsGen g id) (c : Cls) : IsGen (g.bump c) id := by
  obtain ⟨c', k, e, hk⟩ := h
  refine ⟨c', k, e, ?_⟩
  unfold Gen.bump
  by_cases hc : c' = c
  · subst hc; simp; omega
  · simp [hc]; exact hk

theorem fresh_not_gen {g : Gen} {c : Cls} (h : IsGen g (render c (g.ctr c))) : False := by
  obtain ⟨c', k, e, hk⟩ := h
  obtain ⟨hc, hk'⟩ := render_inj e
  subst hc; omega

theorem isGen_fresh (g : Gen) (c : Cls) : IsGen (g.bump c) (render c (g.ctr c)) :=
  ⟨c, g.ctr c, rfl, by simp [Gen.bump]⟩

section memlemmas
variable {α β : Type} [DecidableEq α]

theorem mem_erase {k : α} : ∀ {l : List (α × β)} {p : α × β}, p ∈ Assoc.erase k l → p ∈ l
  | [], _, h => nomatch h
  | q :: t, p, h => by
    by_cases e : q.1 = k
    · simp [Assoc.erase, e] at h; exact List.mem_cons_of_mem _ (mem_erase h)
    · simp [Assoc.erase, e] at h
      cases h with
      | inl h => exact h ▸ List.mem_cons_self ..
      | inr h => exact List.mem_cons_of_mem _ (mem_erase h)

theorem mem_set {k : α} {v : β} {l : List (α × β)} {p : α × β} (h : p ∈ Assoc.set k v l) : p = (k, v) ∨ p ∈ l := by
  unfold Assoc.set at h
  cases h with
  | head => exact Or.inl rfl
  | tail _ h => exact Or.inr (mem_erase h)

theorem mem_modify_key {k : α} {g : β → β} : ∀ {l : List (α × β)} {p : α × β}, p ∈ Assoc.modify k g l → ∃ q ∈ l, p.1 = q.1
  | [], _, h => nomatch h
  | q :: t, p, h => by
    by_cases e : q.1 = k
    · simp [Assoc.modify, e] at h
      cases h with
      | inl h => exact ⟨q, List.mem_cons_self .., by rw [h]; exact e.symm⟩
      | inr h => obtain ⟨r, hr, er⟩ := mem_modify_key h; exact ⟨r, List.mem_cons_of_mem _ hr, er⟩
    · simp [Assoc.modify, e] at h
      cases h with
      | inl h => exact ⟨q, List.mem_cons_self .., by rw [h]⟩
      | inr h => obtain ⟨r, hr, er⟩ := mem_modify_key h; exact ⟨r, List.mem_cons_of_mem _ hr, er⟩

theorem get_mem {k : α} {v : β} : ∀ {l : List (α × β)}, Assoc.get k l = some v → (k, v) ∈ l
  | [], h => nomatch h
  | q :: t, h => by
    by_cases e : q.1 = k
    · simp [Assoc.get, e] at h
      have : q = (k, v) := by cases q; simp_all
      exact this ▸ List.mem_cons_self ..
    · simp [Assoc.get, e] at h; exact List.mem_cons_of_mem _ (get_mem h)

theorem get_none_not_mem {k : α} : ∀ {l : List (α × β)}, Assoc.get k l = none → ∀ p ∈ l, p.1 ≠ k
  | [], _, _, h => nomatch h
  | q :: t, h, p, hp => by
    by_cases e : q.1 = k
    · simp [Assoc.get, e] at h
    · simp [Assoc.get, e] at h
      cases hp with
      | head => exact e
      | tail _ hp => exact get_none_not_mem h p hp

end memlemmas

theorem pruneDefs_fold_mem {β : Type} (d : List (Ident × β)) :
    ∀ (prot : List Ident) (acc : Option (List (Ident × β))) (r : List (Ident × β)),
      (∀ a, acc = some a → ∀ p ∈ a, p ∈ d) → prot.foldl (pruneDefStep d) acc = some r → ∀ p ∈ r, p ∈ d
  | [], acc, r, hacc, h => hacc r h
  | x :: t, acc, r, hacc, h => by
    simp only [List.foldl_cons] at h
    refine pruneDefs_fold_mem d t (pruneDefStep d acc x) r ?_ h
    intro a ha p hp
    unfold pruneDefStep at ha
    cases acc with
    | none => simp at ha
    | some a0 =>
      cases hg : Assoc.get x d with
      | none => simp [hg] at ha
      | some b =>
        simp [hg] at ha
        subst ha
        cases mem_set hp with
        | inl e => exact e ▸ get_mem hg
        | inr e => exact hacc a0 rfl p e

theorem pruneDefs_mem {β : Type} {prot : List Ident} {d r : List (Ident × β)} (h : pruneDefs prot d = some r) :
    ∀ p ∈ r, p ∈ d :=
  pruneDefs_fold_mem d prot (some []) r (fun a ha p hp => by cases ha; exact nomatch hp) h

theorem pruneAliasStep_mem (l acc : List (K × Ident)) (x : Ident) (hacc : ∀ p ∈ acc, p ∈ l) :
    ∀ p ∈ pruneAliasStep l acc x, p ∈ l := by
  intro p hp
  unfold pruneAliasStep at hp
  cases hf : l.find? (fun e => decide (e.2 = x)) with
  | none => simp [hf] at hp; exact hacc p hp
  | some e =>
    simp [hf] at hp
    cases mem_set hp with
    | inl h =>
      have hm := List.mem_of_find?_eq_some hf
      have hx : e.2 = x := by simpa using List.find?_some hf
      have : p = e := by rw [h]; cases e; simp_all
      exact this ▸ hm
    | inr h => exact hacc p h

theorem pruneAliases_fold_mem (l : List (K × Ident)) :
    ∀ (prot : List Ident) (acc : List (K × Ident)), (∀ p ∈ acc, p ∈ l) → ∀ p ∈ prot.foldl (pruneAliasStep l) acc, p ∈ l
  | [], acc, hacc => hacc
  | x :: t, acc, hacc => by
    simp only [List.foldl_cons]
    exact pruneAliases_fold_mem l t _ (pruneAliasStep_mem l acc x hacc)

theorem pruneAliases_mem (prot : List Ident) (l : List (K × Ident)) : ∀ p ∈ pruneAliases prot l, p ∈ l :=
  pruneAliases_fold_mem l prot [] (fun _ h => nomatch h)

/-- keys of an association list built by `Assoc.set` stay pairwise distinct -/
def KeysNodup {β : Type} (l : List (K × β)) : Prop := (l.map (·.1)).Nodup

theorem erase_not_mem {β : Type} (k : K) : ∀ (l : List (K × β)), ∀ p ∈ Assoc.erase k l, p.1 ≠ k
  | [], _, h => nomatch h
  | q :: t, p, h => by
    by_cases e : q.1 = k
    · simp [Assoc.erase, e] at h; exact erase_not_mem k t p h
    · simp [Assoc.erase, e] at h
      cases h with
      | inl h => rw [h]; exact e
      | inr h => exact erase_not_mem k t p h

theorem erase_keysNodup {β : Type} (k : K) : ∀ (l : List (K × β)), KeysNodup l → KeysNodup (Assoc.erase k l)
  | [], h => h
  | q :: t, h => by
    unfold KeysNodup at h ⊢
    simp only [List.map_cons, List.nodup_cons] at h
    by_cases e : q.1 = k
    · simp [Assoc.erase, e]; exact erase_keysNodup k t h.2
    · simp only [Assoc.erase, e, if_false, List.map_cons, List.nodup_cons]
      refine ⟨?_, erase_keysNodup k t h.2⟩
      intro hm
      obtain ⟨r, hr, er⟩ := List.mem_map.1 hm
      exact h.1 (List.mem_map.2 ⟨r, mem_erase hr, er⟩)

theorem set_keysNodup {β : Type} (k : K) (v : β) (l : List (K × β)) (h : KeysNodup l) : KeysNodup (Assoc.set k v l) := by
  unfold KeysNodup Assoc.set
  simp only [List.map_cons, List.nodup_cons]
  refine ⟨?_, erase_keysNodup k l h⟩
  intro hm
  obtain ⟨r, hr, er⟩ := List.mem_map.1 hm
  exact erase_not_mem k l r hr er

theorem pruneAliases_fold_keysNodup (l : List (K × Ident)) :
    ∀ (prot : List Ident) (acc : List (K × Ident)), KeysNodup acc → KeysNodup (prot.foldl (pruneAliasStep l) acc)
  | [], acc, h => h
  | x :: t, acc, h => by
    simp only [List.foldl_cons]
    refine pruneAliases_fold_keysNodup l t _ ?_
    unfold pruneAliasStep
    cases l.find? (fun e => decide (e.2 = x)) with
    | none => exact h
    | some e => exact set_keysNodup _ _ _ h

theorem valInj_of_subset {l r : List (K × Ident)} (hl : ValInj l) (hr : ∀ p ∈ r, p ∈ l) : ValInj r :=
  fun p hp q hq e => hl p (hr p hp) q (hr q hq) e

/-! preservation -/

theorem Inv.new : Inv (Scope.new : Scope K) where
  defs_gen := fun _ h => (nomatch h)
  alias_gen := fun _ h => (nomatch h)
  alias_inj := fun _ h => (nomatch h)

theorem Inv.defineNew {s : Scope K} (h : Inv s) (dt : DataType) : Inv (s.defineNew dt).1 := by
  refine ⟨?_, ?_, h.alias_inj⟩
  · intro p hp
    have hp' : p ∈ Assoc.set (render (classOf dt) (s.gen.ctr (classOf dt))) _ s.defs := hp
    cases mem_set hp' with
    | inl e => rw [e]; exact isGen_fresh s.gen (classOf dt)
    | inr e => exact (h.defs_gen p e).bump _
  · intro p hp
    exact (h.alias_gen p hp).bump _

theorem defineNew_ident (s : Scope K) (dt : DataType) :
    (s.defineNew dt).2.ident = render (classOf dt) (s.gen.ctr (classOf dt)) := rfl

theorem defineNew_gen (s : Scope K) (dt : DataType) : (s.defineNew dt).1.gen = s.gen.bump (classOf dt) := rfl

theorem Inv.defineAliased {s : Scope K} (h : Inv s) (dt : DataType) (k : K) : Inv (s.defineAliased dt k).1 := by
  have h1 := h.defineNew dt
  have hfresh : ∀ p ∈ s.aliases, p.2 ≠ render (classOf dt) (s.gen.ctr (classOf dt)) := by
    intro p hp e
    exact fresh_not_gen (e ▸ h.alias_gen p hp)
  unfold Scope.defineAliased Scope.alias
  refine ⟨?_, ?_, ?_⟩
  · intro p hp
    obtain ⟨q, hq, e⟩ := mem_modify_key hp
    rw [e]; exact h1.defs_gen q hq
  · intro p hp
    cases mem_set hp with
    | inl e => rw [e]; exact isGen_fresh s.gen (classOf dt)
    | inr e => exact h1.alias_gen p e
  · intro p hp q hq e
    cases mem_set hp with
    | inl ep =>
      cases mem_set hq with
      | inl eq => rw [ep, eq]
      | inr eq => exact absurd (by rw [← e, ep]; rfl) (hfresh q eq)
    | inr ep =>
      cases mem_set hq with
      | inl eq => exact absurd (by rw [e, eq]; rfl) (hfresh p ep)
      | inr eq => exact h.alias_inj p ep q eq e

theorem Inv.of_eq {s s' : Scope K} (h : Inv s) (h1 : s'.gen = s.gen) (h2 : s'.defs = s.defs) (h3 : s'.aliases = s.aliases) : Inv s' :=
  ⟨by rw [h1, h2]; exact h.defs_gen, by rw [h1, h3]; exact h.alias_gen, by rw [h3]; exact h.alias_inj⟩

theorem Inv.modify {s : Scope K} (h : Inv s) (id : Ident) (g : Binding K → Binding K) :
    Inv { s with defs := Assoc.modify id g s.defs } :=
  ⟨fun p hp => by obtain ⟨q, hq, e⟩ := mem_modify_key hp; rw [e]; exact h.defs_gen q hq, h.alias_gen, h.alias_inj⟩

theorem setCurrent_inv {s : Scope K} (h : Inv s) (fr : Frame) : Inv (s.setCurrent fr) := by
  unfold Scope.setCurrent
  cases s.stack with
  | nil => exact h
  | cons a t => exact h.of_eq rfl rfl rfl

theorem Inv.prune {s : Scope K} (h : Inv s) (prot : List Ident) : Inv (s.prune prot).1 := by
  unfold Scope.prune
  cases hd : pruneDefs prot s.defs with
  | none => exact h
  | some d =>
    have h1 : Inv ({ s with defs := d, aliases := pruneAliases prot s.aliases } : Scope K) :=
      ⟨fun p hp => h.defs_gen p (pruneDefs_mem hd p hp),
       fun p hp => h.alias_gen p (pruneAliases_mem prot s.aliases p hp),
       valInj_of_subset h.alias_inj (pruneAliases_mem prot s.aliases)⟩
    simp only
    cases ({ s with defs := d, aliases := pruneAliases prot s.aliases } : Scope K).currentFrame with
    | none => exact h1
    | some fr => exact setCurrent_inv h1 _

theorem Inv.onFrame {s : Scope K} (h : Inv s) (g : Frame → Frame) : Inv (s.onFrame g).1 := by
  unfold Scope.onFrame
  cases s.currentFrame with
  | none => exact h
  | some fr => exact setCurrent_inv h _

theorem Inv.step {s : Scope K} (h : Inv s) (o : Op K) : Inv (step s o).1 := by
  cases o with
  | defineNew dt => exact h.defineNew dt
  | bindPattern k dt =>
    cases k with
    | none => exact h.defineNew dt
    | some k =>
      simp only [Dawgs.C06.step]
      cases s.aliasedLookup k with
      | some b => exact h
      | none => exact h.defineAliased dt k
  | bindPath k => exact h.defineAliased _ k
  | useVariable k =>
    simp only [Dawgs.C06.step]
    cases s.aliasedLookup k <;> exact h
  | useParameter k =>
    cases k with
    | none => exact (h.defineNew _).modify _ _
    | some k =>
      simp only [Dawgs.C06.step]
      cases s.aliasedLookup k with
      | some b => exact h
      | none => exact (h.defineAliased _ k).modify _ _
  | unwindTarget k =>
    simp only [Dawgs.C06.step]
    cases s.aliasedLookup k with
    | some b => exact h
    | none => exact h.defineAliased _ k
  | ensureAlias k dt =>
    simp only [Dawgs.C06.step]
    cases s.aliasedLookup k with
    | some b => exact h
    | none => exact h.defineAliased _ k
  | withProject id k =>
    simp only [Dawgs.C06.step]
    cases s.lookup id with
    | none => exact h
    | some b =>
      cases k with
      | none => exact h
      | some k =>
        simp only
        cases s.aliasedLookup k with
        | none => exact h.defineAliased _ k
        | some ab =>
          simp only
          by_cases e : ab.ident = b.ident
          · simp only [e, if_true]; exact h
          · simp only [e, if_false]; exact h.defineAliased _ k
  | quantifierBind k => exact h.defineAliased _ k
  | aliasedLookup k => exact h
  | lookup id => exact h
  | lookupBindings ids =>
    simp only [Dawgs.C06.step]
    cases lookupAll s ids <;> exact h
  | isMaterialized id => exact h
  | materializedBy id fid => exact h.modify _ _
  | pushFrame =>
    have h1 := Inv.defineNew (s := { s with nextFrameID := s.nextFrameID + 1 }) (h.of_eq rfl rfl rfl) "scope"
    exact h1.of_eq rfl rfl rfl
  | popFrame =>
    simp only [Dawgs.C06.step, Scope.popFrame]
    cases s.stack with
    | nil => exact h
    | cons a t => exact h.of_eq rfl rfl rfl
  | unwindToFrame fid =>
    simp only [Dawgs.C06.step, Scope.unwindToFrame]
    cases unwindStack fid s.stack with
    | none => exact h
    | some st => exact h.of_eq rfl rfl rfl
  | declare id => exact h.onFrame _
  | export_ id => exact h.onFrame _
  | unexport id => exact h.onFrame _
  | stash id => exact h.onFrame _
  | reveal id => exact h.onFrame _
  | restoreStashed => exact h.onFrame _
  | prune prot => exact h.prune prot

theorem Inv.run : ∀ (p : List (Op K)) {s : Scope K}, Inv s → Inv (run s p).1
  | [], _, h => h
  | o :: t, _, h => Inv.run t (h.step o)

end inv

end Dawgs.C06
