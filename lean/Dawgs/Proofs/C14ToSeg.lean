/- Helper lemmas for C14: the repaired `SerializedSegment.ToSegment` loop in index-free form and its closed forms. -/
import Dawgs.Spec.C14
set_option linter.unusedSimpArgs false
set_option linter.unusedVariables false
namespace Dawgs.C14

/-- the loop over (remaining nodes, remaining edges): the index only ever selects the head of `edges.drop i` -/
def toSegPairs : List Seg → List Nat → List Nat → List Seg
  | chain, [], _ => chain
  | [], _ :: _, _ => []
  | c :: rest, n :: ns, [] => toSegPairs (⟨n, c.edge⟩ :: rest) ns []
  | c :: rest, n :: ns, e :: es => toSegPairs (⟨0, e⟩ :: ⟨n, c.edge⟩ :: rest) ns es

theorem toSegLoop_nil (edges : List Nat) (chain : List Seg) (i : Nat) : toSegLoop edges chain i [] = chain := by
  cases chain <;> rfl
theorem toSegLoop_cons (edges : List Nat) (chain : List Seg) (i n : Nat) (ns : List Nat) :
    toSegLoop edges chain i (n :: ns) = toSegLoop edges (toSegStep edges chain i n) (i + 1) ns := rfl

theorem toSegStep_cons (edges : List Nat) (c : Seg) (rest : List Seg) (i n : Nat) :
    toSegStep edges (c :: rest) i n =
      if i < edges.length then ⟨0, edges.getD i 0⟩ :: ⟨n, c.edge⟩ :: rest else ⟨n, c.edge⟩ :: rest := rfl

theorem toSegPairs_nil_chain (ns es : List Nat) : toSegPairs [] ns es = [] := by
  cases ns <;> rfl

theorem toSegLoop_eq_pairs (edges : List Nat) : ∀ (ns : List Nat) (chain : List Seg) (i : Nat),
    toSegLoop edges chain i ns = toSegPairs chain ns (edges.drop i) := by
  intro ns
  induction ns with
  | nil => intro chain i; rw [toSegLoop_nil]; cases chain <;> rfl
  | cons n ns ih =>
    intro chain i
    rw [toSegLoop_cons, ih]
    cases chain with
    | nil => simp [toSegStep, toSegPairs_nil_chain]
    | cons c rest =>
      rw [toSegStep_cons]
      by_cases h : i < edges.length
      · rw [if_pos h]
        have hd : edges.drop i = edges.getD i 0 :: edges.drop (i + 1) := by
          rw [List.getD_eq_getElem?_getD, List.getElem?_eq_getElem h]
          simp
        rw [hd]; rfl
      · rw [if_neg h]
        have h1 : edges.drop i = [] := List.drop_eq_nil_of_le (Nat.le_of_not_lt h)
        have h2 : edges.drop (i + 1) = [] := List.drop_eq_nil_of_le (by omega)
        rw [h1, h2]; rfl

theorem toSegment_eq_pairs (nodes edges : List Nat) : toSegment nodes edges = toSegPairs [⟨0, 0⟩] nodes edges := by
  unfold toSegment
  rw [toSegLoop_eq_pairs]; simp

/-! closed forms -/

/-- nodes left, no edges left: every further node overwrites the cursor's `Node` -/
theorem toSegPairs_no_edges (c : Seg) (rest : List Seg) : ∀ (ns : List Nat) (n : Nat),
    toSegPairs (c :: rest) (n :: ns) [] = ⟨(n :: ns).getLast (List.cons_ne_nil n ns), c.edge⟩ :: rest := by
  intro ns
  induction ns generalizing c with
  | nil => intro n; rfl
  | cons m ns ih =>
    intro n
    show toSegPairs (⟨n, c.edge⟩ :: rest) (m :: ns) [] = _
    rw [ih ⟨n, c.edge⟩ m]
    simp

/-- root-first chain `s :: t` (the awaiting cursor carries `e`): nodes `(s :: t).map node`, edges `t.map edge` -/
theorem toSegPairs_chain : ∀ (t : List Seg) (s : Seg) (acc : List Seg) (e : Nat),
    toSegPairs (⟨0, e⟩ :: acc) ((s :: t).map (·.node)) (t.map (·.edge)) = t.reverse ++ ⟨s.node, e⟩ :: acc := by
  intro t
  induction t with
  | nil => intro s acc e; rfl
  | cons s' t ih =>
    intro s acc e
    show toSegPairs (⟨0, s'.edge⟩ :: ⟨s.node, e⟩ :: acc) ((s' :: t).map (·.node)) (t.map (·.edge)) = _
    rw [ih s' (⟨s.node, e⟩ :: acc) s'.edge]
    simp

/-- well-formed input: `|es| = |ns|` edges for `n :: ns` nodes -/
theorem toSegPairs_wf : ∀ (ns es : List Nat) (n e : Nat) (acc : List Seg), es.length = ns.length →
    toSegPairs (⟨0, e⟩ :: acc) (n :: ns) es = (List.zipWith Seg.mk ns es).reverse ++ ⟨n, e⟩ :: acc := by
  intro ns
  induction ns with
  | nil => intro es n e acc h; have : es = [] := List.length_eq_zero_iff.mp h; subst this; rfl
  | cons m ns ih =>
    intro es n e acc h
    cases es with
    | nil => simp at h
    | cons x es =>
      show toSegPairs (⟨0, x⟩ :: ⟨n, e⟩ :: acc) (m :: ns) es = _
      rw [ih es m x (⟨n, e⟩ :: acc) (by simpa using h)]
      simp

/-- a well-formed prefix, then whatever follows -/
theorem toSegPairs_append : ∀ (ns es : List Nat) (chain : List Seg) (moreN moreE : List Nat), es.length = ns.length →
    toSegPairs chain (ns ++ moreN) (es ++ moreE) = toSegPairs (toSegPairs chain ns es) moreN moreE := by
  intro ns
  induction ns with
  | nil =>
    intro es chain moreN moreE h
    have : es = [] := List.length_eq_zero_iff.mp h
    subst this
    cases chain <;> cases moreN <;> rfl
  | cons n ns ih =>
    intro es chain moreN moreE h
    cases es with
    | nil => simp at h
    | cons x es =>
      cases chain with
      | nil => simp [toSegPairs_nil_chain]
      | cons c rest =>
        show toSegPairs (⟨0, x⟩ :: ⟨n, c.edge⟩ :: rest) (ns ++ moreN) (es ++ moreE) = _
        rw [ih es _ moreN moreE (by simpa using h)]
        rfl

theorem zipWith_map_node : ∀ (ns es : List Nat), es.length = ns.length → (List.zipWith Seg.mk ns es).map (·.node) = ns := by
  intro ns
  induction ns with
  | nil => intro es _; rfl
  | cons n ns ih =>
    intro es h
    cases es with
    | nil => simp at h
    | cons e es => simp [ih es (by simpa using h)]

theorem zipWith_map_edge : ∀ (ns es : List Nat), es.length = ns.length → (List.zipWith Seg.mk ns es).map (·.edge) = es := by
  intro ns
  induction ns with
  | nil => intro es h; exact (List.length_eq_zero_iff.mp h).symm ▸ rfl
  | cons n ns ih =>
    intro es h
    cases es with
    | nil => simp at h
    | cons e es => simp [ih es (by simpa using h)]

/-- more edges than the well-formed count: the first surplus edge opens a dangling cursor (`Node` 0), the rest is ignored -/
theorem toSegPairs_excess : ∀ (ns es : List Nat) (n e : Nat) (acc : List Seg) (x : Nat) (extra : List Nat), es.length = ns.length →
    toSegPairs (⟨0, e⟩ :: acc) (n :: ns) (es ++ x :: extra) = ⟨0, x⟩ :: toSegPairs (⟨0, e⟩ :: acc) (n :: ns) es := by
  intro ns
  induction ns with
  | nil =>
    intro es n e acc x extra h
    have : es = [] := List.length_eq_zero_iff.mp h
    subst this
    cases extra <;> rfl
  | cons m ns ih =>
    intro es n e acc x extra h
    cases es with
    | nil => simp at h
    | cons y es =>
      show toSegPairs (⟨0, y⟩ :: ⟨n, e⟩ :: acc) (m :: ns) (es ++ x :: extra) = ⟨0, x⟩ :: toSegPairs (⟨0, y⟩ :: ⟨n, e⟩ :: acc) (m :: ns) es
      exact ih es m y _ x extra (by simpa using h)

/-- the cursor of a chain gets another node -/
def setHeadNode (v : Nat) : List Seg → List Seg
  | [] => []
  | c :: rest => ⟨v, c.edge⟩ :: rest

/-- fewer edges than the well-formed count: the surplus nodes overwrite the last cursor's `Node`; only the last one stays -/
theorem toSegPairs_missing : ∀ (ns es : List Nat) (n e : Nat) (acc : List Seg) (m : Nat) (ms : List Nat), es.length = ns.length →
    toSegPairs (⟨0, e⟩ :: acc) (n :: ns ++ m :: ms) es =
      setHeadNode ((m :: ms).getLast (List.cons_ne_nil m ms)) (toSegPairs (⟨0, e⟩ :: acc) (n :: ns) es) := by
  intro ns
  induction ns with
  | nil =>
    intro es n e acc m ms h
    have : es = [] := List.length_eq_zero_iff.mp h
    subst this
    show toSegPairs (⟨0, e⟩ :: acc) (n :: m :: ms) [] = setHeadNode _ (toSegPairs (⟨0, e⟩ :: acc) [n] [])
    rw [toSegPairs_no_edges, toSegPairs_no_edges]
    simp [setHeadNode]
  | cons k ns ih =>
    intro es n e acc m ms h
    cases es with
    | nil => simp at h
    | cons y es =>
      show toSegPairs (⟨0, y⟩ :: ⟨n, e⟩ :: acc) (k :: ns ++ m :: ms) es = setHeadNode _ (toSegPairs (⟨0, y⟩ :: ⟨n, e⟩ :: acc) (k :: ns) es)
      exact ih es k y _ m ms (by simpa using h)

end Dawgs.C14
