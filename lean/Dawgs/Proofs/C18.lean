/- Helper lemmas for C18 (property statements live in Props/C18.lean). -/
import Dawgs.Model.C18
set_option linter.unusedSimpArgs false
namespace Dawgs.C18

/-! ## Sorting by id -/

section SortSec
variable {α : Type} (key : α → Nat)

def StrictSorted (l : List α) : Prop := l.Pairwise (fun a b => key a < key b)

theorem sortBy_perm (xs : List α) : (sortBy key xs).Perm xs := List.mergeSort_perm _ _

theorem sortBy_length (xs : List α) : (sortBy key xs).length = xs.length := (sortBy_perm key xs).length_eq

theorem sortBy_pairwise_le (xs : List α) : (sortBy key xs).Pairwise (fun a b => key a ≤ key b) := by
  have h := List.pairwise_mergeSort (le := fun a b : α => decide (key a ≤ key b))
    (by intro a b c h1 h2; simp only [decide_eq_true_eq] at *; omega)
    (by intro a b; simp only [Bool.or_eq_true, decide_eq_true_eq]; omega) xs
  exact h.imp (by intro a b h; simpa using h)

theorem sortBy_strict (xs : List α) (hnd : (xs.map key).Nodup) : StrictSorted key (sortBy key xs) := by
  have hle := sortBy_pairwise_le key xs
  have hnd' : ((sortBy key xs).map key).Nodup := ((sortBy_perm key xs).map key).nodup_iff.mpr hnd
  have hne : (sortBy key xs).Pairwise (fun a b => key a ≠ key b) := by
    rw [List.Nodup, List.pairwise_map] at hnd'
    exact hnd'
  have := List.pairwise_and_iff.mpr ⟨hle, hne⟩
  exact this.imp (by intro a b h; omega)

end SortSec

/-! ## The keyset scan -/

section ScanSec
variable {α : Type} (key : α → Nat)

/-- cursor invariant: everything consumed is at or below the cursor, everything remaining is above it -/
def Cur (acc rest : List α) : Option Nat → Prop
  | none => acc = []
  | some a => (∀ x ∈ acc, key x ≤ a) ∧ (∀ y ∈ rest, a < key y)

theorem filter_after (acc rest : List α) (last : Option Nat) (h : Cur key acc rest last) :
    (acc ++ rest).filter (afterP key last) = rest := by
  cases last with
  | none =>
    have : acc = [] := h
    subst this
    simp [afterP]
  | some a =>
    obtain ⟨h1, h2⟩ := h
    rw [List.filter_append]
    have e1 : acc.filter (afterP key (some a)) = [] := by
      rw [List.filter_eq_nil_iff]; intro x hx
      have := h1 x hx
      simp only [afterP, decide_eq_true_eq]; omega
    have e2 : rest.filter (afterP key (some a)) = rest := by
      rw [List.filter_eq_self]; intro y hy
      have := h2 y hy
      simp only [afterP, decide_eq_true_eq]; omega
    rw [e1, e2]; rfl

theorem visit_take (r : Nat) : ∀ (acc rest : List α) (last : Option Nat),
    StrictSorted key (acc ++ rest) → Cur key acc rest last →
    ∃ last', visit key last (rest.take r) = some last' ∧ Cur key (acc ++ rest.take r) (rest.drop r) last' := by
  induction r with
  | zero => intro acc rest last _ hc; exact ⟨last, by simp [visit], by simpa using hc⟩
  | succ r ih =>
    intro acc rest last hs hc
    cases rest with
    | nil => exact ⟨last, by simp [visit], by simpa using hc⟩
    | cons x rest' =>
      have hs' : StrictSorted key ((acc ++ [x]) ++ rest') := by simpa [List.append_assoc] using hs
      have hp := List.pairwise_append.mp hs
      have hx : ∀ a ∈ acc, key a < key x := fun a ha => hp.2.2 a ha x (List.mem_cons_self)
      have hr : ∀ y ∈ rest', key x < key y := fun y hy => (List.pairwise_cons.mp hp.2.1).1 y hy
      have hc' : Cur key (acc ++ [x]) rest' (some (key x)) := by
        refine ⟨?_, hr⟩
        intro y hy
        rcases List.mem_append.mp hy with h | h
        · exact Nat.le_of_lt (hx y h)
        · simp at h; subst h; exact Nat.le_refl _
      obtain ⟨last', hv, hcur⟩ := ih (acc ++ [x]) rest' (some (key x)) hs' hc'
      refine ⟨last', ?_, ?_⟩
      · show visit key last (x :: rest'.take r) = some last'
        cases last with
        | none => simpa [visit] using hv
        | some l =>
          have hl : l < key x := hc.2 x (List.mem_cons_self)
          have : ¬ key x ≤ l := by omega
          simp only [visit, this, if_false]
          exact hv
      · simpa [List.append_assoc] using hcur

theorem take_length_append (acc rest : List α) : (acc ++ rest).take acc.length = acc := by
  simp

theorem scanLoop_spec (xs : List α) (total batch : Nat) (hb : 1 ≤ batch)
    (hs : StrictSorted key (sortBy key xs)) :
    ∀ (fuel : Nat) (acc rest : List α) (last : Option Nat),
      sortBy key xs = acc ++ rest → Cur key acc rest last → total - acc.length ≤ fuel → acc.length ≤ total →
      scanLoop key xs total batch fuel last acc.length acc =
        if total ≤ (sortBy key xs).length then .ok ((sortBy key xs).take total) else .error .shortRead := by
  intro fuel
  induction fuel with
  | zero =>
    intro acc rest last hS _ hf hle
    have he : acc.length = total := by omega
    have hlen : total ≤ (sortBy key xs).length := by rw [hS, List.length_append]; omega
    have : ¬ acc.length < total := by omega
    simp only [scanLoop, this, if_false, hlen, if_true]
    rw [hS, ← he, take_length_append]
  | succ fuel ih =>
    intro acc rest last hS hc hf hle
    by_cases hlt : acc.length < total
    · have hfetch : fetch key xs last (min (total - acc.length) batch) = rest.take (min (total - acc.length) batch) := by
        unfold fetch; rw [hS, filter_after key acc rest last hc]
      have hs' : StrictSorted key (acc ++ rest) := by rw [← hS]; exact hs
      obtain ⟨last', hv, hcur⟩ := visit_take key (min (total - acc.length) batch) acc rest last hs' hc
      simp only [scanLoop, hlt, if_true, hfetch, hv]
      by_cases hreq : min (total - acc.length) batch ≤ rest.length
      · have hgl : (rest.take (min (total - acc.length) batch)).length = min (total - acc.length) batch := by
          rw [List.length_take]; omega
        have hnot : ¬ ((rest.take (min (total - acc.length) batch)).length < min (total - acc.length) batch ∧
            acc.length + (rest.take (min (total - acc.length) batch)).length < total) := by omega
        simp only [hnot, if_false]
        have hlen' : acc.length + (rest.take (min (total - acc.length) batch)).length =
            (acc ++ rest.take (min (total - acc.length) batch)).length := by rw [List.length_append]
        rw [hlen']
        apply ih (acc ++ rest.take (min (total - acc.length) batch)) (rest.drop (min (total - acc.length) batch)) last'
        · rw [hS, List.append_assoc, List.take_append_drop]
        · exact hcur
        · rw [List.length_append, hgl]; omega
        · rw [List.length_append, hgl]; omega
      · have hgl : (rest.take (min (total - acc.length) batch)).length = rest.length := by
          rw [List.length_take]; omega
        have hyes : (rest.take (min (total - acc.length) batch)).length < min (total - acc.length) batch ∧
            acc.length + (rest.take (min (total - acc.length) batch)).length < total := by omega
        have hlen : ¬ total ≤ (sortBy key xs).length := by rw [hS, List.length_append]; omega
        simp only [hyes, and_self, if_true, hlen, if_false]
    · have he : acc.length = total := by omega
      have hlen : total ≤ (sortBy key xs).length := by rw [hS, List.length_append]; omega
      simp only [scanLoop, hlt, if_false, hlen, if_true]
      rw [hS, ← he, take_length_append]

theorem scan_spec (xs : List α) (total batch : Nat) (hb : 1 ≤ batch) (hnd : (xs.map key).Nodup) :
    scan key xs total batch =
      if total ≤ xs.length then .ok ((sortBy key xs).take total) else .error .shortRead := by
  have h := scanLoop_spec key xs total batch hb (sortBy_strict key xs hnd) total [] (sortBy key xs) none
    (by simp) rfl (by simp) (by simp)
  rw [sortBy_length] at h
  exact h

end ScanSec

/-! ## Shards -/

section ShardSec
variable {α : Type}

theorem shardLoop_nil (s : Nat) (cur : List α) :
    shardLoop s [] cur = if cur.isEmpty then [] else [cur] := rfl

theorem shardLoop_cons (s : Nat) (x : α) (xs cur : List α) :
    shardLoop s (x :: xs) cur =
      if s ≤ (cur ++ [x]).length then (cur ++ [x]) :: shardLoop s xs [] else shardLoop s xs (cur ++ [x]) := rfl

theorem shardLoop_flatten (s : Nat) : ∀ (xs cur : List α), (shardLoop s xs cur).flatten = cur ++ xs := by
  intro xs
  induction xs with
  | nil =>
    intro cur
    rw [shardLoop_nil]
    cases cur <;> simp
  | cons x xs ih =>
    intro cur
    rw [shardLoop_cons]
    split
    · simp [ih]
    · rw [ih]; simp

theorem shards_flatten (s : Nat) (xs : List α) : (shards s xs).flatten = xs := by
  simpa [shards] using shardLoop_flatten s xs []

theorem shardLoop_sizes (s : Nat) (hs : 1 ≤ s) : ∀ (xs cur : List α), cur.length < s →
    ∀ f ∈ shardLoop s xs cur, f ≠ [] ∧ f.length ≤ s := by
  intro xs
  induction xs with
  | nil =>
    intro cur hc f hf
    rw [shardLoop_nil] at hf
    cases cur with
    | nil => simp at hf
    | cons a t =>
      simp at hf; subst hf
      exact ⟨by simp, Nat.le_of_lt hc⟩
  | cons x xs ih =>
    intro cur hc f hf
    rw [shardLoop_cons] at hf
    split at hf
    · rcases List.mem_cons.mp hf with h | h
      · subst h
        refine ⟨by simp, ?_⟩
        simp only [List.length_append, List.length_cons, List.length_nil]; omega
      · exact ih [] (by simp; omega) f h
    · rename_i hnot
      exact ih (cur ++ [x]) (by omega) f hf

theorem shards_sizes (s : Nat) (hs : 1 ≤ s) (xs : List α) :
    ∀ f ∈ shards s xs, f ≠ [] ∧ f.length ≤ s :=
  shardLoop_sizes s hs xs [] (by simp; omega)

theorem shards_nil (s : Nat) : shards s ([] : List α) = [] := rfl

/-- filling the open fragment: the next `n` entities complete it exactly -/
theorem shardLoop_fill (s : Nat) : ∀ (n : Nat) (xs cur : List α), 0 < n → cur.length + n = s → n ≤ xs.length →
    shardLoop s xs cur = (cur ++ xs.take n) :: shardLoop s (xs.drop n) [] := by
  intro n
  induction n with
  | zero => intro _ _ h; omega
  | succ n ih =>
    intro xs cur _ hsum hlen
    cases xs with
    | nil => simp at hlen
    | cons x xs =>
      rw [shardLoop_cons]
      by_cases hn : n = 0
      · subst hn
        have : s ≤ (cur ++ [x]).length := by simp; omega
        simp only [this, if_true]
        simp
      · have : ¬ s ≤ (cur ++ [x]).length := by simp; omega
        simp only [this, if_false]
        rw [ih xs (cur ++ [x]) (by omega) (by simp; omega) (by simpa using hlen)]
        simp [List.append_assoc]

theorem shards_ge (s : Nat) (hs : 1 ≤ s) (xs : List α) (h : s ≤ xs.length) :
    shards s xs = xs.take s :: shards s (xs.drop s) := by
  have := shardLoop_fill s s xs [] (by omega) (by simp) h
  simpa [shards] using this

/-- an open fragment that never fills up is flushed once at the end -/
theorem shardLoop_short (s : Nat) : ∀ (xs cur : List α), cur.length + xs.length < s → cur ++ xs ≠ [] →
    shardLoop s xs cur = [cur ++ xs] := by
  intro xs
  induction xs with
  | nil =>
    intro cur _ hne
    rw [shardLoop_nil]
    cases cur with
    | nil => simp at hne
    | cons a t => simp
  | cons x xs ih =>
    intro cur hlen _
    rw [shardLoop_cons]
    have : ¬ s ≤ (cur ++ [x]).length := by simp at hlen ⊢; omega
    simp only [this, if_false]
    rw [ih (cur ++ [x]) (by simp at hlen ⊢; omega) (by simp)]
    simp [List.append_assoc]

theorem shards_lt (s : Nat) (xs : List α) (hne : xs ≠ []) (h : xs.length < s) : shards s xs = [xs] := by
  have := shardLoop_short s xs [] (by simpa using h) (by simpa using hne)
  simpa [shards] using this

/-- every fragment but the last is exactly `ShardSize` long -/
theorem shards_full_but_last (s : Nat) (hs : 1 ≤ s) : ∀ (n : Nat) (xs : List α), xs.length ≤ n →
    ∀ f ∈ (shards s xs).dropLast, f.length = s := by
  intro n
  induction n with
  | zero =>
    intro xs hn f hf
    have : xs = [] := List.length_eq_zero_iff.mp (by omega)
    subst this
    simp [shards_nil] at hf
  | succ n ih =>
    intro xs hn f hf
    by_cases hge : s ≤ xs.length
    · rw [shards_ge s hs xs hge] at hf
      cases hrest : shards s (xs.drop s) with
      | nil => rw [hrest] at hf; simp at hf
      | cons b t =>
        rw [hrest] at hf
        rw [List.dropLast_cons_cons] at hf
        rcases List.mem_cons.mp hf with h | h
        · subst h; rw [List.length_take]; omega
        · have hd : (xs.drop s).length ≤ n := by rw [List.length_drop]; omega
          exact ih (xs.drop s) hd f (by rw [hrest]; exact h)
    · by_cases hne : xs = []
      · subst hne; simp [shards_nil] at hf
      · rw [shards_lt s xs hne (by omega)] at hf
        simp at hf

/-- boundary case: a phase of exactly `k · ShardSize` entities gives exactly `k` full fragments
(no trailing empty fragment) -/
theorem shards_multiple (s : Nat) (hs : 1 ≤ s) : ∀ (k : Nat) (xs : List α), xs.length = k * s →
    (shards s xs).length = k ∧ ∀ f ∈ shards s xs, f.length = s := by
  intro k
  induction k with
  | zero =>
    intro xs h
    have : xs = [] := List.length_eq_zero_iff.mp (by simpa using h)
    subst this
    simp [shards_nil]
  | succ k ih =>
    intro xs h
    have hge : s ≤ xs.length := by rw [h, Nat.succ_mul]; omega
    rw [shards_ge s hs xs hge]
    have hd : (xs.drop s).length = k * s := by rw [List.length_drop, h, Nat.succ_mul]; omega
    obtain ⟨h1, h2⟩ := ih (xs.drop s) hd
    refine ⟨by simp [h1], ?_⟩
    intro f hf
    rcases List.mem_cons.mp hf with h' | h'
    · subst h'; rw [List.length_take]; omega
    · exact h2 f h'

end ShardSec

/-! ## Dump of a well-formed graph -/

section DumpSec
variable {P B D : Type}

/-- a database graph: distinct node ids, distinct relationship ids, every relationship endpoint is a
node of the same graph -/
structure WF (g : Graph P) : Prop where
  nodeIds : (g.nodes.map (fun n => n.id)).Nodup
  edgeIds : (g.edges.map (fun e => e.id)).Nodup
  endpoints : ∀ e ∈ g.edges, (∃ n ∈ g.nodes, n.id = e.src) ∧ (∃ n ∈ g.nodes, n.id = e.dst)

def sortedNodes (g : Graph P) : List (Node P) := sortBy (fun n : Node P => n.id) g.nodes
def sortedEdges (g : Graph P) : List (Edge P) := sortBy (fun e : Edge P => e.id) g.edges

theorem lookupKinds_isSome (nodes : List (Nat × List String)) (id : Nat) (h : ∃ p ∈ nodes, p.1 = id) :
    (lookupKinds nodes id).isSome = true := by
  obtain ⟨p, hp, rfl⟩ := h
  unfold lookupKinds
  rw [Option.isSome_map, List.find?_isSome]
  exact ⟨p, hp, by simp⟩

theorem metricsOf_isSome (nodes : List (Nat × List String)) (edges : List (Nat × Nat × String))
    (h : ∀ e ∈ edges, (∃ p ∈ nodes, p.1 = e.1) ∧ (∃ p ∈ nodes, p.1 = e.2.1)) :
    ∃ m, metricsOf nodes edges = some m := by
  unfold metricsOf
  have : edges.all (fun e => (lookupKinds nodes e.1).isSome && (lookupKinds nodes e.2.1).isSome) = true := by
    rw [List.all_eq_true]
    intro e he
    rw [Bool.and_eq_true]
    exact ⟨lookupKinds_isSome nodes e.1 (h e he).1, lookupKinds_isSome nodes e.2.1 (h e he).2⟩
  rw [if_pos this]
  exact ⟨_, rfl⟩

/-- the node/relationship streams the metrics builder of the dump sees -/
def dumpNodeObs (g : Graph P) : List (Nat × List String) := (sortedNodes g).map (fun n => (n.id, n.kinds))
def dumpEdgeObs (g : Graph P) : List (Nat × Nat × String) := (sortedEdges g).map (fun e => (e.src, e.dst, e.kind))

theorem dump_metrics_exist (g : Graph P) (hw : WF g) : ∃ m, metricsOf (dumpNodeObs g) (dumpEdgeObs g) = some m := by
  apply metricsOf_isSome
  intro e he
  obtain ⟨e', he', rfl⟩ := List.mem_map.mp he
  have hmem : e' ∈ g.edges := (sortBy_perm _ g.edges).mem_iff.mp he'
  obtain ⟨⟨n1, hn1, h1⟩, ⟨n2, hn2, h2⟩⟩ := hw.endpoints e' hmem
  have m1 : n1 ∈ sortedNodes g := (sortBy_perm _ g.nodes).mem_iff.mpr hn1
  have m2 : n2 ∈ sortedNodes g := (sortBy_perm _ g.nodes).mem_iff.mpr hn2
  exact ⟨⟨(n1.id, n1.kinds), List.mem_map.mpr ⟨n1, m1, rfl⟩, h1⟩, ⟨(n2.id, n2.kinds), List.mem_map.mpr ⟨n2, m2, rfl⟩, h2⟩⟩

theorem dumpGraph_ok (c : Codec P B D) (g : Graph P) (hw : WF g) (batch shard : Nat) (hb : 1 ≤ batch) :
    ∃ m, metricsOf (dumpNodeObs g) (dumpEdgeObs g) = some m ∧
      dumpGraph c g batch shard = .ok (assemble c g shard (sortedNodes g) (sortedEdges g) m) := by
  obtain ⟨m, hm⟩ := dump_metrics_exist g hw
  refine ⟨m, hm, ?_⟩
  have hn := scan_spec (fun n : Node P => n.id) g.nodes g.nodes.length batch hb hw.nodeIds
  have he := scan_spec (fun e : Edge P => e.id) g.edges g.edges.length batch hb hw.edgeIds
  rw [if_pos (Nat.le_refl _)] at hn he
  have tn : (sortBy (fun n : Node P => n.id) g.nodes).take g.nodes.length = sortedNodes g := by
    apply List.take_of_length_le; rw [sortBy_length]; exact Nat.le_refl _
  have te : (sortBy (fun e : Edge P => e.id) g.edges).take g.edges.length = sortedEdges g := by
    apply List.take_of_length_le; rw [sortBy_length]; exact Nat.le_refl _
  rw [tn] at hn; rw [te] at he
  unfold dumpGraph
  simp only [hn, he]
  have hm' : metricsOf ((sortedNodes g).map (fun n => (n.id, n.kinds))) ((sortedEdges g).map (fun e => (e.src, e.dst, e.kind))) = some m := hm
  simp only [hm']
  have l1 : (sortedNodes g).length = g.nodes.length := sortBy_length _ _
  have l2 : (sortedEdges g).length = g.edges.length := sortBy_length _ _
  have : ¬ ((sortedNodes g).length ≠ g.nodes.length ∨ (sortedEdges g).length ≠ g.edges.length) := by
    rw [l1, l2]; simp
  rw [if_neg this]

end DumpSec

/-! ## The manifest describes the files -/

section ManifestSec
variable {P B D : Type}

/-- one manifest entry describes one file: same path and phase, digest and byte size of the file's
bytes, and the count is the number of records the file decodes to -/
def DescribesFile (c : Codec P B D) (e : FileEntry D) (f : Path × B) : Prop :=
  e.path = f.1 ∧ e.phase = f.1.phase ∧ e.sha = c.digest f.2 ∧ e.bytes = c.size f.2 ∧
    ∃ content, c.dec f.2 = some content ∧ content.count = e.count ∧ content.phase = e.phase

/-- entry list and file list correspond one to one, in order -/
def Describes (c : Codec P B D) : List (FileEntry D) → List (Path × B) → Prop
  | [], [] => True
  | e :: es, f :: fs => DescribesFile c e f ∧ Describes c es fs
  | _, _ => False

theorem Describes.append (c : Codec P B D) : ∀ (e1 : List (FileEntry D)) (f1 : List (Path × B)) (e2 f2),
    Describes c e1 f1 → Describes c e2 f2 → Describes c (e1 ++ e2) (f1 ++ f2) := by
  intro e1
  induction e1 with
  | nil => intro f1 e2 f2 h1 h2; cases f1 with
    | nil => simpa using h2
    | cons _ _ => exact absurd h1 (by simp [Describes])
  | cons e es ih => intro f1 e2 f2 h1 h2; cases f1 with
    | nil => exact absurd h1 (by simp [Describes])
    | cons f fs => exact ⟨h1.1, ih fs e2 f2 h1.2 h2⟩

theorem writeFragments_describes (c : Codec P B D) (g : String) (ph : Phase) :
    ∀ (frs : List (Content P)) (k : Nat), (∀ x ∈ frs, x.phase = ph) →
      Describes c (entries c (writeFragments c g ph k frs) frs) (writeFragments c g ph k frs) := by
  intro frs
  induction frs with
  | nil => intro k _; simp [writeFragments, entries, Describes]
  | cons x xs ih =>
    intro k hph
    simp only [writeFragments, entries, Describes]
    refine ⟨⟨rfl, rfl, rfl, rfl, x, c.dec_enc x, rfl, ?_⟩, ih (k + 1) (fun y hy => hph y (List.mem_cons_of_mem _ hy))⟩
    exact hph x List.mem_cons_self

theorem writeFragments_paths (c : Codec P B D) (g : String) (ph : Phase) :
    ∀ (frs : List (Content P)) (k : Nat), ∀ f ∈ writeFragments c g ph k frs,
      f.1.graph = g ∧ f.1.phase = ph ∧ k ≤ f.1.shard := by
  intro frs
  induction frs with
  | nil => intro k f hf; simp [writeFragments] at hf
  | cons x xs ih =>
    intro k f hf
    simp only [writeFragments] at hf
    rcases List.mem_cons.mp hf with h | h
    · subst h; exact ⟨rfl, rfl, Nat.le_refl _⟩
    · obtain ⟨h1, h2, h3⟩ := ih (k + 1) f h
      exact ⟨h1, h2, by omega⟩

theorem writeFragments_nodup (c : Codec P B D) (g : String) (ph : Phase) :
    ∀ (frs : List (Content P)) (k : Nat), ((writeFragments c g ph k frs).map (fun f => f.1)).Nodup := by
  intro frs
  induction frs with
  | nil => intro k; simp [writeFragments]
  | cons x xs ih =>
    intro k
    simp only [writeFragments, List.map_cons, List.nodup_cons]
    refine ⟨?_, ih (k + 1)⟩
    intro hmem
    obtain ⟨f, hf, heq⟩ := List.mem_map.mp hmem
    have := (writeFragments_paths c g ph xs (k + 1) f hf).2.2
    rw [heq] at this
    have : k + 1 ≤ k := this
    omega

theorem writeFragments_length (c : Codec P B D) (g : String) (ph : Phase) :
    ∀ (frs : List (Content P)) (k : Nat), (writeFragments c g ph k frs).length = frs.length := by
  intro frs
  induction frs with
  | nil => intro k; rfl
  | cons x xs ih => intro k; simp [writeFragments, ih]

/-- sum of the per-file counts of one phase -/
def countSum : List (FileEntry D) → Nat
  | [] => 0
  | e :: es => e.count + countSum es

theorem countSum_append (a b : List (FileEntry D)) : countSum (a ++ b) = countSum a + countSum b := by
  induction a with
  | nil => simp [countSum]
  | cons e es ih => simp [countSum, ih, Nat.add_assoc]

theorem countSum_entries (c : Codec P B D) (g : String) (ph : Phase) :
    ∀ (frs : List (Content P)) (k : Nat),
      countSum (entries c (writeFragments c g ph k frs) frs) = (frs.map Content.count).sum := by
  intro frs
  induction frs with
  | nil => intro k; simp [writeFragments, entries, countSum]
  | cons x xs ih => intro k; simp [writeFragments, entries, countSum, entryOf, ih]

theorem shards_count_sum {α : Type} (s : Nat) (xs : List α) : ((shards s xs).map List.length).sum = xs.length := by
  have := congrArg List.length (shards_flatten s xs)
  rw [List.length_flatten] at this
  exact this

def nodeFiles (c : Codec P B D) (g : Graph P) (shard : Nat) (ns : List (Node P)) : List (Path × B) :=
  writeFragments c g.name .nodes 1 ((shards shard (ns.map Node.toRec)).map Content.nodes)
def edgeFiles (c : Codec P B D) (g : Graph P) (shard : Nat) (es : List (Edge P)) : List (Path × B) :=
  writeFragments c g.name .edges 1 ((shards shard (es.map Edge.toRec)).map Content.edges)

theorem assemble_files (c : Codec P B D) (g : Graph P) (shard : Nat) (ns es m) :
    (assemble c g shard ns es m).files = nodeFiles c g shard ns ++ edgeFiles c g shard es := rfl

theorem assemble_entries (c : Codec P B D) (g : Graph P) (shard : Nat) (ns es m) :
    (assemble c g shard ns es m).manifest.files =
      entries c (nodeFiles c g shard ns) ((shards shard (ns.map Node.toRec)).map Content.nodes) ++
      entries c (edgeFiles c g shard es) ((shards shard (es.map Edge.toRec)).map Content.edges) := rfl

theorem assemble_describes (c : Codec P B D) (g : Graph P) (shard : Nat) (ns es m) :
    Describes c (assemble c g shard ns es m).manifest.files (assemble c g shard ns es m).files := by
  rw [assemble_files, assemble_entries]
  apply Describes.append
  · exact writeFragments_describes c g.name .nodes _ 1 (by intro x hx; obtain ⟨_, _, rfl⟩ := List.mem_map.mp hx; rfl)
  · exact writeFragments_describes c g.name .edges _ 1 (by intro x hx; obtain ⟨_, _, rfl⟩ := List.mem_map.mp hx; rfl)

theorem assemble_paths_nodup (c : Codec P B D) (g : Graph P) (shard : Nat) (ns es m) :
    ((assemble c g shard ns es m).files.map (fun f => f.1)).Nodup := by
  rw [assemble_files, List.map_append, List.nodup_append]
  refine ⟨writeFragments_nodup c _ _ _ _, writeFragments_nodup c _ _ _ _, ?_⟩
  intro a ha b hb hab
  obtain ⟨f1, hf1, rfl⟩ := List.mem_map.mp ha
  obtain ⟨f2, hf2, rfl⟩ := List.mem_map.mp hb
  have p1 := (writeFragments_paths c _ _ _ _ f1 hf1).2.1
  have p2 := (writeFragments_paths c _ _ _ _ f2 hf2).2.1
  rw [hab] at p1
  rw [p1] at p2
  exact absurd p2 (by decide)

theorem node_count_sum (c : Codec P B D) (g : Graph P) (shard : Nat) (ns : List (Node P)) :
    countSum (entries c (nodeFiles c g shard ns) ((shards shard (ns.map Node.toRec)).map Content.nodes)) = ns.length := by
  unfold nodeFiles
  rw [countSum_entries, List.map_map]
  have : (Content.count ∘ Content.nodes (P := P)) = List.length := by funext l; rfl
  rw [this, shards_count_sum, List.length_map]

theorem edge_count_sum (c : Codec P B D) (g : Graph P) (shard : Nat) (es : List (Edge P)) :
    countSum (entries c (edgeFiles c g shard es) ((shards shard (es.map Edge.toRec)).map Content.edges)) = es.length := by
  unfold edgeFiles
  rw [countSum_entries, List.map_map]
  have : (Content.count ∘ Content.edges (P := P)) = List.length := by funext l; rfl
  rw [this, shards_count_sum, List.length_map]

end ManifestSec

/-! ## Load -/

section LoadSec
variable {P B D : Type}

theorem lookupFile_of_mem (dir : List (Path × B)) (hnd : (dir.map (fun f => f.1)).Nodup) (p : Path) (b : B)
    (h : (p, b) ∈ dir) : lookupFile dir p = some b := by
  induction dir with
  | nil => simp at h
  | cons f fs ih =>
    simp only [List.map_cons, List.nodup_cons] at hnd
    unfold lookupFile
    rcases List.mem_cons.mp h with h | h
    · subst h; simp
    · have hne : f.1 ≠ p := by
        intro heq
        apply hnd.1
        rw [heq]
        exact List.mem_map.mpr ⟨(p, b), h, rfl⟩
      have : (f.1 == p) = false := by simpa using hne
      rw [List.find?_cons, this]
      exact ih hnd.2 h

theorem readAll_append [DecidableEq D] (c : Codec P B D) (dir : List (Path × B)) (v : Bool) :
    ∀ (e1 e2 : List (FileEntry D)) (x1 x2 : List (Content P)),
      readAll c dir v e1 = .ok x1 → readAll c dir v e2 = .ok x2 → readAll c dir v (e1 ++ e2) = .ok (x1 ++ x2) := by
  intro e1
  induction e1 with
  | nil => intro e2 x1 x2 h1 h2; simp [readAll] at h1; subst h1; simpa using h2
  | cons e es ih =>
    intro e2 x1 x2 h1 h2
    simp only [readAll] at h1
    cases hr : readFragment c dir v e with
    | error err => rw [hr] at h1; simp at h1
    | ok x =>
      rw [hr] at h1
      cases hrest : readAll c dir v es with
      | error err => rw [hrest] at h1; simp at h1
      | ok xs =>
        rw [hrest] at h1
        simp at h1; subst h1
        simp only [List.cons_append, readAll, hr, ih e2 xs x2 hrest h2]

theorem readAll_entries [DecidableEq D] (c : Codec P B D) (dir : List (Path × B)) (v : Bool)
    (hnd : (dir.map (fun f => f.1)).Nodup) (g : String) (ph : Phase) :
    ∀ (frs : List (Content P)) (k : Nat), (∀ x ∈ frs, x.phase = ph) →
      (∀ f ∈ writeFragments c g ph k frs, f ∈ dir) →
      readAll c dir v (entries c (writeFragments c g ph k frs) frs) = .ok frs := by
  intro frs
  induction frs with
  | nil => intro k _ _; simp [writeFragments, entries, readAll]
  | cons x xs ih =>
    intro k hph hmem
    simp only [writeFragments, entries, readAll]
    have hin : ((⟨g, ph, k⟩ : Path), c.enc x) ∈ dir := hmem _ (by simp [writeFragments])
    have hl := lookupFile_of_mem dir hnd _ _ hin
    have hx : x.phase = ph := hph x List.mem_cons_self
    have hrf : readFragment c dir v (entryOf c (⟨g, ph, k⟩, c.enc x) x.count) = .ok x := by
      unfold readFragment
      simp only [entryOf, hl, c.dec_enc x]
      simp [hx]
    rw [hrf]
    rw [ih (k + 1) (fun y hy => hph y (List.mem_cons_of_mem _ hy))
      (fun f hf => hmem f (by simp only [writeFragments]; exact List.mem_cons_of_mem _ hf))]

theorem nodeRecs_mixed (L : List (List (NodeRec P))) (M : List (List (EdgeRec P))) :
    nodeRecs (L.map Content.nodes ++ M.map Content.edges) = L.flatten := by
  induction L with
  | nil =>
    induction M with
    | nil => rfl
    | cons m ms ih => simpa [nodeRecs] using ih
  | cons l ls ih => simp only [List.map_cons, List.cons_append, nodeRecs, List.flatten_cons]; rw [ih]

theorem edgeRecs_mixed (L : List (List (NodeRec P))) (M : List (List (EdgeRec P))) :
    edgeRecs (L.map Content.nodes ++ M.map Content.edges) = M.flatten := by
  induction L with
  | nil =>
    induction M with
    | nil => rfl
    | cons m ms ih => simp only [List.map_nil, List.nil_append] at ih ⊢; simp only [List.map_cons, edgeRecs, List.flatten_cons]; rw [ih]
  | cons l ls ih => simpa [edgeRecs] using ih

theorem readAll_assemble_in [DecidableEq D] (c : Codec P B D) (g : Graph P) (shard : Nat) (ns es m) (v : Bool)
    (dir : List (Path × B)) (hnd : (dir.map (fun f => f.1)).Nodup) (hsub : ∀ f ∈ (assemble c g shard ns es m).files, f ∈ dir) :
    readAll c dir v (assemble c g shard ns es m).manifest.files =
      .ok ((shards shard (ns.map Node.toRec)).map Content.nodes ++ (shards shard (es.map Edge.toRec)).map Content.edges) := by
  rw [assemble_entries]
  apply readAll_append
  · apply readAll_entries c _ v hnd g.name .nodes _ 1
    · intro x hx; obtain ⟨_, _, rfl⟩ := List.mem_map.mp hx; rfl
    · intro f hf; apply hsub; rw [assemble_files]; exact List.mem_append_left _ hf
  · apply readAll_entries c _ v hnd g.name .edges _ 1
    · intro x hx; obtain ⟨_, _, rfl⟩ := List.mem_map.mp hx; rfl
    · intro f hf; apply hsub; rw [assemble_files]; exact List.mem_append_right _ hf

theorem readAll_assemble [DecidableEq D] (c : Codec P B D) (g : Graph P) (shard : Nat) (ns es m) (v : Bool) :
    readAll c (assemble c g shard ns es m).files v (assemble c g shard ns es m).manifest.files =
      .ok ((shards shard (ns.map Node.toRec)).map Content.nodes ++ (shards shard (es.map Edge.toRec)).map Content.edges) :=
  readAll_assemble_in c g shard ns es m v _ (assemble_paths_nodup c g shard ns es m) (fun _ h => h)

/-! ### node creation -/

def newNodes (alloc : Nat → Nat) : Nat → List (NodeRec P) → List (Node P)
  | _, [] => []
  | k, r :: rs => ⟨alloc k, r.kinds, r.props⟩ :: newNodes alloc (k + 1) rs

def newMap (alloc : Nat → Nat) : Nat → List (NodeRec P) → IdMap
  | _, [] => []
  | k, r :: rs => (r.id, alloc k) :: newMap alloc (k + 1) rs

theorem resolve_append_none (m1 m2 : IdMap) (x : Nat) (h : m1.resolve x = none) :
    (m1 ++ m2).resolve x = m2.resolve x := by
  unfold IdMap.resolve at *
  rw [List.find?_append]
  cases hf : m1.find? (fun p => p.1 == x) with
  | none => simp
  | some p => rw [hf] at h; simp at h

theorem resolve_cons (a b : Nat) (m : IdMap) (x : Nat) :
    IdMap.resolve ((a, b) :: m) x = if a = x then some b else m.resolve x := by
  unfold IdMap.resolve
  rw [List.find?_cons]
  by_cases h : a = x
  · simp [h]
  · have : (a == x) = false := by simpa using h
    simp [this, h]

theorem createBatch_spec (alloc : Nat → Nat) : ∀ (rs : List (NodeRec P)) (d : Dst P) (m : IdMap),
    (∀ r ∈ rs, m.resolve r.id = none) → (rs.map (fun r => r.id)).Nodup →
    createBatch alloc rs d m =
      .ok ({ d with nodes := d.nodes ++ newNodes alloc d.nodeCtr rs, nodeCtr := d.nodeCtr + rs.length },
           m ++ newMap alloc d.nodeCtr rs) := by
  intro rs
  induction rs with
  | nil => intro d m _ _; simp [createBatch, newNodes, newMap]
  | cons r rs ih =>
    intro d m hfresh hnd
    simp only [List.map_cons, List.nodup_cons] at hnd
    have h0 : m.resolve r.id = none := hfresh r List.mem_cons_self
    simp only [createBatch, h0, Option.isSome_none, Bool.false_eq_true, if_false]
    rw [ih]
    · simp only [newNodes, newMap, List.length_cons]
      simp [List.append_assoc, Nat.add_assoc, Nat.add_comm 1]
    · intro r' hr'
      rw [resolve_append_none m _ _ (hfresh r' (List.mem_cons_of_mem _ hr'))]
      rw [resolve_cons]
      have : r.id ≠ r'.id := by
        intro heq; apply hnd.1; rw [heq]; exact List.mem_map.mpr ⟨r', hr', rfl⟩
      simp [this, IdMap.resolve]
    · exact hnd.2

theorem createBatch_append (alloc : Nat → Nat) : ∀ (a b : List (NodeRec P)) (d : Dst P) (m : IdMap),
    createBatch alloc (a ++ b) d m =
      match createBatch alloc a d m with
      | .error e => .error e
      | .ok (d', m') => createBatch alloc b d' m' := by
  intro a
  induction a with
  | nil => intro b d m; simp [createBatch]
  | cons r rs ih =>
    intro b d m
    simp only [List.cons_append, createBatch]
    split
    · rfl
    · rw [ih]

theorem createBatches_flatten (alloc : Nat → Nat) : ∀ (L : List (List (NodeRec P))) (d : Dst P) (m : IdMap),
    createBatches alloc L d m = createBatch alloc L.flatten d m := by
  intro L
  induction L with
  | nil => intro d m; simp [createBatches, createBatch]
  | cons b bs ih =>
    intro d m
    simp only [createBatches, List.flatten_cons, createBatch_append]
    cases createBatch alloc b d m with
    | error e => rfl
    | ok p => obtain ⟨d', m'⟩ := p; exact ih d' m'

/-! ### relationship creation -/

def newEdges (allocE : Nat → Nat) (φ : Nat → Nat) : Nat → List (EdgeRec P) → List (Edge P)
  | _, [] => []
  | k, r :: rs => ⟨allocE k, φ r.src, φ r.dst, r.kind, r.props⟩ :: newEdges allocE φ (k + 1) rs

/-- the node correspondence read off the id map -/
def phiOf (m : IdMap) (id : Nat) : Nat := (m.resolve id).getD 0

theorem createEdges_spec (allocE : Nat → Nat) (m : IdMap) : ∀ (rs : List (EdgeRec P)) (d : Dst P),
    (∀ r ∈ rs, (m.resolve r.src).isSome ∧ (m.resolve r.dst).isSome) →
    createEdges allocE m rs d =
      .ok { d with edges := d.edges ++ newEdges allocE (phiOf m) d.edgeCtr rs, edgeCtr := d.edgeCtr + rs.length } := by
  intro rs
  induction rs with
  | nil => intro d _; simp [createEdges, newEdges]
  | cons r rs ih =>
    intro d h
    obtain ⟨h1, h2⟩ := h r List.mem_cons_self
    obtain ⟨s, hs⟩ := Option.isSome_iff_exists.mp h1
    obtain ⟨t, ht⟩ := Option.isSome_iff_exists.mp h2
    simp only [createEdges, hs, ht]
    rw [ih _ (fun r' hr' => h r' (List.mem_cons_of_mem _ hr'))]
    simp only [newEdges, List.length_cons, phiOf, hs, ht, Option.getD_some]
    congr 1
    simp only [List.append_assoc, List.singleton_append, Nat.add_assoc, Nat.add_comm 1]

theorem newMap_resolve_mem (alloc : Nat → Nat) : ∀ (rs : List (NodeRec P)) (k : Nat) (x : Nat),
    x ∈ rs.map (fun r => r.id) → ((newMap alloc k rs).resolve x).isSome := by
  intro rs
  induction rs with
  | nil => intro k x h; simp at h
  | cons r rs ih =>
    intro k x h
    simp only [newMap]
    rw [resolve_cons]
    by_cases he : r.id = x
    · simp [he]
    · simp only [he, if_false]
      simp only [List.map_cons, List.mem_cons] at h
      rcases h with h | h
      · exact absurd h.symm he
      · exact ih (k + 1) x h

theorem newNodes_eq_map (alloc : Nat → Nat) : ∀ (rs : List (NodeRec P)) (k : Nat), (rs.map (fun r => r.id)).Nodup →
    newNodes alloc k rs = rs.map (fun r => ⟨phiOf (newMap alloc k rs) r.id, r.kinds, r.props⟩) := by
  intro rs
  induction rs with
  | nil => intro k _; rfl
  | cons r rs ih =>
    intro k hnd
    simp only [List.map_cons, List.nodup_cons] at hnd
    simp only [newNodes, newMap, List.map_cons]
    congr 1
    · simp [phiOf, resolve_cons]
    · rw [ih (k + 1) hnd.2]
      apply List.map_congr_left
      intro r' hr'
      have : r.id ≠ r'.id := by
        intro heq; apply hnd.1; rw [heq]; exact List.mem_map.mpr ⟨r', hr', rfl⟩
      simp [phiOf, resolve_cons, this]

theorem newNodes_ids (alloc : Nat → Nat) : ∀ (rs : List (NodeRec P)) (k : Nat),
    (newNodes alloc k rs).map (fun n => n.id) = (List.range' k rs.length).map alloc := by
  intro rs
  induction rs with
  | nil => intro k; rfl
  | cons r rs ih => intro k; simp [newNodes, ih, List.range'_succ]

theorem newNodes_length (alloc : Nat → Nat) : ∀ (rs : List (NodeRec P)) (k : Nat), (newNodes alloc k rs).length = rs.length := by
  intro rs; induction rs with
  | nil => intro k; rfl
  | cons r rs ih => intro k; simp [newNodes, ih]

theorem newEdges_length (allocE : Nat → Nat) (φ : Nat → Nat) : ∀ (rs : List (EdgeRec P)) (k : Nat), (newEdges allocE φ k rs).length = rs.length := by
  intro rs; induction rs with
  | nil => intro k; rfl
  | cons r rs ih => intro k; simp [newEdges, ih]

theorem newEdges_strip (allocE : Nat → Nat) (φ : Nat → Nat) : ∀ (rs : List (EdgeRec P)) (k : Nat),
    (newEdges allocE φ k rs).map (fun e => (e.src, e.dst, e.kind, e.props)) =
      rs.map (fun r => (φ r.src, φ r.dst, r.kind, r.props)) := by
  intro rs; induction rs with
  | nil => intro k; rfl
  | cons r rs ih => intro k; simp [newEdges, ih]

theorem hasDup_false_of_nodup : ∀ (l : List Nat), l.Nodup → hasDup l = false := by
  intro l
  induction l with
  | nil => intro _; rfl
  | cons x xs ih =>
    intro h
    simp only [List.nodup_cons] at h
    simp only [hasDup, ih h.2, Bool.or_false]
    simpa using h.1


theorem toRec_ids (ns : List (Node P)) : (ns.map Node.toRec).map (fun r => r.id) = ns.map (fun n => n.id) := by
  rw [List.map_map]; rfl

/-- the verification pass accepts what `dumpGraph` assembled, in any directory that holds its files -/
theorem verify_assemble_in [DecidableEq D] (c : Codec P B D) (g : Graph P) (shard : Nat)
    (ns : List (Node P)) (es : List (Edge P)) (m : Metrics)
    (dir : List (Path × B)) (hnd : (dir.map (fun f => f.1)).Nodup) (hsub : ∀ f ∈ (assemble c g shard ns es m).files, f ∈ dir)
    (hN : (ns.map (fun n => n.id)).Nodup)
    (hE : ∀ e ∈ es, e.src ∈ ns.map (fun n => n.id) ∧ e.dst ∈ ns.map (fun n => n.id)) :
    verifyFragments c dir (assemble c g shard ns es m).manifest = .ok () := by
  have hids : (ns.map Node.toRec).map (fun r => r.id) = ns.map (fun n => n.id) := toRec_ids ns
  have hnr : nodeRecs ((shards shard (ns.map Node.toRec)).map Content.nodes ++ (shards shard (es.map Edge.toRec)).map Content.edges)
      = ns.map Node.toRec := by rw [nodeRecs_mixed, shards_flatten]
  have her : edgeRecs ((shards shard (ns.map Node.toRec)).map Content.nodes ++ (shards shard (es.map Edge.toRec)).map Content.edges)
      = es.map Edge.toRec := by rw [edgeRecs_mixed, shards_flatten]
  unfold verifyFragments
  rw [readAll_assemble_in c g shard ns es m true dir hnd hsub]
  simp only [hnr, her, hids]
  rw [hasDup_false_of_nodup _ hN]
  have : (es.map Edge.toRec).all (fun e => (ns.map (fun n => n.id)).contains e.src && (ns.map (fun n => n.id)).contains e.dst) = true := by
    rw [List.all_eq_true]
    intro r hr
    obtain ⟨e, he, rfl⟩ := List.mem_map.mp hr
    have := hE e he
    simp only [Edge.toRec, Bool.and_eq_true, List.contains_iff_mem]
    exact this
  simp only [Bool.false_eq_true, if_false]
  rw [if_pos this]

/-- the load pass of what `dumpGraph` assembled, into an empty target, for any creation counters -/
theorem loadGraph_assemble_in [DecidableEq D] (c : Codec P B D) (g : Graph P) (shard batch : Nat)
    (ns : List (Node P)) (es : List (Edge P)) (m : Metrics) (alloc allocE : Nat → Nat) (nc ec : Nat)
    (dir : List (Path × B)) (hnd : (dir.map (fun f => f.1)).Nodup) (hsub : ∀ f ∈ (assemble c g shard ns es m).files, f ∈ dir)
    (hN : (ns.map (fun n => n.id)).Nodup)
    (hE : ∀ e ∈ es, e.src ∈ ns.map (fun n => n.id) ∧ e.dst ∈ ns.map (fun n => n.id))
    (hcn : ns.length = g.nodes.length) (hce : es.length = g.edges.length) :
    loadGraph c dir (assemble c g shard ns es m).manifest batch alloc allocE { nodes := [], edges := [], nodeCtr := nc, edgeCtr := ec } =
      .ok ({ nodes := newNodes alloc nc (ns.map Node.toRec),
             edges := newEdges allocE (phiOf (newMap alloc nc (ns.map Node.toRec))) ec (es.map Edge.toRec),
             nodeCtr := nc + ns.length, edgeCtr := ec + es.length },
           newMap alloc nc (ns.map Node.toRec)) := by
  have hids : (ns.map Node.toRec).map (fun r => r.id) = ns.map (fun n => n.id) := toRec_ids ns
  have hnr : nodeRecs ((shards shard (ns.map Node.toRec)).map Content.nodes ++ (shards shard (es.map Edge.toRec)).map Content.edges)
      = ns.map Node.toRec := by rw [nodeRecs_mixed, shards_flatten]
  have her : edgeRecs ((shards shard (ns.map Node.toRec)).map Content.nodes ++ (shards shard (es.map Edge.toRec)).map Content.edges)
      = es.map Edge.toRec := by rw [edgeRecs_mixed, shards_flatten]
  unfold loadGraph
  rw [readAll_assemble_in c g shard ns es m false dir hnd hsub]
  simp only [hnr, her]
  rw [createBatches_flatten, shards_flatten]
  rw [createBatch_spec alloc (ns.map Node.toRec) _ [] (by intro r _; rfl) (by rw [hids]; exact hN)]
  simp only [List.nil_append]
  rw [createEdges_spec allocE _ (es.map Edge.toRec)]
  · simp only [List.nil_append, List.length_map, newNodes_length, newEdges_length, List.length_nil, Nat.sub_zero]
    have hmn : (assemble c g shard ns es m).manifest.nodeCount = g.nodes.length := rfl
    have hme : (assemble c g shard ns es m).manifest.edgeCount = g.edges.length := rfl
    rw [hmn, hme, hcn, hce]
    simp
  · intro r hr
    obtain ⟨e, he, rfl⟩ := List.mem_map.mp hr
    have := hE e he
    rw [← hids] at this
    exact ⟨newMap_resolve_mem alloc _ nc _ this.1, newMap_resolve_mem alloc _ nc _ this.2⟩

/-- `Load` of what `dumpGraph` assembled, into an empty target, for any creation counters -/
theorem load_assemble [DecidableEq D] (c : Codec P B D) (g : Graph P) (shard batch : Nat)
    (ns : List (Node P)) (es : List (Edge P)) (m : Metrics) (alloc allocE : Nat → Nat) (nc ec : Nat)
    (hN : (ns.map (fun n => n.id)).Nodup)
    (hE : ∀ e ∈ es, e.src ∈ ns.map (fun n => n.id) ∧ e.dst ∈ ns.map (fun n => n.id))
    (hcn : ns.length = g.nodes.length) (hce : es.length = g.edges.length) :
    load c (assemble c g shard ns es m) batch alloc allocE { nodes := [], edges := [], nodeCtr := nc, edgeCtr := ec } =
      .ok ({ nodes := newNodes alloc nc (ns.map Node.toRec),
             edges := newEdges allocE (phiOf (newMap alloc nc (ns.map Node.toRec))) ec (es.map Edge.toRec),
             nodeCtr := nc + ns.length, edgeCtr := ec + es.length },
           newMap alloc nc (ns.map Node.toRec)) := by
  have hnd := assemble_paths_nodup c g shard ns es m
  unfold load loadIn
  rw [verify_assemble_in c g shard ns es m _ hnd (fun _ h => h) hN hE]
  simp only [List.length_nil, ne_eq, not_true_eq_false, or_self, if_false]
  exact loadGraph_assemble_in c g shard batch ns es m alloc allocE nc ec _ hnd (fun _ h => h) hN hE hcn hce

theorem newMap_keys (alloc : Nat → Nat) : ∀ (rs : List (NodeRec P)) (k : Nat), (newMap alloc k rs).map (fun p => p.1) = rs.map (fun r => r.id) := by
  intro rs; induction rs with
  | nil => intro k; rfl
  | cons r rs ih => intro k; simp [newMap, ih]

end LoadSec

/-! ## Isomorphism under the node correspondence -/

section IsoSec
variable {P B D : Type}

/-- `nodes'`/`edges'` is the graph `g` up to the node correspondence `φ`: `φ` is injective on the node
ids of `g`; nodes correspond with the same kinds (as the sorted kind list) and the same properties;
relationships correspond with re-pointed endpoints, same kind, same properties, as a multiset
(parallel relationships keep their multiplicity). -/
structure Iso (g : Graph P) (nodes' : List (Node P)) (edges' : List (Edge P)) (φ : Nat → Nat) : Prop where
  inj : ∀ a ∈ g.nodes.map (fun n => n.id), ∀ b ∈ g.nodes.map (fun n => n.id), φ a = φ b → a = b
  nodes : (nodes'.map (fun n => (n.id, n.kinds, n.props))).Perm
            (g.nodes.map (fun n => (φ n.id, sortKinds n.kinds, n.props)))
  edges : (edges'.map (fun e => (e.src, e.dst, e.kind, e.props))).Perm
            (g.edges.map (fun e => (φ e.src, φ e.dst, e.kind, e.props)))

theorem nodup_map_of_inj {α β : Type} (f : α → β) (hf : ∀ a b, f a = f b → a = b) (l : List α) (h : l.Nodup) :
    (l.map f).Nodup := by
  rw [List.Nodup, List.pairwise_map]
  exact h.imp (fun hab heq => hab (hf _ _ heq))

theorem inj_of_nodup_map {α β : Type} (f : α → β) : ∀ (l : List α), (l.map f).Nodup →
    ∀ a ∈ l, ∀ b ∈ l, f a = f b → a = b := by
  intro l
  induction l with
  | nil => intro _ a ha; simp at ha
  | cons x xs ih =>
    intro h a ha b hb hab
    simp only [List.map_cons, List.nodup_cons] at h
    rcases List.mem_cons.mp ha with ha | ha <;> rcases List.mem_cons.mp hb with hb | hb
    · rw [ha, hb]
    · rw [ha] at hab; exact absurd (List.mem_map.mpr ⟨b, hb, hab.symm⟩) h.1
    · rw [hb] at hab; exact absurd (List.mem_map.mpr ⟨a, ha, hab⟩) h.1
    · exact ih h.2 a ha b hb hab

theorem sortKinds_perm (ks : List String) : (sortKinds ks).Perm ks := List.mergeSort_perm _ _

/-- the loaded graph is isomorphic to the source under the loader's id map -/
theorem iso_of_load (g : Graph P) (hw : WF g) (alloc allocE : Nat → Nat)
    (halloc : ∀ a b, alloc a = alloc b → a = b) (nc ec : Nat) :
    Iso g (newNodes alloc nc ((sortedNodes g).map Node.toRec))
          (newEdges allocE (phiOf (newMap alloc nc ((sortedNodes g).map Node.toRec))) ec ((sortedEdges g).map Edge.toRec))
          (phiOf (newMap alloc nc ((sortedNodes g).map Node.toRec))) := by
  have hperm : (sortedNodes g).Perm g.nodes := sortBy_perm _ _
  have hpermE : (sortedEdges g).Perm g.edges := sortBy_perm _ _
  have hnd : ((sortedNodes g).map (fun n => n.id)).Nodup := (hperm.map _).nodup_iff.mpr hw.nodeIds
  have hndr : (((sortedNodes g).map Node.toRec).map (fun r => r.id)).Nodup := by rw [toRec_ids]; exact hnd
  have hnodes := newNodes_eq_map alloc ((sortedNodes g).map Node.toRec) nc hndr
  refine ⟨?_, ?_, ?_⟩
  · -- injectivity
    have hids := newNodes_ids alloc ((sortedNodes g).map Node.toRec) nc
    rw [hnodes, List.map_map] at hids
    have hnodup : (((sortedNodes g).map Node.toRec).map
        ((fun n : Node P => n.id) ∘ fun r => ⟨phiOf (newMap alloc nc ((sortedNodes g).map Node.toRec)) r.id, r.kinds, r.props⟩)).Nodup := by
      rw [hids]
      exact nodup_map_of_inj alloc halloc _ (List.nodup_range')
    have hnodup' : (((sortedNodes g).map (fun n => n.id)).map (phiOf (newMap alloc nc ((sortedNodes g).map Node.toRec)))).Nodup := by
      rw [List.map_map] at hnodup ⊢
      exact hnodup
    intro a ha b hb hab
    have ha' : a ∈ (sortedNodes g).map (fun n => n.id) := (hperm.map _).mem_iff.mpr ha
    have hb' : b ∈ (sortedNodes g).map (fun n => n.id) := (hperm.map _).mem_iff.mpr hb
    exact inj_of_nodup_map _ _ hnodup' a ha' b hb' hab
  · rw [hnodes, List.map_map, List.map_map]
    exact hperm.map _
  · rw [newEdges_strip, List.map_map]
    exact hpermE.map _

end IsoSec

/-! ## Verify -/

section VerifySec

/-- the compared histograms agree: every key has the same count on both sides -/
def HistAgree {κ : Type} [BEq κ] (a b : List κ) : Prop := ∀ k, a.count k = b.count k

theorem histEq_iff {κ : Type} [BEq κ] [LawfulBEq κ] (a b : List κ) : histEq a b = true ↔ HistAgree a b := by
  unfold histEq HistAgree
  rw [List.all_eq_true]
  constructor
  · intro h k
    by_cases hk : k ∈ a ++ b
    · simpa using h k hk
    · rw [List.mem_append, not_or] at hk
      rw [List.count_eq_zero_of_not_mem hk.1, List.count_eq_zero_of_not_mem hk.2]
  · intro h k _
    simpa using h k

theorem histAgree_iff_perm {κ : Type} [BEq κ] [LawfulBEq κ] (a b : List κ) : HistAgree a b ↔ a.Perm b :=
  List.perm_iff_count.symm

/-- what `compareGraphMetrics` compares -/
structure MetricsAgree (a b : Metrics) : Prop where
  nodeCount : a.nodeCount = b.nodeCount
  edgeCount : a.edgeCount = b.edgeCount
  nodeKinds : HistAgree a.nodeKinds b.nodeKinds
  edgeKinds : HistAgree a.edgeKinds b.edgeKinds
  inDeg : HistAgree a.inDeg b.inDeg
  outDeg : HistAgree a.outDeg b.outDeg
  totDeg : HistAgree a.totDeg b.totDeg
  endpoints : HistAgree a.endpoints b.endpoints

theorem agree_iff (a b : Metrics) : a.agree b = true ↔ MetricsAgree a b := by
  unfold Metrics.agree
  simp only [Bool.and_eq_true, beq_iff_eq, histEq_iff]
  constructor
  · rintro ⟨⟨⟨⟨⟨⟨⟨h1, h2⟩, h3⟩, h4⟩, h5⟩, h6⟩, h7⟩, h8⟩
    exact ⟨h1, h2, h3, h4, h5, h6, h7, h8⟩
  · intro h
    exact ⟨⟨⟨⟨⟨⟨⟨h.nodeCount, h.edgeCount⟩, h.nodeKinds⟩, h.edgeKinds⟩, h.inDeg⟩, h.outDeg⟩, h.totDeg⟩, h.endpoints⟩

theorem verify_ok_iff {P : Type} (expected : Metrics) (nodes : List (Node P)) (edges : List (Edge P)) :
    verify expected nodes edges = .ok ↔ ∃ actual, graphMetrics nodes edges = some actual ∧ MetricsAgree expected actual := by
  unfold verify
  cases hm : graphMetrics nodes edges with
  | none => simp
  | some actual =>
    simp only [Option.some.injEq, exists_eq_left']
    rw [← agree_iff]
    by_cases h : expected.agree actual = true
    · simp [h]
    · simp [h]

end VerifySec

theorem entries_phase {P B D : Type} (c : Codec P B D) (g : String) (ph : Phase) :
    ∀ (frs : List (Content P)) (k : Nat), ∀ e ∈ entries c (writeFragments c g ph k frs) frs, e.phase = ph := by
  intro frs
  induction frs with
  | nil => intro k e he; simp [writeFragments, entries] at he
  | cons x xs ih =>
    intro k e he
    simp only [writeFragments, entries] at he
    rcases List.mem_cons.mp he with h | h
    · subst h; rfl
    · exact ih (k + 1) e h

end Dawgs.C18
