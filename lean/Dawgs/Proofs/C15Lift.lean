/- C15: from the component graph back to the original graph (helper lemmas): if the SCC certificate holds,
every public answer of the repaired ReachabilityCache is what plain BFS on the original graph gives. -/
import Dawgs.Proofs.C15Tarjan
set_option linter.unusedSimpArgs false
set_option linter.unusedVariables false
set_option linter.unusedSectionVars false
namespace Dawgs.C15

/-! ### canonical form of id sets -/

theorem mem_insertSorted (x y : Nat) (l : List Nat) : y ∈ insertSorted x l ↔ y = x ∨ y ∈ l := by
  induction l with
  | nil => simp [insertSorted]
  | cons a l ih =>
    unfold insertSorted
    by_cases h : x ≤ a
    · simp [h]
    · simp only [h, if_false, List.mem_cons, ih]
      constructor
      · rintro (h1 | h1 | h1)
        · exact Or.inr (Or.inl h1)
        · exact Or.inl h1
        · exact Or.inr (Or.inr h1)
      · rintro (h1 | h1 | h1)
        · exact Or.inr (Or.inl h1)
        · exact Or.inl h1
        · exact Or.inr (Or.inr h1)

theorem mem_isort (y : Nat) (l : List Nat) : y ∈ isort l ↔ y ∈ l := by
  induction l with
  | nil => simp [isort]
  | cons a l ih => simp [isort, mem_insertSorted, ih]

theorem dedup_cons (a : Nat) (l : List Nat) : dedup (a :: l) = if a ∈ l then dedup l else a :: dedup l := by
  show (if l.contains a then dedup l else a :: dedup l) = _
  by_cases h : a ∈ l
  · simp [h]
  · simp [h]

theorem mem_dedup (y : Nat) (l : List Nat) : y ∈ dedup l ↔ y ∈ l := by
  induction l with
  | nil => simp [dedup]
  | cons a l ih =>
    rw [dedup_cons]
    by_cases h : a ∈ l
    · simp only [h, if_true, ih, List.mem_cons]
      exact ⟨Or.inr, fun h' => h'.elim (fun e => e ▸ h) id⟩
    · simp [h, ih]

theorem nodup_dedup (l : List Nat) : (dedup l).Nodup := by
  induction l with
  | nil => simp [dedup]
  | cons a l ih =>
    rw [dedup_cons]
    by_cases h : a ∈ l
    · simp [h, ih]
    · simp only [h, if_false]
      exact List.nodup_cons.2 ⟨fun hm => h ((mem_dedup a l).1 hm), ih⟩

theorem dedup_of_nodup {l : List Nat} (h : l.Nodup) : dedup l = l := by
  induction l with
  | nil => rfl
  | cons a l ih =>
    rw [List.nodup_cons] at h
    rw [dedup_cons, if_neg h.1, ih h.2]

theorem length_insertSorted (x : Nat) (l : List Nat) : (insertSorted x l).length = l.length + 1 := by
  induction l with
  | nil => rfl
  | cons a l ih => unfold insertSorted; split <;> simp [ih]

theorem length_isort (l : List Nat) : (isort l).length = l.length := by
  induction l with
  | nil => rfl
  | cons a l ih => simp [isort, length_insertSorted, ih]

def StrictSorted (l : List Nat) : Prop := l.Pairwise (· < ·)

theorem strictSorted_insert {x : Nat} {l : List Nat} (hs : StrictSorted l) (hx : x ∉ l) :
    StrictSorted (insertSorted x l) := by
  induction l with
  | nil => simp [insertSorted, StrictSorted]
  | cons a l ih =>
    unfold StrictSorted at hs ih ⊢
    rw [List.pairwise_cons] at hs
    unfold insertSorted
    by_cases h : x ≤ a
    · simp only [h, if_true]
      have hxa : x < a := by
        rcases Nat.lt_or_ge x a with h' | h'
        · exact h'
        · exact absurd (Nat.le_antisymm h h') (fun e => hx (by simp [e]))
      rw [List.pairwise_cons]
      refine ⟨?_, List.pairwise_cons.2 hs⟩
      intro b hb
      rcases List.mem_cons.1 hb with rfl | hb
      · exact hxa
      · exact Nat.lt_trans hxa (hs.1 b hb)
    · simp only [h, if_false]
      rw [List.pairwise_cons]
      refine ⟨?_, ih hs.2 (fun hm => hx (List.mem_cons_of_mem _ hm))⟩
      intro b hb
      rcases (mem_insertSorted x b l).1 hb with rfl | hb
      · omega
      · exact hs.1 b hb

theorem strictSorted_isort {l : List Nat} (h : l.Nodup) : StrictSorted (isort l) := by
  induction l with
  | nil => simp [isort, StrictSorted]
  | cons a l ih =>
    rw [List.nodup_cons] at h
    exact strictSorted_insert (ih h.2) (fun hm => h.1 ((mem_isort a l).1 hm))

theorem strictSorted_ext {a b : List Nat} (ha : StrictSorted a) (hb : StrictSorted b) (h : ∀ x, x ∈ a ↔ x ∈ b) :
    a = b := by
  induction a generalizing b with
  | nil =>
    cases b with
    | nil => rfl
    | cons y b' => exact absurd ((h y).2 (by simp)) (by simp)
  | cons x a' ih =>
    cases b with
    | nil => exact absurd ((h x).1 (by simp)) (by simp)
    | cons y b' =>
      unfold StrictSorted at ha hb
      rw [List.pairwise_cons] at ha hb
      have hxy : x = y := by
        rcases List.mem_cons.1 ((h x).1 (by simp)) with e | hx
        · exact e
        · rcases List.mem_cons.1 ((h y).2 (by simp)) with e | hy
          · exact e.symm
          · have := hb.1 x hx; have := ha.1 y hy; omega
      subst hxy
      congr 1
      apply ih ha.2 hb.2
      intro z
      constructor
      · intro hz
        rcases List.mem_cons.1 ((h z).1 (List.mem_cons_of_mem _ hz)) with e | hz'
        · have := ha.1 z hz; omega
        · exact hz'
      · intro hz
        rcases List.mem_cons.1 ((h z).2 (List.mem_cons_of_mem _ hz)) with e | hz'
        · have := hb.1 z hz; omega
        · exact hz'

theorem mem_canon (y : Nat) (l : List Nat) : y ∈ canon l ↔ y ∈ l := by
  unfold canon; rw [mem_isort, mem_dedup]

theorem strictSorted_canon (l : List Nat) : StrictSorted (canon l) := strictSorted_isort (nodup_dedup l)

/-- two id lists with the same members have the same canonical form -/
theorem canon_congr {a b : List Nat} (h : ∀ x, x ∈ a ↔ x ∈ b) : canon a = canon b :=
  strictSorted_ext (strictSorted_canon a) (strictSorted_canon b) (fun x => by rw [mem_canon, mem_canon, h x])

theorem canon_canon (l : List Nat) : canon (canon l) = canon l := canon_congr (fun x => mem_canon x l)

theorem nodup_canon (l : List Nat) : (canon l).Nodup := by
  have := strictSorted_canon l
  unfold StrictSorted at this
  exact this.imp (fun h => Nat.ne_of_lt h)

theorem length_canon_of_nodup {l : List Nat} (h : l.Nodup) : (canon l).length = l.length := by
  unfold canon; rw [dedup_of_nodup h, length_isort]

/-! ### what `NewComponentGraph` builds -/

theorem Digraph.mem_edges_addEdge (g : Digraph) (u v : Nat) (e : Nat × Nat) :
    e ∈ (g.addEdge u v).edges ↔ e ∈ g.edges ∨ e = (u, v) := by
  show e ∈ ((g.addNode u).addNode v).edges ++ [(u, v)] ↔ _
  rw [Digraph.edges_addNode, Digraph.edges_addNode]; simp

theorem Digraph.mem_nodes_addEdge (g : Digraph) (u v y : Nat) :
    y ∈ (g.addEdge u v).nodes ↔ y ∈ g.nodes ∨ y = u ∨ y = v := by
  show y ∈ ((g.addNode u).addNode v).nodes ↔ _
  rw [Digraph.nodes_addNode, Digraph.nodes_addNode]
  exact ⟨fun h => h.elim (fun h => h.elim Or.inl (fun e => Or.inr (Or.inl e))) (fun e => Or.inr (Or.inr e)),
         fun h => h.elim (fun h => Or.inl (Or.inl h)) (fun h => h.elim (fun e => Or.inl (Or.inr e)) Or.inr)⟩

section CG
variable (g : Digraph) (lk : List (Nat × Nat))

/-- edges and nodes contributed by one `EachAdjacentNode` pass of `NewComponentGraph` -/
def passEdge (nc : Nat) (flip : Bool) (x : Nat) : Nat × Nat := if flip then (lookupD lk x, nc) else (nc, lookupD lk x)

theorem addCompEdges_spec (nc : Nat) (flip : Bool) (as : List Nat) (dg : Digraph) :
    (∀ e, e ∈ (addCompEdges lk nc flip as dg).edges ↔
        e ∈ dg.edges ∨ ∃ x, x ∈ as ∧ nc ≠ lookupD lk x ∧ e = passEdge lk nc flip x) ∧
    (∀ y, y ∈ (addCompEdges lk nc flip as dg).nodes ↔
        y ∈ dg.nodes ∨ ∃ x, x ∈ as ∧ nc ≠ lookupD lk x ∧ (y = nc ∨ y = lookupD lk x)) ∧
    (dg.WF → (addCompEdges lk nc flip as dg).WF) := by
  induction as generalizing dg with
  | nil => simp [addCompEdges]
  | cons a as ih =>
    unfold addCompEdges
    by_cases h : nc = lookupD lk a
    · rw [if_pos h]
      have ⟨h1, h2, h3⟩ := ih dg
      refine ⟨fun e => ?_, fun y => ?_, h3⟩
      · rw [h1 e]
        constructor
        · rintro (h' | ⟨x, hx, hne, he⟩)
          · exact Or.inl h'
          · exact Or.inr ⟨x, List.mem_cons_of_mem _ hx, hne, he⟩
        · rintro (h' | ⟨x, hx, hne, he⟩)
          · exact Or.inl h'
          · rcases List.mem_cons.1 hx with rfl | hx
            · exact absurd h hne
            · exact Or.inr ⟨x, hx, hne, he⟩
      · rw [h2 y]
        constructor
        · rintro (h' | ⟨x, hx, hne, he⟩)
          · exact Or.inl h'
          · exact Or.inr ⟨x, List.mem_cons_of_mem _ hx, hne, he⟩
        · rintro (h' | ⟨x, hx, hne, he⟩)
          · exact Or.inl h'
          · rcases List.mem_cons.1 hx with rfl | hx
            · exact absurd h hne
            · exact Or.inr ⟨x, hx, hne, he⟩
    · rw [if_neg h]
      cases flip with
      | true =>
        simp only [if_true]
        have ⟨h1, h2, h3⟩ := ih (dg.addEdge (lookupD lk a) nc)
        refine ⟨fun e => ?_, fun y => ?_, fun hw => h3 (hw.addEdge _ _)⟩
        · rw [h1 e, Digraph.mem_edges_addEdge]
          constructor
          · rintro ((h' | h') | ⟨x, hx, hne, he⟩)
            · exact Or.inl h'
            · exact Or.inr ⟨a, by simp, h, by simp [passEdge, h']⟩
            · exact Or.inr ⟨x, List.mem_cons_of_mem _ hx, hne, he⟩
          · rintro (h' | ⟨x, hx, hne, he⟩)
            · exact Or.inl (Or.inl h')
            · rcases List.mem_cons.1 hx with rfl | hx
              · exact Or.inl (Or.inr (by simpa [passEdge] using he))
              · exact Or.inr ⟨x, hx, hne, he⟩
        · rw [h2 y, Digraph.mem_nodes_addEdge]
          constructor
          · rintro ((h' | h' | h') | ⟨x, hx, hne, he⟩)
            · exact Or.inl h'
            · exact Or.inr ⟨a, by simp, h, Or.inr h'⟩
            · exact Or.inr ⟨a, by simp, h, Or.inl h'⟩
            · exact Or.inr ⟨x, List.mem_cons_of_mem _ hx, hne, he⟩
          · rintro (h' | ⟨x, hx, hne, he⟩)
            · exact Or.inl (Or.inl h')
            · rcases List.mem_cons.1 hx with rfl | hx
              · exact Or.inl (Or.inr (he.elim Or.inr Or.inl))
              · exact Or.inr ⟨x, hx, hne, he⟩
      | false =>
        simp only [Bool.false_eq_true, if_false]
        have ⟨h1, h2, h3⟩ := ih (dg.addEdge nc (lookupD lk a))
        refine ⟨fun e => ?_, fun y => ?_, fun hw => h3 (hw.addEdge _ _)⟩
        · rw [h1 e, Digraph.mem_edges_addEdge]
          constructor
          · rintro ((h' | h') | ⟨x, hx, hne, he⟩)
            · exact Or.inl h'
            · exact Or.inr ⟨a, by simp, h, by simp [passEdge, h']⟩
            · exact Or.inr ⟨x, List.mem_cons_of_mem _ hx, hne, he⟩
          · rintro (h' | ⟨x, hx, hne, he⟩)
            · exact Or.inl (Or.inl h')
            · rcases List.mem_cons.1 hx with rfl | hx
              · exact Or.inl (Or.inr (by simpa [passEdge] using he))
              · exact Or.inr ⟨x, hx, hne, he⟩
        · rw [h2 y, Digraph.mem_nodes_addEdge]
          constructor
          · rintro ((h' | h' | h') | ⟨x, hx, hne, he⟩)
            · exact Or.inl h'
            · exact Or.inr ⟨a, by simp, h, Or.inl h'⟩
            · exact Or.inr ⟨a, by simp, h, Or.inr h'⟩
            · exact Or.inr ⟨x, List.mem_cons_of_mem _ hx, hne, he⟩
          · rintro (h' | ⟨x, hx, hne, he⟩)
            · exact Or.inl (Or.inl h')
            · rcases List.mem_cons.1 hx with rfl | hx
              · exact Or.inl (Or.inr he)
              · exact Or.inr ⟨x, hx, hne, he⟩

theorem compEdgesOf_spec (vs : List Nat) (dg : Digraph) :
    (∀ e, e ∈ (compEdgesOf g lk vs dg).edges ↔ e ∈ dg.edges ∨ ∃ v, v ∈ vs ∧
        ((∃ x, x ∈ g.inAdj v ∧ lookupD lk v ≠ lookupD lk x ∧ e = (lookupD lk x, lookupD lk v)) ∨
         (∃ x, x ∈ g.outAdj v ∧ lookupD lk v ≠ lookupD lk x ∧ e = (lookupD lk v, lookupD lk x)))) ∧
    (∀ y, y ∈ (compEdgesOf g lk vs dg).nodes ↔ y ∈ dg.nodes ∨ ∃ v, v ∈ vs ∧ ∃ x, (x ∈ g.inAdj v ∨ x ∈ g.outAdj v) ∧
        lookupD lk v ≠ lookupD lk x ∧ (y = lookupD lk v ∨ y = lookupD lk x)) ∧
    (dg.WF → (compEdgesOf g lk vs dg).WF) := by
  induction vs generalizing dg with
  | nil => simp [compEdgesOf]
  | cons v vs ih =>
    unfold compEdgesOf
    simp only
    have ⟨a1, a2, a3⟩ := addCompEdges_spec lk (lookupD lk v) true (g.inAdj v) dg
    have ⟨b1, b2, b3⟩ := addCompEdges_spec lk (lookupD lk v) false (g.outAdj v)
      (addCompEdges lk (lookupD lk v) true (g.inAdj v) dg)
    have ⟨c1, c2, c3⟩ := ih (addCompEdges lk (lookupD lk v) false (g.outAdj v)
      (addCompEdges lk (lookupD lk v) true (g.inAdj v) dg))
    refine ⟨fun e => ?_, fun y => ?_, fun hw => c3 (b3 (a3 hw))⟩
    · rw [c1 e, b1 e, a1 e]
      constructor
      · rintro (((h | ⟨x, hx, hne, he⟩) | ⟨x, hx, hne, he⟩) | ⟨w, hw, h⟩)
        · exact Or.inl h
        · exact Or.inr ⟨v, by simp, Or.inl ⟨x, hx, hne, by simpa [passEdge] using he⟩⟩
        · exact Or.inr ⟨v, by simp, Or.inr ⟨x, hx, hne, by simpa [passEdge] using he⟩⟩
        · exact Or.inr ⟨w, List.mem_cons_of_mem _ hw, h⟩
      · rintro (h | ⟨w, hw, h⟩)
        · exact Or.inl (Or.inl (Or.inl h))
        · rcases List.mem_cons.1 hw with rfl | hw
          · rcases h with ⟨x, hx, hne, he⟩ | ⟨x, hx, hne, he⟩
            · exact Or.inl (Or.inl (Or.inr ⟨x, hx, hne, by simpa [passEdge] using he⟩))
            · exact Or.inl (Or.inr ⟨x, hx, hne, by simpa [passEdge] using he⟩)
          · exact Or.inr ⟨w, hw, h⟩
    · rw [c2 y, b2 y, a2 y]
      constructor
      · rintro (((h | ⟨x, hx, hne, he⟩) | ⟨x, hx, hne, he⟩) | ⟨w, hw, h⟩)
        · exact Or.inl h
        · exact Or.inr ⟨v, by simp, x, Or.inl hx, hne, he⟩
        · exact Or.inr ⟨v, by simp, x, Or.inr hx, hne, he⟩
        · exact Or.inr ⟨w, List.mem_cons_of_mem _ hw, h⟩
      · rintro (h | ⟨w, hw, x, hx, hne, he⟩)
        · exact Or.inl (Or.inl (Or.inl h))
        · rcases List.mem_cons.1 hw with rfl | hw
          · rcases hx with hx | hx
            · exact Or.inl (Or.inl (Or.inr ⟨x, hx, hne, he⟩))
            · exact Or.inl (Or.inr ⟨x, hx, hne, he⟩)
          · exact Or.inr ⟨w, hw, x, hx, hne, he⟩

theorem addNodes_spec (l : List Nat) (dg : Digraph) :
    (∀ y, y ∈ (addNodes l dg).nodes ↔ y ∈ dg.nodes ∨ y ∈ l) ∧ (addNodes l dg).edges = dg.edges ∧
    (dg.WF → (addNodes l dg).WF) := by
  induction l generalizing dg with
  | nil => simp [addNodes]
  | cons a l ih =>
    unfold addNodes
    have ⟨h1, h2, h3⟩ := ih (dg.addNode a)
    refine ⟨fun y => ?_, by rw [h2, Digraph.edges_addNode], fun hw => h3 (hw.addNode a)⟩
    rw [h1 y, Digraph.nodes_addNode, List.mem_cons]
    exact ⟨fun h => h.elim (fun h => h.elim Or.inl (fun e => Or.inr (Or.inl e))) (fun h => Or.inr (Or.inr h)),
           fun h => h.elim (fun h => Or.inl (Or.inl h)) (fun h => h.elim (fun e => Or.inl (Or.inr e)) Or.inr)⟩

/-- edge of the condensation, by member → component map -/
def CEdge (a b : Nat) : Prop :=
  a ≠ b ∧ ∃ u v, u ∈ g.nodes ∧ v ∈ g.nodes ∧ g.hasEdge u v = true ∧ lookupD lk u = a ∧ lookupD lk v = b

structure CGSpec (k : Nat) (dg : Digraph) : Prop where
  wf : dg.WF
  nodes : ∀ x, x ∈ dg.nodes ↔ x < k
  edge : ∀ a b, dg.hasEdge a b = true ↔ CEdge g lk a b

theorem componentGraphOf_spec (hw : g.WF) (comps : List (List Nat))
    (hci : ∀ v, v ∈ g.nodes → lookupD lk v < comps.length) :
    CGSpec g lk comps.length (componentGraphOf g comps lk).dg := by
  have ⟨n1, n2, n3⟩ := addNodes_spec (List.range comps.length) Digraph.empty
  have ⟨e1, e2, e3⟩ := compEdgesOf_spec g lk g.nodes (addNodes (List.range comps.length) Digraph.empty)
  refine ⟨e3 (n3 Digraph.wf_empty), fun x => ?_, fun a b => ?_⟩
  · show x ∈ (compEdgesOf g lk g.nodes (addNodes (List.range comps.length) Digraph.empty)).nodes ↔ _
    rw [e2 x, n1 x]
    constructor
    · rintro ((h | h) | ⟨v, hv, y, hy, _, he⟩)
      · simp [Digraph.empty] at h
      · simpa using h
      · have hyn : y ∈ g.nodes := hy.elim (fun h => (Digraph.mem_inAdj.1 h).1) (fun h => (Digraph.mem_outAdj.1 h).1)
        rcases he with rfl | rfl
        · exact hci v hv
        · exact hci y hyn
    · intro h; exact Or.inl (Or.inr (by simpa using h))
  · show (compEdgesOf g lk g.nodes (addNodes (List.range comps.length) Digraph.empty)).edges.contains (a, b) = true ↔ _
    rw [List.contains_iff_mem, e1 (a, b), n2]
    constructor
    · rintro (h | ⟨v, hv, ⟨x, hx, hne, he⟩ | ⟨x, hx, hne, he⟩⟩)
      · simp [Digraph.empty] at h
      · have := Digraph.mem_inAdj.1 hx
        simp only [Prod.mk.injEq] at he
        exact ⟨by rw [he.1, he.2]; exact fun e => hne e.symm, x, v, this.1, hv, this.2, he.1.symm, he.2.symm⟩
      · have := Digraph.mem_outAdj.1 hx
        simp only [Prod.mk.injEq] at he
        exact ⟨by rw [he.1, he.2]; exact hne, v, x, hv, this.1, this.2, he.1.symm, he.2.symm⟩
    · rintro ⟨hne, u, v, hu, hv, he, rfl, rfl⟩
      exact Or.inr ⟨u, hu, Or.inr ⟨v, Digraph.mem_outAdj.2 ⟨hv, he⟩, hne, rfl⟩⟩

end CG

/-! ### reachability in the component graph = reachability in the original graph -/

theorem Reach.mono {adj adj' : Nat → List Nat} (h : ∀ v w, w ∈ adj v → w ∈ adj' v) {u w : Nat}
    (hr : Reach adj u w) : Reach adj' u w := by
  induction hr with
  | refl => exact Reach.refl _
  | tail _ hm ih => exact Reach.tail ih (h _ _ hm)

/-- what the per-case certificate (checked at run time) and the Tarjan theorems provide -/
structure Cert (g : Digraph) (comps : List (List Nat)) (lk : List (Nat × Nat)) : Prop where
  wf : g.WF
  scc : IsSCC g comps
  lk_eq : ∀ v, lookup lk v = compIndexOf comps v

section Lift
variable {g : Digraph} {comps : List (List Nat)} {lk : List (Nat × Nat)} (hc : Cert g comps lk)
include hc

theorem Cert.lookup_some {v : Nat} (hv : v ∈ g.nodes) : lookup lk v = some (lookupD lk v) := by
  have : v ∈ comps.flatten := (hc.scc.cover v).1 hv
  obtain ⟨i, hi⟩ := compIndexOf_some_of_mem this
  have h := hc.lk_eq v
  rw [hi] at h
  unfold lookupD; rw [h]

theorem Cert.lookup_none {v : Nat} (hv : v ∉ g.nodes) : lookup lk v = none := by
  rw [hc.lk_eq v, compIndexOf_none_iff]
  exact fun h => hv ((hc.scc.cover v).2 h)

theorem Cert.ci_get {v : Nat} (hv : v ∈ g.nodes) : ∃ A, comps[lookupD lk v]? = some A ∧ v ∈ A := by
  have h := hc.lookup_some hv
  rw [hc.lk_eq v] at h
  exact compIndexOf_get h

theorem Cert.ci_lt {v : Nat} (hv : v ∈ g.nodes) : lookupD lk v < comps.length := by
  obtain ⟨A, hA, _⟩ := hc.ci_get hv
  rcases Nat.lt_or_ge (lookupD lk v) comps.length with h | h
  · exact h
  · rw [List.getElem?_eq_none h] at hA; cases hA

theorem Cert.mutual_of_ci {u v : Nat} (hu : u ∈ g.nodes) (hv : v ∈ g.nodes) (h : lookupD lk u = lookupD lk v) :
    Reach g.outAdj u v ∧ Reach g.outAdj v u := by
  obtain ⟨A, hA, huA⟩ := hc.ci_get hu
  obtain ⟨B, hB, hvB⟩ := hc.ci_get hv
  rw [h, hB] at hA
  have hAB : B = A := Option.some.inj hA
  subst hAB
  exact (hc.scc.same_iff u v hu hv).1 ⟨B, List.mem_of_getElem? hB, huA, hvB⟩

theorem Cert.ci_of_mutual {u v : Nat} (hu : u ∈ g.nodes) (hv : v ∈ g.nodes)
    (h : Reach g.outAdj u v ∧ Reach g.outAdj v u) : lookupD lk u = lookupD lk v := by
  obtain ⟨C, hC, huC, hvC⟩ := (hc.scc.same_iff u v hu hv).2 h
  obtain ⟨i, hi⟩ := List.getElem?_of_mem hC
  have h1 := compIndexOf_unique hc.scc.disjoint hi huC
  have h2 := compIndexOf_unique hc.scc.disjoint hi hvC
  rw [← hc.lk_eq] at h1 h2
  rw [lookupD_of_lookup h1, lookupD_of_lookup h2]

/-- members of one component reach each other in every direction -/
theorem Cert.strong (d : Dir) {u v : Nat} (hu : u ∈ g.nodes) (hv : v ∈ g.nodes) (h : lookupD lk u = lookupD lk v) :
    Reach (g.adj d) u v := by
  have ⟨h1, h2⟩ := hc.mutual_of_ci hu hv h
  cases d with
  | outb => exact h1
  | inb => exact h2.reverse (fun a b => Dir.reverse_conv hc.wf .outb a b)
  | both => exact h1.mono (fun a b hb => List.mem_append.2 (Or.inl hb))

theorem Cert.reach_nodes (d : Dir) {u w : Nat} (hu : u ∈ g.nodes) (hr : Reach (g.adj d) u w) : w ∈ g.nodes := by
  induction hr with
  | refl => exact hu
  | tail _ hm _ => exact g.adj_sub_nodes d _ _ hm

variable {dg : Digraph} (hs : CGSpec g lk comps.length dg)
include hs

theorem CGSpec.mem_outAdj {a b : Nat} : b ∈ dg.outAdj a ↔ CEdge g lk a b := by
  rw [Digraph.mem_outAdj, hs.edge]
  exact ⟨fun h => h.2, fun h => ⟨(hs.nodes b).2 (by obtain ⟨_, u, v, _, hv, _, _, rfl⟩ := h; exact hc.ci_lt hv), h⟩⟩

theorem CGSpec.mem_inAdj {a b : Nat} : b ∈ dg.inAdj a ↔ CEdge g lk b a := by
  rw [Digraph.mem_inAdj, hs.edge]
  exact ⟨fun h => h.2, fun h => ⟨(hs.nodes b).2 (by obtain ⟨_, u, v, hu, _, _, rfl, _⟩ := h; exact hc.ci_lt hu), h⟩⟩

/-- one step in `g` is a step in the component graph or stays inside a component -/
theorem step_down (d : Dir) {u w : Nat} (hu : u ∈ g.nodes) (hw : w ∈ g.adj d u) :
    lookupD lk w = lookupD lk u ∨ lookupD lk w ∈ dg.adj d (lookupD lk u) := by
  have hwn : w ∈ g.nodes := g.adj_sub_nodes d _ _ hw
  by_cases e : lookupD lk w = lookupD lk u
  · exact Or.inl e
  · right
    have out : w ∈ g.outAdj u → lookupD lk w ∈ dg.outAdj (lookupD lk u) := fun h =>
      (hs.mem_outAdj hc).2 ⟨fun e' => e e'.symm, u, w, hu, hwn, (Digraph.mem_outAdj.1 h).2, rfl, rfl⟩
    have inn : w ∈ g.inAdj u → lookupD lk w ∈ dg.inAdj (lookupD lk u) := fun h =>
      (hs.mem_inAdj hc).2 ⟨e, w, u, hwn, hu, (Digraph.mem_inAdj.1 h).2, rfl, rfl⟩
    cases d with
    | outb => exact out hw
    | inb => exact inn hw
    | both =>
      rcases List.mem_append.1 hw with h | h
      · exact List.mem_append.2 (Or.inl (out h))
      · exact List.mem_append.2 (Or.inr (inn h))

/-- one step in the component graph is realised by an edge of `g` between members -/
theorem step_up (d : Dir) {a b : Nat} (hb : b ∈ dg.adj d a) :
    ∃ x y, x ∈ g.nodes ∧ y ∈ g.nodes ∧ lookupD lk x = a ∧ lookupD lk y = b ∧ y ∈ g.adj d x := by
  have out : b ∈ dg.outAdj a → ∃ x y, x ∈ g.nodes ∧ y ∈ g.nodes ∧ lookupD lk x = a ∧ lookupD lk y = b ∧ y ∈ g.outAdj x := by
    intro h
    obtain ⟨_, u, v, hu, hv, he, rfl, rfl⟩ := (hs.mem_outAdj hc).1 h
    exact ⟨u, v, hu, hv, rfl, rfl, Digraph.mem_outAdj.2 ⟨hv, he⟩⟩
  have inn : b ∈ dg.inAdj a → ∃ x y, x ∈ g.nodes ∧ y ∈ g.nodes ∧ lookupD lk x = a ∧ lookupD lk y = b ∧ y ∈ g.inAdj x := by
    intro h
    obtain ⟨_, u, v, hu, hv, he, rfl, rfl⟩ := (hs.mem_inAdj hc).1 h
    exact ⟨v, u, hv, hu, rfl, rfl, Digraph.mem_inAdj.2 ⟨hu, he⟩⟩
  cases d with
  | outb => exact out hb
  | inb => exact inn hb
  | both =>
    rcases List.mem_append.1 hb with h | h
    · obtain ⟨x, y, hx, hy, e1, e2, hm⟩ := out h
      exact ⟨x, y, hx, hy, e1, e2, List.mem_append.2 (Or.inl hm)⟩
    · obtain ⟨x, y, hx, hy, e1, e2, hm⟩ := inn h
      exact ⟨x, y, hx, hy, e1, e2, List.mem_append.2 (Or.inr hm)⟩

theorem reach_down (d : Dir) {u w : Nat} (hu : u ∈ g.nodes) (hr : Reach (g.adj d) u w) :
    Reach (dg.adj d) (lookupD lk u) (lookupD lk w) := by
  induction hr with
  | refl => exact Reach.refl _
  | @tail v w' hv hm ih =>
    have hvn := hc.reach_nodes d hu hv
    rcases step_down hc hs d hvn hm with e | e
    · rw [e]; exact ih
    · exact Reach.tail ih e

theorem reach_up (d : Dir) {a b : Nat} (hr : Reach (dg.adj d) a b) :
    ∀ u, u ∈ g.nodes → lookupD lk u = a → ∃ v, v ∈ g.nodes ∧ lookupD lk v = b ∧ Reach (g.adj d) u v := by
  induction hr with
  | refl => intro u hu e; exact ⟨u, hu, e, Reach.refl _⟩
  | @tail b' b'' _ hm ih =>
    intro u hu e
    obtain ⟨v, hv, ev, hrv⟩ := ih u hu e
    obtain ⟨x, y, hx, hy, ex, ey, hxy⟩ := step_up hc hs d hm
    exact ⟨y, hy, ey, (hrv.trans (hc.strong d hv hx (ev.trans ex.symm))).tail hxy⟩

/-- **lifting**: for a member `u`, reachability in the original graph is reachability of the containing
components in the component graph -/
theorem reach_iff (d : Dir) {u w : Nat} (hu : u ∈ g.nodes) :
    Reach (g.adj d) u w ↔ w ∈ g.nodes ∧ Reach (dg.adj d) (lookupD lk u) (lookupD lk w) := by
  constructor
  · intro h; exact ⟨hc.reach_nodes d hu h, reach_down hc hs d hu h⟩
  · rintro ⟨hw, h⟩
    obtain ⟨v, hv, ev, hrv⟩ := reach_up hc hs d h u hu rfl
    exact hrv.trans (hc.strong d hv hw ev)

end Lift

/-! ### every public answer of the repaired cache is the BFS answer -/

theorem mem_bitsBelow (r n i : Nat) : i ∈ bitsBelow r n ↔ i < n ∧ hasBit r i = true := by
  unfold bitsBelow; rw [List.mem_filter, List.mem_range]

theorem mem_membersOf {comps : List (List Nat)} {i w : Nat} :
    w ∈ membersOf comps i ↔ ∃ A, comps[i]? = some A ∧ w ∈ A := by
  unfold membersOf
  rw [List.getD_eq_getElem?_getD]
  cases h : comps[i]? with
  | none => simp
  | some A => simp

section Answers
variable {g : Digraph} {comps : List (List Nat)} {lk : List (Nat × Nat)} (hc : Cert g comps lk)
include hc

/-- the spec of the component graph built from a certified decomposition -/
theorem Cert.cgSpec : CGSpec g lk comps.length (componentGraphOf g comps lk).dg :=
  componentGraphOf_spec g lk hc.wf comps (fun v hv => hc.ci_lt hv)

theorem Cert.ci_of_mem {i w : Nat} {A : List Nat} (hA : comps[i]? = some A) (hw : w ∈ A) :
    w ∈ g.nodes ∧ lookupD lk w = i := by
  have h1 := compIndexOf_unique hc.scc.disjoint hA hw
  rw [← hc.lk_eq] at h1
  exact ⟨(hc.scc.cover w).2 (List.mem_flatten.2 ⟨A, List.mem_of_getElem? hA, hw⟩), lookupD_of_lookup h1⟩

/-- members of the components of an exact component reach set = BFS reach set in `g` -/
theorem mem_memberSlices (rc : RC) (hcg : rc.cg = componentGraphOf g comps lk) (d : Dir) (u : Nat) (hu : u ∈ g.nodes)
    (r : Nat) (hr : ExactBits (rc.cg.dg.adj d) (lookupD lk u) r) (w : Nat) :
    w ∈ (rc.memberSlices r).flatten ↔ w ∈ g.reachSet d u := by
  have hs := hc.cgSpec
  rw [← hcg] at hs
  have hcomps : rc.cg.comps = comps := by rw [hcg]; rfl
  rw [g.mem_reachSet, reach_iff hc hs d hu]
  unfold RC.memberSlices
  rw [hcomps, List.mem_flatten]
  constructor
  · rintro ⟨l, hl, hw⟩
    obtain ⟨i, hi, rfl⟩ := List.mem_map.1 hl
    obtain ⟨A, hA, hwA⟩ := mem_membersOf.1 hw
    have ⟨hwn, hci⟩ := hc.ci_of_mem hA hwA
    exact ⟨hwn, hci ▸ (hr i).1 ((mem_bitsBelow _ _ _).1 hi).2⟩
  · rintro ⟨hwn, hreach⟩
    obtain ⟨A, hA, hwA⟩ := hc.ci_get hwn
    exact ⟨membersOf comps (lookupD lk w),
      List.mem_map.2 ⟨lookupD lk w, (mem_bitsBelow _ _ _).2 ⟨hc.ci_lt hwn, (hr _).2 hreach⟩, rfl⟩,
      mem_membersOf.2 ⟨A, hA, hwA⟩⟩

theorem expectReach_member {u : Nat} (hu : u ∈ g.nodes) (d : Dir) : expectReach g u d = canon (g.reachSet d u) := by
  unfold expectReach
  have : g.nodes.contains u = true := by simpa using hu
  rw [this]; rfl

theorem expectReach_nonmember {u : Nat} (hu : u ∉ g.nodes) (d : Dir) : expectReach g u d = [] := by
  unfold expectReach
  have : g.nodes.contains u = false := by simpa using hu
  rw [this]; rfl

/-- `ReachOfComponentContainingMember` of the repaired cache -/
theorem reachOf_correct (rc : RC) (hcg : rc.cg = componentGraphOf g comps lk) (hf : rc.fixed = true) (hi : RCInv rc)
    (u : Nat) (d : Dir) :
    ∃ rc', rc.reachOf u d = some (rc', expectReach g u d) ∧ rc'.cg = rc.cg ∧ rc'.fixed = true ∧ RCInv rc' := by
  have hlk : rc.cg.lookup = lk := by rw [hcg]; rfl
  unfold RC.reachOf
  rw [hlk]
  by_cases hu : u ∈ g.nodes
  · rw [hc.lookup_some hu]
    simp only
    obtain ⟨rc', r, hq, hex, hi', hcg', hf'⟩ := rc.componentReach_fixed hf hi (lookupD lk u) d
    rw [hq]
    refine ⟨rc', ?_, hcg', hf', hi'⟩
    simp only
    rw [expectReach_member hc hu]
    congr 2
    apply canon_congr
    intro w
    have := mem_memberSlices hc rc' (hcg'.trans hcg) d u hu r (hcg' ▸ hex) w
    exact this
  · rw [hc.lookup_none hu, expectReach_nonmember hc hu]
    exact ⟨rc, rfl, rfl, hf, hi⟩

/-- `CanReach` -/
theorem canReach_correct (rc : RC) (hcg : rc.cg = componentGraphOf g comps lk) (u v : Nat) (d : Dir) :
    rc.canReach u v d = some (expectCanReach g u v d) := by
  have hlk : rc.cg.lookup = lk := by rw [hcg]; rfl
  have hs := hc.cgSpec
  rw [← hcg] at hs
  unfold RC.canReach expectCanReach
  rw [hlk]
  by_cases hu : u ∈ g.nodes
  · by_cases hv : v ∈ g.nodes
    · rw [hc.lookup_some hu, hc.lookup_some hv]
      simp only
      obtain ⟨b, hb, hbr⟩ := bidir_correct (rc.cg.dg.adj d) (rc.cg.dg.adj d.reverse) (Dir.reverse_conv hs.wf d)
        rc.cg.dg.nodes (rc.cg.dg.adj_sub_nodes d) (rc.cg.dg.adj_sub_nodes d.reverse) (lookupD lk u) (lookupD lk v)
        (bidirFuel rc.cg.dg.nodes.length) (Nat.le_refl _)
      unfold CompGraph.componentReachable
      rw [hb]
      have h1 : g.nodes.contains u = true := by simpa using hu
      have h2 : g.nodes.contains v = true := by simpa using hv
      rw [h1, h2]
      simp only [Bool.true_and]
      congr 1
      have hiff : b = true ↔ (g.reachSet d u).contains v = true := by
        rw [hbr, List.contains_iff_mem, g.mem_reachSet, reach_iff hc hs d hu]
        exact ⟨fun h => ⟨hv, h⟩, fun h => h.2⟩
      cases hb' : b <;> cases hc' : (g.reachSet d u).contains v <;> simp_all
    · rw [hc.lookup_some hu, hc.lookup_none hv]
      simp only
      have h2 : g.nodes.contains v = false := by simpa using hv
      rw [h2]; simp
  · rw [hc.lookup_none hu]
    simp only
    have h1 : g.nodes.contains u = false := by simpa using hu
    rw [h1]; simp

omit hc in
theorem mem_flatten_map_canon (L : List (List Nat)) (x : Nat) : x ∈ (L.map canon).flatten ↔ x ∈ L.flatten := by
  simp only [List.mem_flatten, List.mem_map]
  constructor
  · rintro ⟨l, ⟨l', hl', rfl⟩, hx⟩
    exact ⟨l', hl', (mem_canon x l').1 hx⟩
  · rintro ⟨l, hl, hx⟩
    exact ⟨canon l, ⟨l, hl, rfl⟩, (mem_canon x l).2 hx⟩

omit hc in
theorem judgeSet_none {got want : List Nat} (h : canon got = canon want) : judgeSet got want = none := by
  unfold judgeSet; rw [h]; simp

/-- the slices of a reach set are pairwise disjoint, duplicate free -/
theorem slices_nodup (r : Nat) : (((bitsBelow r comps.length).map (membersOf comps)).map canon).flatten.Nodup := by
  rw [List.map_map]
  unfold List.Nodup
  rw [List.pairwise_flatten]
  constructor
  · intro l hl
    obtain ⟨i, _, rfl⟩ := List.mem_map.1 hl
    exact nodup_canon _
  · apply List.Pairwise.map (R := fun a b => a ≠ b)
    · intro a b hab x hx y hy e
      subst e
      have hx' := (mem_canon x _).1 hx
      have hy' := (mem_canon x _).1 hy
      obtain ⟨A, hA, hxA⟩ := mem_membersOf.1 hx'
      obtain ⟨B, hB, hxB⟩ := mem_membersOf.1 hy'
      have h1 := compIndexOf_unique hc.scc.disjoint hA hxA
      have h2 := compIndexOf_unique hc.scc.disjoint hB hxB
      rw [h1] at h2
      exact hab (Option.some.inj h2)
    · have : (bitsBelow r comps.length).Nodup := List.nodup_range.filter _
      exact this

theorem mutualReach_iff (x w : Nat) : mutualReach g x w = true ↔ Reach g.outAdj x w ∧ Reach g.outAdj w x := by
  unfold mutualReach
  rw [Bool.and_eq_true, List.contains_iff_mem, List.contains_iff_mem, g.mem_reachSet, g.mem_reachSet]
  exact Iff.rfl

/-- every slice is exactly one SCC (by BFS) -/
theorem slice_is_scc {i : Nat} {A : List Nat} (hA : comps[i]? = some A) : sliceOK g (canon A) = true := by
  unfold sliceOK
  have hAm : A ∈ comps := List.mem_of_getElem? hA
  have hne : A ≠ [] := hc.scc.nonempty A hAm
  cases hca : canon A with
  | nil =>
    exfalso
    cases A with
    | nil => exact hne rfl
    | cons a A' =>
      have : a ∈ canon (a :: A') := (mem_canon _ _).2 (by simp)
      rw [hca] at this; simp at this
  | cons x rest =>
    simp only
    have hx : x ∈ A := (mem_canon x A).1 (by rw [hca]; simp)
    have ⟨hxn, hxi⟩ := hc.ci_of_mem hA hx
    rw [← hca, canon_canon]
    have : canon A = canon (g.nodes.filter (fun v => mutualReach g x v)) := by
      apply canon_congr
      intro w
      rw [List.mem_filter, mutualReach_iff hc]
      constructor
      · intro hw
        have ⟨hwn, _⟩ := hc.ci_of_mem hA hw
        exact ⟨hwn, (hc.scc.same_iff x w hxn hwn).1 ⟨A, hAm, hx, hw⟩⟩
      · rintro ⟨hwn, hm⟩
        have e := hc.ci_of_mutual hxn hwn hm
        obtain ⟨B, hB, hwB⟩ := hc.ci_get hwn
        rw [← e, hxi, hA] at hB
        exact (Option.some.inj hB) ▸ hwB
    rw [this]; simp

/-- `ReachSliceOfComponentContainingMember` of the repaired cache -/
theorem reachSlice_correct (rc : RC) (hcg : rc.cg = componentGraphOf g comps lk) (hf : rc.fixed = true) (hi : RCInv rc)
    (u : Nat) (d : Dir) :
    ∃ rc' sl, rc.reachSlice u d = some (rc', sl) ∧ (judgeSlices g u d (sl.map (·.map canon))).isNone = true ∧
      rc'.cg = rc.cg ∧ rc'.fixed = true ∧ RCInv rc' := by
  have hlk : rc.cg.lookup = lk := by rw [hcg]; rfl
  unfold RC.reachSlice
  rw [hlk]
  by_cases hu : u ∈ g.nodes
  · rw [hc.lookup_some hu]
    simp only
    obtain ⟨rc', r, hq, hex, hi', hcg', hf'⟩ := rc.componentReach_fixed hf hi (lookupD lk u) d
    rw [hq]
    refine ⟨rc', some (rc'.memberSlices r), rfl, ?_, hcg', hf', hi'⟩
    have hcomps : rc'.cg.comps = comps := by rw [hcg', hcg]; rfl
    have hmem := mem_memberSlices hc rc' (hcg'.trans hcg) d u hu r (hcg' ▸ hex)
    have h1 : g.nodes.contains u = true := by simpa using hu
    have hjs : judgeSet ((rc'.memberSlices r).map canon).flatten (expectReach g u d) = none := by
      apply judgeSet_none
      apply canon_congr
      intro w
      rw [mem_flatten_map_canon, hmem w, expectReach_member hc hu, mem_canon]
    have hnd : (((rc'.memberSlices r).map canon).flatten).Nodup := by
      unfold RC.memberSlices; rw [hcomps]; exact slices_nodup hc r
    have hall : ((rc'.memberSlices r).map canon).all (sliceOK g) = true := by
      rw [List.all_eq_true]
      intro s hs
      obtain ⟨l, hl, rfl⟩ := List.mem_map.1 hs
      unfold RC.memberSlices at hl
      rw [hcomps] at hl
      obtain ⟨i, hib, rfl⟩ := List.mem_map.1 hl
      have hik := ((mem_bitsBelow _ _ _).1 hib).1
      have hA : comps[i]? = some comps[i] := List.getElem?_eq_getElem hik
      have : membersOf comps i = comps[i] := by
        unfold membersOf; rw [List.getD_eq_getElem?_getD, hA]; rfl
      rw [this]
      exact slice_is_scc hc hA
    simp only [Option.map_some, judgeSlices, h1, Bool.not_true, Bool.false_eq_true, if_false, hjs,
      length_canon_of_nodup hnd, bne_self_eq_false]
    rw [if_pos hall]; rfl
  · rw [hc.lookup_none hu]
    refine ⟨rc, none, rfl, ?_, rfl, hf, hi⟩
    have h1 : g.nodes.contains u = false := by simpa using hu
    simp [judgeSlices, h1, hu]

omit hc in
theorem beq_self_list (l : List Nat) : (l == l) = true := by simp

/-- one public call of the repaired cache is accepted by the BFS spec and keeps the invariant -/
theorem step_correct (rc : RC) (hcg : rc.cg = componentGraphOf g comps lk) (hf : rc.fixed = true) (hi : RCInv rc)
    (op : Op) :
    ∃ rc' a, rc.step op = some (rc', a) ∧ accepts g op a = true ∧ rc'.cg = rc.cg ∧ rc'.fixed = true ∧ RCInv rc' := by
  cases op with
  | canReach u v d =>
    refine ⟨rc, .bool (expectCanReach g u v d), ?_, by simp [accepts], rfl, hf, hi⟩
    simp [RC.step, canReach_correct hc rc hcg u v d]
  | reach u d =>
    obtain ⟨rc', hq, h1, h2, h3⟩ := reachOf_correct hc rc hcg hf hi u d
    refine ⟨rc', .set (expectReach g u d), by simp [RC.step, hq], ?_, h1, h2, h3⟩
    have : canon (expectReach g u d) = expectReach g u d := by
      by_cases hu : u ∈ g.nodes
      · rw [expectReach_member hc hu, canon_canon]
      · rw [expectReach_nonmember hc hu]; rfl
    simp [accepts, this]
  | reachSlice u d =>
    obtain ⟨rc', sl, hq, hj, h1, h2, h3⟩ := reachSlice_correct hc rc hcg hf hi u d
    exact ⟨rc', .slices sl, by simp [RC.step, hq], by simpa [accepts] using hj, h1, h2, h3⟩
  | orReach u d dup =>
    obtain ⟨rc', hq, h1, h2, h3⟩ := reachOf_correct hc rc hcg hf hi u d
    refine ⟨rc', .set (expectOrReach g u d dup), ?_, ?_, h1, h2, h3⟩
    · simp [RC.step, RC.orReach, hq, expectOrReach]
    · have : canon (expectOrReach g u d dup) = expectOrReach g u d dup := by unfold expectOrReach; rw [canon_canon]
      simp [accepts, this]
  | xorReach u d dup =>
    obtain ⟨rc', hq, h1, h2, h3⟩ := reachOf_correct hc rc hcg hf hi u d
    refine ⟨rc', .set (expectXorReach g u d dup), ?_, ?_, h1, h2, h3⟩
    · simp [RC.step, RC.xorReach, hq, expectXorReach]
    · have : canon (expectXorReach g u d dup) = expectXorReach g u d dup := by unfold expectXorReach; rw [canon_canon]
      simp [accepts, this]

theorem runOps_correct (rc : RC) (hcg : rc.cg = componentGraphOf g comps lk) (hf : rc.fixed = true) (hi : RCInv rc)
    (ops : List Op) : ∃ answers, rc.runOps ops = some answers ∧ acceptsAll g ops answers = true := by
  induction ops generalizing rc with
  | nil => exact ⟨[], rfl, rfl⟩
  | cons o os ih =>
    obtain ⟨rc', a, hs, ha, h1, h2, h3⟩ := step_correct hc rc hcg hf hi o
    obtain ⟨as, hr, hall⟩ := ih rc' (h1.trans hcg) h2 h3
    refine ⟨a :: as, ?_, ?_⟩
    · simp [RC.runOps, hs, hr]
    · simp [acceptsAll, ha, hall]

end Answers

end Dawgs.C15
