/- Helper lemmas for C14: `BFSTree` reports SHORTEST walk lengths (queue monotonicity + relaxation). -/
import Dawgs.Proofs.C14Reach
set_option linter.unusedSimpArgs false
set_option linter.unusedVariables false
namespace Dawgs.C14

/-- `(x, d)` is the root at distance 0 or a reported terminal -/
def Known (s : Nat) (terms : List Term) (x d : Nat) : Prop :=
  (x = s ∧ d = 0) ∨ ∃ t ∈ terms, t.node = x ∧ t.dist = d

/-- every neighbour of `x` has been reported at distance ≤ `d + 1` -/
def Relaxed (adj : Nat → List Nat) (terms : List Term) (x d : Nat) : Prop :=
  ∀ a ∈ adj x, ∃ t ∈ terms, t.node = a ∧ t.dist ≤ d + 1

theorem Known.mono {s : Nat} {terms : List Term} {x d : Nat} (t' : Term) (h : Known s terms x d) :
    Known s (terms ++ [t']) x d := by
  rcases h with h | ⟨t, ht, h⟩
  · exact Or.inl h
  · exact Or.inr ⟨t, List.mem_append_left _ ht, h⟩

theorem Relaxed.mono {adj : Nat → List Nat} {terms : List Term} {x d : Nat} (t' : Term) (h : Relaxed adj terms x d) :
    Relaxed adj (terms ++ [t']) x d := by
  intro a ha
  obtain ⟨t, ht, h1, h2⟩ := h a ha
  exact ⟨t, List.mem_append_left _ ht, h1, h2⟩

/-- queue monotonicity and relaxation, between two `PopFront`s -/
structure BfsMin (adj : Nat → List Nat) (s : Nat) (st : BfsSt) : Prop where
  sorted : (st.queue.map (·.dist)).Pairwise (· ≤ ·)
  qbound : ∀ h, st.queue.head? = some h → ∀ t ∈ st.queue, t.dist ≤ h.dist + 1
  tbound : ∀ h, st.queue.head? = some h → ∀ t ∈ st.terms, t.dist ≤ h.dist + 1
  relax : ∀ x d, Known s st.terms x d → (⟨x, d⟩ : Term) ∈ st.queue ∨ Relaxed adj st.terms x d

theorem BfsMin.init (adj : Nat → List Nat) (s : Nat) : BfsMin adj s ⟨[⟨s, 0⟩], [], []⟩ where
  sorted := by simp
  qbound := by intro h hh t ht; simp at hh ht; subst hh; subst ht; simp
  tbound := by intro h _ t ht; cases ht
  relax := by
    intro x d hk
    rcases hk with ⟨rfl, rfl⟩ | ⟨t, ht, _⟩
    · exact Or.inl (by simp)
    · cases ht

/-- the state inside the callback loop of one `PopFront` of `(xn, D)`; `P` = neighbours already handled -/
structure FoldInv (adj : Nat → List Nat) (s xn D : Nat) (P : Nat → Prop) (st : BfsSt) : Prop where
  sorted : (st.queue.map (·.dist)).Pairwise (· ≤ ·)
  qrange : ∀ t ∈ st.queue, D ≤ t.dist ∧ t.dist ≤ D + 1
  tbound : ∀ t ∈ st.terms, t.dist ≤ D + 1
  relax : ∀ y e, Known s st.terms y e → (y = xn ∧ e = D) ∨ (⟨y, e⟩ : Term) ∈ st.queue ∨ Relaxed adj st.terms y e
  done : ∀ a, P a → ∃ t ∈ st.terms, t.node = a ∧ t.dist ≤ D + 1
  tvis : ∀ w, w ∈ st.visited ↔ ∃ t ∈ st.terms, t.node = w

theorem foldl_bfsVisit_min (adj : Nat → List Nat) (s xn D : Nat) (l : List Nat) :
    ∀ (P : Nat → Prop) (st : BfsSt), FoldInv adj s xn D P st →
      FoldInv adj s xn D (fun a => P a ∨ a ∈ l) (l.foldl (bfsVisit D) st) := by
  induction l with
  | nil =>
    intro P st inv
    exact { inv with done := by intro a ha; rcases ha with h | h
                                · exact inv.done a h
                                · cases h }
  | cons a l ih =>
    intro P st inv
    rw [List.foldl_cons]
    have key : FoldInv adj s xn D (fun b => P b ∨ b = a) (bfsVisit D st a) := by
      by_cases ha : a ∈ st.visited
      · rw [bfsVisit_pos ha]
        refine { inv with done := ?_ }
        rintro b (hb | rfl)
        · exact inv.done b hb
        · obtain ⟨t, ht, htn⟩ := (inv.tvis b).mp ha
          exact ⟨t, ht, htn, inv.tbound t ht⟩
      · rw [bfsVisit_neg ha]
        refine { sorted := ?_, qrange := ?_, tbound := ?_, relax := ?_, done := ?_, tvis := ?_ }
        · simp only [List.map_append, List.map_cons, List.map_nil]
          rw [List.pairwise_append]
          refine ⟨inv.sorted, by simp, ?_⟩
          intro d hd e he
          simp at he; subst he
          obtain ⟨t, ht, rfl⟩ := List.mem_map.mp hd
          exact (inv.qrange t ht).2
        · intro t ht
          rcases List.mem_append.mp ht with h | h
          · exact inv.qrange t h
          · simp at h; subst h; simp
        · intro t ht
          rcases List.mem_append.mp ht with h | h
          · exact inv.tbound t h
          · simp at h; subst h; simp
        · intro y e hk
          rcases hk with h | ⟨t, ht, h1, h2⟩
          · rcases inv.relax y e (Or.inl h) with h' | h' | h'
            · exact Or.inl h'
            · exact Or.inr (Or.inl (List.mem_append_left _ h'))
            · exact Or.inr (Or.inr (Relaxed.mono _ h'))
          · rcases List.mem_append.mp ht with ht | ht
            · rcases inv.relax y e (Or.inr ⟨t, ht, h1, h2⟩) with h' | h' | h'
              · exact Or.inl h'
              · exact Or.inr (Or.inl (List.mem_append_left _ h'))
              · exact Or.inr (Or.inr (Relaxed.mono _ h'))
            · simp at ht; subst ht
              simp only at h1 h2
              subst h1; subst h2
              exact Or.inr (Or.inl (by simp))
        · rintro b (hb | rfl)
          · obtain ⟨t, ht, h⟩ := inv.done b hb
            exact ⟨t, List.mem_append_left _ ht, h⟩
          · exact ⟨⟨b, D + 1⟩, by simp, rfl, Nat.le_refl _⟩
        · intro w
          simp only [mem_sinsert, List.mem_append, List.mem_singleton, inv.tvis w]
          constructor
          · rintro (rfl | ⟨t, ht, hw⟩)
            · exact ⟨⟨w, D + 1⟩, Or.inr rfl, rfl⟩
            · exact ⟨t, Or.inl ht, hw⟩
          · rintro ⟨t, ht | rfl, hw⟩
            · exact Or.inr ⟨t, ht, hw⟩
            · exact Or.inl hw.symm
    have := ih _ _ key
    refine { this with done := ?_ }
    intro b hb
    apply this.done b
    rcases hb with hb | hb
    · exact Or.inl (Or.inl hb)
    · rcases List.mem_cons.mp hb with rfl | hb
      · exact Or.inl (Or.inr rfl)
      · exact Or.inr hb

/-- one `PopFront` keeps `BfsMin` -/
theorem BfsMin.step {adj : Nat → List Nat} {s : Nat} {x : Term} {q : List Term} {vis : List Nat} {tm : List Term}
    (inv : BfsInv adj s ⟨x :: q, vis, tm⟩) (m : BfsMin adj s ⟨x :: q, vis, tm⟩) :
    BfsMin adj s ((adj x.node).foldl (bfsVisit x.dist) ⟨q, vis, tm⟩) := by
  have hsorted := m.sorted
  simp only [List.map_cons, List.pairwise_cons] at hsorted
  have start : FoldInv adj s x.node x.dist (fun _ => False) ⟨q, vis, tm⟩ := by
    refine { sorted := hsorted.2, qrange := ?_, tbound := ?_, relax := ?_, done := ?_, tvis := inv.tvis }
    · intro t ht
      exact ⟨hsorted.1 t.dist (List.mem_map.mpr ⟨t, ht, rfl⟩), m.qbound x rfl t (List.mem_cons_of_mem _ ht)⟩
    · intro t ht; exact m.tbound x rfl t ht
    · intro y e hk
      rcases m.relax y e hk with h | h
      · rcases List.mem_cons.mp h with h | h
        · left; cases x; simp at h; simp [h.1, h.2]
        · exact Or.inr (Or.inl h)
      · exact Or.inr (Or.inr h)
    · intro a ha; exact absurd ha id
  have fin := foldl_bfsVisit_min adj s x.node x.dist (adj x.node) _ _ start
  generalize (adj x.node).foldl (bfsVisit x.dist) ⟨q, vis, tm⟩ = st' at fin
  refine { sorted := fin.sorted, qbound := ?_, tbound := ?_, relax := ?_ }
  · intro h hh t ht
    have h1 := (fin.qrange h (List.mem_of_mem_head? hh)).1
    have h2 := (fin.qrange t ht).2
    omega
  · intro h hh t ht
    have h1 := (fin.qrange h (List.mem_of_mem_head? hh)).1
    have h2 := fin.tbound t ht
    omega
  · intro y e hk
    rcases fin.relax y e hk with ⟨rfl, rfl⟩ | h | h
    · right
      intro a ha
      exact fin.done a (Or.inr ha)
    · exact Or.inl h
    · exact Or.inr h

/-- at termination every known `(x, d)` is relaxed -/
theorem bfsLoop_relaxed (adj : Nat → List Nat) (s : Nat) : ∀ (fuel : Nat) (st : BfsSt) (ts : List Term),
    BfsInv adj s st → BfsMin adj s st → bfsLoop adj fuel st = some ts →
    ∀ x d, Known s ts x d → Relaxed adj ts x d := by
  intro fuel
  induction fuel with
  | zero =>
    intro st ts inv m h
    obtain ⟨q, vis, tm⟩ := st
    cases q with
    | nil =>
      rw [bfsLoop_nil] at h; cases h
      intro x d hk
      rcases m.relax x d hk with h | h
      · cases h
      · exact h
    | cons x q => rw [bfsLoop_zero] at h; cases h
  | succ fuel ih =>
    intro st ts inv m h
    obtain ⟨q, vis, tm⟩ := st
    cases q with
    | nil =>
      rw [bfsLoop_nil] at h; cases h
      intro x d hk
      rcases m.relax x d hk with h | h
      · cases h
      · exact h
    | cons x q =>
      rw [bfsLoop_succ] at h
      have invq : BfsInv adj s ⟨q, vis, tm⟩ :=
        { qwalk := fun t ht => inv.qwalk t (List.mem_cons_of_mem _ ht), twalk := inv.twalk, tvis := inv.tvis, nodup := inv.nodup }
      obtain ⟨inv', _, _⟩ := foldl_bfsVisit adj s x (inv.qwalk x (by simp)) (adj x.node) (fun a ha => ha) ⟨q, vis, tm⟩ invq
      exact ih _ ts inv' (BfsMin.step inv m) h

/-- relaxation at termination ⇒ every end of a `k`-step walk is reported at distance ≤ `k` -/
theorem relaxed_le_walk {adj : Nat → List Nat} {s : Nat} {ts : List Term}
    (hr : ∀ x d, Known s ts x d → Relaxed adj ts x d) :
    ∀ k w, w ∈ walkEnds adj s (k + 1) → ∃ t ∈ ts, t.node = w ∧ t.dist ≤ k + 1 := by
  intro k
  induction k with
  | zero =>
    intro w hw
    obtain ⟨u, hu, hwu⟩ := mem_walkEnds_succ.mp hw
    simp [walkEnds_zero] at hu; subst hu
    obtain ⟨t, ht, h1, h2⟩ := hr u 0 (Or.inl ⟨rfl, rfl⟩) w hwu
    exact ⟨t, ht, h1, by omega⟩
  | succ k ih =>
    intro w hw
    obtain ⟨u, hu, hwu⟩ := mem_walkEnds_succ.mp hw
    obtain ⟨tu, htu, h1, h2⟩ := ih u hu
    obtain ⟨t, ht, h3, h4⟩ := hr u tu.dist (Or.inr ⟨tu, htu, h1, rfl⟩) w hwu
    exact ⟨t, ht, h3, by omega⟩

theorem eq_of_nodup_map_node {ts : List Term} (h : (ts.map (·.node)).Nodup) {a b : Term} (ha : a ∈ ts) (hb : b ∈ ts)
    (hab : a.node = b.node) : a = b := by
  induction ts with
  | nil => cases ha
  | cons c ts ih =>
    rw [List.map_cons, List.nodup_cons] at h
    rcases List.mem_cons.mp ha with rfl | ha' <;> rcases List.mem_cons.mp hb with rfl | hb'
    · rfl
    · exact absurd (List.mem_map.mpr ⟨b, hb', hab.symm⟩) h.1
    · exact absurd (List.mem_map.mpr ⟨a, ha', hab⟩) h.1
    · exact ih h.2 ha' hb'

/-- `BFSTree`: whatever fuel it is given, a completed run reports each ≥1-step reachable node exactly once,
with the length of a SHORTEST walk. -/
theorem bfsTree_correct (adj : Nat → List Nat) (fuel s : Nat) (ts : List Term) (h : bfsTree adj fuel s = some ts) :
    (ts.map (·.node)).Nodup ∧ (∀ w, (∃ t ∈ ts, t.node = w) ↔ Reachable adj s w) ∧
    (∀ t ∈ ts, IsDist adj s t.node t.dist) := by
  unfold bfsTree at h
  obtain ⟨hwalk, hnodup, r, hr, hrw⟩ := bfsLoop_sim adj s fuel _ ts (BfsInv.init adj s) h
  have hreach := reachLoop_correct adj s fuel [s] [] r (ReachInv.init adj s) (by simpa using hr)
  have hrel := bfsLoop_relaxed adj s fuel _ ts (BfsInv.init adj s) (BfsMin.init adj s) h
  refine ⟨hnodup, fun w => by rw [← hrw w, hreach w], ?_⟩
  intro t ht
  refine ⟨(hwalk t ht).1, (hwalk t ht).2, ?_⟩
  intro k hk1 hk2 hmem
  obtain ⟨k', rfl⟩ : ∃ k', k = k' + 1 := ⟨k - 1, by omega⟩
  obtain ⟨t', ht', hn, hd⟩ := relaxed_le_walk hrel k' t.node hmem
  have := eq_of_nodup_map_node hnodup ht' ht hn
  subst this
  omega

theorem bfsTree_total (adj : Nat → List Nat) (nodes : List Nat) (hadj : ∀ v w, w ∈ adj v → w ∈ nodes) (s : Nat) :
    (bfsTree adj (nodes.length + 1) s).isSome := by
  unfold bfsTree
  apply bfsLoop_total adj s _ _ (BfsInv.init adj s)
  have := reach_total adj nodes hadj s
  unfold reach at this
  simpa using this

end Dawgs.C14
