/- C18: the metrics histograms are invariant under the loader's node correspondence, hence Verify accepts
the loaded graph (helper lemmas; the statement is in Props/C18.lean). -/
import Dawgs.Proofs.C18
set_option linter.unusedSimpArgs false
set_option linter.unusedVariables false
namespace Dawgs.C18

section MetricsInv

theorem histAgree_of_perm {κ : Type} [BEq κ] [LawfulBEq κ] {a b : List κ} (h : a.Perm b) : HistAgree a b :=
  (histAgree_iff_perm a b).mpr h

theorem lookupKinds_of_mem (nodes : List (Nat × List String)) (hnd : (nodes.map (fun p => p.1)).Nodup)
    (p : Nat × List String) (hp : p ∈ nodes) : lookupKinds nodes p.1 = some p.2 := by
  unfold lookupKinds
  induction nodes with
  | nil => simp at hp
  | cons a t ih =>
    simp only [List.map_cons, List.nodup_cons] at hnd
    rw [List.find?_cons]
    rcases List.mem_cons.mp hp with h | h
    · subst h; simp
    · have : a.1 ≠ p.1 := by intro he; apply hnd.1; rw [he]; exact List.mem_map.mpr ⟨p, h, rfl⟩
      have : (a.1 == p.1) = false := by simpa using this
      rw [this]
      exact ih hnd.2 h

theorem kindKey_sortKinds (ks : List String) : kindKey (sortKinds ks) = kindKey ks := by
  unfold kindKey
  have : sortKinds (sortKinds ks) = sortKinds ks := by
    unfold sortKinds
    apply List.mergeSort_of_pairwise
    exact List.pairwise_mergeSort
      (by intro a b c h1 h2; simp only [decide_eq_true_eq] at *; exact String.le_trans h1 h2)
      (by intro a b; simp only [Bool.or_eq_true, decide_eq_true_eq]; exact String.le_total a b) ks
  rw [this]

/-- the observation streams of a renamed, permuted copy of a graph give agreeing metrics -/
theorem metrics_invariant (N N' : List (Nat × List String)) (E E' : List (Nat × Nat × String)) (φ : Nat → Nat)
    (hNnd : (N.map (fun p => p.1)).Nodup)
    (hinj : ∀ a ∈ N.map (fun p => p.1), ∀ b ∈ N.map (fun p => p.1), φ a = φ b → a = b)
    (hE : ∀ e ∈ E, e.1 ∈ N.map (fun p => p.1) ∧ e.2.1 ∈ N.map (fun p => p.1))
    (hN' : N'.Perm (N.map (fun p => (φ p.1, sortKinds p.2))))
    (hE' : E'.Perm (E.map (fun e => (φ e.1, φ e.2.1, e.2.2))))
    (m : Metrics) (hm : metricsOf N E = some m) :
    ∃ m', metricsOf N' E' = some m' ∧ MetricsAgree m m' := by
  -- ids of N' are distinct
  have hids' : (N'.map (fun p => p.1)).Perm (N.map (fun p => φ p.1)) := by
    have := hN'.map (fun p => p.1); rw [List.map_map] at this; exact this
  have hN'nd : (N'.map (fun p => p.1)).Nodup := by
    rw [hids'.nodup_iff]
    have : (N.map (fun p => φ p.1)) = (N.map (fun p => p.1)).map φ := by rw [List.map_map]; rfl
    rw [this]
    rw [List.Nodup, List.pairwise_map]
    exact (List.Pairwise.and_mem.mp hNnd).imp (fun ⟨ha, hb, hab⟩ heq => hab (hinj _ ha _ hb heq))
  -- looking up a renamed id in N' finds the renamed node
  have hlook : ∀ p ∈ N, lookupKinds N' (φ p.1) = some (sortKinds p.2) := by
    intro p hp
    have hmem : (φ p.1, sortKinds p.2) ∈ N' := hN'.mem_iff.mpr (List.mem_map.mpr ⟨p, hp, rfl⟩)
    exact lookupKinds_of_mem N' hN'nd _ hmem
  have hlookN : ∀ p ∈ N, lookupKinds N p.1 = some p.2 := fun p hp => lookupKinds_of_mem N hNnd p hp
  -- the key of the node at a renamed id
  have hkey : ∀ x ∈ N.map (fun p => p.1), kindKey ((lookupKinds N' (φ x)).getD []) = kindKey ((lookupKinds N x).getD []) := by
    intro x hx
    obtain ⟨p, hp, rfl⟩ := List.mem_map.mp hx
    rw [hlook p hp, hlookN p hp]
    simp [kindKey_sortKinds]
  -- every endpoint of E' resolves
  have hsome : ∃ m', metricsOf N' E' = some m' := by
    apply metricsOf_isSome
    intro e' he'
    obtain ⟨e, he, rfl⟩ := List.mem_map.mp (hE'.mem_iff.mp he')
    obtain ⟨h1, h2⟩ := hE e he
    obtain ⟨p1, hp1, e1⟩ := List.mem_map.mp h1
    obtain ⟨p2, hp2, e2⟩ := List.mem_map.mp h2
    refine ⟨⟨(φ p1.1, sortKinds p1.2), hN'.mem_iff.mpr (List.mem_map.mpr ⟨p1, hp1, rfl⟩), by simp [e1]⟩,
            ⟨(φ p2.1, sortKinds p2.2), hN'.mem_iff.mpr (List.mem_map.mpr ⟨p2, hp2, rfl⟩), by simp [e2]⟩⟩
  obtain ⟨m', hm'⟩ := hsome
  refine ⟨m', hm', ?_⟩
  -- unfold both metrics
  unfold metricsOf at hm hm'
  split at hm
  · split at hm'
    · simp only [Option.some.injEq] at hm hm'
      subst hm; subst hm'
      -- degree of a renamed id in E' equals the degree of the id in E
      have degIn : ∀ x ∈ N.map (fun p => p.1), (E'.filter (fun e => e.2.1 == φ x)).length = (E.filter (fun e => e.2.1 == x)).length := by
        intro x hx
        rw [(hE'.filter _).length_eq, List.filter_map, List.length_map]
        congr 1
        apply List.filter_congr
        intro e he
        have hd := (hE e he).2
        by_cases h : e.2.1 = x
        · simp [h]
        · have : φ e.2.1 ≠ φ x := fun heq => h (hinj _ hd _ hx heq)
          have a1 : (φ e.2.1 == φ x) = false := by simpa using this
          have a2 : (e.2.1 == x) = false := by simpa using h
          simp only [Function.comp, a1, a2]
      have degOut : ∀ x ∈ N.map (fun p => p.1), (E'.filter (fun e => e.1 == φ x)).length = (E.filter (fun e => e.1 == x)).length := by
        intro x hx
        rw [(hE'.filter _).length_eq, List.filter_map, List.length_map]
        congr 1
        apply List.filter_congr
        intro e he
        have hd := (hE e he).1
        by_cases h : e.1 = x
        · simp [h]
        · have : φ e.1 ≠ φ x := fun heq => h (hinj _ hd _ hx heq)
          have a1 : (φ e.1 == φ x) = false := by simpa using this
          have a2 : (e.1 == x) = false := by simpa using h
          simp only [Function.comp, a1, a2]
      refine ⟨?_, ?_, ?_, ?_, ?_, ?_, ?_, ?_⟩
      · show N.length = N'.length
        rw [hN'.length_eq, List.length_map]
      · show E.length = E'.length
        rw [hE'.length_eq, List.length_map]
      · -- node kind sets
        apply histAgree_of_perm
        have := (hN'.map (fun n => kindKey n.2)).symm
        simp only [List.map_map] at this
        refine List.Perm.trans ?_ this
        apply List.Perm.of_eq
        apply List.map_congr_left
        intro p _
        simp [kindKey_sortKinds]
      · apply histAgree_of_perm
        have := (hE'.map (fun e => e.2.2)).symm
        simp only [List.map_map] at this
        refine List.Perm.trans ?_ this
        apply List.Perm.of_eq
        apply List.map_congr_left
        intro e _; rfl
      · -- in degree
        apply histAgree_of_perm
        have := (hN'.map (fun n => (E'.filter (fun e => e.2.1 == n.1)).length)).symm
        simp only [List.map_map] at this
        refine List.Perm.trans ?_ this
        apply List.Perm.of_eq
        apply List.map_congr_left
        intro p hp
        simp only [Function.comp]
        exact (degIn p.1 (List.mem_map.mpr ⟨p, hp, rfl⟩)).symm
      · apply histAgree_of_perm
        have := (hN'.map (fun n => (E'.filter (fun e => e.1 == n.1)).length)).symm
        simp only [List.map_map] at this
        refine List.Perm.trans ?_ this
        apply List.Perm.of_eq
        apply List.map_congr_left
        intro p hp
        simp only [Function.comp]
        exact (degOut p.1 (List.mem_map.mpr ⟨p, hp, rfl⟩)).symm
      · apply histAgree_of_perm
        have := (hN'.map (fun n => (E'.filter (fun e => e.2.1 == n.1)).length + (E'.filter (fun e => e.1 == n.1)).length)).symm
        simp only [List.map_map] at this
        refine List.Perm.trans ?_ this
        apply List.Perm.of_eq
        apply List.map_congr_left
        intro p hp
        simp only [Function.comp]
        rw [degIn p.1 (List.mem_map.mpr ⟨p, hp, rfl⟩), degOut p.1 (List.mem_map.mpr ⟨p, hp, rfl⟩)]
      · -- endpoint kind triples
        apply histAgree_of_perm
        have := (hE'.map (fun e => (kindKey ((lookupKinds N' e.1).getD []), e.2.2, kindKey ((lookupKinds N' e.2.1).getD [])))).symm
        simp only [List.map_map] at this
        refine List.Perm.trans ?_ this
        apply List.Perm.of_eq
        apply List.map_congr_left
        intro e he
        simp only [Function.comp]
        rw [hkey e.1 (hE e he).1, hkey e.2.1 (hE e he).2]
    · cases hm'
  · cases hm

end MetricsInv

/-- Verify accepts what `Load` built from the dump of a well-formed graph -/
theorem verify_loaded {P : Type} (g : Graph P) (hw : WF g) (alloc allocE : Nat → Nat)
    (halloc : ∀ a b, alloc a = alloc b → a = b) (nc ec : Nat) (m : Metrics)
    (hm : metricsOf (dumpNodeObs g) (dumpEdgeObs g) = some m) :
    verify m (newNodes alloc nc ((sortedNodes g).map Node.toRec))
      (newEdges allocE (phiOf (newMap alloc nc ((sortedNodes g).map Node.toRec))) ec ((sortedEdges g).map Edge.toRec)) = .ok := by
  have hperm : (sortedNodes g).Perm g.nodes := sortBy_perm _ _
  have hpermE : (sortedEdges g).Perm g.edges := sortBy_perm _ _
  have hN : ((sortedNodes g).map (fun n => n.id)).Nodup := (hperm.map _).nodup_iff.mpr hw.nodeIds
  have hE : ∀ e ∈ sortedEdges g, e.src ∈ (sortedNodes g).map (fun n => n.id) ∧ e.dst ∈ (sortedNodes g).map (fun n => n.id) := by
    intro e he
    obtain ⟨⟨n1, hn1, h1⟩, ⟨n2, hn2, h2⟩⟩ := hw.endpoints e (hpermE.mem_iff.mp he)
    exact ⟨List.mem_map.mpr ⟨n1, hperm.mem_iff.mpr hn1, h1⟩, List.mem_map.mpr ⟨n2, hperm.mem_iff.mpr hn2, h2⟩⟩
  have hiso := iso_of_load g hw alloc allocE halloc nc ec
  have hndr : (((sortedNodes g).map Node.toRec).map (fun r => r.id)).Nodup := by rw [toRec_ids]; exact hN
  have hnodes := newNodes_eq_map alloc ((sortedNodes g).map Node.toRec) nc hndr
  rw [verify_ok_iff]
  show ∃ actual, graphMetrics (newNodes alloc nc ((sortedNodes g).map Node.toRec))
      (newEdges allocE (phiOf (newMap alloc nc ((sortedNodes g).map Node.toRec))) ec ((sortedEdges g).map Edge.toRec)) = some actual ∧
      MetricsAgree m actual
  unfold graphMetrics
  apply metrics_invariant (dumpNodeObs g) _ (dumpEdgeObs g) _ (phiOf (newMap alloc nc ((sortedNodes g).map Node.toRec)))
  · -- distinct ids in the dump's node stream
    have : (dumpNodeObs g).map (fun p => p.1) = (sortedNodes g).map (fun n => n.id) := by
      unfold dumpNodeObs; rw [List.map_map]; rfl
    rw [this]; exact hN
  · -- the id map is injective on them
    have : (dumpNodeObs g).map (fun p => p.1) = (sortedNodes g).map (fun n => n.id) := by
      unfold dumpNodeObs; rw [List.map_map]; rfl
    rw [this]
    intro a ha b hb hab
    exact hiso.inj a ((hperm.map _).mem_iff.mp ha) b ((hperm.map _).mem_iff.mp hb) hab
  · -- endpoints are nodes
    have : (dumpNodeObs g).map (fun p => p.1) = (sortedNodes g).map (fun n => n.id) := by
      unfold dumpNodeObs; rw [List.map_map]; rfl
    rw [this]
    intro e he
    obtain ⟨e', he', rfl⟩ := List.mem_map.mp he
    exact hE e' he'
  · -- the destination's node stream is a permutation of the renamed source stream
    refine ((sortBy_perm _ _).map _).trans ?_
    rw [hnodes]
    apply List.Perm.of_eq
    unfold dumpNodeObs
    simp only [List.map_map]
    apply List.map_congr_left
    intro n _
    rfl
  · refine ((sortBy_perm _ _).map _).trans ?_
    apply List.Perm.of_eq
    have hs := newEdges_strip allocE (phiOf (newMap alloc nc ((sortedNodes g).map Node.toRec))) ((sortedEdges g).map Edge.toRec) ec
    have := congrArg (List.map (fun t : Nat × Nat × String × P => (t.1, t.2.1, t.2.2.1))) hs
    simp only [List.map_map] at this
    unfold dumpEdgeObs
    simp only [List.map_map]
    exact this
  · exact hm

end Dawgs.C18
