/- C18: the metrics histograms are invariant under the loader's node correspondence, hence Verify accepts
the loaded graph (helper lemmas; the statement is in Props/C18.lean). -/
import Dawgs.Proofs.C18
set_option linter.unusedSimpArgs false
set_option linter.unusedVariables false
namespace Dawgs.C18

section MetricsInv

theorem histAgree_of_perm {κ : Type} [BEq κ] [LawfulBEq κ] {a b : List κ} (h : a.Perm b) : HistAgree a b :=
  (histAgree_iff_perm a b).mpr h

theorem lookupKinds_of_mem (nodes : List (Nat × List String)) (hnd : (nodes.map (fun p => p.1)).Nodup)
    (p : Nat × List String) (hp : p ∈ nodes) : lookupKinds nodes p.1 = some p.2 := by
  unfold lookupKinds
  induction nodes with
  | nil => simp at hp
  | cons a t ih =>
    simp only [List.map_cons, List.nodup_cons] at hnd
    rw [List.find?_cons]
    rcases List.mem_cons.mp hp with h | h
    · subst h; simp
    · have : a.1 ≠ p.1 := by intro he; apply hnd.1; rw [he]; exact List.mem_map.mpr ⟨p, h, rfl⟩
      have : (a.1 == p.1) = false := by simpa using this
      rw [this]
      exact ih hnd.2 h

theorem kindKey_sortKinds (ks : List String) : kindKey (sortKinds ks) = kindKey ks := by
  unfold kindKey
  have : sortKinds (sortKinds ks) = sortKinds ks := by
    unfold sortKinds
    apply List.mergeSort_of_pairwise
    exact List.pairwise_mergeSort
      (by intro a b c h1 h2; simp only [decide_eq_true_eq] at *; exact String.le_trans h1 h2)
      (by intro a b; simp only [Bool.or_eq_true, decide_eq_true_eq]; exact String.le_total a b) ks
  rw [this]

/-- the observation streams of a renamed, permuted copy of a graph give agreeing metrics -/
theorem metrics_invariant (N N' : List (Nat × List String)) (E E' : List (Nat × Nat × String)) (φ : Nat → Nat)
    (hNnd : (N.map (fun p => p.1)).Nodup)
    (hinj : ∀ a ∈ N.map (fun p => p.1), ∀ b ∈ N.map (fun p => p.1), φ a = φ b → a = b)
    (hE : ∀ e ∈ E, e.1 ∈ N.map (fun p => p.1) ∧ e.2.1 ∈ N.map (fun p => p.1))
    (hN' : N'.Perm (N.map (fun p => (φ p.1, sortKinds p.2))))
    (hE' : E'.Perm (E.map (fun e => (φ e.1, φ e.2.1, e.2.2))))
    (m : Metrics) (hm : metricsOf N E = some m) :
    ∃ m', metricsOf N' E' = some m' ∧ MetricsAgree m m' := by
  -- ids of N' are distinct
  have hids' : (N'.map (fun p => p.1)).Perm (N.map (fun p => φ p.1)) := by
    have := hN'.map (fun p => p.1); rw [List.map_map] at this; exact this
  have hN'nd : (N'.map (fun p => p.1)).Nodup := by
    rw [hids'.nodup_iff]
    have : (N.map (fun p => φ p.1)) = (N.map (fun p => p.1)).map φ := by rw [List.map_map]; rfl
    rw [this]
    rw [List.Nodup, List.pairwise_map]
    exact (List.Pairwise.and_mem.mp hNnd).imp (fun ⟨ha, hb, hab⟩ heq => hab (hinj _ ha _ hb heq))
  -- looking up a renamed id in N' finds the renamed node
  have hlook : ∀ p ∈ N, lookupKinds N' (φ p.1) = some (sortKinds p.2) := by
    intro p hp
    have hmem : (φ p.1, sortKinds p.2) ∈ N' := hN'.mem_iff.mpr (List.mem_map.mpr ⟨p, hp, rfl⟩)
    exact lookupKinds_of_mem N' hN'nd _ hmem
  have hlookN : ∀ p ∈ N, lookupKinds N p.1 = some p.2 := fun p hp => lookupKinds_of_mem N hNnd p hp
  -- the key of the node at a renamed id
  have hkey : ∀ x ∈ N.map (fun p => p.1), kindKey ((lookupKinds N' (φ x)).getD []) = kindKey ((lookupKinds N x).getD []) := by
    intro x hx
    obtain ⟨p, hp, rfl⟩ := List.mem_map.mp hx
    rw [hlook p hp, hlookN p hp]
    simp [kindKey_sortKinds]
  -- every endpoint of E' resolves
  have hsome : ∃ m', metricsOf N' E' = some m' := by
    apply metricsOf_isSome
    intro e' he'
    obtain ⟨e, he, rfl⟩ := List.mem_map.mp (hE'.mem_iff.mp he')
    obtain ⟨h1, h2⟩ := hE e he
    obtain ⟨p1, hp1, e1⟩ := List.mem_map.mp h1
    obtain ⟨p2, hp2, e2⟩ := List.mem_map.mp h2
    refine ⟨⟨(φ p1.1, sortKinds p1.2), hN'.mem_iff.mpr (List.mem_map.mpr ⟨p1, hp1, rfl⟩), by simp [e1]⟩,
            ⟨(φ p2.1, sortKinds p2.2), hN'.mem_iff.mpr (List.mem_map.mpr ⟨p2, hp2, rfl⟩), by simp [e2]⟩⟩
  obtain ⟨m', hm'⟩ := hsome
  refine ⟨m', hm', ?_⟩
  -- unfold both metrics
  unfold metricsOf at hm hm'
  split at hm
  · split at hm'
    · simp only [Option.some.injEq] at hm hm'
      subst hm; subst hm'
      -- degree of a renamed id in E' equals the degree of the id in E
      have degIn : ∀ x ∈ N.map (fun p => p.1), (E'.filter (fun e => e.2.1 == φ x)).length = (E.filter (fun e => e.2.1 == x)).length := by
        intro x hx
        rw [(hE'.filter _).length_eq, List.filter_map, List.length_map]
        congr 1
        apply List.filter_congr
        intro e he
        have hd := (hE e he).2
        by_cases h : e.2.1 = x
        · simp [h]
        · have : φ e.2.1 ≠ φ x := fun heq => h (hinj _ hd _ hx heq)
          have a1 : (φ e.2.1 == φ x) = false := by simpa using this
          have a2 : (e.2.1 == x) = false := by simpa using h
          simp only [Function.comp, a1, a2]
      have degOut : ∀ x ∈ N.map (fun p => p.1), (E'.filter (fun e => e.1 == φ x)).length = (E.filter (fun e => e.1 == x)).length := by
        intro x hx
        rw [(hE'.filter _).length_eq, List.filter_map, List.length_map]
        congr 1
        apply List.filter_congr
        intro e he
        have hd := (hE e he).1
        by_cases h : e.1 = x
        · simp [h]
        · have : φ e.1 ≠ φ x := fun heq => h (hinj _ hd _ hx heq)
          have a1 : (φ e.1 == φ x) = false := by simpa using this
          have a2 : (e.1 == x) = false := by simpa using h
          simp only [Function.comp, a1, a2]
      refine ⟨?_, ?_, ?_, ?_, ?_, ?_, ?_, ?_⟩
      · show N.length = N'.length
        rw [hN'.length_eq, List.length_map]
      · show E.length = E'.length
        rw [hE'.length_eq, List.length_map]
      · -- node kind sets
        apply histAgree_of_perm
        have := (hN'.map (fun n => kindKey n.2)).symm
        simp only [List.map_map] at this
        refine List.Perm.trans ?_ this
        apply List.Perm.of_eq
        apply List.map_congr_left
        intro p _
        simp [kindKey_sortKinds]
      · apply histAgree_of_perm
        have := (hE'.map (fun e => e.2.2)).symm
        simp only [List.map_map] at this
        refine List.Perm.trans ?_ this
        apply List.Perm.of_eq
        apply List.map_congr_left
        intro e _; rfl
      · -- in degree
        apply histAgree_of_perm
        have := (hN'.map (fun n => (E'.filter (fun e => e.2.1 == n.1)).length)).symm
        simp only [List.map_map] at this
        refine List.Perm.trans ?_ this
        apply List.Perm.of_eq
        apply List.map_congr_left
        intro p hp
        simp only [Function.comp]
        exact (degIn p.1 (List.mem_map.mpr ⟨p, hp, rfl⟩)).symm
      · apply histAgree_of_perm
        have := (hN'.map (fun n => (E'.filter (fun e => e.1 == n.1)).length)).symm
        simp only [List.map_map] at this
        refine List.Perm.trans ?_ this
        apply List.Perm.of_eq
        apply List.map_congr_left
        intro p hp
        simp only [Function.comp]
        exact (degOut p.1 (List.mem_map.mpr ⟨p, hp, rfl⟩)).symm
      · apply histAgree_of_perm
        have := (hN'.map (fun n => (E'.filter (fun e => e.2.1 == n.1)).length + (E'.filter (fun e => e.1 == n.1)).length)).symm
        simp only [List.map_map] at this
        refine List.Perm.trans ?_ this
        apply List.Perm.of_eq
        apply List.map_congr_left
        intro p hp
        simp only [Function.comp]
        rw [degIn p.1 (List.mem_map.mpr ⟨p, hp, rfl⟩), degOut p.1 (List.mem_map.mpr ⟨p, hp, rfl⟩)]
      · -- endpoint kind triples
        apply histAgree_of_perm
        have := (hE'.map (fun e => (kindKey ((lookupKinds N' e.1).getD []), e.2.2, kindKey ((lookupKinds N' e.2.1).getD [])))).symm
        simp only [List.map_map] at this
        refine List.Perm.trans ?_ this
        apply List.Perm.of_eq
        apply List.map_congr_left
        intro e he
        simp only [Function.comp]
        rw [hkey e.1 (hE e he).1, hkey e.2.1 (hE e he).2]
    · cases hm'
  · cases hm

end MetricsInv
end Dawgs.C18
