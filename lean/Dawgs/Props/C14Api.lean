/-
C14 — the factory / builder surface of package container is covered by the c14 suite.

`Dawgs.Generated.C14Api` is regenerated on every run from container/*.go and container/util/*.go (tools/extract/goext,
mode c14api): every exported function or method whose result list mentions DirectedGraph, MutableDirectedGraph,
Triplestore, MutableTriplestore or DigraphBuilder. A new constructor (or a renamed one) makes `constructors_covered` /
`covered_exist` stop checking, i.e. the check turns red until the entry point is an op of the suite or is exempted here
with a reason.
-/
import Dawgs.Generated.C14Api
namespace Dawgs.C14.Api
open Dawgs.Generated

/-- entry point ↦ the op line(s) of harness/c14.go that drive it -/
def covered : List (String × String) := [
  ("container.NewAdjacencyMapGraph", "graph (container am), then node / edge"),
  ("container.BuildAdjacencyMapGraph", "build DESC (container fam)"),
  ("container.NewCSRDigraphBuilder", "graph / node / edge (container csr); build DESC via util.BuildGraph (container fcsr)"),
  ("container.CSRDigraphBuilder.Build", "every query on csr, fcsr"),
  ("util.BuildGraph", "build DESC (container fcsr)"),
  ("container.NewTriplestore", "graph (container ts), then node / edge / tsdel"),
  ("container.triplestore.Projection", "proj H store N E [providers]"),
  ("container.triplestoreProjection.Projection", "proj H PARENT N E [providers], proj2"),
  ("container.FetchDirectedGraph", "fetch all (container fetch, stub graph.Database)"),
  ("container.FetchFilteredDirectedGraph", "fetch k0 | k1 (container fetch)"),
  ("container.adjacencyMapDigraph.Normalize", "norm am D"),
  ("container.csrDigraph.Normalize", "norm csr D")
]

/-- entry points deliberately not driven, with the reason (none at present) -/
def exempt : List (String × String) := []

/-- every exported function returning a graph container is an op of the suite or exempt -/
theorem constructors_covered :
    ∀ c ∈ C14Api.constructors, c.1 ∈ covered.map (·.1) ∨ c.1 ∈ exempt.map (·.1) := by decide

/-- and the table has no stale rows: everything it claims to drive still exists -/
theorem covered_exist :
    ∀ c ∈ covered ++ exempt, c.1 ∈ C14Api.constructors.map (·.1) := by decide

end Dawgs.C14.Api
